(* C08/Proofs.v — MapShards: loop invariants and the main results.
   PSga.v: sort / sort.Search / sgList;  PMeta.v: CreateShardGroup. *)
From Coq Require Import Permutation.
From Verif Require Import Lib.Bytes C08.Model C08.Spec C08.PSga C08.PMeta.
From VerifGen Require Import Consts.
From Coq Require Import ZifyBool ZifyNat ZifyN.
Open Scope Z_scope.

(* ---------- shard choice ---------- *)
Lemma shard_for_of g key :
  (length (g_shards g) =? 0)%nat = false ->
  exists s, shard_for g key = Ok s /\ shard_of g key = Some s.
Proof.
  intros Hne. unfold shard_for, shard_of.
  destruct (g_shards g) as [|s0 [|s1 r]] eqn:Es.
  - discriminate.
  - exists s0. split; [reflexivity|]. cbn [length]. change (N.of_nat 1) with 1%N.
    rewrite N.mod_1_r. reflexivity.
  - set (shs := s0 :: s1 :: r) in *. set (n := N.of_nat (length shs)).
    assert (Hn : (n <> 0)%N) by (unfold n, shs; cbn [length]; lia).
    destruct (n =? 0)%N eqn:En; [lia|].
    pose proof (N.mod_lt (fnv64a key) n Hn) as Hlt.
    destruct (nth_error shs (N.to_nat (fnv64a key mod n)%N)) as [s|] eqn:E.
    + exists s. split; reflexivity.
    + apply nth_error_None in E. unfold n in Hlt. lia.
Qed.

(* ---------- first loop ---------- *)
Definition inv1 (m : meta) (l : sglist) : Prop :=
  meta_ok m /\ sl_bounds l /\
  forall g, In g (items l) -> In g (m_groups m) /\ g_deleted g = false.

(* the part of params_ok that the loops use *)
Definition contract (rp : policy) (minT : Z) (nodes : N) (pts : list point) : Prop :=
  (0 < nodes)%N /\ 0 < rp_sd rp < 9223372036854775808 /\
  forall p, In p pts -> minT <= p_time p -> c08_min_nano_time <= p_time p <= c08_max_nano_time.

Lemma contract_tail rp minT nodes p pts : contract rp minT nodes (p :: pts) -> contract rp minT nodes pts.
Proof. intros (A & B & C). split; [exact A|]. split; [exact B|]. intros q Hq. apply C. right. exact Hq. Qed.

Lemma wf_in m g : meta_ok m -> In g (m_groups m) -> wf_group g = true.
Proof. intros [Hwf _] Hin. rewrite forallb_forall in Hwf. apply Hwf. exact Hin. Qed.

Lemma wf_nonzero g : wf_group g = true -> g_start g <> zero_time /\ g_end g <> zero_time.
Proof. unfold wf_group. intros H. lia. Qed.

Lemma loop1_spec rp minT : forall pts m l,
  inv1 m l -> contract rp minT (m_nodes m) pts ->
  exists m' l', loop1 eff_end rp minT pts m l = Ok (m', l') /\
    inv1 m' l' /\ incl (m_groups m) (m_groups m') /\ m_nodes m' = m_nodes m /\
    incl (items l) (items l') /\
    forall p, In p pts -> minT <= p_time p ->
      exists g, In g (items l') /\ eff_covers g (p_time p) = true.
Proof.
  induction pts as [|p r IH]; intros m l Hinv Hc; cbn [loop1].
  - exists m, l. split; [reflexivity|]. split; [exact Hinv|].
    split; [apply incl_refl|]. split; [reflexivity|]. split; [apply incl_refl|]. intros p [].
  - pose proof (contract_tail _ _ _ _ _ Hc) as Hc'.
    destruct (p_time p <? minT) eqn:Eold.
    { destruct (IH m l Hinv Hc') as (m' & l' & H1 & H2 & H3 & H4 & H5 & H6).
      exists m', l'. repeat (split; [assumption|]).
      intros q [<-|Hq] Hqt; [lia|apply H6; assumption]. }
    destruct (covers_total l (p_time p)) as [c Hcov]. rewrite Hcov. cbn [bind].
    destruct c.
    { destruct (IH m l Hinv Hc') as (m' & l' & H1 & H2 & H3 & H4 & H5 & H6).
      exists m', l'. repeat (split; [assumption|]).
      intros q [<-|Hq] Hqt; [|apply H6; assumption].
      destruct (covers_true _ _ Hcov) as (g & Hg & Hgc). exists g. split; [apply H5; exact Hg|exact Hgc]. }
    destruct Hinv as (Hm & Hb & Hit). destruct Hc as (Hn & Hsd & Hpts).
    assert (Hpt : c08_min_nano_time <= p_time p <= c08_max_nano_time) by (apply Hpts; [left; reflexivity|lia]).
    destruct (client_create_total rp m (p_time p) Hn) as [[m1 og] Hcc]. rewrite Hcc. cbn [bind fst snd].
    destruct (client_create_spec rp m (p_time p) m1 og Hm (conj Hn (conj Hsd Hpt)) Hcc)
      as (Hm1 & Hincl & Hnodes & g & -> & Hgin & Hgc).
    assert (Hgwf : wf_group g = true) by (eapply wf_in; eassumption).
    destruct (wf_nonzero g Hgwf) as [Hz1 Hz2].
    assert (Hgd : g_deleted g = false).
    { unfold live_covers in Hgc. destruct (g_deleted g); [discriminate|reflexivity]. }
    assert (Hinv1 : inv1 m1 (sl_add l g)).
    { split; [exact Hm1|]. split; [apply sl_bounds_add; assumption|].
      intros g0 Hg0. unfold sl_add in Hg0. cbn [items] in Hg0. apply in_app_or in Hg0.
      destruct Hg0 as [Hg0|[<-|[]]].
      - destruct (Hit g0 Hg0) as [A B]. split; [apply Hincl; exact A|exact B].
      - split; assumption. }
    assert (Hc1 : contract rp minT (m_nodes m1) r).
    { rewrite Hnodes. split; [exact Hn|]. split; [exact Hsd|]. intros q Hq. apply Hpts. right. exact Hq. }
    destruct (IH m1 (sl_add l g) Hinv1 Hc1) as (m' & l' & H1 & H2 & H3 & H4 & H5 & H6).
    exists m', l'. split; [exact H1|]. split; [exact H2|].
    split; [eapply incl_tran; eassumption|]. split; [lia|].
    split.
    { intros x Hx. apply H5. unfold sl_add. cbn [items]. apply in_or_app. left. exact Hx. }
    intros q [<-|Hq] Hqt; [|apply H6; assumption].
    exists g. split.
    + apply H5. unfold sl_add. cbn [items]. apply in_or_app. right. left. reflexivity.
    + rewrite live_covers_eff in Hgc. rewrite Hgd in Hgc. exact Hgc.
Qed.

(* ---------- the per-point route of the second loop is the specified route ---------- *)
Lemma route_with_spec now rp m' l' p :
  inv1 m' l' ->
  (min_time now rp <= p_time p -> exists g, In g (items l') /\ eff_covers g (p_time p) = true) ->
  route_with eff_end true (min_time now rp) l' p = Ok (route_spec (m_groups m') now rp p) /\
  (min_time now rp <= p_time p ->
     exists g s, designated (m_groups m') (p_time p) = Some g /\ shard_of g (p_key p) = Some s /\
                 route_spec (m_groups m') now rp p = Some s).
Proof.
  intros (Hm & Hb & Hit) Hcov. unfold route_with, route_spec, in_retention.
  destruct (p_time p <? min_time now rp) eqn:Eold.
  - cbn [andb bind]. destruct (min_time now rp <=? p_time p) eqn:E; [lia|]. split; [reflexivity|lia].
  - cbn [andb]. destruct (min_time now rp <=? p_time p) eqn:E; [|lia].
    destruct (Hcov ltac:(lia)) as (g & Hg & Hgc).
    destruct (sga_total l' (p_time p)) as [r Hr]. rewrite Hr. cbn [bind].
    destruct r as [g0|].
    + destruct (sga_sound _ _ _ Hr) as [Hg0 Hg0c]. destruct (Hit g0 Hg0) as [Hg0m Hg0d].
      assert (Hlc : live_covers (p_time p) g0 = true).
      { rewrite live_covers_eff, Hg0d, Hg0c. reflexivity. }
      destruct Hm as [Hwf Hu].
      rewrite (designated_unique _ _ _ Hu Hg0m Hlc).
      assert (Hwf0 : wf_group g0 = true) by (rewrite forallb_forall in Hwf; apply Hwf; exact Hg0m).
      assert (Hne : (length (g_shards g0) =? 0)%nat = false) by (unfold wf_group in Hwf0; lia).
      destruct (shard_for_of g0 (p_key p) Hne) as (s & Hs1 & Hs2).
      rewrite Hs1, Hs2. cbn [bind]. split; [reflexivity|]. intros _. exists g0, s. auto.
    + exfalso. pose proof (sga_complete l' (p_time p) Hb Hr g Hg) as Hf. congruence.
Qed.

(* ---------- ShardMapping.MapPoint ---------- *)
Lemma lookup_map_point sid pts s i :
  lookup sid (map_point pts s i) = if (sid =? s)%N then lookup sid pts ++ [i] else lookup sid pts.
Proof.
  induction pts as [|[k l] r IH]; cbn [map_point lookup].
  - destruct (s =? sid)%N eqn:E1; destruct (sid =? s)%N eqn:E2; try reflexivity; lia.
  - destruct (k =? s)%N eqn:Eks; cbn [lookup].
    + destruct (k =? sid)%N eqn:Ek; destruct (sid =? s)%N eqn:E2; try reflexivity; lia.
    + destruct (k =? sid)%N eqn:Ek.
      * destruct (sid =? s)%N eqn:E2; [lia|reflexivity].
      * exact IH.
Qed.

Lemma concat_map_point pts s i :
  Permutation (concat (map snd (map_point pts s i))) (i :: concat (map snd pts)).
Proof.
  induction pts as [|[k l] r IH]; cbn [map_point map snd concat].
  - cbn. apply Permutation_refl.
  - destruct (k =? s)%N; cbn [map snd concat].
    + rewrite <- app_assoc. cbn [app]. apply Permutation_sym. apply Permutation_middle.
    + eapply Permutation_trans; [apply Permutation_app_head; exact IH|].
      apply Permutation_sym. apply Permutation_middle.
Qed.

Lemma perm_middle3 (a : nat) X Y Z : Permutation (a :: X ++ Y ++ Z) (X ++ Y ++ a :: Z).
Proof. rewrite !app_assoc. apply Permutation_middle. Qed.

(* ---------- second loop ---------- *)
Lemma loop2_spec minT l (R : point -> option N) : forall pts pos mp,
  (forall p, In p pts -> route_with eff_end true minT l p = Ok (R p)) ->
  exists mp', loop2 eff_end true minT l pts pos mp = Ok mp' /\
    (forall sid, lookup sid (mp_points mp') =
                 lookup sid (mp_points mp) ++ sel (fun p => route_eqb (R p) (Some sid)) pts pos) /\
    mp_dropped mp' = mp_dropped mp ++ sel (fun p => route_eqb (R p) None) pts pos /\
    Permutation (all_positions mp') (all_positions mp ++ seq pos (length pts)).
Proof.
  induction pts as [|p r IH]; intros pos mp HR; cbn [loop2 sel length seq].
  - exists mp. split; [reflexivity|]. split; [intros sid; rewrite app_nil_r; reflexivity|].
    split; [rewrite app_nil_r; reflexivity|]. rewrite app_nil_r. apply Permutation_refl.
  - rewrite (HR p (or_introl eq_refl)). cbn [bind].
    assert (HR' : forall q, In q r -> route_with eff_end true minT l q = Ok (R q))
      by (intros q Hq; apply HR; right; exact Hq).
    destruct (R p) as [s|] eqn:ERp.
    + destruct (IH (S pos) (mkMap (map_point (mp_points mp) s pos) (mp_dropped mp)) HR')
        as (mp' & H1 & H2 & H3 & H4). cbn [mp_points mp_dropped] in *.
      exists mp'. split; [exact H1|]. split; [|split].
      * intros sid. rewrite H2, lookup_map_point. cbn [route_eqb].
        destruct (sid =? s)%N eqn:E1; destruct (s =? sid)%N eqn:E2; try lia.
        -- rewrite <- app_assoc. reflexivity.
        -- reflexivity.
      * rewrite H3. reflexivity.
      * eapply Permutation_trans; [exact H4|]. unfold all_positions. cbn [mp_points mp_dropped].
        rewrite <- !app_assoc.
        eapply Permutation_trans; [apply Permutation_app_tail; apply concat_map_point|].
        cbn [app]. apply perm_middle3.
    + destruct (IH (S pos) (mkMap (mp_points mp) (mp_dropped mp ++ [pos])) HR')
        as (mp' & H1 & H2 & H3 & H4). cbn [mp_points mp_dropped] in *.
      exists mp'. split; [exact H1|]. split; [|split].
      * intros sid. rewrite H2. reflexivity.
      * rewrite H3. cbn [route_eqb]. rewrite <- app_assoc. reflexivity.
      * eapply Permutation_trans; [exact H4|]. unfold all_positions. cbn [mp_points mp_dropped].
        rewrite <- !app_assoc. cbn [app]. apply Permutation_refl.
Qed.

(* ---------- MapShards ---------- *)

Lemma params_contract now rp m pts :
  params_ok now rp m pts = true -> contract rp (min_time now rp) (m_nodes m) pts.
Proof.
  unfold params_ok, contract. intros H.
  apply andb_true_iff in H. destruct H as [H Hpts].
  apply andb_true_iff in H. destruct H as [H Hsd2].
  apply andb_true_iff in H. destruct H as [Hn Hsd1].
  split; [lia|]. split; [lia|]. intros p Hin Ht.
  rewrite forallb_forall in Hpts. specialize (Hpts p Hin). unfold in_retention in Hpts. lia.
Qed.

Lemma inv1_init m : meta_ok m -> inv1 m sl_empty.
Proof. intros H. split; [exact H|]. split; [apply sl_bounds_empty|]. intros g []. Qed.

(* the central result: MapShards succeeds, leaves the invariant intact, only adds groups, and
   returns exactly the mapping that the routing function of Spec.v describes, evaluated on
   the RESULTING metadata *)
Theorem map_shards_spec now rp m pts :
  meta_ok m -> params_ok now rp m pts = true ->
  exists m' mp, map_shards now rp m pts = Ok (m', mp) /\
    meta_ok m' /\ incl (m_groups m) (m_groups m') /\
    mapping_of (route_spec (m_groups m') now rp) pts mp /\
    Permutation (all_positions mp) (seq 0 (length pts)) /\
    (forall p, In p pts -> in_retention now rp (p_time p) = true ->
       exists g s, designated (m_groups m') (p_time p) = Some g /\ shard_of g (p_key p) = Some s /\
                   route_spec (m_groups m') now rp p = Some s).
Proof.
  intros Hm Hp. unfold map_shards, map_shards_with.
  destruct (loop1_spec rp (min_time now rp) pts m sl_empty (inv1_init m Hm) (params_contract _ _ _ _ Hp))
    as (m' & l' & H1 & Hinv & Hincl & _ & _ & Hcov).
  rewrite H1. cbn [bind fst snd].
  assert (HR : forall p, In p pts ->
            route_with eff_end true (min_time now rp) l' p = Ok (route_spec (m_groups m') now rp p)).
  { intros p Hin. apply (route_with_spec now rp m' l' p Hinv). intros Ht. apply Hcov; assumption. }
  destruct (loop2_spec (min_time now rp) l' (route_spec (m_groups m') now rp) pts 0%nat (mkMap [] []) HR)
    as (mp & H2 & H3 & H4 & H5).
  rewrite H2. cbn [bind]. exists m', mp. split; [reflexivity|].
  split; [exact (proj1 Hinv)|]. split; [exact Hincl|]. split; [|split].
  - split; [intros sid; rewrite H3; reflexivity|rewrite H4; reflexivity].
  - exact H5.
  - intros p Hin Hret. unfold in_retention in Hret.
    apply (route_with_spec now rp m' l' p Hinv); [|lia]. intros Ht. apply Hcov; assumption.
Qed.

(* ---------- consequences ---------- *)

Lemma sel_in f : forall pts pos i, In i (sel f pts pos) <->
  exists p, nth_error pts (i - pos) = Some p /\ (pos <= i)%nat /\ f p = true.
Proof.
  induction pts as [|q r IH]; intros pos i; cbn [sel].
  - split; [intros []|]. intros (p & H & _). destruct (i - pos)%nat; discriminate.
  - assert (Hr : In i (sel f r (S pos)) <->
                 exists p, nth_error (q :: r) (i - pos) = Some p /\ (S pos <= i)%nat /\ f p = true).
    { rewrite IH. split; intros (p & A & B & C); exists p.
      - replace (i - pos)%nat with (S (i - S pos)) by lia. cbn [nth_error]. auto.
      - replace (i - pos)%nat with (S (i - S pos)) in A by lia. cbn [nth_error] in A. auto. }
    destruct (f q) eqn:Eq.
    + cbn [In]. rewrite Hr. split.
      * intros [<-|(p & A & B & C)].
        -- exists q. rewrite Nat.sub_diag. cbn [nth_error]. auto.
        -- exists p. split; [exact A|]. split; [lia|exact C].
      * intros (p & A & B & C). destruct (Nat.eq_dec pos i) as [->|Hne]; [left; reflexivity|].
        right. exists p. split; [exact A|]. split; [lia|exact C].
    + rewrite Hr. split.
      * intros (p & A & B & C). exists p. split; [exact A|]. split; [lia|exact C].
      * intros (p & A & B & C). destruct (Nat.eq_dec pos i) as [->|Hne].
        -- rewrite Nat.sub_diag in A. cbn [nth_error] in A. inversion A; subst. congruence.
        -- exists p. split; [exact A|]. split; [lia|exact C].
Qed.

Lemma sel_NoDup f : forall pts pos, NoDup (sel f pts pos).
Proof.
  induction pts as [|q r IH]; intros pos; cbn [sel]; [constructor|].
  destruct (f q); [|apply IH]. constructor; [|apply IH].
  intros H. apply sel_in in H. destruct H as (_ & _ & H & _). lia.
Qed.

Lemma route_eqb_eq a b : route_eqb a b = true <-> a = b.
Proof.
  destruct a as [x|]; destruct b as [y|]; cbn [route_eqb]; split; intros H; try discriminate; try reflexivity.
  - apply N.eqb_eq in H. subst; reflexivity.
  - inversion H; subst. apply N.eqb_refl.
Qed.

(* under mapping_of, position i is in shard sid's list iff its point is routed to sid, and in
   Dropped iff it is routed nowhere; it occurs once *)
Lemma mapping_of_points route pts mp i p :
  mapping_of route pts mp -> nth_error pts i = Some p ->
  (forall sid, In i (lookup sid (mp_points mp)) <-> route p = Some sid) /\
  (In i (mp_dropped mp) <-> route p = None) /\
  (forall sid, NoDup (lookup sid (mp_points mp))) /\ NoDup (mp_dropped mp).
Proof.
  intros [H1 H2] Hn. split; [|split; [|split]].
  - intros sid. rewrite H1, sel_in. rewrite Nat.sub_0_r. split.
    + intros (q & A & _ & C). rewrite Hn in A. inversion A; subst. apply route_eqb_eq. exact C.
    + intros H. exists p. split; [exact Hn|]. split; [lia|]. apply route_eqb_eq. exact H.
  - rewrite H2, sel_in. rewrite Nat.sub_0_r. split.
    + intros (q & A & _ & C). rewrite Hn in A. inversion A; subst. apply route_eqb_eq. exact C.
    + intros H. exists p. split; [exact Hn|]. split; [lia|]. apply route_eqb_eq. exact H.
  - intros sid. rewrite H1. apply sel_NoDup.
  - rewrite H2. apply sel_NoDup.
Qed.

(* when every in-retention point already has a live group accepting it, the first loop
   creates nothing *)
Lemma loop1_meta_fix rp minT : forall pts m l m' l',
  (forall p, In p pts -> minT <= p_time p -> exists g, In g (m_groups m) /\ live_covers (p_time p) g = true) ->
  loop1 eff_end rp minT pts m l = Ok (m', l') -> m' = m.
Proof.
  induction pts as [|p r IH]; intros m l m' l' Hd H; cbn [loop1] in H.
  - inversion H; reflexivity.
  - assert (Hd' : forall q, In q r -> minT <= p_time q ->
                  exists g, In g (m_groups m) /\ live_covers (p_time q) g = true)
      by (intros q Hq; apply Hd; right; exact Hq).
    destruct (p_time p <? minT) eqn:Eold; [eapply IH; eassumption|].
    destruct (covers_with eff_end l (p_time p)) as [c| | |]; cbn [bind] in H; try discriminate.
    destruct c; [eapply IH; eassumption|].
    destruct (Hd p (or_introl eq_refl) ltac:(lia)) as (g & Hg & Hgc).
    destruct (by_timestamp_exists _ _ _ Hg Hgc) as [g' Hg'].
    rewrite (client_create_existing rp m (p_time p) g' Hg') in H. cbn [bind fst snd] in H.
    eapply IH; eassumption.
Qed.

Lemma params_ok_incl now rp m m' pts pts2 :
  params_ok now rp m pts = true -> incl pts2 pts -> m_nodes m' = m_nodes m ->
  params_ok now rp m' pts2 = true.
Proof.
  unfold params_ok. intros H Hi Hn. rewrite Hn.
  apply andb_true_iff in H. destruct H as [H Hpts].
  rewrite H. cbn [andb]. apply forallb_forall. intros q Hq.
  rewrite forallb_forall in Hpts. apply Hpts. apply Hi. exact Hq.
Qed.

Lemma map_shards_nodes now rp m pts m' mp :
  meta_ok m -> params_ok now rp m pts = true -> map_shards now rp m pts = Ok (m', mp) ->
  m_nodes m' = m_nodes m.
Proof.
  intros Hm Hp H. unfold map_shards, map_shards_with in H.
  destruct (loop1_spec rp (min_time now rp) pts m sl_empty (inv1_init m Hm) (params_contract _ _ _ _ Hp))
    as (m1 & l1 & H1 & _ & _ & Hn & _). rewrite H1 in H. cbn [bind fst snd] in H.
  destruct (loop2 eff_end true (min_time now rp) l1 pts 0 (mkMap [] [])); cbn [bind] in H; try discriminate.
  inversion H; subst. exact Hn.
Qed.

(* any batch made of points of a first batch (a permutation, a sub-batch, one point alone,
   repetitions), run on the metadata the first batch left, creates nothing and is mapped by
   the same routing function *)
Theorem rerun_spec now rp m pts m' mp pts2 :
  meta_ok m -> params_ok now rp m pts = true -> map_shards now rp m pts = Ok (m', mp) ->
  incl pts2 pts ->
  exists mp2, map_shards now rp m' pts2 = Ok (m', mp2) /\
              mapping_of (route_spec (m_groups m') now rp) pts2 mp2.
Proof.
  intros Hm Hp H Hi.
  destruct (map_shards_spec now rp m pts Hm Hp) as (m1 & mp1 & H1 & Hm1 & _ & _ & _ & Hdes).
  rewrite H in H1. inversion H1; subst m1 mp1; clear H1.
  pose proof (map_shards_nodes _ _ _ _ _ _ Hm Hp H) as Hn.
  pose proof (params_ok_incl _ _ _ m' _ _ Hp Hi Hn) as Hp2.
  destruct (map_shards_spec now rp m' pts2 Hm1 Hp2) as (m2 & mp2 & H2 & _ & _ & Hmap & _ & _).
  assert (m2 = m').
  { unfold map_shards, map_shards_with in H2.
    destruct (loop1 eff_end rp (min_time now rp) pts2 m' sl_empty) as [[ma la]| | |] eqn:E1; cbn [bind fst snd] in H2; try discriminate.
    destruct (loop2 eff_end true (min_time now rp) la pts2 0 (mkMap [] [])); cbn [bind] in H2; try discriminate.
    inversion H2; subst ma. eapply loop1_meta_fix; [|exact E1].
    intros q Hq Hqt. destruct (Hdes q (Hi q Hq)) as (g & s & Hg & _).
    { unfold in_retention. lia. }
    apply designated_some in Hg. exists g. exact Hg. }
  subst m2. exists mp2. split; assumption.
Qed.

(* ---------- the property theorems (restated in Props.v) ---------- *)

Lemma route_unique_designated_l now rp m pts m' mp :
  meta_ok m -> params_ok now rp m pts = true -> map_shards now rp m pts = Ok (m', mp) ->
  forall i p, nth_error pts i = Some p -> in_retention now rp (p_time p) = true ->
  exists g s, designated (m_groups m') (p_time p) = Some g /\ shard_of g (p_key p) = Some s /\
    In i (lookup s (mp_points mp)) /\ NoDup (lookup s (mp_points mp)) /\
    (forall sid, In i (lookup sid (mp_points mp)) -> sid = s) /\
    ~ In i (mp_dropped mp).
Proof.
  intros Hm Hp H i p Hn Hret.
  destruct (map_shards_spec now rp m pts Hm Hp) as (m1 & mp1 & H1 & _ & _ & Hmap & _ & Hdes).
  rewrite H in H1. inversion H1; subst m1 mp1; clear H1.
  destruct (Hdes p (nth_error_In _ _ Hn) Hret) as (g & s & Hg & Hs & Hr).
  destruct (mapping_of_points _ _ _ i p Hmap Hn) as (Hpts & Hd & Hnd & _).
  exists g, s. split; [exact Hg|]. split; [exact Hs|]. split; [apply Hpts; exact Hr|].
  split; [apply Hnd|]. split.
  - intros sid Hin. apply Hpts in Hin. congruence.
  - intros Hin. apply Hd in Hin. congruence.
Qed.

Lemma route_batch_independent_l now rp m1 pts1 m1' mp1 m2 pts2 m2' mp2 :
  meta_ok m1 -> params_ok now rp m1 pts1 = true -> map_shards now rp m1 pts1 = Ok (m1', mp1) ->
  meta_ok m2 -> params_ok now rp m2 pts2 = true -> map_shards now rp m2 pts2 = Ok (m2', mp2) ->
  m_groups m1' = m_groups m2' ->
  forall p i1 i2, nth_error pts1 i1 = Some p -> nth_error pts2 i2 = Some p ->
    (forall sid, In i1 (lookup sid (mp_points mp1)) <-> In i2 (lookup sid (mp_points mp2))) /\
    (In i1 (mp_dropped mp1) <-> In i2 (mp_dropped mp2)).
Proof.
  intros Hm1 Hp1 H1 Hm2 Hp2 H2 Hg p i1 i2 Hn1 Hn2.
  destruct (map_shards_spec now rp m1 pts1 Hm1 Hp1) as (ma & mpa & Ha & _ & _ & Hmapa & _ & _).
  rewrite H1 in Ha. inversion Ha; subst ma mpa; clear Ha.
  destruct (map_shards_spec now rp m2 pts2 Hm2 Hp2) as (mb & mpb & Hb & _ & _ & Hmapb & _ & _).
  rewrite H2 in Hb. inversion Hb; subst mb mpb; clear Hb.
  destruct (mapping_of_points _ _ _ i1 p Hmapa Hn1) as (Hs1 & Hd1 & _ & _).
  destruct (mapping_of_points _ _ _ i2 p Hmapb Hn2) as (Hs2 & Hd2 & _ & _).
  rewrite Hg in Hs1, Hd1. split.
  - intros sid. rewrite Hs1, Hs2. tauto.
  - rewrite Hd1, Hd2. tauto.
Qed.

Lemma map_nth_seq (d : point) : forall l pre,
  map (fun i => nth i (pre ++ l) d) (seq (length pre) (length l)) = l.
Proof.
  induction l as [|a r IH]; intros pre; cbn [length seq map]; [reflexivity|].
  rewrite nth_middle. f_equal.
  specialize (IH (pre ++ [a])). rewrite <- app_assoc in IH. cbn [app] in IH.
  rewrite app_length in IH. cbn [length] in IH. rewrite Nat.add_1_r in IH. exact IH.
Qed.

Lemma route_conserves_points_l now rp m pts m' mp (d : point) :
  meta_ok m -> params_ok now rp m pts = true -> map_shards now rp m pts = Ok (m', mp) ->
  Permutation (all_positions mp) (seq 0 (length pts)) /\
  Permutation (map (fun i => nth i pts d) (concat (map snd (mp_points mp))) ++
               map (fun i => nth i pts d) (mp_dropped mp)) pts.
Proof.
  intros Hm Hp H.
  destruct (map_shards_spec now rp m pts Hm Hp) as (m1 & mp1 & H1 & _ & _ & _ & Hperm & _).
  rewrite H in H1. inversion H1; subst m1 mp1; clear H1.
  split; [exact Hperm|].
  rewrite <- map_app. fold (all_positions mp).
  pose proof (Permutation_map (fun i => nth i pts d) Hperm) as Hpm.
  pose proof (map_nth_seq d pts []) as Hmn. cbn [app length] in Hmn. rewrite Hmn in Hpm. exact Hpm.
Qed.

Lemma dropped_iff_too_old_l now rp m pts m' mp :
  meta_ok m -> params_ok now rp m pts = true -> map_shards now rp m pts = Ok (m', mp) ->
  forall i p, nth_error pts i = Some p ->
    (In i (mp_dropped mp) <-> in_retention now rp (p_time p) = false).
Proof.
  intros Hm Hp H i p Hn.
  destruct (map_shards_spec now rp m pts Hm Hp) as (m1 & mp1 & H1 & _ & _ & Hmap & _ & Hdes).
  rewrite H in H1. inversion H1; subst m1 mp1; clear H1.
  destruct (mapping_of_points _ _ _ i p Hmap Hn) as (_ & Hd & _ & _).
  rewrite Hd. split.
  - intros Hr. destruct (in_retention now rp (p_time p)) eqn:E; [|reflexivity].
    destruct (Hdes p (nth_error_In _ _ Hn) E) as (g & s & _ & _ & Hc). congruence.
  - intros E. unfold route_spec. rewrite E. reflexivity.
Qed.
