(* C08/PLink.v — the model satisfies the executable spec of Run.v for ALL inputs. *)
From Coq Require Import Permutation.
From Verif Require Import Lib.Bytes C08.Model C08.Spec C08.PSga C08.PMeta C08.Proofs C08.Run.
From VerifGen Require Import Consts.
From Coq Require Import ZifyBool ZifyNat ZifyN.
Open Scope Z_scope.

Lemma model_run_now idxs now rp m0 pts : r_now (model_run idxs now rp m0 pts) = now.
Proof. unfold model_run. destruct (map_shards now rp m0 pts) as [[m' mp]| | |]; reflexivity. Qed.

Lemma combine_seq_nth (pts : list point) : forall pos i p,
  In (i, p) (combine (seq pos (length pts)) pts) -> nth_error pts (i - pos) = Some p /\ (pos <= i)%nat.
Proof.
  induction pts as [|q r IH]; intros pos i p H; cbn [length seq combine] in H; [contradiction|].
  destruct H as [H|H].
  - inversion H; subst. rewrite Nat.sub_diag. split; [reflexivity|lia].
  - apply IH in H. destruct H as [H1 H2].
    replace (i - pos)%nat with (S (i - S pos)) by lia. cbn [nth_error]. split; [exact H1|lia].
Qed.

Lemma existsb_nat_in i l : In i l -> existsb (Nat.eqb i) l = true.
Proof. intros H. apply existsb_exists. exists i. split; [exact H|apply Nat.eqb_refl]. Qed.

Theorem spec_run_model idxs now rp m0 pts :
  spec_run m0 rp pts (model_run idxs now rp m0 pts) = true.
Proof.
  unfold spec_run. rewrite model_run_now.
  destruct (meta_ok_b m0 && params_ok now rp m0 pts) eqn:Epre; cbn [negb]; [|reflexivity].
  apply andb_true_iff in Epre. destruct Epre as [Hmb Hp].
  pose proof (meta_ok_b_ok _ Hmb) as Hm.
  destruct (map_shards_spec now rp m0 pts Hm Hp) as (m' & mp & H & Hm' & _ & Hmap & Hperm & Hdes).
  unfold model_run. rewrite H. unfold run_meta. cbn [r_outcome r_points r_dropped r_meta].
  fold (all_positions mp).
  rewrite N.eqb_refl. cbn [andb].
  assert (Hlen : (length (all_positions mp) =? length pts)%nat = true).
  { apply Nat.eqb_eq. rewrite (Permutation_length Hperm). apply seq_length. }
  rewrite Hlen. cbn [andb].
  apply andb_true_iff. split.
  - apply forallb_forall. intros i Hi. apply Nat.eqb_eq.
    rewrite (proj1 (Permutation_count_occ Nat.eq_dec _ _) Hperm i).
    apply NoDup_count_occ'; [apply seq_NoDup|exact Hi].
  - apply forallb_forall. intros [i p] Hin. cbn [fst snd].
    apply combine_seq_nth in Hin. destruct Hin as [Hn _]. rewrite Nat.sub_0_r in Hn.
    destruct (mapping_of_points _ _ _ i p Hmap Hn) as (Hs & Hd & _ & _).
    destruct (route_spec (m_groups m') now rp p) as [s|] eqn:Er.
    + apply existsb_nat_in. apply Hs. reflexivity.
    + apply andb_true_iff. split.
      * destruct (in_retention now rp (p_time p)) eqn:Eret; [|reflexivity].
        destruct (Hdes p (nth_error_In _ _ Hn) Eret) as (g & s & _ & _ & Hc). congruence.
      * apply existsb_nat_in. apply Hd. reflexivity.
Qed.
