(* C05/ProofsMerge.v — proofs about the typed merge of the fan-out and the merged result set
   (MergeModel.v). *)
From Coq Require Import Permutation.
From Verif Require Import C05.Model C05.ProofsA C05.MergeModel.
Open Scope N_scope.

Lemma nl_eqb_eq a b : nl_eqb a b = true <-> a = b.
Proof.
  revert b; induction a as [|x a IH]; intros [|y b]; cbn [nl_eqb]; split; intros H;
    try reflexivity; try discriminate.
  - apply andb_prop in H. destruct H as [Hx Hr]. apply N.eqb_eq in Hx. apply IH in Hr. congruence.
  - injection H as -> ->. rewrite N.eqb_refl. apply IH. reflexivity.
Qed.

Lemma dtype_eqb_refl t : dtype_eqb t t = true.
Proof. destruct t; reflexivity. Qed.

(* ---------- (1) typed merge ---------- *)

(* a source is handed on faithfully: it contributes nothing and holds nothing, or it
   contributes its rows as an iterator of the field's type *)
Definition good (fixed : bool) (t0 : dtype) (s : tsource) : Prop :=
  match reader_of fixed s with
  | INil => ts_rows s = []
  | IItr t r => t = t0 /\ r = ts_rows s
  end.

Lemma kept_good fixed t0 l :
  Forall (good fixed t0) l ->
  Forall (fun x => fst x = t0) (non_nil (map (reader_of fixed) l)) /\
  flat_map snd (non_nil (map (reader_of fixed) l)) = flat_map ts_rows l.
Proof.
  induction 1 as [|s l Hs _ [IH1 IH2]]; cbn [map non_nil flat_map]; [split; [constructor|reflexivity]|].
  unfold good in Hs. destruct (reader_of fixed s) as [|t r].
  - rewrite Hs. cbn [app]. split; assumption.
  - destruct Hs as [-> ->]. cbn [non_nil flat_map snd]. split.
    + constructor; [reflexivity|exact IH1].
    + rewrite IH2. reflexivity.
Qed.

Lemma filter_all t0 (xs : list (dtype * list N)) :
  Forall (fun x => fst x = t0) xs -> filter (fun x => dtype_eqb (fst x) t0) xs = xs.
Proof.
  induction 1 as [|x xs Hx _ IH]; cbn [filter]; [reflexivity|].
  rewrite Hx, dtype_eqb_refl, IH. reflexivity.
Qed.

Lemma merge_good fixed t0 arrival :
  Forall (good fixed t0) arrival ->
  rows_of (typed_merge fixed arrival) = all_rows arrival /\
  (forall t r, typed_merge fixed arrival = Some (t, r) -> t = t0).
Proof.
  intros Hg. destruct (kept_good fixed t0 arrival Hg) as [Ht Hr].
  unfold typed_merge, merge_inputs, all_rows.
  destruct (non_nil (map (reader_of fixed) arrival)) as [|[t r0] xs] eqn:E.
  - cbn [rows_of]. cbn [flat_map] in Hr. rewrite <- Hr. split; [reflexivity|discriminate].
  - assert (Et : t = t0) by (inversion Ht; assumption). subst t.
    cbv beta iota. rewrite (filter_all t0 _ Ht). cbn [rows_of]. rewrite Hr. split; [reflexivity|].
    intros t r H. injection H as <- _. reflexivity.
Qed.

Lemma wf_good_fixed t0 s : t0 <> TUnknown -> wf_source t0 s -> good true t0 s.
Proof.
  intros Hne [[Ht Hr]|Ht]; unfold good, reader_of; rewrite Ht.
  - destruct (ts_remote s); exact Hr.
  - destruct t0; try (split; reflexivity). contradiction.
Qed.

(* the pinned rule is faithful for a source unless it is a remote source without the field
   while the field is not a float *)
Lemma wf_good_pinned t0 s :
  t0 <> TUnknown -> wf_source t0 s ->
  (t0 = TFloat \/ ts_remote s = false \/ ts_typ s <> TUnknown) -> good false t0 s.
Proof.
  intros Hne [[Ht Hr]|Ht] Hc; unfold good, reader_of; rewrite Ht.
  - destruct (ts_remote s) eqn:Er.
    + destruct Hc as [->|[Hc|Hc]]; [split; [reflexivity|symmetry; exact Hr]|discriminate|contradiction].
    + exact Hr.
  - destruct t0; try (split; reflexivity). contradiction.
Qed.

Lemma all_rows_perm a b : Permutation a b -> all_rows a = all_rows b.
Proof.
  intros P. unfold all_rows. apply sortN_perm_eq.
  induction P as [| x l l' _ IH | x y l | l l' l'' _ IH1 _ IH2]; cbn [flat_map].
  - reflexivity.
  - apply Permutation_app_head. exact IH.
  - rewrite !app_assoc. apply Permutation_app_tail. apply Permutation_app_comm.
  - etransitivity; eassumption.
Qed.

Lemma Forall_perm {A} (P : A -> Prop) a b : Permutation a b -> Forall P b -> Forall P a.
Proof.
  intros Hp Hf. apply Forall_forall. intros x Hx. rewrite Forall_forall in Hf. apply Hf.
  eapply Permutation_in; eassumption.
Qed.

(* Repaired rule: for every set of sources of a field of one type (any number of them without
   the field, local or remote) and EVERY arrival order, the merged stream holds every point of
   every source exactly once and has the field's type. *)
Lemma typed_merge_complete_l t0 srcs arrival :
  wf_sources t0 srcs -> Permutation arrival srcs ->
  rows_of (typed_merge true arrival) = all_rows srcs /\
  (forall t r, typed_merge true arrival = Some (t, r) -> t = t0).
Proof.
  intros [Hne Hwf] P. rewrite <- (all_rows_perm _ _ P).
  apply merge_good. apply (Forall_perm _ _ _ P) in Hwf.
  eapply Forall_impl; [|exact Hwf]. intros s. apply wf_good_fixed. exact Hne.
Qed.

(* Pinned rule, the part that holds: float fields, or no remote source lacks the field. *)
Lemma typed_merge_pinned_partial_l t0 srcs arrival :
  wf_sources t0 srcs -> Permutation arrival srcs ->
  (t0 = TFloat \/ Forall (fun s => ts_remote s = false \/ ts_typ s <> TUnknown) srcs) ->
  rows_of (typed_merge false arrival) = all_rows srcs /\
  (forall t r, typed_merge false arrival = Some (t, r) -> t = t0).
Proof.
  intros [Hne Hwf] P Hc. rewrite <- (all_rows_perm _ _ P).
  apply merge_good. apply (Forall_perm _ _ _ P) in Hwf.
  apply Forall_forall. intros s Hs. rewrite Forall_forall in Hwf.
  apply wf_good_pinned; [exact Hne|apply Hwf; exact Hs|].
  destruct Hc as [Hc|Hc]; [left; exact Hc|right].
  rewrite Forall_forall in Hc. apply Hc. eapply Permutation_in; eassumption.
Qed.

(* Pinned rule, refuted: a node without the measurement whose reply arrives first turns the
   merge into a float merge that drops both integer inputs; the same sources in another
   arrival order give the complete answer. *)
Definition w_tm_srcs : list tsource :=
  [mkTS true TUnknown []; mkTS true TInteger [1; 3]; mkTS true TInteger [2]].
Definition w_tm_late : list tsource :=
  [mkTS true TInteger [1; 3]; mkTS true TUnknown []; mkTS true TInteger [2]].

Lemma typed_merge_complete_refuted_l :
  exists t0 srcs a1 a2,
    wf_sources t0 srcs /\ Permutation a1 srcs /\ Permutation a2 srcs /\
    rows_of (typed_merge false a1) <> all_rows srcs /\
    rows_of (typed_merge false a2) = all_rows srcs.
Proof.
  exists TInteger, w_tm_srcs, w_tm_srcs, w_tm_late. split; [|split; [|split; [|split]]].
  - split; [discriminate|]. unfold w_tm_srcs.
    constructor; [left; split; reflexivity|]. constructor; [right; reflexivity|].
    constructor; [right; reflexivity|constructor].
  - reflexivity.
  - unfold w_tm_late, w_tm_srcs. apply perm_swap.
  - vm_compute. discriminate.
  - vm_compute. reflexivity.
Qed.

(* link: the model satisfies the executable spec on every well-formed input *)
Lemma tm_link t0 srcs arrival :
  wf_sources t0 srcs -> Permutation arrival srcs ->
  tm_ok srcs (rows_of (typed_merge true arrival)) = true.
Proof.
  intros Hwf P. unfold tm_ok. apply nl_eqb_eq. apply (typed_merge_complete_l t0); assumption.
Qed.

(* ---------- (2) merged result set ---------- *)

Lemma existsb_perm {A} (f : A -> bool) a b : Permutation a b -> existsb f a = existsb f b.
Proof.
  induction 1 as [| x l l' _ IH | x y l | l l' l'' _ IH1 _ IH2]; cbn [existsb].
  - reflexivity.
  - rewrite IH. reflexivity.
  - rewrite !orb_assoc. rewrite (orb_comm (f y) (f x)). reflexivity.
  - congruence.
Qed.

Lemma existsb_ext' {A} (f g : A -> bool) l : (forall x, f x = g x) -> existsb f l = existsb g l.
Proof. intros H. induction l as [|x l IH]; cbn [existsb]; [reflexivity|]. rewrite H, IH. reflexivity. Qed.

Lemma rs_all_perm a b : Permutation a b -> rs_all a = rs_all b.
Proof.
  intros P. unfold rs_all. apply sortN_perm_eq.
  induction P as [| x l l' _ IH | x y l | l l' l'' _ IH1 _ IH2]; cbn [flat_map].
  - reflexivity.
  - apply Permutation_app_head. exact IH.
  - rewrite !app_assoc. apply Permutation_app_tail. apply Permutation_app_comm.
  - etransitivity; eassumption.
Qed.

Lemma rs_merge_fixed l :
  rs_merge true l = if rs_any_fails l then None else Some (rs_all l).
Proof.
  unfold rs_any_fails, rs_all. destruct l as [|s [|s' l]].
  - reflexivity.
  - cbn [rs_merge existsb flat_map]. rewrite orb_false_r, app_nil_r. reflexivity.
  - cbv beta iota delta [rs_merge].
    assert (E : existsb (fun s0 => rs_fails s0 && (true || match rs_series s0 with [] => false | _ :: _ => true end)) (s :: s' :: l)
                = existsb rs_fails (s :: s' :: l)).
    { apply existsb_ext'. intros x. cbn [orb]. apply andb_true_r. }
    rewrite E. reflexivity.
Qed.

(* Repaired rule: for every set of input result sets - each delivering any series and then
   ending cleanly or failing, at any point including before its first series - and every
   arrival order, draining the merged result set ends with an error iff some input failed, and
   otherwise delivers every series of every input once. *)
Lemma rs_merge_complete_or_error_l srcs arrival :
  Permutation arrival srcs ->
  rs_merge true arrival = if rs_any_fails srcs then None else Some (rs_all srcs).
Proof.
  intros P. rewrite rs_merge_fixed. unfold rs_any_fails.
  rewrite (existsb_perm _ _ _ P), (rs_all_perm _ _ P). reflexivity.
Qed.

Lemma rs_link srcs arrival :
  Permutation arrival srcs -> rs_ok srcs (rs_merge true arrival) = true.
Proof.
  intros P. rewrite (rs_merge_complete_or_error_l _ _ P). unfold rs_ok.
  destruct (rs_any_fails srcs); [reflexivity|]. cbn [negb andb]. apply nl_eqb_eq. reflexivity.
Qed.

(* Pinned rule, the part that holds: an input that delivered a series before failing is found
   out (any number of inputs), and a lone input is handed on as it is. *)
Lemma rs_merge_pinned_partial_l l :
  Forall (fun s => rs_fails s = true -> rs_series s <> []) l ->
  rs_merge false l = if rs_any_fails l then None else Some (rs_all l).
Proof.
  intros H. rewrite <- rs_merge_fixed. destruct l as [|s [|s' l]]; try reflexivity.
  cbv beta iota delta [rs_merge].
  assert (E : forall b, existsb (fun s0 => rs_fails s0 && (b || match rs_series s0 with [] => false | _ :: _ => true end)) (s :: s' :: l)
              = existsb rs_fails (s :: s' :: l)).
  { intros b. revert H. generalize (s :: s' :: l). intros l0 H0.
    induction H0 as [|x l0 Hx _ IH]; cbn [existsb]; [reflexivity|]. rewrite IH. f_equal.
    destruct (rs_fails x) eqn:Ef; [|reflexivity]. cbn [andb].
    destruct (rs_series x); [exfalso; apply Hx; reflexivity|]. apply orb_true_r. }
  rewrite (E false), (E true). reflexivity.
Qed.

(* Pinned rule, refuted: an input that fails before its first series is taken for an empty
   one: the caller gets the other input's series and no error. *)
Definition w_rs_srcs : list rsource := [mkRS [] true; mkRS [1; 2] false].

Lemma rs_merge_error_surfaces_refuted_l :
  exists srcs, rs_any_fails srcs = true /\ rs_merge false srcs = Some [1; 2]
               /\ rs_ok srcs (rs_merge false srcs) = false.
Proof. exists w_rs_srcs. repeat split; vm_compute; reflexivity. Qed.

(* ---------- (3) MapType ---------- *)

Definition mt_step (typ t : dtype) : dtype := if dt_less_than typ t then t else typ.

Lemma mt_step_ge_l a t : dt_rank a <= dt_rank (mt_step a t).
Proof. apply N.leb_le. destruct a, t; reflexivity. Qed.
Lemma mt_step_ge_r a t : dt_rank t <= dt_rank (mt_step a t).
Proof. apply N.leb_le. destruct a, t; reflexivity. Qed.

Lemma mt_fold acc types :
  dt_rank acc <= dt_rank (fold_left mt_step types acc) /\
  forall t, In t types -> dt_rank t <= dt_rank (fold_left mt_step types acc).
Proof.
  revert acc; induction types as [|x l IH]; intros acc; cbn [fold_left].
  - split; [apply N.le_refl|intros t []].
  - destruct (IH (mt_step acc x)) as [H1 H2]. split.
    + eapply N.le_trans; [apply (mt_step_ge_l acc x)|exact H1].
    + intros t [<-|Hin]; [|apply H2; exact Hin].
      eapply N.le_trans; [apply (mt_step_ge_r acc x)|exact H1].
Qed.

(* the type reported for a field is one of the sources' types (or Unknown when there is no
   source) and no source's type has precedence over it: for every list of answers, in any order *)
Lemma map_type_max_l types :
  (forall t, In t types -> dt_rank t <= dt_rank (map_type types)) /\
  (map_type types = TUnknown \/ In (map_type types) types).
Proof.
  split; [apply (mt_fold TUnknown types)|].
  unfold map_type. fold mt_step.
  assert (G : forall acc, fold_left mt_step types acc = acc \/ In (fold_left mt_step types acc) types).
  { induction types as [|x l IH]; intros acc; cbn [fold_left]; [left; reflexivity|].
    destruct (IH (mt_step acc x)) as [E|E].
    - rewrite E. unfold mt_step. destruct (dt_less_than acc x); [right; left; reflexivity|left; reflexivity].
    - right. right. exact E. }
  apply G.
Qed.

(* dt_less_than is the strict order of dt_rank, except that Unknown is below everything
   including itself (Go: `if d == Unknown { return true }`) *)
Lemma dt_less_than_rank a b :
  dt_less_than a b = match a with TUnknown => true | _ => dt_rank a <? dt_rank b end.
Proof. destruct a, b; reflexivity. Qed.
