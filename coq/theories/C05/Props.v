(* C05/Props.v — property theorems only.  All statements quantify over every cluster size,
   replication factor and ownership layout (a list of shards with arbitrary owner lists),
   every coordinating node [local], every random oracle [choice], and every node
   behaviour [beh : node -> shard ids -> call index -> outcome]. *)
From Coq Require Import Permutation.
From Verif Require Import C05.Model C05.Spec C05.ProofsA C05.ProofsB C05.Proofs C05.ProofsC.
From Verif Require Import Lib.Bytes C15.Model C05.StreamModel C05.ShowModel C05.ProofsStream C05.ProofsShow.
From VerifGen Require Import Consts.
From Verif Require Import C05.MergeModel C05.ProofsMerge.
Open Scope N_scope.

(* mapShards: the per-node shard lists partition the query's shard set (Permutation +
   NoDup of ids), node keys are distinct, every shard is filed under one of its owners,
   and every shard owned by the coordinator is read locally. *)
Theorem map_partition :
  forall (local : N) (choice : nat -> shard -> N) (shards : list shard),
  forallb has_owner shards = true ->
  let m := map_shards local choice shards in
  Permutation (flat m) shards /\
  NoDup (keys m) /\
  own_inv m /\
  (forall s, In s shards -> owned_by s local = true -> In s (amap_get m local)) /\
  (NoDup (map sid shards) -> NoDup (map sid (flat m))).
Proof. exact map_partition_lemma. Qed.
Print Assumptions map_partition.

(* the retry loop ends within (number of owner nodes + 1) rounds, whatever the nodes do *)
Theorem retry_terminates :
  forall fixed o beh (nodes : list N) (fuel : nat) g dirty log,
  (forall s x, In s (g_shards g) -> In x (owners s) -> In x nodes) ->
  (length nodes < fuel)%nat ->
  fst (fst (run_remote fuel fixed o beh g dirty log)) <> RFuel.
Proof. exact run_remote_terminates_nodes. Qed.
Print Assumptions retry_terminates.

(* ... because every failed round adds a node that was clean (and is an owner) to dirty *)
Theorem failed_round_strictly_grows_dirty :
  forall fixed o beh dirty log shards m ps fs log',
  shuffle dirty shards = Some m ->
  round_calls fixed o beh log m = (ps, fs, log') ->
  forall f, In f fs -> memN f dirty = false /\ In f (flat_map owners shards).
Proof. exact failed_round_grows_dirty. Qed.
Print Assumptions failed_round_strictly_grows_dirty.

(* a remote shard group returns either parts whose shard lists are a partition of the
   group's shards, each part read from an owner whose reply the client accepted, or an
   error; and it is an error whenever some shard has no owner that answers acceptably.
   Holds for every initial dirty set (it persists across calls on the same mapping). *)
Theorem retry_exactly_once_or_error :
  forall fixed o beh g dirty log,
  group_wf g ->
  let r := fst (fst (run_remote (group_fuel (g_shards g)) fixed o beh g dirty log)) in
  match r with
  | ROk ps => Permutation (flat_map p_shards ps) (g_shards g) /\ Forall (part_ok fixed o beh) ps
  | RErr => True
  | RFuel => False
  end /\
  (forall s, In s (g_shards g) ->
     (forall x k i, In x (owners s) -> client_response fixed o (beh x k i) = CErr) -> r = RErr).
Proof.
  intros fixed o beh g dirty log Hwf r. split.
  - pose proof (run_remote_terminates fixed o beh g dirty log) as Ht. unfold r.
    destruct (run_remote (group_fuel (g_shards g)) fixed o beh g dirty log) as [[r0 d'] l'] eqn:E.
    cbn [fst] in *. destruct r0 as [ps| |]; [|exact I|congruence].
    eapply run_remote_spec; eassumption.
  - intros s Hs Hbad. unfold r. eapply no_serving_owner_error; eassumption.
Qed.
Print Assumptions retry_exactly_once_or_error.

(* repaired client: a node that answers every request with an error reply never
   contributes to a successful result *)
Theorem remote_error_surfaces :
  forall o beh fuel g dirty log ps d' l' n,
  group_wf g ->
  (forall k i, beh n k i = ErrorReply) ->
  run_remote fuel true o beh g dirty log = (ROk ps, d', l') ->
  forall p, In p ps -> p_node p <> n.
Proof. exact error_node_never_serves. Qed.
Print Assumptions remote_error_surfaces.

(* union semantics / link to the executable spec: for every well-formed metadata view,
   coordinator, oracle, data, behaviour without a cut exactly at a frame boundary, and
   every sequence of operations on one mapping, what the model returns satisfies
   Spec.spec_ok: the mapping is a partition and every operation yields either an error or
   exactly the answer of a single node holding the union of the data.
   _partial: the no_clean_cut hypothesis excludes the open finding below. *)
Theorem model_satisfies_spec_partial :
  forall local choice shards data beh ops,
  wf_shards shards = true -> no_clean_cut beh ->
  let '(m, qs, _) := model_run true local choice shards data beh ops in
  spec_ok local shards data ops m qs = true.
Proof. exact Proofs.model_satisfies_spec_partial. Qed.
Print Assumptions model_satisfies_spec_partial.

(* statements with several sources (FROM a, b; subquery + measurement; several retention
   policies): whatever the order and multiplicity of the sources, for every source of the
   statement the local shards and remote groups recorded in the mapping are the image of ONE
   run of the single-source mapper (no source is mapped twice: nothing is appended a second
   time), hence a partition of that source's shards with distinct nodes. *)
Theorem map_partition_per_source :
  forall local (choice : nat -> nat -> shard -> N) (view : N -> list shard) (srcs : list N),
  (forall x, In x srcs -> wf_shards (view x) = true) ->
  let st := map_sources local choice view 0 (mkM [] []) srcs in
  forall x, In x srcs ->
    src_ok local view st x /\
    mmapping_ok local (view x) (assoc_get [] (lmap st) x) (groups_of (assoc_get [] (rmap st) x)) = true.
Proof.
  intros local choice view srcs Hwf st x Hx.
  assert (Hok : src_ok local view st x).
  { apply map_sources_ok; [| intros y; left; repeat split | exact Hx].
    intros y Hy. specialize (Hwf y Hy). unfold wf_shards in Hwf. apply andb_true_iff in Hwf. tauto. }
  split; [exact Hok | apply mmapping_ok_src; [apply Hwf; exact Hx | exact Hok]].
Qed.
Print Assumptions map_partition_per_source.

(* link for multi-source statements: mapping per source is a partition, every operation on
   any source's measurement returns the single-node answer or an error, and when no node
   fails the requests of an operation plus the local shards read every shard of the source
   exactly once.  _partial: no_clean_cut, as above. *)
Theorem model_multi_satisfies_spec_partial :
  forall local choice view data beh srcs ops quiet,
  (forall x, In x srcs -> wf_shards (view x) = true) ->
  (forall o, In o ops -> In (fst o) srcs) ->
  no_clean_cut beh ->
  (quiet = true -> forall n k i, beh n k i = Serve) ->
  let '(st, res) := model_mrun true local choice view data beh srcs ops in
  mspec_ok local view data srcs ops (lmap st) (rm_groups st) res quiet = true.
Proof. exact ProofsC.model_multi_satisfies_spec_partial. Qed.
Print Assumptions model_multi_satisfies_spec_partial.

(* which shard groups a query reads (ShardGroupsByTimeRange / Overlaps / Deleted), for every
   metadata history (odd-sized groups, truncated groups with successors, deleted groups) and
   every range: every live group that can hold a point of the range is selected - a
   truncated group counts with its nominal [start, end) - ... *)
Theorem overlap_complete :
  forall (tmin tmax : Z) (gs : list sgroup) (g : sgroup) (t : Z),
  In g gs -> sg_deleted g = false -> (tmin <= t <= tmax)%Z -> can_hold g t ->
  In g (groups_overlapping tmin tmax gs) /\
  (forall s, In s (sg_shards g) -> In s (view_of_groups tmin tmax gs)).
Proof.
  intros tmin tmax gs g t Hin Hd Ht Hc.
  pose proof (overlap_complete_lemma tmin tmax gs g t Hin Hd Ht Hc) as H. split; [exact H|].
  intros s Hs. apply view_of_groups_shards. exists g. split; assumption.
Qed.
Print Assumptions overlap_complete.

(* ... and none outside: a selected (non-empty) group is live and can hold a point of the range *)
Theorem overlap_sound :
  forall (tmin tmax : Z) (gs : list sgroup) (g : sgroup),
  (tmin <= tmax)%Z -> (sg_start g < sg_end g)%Z -> In g (groups_overlapping tmin tmax gs) ->
  In g gs /\ sg_deleted g = false /\ exists t, (tmin <= t <= tmax)%Z /\ can_hold g t.
Proof. exact overlap_sound_lemma. Qed.
Print Assumptions overlap_sound.

(* pinned tree, repaired by the fix: commits — the unrepaired client turned an error reply
   into an empty stream *)
Theorem remote_error_surfaces_unpatched_refuted :
  exists local choice shards data beh,
    wf_shards shards = true /\ no_clean_cut beh /\
    let '(m, qs, _) := model_run false local choice shards data beh [OpCI] in
    spec_ok local shards data [OpCI] m qs = false.
Proof.
  exists 1, (fun _ _ => 0), w_shards, w_data, (fun _ _ _ => ErrorReply).
  split; [vm_compute; reflexivity|]. split; [intros n k i j b; discriminate|].
  vm_compute. reflexivity.
Qed.
Print Assumptions remote_error_surfaces_unpatched_refuted.

(* open finding c05-stream-cut-at-frame-boundary: a point stream closed between two
   frames is taken for a complete one *)
Theorem cut_stream_detected_refuted :
  exists local choice shards data beh,
    wf_shards shards = true /\
    let '(m, qs, _) := model_run true local choice shards data beh [OpCI] in
    spec_ok local shards data [OpCI] m qs = false.
Proof.
  exists 1, (fun _ _ => 0), w_shards, w_data, (fun _ _ _ => CutPts 1 0).
  split; vm_compute; reflexivity.
Qed.
Print Assumptions cut_stream_detected_refuted.

(* ====================================================================================
   Storage-read streams (MetaExecutor.ReadFilter / ReadGroup -> storeStreamReceiver.Recv).
   All statements quantify over every sequence of messages [fs] (type byte, payload bytes of
   any content, each shorter than MaxMessageSize) written by WriteTLV, and every number k of
   bytes after which the connection is closed.
   ==================================================================================== *)

(* whatever arrives of the stream, Recv hands on the first m messages, intact and in order,
   m and the kind of end being determined by the message lengths alone: m messages lie
   completely before the cut; the end is an error iff the cut lies strictly inside a message
   (repaired rule), a clean end otherwise - and always a clean end under the old rule *)
Theorem recv_cut_exact :
  forall (fixed : bool) (fs : list (N * bytes)) (k : N),
  Forall (fun f => (Z.of_nat (length (snd f)) < max_message_size)%Z) fs ->
  recv_stream fixed (cut k (enc_stream fs)) =
  (firstn (fst (cut_frames (map plen fs) k)) fs, end_of fixed (snd (cut_frames (map plen fs) k))).
Proof. exact recv_stream_cut. Qed.
Print Assumptions recv_cut_exact.

(* repaired rule: a cut strictly inside a message (its type byte delivered; its size or its
   value incomplete) is an error *)
Theorem cut_inside_message_is_error :
  forall (fs : list (N * bytes)) (k : N),
  Forall (fun f => (Z.of_nat (length (snd f)) < max_message_size)%Z) fs ->
  snd (cut_frames (map plen fs) k) = true ->
  snd (recv_stream true (cut k (enc_stream fs))) = EndErr.
Proof. exact cut_inside_is_error. Qed.
Print Assumptions cut_inside_message_is_error.

(* messages delivered before the cut are delivered intact and in order *)
Theorem delivered_is_prefix :
  forall (fixed : bool) (fs : list (N * bytes)) (k : N),
  Forall (fun f => (Z.of_nat (length (snd f)) < max_message_size)%Z) fs ->
  exists m, (m <= length fs)%nat /\ fst (recv_stream fixed (cut k (enc_stream fs))) = firstn m fs.
Proof. exact delivered_prefix. Qed.
Print Assumptions delivered_is_prefix.

(* with no cut the full sequence is delivered and the stream ends cleanly *)
Theorem no_cut_delivers_all :
  forall (fixed : bool) (fs : list (N * bytes)) (k : N),
  Forall (fun f => (Z.of_nat (length (snd f)) < max_message_size)%Z) fs ->
  N.of_nat (length (enc_stream fs)) <= k ->
  recv_stream fixed (cut k (enc_stream fs)) = (fs, EndEOF).
Proof. exact no_cut_full. Qed.
Print Assumptions no_cut_delivers_all.

(* repaired rule: a stream that ends without an error is complete - unless the connection
   was closed exactly between two messages or before the first one (the open finding:
   end of stream = EOF) *)
Theorem clean_end_is_complete_or_boundary :
  forall (fs : list (N * bytes)) (k : N),
  Forall (fun f => (Z.of_nat (length (snd f)) < max_message_size)%Z) fs ->
  snd (recv_stream true (cut k (enc_stream fs))) = EndEOF ->
  fst (recv_stream true (cut k (enc_stream fs))) = fs \/
  (boundary_cut (map plen fs) k = true /\ (k = 0 \/ In k (boundaries (map plen fs) 0))).
Proof. exact clean_end_complete_or_boundary. Qed.
Print Assumptions clean_end_is_complete_or_boundary.

(* link to the executable spec of the receiver cases (Run.CRecv): prefix, and complete unless
   an error is reported.  _partial: boundary cuts excluded *)
Theorem recv_model_satisfies_spec_partial :
  forall (fs : list (N * bytes)) (k : N),
  Forall (fun f => (Z.of_nat (length (snd f)) < max_message_size)%Z) fs ->
  boundary_cut (map plen fs) k = false ->
  let '(got, e) := recv_stream true (cut k (enc_stream fs)) in recv_ok fs got e = true.
Proof. exact recv_satisfies_spec_partial. Qed.
Print Assumptions recv_model_satisfies_spec_partial.

(* the step function of this model and C15's model of ReadTLV accept the same messages *)
Theorem recv_step_is_read_tlv :
  forall s t p r, recv_step s = RFrame t p r <-> read_tlv s = TlvOk t p r.
Proof. exact recv_step_read_tlv. Qed.
Print Assumptions recv_step_is_read_tlv.

(* the whole call (response message of hdr bytes, then the stream; result set reader on top),
   for every message list (any frames, also ill-formed sequences), every reader (ReadFilter /
   ReadGroup) and every cut: a caller gets the reference answer or an error.
   _partial: cuts exactly at a message boundary excluded (open finding) *)
Theorem sread_model_satisfies_spec_partial :
  forall (grp : bool) (hdr : N) (ms : list amsg) (k : N) (ref : list item),
  fst (full_result grp ms) = ref ->
  (hdr <= k -> boundary_cut (map m_len ms) (k - hdr) = false) ->
  sread_ok ref (sread true grp hdr ms k) = true.
Proof. exact sread_satisfies_spec_partial. Qed.
Print Assumptions sread_model_satisfies_spec_partial.

Theorem sread_cut_inside_message_is_error :
  forall (grp : bool) (hdr : N) (ms : list amsg) (k : N),
  hdr <= k -> snd (cut_frames (map m_len ms) (k - hdr)) = true ->
  exists its, sread true grp hdr ms k = SStream its true.
Proof. exact sread_cut_inside_is_error. Qed.
Print Assumptions sread_cut_inside_message_is_error.

(* before the fix: commit - every cut was taken for the end of the stream ... *)
Theorem old_recv_accepts_every_cut :
  forall (fs : list (N * bytes)) (k : N),
  Forall (fun f => (Z.of_nat (length (snd f)) < max_message_size)%Z) fs ->
  snd (recv_stream false (cut k (enc_stream fs))) = EndEOF.
Proof. exact old_rule_accepts_every_cut. Qed.
Print Assumptions old_recv_accepts_every_cut.

(* ... so a stream cut in the middle of a message value gave a short result without error *)
Theorem old_cut_inside_message_detected_refuted :
  exists grp hdr ms k,
    hdr <= k /\ boundary_cut (map m_len ms) (k - hdr) = false /\
    sread_ok (fst (full_result grp ms)) (sread false grp hdr ms k) = false.
Proof.
  exists false, 11, w_msgs, (11 + 15). split; [discriminate|].
  destruct old_sread_cut_inside_accepted as [H1 H2]. split; [exact H2|exact H1].
Qed.
Print Assumptions old_cut_inside_message_detected_refuted.

(* open finding (same limitation as c05-stream-cut-at-frame-boundary): closed exactly between
   two messages, the stream is taken for complete *)
Theorem store_stream_boundary_cut_detected_refuted :
  exists grp hdr ms k,
    hdr <= k /\ boundary_cut (map m_len ms) (k - hdr) = true /\
    sread_ok (fst (full_result grp ms)) (sread true grp hdr ms k) = false.
Proof.
  exists false, 11, w_msgs2, (11 + 29). split; [discriminate|].
  destruct sread_boundary_cut_accepted as [H1 H2]. split; [exact H2|exact H1].
Qed.
Print Assumptions store_stream_boundary_cut_detected_refuted.

(* ====================================================================================
   SHOW fan-out (ClusterTSDBStore.MeasurementNames / TagKeys / TagValues over
   MetaExecutor.ExecuteQuery).  All statements quantify over every coordinating node, node
   list, node behaviour (serve | error reply | down), ownership layout and item data.
   ==================================================================================== *)

(* the listing is the union over the answering nodes: an item is listed iff some node that
   served the request holds a shard containing it; it is sorted without duplicates; and no
   error is ever returned *)
Theorem show_is_union_of_answering_nodes :
  forall local nodes beh data shards,
  (forall x, In x (fst (show_fanout local nodes beh data shards)) <->
     exists n s, (n = local \/ In n nodes) /\ beh n = NServe /\
                 In s shards /\ owned_by s n = true /\ In x (data (sid s))) /\
  Sorted.StronglySorted N.lt (fst (show_fanout local nodes beh data shards)) /\
  snd (show_fanout local nodes beh data shards) = false.
Proof.
  intros. split; [intros x; apply show_union_lemma|]. split; [apply show_sorted|reflexivity].
Qed.
Print Assumptions show_is_union_of_answering_nodes.

(* whenever every shard has an answering owner, the listing is the single-node listing *)
Theorem show_complete_when_covered :
  forall local nodes beh data shards,
  covered local nodes beh shards = true ->
  fst (show_fanout local nodes beh data shards) = show_reference data shards.
Proof. exact show_complete_lemma. Qed.
Print Assumptions show_complete_when_covered.

(* nothing is invented in any case *)
Theorem show_subset_of_reference :
  forall local nodes beh data shards x,
  In x (fst (show_fanout local nodes beh data shards)) -> In x (show_reference data shards).
Proof. exact show_subset_lemma. Qed.
Print Assumptions show_subset_of_reference.

(* link to the executable spec (Run.CShow).  _partial: covered layouts only *)
Theorem show_model_satisfies_spec_partial :
  forall local nodes beh data shards,
  covered local nodes beh shards = true ->
  show_ok (show_reference data shards) (show_fanout local nodes beh data shards) = true.
Proof. exact show_satisfies_spec_partial. Qed.
Print Assumptions show_model_satisfies_spec_partial.

(* open finding c05-show-fanout-drops-node-errors: a shard without an answering owner (its only
   owner is down, or replies with an error): the listing lacks its items and no error is returned *)
Theorem show_silently_incomplete_refuted :
  exists local nodes beh data shards,
    covered local nodes beh shards = false /\
    show_ok (show_reference data shards) (show_fanout local nodes beh data shards) = false.
Proof.
  exists 1, [1; 2; 3], sw_beh, sw_data, sw_shards.
  destruct show_incomplete_witness as [H1 [_ [_ [H2 _]]]]. split; assumption.
Qed.
Print Assumptions show_silently_incomplete_refuted.

(* ---------- non-vacuity ---------- *)

(* three nodes, replication 2, coordinator 1; node 2 down, node 3 serves: shard 2 is read
   from node 3 after one failed attempt, shard 1 (only on node 2) makes the query fail *)
Example ex_wf : wf_shards w_shards = true. Proof. reflexivity. Qed.

Example ex_retry_ok :
  snd (fst (model_run true 1 (fun _ _ => 1) [mkShard 2 [2; 3]; mkShard 3 [3; 2]] (fun s => [s])
              (fun n _ _ => if n =? 2 then DialFail else Serve) [OpCI; OpFD; OpIC]))
  = [QOk [2; 3]; QOk [2; 3]; QOk [2]].
Proof. vm_compute. reflexivity. Qed.

Example ex_no_owner_left_error :
  snd (fst (model_run true 1 (fun _ _ => 0) w_shards w_data
              (fun n _ _ => if n =? 2 then DialFail else Serve) [OpCI]))
  = [QErr].
Proof. vm_compute. reflexivity. Qed.

Example ex_group_wf : group_wf (mkGroup 2 w_shards true).
Proof. intros s [<-|[<-|[]]]; cbn; auto. Qed.

Example ex_partition :
  map (fun e => (fst e, map sid (snd e)))
      (map_shards 1 (fun _ _ => 1) [mkShard 1 [1; 2]; mkShard 2 [2; 3]; mkShard 3 [3; 2]; mkShard 4 [3; 1]])
  = [(1, [1; 4]); (3, [2; 3])].
Proof. vm_compute. reflexivity. Qed.

(* two measurements of the same db/rp (source 0 twice) and one of another rp (source 1),
   coordinator 1 owns nothing: each source is mapped once *)
Example ex_multi_source :
  let view := fun src => if src =? 0 then [mkShard 10 [2]; mkShard 11 [3]] else [mkShard 20 [3]] in
  let '(st, res) := model_mrun true 1 (fun _ _ _ => 0) view (fun s => [s]) (fun _ _ _ => Serve)
                               [0; 0; 1] [(0, OpCI); (0, OpIC); (1, OpCI)] in
  (rm_groups st, map fst res) =
  ([(0, [(2, [mkShard 10 [2]]); (3, [mkShard 11 [3]])]); (1, [(3, [mkShard 20 [3]])])],
   [QOk [10; 11]; QOk [2]; QOk [20]]).
Proof. vm_compute. reflexivity. Qed.

(* a group truncated at 400 with successor [400,1000): a query starting at 400 reads both *)
Example ex_truncated_group_still_read :
  map sid (view_of_groups 400 900 [mkSG 0 1000 (Some 400%Z) false [mkShard 1 [2]];
                                   mkSG 400 1000 None false [mkShard 2 [3]];
                                   mkSG 1000 1700 None true [mkShard 3 [2]]]) = [1; 2]%N.
Proof. vm_compute. reflexivity. Qed.

(* a stream of two messages (payloads of 3 and 2 bytes) cut after 14 bytes: the first message
   arrives, the second is cut inside its size: error under the repaired rule, clean end before *)
Example ex_recv_cut :
  recv_stream true (cut 14 (enc_stream [(1, [7; 8; 9]); (1, [5; 6])])) = ([(1, [7; 8; 9])], EndErr) /\
  recv_stream false (cut 14 (enc_stream [(1, [7; 8; 9]); (1, [5; 6])])) = ([(1, [7; 8; 9])], EndEOF) /\
  cut_frames [3; 2] 14 = (1%nat, true) /\ boundary_cut [3; 2] 12 = true.
Proof. repeat split; vm_compute; reflexivity. Qed.

Example ex_small : Forall (fun f : N * bytes => (Z.of_nat (length (snd f)) < max_message_size)%Z) [(1, [7; 8; 9]); (1, [5; 6])].
Proof. repeat constructor. Qed.

(* ReadFilter: complete reading of the witness stream; the trailer carries no frames *)
Example ex_sread_full :
  sread true false 11 w_msgs2 (11 + 29 + 21 + 49) =
  SStream [(0, 1, [10; 11]); (0, 2, [20])] false.
Proof. vm_compute. reflexivity. Qed.

(* ReadGroup: groups, series and points; a series frame before any group frame is an error *)
Example ex_sread_group :
  consume true [(1, 30, [FGroup 1; FSeries 1; FPoints [5]; FSeries 2; FPoints [6]; FGroup 2; FSeries 3; FPoints [7]])] EndEOF
  = ([(1, 1, []); (0, 1, [5]); (0, 2, [6]); (1, 2, []); (0, 3, [7])], false) /\
  snd (consume true [(1, 9, [FSeries 1])] EndEOF) = true.
Proof. split; vm_compute; reflexivity. Qed.

(* after two responses in a row without frames the third response is ErrStreamNoData, even
   when it carries frames; the end of the stream instead is fine *)
Example ex_no_data :
  snd (consume false [(2, 5, []); (2, 5, []); (2, 5, [])] EndEOF) = true /\
  consume false [(2, 5, []); (2, 5, []); (1, 9, [FSeries 1])] EndEOF = ([], true) /\
  consume false [(2, 5, []); (2, 5, [])] EndEOF = ([], false).
Proof. repeat split; vm_compute; reflexivity. Qed.

(* SHOW: replicas cover the node that is down: complete; the witness layout is not covered *)
Example ex_show_covered :
  covered 1 [1; 2; 3] sw_beh [mkShard 1 [2; 3]; mkShard 2 [2; 3]] = true /\
  show_fanout 1 [1; 2; 3] sw_beh sw_data [mkShard 1 [2; 3]; mkShard 2 [2; 3]] = ([10; 11; 20], false).
Proof. split; vm_compute; reflexivity. Qed.


(* ====================================================================================
   Typed merge of the fan-out (MergeModel.v): ClusterShardMapping.CreateIterator appends the
   sources' iterators in goroutine-completion order and Iterators.Merge lets the FIRST input
   decide the element type, closing and dropping inputs of any other type.
   ==================================================================================== *)

(* Repaired rule (an Unknown-typed reply yields no iterator): for every field type t0, every
   list of sources - local or remote, any number of them holding no such field (type Unknown,
   no rows), all others of type t0 with any rows - and EVERY arrival order (any permutation of
   the sources), the merged stream holds every row of every source exactly once (as a sorted
   multiset) and has type t0. *)
Theorem typed_merge_complete :
  forall (t0 : dtype) (srcs arrival : list tsource),
    wf_sources t0 srcs -> Permutation arrival srcs ->
    rows_of (typed_merge true arrival) = all_rows srcs /\
    (forall t r, typed_merge true arrival = Some (t, r) -> t = t0).
Proof. exact typed_merge_complete_l. Qed.
Print Assumptions typed_merge_complete.

(* Pinned rule (Unknown reply -> nilFloatReaderIterator): complete only for float fields or
   when no remote source lacks the field.  Missing: integer/unsigned/string/boolean fields with
   a remote node whose shards hold no such measurement - refuted below. *)
Theorem typed_merge_pinned_partial :
  forall (t0 : dtype) (srcs arrival : list tsource),
    wf_sources t0 srcs -> Permutation arrival srcs ->
    (t0 = TFloat \/ Forall (fun s => ts_remote s = false \/ ts_typ s <> TUnknown) srcs) ->
    rows_of (typed_merge false arrival) = all_rows srcs /\
    (forall t r, typed_merge false arrival = Some (t, r) -> t = t0).
Proof. exact typed_merge_pinned_partial_l. Qed.
Print Assumptions typed_merge_pinned_partial.

(* Pinned rule refuted: one node without the measurement + two integer sources; when the empty
   reply arrives first the merge returns no row at all, in another order all three
   (witness replayed on the real code: corpus/C05.jsonl kind tmerge). *)
Theorem typed_merge_complete_refuted :
  exists t0 srcs a1 a2,
    wf_sources t0 srcs /\ Permutation a1 srcs /\ Permutation a2 srcs /\
    rows_of (typed_merge false a1) <> all_rows srcs /\
    rows_of (typed_merge false a2) = all_rows srcs.
Proof. exact typed_merge_complete_refuted_l. Qed.
Print Assumptions typed_merge_complete_refuted.

Theorem typed_merge_link :
  forall t0 srcs arrival, wf_sources t0 srcs -> Permutation arrival srcs ->
    tm_ok srcs (rows_of (typed_merge true arrival)) = true.
Proof. exact tm_link. Qed.
Print Assumptions typed_merge_link.

Example ex_typed_merge_nontrivial :
  wf_sources TInteger w_tm_srcs /\ typed_merge true w_tm_srcs = Some (TInteger, [1; 2; 3]) /\
  typed_merge false w_tm_srcs = Some (TFloat, []).
Proof.
  split; [|split; vm_compute; reflexivity]. split; [discriminate|]. unfold w_tm_srcs.
  constructor; [left; split; reflexivity|]. constructor; [right; reflexivity|].
  constructor; [right; reflexivity|constructor].
Qed.

(* ====================================================================================
   Merged storage result set (reads.NewMergedResultSet behind ClusterStoreMapping.ReadFilter /
   the GroupNone and GroupBy merges): an input that fails must fail the merge.
   ==================================================================================== *)

(* Repaired rule: for every list of input result sets (each: any series, then a clean end or a
   failure - also before its first series) and every arrival order: draining the merged result
   set ends with an error iff some input failed, otherwise it delivers every series of every
   input once. *)
Theorem rs_merge_complete_or_error :
  forall (srcs arrival : list rsource), Permutation arrival srcs ->
    rs_merge true arrival = if rs_any_fails srcs then None else Some (rs_all srcs).
Proof. exact rs_merge_complete_or_error_l. Qed.
Print Assumptions rs_merge_complete_or_error.

(* Pinned rule: holds when every failing input delivered a series first. *)
Theorem rs_merge_pinned_partial :
  forall l : list rsource,
    Forall (fun s => rs_fails s = true -> rs_series s <> []) l ->
    rs_merge false l = if rs_any_fails l then None else Some (rs_all l).
Proof. exact rs_merge_pinned_partial_l. Qed.
Print Assumptions rs_merge_pinned_partial.

(* Pinned rule refuted: an input failing before its first series is read as empty. *)
Theorem rs_merge_error_surfaces_refuted :
  exists srcs, rs_any_fails srcs = true /\ rs_merge false srcs = Some [1; 2]
               /\ rs_ok srcs (rs_merge false srcs) = false.
Proof. exact rs_merge_error_surfaces_refuted_l. Qed.
Print Assumptions rs_merge_error_surfaces_refuted.

Theorem rs_merge_link :
  forall srcs arrival, Permutation arrival srcs -> rs_ok srcs (rs_merge true arrival) = true.
Proof. exact rs_link. Qed.
Print Assumptions rs_merge_link.

(* MapType over the fan-out (ClusterShardMapping.MapType): for every list of answers (local
   mapping and remote groups, any order) the reported type is one of the answers (Unknown only
   if every answer is Unknown or there is none) and no answer has precedence over it (dt_rank: the
   order of DataType.LessThan, ProofsMerge.dt_less_than_rank) - no
   source's knowledge of the field is ignored.  Diffed end to end (kind mtype). *)
Theorem map_type_max :
  forall types : list dtype,
    (forall t, In t types -> dt_rank t <= dt_rank (map_type types)) /\
    (map_type types = TUnknown \/ In (map_type types) types).
Proof. exact map_type_max_l. Qed.
Print Assumptions map_type_max.

Example ex_map_type : map_type [TInteger; TUnknown; TFloat; TString] = TFloat /\ map_type [TBoolean; TUnsigned] = TUnsigned.
Proof. split; vm_compute; reflexivity. Qed.
