(* C05/ProofsA.v — list / sorting / association-map lemmas and the mapShards theorems *)
From Coq Require Import Permutation.
From Coq Require Import ZifyBool ZifyNat ZifyN.
From Verif Require Import C05.Model C05.Spec.
Open Scope N_scope.

(* ---------- sortN ---------- *)

Lemma insertN_perm x l : Permutation (insertN x l) (x :: l).
Proof.
  induction l as [|y t IH]; cbn [insertN]; [reflexivity|].
  destruct (x <=? y) eqn:E; [reflexivity|].
  rewrite IH. apply perm_swap.
Qed.

Lemma sortN_perm l : Permutation (sortN l) l.
Proof.
  induction l as [|x t IH]; cbn [sortN fold_right]; [reflexivity|].
  fold (sortN t). rewrite insertN_perm. constructor. exact IH.
Qed.

Lemma insertN_comm x y l : insertN x (insertN y l) = insertN y (insertN x l).
Proof.
  induction l as [|z t IH]; cbn [insertN].
  - destruct (x <=? y) eqn:E1, (y <=? x) eqn:E2; try reflexivity.
    + assert (x = y) by lia. subst. reflexivity.
    + lia.
  - destruct (y <=? z) eqn:Eyz, (x <=? z) eqn:Exz; cbn [insertN]; rewrite ?Eyz, ?Exz.
    + destruct (x <=? y) eqn:E1, (y <=? x) eqn:E2; try reflexivity.
      * assert (x = y) by lia. subst. reflexivity.
      * lia.
    + destruct (x <=? y) eqn:E1; [lia|]. reflexivity.
    + destruct (y <=? x) eqn:E2; [lia|]. reflexivity.
    + rewrite IH. reflexivity.
Qed.

Lemma sortN_perm_eq l l' : Permutation l l' -> sortN l = sortN l'.
Proof.
  induction 1 as [|x l l' _ IH|x y l|l l' l'' _ IH1 _ IH2]; cbn [sortN fold_right].
  - reflexivity.
  - fold (sortN l) (sortN l'). rewrite IH. reflexivity.
  - apply insertN_comm.
  - congruence.
Qed.

Lemma sortN_app_sortN_r a b : sortN (a ++ sortN b) = sortN (a ++ b).
Proof. apply sortN_perm_eq. apply Permutation_app_head. apply sortN_perm. Qed.

Lemma list_eqb_refl l : list_eqb l l = true.
Proof. induction l as [|x t IH]; cbn; [reflexivity|]. rewrite N.eqb_refl, IH. reflexivity. Qed.

Lemma list_eqb_eq a b : list_eqb a b = true <-> a = b.
Proof.
  split; [|intros ->; apply list_eqb_refl].
  revert b; induction a as [|x a IH]; intros [|y b] H; cbn in H; try discriminate; [reflexivity|].
  apply andb_true_iff in H. destruct H as [H1 H2]. apply N.eqb_eq in H1. apply IH in H2. congruence.
Qed.

(* ---------- memN / nodupb ---------- *)

Lemma memN_In x l : memN x l = true <-> In x l.
Proof.
  unfold memN. rewrite existsb_exists. split.
  - intros [y [Hy E]]. apply N.eqb_eq in E. subst. exact Hy.
  - intros H. exists x. split; [exact H | apply N.eqb_refl].
Qed.

Lemma memN_false x l : memN x l = false <-> ~ In x l.
Proof. rewrite <- memN_In. destruct (memN x l); split; intros; try discriminate; try reflexivity; tauto. Qed.

Lemma nodupb_NoDup l : nodupb l = true <-> NoDup l.
Proof.
  induction l as [|x t IH]; cbn [nodupb].
  - split; [constructor | reflexivity].
  - rewrite andb_true_iff, negb_true_iff, IH, memN_false. split.
    + intros [H1 H2]. constructor; assumption.
    + intros H. inversion H; subst. split; assumption.
Qed.

(* ---------- association map ---------- *)

Lemma has_key_In m k : has_key m k = true <-> In k (keys m).
Proof.
  unfold has_key, keys. rewrite existsb_exists, in_map_iff. split.
  - intros [e [He E]]. apply N.eqb_eq in E. exists e. split; assumption.
  - intros [e [E He]]. exists e. split; [exact He | apply N.eqb_eq; exact E].
Qed.

Lemma flat_amap_add m k s : Permutation (flat (amap_add m k s)) (s :: flat m).
Proof.
  induction m as [|[k' l] m IH]; cbn [amap_add flat flat_map snd app].
  - reflexivity.
  - destruct (k' =? k) eqn:E; cbn [flat flat_map snd].
    + rewrite <- app_assoc. cbn [app]. symmetry. apply Permutation_middle.
    + fold (flat (amap_add m k s)). rewrite IH. fold (flat m).
      symmetry. apply Permutation_middle.
Qed.

Lemma keys_amap_add_In m k s x : In x (keys (amap_add m k s)) <-> x = k \/ In x (keys m).
Proof.
  induction m as [|[k' l] m IH]; cbn [amap_add keys map fst In].
  - split; [intros [H|[]]; left; congruence | intros [H|[]]; left; congruence].
  - destruct (k' =? k) eqn:E; cbn [keys map fst In].
    + apply N.eqb_eq in E. subst. intuition congruence.
    + fold (keys (amap_add m k s)) (keys m). rewrite IH. intuition congruence.
Qed.

Lemma keys_amap_add_NoDup m k s : NoDup (keys m) -> NoDup (keys (amap_add m k s)).
Proof.
  induction m as [|[k' l] m IH]; cbn [amap_add keys map fst]; intros H.
  - constructor; [intros [] | constructor].
  - inversion H as [|? ? Hn Hd]; subst.
    destruct (k' =? k) eqn:E; cbn [keys map fst].
    + constructor; assumption.
    + fold (keys (amap_add m k s)). constructor; [|apply IH; exact Hd].
      rewrite keys_amap_add_In. intros [->|H1]; [rewrite N.eqb_refl in E; discriminate|].
      apply Hn. exact H1.
Qed.

Lemma amap_get_add_same m k s : amap_get (amap_add m k s) k = amap_get m k ++ [s].
Proof.
  unfold amap_get. induction m as [|[k' l] m IH]; cbn [amap_add find fst snd].
  - rewrite N.eqb_refl. reflexivity.
  - destruct (k' =? k) eqn:E; cbn [find fst snd]; rewrite E; [reflexivity | exact IH].
Qed.

Lemma amap_get_add_other m k k' s : k <> k' -> amap_get (amap_add m k s) k' = amap_get m k'.
Proof.
  intros Hne. unfold amap_get. induction m as [|[k0 l] m IH]; cbn [amap_add find fst snd].
  - destruct (k =? k') eqn:E; [apply N.eqb_eq in E; contradiction | reflexivity].
  - destruct (k0 =? k) eqn:E; cbn [find fst snd].
    + apply N.eqb_eq in E. subst.
      destruct (k =? k') eqn:E2; [apply N.eqb_eq in E2; contradiction | reflexivity].
    + destruct (k0 =? k') eqn:E2; [reflexivity | exact IH].
Qed.

Lemma amap_get_add_mono m k k' s x : In x (amap_get m k') -> In x (amap_get (amap_add m k s) k').
Proof.
  intros H. destruct (N.eq_dec k k') as [->|Hne].
  - rewrite amap_get_add_same. apply in_or_app. left. exact H.
  - rewrite amap_get_add_other by exact Hne. exact H.
Qed.

(* every shard filed under a node is owned by that node *)
Definition own_inv (m : amap) : Prop :=
  Forall (fun e => Forall (fun s => In (fst e) (owners s)) (snd e)) m.

Lemma own_inv_add m k s : own_inv m -> In k (owners s) -> own_inv (amap_add m k s).
Proof.
  unfold own_inv. intros H Hk. induction m as [|[k' l] m IH]; cbn [amap_add].
  - constructor; [|constructor]. cbn. constructor; [exact Hk | constructor].
  - inversion H as [|? ? H1 H2]; subst. destruct (k' =? k) eqn:E.
    + apply N.eqb_eq in E. subst. constructor; [|exact H2]. cbn [fst snd] in *.
      apply Forall_app. split; [exact H1 | constructor; [exact Hk | constructor]].
    + constructor; [exact H1 | apply IH; exact H2].
Qed.

Lemma first_selected_spec m os :
  first_selected m os = 0 \/ (In (first_selected m os) os /\ In (first_selected m os) (keys m)).
Proof.
  unfold first_selected. destruct (find (fun o => has_key m o) os) as [o|] eqn:E; [|left; reflexivity].
  apply find_some in E. destruct E as [H1 H2]. right. split; [exact H1 | apply has_key_In; exact H2].
Qed.

Lemma has_owner_true s : has_owner s = true <-> owners s <> [].
Proof. unfold has_owner. destruct (owners s); split; intros; try discriminate; try congruence; reflexivity. Qed.

Lemma owned_by_In s n : owned_by s n = true <-> In n (owners s).
Proof. unfold owned_by. apply memN_In. Qed.

Lemma nth_mod_In (os : list N) r : os <> [] ->
  In (nth (N.to_nat (r mod N.of_nat (length os))) os 0) os.
Proof.
  intros H. apply nth_In.
  assert (N.of_nat (length os) <> 0) by (destruct os; [congruence | cbn [length]; lia]).
  pose proof (N.mod_lt r (N.of_nat (length os)) H0). lia.
Qed.

(* ---------- mapShards ---------- *)

Section MapShards.
  Variable local : N.
  Variable choice : nat -> shard -> N.

  Lemma map_go_perm shards : forall k m,
    Permutation (flat (map_go local choice k m shards)) (flat m ++ filter has_owner shards).
  Proof.
    induction shards as [|s rest IH]; intros k m; cbn [map_go filter].
    - rewrite app_nil_r. reflexivity.
    - destruct (owned_by s local) eqn:Eo.
      + assert (Ho : has_owner s = true).
        { apply has_owner_true. apply owned_by_In in Eo. intros E. rewrite E in Eo. exact Eo. }
        rewrite Ho, IH, flat_amap_add. apply Permutation_middle.
      + unfold has_owner at 1. destruct (owners s) as [|o os] eqn:Eos; [apply IH|].
        rewrite <- Eos.
        destruct (first_selected m (owners s) =? 0) eqn:Es;
          rewrite IH, flat_amap_add; apply Permutation_middle.
  Qed.

  Lemma map_go_keys shards : forall k m,
    NoDup (keys m) -> NoDup (keys (map_go local choice k m shards)).
  Proof.
    induction shards as [|s rest IH]; intros k m H; cbn [map_go]; [exact H|].
    destruct (owned_by s local); [apply IH, keys_amap_add_NoDup, H|].
    destruct (owners s) as [|o os] eqn:Eos; [apply IH, H|]. rewrite <- Eos.
    destruct (first_selected m (owners s) =? 0); apply IH, keys_amap_add_NoDup, H.
  Qed.

  Lemma map_go_own shards : forall k m,
    own_inv m -> own_inv (map_go local choice k m shards).
  Proof.
    induction shards as [|s rest IH]; intros k m H; cbn [map_go]; [exact H|].
    destruct (owned_by s local) eqn:Eo.
    { apply IH, own_inv_add; [exact H | apply owned_by_In; exact Eo]. }
    destruct (owners s) as [|o os] eqn:Eos; [apply IH, H|]. rewrite <- Eos.
    destruct (first_selected m (owners s) =? 0) eqn:Es.
    - apply IH, own_inv_add; [exact H|]. apply nth_mod_In. rewrite Eos. discriminate.
    - apply IH, own_inv_add; [exact H|].
      destruct (first_selected_spec m (owners s)) as [E|[E _]]; [|exact E].
      rewrite E in Es. discriminate.
  Qed.

  Lemma map_go_local_mono shards : forall k m x,
    In x (amap_get m local) -> In x (amap_get (map_go local choice k m shards) local).
  Proof.
    induction shards as [|s rest IH]; intros k m x H; cbn [map_go]; [exact H|].
    destruct (owned_by s local); [apply IH, amap_get_add_mono, H|].
    destruct (owners s) as [|o os] eqn:Eos; [apply IH, H|]. rewrite <- Eos.
    destruct (first_selected m (owners s) =? 0); apply IH, amap_get_add_mono, H.
  Qed.

  Lemma map_go_local shards : forall k m x,
    In x shards -> owned_by x local = true -> In x (amap_get (map_go local choice k m shards) local).
  Proof.
    induction shards as [|s rest IH]; intros k m x Hin Ho; [destruct Hin|].
    destruct Hin as [->|Hin].
    - cbn [map_go]. rewrite Ho. apply map_go_local_mono. rewrite amap_get_add_same.
      apply in_or_app. right. left. reflexivity.
    - cbn [map_go]. destruct (owned_by s local); [apply IH; assumption|].
      destruct (owners s) as [|o os] eqn:Eos; [apply IH; assumption|]. rewrite <- Eos.
      destruct (first_selected m (owners s) =? 0); apply IH; assumption.
  Qed.
End MapShards.

Lemma filter_all {A} (f : A -> bool) l : forallb f l = true -> filter f l = l.
Proof.
  induction l as [|x t IH]; cbn; [reflexivity|]. intros H. apply andb_true_iff in H.
  destruct H as [H1 H2]. rewrite H1, IH by exact H2. reflexivity.
Qed.

(* map_partition: for every coordinator, oracle and metadata view in which every shard has
   an owner, the per-node shard lists are a partition of the query's shards, every shard is
   filed under one of its owners, node keys are distinct, and every shard the coordinator
   owns is read locally. *)
Lemma map_partition_lemma local choice shards :
  forallb has_owner shards = true ->
  let m := map_shards local choice shards in
  Permutation (flat m) shards /\
  NoDup (keys m) /\
  own_inv m /\
  (forall s, In s shards -> owned_by s local = true -> In s (amap_get m local)) /\
  (NoDup (map sid shards) -> NoDup (map sid (flat m))).
Proof.
  intros Hown m. unfold m, map_shards.
  assert (P : Permutation (flat (map_go local choice 0 [] shards)) shards).
  { rewrite map_go_perm. cbn [flat flat_map app]. rewrite filter_all by exact Hown. reflexivity. }
  split; [exact P|]. split; [apply map_go_keys; constructor|].
  split; [apply map_go_own; constructor|]. split; [intros s; apply map_go_local|].
  intros Hnd. eapply Permutation_NoDup; [|exact Hnd]. apply Permutation_map. symmetry. exact P.
Qed.

(* the same facts as the executable check used on the implementation's mapping *)
Lemma mapping_ok_model local choice shards :
  wf_shards shards = true -> mapping_ok local shards (map_shards local choice shards) = true.
Proof.
  unfold wf_shards. rewrite andb_true_iff. intros [Hnd Hown].
  destruct (map_partition_lemma local choice shards Hown) as (P & K & O & L & _).
  unfold mapping_ok. rewrite !andb_true_iff. repeat split.
  - apply list_eqb_eq. apply sortN_perm_eq. apply Permutation_map. exact P.
  - apply nodupb_NoDup. exact K.
  - apply forallb_forall. intros e He. apply forallb_forall. intros s Hs.
    apply owned_by_In. unfold own_inv in O. rewrite Forall_forall in O.
    specialize (O e He). rewrite Forall_forall in O. apply O. exact Hs.
  - apply forallb_forall. intros s Hs. destruct (owned_by s local) eqn:E; [|reflexivity].
    cbn [implb]. apply memN_In. apply in_map. apply L; assumption.
Qed.
