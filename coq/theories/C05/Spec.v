(* C05/Spec.v — the executable specification, independent of how the mapper and the
   retry loop work: what a caller may observe from a fan-out read. *)
From Verif Require Import C05.Model.
Open Scope N_scope.

Fixpoint list_eqb (a b : list N) : bool :=
  match a, b with
  | [], [] => true
  | x :: a', y :: b' => N.eqb x y && list_eqb a' b'
  | _, _ => false
  end.

Definition has_owner (s : shard) : bool := match owners s with [] => false | _ :: _ => true end.

Fixpoint nodupb (l : list N) : bool :=
  match l with [] => true | x :: t => negb (memN x t) && nodupb t end.

(* well-formed metadata view: shard ids are distinct and every shard has an owner
   (the second is an invariant of the metadata, property C06) *)
Definition wf_shards (shards : list shard) : bool :=
  nodupb (map sid shards) && forallb has_owner shards.

(* the answer of a single node holding the union of the data:
   OpCI/RF/RG: all rows in time order; OpFD: the fields of every shard (one field per
   shard id in the harness' data); OpIC: NumShards = number of shards *)
Definition reference (o : op) (data : N -> list N) (shards : list shard) : list N :=
  match o with
  | OpFD => sortN (map sid shards)
  | OpIC => [N.of_nat (length shards)]
  | _ => sortN (flat_map data (map sid shards))
  end.

(* complete result, or an error: never a silently short (or doubled) one *)
Definition res_ok (data : N -> list N) (shards : list shard) (o : op) (q : qres) : bool :=
  match q with
  | QErr => true
  | QOk v => list_eqb v (reference o data shards)
  end.

Fixpoint all2 {A B} (f : A -> B -> bool) (a : list A) (b : list B) : bool :=
  match a, b with
  | [], [] => true
  | x :: a', y :: b' => f x y && all2 f a' b'
  | _, _ => false
  end.

(* the shard lists per node are a partition of the query's shards, every shard sits on
   one of its owners, shards owned by the coordinator are read locally *)
Definition mapping_ok (local : N) (shards : list shard) (m : amap) : bool :=
  list_eqb (sortN (map sid (flat m))) (sortN (map sid shards))
  && nodupb (keys m)
  && forallb (fun e => forallb (fun s => owned_by s (fst e)) (snd e)) m
  && forallb (fun s => implb (owned_by s local) (memN (sid s) (map sid (amap_get m local)))) shards.

Definition spec_ok (local : N) (shards : list shard) (data : N -> list N) (ops : list op)
           (m : amap) (qs : list qres) : bool :=
  mapping_ok local shards m && all2 (res_ok data shards) ops qs.

(* ---------- statements with several sources ---------- *)

(* per source: local shards + remote groups (node, shards) partition the source's shards;
   no node appears twice (a source is mapped once); every shard sits on an owner; shards the
   coordinator owns are local *)
Definition mmapping_ok (local : N) (view : list shard) (lsh : list shard) (groups : amap) : bool :=
  list_eqb (sortN (map sid (lsh ++ flat groups))) (sortN (map sid view))
  && nodupb (keys groups) && negb (memN local (keys groups))
  && forallb (fun s => owned_by s local) lsh
  && forallb (fun e => forallb (fun s => owned_by s (fst e)) (snd e)) groups
  && forallb (fun s => implb (owned_by s local) (memN (sid s) (map sid lsh))) view.

(* when no node fails, the requests of one operation together with the local shards read
   every shard of the source exactly once *)
Definition seg_ok (lsh : list shard) (view : list shard) (seg : list key) : bool :=
  list_eqb (sortN (flat_map snd seg ++ map sid lsh)) (sortN (map sid view)).

Definition groups_of (gs : list gstate) : amap := map (fun gd => (g_node (fst gd), g_shards (fst gd))) gs.

Definition mspec_ok (local : N) (view : N -> list shard) (data : N -> list N) (srcs : list N)
           (ops : list (N * op)) (lm : list (N * list shard)) (rm : list (N * amap))
           (res : list (qres * list key)) (quiet : bool) : bool :=
  forallb (fun src => mmapping_ok local (view src) (assoc_get [] lm src) (assoc_get [] rm src)) srcs
  && all2 (fun o r => res_ok data (view (fst o)) (snd o) (fst r)) ops res
  && (negb quiet || all2 (fun o r => seg_ok (assoc_get [] lm (fst o)) (view (fst o)) (snd r)) ops res).

(* ---------- which groups must be read ---------- *)
Open Scope Z_scope.
(* a point with timestamp t may live in group g (ShardGroupInfo.Contains; a truncated group
   still holds every point it accepted before the truncation) *)
Definition can_hold (g : sgroup) (t : Z) : Prop := sg_start g <= t < sg_end g.
Close Scope Z_scope.
