(* C05/ProofsB.v — shuffleShards, the retry loop, termination *)
From Coq Require Import Permutation.
From Coq Require Import ZifyBool ZifyNat ZifyN.
From Verif Require Import C05.Model C05.Spec C05.ProofsA.
Open Scope N_scope.

(* ---------- shuffleShards ---------- *)

Definition clean_keys (dirty : list N) (m : amap) : Prop :=
  forall k, In k (keys m) -> memN k dirty = false.

Lemma first_clean_spec dirty os :
  first_clean dirty os = 0 \/
  (In (first_clean dirty os) os /\ memN (first_clean dirty os) dirty = false).
Proof.
  unfold first_clean. destruct (find (fun o => negb (memN o dirty)) os) as [o|] eqn:E; [|left; reflexivity].
  apply find_some in E. destruct E as [H1 H2]. right. split; [exact H1|].
  apply negb_true_iff in H2. exact H2.
Qed.

Lemma shuffle_go_spec dirty shards : forall m r,
  shuffle_go dirty m shards = Some r -> clean_keys dirty m -> own_inv m ->
  Permutation (flat r) (flat m ++ filter has_owner shards) /\ clean_keys dirty r /\ own_inv r /\
  (forall k, In k (keys r) -> In k (keys m) \/ In k (flat_map owners shards)).
Proof.
  induction shards as [|s rest IH]; intros m r H Hc Ho; cbn [shuffle_go] in H.
  - inversion H; subst. cbn [filter]. rewrite app_nil_r. repeat split; auto.
  - cbn [filter flat_map]. unfold has_owner at 1.
    destruct (owners s) as [|o os] eqn:Eos.
    + destruct (IH m r H Hc Ho) as (P & C & O & K). repeat split; auto.
    + rewrite <- Eos in *.
      set (sel := match m with [] => 0 | _ :: _ => first_selected m (owners s) end) in H.
      set (nid := if sel =? 0 then first_clean dirty (owners s) else sel) in H.
      destruct (nid =? 0) eqn:En; [discriminate|].
      assert (Hnid : In nid (owners s) /\ memN nid dirty = false).
      { unfold nid in *. destruct (sel =? 0) eqn:Es.
        - destruct (first_clean_spec dirty (owners s)) as [E|E]; [rewrite E in En; discriminate | exact E].
        - unfold sel in *. destruct m as [|e m']; [discriminate|].
          destruct (first_selected_spec (e :: m') (owners s)) as [E|[E1 E2]];
            [rewrite E in Es; discriminate|].
          split; [exact E1 | apply Hc; exact E2]. }
      destruct Hnid as [Hin Hcl].
      assert (Hc' : clean_keys dirty (amap_add m nid s)).
      { intros k Hk. apply keys_amap_add_In in Hk. destruct Hk as [->|Hk]; [exact Hcl | apply Hc; exact Hk]. }
      destruct (IH _ r H Hc' (own_inv_add m nid s Ho Hin)) as (P & C & O & K).
      split; [|split; [exact C|split; [exact O|]]].
      * rewrite P, flat_amap_add. apply Permutation_middle.
      * intros k Hk. destruct (K k Hk) as [Hk'|Hk'].
        -- apply keys_amap_add_In in Hk'. destruct Hk' as [->|Hk']; [|left; exact Hk'].
           right. apply in_or_app. left. exact Hin.
        -- right. apply in_or_app. right. exact Hk'.
Qed.

Lemma shuffle_spec dirty shards m :
  shuffle dirty shards = Some m ->
  m <> [] /\ Permutation (flat m) (filter has_owner shards) /\ clean_keys dirty m /\ own_inv m /\
  (forall k, In k (keys m) -> In k (flat_map owners shards)).
Proof.
  unfold shuffle. intros H.
  destruct (shuffle_go dirty [] shards) as [r|] eqn:E; [|discriminate].
  assert (r = m /\ m <> []) as [-> Hne].
  { destruct r; [discriminate|]. inversion H; subst. split; [reflexivity | discriminate]. }
  destruct (shuffle_go_spec dirty shards [] m E) as (P & C & O & K).
  { intros k []. } { constructor. }
  repeat split; auto.
  intros k Hk. destruct (K k Hk) as [[]|Hk']. exact Hk'.
Qed.

(* ---------- one round ---------- *)

Section Retry.
  Variable fixed : bool.
  Variable o : op.
  Variable beh : behaviour.

  (* the node of the part answered this very request with a reply the client accepts *)
  Definition answered (p : part) : Prop :=
    exists i, client_response fixed o (beh (p_node p) (ids (p_shards p)) i) = COk (p_stream p).

  Definition part_ok (p : part) : Prop :=
    (forall s, In s (p_shards p) -> In (p_node p) (owners s)) /\ answered p.

  Definition pkey (p : part) : N * list shard := (p_node p, p_shards p).

  Lemma round_calls_spec m : forall log ps fs log',
    round_calls fixed o beh log m = (ps, fs, log') ->
    (forall f, In f fs -> In f (keys m)) /\
    Forall (fun p => In (pkey p) m /\ answered p) ps /\
    (fs = [] -> map pkey ps = m).
  Proof.
    induction m as [|[n sh] m IH]; intros log ps fs log' H; cbn [round_calls] in H.
    - inversion H; subst. repeat split; [intros f [] | constructor].
    - unfold call in H.
      destruct (round_calls fixed o beh (log ++ [(n, ids sh)]) m) as [[ps1 fs1] log2] eqn:E.
      destruct (IH _ _ _ _ E) as (F & A & M).
      destruct (client_response fixed o (beh n (ids sh) (count_key (n, ids sh) log))) as [st|] eqn:Ec;
        inversion H; subst; clear H.
      + split; [|split].
        * intros f Hf. right. apply F. exact Hf.
        * constructor.
          -- split; [left; reflexivity|]. exists (count_key (n, ids sh) log). exact Ec.
          -- eapply Forall_impl; [|exact A]. intros p [Hp Ha]. split; [right; exact Hp | exact Ha].
        * intros Hfs. cbn [map pkey p_node p_shards]. unfold pkey at 1. cbn [p_node p_shards].
          rewrite (M Hfs). reflexivity.
      + split; [|split].
        * intros f [->|Hf]; [left; reflexivity | right; apply F; exact Hf].
        * eapply Forall_impl; [|exact A]. intros p [Hp Ha]. split; [right; exact Hp | exact Ha].
        * discriminate.
  Qed.

  Lemma flat_map_pkey ps : flat (map pkey ps) = flat_map p_shards ps.
  Proof. unfold flat. induction ps as [|p ps IH]; cbn; [reflexivity|]. rewrite IH. reflexivity. Qed.

  Lemma own_inv_entry m n sh s : own_inv m -> In (n, sh) m -> In s sh -> In n (owners s).
  Proof.
    unfold own_inv. rewrite Forall_forall. intros H He Hs. specialize (H _ He). cbn [fst snd] in H.
    rewrite Forall_forall in H. apply H. exact Hs.
  Qed.

  (* ---------- the retry loop ---------- *)

  Lemma rounds_spec shards : forall fuel dirty log ps d' l',
    rounds fuel fixed o beh dirty log shards = (ROk ps, d', l') ->
    Permutation (flat_map p_shards ps) (filter has_owner shards) /\ Forall part_ok ps.
  Proof.
    induction fuel as [|f IH]; intros dirty log ps d' l' H; cbn [rounds] in H; [discriminate|].
    destruct (shuffle dirty shards) as [m|] eqn:Es; [|discriminate].
    destruct (round_calls fixed o beh log m) as [[ps1 fs] log1] eqn:Er.
    destruct fs as [|f0 fs].
    - inversion H; subst; clear H.
      destruct (shuffle_spec _ _ _ Es) as (_ & P & _ & O & _).
      destruct (round_calls_spec _ _ _ _ _ Er) as (_ & A & M).
      split.
      + rewrite <- flat_map_pkey, (M eq_refl). exact P.
      + eapply Forall_impl; [|exact A]. intros p [Hp Ha]. split; [|exact Ha].
        intros s Hs. eapply own_inv_entry; [exact O | exact Hp | exact Hs].
    - eapply IH. exact H.
  Qed.

  (* each failed round strictly grows the dirty set: the failing nodes were clean *)
  Lemma failed_round_grows_dirty dirty log shards m ps fs log' :
    shuffle dirty shards = Some m ->
    round_calls fixed o beh log m = (ps, fs, log') ->
    forall f, In f fs -> memN f dirty = false /\ In f (flat_map owners shards).
  Proof.
    intros Es Er f Hf.
    destruct (shuffle_spec _ _ _ Es) as (_ & _ & C & _ & K).
    destruct (round_calls_spec _ _ _ _ _ Er) as (F & _ & _).
    split; [apply C | apply K]; apply F; exact Hf.
  Qed.

  Definition measure (nodes dirty : list N) : nat :=
    length (filter (fun n => negb (memN n dirty)) nodes).

  Lemma memN_app x a b : memN x (a ++ b) = memN x a || memN x b.
  Proof. unfold memN. apply existsb_app. Qed.

  Lemma measure_le nodes dirty fs : (measure nodes (dirty ++ fs) <= measure nodes dirty)%nat.
  Proof.
    unfold measure. induction nodes as [|n t IH]; cbn [filter]; [lia|].
    rewrite memN_app. destruct (memN n dirty); cbn [negb orb length]; [exact IH|].
    destruct (memN n fs); cbn [negb length]; lia.
  Qed.

  Lemma measure_lt nodes dirty fs x :
    In x nodes -> memN x dirty = false -> In x fs ->
    (measure nodes (dirty ++ fs) < measure nodes dirty)%nat.
  Proof.
    unfold measure. induction nodes as [|n t IH]; intros Hin Hc Hf; [destruct Hin|].
    cbn [filter]. rewrite memN_app. destruct Hin as [->|Hin].
    - rewrite Hc. apply memN_In in Hf. rewrite Hf. cbn [negb orb length].
      pose proof (measure_le t dirty fs). unfold measure in H. lia.
    - specialize (IH Hin Hc Hf).
      destruct (memN n dirty); cbn [negb orb length]; [exact IH|].
      destruct (memN n fs); cbn [negb length]; lia.
  Qed.

  Lemma measure_bound nodes dirty : (measure nodes dirty <= length nodes)%nat.
  Proof.
    unfold measure. induction nodes as [|n t IH]; cbn [filter length]; [lia|].
    destruct (negb (memN n dirty)); cbn [length]; lia.
  Qed.

  Lemma rounds_fuel shards nodes :
    (forall x, In x (flat_map owners shards) -> In x nodes) ->
    forall fuel dirty log, (measure nodes dirty < fuel)%nat ->
    fst (fst (rounds fuel fixed o beh dirty log shards)) <> RFuel.
  Proof.
    intros Hn. induction fuel as [|f IH]; intros dirty log Hm; [lia|].
    cbn [rounds]. destruct (shuffle dirty shards) as [m|] eqn:Es; [|cbn; discriminate].
    destruct (round_calls fixed o beh log m) as [[ps fs] log1] eqn:Er.
    destruct fs as [|f0 fs]; [cbn; discriminate|].
    apply IH.
    destruct (failed_round_grows_dirty _ _ _ _ _ _ _ Es Er f0 (or_introl eq_refl)) as [Hc Hk].
    pose proof (measure_lt nodes dirty (f0 :: fs) f0 (Hn _ Hk) Hc (or_introl eq_refl)). lia.
  Qed.

  (* ---------- remoteShardGroup.X ---------- *)

  Definition group_wf (g : group) : Prop := forall s, In s (g_shards g) -> In (g_node g) (owners s).

  Lemma group_wf_has_owner g : group_wf g -> filter has_owner (g_shards g) = g_shards g.
  Proof.
    intros H. apply filter_all. apply forallb_forall. intros s Hs. apply has_owner_true.
    specialize (H s Hs). intros E. rewrite E in H. exact H.
  Qed.

  Lemma run_remote_spec fuel g dirty log ps d' l' :
    group_wf g ->
    run_remote fuel fixed o beh g dirty log = (ROk ps, d', l') ->
    Permutation (flat_map p_shards ps) (g_shards g) /\ Forall part_ok ps.
  Proof.
    intros Hwf H. unfold run_remote, call in H.
    destruct (client_response fixed o (beh (g_node g) (ids (g_shards g)) (count_key (g_node g, ids (g_shards g)) log)))
      as [st|] eqn:Ec.
    - inversion H; subst; clear H. cbn [flat_map p_shards]. rewrite app_nil_r. split; [reflexivity|].
      constructor; [|constructor]. split; [exact Hwf|]. eexists. exact Ec.
    - destruct (g_retry g); [|discriminate].
      apply rounds_spec in H. rewrite group_wf_has_owner in H by exact Hwf. exact H.
  Qed.

  Lemma run_remote_terminates g dirty log :
    fst (fst (run_remote (group_fuel (g_shards g)) fixed o beh g dirty log)) <> RFuel.
  Proof.
    unfold run_remote, call.
    destruct (client_response fixed o _); [cbn; discriminate|].
    destruct (g_retry g); [|cbn; discriminate].
    apply rounds_fuel with (nodes := flat_map owners (g_shards g)); [auto|].
    unfold group_fuel. pose proof (measure_bound (flat_map owners (g_shards g)) (dirty ++ [g_node g])). lia.
  Qed.

  Lemma run_remote_terminates_nodes nodes fuel g dirty log :
    (forall s x, In s (g_shards g) -> In x (owners s) -> In x nodes) ->
    (length nodes < fuel)%nat ->
    fst (fst (run_remote fuel fixed o beh g dirty log)) <> RFuel.
  Proof.
    intros Hn Hf. unfold run_remote, call.
    destruct (client_response fixed o _); [cbn; discriminate|].
    destruct (g_retry g); [|cbn; discriminate].
    apply rounds_fuel with (nodes := nodes).
    - intros x Hx. apply in_flat_map in Hx. destruct Hx as [s [Hs Hx]]. eapply Hn; eassumption.
    - pose proof (measure_bound nodes (dirty ++ [g_node g])). lia.
  Qed.

  (* a shard none of whose owners ever answers acceptably makes the group fail *)
  Lemma no_serving_owner_error g dirty log s :
    group_wf g -> In s (g_shards g) ->
    (forall x k i, In x (owners s) -> client_response fixed o (beh x k i) = CErr) ->
    fst (fst (run_remote (group_fuel (g_shards g)) fixed o beh g dirty log)) = RErr.
  Proof.
    intros Hwf Hs Hbad.
    pose proof (run_remote_terminates g dirty log) as Ht.
    destruct (run_remote (group_fuel (g_shards g)) fixed o beh g dirty log) as [[r d'] l'] eqn:E.
    cbn [fst] in *. destruct r as [ps| |]; [|reflexivity|congruence].
    exfalso. destruct (run_remote_spec _ _ _ _ _ _ _ Hwf E) as [P A].
    assert (Hin : In s (flat_map p_shards ps)) by (eapply Permutation_in; [symmetry; exact P | exact Hs]).
    apply in_flat_map in Hin. destruct Hin as [p [Hp Hsp]].
    rewrite Forall_forall in A. destruct (A p Hp) as [Hown [i Hi]].
    rewrite (Hbad _ _ _ (Hown s Hsp)) in Hi. discriminate.
  Qed.
End Retry.

(* with the repaired client, a node that replies with an error to every request never
   contributes a part to a successful result *)
Lemma error_node_never_serves o beh fuel g dirty log ps d' l' n :
  group_wf g ->
  (forall k i, beh n k i = ErrorReply) ->
  run_remote fuel true o beh g dirty log = (ROk ps, d', l') ->
  forall p, In p ps -> p_node p <> n.
Proof.
  intros Hwf Hb H p Hp E. subst n.
  destruct (run_remote_spec true o beh _ _ _ _ _ _ _ Hwf H) as [_ A].
  rewrite Forall_forall in A. destruct (A p Hp) as [_ [i Hi]].
  rewrite Hb in Hi. destruct o; cbn in Hi; discriminate.
Qed.
