(* C05/StreamModel.v — executable model of the storage-read streams
   (coordinator/store_stream.go: storeStreamReceiver.Recv over the TLV framing of
    coordinator/service.go ReadType / ReadLV, which C15/Model.v models as read_tlv;
    coordinator/meta_executor.go: MetaExecutor.ReadFilter / ReadGroup = one response message,
    then the stream; storage/reads/stream_reader.go: frameReader.peekFrame and the
    ResultSetStreamReader / GroupResultSetStreamReader state machines that consume it).
   The byte stream a client sees is a PREFIX of what the serving node wrote: the connection
   may be closed after any number k of bytes.
   Definitions only; proofs live in ProofsStream.v. *)
From Verif Require Export Lib.Bytes.
From Verif Require Import C15.Model.
From VerifGen Require Import Consts.
Open Scope N_scope.

(* ---------- one ReadType + ReadLV on what is left of the stream ---------- *)

(* REof   : io.ReadFull of the type byte read nothing ("read message type: EOF")
   RShort : EOF inside the 8-byte size or inside the value ("read message size: EOF /
            unexpected EOF", "read message value: EOF / unexpected EOF")
   RBad   : "invalid message size" / "max message size exceeded" *)
Inductive rstep :=
| RFrame (typ : N) (payload rest : bytes)
| REof
| RShort
| RBad.

Definition recv_step (s : bytes) : rstep :=
  match s with
  | [] => REof
  | t :: s1 =>
      match take 8 s1 with
      | None => RShort
      | Some (hdr, rest) =>
          let sz := to_int64 (be_dec hdr) in
          if (sz <? 0)%Z then RBad
          else if (sz >=? max_message_size)%Z then RBad
          else if (Z.of_nat (length rest) <? sz)%Z then RShort
          else match take (Z.to_nat sz) rest with
               | Some (p, r) => RFrame t p r
               | None => RShort
               end
      end
  end.

(* how the receiver's caller sees the end of the stream *)
Inductive send := EndEOF | EndErr | EndFuel.

(* storeStreamReceiver.Recv called until it returns an error.
   [fixed = false] is the rule before the fix: commit: every framing error whose text contains
   "EOF" - also the unexpected EOF of a size or value cut short - was returned as io.EOF.
   [fixed = true]: only EOF before the first byte of a message is io.EOF.
   The payloads are handed on as they are (protobuf / JSON decoding is not modelled). *)
Fixpoint recv_all (fuel : nat) (fixed : bool) (s : bytes) : list (N * bytes) * send :=
  match fuel with
  | O => ([], EndFuel)
  | S f =>
      match recv_step s with
      | RFrame t p r => let '(l, e) := recv_all f fixed r in ((t, p) :: l, e)
      | REof => ([], EndEOF)
      | RShort => ([], if fixed then EndErr else EndEOF)
      | RBad => ([], EndErr)
      end
  end.

(* every message consumes at least its type byte *)
Definition recv_stream (fixed : bool) (s : bytes) : list (N * bytes) * send :=
  recv_all (S (length s)) fixed s.

(* what the sender writes: WriteTLV per message *)
Definition enc_stream (fs : list (N * bytes)) : bytes :=
  flat_map (fun f => write_tlv (fst f) (snd f)) fs.

(* the connection is closed after k bytes *)
Definition cut (k : N) (s : bytes) : bytes := firstn (N.to_nat k) s.

(* ---------- the same at the level of message lengths ---------- *)

(* a stream of messages with payload lengths [lens], closed after k bytes: how many messages
   arrive completely, and whether the cut lies strictly inside a message (type byte, size,
   or value) *)
Fixpoint cut_frames (lens : list N) (k : N) : nat * bool :=
  match lens with
  | [] => (O, false)
  | l :: rest =>
      if k =? 0 then (O, false)
      else if k <? 9 + l then (O, true)
      else let '(m, i) := cut_frames rest (k - (9 + l)) in (S m, i)
  end.

Definition end_of (fixed inside : bool) : send :=
  if inside then (if fixed then EndErr else EndEOF) else EndEOF.

Definition total_len (lens : list N) : N := fold_right (fun l a => 9 + l + a) 0 lens.

(* the cut is exactly between two messages (or before the first) and something is missing *)
Definition boundary_cut (lens : list N) (k : N) : bool :=
  negb (snd (cut_frames lens k)) && (k <? total_len lens).

(* ---------- the consumer: storage/reads frameReader + result set readers ---------- *)

(* frames of a ReadResponse, abstracted: a series frame (series id), a points frame
   (timestamps), a group frame (group id) *)
Inductive aframe := FSeries (s : N) | FPoints (ts : list N) | FGroup (g : N).

Definition trailer_typ : N := 2.     (* storeTrailerMetadataMessage *)

(* a message: type, payload length, frames (a trailer carries none) *)
Definition amsg := (N * N * list aframe)%type.
Definition m_typ (m : amsg) : N := fst (fst m).
Definition m_len (m : amsg) : N := snd (fst m).
Definition m_frames (m : amsg) : list aframe := if m_typ m =? trailer_typ then [] else snd m.

(* frameReader.peekFrame: Recv until a response with frames arrives.  Every response
   received inside one call uses up a retry (peekFrameRetries = 2), so after two responses
   in a row without frames (trailer => (nil, nil), or a ReadResponse without frames) the
   third response is ErrStreamNoData whatever it holds; EOF instead of a third response is a
   normal end. *)
Fixpoint frames_of (empties : nat) (ms : list amsg) : list aframe * bool :=
  match ms with
  | [] => ([], false)
  | m :: rest =>
      if (2 <=? empties)%nat then ([], true)
      else match m_frames m with
           | [] => frames_of (S empties) rest
           | fr => let '(l, e) := frames_of O rest in (fr ++ l, e)
           end
  end.

(* what a caller iterating the result set collects: kind 0 = series (id, timestamps of all
   its points frames), kind 1 = group (id) *)
Definition item := (N * N * list N)%type.

Definition flush (cur : option (N * list N)) : list item :=
  match cur with Some (s, ts) => [(0, s, ts)] | None => [] end.

(* ResultSetStreamReader: Next wants a series frame; the cursor takes points frames until a
   series frame (next series) or a group frame (state ReadGroup: the following Next fails) *)
Fixpoint rf_items (cur : option (N * list N)) (fs : list aframe) : list item * bool :=
  match fs with
  | [] => (flush cur, false)
  | FSeries s :: r => let '(l, e) := rf_items (Some (s, [])) r in (flush cur ++ l, e)
  | FPoints ts :: r =>
      match cur with
      | Some (s, acc) => rf_items (Some (s, acc ++ ts)) r
      | None => ([], true)                                  (* expected series frame *)
      end
  | FGroup _ :: _ => (flush cur, true)
  end.

(* GroupResultSetStreamReader: Next wants a group frame, the group cursor series frames
   until the next group frame *)
Fixpoint rg_items (ingroup : bool) (cur : option (N * list N)) (fs : list aframe) : list item * bool :=
  match fs with
  | [] => (flush cur, false)
  | FGroup g :: r => let '(l, e) := rg_items true None r in (flush cur ++ (1, g, []) :: l, e)
  | FSeries s :: r =>
      if ingroup then let '(l, e) := rg_items true (Some (s, [])) r in (flush cur ++ l, e)
      else (flush cur, true)                                (* expected group frame *)
  | FPoints ts :: r =>
      match cur with
      | Some (s, acc) => rg_items ingroup (Some (s, acc ++ ts)) r
      | None => ([], true)
      end
  end.

Definition items_of (grp : bool) (fs : list aframe) : list item * bool :=
  if grp then rg_items false None fs else rf_items None fs.

(* the result set a caller gets out of the messages that arrived, the stream ending with
   [e] *)
Definition consume (grp : bool) (ms : list amsg) (e : send) : list item * bool :=
  let '(fs, nodata) := frames_of O ms in
  let '(its, bad) := items_of grp fs in
  (its, bad || nodata || match e with EndEOF => false | _ => true end).

(* MetaExecutor.ReadFilter / ReadGroup against a node that writes a response message of
   [hdr] bytes (type, size, value) and then the messages [ms]; the connection is closed after
   k bytes.  The call fails when the response message is incomplete (DecodeTLVT). *)
Inductive sres := SCallErr | SStream (its : list item) (err : bool).

Definition sread (fixed grp : bool) (hdr : N) (ms : list amsg) (k : N) : sres :=
  if k <? hdr then SCallErr
  else let '(m, inside) := cut_frames (map m_len ms) (k - hdr) in
       let '(its, err) := consume grp (firstn m ms) (end_of fixed inside) in
       SStream its err.

(* ---------- executable spec: complete, or an error ---------- *)

Fixpoint nlist_eqb (a b : list N) : bool :=
  match a, b with
  | [], [] => true
  | x :: a', y :: b' => N.eqb x y && nlist_eqb a' b'
  | _, _ => false
  end.

Definition item_eqb (a b : item) : bool :=
  N.eqb (fst (fst a)) (fst (fst b)) && N.eqb (snd (fst a)) (snd (fst b)) && nlist_eqb (snd a) (snd b).

Fixpoint items_eqb (a b : list item) : bool :=
  match a, b with
  | [], [] => true
  | x :: a', y :: b' => item_eqb x y && items_eqb a' b'
  | _, _ => false
  end.

(* [ref] is what a single node holding the data answers *)
Definition sread_ok (ref : list item) (r : sres) : bool :=
  match r with
  | SCallErr => true
  | SStream its err => err || items_eqb its ref
  end.

(* byte level: what was received is a prefix of what was sent, and without an error it is
   everything *)
Fixpoint frame_prefixb (a b : list (N * bytes)) : bool :=
  match a, b with
  | [], _ => true
  | x :: a', y :: b' => N.eqb (fst x) (fst y) && nlist_eqb (snd x) (snd y) && frame_prefixb a' b'
  | _ :: _, [] => false
  end.

Definition recv_ok (sent : list (N * bytes)) (got : list (N * bytes)) (e : send) : bool :=
  frame_prefixb got sent &&
  match e with
  | EndEOF => Nat.eqb (length got) (length sent)
  | _ => true
  end.
