(* C05/Model.v — executable model of the distributed read path
   (coordinator/shard_mapper.go: ClusterShardMapper.mapShards / ClusterStoreMapper.mapShards,
    remoteShardGroup.{shuffleShards, CreateIterator, FieldDimensions, IteratorCost, ReadFilter,
    ReadGroup}; coordinator/meta_executor.go: what the client does with a reply;
    query/iterator.gen.go + point.gen.go: *ReaderIterator.Next on a frame stream that ends at EOF).
   Definitions only; proofs live in Proofs.v. *)
From Coq Require Export List NArith ZArith Bool Arith Lia.
Export ListNotations.
Open Scope N_scope.

(* ---------- metadata view ---------- *)

(* meta.ShardInfo: ID and Owners (node ids, in the order stored in the metadata). *)
Record shard := mkShard { sid : N; owners : list N }.

(* Go's map[uint64]shardInfos, kept in insertion order (the Go code ranges over the map
   in arbitrary order; every consumer below is order-insensitive and the harness
   canonicalises). *)
Definition amap := list (N * list shard).

Definition memN (x : N) (l : list N) : bool := existsb (N.eqb x) l.
Definition has_key (m : amap) (k : N) : bool := existsb (fun e => N.eqb (fst e) k) m.

(* shardsByNodeID[k] = append(shardsByNodeID[k], s) *)
Fixpoint amap_add (m : amap) (k : N) (s : shard) : amap :=
  match m with
  | [] => [(k, [s])]
  | (k', l) :: m' => if N.eqb k' k then (k', l ++ [s]) :: m' else (k', l) :: amap_add m' k s
  end.

Definition amap_get (m : amap) (k : N) : list shard :=
  match find (fun e => N.eqb (fst e) k) m with Some e => snd e | None => [] end.

Definition flat (m : amap) : list shard := flat_map snd m.
Definition keys (m : amap) : list N := map fst m.

(* si.OwnedBy(id) *)
Definition owned_by (s : shard) (n : N) : bool := memN n (owners s).

(* "The selected node has higher priority": first owner that already is a key; 0 = none
   (Go uses nodeID == 0 as "not chosen yet"). *)
Definition first_selected (m : amap) (os : list N) : N :=
  match find (fun o => has_key m o) os with Some o => o | None => 0 end.

(* ---------- mapShards (opt.NodeID = 0 branch) ---------- *)

(* [choice k s] is the raw value of the k-th rand draw (made for shard s); the code takes
   si.Owners[rand.Intn(len(si.Owners))], i.e. raw mod len. *)
Fixpoint map_go (local : N) (choice : nat -> shard -> N) (k : nat) (m : amap) (shards : list shard) : amap :=
  match shards with
  | [] => m
  | s :: rest =>
      if owned_by s local then map_go local choice k (amap_add m local s) rest
      else match owners s with
           | [] => map_go local choice k m rest                           (* continue *)
           | _ :: _ =>
               let sel := first_selected m (owners s) in
               if N.eqb sel 0 then
                 let idx := (choice k s) mod (N.of_nat (length (owners s))) in
                 let nid := nth (N.to_nat idx) (owners s) 0 in
                 map_go local choice (S k) (amap_add m nid s) rest
               else map_go local choice k (amap_add m sel s) rest
           end
  end.

Definition map_shards (local : N) (choice : nat -> shard -> N) (shards : list shard) : amap :=
  map_go local choice O [] shards.

(* ---------- shardIDs(): sorted ids ---------- *)

Fixpoint insertN (x : N) (l : list N) : list N :=
  match l with
  | [] => [x]
  | y :: t => if x <=? y then x :: l else y :: insertN x t
  end.
Definition sortN (l : list N) : list N := fold_right insertN [] l.
Definition ids (l : list shard) : list N := sortN (map sid l).

(* ---------- remote shard group ---------- *)

Record group := mkGroup { g_node : N; g_shards : list shard; g_retry : bool }.

Definition first_clean (dirty : list N) (os : list N) : N :=
  match find (fun o => negb (memN o dirty)) os with Some o => o | None => 0 end.

(* shuffleShards: None = the Go function returned nil *)
Fixpoint shuffle_go (dirty : list N) (m : amap) (shards : list shard) : option amap :=
  match shards with
  | [] => Some m
  | s :: rest =>
      match owners s with
      | [] => shuffle_go dirty m rest
      | _ :: _ =>
          let sel := match m with [] => 0 | _ :: _ => first_selected m (owners s) end in
          let nid := if N.eqb sel 0 then first_clean dirty (owners s) else sel in
          if N.eqb nid 0 then None else shuffle_go dirty (amap_add m nid s) rest
      end
  end.

Definition shuffle (dirty : list N) (shards : list shard) : option amap :=
  match shuffle_go dirty [] shards with
  | Some [] => None            (* nil map: no shard was assigned *)
  | r => r
  end.

(* ---------- node behaviour and the client's view of one reply ---------- *)

(* What a node does with one request.
   CutHdr     : connection closed before the response message is complete.
   CutPts j b : response message delivered, then the point stream is closed when j point
                frames have been delivered and b further bytes of the next frame (b = 0:
                exactly at a frame boundary).  Only meaningful for streaming requests. *)
Inductive outcome := Serve | DialFail | ErrorReply | CutHdr | CutPts (j b : N).

(* node -> sorted shard ids of the request -> how many times this very request was made before *)
Definition behaviour := N -> list N -> nat -> outcome.

Inductive op := OpCI | OpFD | OpIC | OpRF | OpRG.
Definition streaming (o : op) : bool :=
  match o with OpCI | OpRF | OpRG => true | _ => false end.

Inductive stream := SFull | SCut (j b : N) | SEmpty.
Inductive cresp := COk (s : stream) | CErr.

(* MetaExecutor.{CreateIterator,FieldDimensions,IteratorCost,ReadFilter,ReadGroup}.
   [fixed = false] is the pinned tree: for streaming requests a reply with resp.Err <> nil
   fell through `return err` of a nil variable and an empty stream was handed out. *)
Definition client_response (fixed : bool) (o : op) (out : outcome) : cresp :=
  match out with
  | Serve => COk SFull
  | DialFail => CErr
  | CutHdr => CErr
  | ErrorReply => if streaming o then (if fixed then CErr else COk SEmpty) else CErr
  | CutPts j b => if streaming o then COk (SCut j b) else COk SFull
  end.

Definition key := (N * list N)%type.
Definition key_eqb (a b : key) : bool :=
  N.eqb (fst a) (fst b) &&
  (fix leq (x y : list N) : bool :=
     match x, y with
     | [], [] => true
     | p :: x', q :: y' => N.eqb p q && leq x' y'
     | _, _ => false
     end) (snd a) (snd b).

Fixpoint count_key (k : key) (log : list key) : nat :=
  match log with
  | [] => O
  | k' :: t => (if key_eqb k k' then 1 else 0) + count_key k t
  end.

Record part := mkPart { p_node : N; p_shards : list shard; p_stream : stream }.

(* one executor call: a.executor.X(nodeID, shards.shardIDs(), ...) *)
Definition call (fixed : bool) (o : op) (beh : behaviour) (log : list key) (n : N) (sh : list shard)
  : cresp * list key :=
  let k := (n, ids sh) in
  (client_response fixed o (beh n (ids sh) (count_key k log)), log ++ [k]).

(* one retry round: every (node, shards) of the shuffled map is called (errgroup without
   cancellation: all calls are made); failing nodes are stored in dirty. *)
Fixpoint round_calls (fixed : bool) (o : op) (beh : behaviour) (log : list key) (m : amap)
  : list part * list N * list key :=
  match m with
  | [] => ([], [], log)
  | (n, sh) :: m' =>
      let '(r, log1) := call fixed o beh log n sh in
      let '(ps, fs, log2) := round_calls fixed o beh log1 m' in
      match r with
      | COk s => (mkPart n sh s :: ps, fs, log2)
      | CErr => (ps, n :: fs, log2)
      end
  end.

Inductive rres := ROk (parts : list part) | RErr | RFuel.

(* for shardsByNodeID := a.shuffleShards(); shardsByNodeID != nil; ... : a failed round
   discards its partial results *)
Fixpoint rounds (fuel : nat) (fixed : bool) (o : op) (beh : behaviour)
         (dirty : list N) (log : list key) (shards : list shard) : rres * list N * list key :=
  match fuel with
  | O => (RFuel, dirty, log)
  | S f =>
      match shuffle dirty shards with
      | None => (RErr, dirty, log)
      | Some m =>
          let '(ps, fs, log') := round_calls fixed o beh log m in
          match fs with
          | [] => (ROk ps, dirty, log')
          | _ :: _ => rounds f fixed o beh (dirty ++ fs) log' shards
          end
      end
  end.

(* remoteShardGroup.CreateIterator & co.: first attempt on the mapped node with all shards,
   then the retry loop.  [dirty] persists in the group across calls. *)
Definition run_remote (fuel : nat) (fixed : bool) (o : op) (beh : behaviour)
           (g : group) (dirty : list N) (log : list key) : rres * list N * list key :=
  let '(r, log1) := call fixed o beh log (g_node g) (g_shards g) in
  match r with
  | COk s => (ROk [mkPart (g_node g) (g_shards g) s], dirty, log1)
  | CErr => if g_retry g
            then rounds fuel fixed o beh (dirty ++ [g_node g]) log1 (g_shards g)
            else (RErr, dirty, log1)
  end.

(* number of rounds that is always enough for a group: one per owner node, plus the final
   shuffle that returns nil (Proofs.retry_terminates) *)
Definition group_fuel (shards : list shard) : nat := S (length (flat_map owners shards)).

(* ---------- a whole fan-out operation on a ClusterShardMapping ---------- *)

Definition gstate := (group * list N)%type.   (* group and its dirty set *)

Fixpoint run_groups (fixed : bool) (o : op) (beh : behaviour) (gs : list gstate) (log : list key)
  : list rres * list gstate * list key :=
  match gs with
  | [] => ([], [], log)
  | (g, d) :: rest =>
      let '(r, d', log1) := run_remote (group_fuel (g_shards g)) fixed o beh g d log in
      let '(rs, gs', log2) := run_groups fixed o beh rest log1 in
      (r :: rs, (g, d') :: gs', log2)
  end.

(* all groups succeeded -> their parts; otherwise the error wins (errgroup.Wait) *)
Fixpoint collect (rs : list rres) : option (list part) :=
  match rs with
  | [] => Some []
  | ROk ps :: t => match collect t with Some q => Some (ps ++ q) | None => None end
  | _ :: t => None
  end.

(* query/point.gen.go Decode*Point: binary.Read of the 4-byte length prefix, then
   io.ReadFull of the payload.  EOF before the first byte of either read is reported as
   io.EOF, which *ReaderIterator.Next turns into "end of stream"; EOF after a partial read is
   io.ErrUnexpectedEOF.  So a stream that stops after b bytes of a frame ends cleanly iff
   b = 0 (frame boundary) or b = 4 (complete prefix, no payload byte). *)
Definition clean_cut (b : N) : bool := (b =? 0) || (b =? 4).

(* rows a reader iterator yields from one part, and whether it ends with an error.
   The server sends the rows of its shards merged in time order, one frame per point,
   followed by a stats and a trace frame. *)
Definition part_rows (data : N -> list N) (p : part) : list N * bool :=
  let full := sortN (flat_map data (map sid (p_shards p))) in
  match p_stream p with
  | SFull => (full, false)
  | SEmpty => ([], false)
  | SCut j b =>
      let n := N.of_nat (length full) in
      if j <? n then (firstn (N.to_nat j) full, negb (clean_cut b))
      else if j =? n then (full, negb (clean_cut b))
      else (full, false)
  end.

Inductive qres := QErr | QOk (vals : list N).

(* the caller-visible result of one operation:
   OpCI: rows of the merged iterator (sorted);  OpFD: ids of the shards whose fields were
   returned (sorted);  OpIC: [cost.NumShards]. *)
Definition op_result (o : op) (data : N -> list N) (local_sh : list shard) (rs : list rres) : qres :=
  match collect rs with
  | None => QErr
  | Some ps =>
      match o with
      | OpFD => QOk (sortN (map sid (local_sh ++ flat_map p_shards ps)))
      | OpIC => QOk [N.of_nat (length (local_sh ++ flat_map p_shards ps))]
      | _ =>
          let prs := map (part_rows data) ps in
          if existsb snd prs then QErr
          else QOk (sortN (flat_map data (map sid local_sh) ++ flat_map fst prs))
      end
  end.

Fixpoint run_ops (fixed : bool) (beh : behaviour) (data : N -> list N) (local_sh : list shard)
         (gs : list gstate) (log : list key) (ops : list op) : list qres * list key :=
  match ops with
  | [] => ([], log)
  | o :: rest =>
      let '(rs, gs', log1) := run_groups fixed o beh gs log in
      let '(qs, log2) := run_ops fixed beh data local_sh gs' log1 rest in
      (op_result o data local_sh rs :: qs, log2)
  end.

Definition remote_groups (local : N) (m : amap) : list gstate :=
  map (fun e => (mkGroup (fst e) (snd e) true, @nil N))
      (filter (fun e => negb (N.eqb (fst e) local)) m).

(* MapShards followed by a sequence of operations on the mapping *)
Definition model_run (fixed : bool) (local : N) (choice : nat -> shard -> N) (shards : list shard)
           (data : N -> list N) (beh : behaviour) (ops : list op) : amap * list qres * list key :=
  let m := map_shards local choice shards in
  let '(qs, log) := run_ops fixed beh data (amap_get m local) (remote_groups local m) [] ops in
  (m, qs, log).

(* ====================================================================================
   Statements with several sources (FROM cpu, mem; subquery + measurement; two retention
   policies).  ClusterShardMapper.mapShards walks the (flattened) source list and maps a
   (database, retention policy) key only if RemoteShardMapping has no entry for it yet.
   ==================================================================================== *)

Definition assoc_has {A} (l : list (N * A)) (k : N) : bool := existsb (fun e => N.eqb (fst e) k) l.
Definition assoc_get {A} (d : A) (l : list (N * A)) (k : N) : A :=
  match find (fun e => N.eqb (fst e) k) l with Some e => snd e | None => d end.
Fixpoint assoc_set {A} (l : list (N * A)) (k : N) (v : A) : list (N * A) :=
  match l with
  | [] => [(k, v)]
  | (k', x) :: t => if N.eqb k' k then (k, v) :: t else (k', x) :: assoc_set t k v
  end.

(* LocalShardMapping.ShardMap (source -> local shards) and RemoteShardMapping
   (source -> remote shard groups, each with its dirty set) *)
Record mstate := mkM { lmap : list (N * list shard); rmap : list (N * list gstate) }.

(* one *influxql.Measurement source with key [src]; [view src] is what
   MetaClient.ShardGroupsByTimeRange returns for it *)
Definition map_one (local : N) (choice : nat -> shard -> N) (view : N -> list shard)
           (st : mstate) (src : N) : mstate :=
  if assoc_has (rmap st) src then st            (* if _, ok := a.RemoteShardMapping[source]; !ok *)
  else match view src with
       | [] => mkM (assoc_set (lmap st) src []) (assoc_set (rmap st) src [])   (* len(groups) == 0 *)
       | _ :: _ =>
           let m := map_shards local choice (view src) in
           (* for nodeID, shards := range shardsByNodeID *)
           let l1 := if has_key m local then assoc_set (lmap st) src (amap_get m local) else lmap st in
           let rg := remote_groups local m in
           let r1 := match rg with
                     | [] => rmap st
                     | _ :: _ => assoc_set (rmap st) src (assoc_get [] (rmap st) src ++ rg)   (* append *)
                     end in
           mkM l1 r1
       end.

(* [choice pos] is the oracle used while mapping the source at position pos *)
Fixpoint map_sources (local : N) (choice : nat -> nat -> shard -> N) (view : N -> list shard)
         (pos : nat) (st : mstate) (srcs : list N) : mstate :=
  match srcs with
  | [] => st
  | s :: rest => map_sources local choice view (S pos) (map_one local (choice pos) view st s) rest
  end.

(* operations name the source of their measurement; the segment is what the operation
   appended to the request log *)
Fixpoint run_mops (fixed : bool) (beh : behaviour) (data : N -> list N) (st : mstate)
         (log : list key) (ops : list (N * op)) : list (qres * list key) :=
  match ops with
  | [] => []
  | (src, o) :: rest =>
      let gs := assoc_get [] (rmap st) src in
      let '(rs, gs', log1) := run_groups fixed o beh gs log in
      let st' := if assoc_has (rmap st) src then mkM (lmap st) (assoc_set (rmap st) src gs') else st in
      (op_result o data (assoc_get [] (lmap st) src) rs, skipn (length log) log1)
        :: run_mops fixed beh data st' log1 rest
  end.

Definition model_mrun (fixed : bool) (local : N) (choice : nat -> nat -> shard -> N)
           (view : N -> list shard) (data : N -> list N) (beh : behaviour)
           (srcs : list N) (ops : list (N * op)) : mstate * list (qres * list key) :=
  let st := map_sources local choice view O (mkM [] []) srcs in
  (st, run_mops fixed beh data st [] ops).

(* ====================================================================================
   Which shard groups a query reads: services/meta/data.go Data.ShardGroupsByTimeRange
   (the Client method is the same loop) with ShardGroupInfo.Overlaps / Deleted.
   Times are nanosecond timestamps.
   ==================================================================================== *)
Open Scope Z_scope.

(* meta.ShardGroupInfo: [StartTime, EndTime), TruncatedAt (None = not truncated), deleted *)
Record sgroup := mkSG { sg_start : Z; sg_end : Z; sg_trunc : option Z; sg_deleted : bool;
                        sg_shards : list shard }.

(* Overlaps(min, max) = !StartTime.After(max) && EndTime.After(min): the NOMINAL range also
   for a truncated group (it keeps the points written before the truncation, whatever
   their timestamp) *)
Definition overlaps (g : sgroup) (tmin tmax : Z) : bool := (sg_start g <=? tmax) && (tmin <? sg_end g).

(* for _, g := range rpi.ShardGroups { if g.Deleted() || !g.Overlaps(tmin, tmax) { continue } ... } *)
Definition groups_overlapping (tmin tmax : Z) (gs : list sgroup) : list sgroup :=
  filter (fun g => negb (sg_deleted g) && overlaps g tmin tmax) gs.

(* the shard list mapShards walks: for _, g := range groups { for _, si := range g.Shards *)
Definition view_of_groups (tmin tmax : Z) (gs : list sgroup) : list shard :=
  flat_map sg_shards (groups_overlapping tmin tmax gs).
Close Scope Z_scope.
