(* C05/Run.v — correspondence cases.  The harness runs the real ClusterShardMapper /
   remoteShardGroup / MetaExecutor / coordinator.Service / tsdb.Store on an in-process
   mini-cluster and records what happened; [check_case] evaluates the model on the same
   input and the executable spec (Spec.spec_ok) on the implementation's observation.
   result code: 0 agree & spec holds, 1 differ & spec holds, 2 differ & spec fails,
                3 agree & spec fails (model mirrors a defect). *)
From Verif Require Export C05.Model C05.StreamModel C05.ShowModel C05.MergeModel.
From Verif Require Import C05.Spec.
Open Scope N_scope.

Definition code (agree spec_ok : bool) : N :=
  match agree, spec_ok with
  | true, true => 0 | false, true => 1 | false, false => 2 | true, false => 3
  end.

Inductive obs_res := OErr | OOk (vals : list N).

Inductive case :=
(* one MapShards of a statement with one or more sources + a sequence of operations on the
   resulting mapping, each on the measurement of one source *)
| CQuery (local : N)
         (tmin tmax : Z)                           (* query time range, inclusive *)
         (groups : list (N * list (Z * Z * option Z * bool * list (N * list N))))
                                                   (* source key -> the retention policy's shard groups in
                                                      metadata order: start, end, truncated at, deleted,
                                                      shards (id, owners) *)
         (data : list (N * list N))                (* shard id -> rows inside the query range *)
         (down : list N)                           (* nodes refusing connections *)
         (beh : list (N * list N * N * outcome))   (* (node, sorted ids, call index) -> outcome; default Serve *)
         (srcs : list N)                           (* source keys of the statement, flattened, in order *)
         (ops : list (N * op))                     (* (source key, operation) *)
         (refs : list (list N))                    (* per op: answer of the single-store reference *)
         (oviews : list (N * list N))              (* per source key: shard ids the metadata lookup returned *)
         (omap : list (N * (list N * list (N * list N))))
                                                   (* observed mapping per source key: local shard ids,
                                                      remote groups (node, sorted shard ids) *)
         (ores : list obs_res)                     (* per op: what the caller got *)
         (ologs : list (list (N * list N)))        (* per op: requests received by the nodes that are up *)
(* one MetaExecutor call against a node doing [out]: did the client report an error? *)
| CResp (o : op) (out : outcome) (impl_err : bool)
(* storeStreamReceiver.Recv called until it fails, on the first k bytes of the messages [fs]
   (type, payload) written by the real sender followed by [tail]: the responses it returned
   (trailer?, re-marshalled payload) and whether the last call returned an error other than io.EOF *)
| CRecv (fs : list (N * list N)) (tail : list N) (k : N)
        (omsgs : list (bool * list N)) (oerr : bool)
(* MetaExecutor.ReadFilter / ReadGroup (grp) against a node (or, with hdr = 0, a result set
   reader over the receiver) whose byte stream - a response message of hdr bytes, then the
   messages [ms] (type, payload length, frames) - is closed after k bytes.  [ref]: the result
   of the single-store reference.  Observed: did the call fail, the items the result set
   delivered, whether it ended with an error, whether a delivered value was damaged *)
| CSRead (grp : bool) (hdr : N) (ms : list (N * N * list aframe)) (k : N)
         (ref : list (N * N * list N))
         (ocall_err : bool) (oitems : list (N * N * list N)) (oerr : bool) (ocorrupt : bool)
(* ClusterTSDBStore.{MeasurementNames, TagKeys, TagValues} on node [local] of a cluster with data
   nodes [nodes], shards (id, owners), items per shard; nodes refusing connections / replying
   with an error.  [ref]: the listing of a single store holding all shards.  Observed listing
   and whether an error was returned *)
| CShow (local : N) (nodes : list N) (shards : list (N * list N)) (data : list (N * list N))
        (down : list N) (errs : list N)
        (ref : list N) (ores : list N) (oerr : bool)
(* typed merge of a fan-out: the sources in ARRIVAL order (remote?, influxql.DataType code of the
   iterator the source's shards produce - 0 = none -, its rows), run on the real
   Iterators.Merge over the real reader iterators / on ClusterShardMapping.CreateIterator of the
   in-process cluster with the replies released in that order.  Observed: merged iterator nil?,
   its type code, the rows drained (sorted), error; [ref]: rows of the single-store reference *)
| CTMerge (arrival : list (bool * N * list N))
          (onil : bool) (otyp : N) (orows : list N) (oerr : bool) (ref : list N)
(* reads.NewMergedResultSet over real ResultSetStreamReaders in the given order: per input the
   series ids it delivers and whether its stream then fails.  Observed: Err() <> nil after
   draining, the series delivered *)
| CRSMerge (arrival : list (list N * bool)) (oerr : bool) (oseries : list N)
(* ClusterShardMapping.MapType of a field whose type differs between shards: the type code per
   shard (0 = the shard does not hold the field), the answer on the cluster and on the
   single-store reference *)
| CMType (types : list N) (otyp ref : N).

Definition mk_shards (l : list (N * list N)) : list shard := map (fun p => mkShard (fst p) (snd p)) l.

Definition lookup_rows (data : list (N * list N)) (s : N) : list N :=
  match find (fun p => N.eqb (fst p) s) data with Some p => snd p | None => [] end.

Definition lookup_beh (down : list N) (tab : list (N * list N * N * outcome)) : behaviour :=
  fun n k i =>
    if memN n down then DialFail else
    match find (fun e => key_eqb (fst (fst e)) (n, k) && N.eqb (snd (fst e)) (N.of_nat i)) tab with
    | Some e => snd e
    | None => Serve
    end.

Fixpoint index_of (x : N) (l : list N) : N :=
  match l with
  | [] => 0
  | y :: t => if N.eqb x y then 0 else 1 + index_of x t
  end.

(* the oracle is read off the observed mapping (per source): the index (in the owner list) of the node
   the implementation filed the shard under.  The model then has to reproduce the whole
   mapping: local-first and already-selected-first are deterministic, and a random pick
   must be an owner. *)
Definition node_of (omap : list (N * list N)) (s : N) : N :=
  match find (fun e => memN s (snd e)) omap with Some e => fst e | None => 0 end.

Definition choice_of (omap : list (N * list N)) : nat -> shard -> N :=
  fun _ s => index_of (node_of omap (sid s)) (owners s).

Definition multiset_eqb (a b : list key) : bool :=
  Nat.eqb (length a) (length b) &&
  forallb (fun k => Nat.eqb (count_key k a) (count_key k b)) (a ++ b).

Definition canon_map (m : amap) : list key := map (fun e => (fst e, ids (snd e))) m.

Definition shard_by_id (shards : list shard) (i : N) : shard :=
  match find (fun s => N.eqb (sid s) i) shards with Some s => s | None => mkShard i [] end.

Definition amap_of (shards : list shard) (omap : list (N * list N)) : amap :=
  map (fun e => (fst e, map (shard_by_id shards) (snd e))) omap.

Definition res_eqb (q : qres) (r : obs_res) : bool :=
  match q, r with
  | QErr, OErr => true
  | QOk a, OOk b => list_eqb a b
  | _, _ => false
  end.

Definition qres_of (r : obs_res) : qres := match r with OErr => QErr | OOk v => QOk v end.

Definition mk_group (g : Z * Z * option Z * bool * list (N * list N)) : sgroup :=
  let '(st, en, tr, del, sh) := g in mkSG st en tr del (mk_shards sh).

(* the shards a query of [tmin, tmax] on source [src] has to read, per the model of
   ShardGroupsByTimeRange (Props.overlap_complete / overlap_sound tie it to the data) *)
Definition view_of (tmin tmax : Z) (groups : list (N * list (Z * Z * option Z * bool * list (N * list N))))
  : N -> list shard :=
  fun src => view_of_groups tmin tmax (map mk_group (assoc_get [] groups src)).

(* oracle per source position, read off the observed mapping of that source *)
Definition mchoice_of (local : N) (srcs : list N) (omap : list (N * (list N * list (N * list N))))
  : nat -> nat -> shard -> N :=
  fun pos _ s =>
    let e := assoc_get ([], []) omap (nth pos srcs 0) in
    index_of (node_of ((local, fst e) :: snd e) (sid s)) (owners s).

Fixpoint seq_all {A} (f : A -> bool) (l : list A) : bool :=
  match l with [] => true | x :: t => f x && seq_all f t end.

Definition check_case (c : case) : N :=
  match c with
  | CQuery local tmin tmax groups data0 down tab srcs ops refs oviews omap ores ologs =>
      let view := view_of tmin tmax groups in
      let data := lookup_rows data0 in
      let beh := lookup_beh down tab in
      let '(st, res) := model_mrun true local (mchoice_of local srcs omap) view data beh srcs ops in
      let agree :=
        seq_all (fun src =>
                   let e := assoc_get ([], []) omap src in
                   list_eqb (ids (assoc_get [] (lmap st) src)) (sortN (fst e))
                   && multiset_eqb (canon_map (groups_of (assoc_get [] (rmap st) src))) (snd e)) srcs
        && seq_all (fun src => list_eqb (map sid (view src)) (assoc_get [] oviews src)) srcs
        && all2 res_eqb (map fst res) ores
        && all2 (fun r l => multiset_eqb (filter (fun k => negb (memN (fst k) down)) (snd r)) l) res ologs
        && all2 (fun o r => list_eqb r (reference (snd o) data (view (fst o)))) ops refs in
      let lm_obs := map (fun e => (fst e, map (shard_by_id (view (fst e))) (fst (snd e)))) omap in
      let rm_obs := map (fun e => (fst e, amap_of (view (fst e)) (snd (snd e)))) omap in
      let quiet := match down, tab with [], [] => true | _, _ => false end in
      let ok := mspec_ok local view data srcs ops lm_obs rm_obs
                         (combine (map qres_of ores) ologs) quiet
                && Nat.eqb (length ores) (length ops) && Nat.eqb (length ologs) (length ops) in
      code agree ok
  | CResp o out impl_err =>
      let m := match client_response true o out with CErr => true | COk _ => false end in
      let ok := match out with
                | Serve => negb impl_err
                | CutPts _ _ => true
                | _ => impl_err      (* a dial failure, a cut reply or an error reply must surface *)
                end in
      code (Bool.eqb m impl_err) ok
  | CRecv fs tail k omsgs oerr =>
      let '(msgs, e) := recv_stream true (cut k (enc_stream fs ++ tail)) in
      let same := fun (m : N * list N) (o : bool * list N) =>
                    Bool.eqb (fst m =? trailer_typ) (fst o) && (fst o || nlist_eqb (snd m) (snd o)) in
      let agree := all2 same msgs omsgs
                   && match e with EndEOF => negb oerr | EndErr => oerr | EndFuel => false end in
      (* what was received is a prefix of what was sent, and all of it unless an error is reported *)
      let ok := all2 same (firstn (length omsgs) fs) omsgs
                && (oerr || Nat.eqb (length omsgs) (length fs)) in
      code agree ok
  | CSRead grp hdr ms k ref ocall_err oitems oerr ocorrupt =>
      let r := sread true grp hdr ms k in
      let o := if ocall_err then SCallErr else SStream oitems oerr in
      let agree := match r, o with
                   | SCallErr, SCallErr => true
                   | SStream a ea, SStream b eb => items_eqb a b && Bool.eqb ea eb
                   | _, _ => false
                   end in
      code agree (sread_ok ref o && negb ocorrupt)
  | CShow local nodes shards0 data0 down errs ref ores oerr =>
      let shards := mk_shards shards0 in
      let data := lookup_rows data0 in
      let beh := fun n => if memN n down then NDown else if memN n errs then NError else NServe in
      let r := show_fanout local nodes beh data shards in
      let agree := show_eqb (fst r) ores && Bool.eqb (snd r) oerr
                   && show_eqb (show_reference data shards) ref in
      code agree (show_ok ref (ores, oerr))
  | CTMerge arrival onil otyp orows oerr ref =>
      let srcs := map (fun e => mkTS (fst (fst e)) (dtype_of_code (snd (fst e))) (snd e)) arrival in
      let agree :=
        negb oerr && nl_eqb ref (all_rows srcs) &&
        match typed_merge true srcs with
        | None => onil && nl_eqb orows []
        | Some (t, r) => negb onil && (code_of_dtype t =? otyp) && nl_eqb r orows
        end in
      code agree (oerr || (tm_ok srcs orows && nl_eqb orows ref))
  | CRSMerge arrival oerr oseries =>
      let srcs := map (fun e => mkRS (fst e) (snd e)) arrival in
      let o := if oerr then None else Some oseries in
      let agree := match rs_merge true srcs, o with
                   | None, None => true
                   | Some a, Some b => nl_eqb a b
                   | _, _ => false
                   end in
      code agree (rs_ok srcs o)
  | CMType types otyp ref =>
      let m := code_of_dtype (map_type (map dtype_of_code types)) in
      code ((m =? otyp) && (m =? ref)) (otyp =? ref)
  end.
