(* C05/ProofsStream.v — proofs about the storage-read stream receiver (StreamModel.v). *)
From Coq Require Import ZifyBool ZifyNat ZifyN.
From Verif Require Import Lib.Bytes C15.Model C05.StreamModel.
From VerifGen Require Import Consts.
Open Scope N_scope.

(* ---------- one step ---------- *)

Lemma max_val : max_message_size = 1073741824%Z.
Proof. reflexivity. Qed.

Lemma hdr_dec (p : bytes) :
  (Z.of_nat (length p) < max_message_size)%Z ->
  to_int64 (be_dec (be_enc 8 (N.of_nat (length p)))) = Z.of_nat (length p).
Proof.
  intros Hlen. pose proof max_val as Hm.
  assert (Hsmall : N.of_nat (length p) < 256 ^ N.of_nat 8).
  { change (256 ^ N.of_nat 8) with 18446744073709551616. lia. }
  rewrite be_dec_enc by assumption.
  unfold to_int64, two63. destruct (N.ltb_spec (N.of_nat (length p)) 9223372036854775808); lia.
Qed.

Lemma write_tlv_length t p : length (write_tlv t p) = (9 + length p)%nat.
Proof. unfold write_tlv, write_lv. cbn [length]. rewrite app_length, be_enc_length. lia. Qed.

(* a complete message followed by anything is received intact *)
Lemma recv_step_frame t p rest :
  (Z.of_nat (length p) < max_message_size)%Z ->
  recv_step (write_tlv t p ++ rest) = RFrame t p rest.
Proof.
  intros Hlen. pose proof max_val as Hm. unfold write_tlv, write_lv. cbn [app recv_step].
  rewrite <- app_assoc.
  pose proof (take_app (be_enc 8 (N.of_nat (length p))) (p ++ rest)) as T.
  rewrite be_enc_length in T. rewrite T. clear T.
  rewrite hdr_dec by assumption.
  destruct (Z.ltb_spec (Z.of_nat (length p)) 0) as [H0|H0]; [lia|].
  destruct (Z.geb_spec (Z.of_nat (length p)) max_message_size) as [H1|H1]; [lia|].
  rewrite app_length.
  destruct (Z.ltb_spec (Z.of_nat (length p + length rest)) (Z.of_nat (length p))) as [H2|H2]; [lia|].
  rewrite Nat2Z.id, take_app. reflexivity.
Qed.

(* a message of which only the first j bytes arrive, 0 < j < its length: short *)
Lemma recv_step_short t p j :
  (Z.of_nat (length p) < max_message_size)%Z ->
  (0 < j < 9 + length p)%nat ->
  recv_step (firstn j (write_tlv t p)) = RShort.
Proof.
  intros Hlen Hj. pose proof max_val as Hm.
  destruct j as [|j']; [lia|].
  unfold write_tlv, write_lv. cbn [firstn recv_step].
  set (hdr := be_enc 8 (N.of_nat (length p))).
  assert (Hh : length hdr = 8%nat) by apply be_enc_length.
  destruct (Nat.lt_ge_cases j' 8) as [Hlt|Hge].
  - assert (Hn : take 8 (firstn j' (hdr ++ p)) = None).
    { apply take_none. rewrite firstn_length, app_length. lia. }
    rewrite Hn. reflexivity.
  - rewrite firstn_app, Hh. rewrite (firstn_all2 hdr) by lia.
    pose proof (take_app hdr (firstn (j' - 8) p)) as T. rewrite Hh in T. rewrite T. clear T.
    unfold hdr. rewrite hdr_dec by assumption.
    destruct (Z.ltb_spec (Z.of_nat (length p)) 0) as [H0|H0]; [lia|].
    destruct (Z.geb_spec (Z.of_nat (length p)) max_message_size) as [H1|H1]; [lia|].
    rewrite firstn_length.
    destruct (Z.ltb_spec (Z.of_nat (Nat.min (j' - 8) (length p))) (Z.of_nat (length p))) as [H2|H2]; [reflexivity|lia].
Qed.

(* recv_step is C15's read_tlv with the failure split into end / short / bad size *)
Lemma recv_step_read_tlv s t p r :
  recv_step s = RFrame t p r <-> read_tlv s = TlvOk t p r.
Proof.
  unfold recv_step, read_tlv, read_lv, read_lv_with.
  destruct s as [|t0 s1]; [split; discriminate|].
  destruct (take 8 s1) as [[hdr rest]|]; [|split; discriminate].
  set (sz := to_int64 (be_dec hdr)).
  destruct (Z.ltb_spec sz 0) as [H0|H0]; destruct (Z.geb_spec sz max_message_size) as [H1|H1];
    try (split; discriminate).
  destruct (Z.of_nat (length rest) <? sz)%Z; [split; discriminate|].
  destruct (take (Z.to_nat sz) rest) as [[p0 r0]|]; [|split; discriminate].
  split; intros H; inversion H; subst; reflexivity.
Qed.

(* ---------- the whole stream, closed after k bytes ---------- *)

Definition small (f : N * bytes) : Prop := (Z.of_nat (length (snd f)) < max_message_size)%Z.
Definition plen (f : N * bytes) : N := N.of_nat (length (snd f)).

Lemma enc_cons f fs : enc_stream (f :: fs) = write_tlv (fst f) (snd f) ++ enc_stream fs.
Proof. reflexivity. Qed.

Lemma recv_all_cut fixed : forall fs k fuel,
  Forall small fs ->
  (length (cut k (enc_stream fs)) < fuel)%nat ->
  recv_all fuel fixed (cut k (enc_stream fs)) =
  (firstn (fst (cut_frames (map plen fs) k)) fs, end_of fixed (snd (cut_frames (map plen fs) k))).
Proof.
  induction fs as [|[t p] fs IH]; intros k fuel Hs Hf.
  - unfold cut in *. cbn [enc_stream flat_map] in *. rewrite firstn_nil in *.
    destruct fuel as [|fuel]; [cbn in Hf; lia|]. reflexivity.
  - inversion Hs as [|? ? Hp Hfs]; subst. unfold small in Hp. cbn [snd] in Hp.
    rewrite enc_cons in *. cbn [fst snd] in *.
    pose proof (write_tlv_length t p) as Hw.
    cbn [map cut_frames]. change (plen (t, p)) with (N.of_nat (length p)).
    destruct fuel as [|fuel]; [lia|].
    destruct (N.eqb_spec k 0) as [Hk0|Hk0].
    + subst k. unfold cut. cbn [N.to_nat firstn recv_all recv_step fst snd]. reflexivity.
    + destruct (N.ltb_spec k (9 + N.of_nat (length p))) as [Hin|Hout].
      * (* the cut is inside the first message *)
        unfold cut in *. rewrite firstn_app.
        replace (N.to_nat k - length (write_tlv t p))%nat with O by lia.
        cbn [firstn]. rewrite app_nil_r. cbn [recv_all].
        rewrite recv_step_short by (try assumption; lia).
        cbn [fst snd firstn end_of]. reflexivity.
      * (* the first message arrives completely *)
        unfold cut in *. rewrite firstn_app in *. rewrite (firstn_all2 (write_tlv t p)) in * by lia.
        replace (N.to_nat k - length (write_tlv t p))%nat with (N.to_nat (k - (9 + N.of_nat (length p)))) in * by lia.
        cbn [recv_all]. rewrite recv_step_frame by assumption.
        specialize (IH (k - (9 + N.of_nat (length p))) fuel Hfs).
        unfold cut in IH. rewrite IH by (rewrite app_length in Hf; lia).
        destruct (cut_frames (map plen fs) (k - (9 + N.of_nat (length p)))) as [m i].
        cbn [fst snd firstn]. reflexivity.
Qed.

Lemma cut_length k (s : bytes) : (length (cut k s) <= length s)%nat.
Proof. unfold cut. rewrite firstn_length. lia. Qed.

(* the main statement, for recv_stream (fuel = bytes + 1) *)
Lemma recv_stream_cut fixed fs k :
  Forall small fs ->
  recv_stream fixed (cut k (enc_stream fs)) =
  (firstn (fst (cut_frames (map plen fs) k)) fs, end_of fixed (snd (cut_frames (map plen fs) k))).
Proof. intros Hs. unfold recv_stream. apply recv_all_cut; [assumption|lia]. Qed.

(* ---------- facts about cut_frames ---------- *)

Lemma total_len_cons l ls : total_len (l :: ls) = 9 + l + total_len ls.
Proof. reflexivity. Qed.

Lemma cut_frames_le : forall lens k, (fst (cut_frames lens k) <= length lens)%nat.
Proof.
  induction lens as [|l ls IH]; intros k; cbn [cut_frames length fst]; [lia|].
  destruct (k =? 0); [cbn; lia|]. destruct (k <? 9 + l); [cbn; lia|].
  specialize (IH (k - (9 + l))). destruct (cut_frames ls (k - (9 + l))) as [m i]. cbn [fst] in *. lia.
Qed.

(* nothing is cut: everything arrives, no message is cut short *)
Lemma cut_frames_full : forall lens k,
  total_len lens <= k -> cut_frames lens k = (length lens, false).
Proof.
  induction lens as [|l ls IH]; intros k Hk; [reflexivity|].
  rewrite total_len_cons in Hk. cbn [cut_frames length].
  destruct (N.eqb_spec k 0); [lia|]. destruct (N.ltb_spec k (9 + l)); [lia|].
  rewrite IH by lia. reflexivity.
Qed.

(* all messages arrive only if nothing is cut *)
Lemma cut_frames_all : forall lens k,
  fst (cut_frames lens k) = length lens -> lens = [] \/ total_len lens <= k.
Proof.
  induction lens as [|l ls IH]; intros k H; [left; reflexivity|right].
  rewrite total_len_cons. cbn [cut_frames length] in H.
  destruct (N.eqb_spec k 0); [cbn in H; lia|]. destruct (N.ltb_spec k (9 + l)); [cbn in H; lia|].
  specialize (IH (k - (9 + l))). destruct (cut_frames ls (k - (9 + l))) as [m i] eqn:E. cbn [fst] in *.
  destruct IH as [->|IH]; [lia| |]; cbn [total_len fold_right]; lia.
Qed.

(* the byte offsets at which a message ends *)
Fixpoint boundaries (lens : list N) (from : N) : list N :=
  match lens with
  | [] => []
  | l :: ls => (from + 9 + l) :: boundaries ls (from + 9 + l)
  end.

(* a cut that is not inside a message is at 0, at the end of a message, or beyond the stream *)
Lemma not_inside_boundary : forall lens k from,
  snd (cut_frames lens k) = false ->
  k = 0 \/ In (from + k) (boundaries lens from) \/ total_len lens < k.
Proof.
  induction lens as [|l ls IH]; intros k from H.
  - destruct (N.eqb_spec k 0); [left; assumption|right; right; cbn; lia].
  - cbn [cut_frames] in H. destruct (N.eqb_spec k 0) as [|Hk]; [left; assumption|right].
    destruct (N.ltb_spec k (9 + l)) as [|Hge]; [cbn in H; discriminate|].
    specialize (IH (k - (9 + l)) (from + 9 + l)).
    destruct (cut_frames ls (k - (9 + l))) as [m i]. cbn [snd] in *.
    destruct (IH H) as [H0|[Hin|Hgt]].
    + left. cbn [boundaries]. left. lia.
    + left. cbn [boundaries]. right. replace (from + k) with (from + 9 + l + (k - (9 + l))) by lia. exact Hin.
    + right. rewrite total_len_cons. lia.
Qed.

(* ---------- the theorems of Props.v ---------- *)

(* (1) repaired rule: a cut strictly inside a message is an error *)
Lemma cut_inside_is_error fs k :
  Forall small fs -> snd (cut_frames (map plen fs) k) = true ->
  snd (recv_stream true (cut k (enc_stream fs))) = EndErr.
Proof. intros Hs Hi. rewrite recv_stream_cut by assumption. cbn [snd]. rewrite Hi. reflexivity. Qed.

(* old rule: every cut, wherever it is, looks like the end of the stream *)
Lemma old_rule_accepts_every_cut fs k :
  Forall small fs -> snd (recv_stream false (cut k (enc_stream fs))) = EndEOF.
Proof.
  intros Hs. rewrite recv_stream_cut by assumption. cbn [snd].
  destruct (snd (cut_frames (map plen fs) k)); reflexivity.
Qed.

(* (2) whatever the rule and the cut: what is delivered is a prefix of what was sent, intact
   and in order *)
Lemma delivered_prefix fixed fs k :
  Forall small fs ->
  exists m, (m <= length fs)%nat /\ fst (recv_stream fixed (cut k (enc_stream fs))) = firstn m fs.
Proof.
  intros Hs. rewrite recv_stream_cut by assumption. cbn [fst].
  exists (fst (cut_frames (map plen fs) k)). split; [|reflexivity].
  pose proof (cut_frames_le (map plen fs) k) as H. rewrite map_length in H. exact H.
Qed.

Lemma enc_stream_length fs : N.of_nat (length (enc_stream fs)) = total_len (map plen fs).
Proof.
  induction fs as [|[t p] fs IH]; [reflexivity|].
  rewrite enc_cons, app_length, write_tlv_length. cbn [map]. rewrite total_len_cons. unfold plen at 1.
  cbn [fst snd]. lia.
Qed.

(* (3) no cut: the whole sequence, and a clean end *)
Lemma no_cut_full fixed fs k :
  Forall small fs -> N.of_nat (length (enc_stream fs)) <= k ->
  recv_stream fixed (cut k (enc_stream fs)) = (fs, EndEOF).
Proof.
  intros Hs Hk. rewrite recv_stream_cut by assumption.
  rewrite enc_stream_length in Hk. rewrite cut_frames_full by assumption.
  cbn [fst snd end_of]. rewrite map_length, firstn_all. reflexivity.
Qed.

(* (4) repaired rule: a stream that ends without an error is complete, unless the connection
   was closed exactly between two messages (or before the first) *)
Lemma clean_end_complete_or_boundary fs k :
  Forall small fs ->
  snd (recv_stream true (cut k (enc_stream fs))) = EndEOF ->
  fst (recv_stream true (cut k (enc_stream fs))) = fs \/
  (boundary_cut (map plen fs) k = true /\ (k = 0 \/ In k (boundaries (map plen fs) 0))).
Proof.
  intros Hs. rewrite recv_stream_cut by assumption. cbn [fst snd]. intros He.
  destruct (snd (cut_frames (map plen fs) k)) eqn:Hi; [cbn in He; discriminate|].
  destruct (N.ltb_spec k (total_len (map plen fs))) as [Hlt|Hge].
  - right. split.
    + unfold boundary_cut. rewrite Hi. cbn [negb andb]. apply N.ltb_lt. exact Hlt.
    + destruct (not_inside_boundary (map plen fs) k 0 Hi) as [H|[H|H]]; [left; exact H|right; exact H|lia].
  - left. rewrite cut_frames_full by assumption. cbn [fst]. rewrite map_length, firstn_all. reflexivity.
Qed.

(* the byte-level executable spec holds for the repaired rule except at a boundary cut *)
Lemma frame_prefixb_firstn : forall m (fs : list (N * bytes)), frame_prefixb (firstn m fs) fs = true.
Proof.
  induction m as [|m IH]; intros fs; [reflexivity|].
  destruct fs as [|[t p] fs]; [reflexivity|]. cbn [firstn frame_prefixb fst snd].
  rewrite N.eqb_refl, IH. assert (Hp : nlist_eqb p p = true).
  { clear. induction p as [|x p IHp]; [reflexivity|]. cbn. rewrite N.eqb_refl, IHp. reflexivity. }
  rewrite Hp. reflexivity.
Qed.

Lemma recv_satisfies_spec_partial fs k :
  Forall small fs -> boundary_cut (map plen fs) k = false ->
  let '(got, e) := recv_stream true (cut k (enc_stream fs)) in recv_ok fs got e = true.
Proof.
  intros Hs Hb. rewrite recv_stream_cut by assumption.
  unfold recv_ok. rewrite frame_prefixb_firstn. cbn [andb].
  unfold boundary_cut in Hb.
  destruct (snd (cut_frames (map plen fs) k)) eqn:Hi; [reflexivity|].
  cbn [negb andb] in Hb. apply N.ltb_ge in Hb.
  rewrite cut_frames_full in * by assumption. cbn [fst end_of].
  rewrite map_length, firstn_all. apply Nat.eqb_refl.
Qed.

(* ---------- the consumer level (sread) ---------- *)

Lemma items_eqb_refl : forall l, items_eqb l l = true.
Proof.
  assert (Hn : forall p, nlist_eqb p p = true).
  { induction p as [|x p IHp]; [reflexivity|]. cbn. rewrite N.eqb_refl, IHp. reflexivity. }
  induction l as [|[[a b] c] l IH]; [reflexivity|].
  cbn [items_eqb]. unfold item_eqb. cbn [fst snd]. rewrite !N.eqb_refl, Hn, IH. reflexivity.
Qed.

(* what the caller gets when nothing is cut *)
Definition full_result (grp : bool) (ms : list amsg) : list item * bool := consume grp ms EndEOF.

Lemma sread_no_cut fixed grp hdr ms k :
  hdr + total_len (map m_len ms) <= k ->
  sread fixed grp hdr ms k = SStream (fst (full_result grp ms)) (snd (full_result grp ms)).
Proof.
  intros Hk. unfold sread. destruct (N.ltb_spec k hdr) as [|Hh]; [lia|].
  rewrite cut_frames_full by lia. rewrite map_length, firstn_all. cbn [end_of].
  unfold full_result. destruct (consume grp ms EndEOF) as [its err]. reflexivity.
Qed.

(* repaired rule: a cut inside the response message fails the call, a cut inside a stream
   message gives a result set with an error *)
Lemma sread_cut_inside_is_error grp hdr ms k :
  hdr <= k -> snd (cut_frames (map m_len ms) (k - hdr)) = true ->
  exists its, sread true grp hdr ms k = SStream its true.
Proof.
  intros Hk Hi. unfold sread. destruct (N.ltb_spec k hdr) as [|Hh]; [lia|].
  destruct (cut_frames (map m_len ms) (k - hdr)) as [m i]. cbn [snd] in Hi. subst i.
  cbn [end_of]. unfold consume.
  destruct (frames_of 0 (firstn m ms)) as [fs nd]. destruct (items_of grp fs) as [its bad].
  exists its. rewrite !orb_true_r. reflexivity.
Qed.

(* link to the executable spec: for every stream whose complete reading is the reference
   answer, every cut that is not exactly at a message boundary gives the reference or an
   error.  _partial: boundary cuts are the open finding. *)
Lemma sread_satisfies_spec_partial grp hdr ms k ref :
  fst (full_result grp ms) = ref ->
  (hdr <= k -> boundary_cut (map m_len ms) (k - hdr) = false) ->
  sread_ok ref (sread true grp hdr ms k) = true.
Proof.
  intros Href Hb. unfold sread. destruct (N.ltb_spec k hdr) as [|Hh]; [reflexivity|].
  specialize (Hb Hh). unfold boundary_cut in Hb.
  destruct (cut_frames (map m_len ms) (k - hdr)) as [m i] eqn:E. cbn [snd] in Hb.
  destruct i.
  - cbn [end_of]. unfold consume.
    destruct (frames_of 0 (firstn m ms)) as [fs nd]. destruct (items_of grp fs) as [its bad].
    cbn [sread_ok]. rewrite !orb_true_r. reflexivity.
  - cbn [negb andb] in Hb. apply N.ltb_ge in Hb.
    rewrite cut_frames_full in E by assumption. inversion E; subst m.
    rewrite map_length, firstn_all. cbn [end_of].
    unfold full_result in Href. destruct (consume grp ms EndEOF) as [its err]. cbn [fst] in Href. subst its.
    cbn [sread_ok]. rewrite items_eqb_refl. apply orb_true_r.
Qed.

(* old rule: a cut inside a message is accepted - witness: one message of two series, cut in
   the middle of its value *)
Definition w_msgs : list amsg := [(1, 20, [FSeries 1; FPoints [10; 11]; FSeries 2; FPoints [20]]); (2, 40, [])].

Lemma old_sread_cut_inside_accepted :
  sread_ok (fst (full_result false w_msgs)) (sread false false 11 w_msgs (11 + 15)) = false
  /\ boundary_cut (map m_len w_msgs) 15 = false.
Proof. split; vm_compute; reflexivity. Qed.

(* both rules: a cut exactly after the first message is accepted (open finding) *)
Definition w_msgs2 : list amsg :=
  [(1, 20, [FSeries 1; FPoints [10; 11]]); (1, 12, [FSeries 2; FPoints [20]]); (2, 40, [])].

Lemma sread_boundary_cut_accepted :
  sread_ok (fst (full_result false w_msgs2)) (sread true false 11 w_msgs2 (11 + 29)) = false
  /\ boundary_cut (map m_len w_msgs2) 29 = true.
Proof. split; vm_compute; reflexivity. Qed.
