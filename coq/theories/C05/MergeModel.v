(* C05/MergeModel.v — executable model of the two merges that sit behind the fan-out of a
   distributed read, as far as "nothing is silently left out" depends on them.

   (1) Typed merge of the per-source point streams
       (coordinator/shard_mapper.go ClusterShardMapping.CreateIterator: inputs appended in
        goroutine-completion order, then query.Iterators(inputs).Merge;
        coordinator/meta_executor.go MetaExecutor.CreateIterator: what the client makes of the
        type in the node's CreateIteratorResponse; coordinator/service.go
        processCreateIteratorRequest: a node whose shards hold no such measurement/field produces
        no iterator and answers with type Unknown and no stream;
        query/iterator.go NewReaderIterator, Iterators.filterNonNil / dataType / coerce,
        NewMergeIterator / NewSortedMergeIterator; iterator.gen.go new<T>Iterators: every input
        whose type differs from the FIRST input's type is closed and dropped).
   (2) Merge of the per-source storage result sets
       (coordinator/shard_mapper.go ClusterStoreMapping.ReadFilter -> reads.NewMergedResultSet;
        storage/reads/merge.go resultSetHeap.init / mergedResultSet.Next).

   [fixed] selects the rule of the tree: false = the pinned code, true = after the repairs
   (an Unknown reply yields no iterator; resultSetHeap.init reports the error of an input that
   fails before its first series).  Rows / series are ids; a merged stream is represented by
   the sorted list of its ids (the harness sorts what it drained; the order inside the merge
   is the real code's and is not modelled).  Definitions only. *)
From Verif Require Import C05.Model.
Open Scope N_scope.

(* ---------- (1) typed merge ---------- *)

Inductive dtype := TUnknown | TFloat | TInteger | TUnsigned | TString | TBoolean.

Definition dtype_eqb (a b : dtype) : bool :=
  match a, b with
  | TUnknown, TUnknown | TFloat, TFloat | TInteger, TInteger
  | TUnsigned, TUnsigned | TString, TString | TBoolean, TBoolean => true
  | _, _ => false
  end.

(* influxql.DataType codes (influxql/ast.go: Unknown 0, Float 1, Integer 2, String 3, Boolean 4,
   Unsigned 9); anything else has no iterator type *)
Definition dtype_of_code (c : N) : dtype :=
  match c with 1 => TFloat | 2 => TInteger | 3 => TString | 4 => TBoolean | 9 => TUnsigned | _ => TUnknown end.
Definition code_of_dtype (t : dtype) : N :=
  match t with TUnknown => 0 | TFloat => 1 | TInteger => 2 | TString => 3 | TBoolean => 4 | TUnsigned => 9 end.

(* One source of the fan-out: the local mapping (remote = false) or one answering node of a
   remote shard group.  [ts_typ]: the type of the iterator the source's shards produce for the
   field (TUnknown: no iterator: none of its shards holds the measurement/field);
   [ts_rows]: the points it holds. *)
Record tsource := mkTS { ts_remote : bool; ts_typ : dtype; ts_rows : list N }.

(* what the fan-out appends to [inputs] *)
Inductive input := INil | IItr (t : dtype) (rows : list N).

(* local: `if input != nil { inputs = append(inputs, input) }`.
   remote: MetaExecutor.CreateIterator.  Pinned: query.NewReaderIterator(ctx, conn, resp.Type, ..)
   whose default branch is &nilFloatReaderIterator{} - a FloatIterator without points.
   Repaired: resp.Type == Unknown -> conn.Close(); return nil, nil. *)
Definition reader_of (fixed : bool) (s : tsource) : input :=
  match ts_typ s with
  | TUnknown => if ts_remote s then (if fixed then INil else IItr TFloat []) else INil
  | t => IItr t (ts_rows s)
  end.

(* Iterators.filterNonNil *)
Fixpoint non_nil (l : list input) : list (dtype * list N) :=
  match l with
  | [] => []
  | INil :: t => non_nil t
  | IItr ty r :: t => (ty, r) :: non_nil t
  end.

(* Iterators.Merge -> New(Sorted)MergeIterator: no input -> nil; otherwise coerce(): the type
   of inputs[0] decides, new<T>Iterators keeps the inputs of that type and closes the others
   (a single input is returned as it is - the same thing). *)
Definition merge_inputs (l : list input) : option (dtype * list N) :=
  match non_nil l with
  | [] => None
  | ((t, _) :: _) as xs =>
      Some (t, sortN (flat_map snd (filter (fun x => dtype_eqb (fst x) t) xs)))
  end.

(* ClusterShardMapping.CreateIterator on sources listed in ARRIVAL order *)
Definition typed_merge (fixed : bool) (arrival : list tsource) : option (dtype * list N) :=
  merge_inputs (map (reader_of fixed) arrival).

Definition rows_of (r : option (dtype * list N)) : list N :=
  match r with None => [] | Some (_, rows) => rows end.

(* the specification: every point of every source, once *)
Definition all_rows (srcs : list tsource) : list N := sortN (flat_map ts_rows srcs).

(* the field has one type t0 wherever it exists; a source without it holds no points *)
Definition wf_source (t0 : dtype) (s : tsource) : Prop :=
  (ts_typ s = TUnknown /\ ts_rows s = []) \/ ts_typ s = t0.
Definition wf_sources (t0 : dtype) (l : list tsource) : Prop :=
  t0 <> TUnknown /\ Forall (wf_source t0) l.

Definition wf_sourceb (t0 : dtype) (s : tsource) : bool :=
  match ts_typ s with
  | TUnknown => match ts_rows s with [] => true | _ => false end
  | t => dtype_eqb t t0
  end.

(* ---------- (2) merged result set ---------- *)

(* one input result set: the series it delivers (ascending), then either the clean end of its
   stream or an error (Next() = false with Err() <> nil) *)
Record rsource := mkRS { rs_series : list N; rs_fails : bool }.

(* what a caller draining the merged result set ends up with: None = Err() <> nil *)
Definition rs_merge (fixed : bool) (l : list rsource) : option (list N) :=
  match l with
  | [] => Some []                                   (* NewMergedResultSet: nil *)
  | [s] => if rs_fails s then None else Some (sortN (rs_series s))   (* returned as it is *)
  | _ =>
      (* resultSetHeap.init: an input whose first Next() is false is closed; pinned: its Err()
         is not looked at.  An input that fails after a series is found out by
         mergedResultSet.Next when it is advanced. *)
      if existsb (fun s => rs_fails s &&
                           (fixed || match rs_series s with [] => false | _ => true end)) l
      then None
      else Some (sortN (flat_map rs_series l))
  end.

Definition rs_all (l : list rsource) : list N := sortN (flat_map rs_series l).
Definition rs_any_fails (l : list rsource) : bool := existsb rs_fails l.

Fixpoint nl_eqb (a b : list N) : bool :=
  match a, b with
  | [], [] => true
  | x :: a', y :: b' => N.eqb x y && nl_eqb a' b'
  | _, _ => false
  end.

(* executable spec for an observation: an error, or nothing failed and everything is there *)
Definition rs_ok (l : list rsource) (o : option (list N)) : bool :=
  match o with
  | None => true
  | Some v => negb (rs_any_fails l) && nl_eqb v (rs_all l)
  end.

(* executable spec for a typed-merge observation: the rows are all the rows *)
Definition tm_ok (srcs : list tsource) (rows : list N) : bool := nl_eqb rows (all_rows srcs).

(* ---------- (3) MapType over the fan-out ---------- *)

(* influxql.DataType.LessThan (precedence Float > Integer > Unsigned > String > Boolean > Unknown) *)
Definition dt_rank (t : dtype) : N :=
  match t with TUnknown => 0 | TBoolean => 1 | TString => 2 | TUnsigned => 3 | TInteger => 4 | TFloat => 5 end.

Definition dt_less_than (d other : dtype) : bool :=
  match d with
  | TUnknown => true
  | TUnsigned => match other with TFloat | TInteger => true | _ => false end
  | _ =>
      match other with
      | TUnsigned => match d with TString | TBoolean => true | _ => false end
      | TUnknown => false
      | _ => code_of_dtype other <? code_of_dtype d
      end
  end.

(* ClusterShardMapping.MapType: `var typ; for _, t := range types { if typ.LessThan(t) { typ = t } }`
   over the answers of the local mapping and of every remote group (each the same fold over
   the shards it was asked for) *)
Definition map_type (types : list dtype) : dtype :=
  fold_left (fun typ t => if dt_less_than typ t then t else typ) types TUnknown.
