(* C05/ProofsC.v — statements with several sources: the per-source guard of mapShards maps
   every source exactly once (re-mapping happens only when everything is local, and is then
   idempotent), and operations on the resulting mapping satisfy the executable spec. *)
From Coq Require Import Permutation.
From Coq Require Import ZifyBool ZifyNat ZifyN.
From Verif Require Import C05.Model C05.Spec C05.ProofsA C05.ProofsB C05.Proofs.
Open Scope N_scope.

(* ---------- association lists ---------- *)

Lemma assoc_get_set_same {A} (d : A) l k v : assoc_get d (assoc_set l k v) k = v.
Proof.
  unfold assoc_get. induction l as [|[k' x] t IH]; cbn [assoc_set find fst snd].
  - rewrite N.eqb_refl. reflexivity.
  - destruct (k' =? k) eqn:E; cbn [find fst snd]; [rewrite N.eqb_refl; reflexivity|]. rewrite E. exact IH.
Qed.

Lemma assoc_get_set_other {A} (d : A) l k k' v : k <> k' -> assoc_get d (assoc_set l k v) k' = assoc_get d l k'.
Proof.
  intros Hne. unfold assoc_get. induction l as [|[k0 x] t IH]; cbn [assoc_set find fst snd].
  - destruct (k =? k') eqn:E; [apply N.eqb_eq in E; contradiction | reflexivity].
  - destruct (k0 =? k) eqn:E; cbn [find fst snd].
    + apply N.eqb_eq in E. subst.
      destruct (k =? k') eqn:E2; [apply N.eqb_eq in E2; contradiction | reflexivity].
    + destruct (k0 =? k'); [reflexivity | exact IH].
Qed.

Lemma assoc_has_set_same {A} (l : list (N * A)) k v : assoc_has (assoc_set l k v) k = true.
Proof.
  unfold assoc_has. induction l as [|[k' x] t IH]; cbn [assoc_set existsb fst].
  - rewrite N.eqb_refl. reflexivity.
  - destruct (k' =? k) eqn:E; cbn [existsb fst]; [rewrite N.eqb_refl; reflexivity|]. rewrite E. exact IH.
Qed.

Lemma assoc_has_set_other {A} (l : list (N * A)) k k' v : k <> k' -> assoc_has (assoc_set l k v) k' = assoc_has l k'.
Proof.
  intros Hne. unfold assoc_has. induction l as [|[k0 x] t IH]; cbn [assoc_set existsb fst].
  - destruct (k =? k') eqn:E; [apply N.eqb_eq in E; contradiction | reflexivity].
  - destruct (k0 =? k) eqn:E; cbn [existsb fst].
    + apply N.eqb_eq in E. subst.
      destruct (k =? k') eqn:E2; [apply N.eqb_eq in E2; contradiction | reflexivity].
    + rewrite IH. reflexivity.
Qed.

(* ---------- more facts about one mapping ---------- *)

Definition nonlocal (local : N) (e : N * list shard) : bool := negb (fst e =? local).

Lemma amap_get_no_key m k : has_key m k = false -> amap_get m k = [].
Proof.
  unfold has_key, amap_get. induction m as [|[k' l] m IH]; cbn [existsb find fst]; [reflexivity|].
  destruct (k' =? k); cbn [orb]; [discriminate | exact IH].
Qed.

Lemma own_inv_get m k s : own_inv m -> In s (amap_get m k) -> In k (owners s).
Proof.
  unfold amap_get. intros Ho Hs. destruct (find (fun e => fst e =? k) m) as [e|] eqn:E; [|destruct Hs].
  apply find_some in E. destruct E as [He Hk]. apply N.eqb_eq in Hk. subst k.
  destruct e as [n sh]. eapply own_inv_entry; eassumption.
Qed.

Lemma groups_of_remote local m : groups_of (remote_groups local m) = filter (nonlocal local) m.
Proof.
  unfold groups_of, remote_groups, nonlocal. rewrite map_map. cbn [fst g_node g_shards].
  induction (filter _ m) as [|[n sh] t IH]; cbn [map fst snd]; [reflexivity|]. rewrite IH. reflexivity.
Qed.

Lemma groups_of_nil gs : groups_of gs = [] -> gs = [].
Proof. destruct gs; [reflexivity | discriminate]. Qed.

Lemma flat_groups_of gs : flat (groups_of gs) = flat_map (fun gd : gstate => g_shards (fst gd)) gs.
Proof. unfold flat, groups_of. induction gs as [|g t IH]; cbn; [reflexivity|]. rewrite IH. reflexivity. Qed.

Lemma keys_filter_NoDup (f : N * list shard -> bool) m : NoDup (keys m) -> NoDup (keys (filter f m)).
Proof.
  unfold keys. induction m as [|e m IH]; cbn [filter map]; intros H; [constructor|].
  inversion H as [|? ? Hn Hd]; subst. destruct (f e); cbn [map]; [|apply IH; exact Hd].
  constructor; [|apply IH; exact Hd]. intros Hin. apply Hn.
  apply in_map_iff in Hin. destruct Hin as [x [Hx Hf]]. apply filter_In in Hf.
  apply in_map_iff. exists x. tauto.
Qed.

(* ---------- the per-source invariant of mapShards ---------- *)

Section Sources.
  Variable local : N.
  Variable view : N -> list shard.

  (* the entries of source [src] are the image of ONE run of the single-source mapper *)
  Definition src_ok (st : mstate) (src : N) : Prop :=
    exists c, let m0 := map_shards local c (view src) in
      assoc_get [] (lmap st) src = amap_get m0 local /\
      groups_of (assoc_get [] (rmap st) src) = filter (nonlocal local) m0 /\
      (assoc_has (rmap st) src = false -> filter (nonlocal local) m0 = []).

  Definition untouched (st : mstate) (src : N) : Prop :=
    assoc_get [] (lmap st) src = [] /\ assoc_get [] (rmap st) src = [] /\ assoc_has (rmap st) src = false.

  Definition inv (st : mstate) (src : N) : Prop := untouched st src \/ src_ok st src.

  Lemma map_one_other choice st s x : s <> x ->
    (untouched st x -> untouched (map_one local choice view st s) x) /\
    (src_ok st x -> src_ok (map_one local choice view st s) x).
  Proof.
    intros Hne. unfold map_one.
    destruct (assoc_has (rmap st) s); [tauto|].
    assert (G : forall l r,
      assoc_get [] l x = assoc_get [] (lmap st) x -> assoc_get [] r x = assoc_get [] (rmap st) x ->
      assoc_has r x = assoc_has (rmap st) x ->
      (untouched st x -> untouched (mkM l r) x) /\ (src_ok st x -> src_ok (mkM l r) x)).
    { intros l r E1 E2 E3. split.
      - intros (U1 & U2 & U3). unfold untouched. cbn [lmap rmap]. rewrite E1, E2, E3. auto.
      - intros (c & S1 & S2 & S3). exists c. cbn [lmap rmap]. rewrite E1, E2, E3. auto. }
    destruct (view s) as [|s0 rest].
    - apply G; [apply assoc_get_set_other | apply assoc_get_set_other | apply assoc_has_set_other]; exact Hne.
    - apply G.
      + destruct (has_key _ local); [apply assoc_get_set_other; exact Hne | reflexivity].
      + destruct (remote_groups local _); [reflexivity | apply assoc_get_set_other; exact Hne].
      + destruct (remote_groups local _); [reflexivity | apply assoc_has_set_other; exact Hne].
  Qed.

  (* everything local last time => everything local again, whatever the oracle says *)
  Lemma all_local_has_key choice s0 rest :
    owned_by s0 local = true -> has_key (map_shards local choice (s0 :: rest)) local = true.
  Proof.
    intros Ho. destruct (has_key (map_shards local choice (s0 :: rest)) local) eqn:E; [reflexivity|].
    apply amap_get_no_key in E.
    pose proof (map_go_local local choice (s0 :: rest) 0%nat [] s0 (or_introl eq_refl) Ho) as Hin.
    unfold map_shards in E. rewrite E in Hin. destruct Hin.
  Qed.

  Lemma map_one_same choice st s :
    forallb has_owner (view s) = true -> inv st s -> src_ok (map_one local choice view st s) s.
  Proof.
    intros Hwf H. unfold map_one.
    destruct (assoc_has (rmap st) s) eqn:Eh.
    { destruct H as [(_ & _ & U3)|H]; [congruence | exact H]. }
    destruct (view s) as [|s0 rest] eqn:Ev.
    { exists choice. rewrite Ev. cbn [lmap rmap map_shards map_go amap_get find filter].
      rewrite !assoc_get_set_same. repeat split. }
    rewrite <- Ev in *.
    set (m := map_shards local choice (view s)).
    (* what the state held for s before: no local shards recorded unless all shards are local *)
    assert (Hold : assoc_get [] (rmap st) s = [] /\
                   (assoc_get [] (lmap st) s = [] \/ forall x, In x (view s) -> owned_by x local = true)).
    { destruct H as [(U1 & U2 & _)|(c & S1 & S2 & S3)]; [split; [exact U2 | left; exact U1]|].
      specialize (S3 Eh). rewrite S3 in S2. apply groups_of_nil in S2. split; [exact S2|]. right.
      intros x Hx.
      destruct (map_partition_lemma local c (view s) Hwf) as (P & K & O & _ & _).
      assert (Hf : In x (flat (map_shards local c (view s)))) by (eapply Permutation_in; [symmetry; exact P | exact Hx]).
      rewrite (flat_split local _ K) in Hf. fold (nonlocal local) in Hf. rewrite S3 in Hf.
      cbn [flat flat_map] in Hf. rewrite app_nil_r in Hf.
      apply owned_by_In. eapply own_inv_get; eassumption. }
    destruct Hold as [Hr Hl].
    exists choice. fold m. cbn [lmap rmap]. split; [|split].
    - destruct (has_key m local) eqn:Ek; [apply assoc_get_set_same|].
      rewrite (amap_get_no_key _ _ Ek). destruct Hl as [Hl|Hl]; [exact Hl|].
      exfalso. unfold m in Ek. rewrite Ev in Ek, Hl.
      rewrite (all_local_has_key choice s0 rest (Hl s0 (or_introl eq_refl))) in Ek. discriminate.
    - destruct (remote_groups local m) as [|g rg] eqn:Eg.
      + rewrite Hr. rewrite <- groups_of_remote, Eg. reflexivity.
      + rewrite assoc_get_set_same, Hr. cbn [app]. rewrite <- Eg. apply groups_of_remote.
    - destruct (remote_groups local m) as [|g rg] eqn:Eg.
      + intros _. rewrite <- groups_of_remote, Eg. reflexivity.
      + intros Hf. rewrite assoc_has_set_same in Hf. discriminate.
  Qed.

  Lemma map_one_inv choice st s :
    forallb has_owner (view s) = true -> forall x, inv st x -> inv (map_one local choice view st s) x.
  Proof.
    intros Hwf x H. destruct (N.eq_dec s x) as [<-|Hne].
    - right. apply map_one_same; assumption.
    - destruct (map_one_other choice st s x Hne) as [A B]. destruct H as [H|H]; [left; auto | right; auto].
  Qed.

  Lemma map_one_src_ok choice st s x :
    forallb has_owner (view s) = true -> src_ok st x -> src_ok (map_one local choice view st s) x.
  Proof.
    intros Hwf H. destruct (N.eq_dec s x) as [<-|Hne].
    - apply map_one_same; [exact Hwf | right; exact H].
    - apply (map_one_other choice st s x Hne). exact H.
  Qed.

  Lemma map_sources_src_ok choice srcs x : forall pos st,
    (forall y, In y srcs -> forallb has_owner (view y) = true) ->
    src_ok st x -> src_ok (map_sources local choice view pos st srcs) x.
  Proof.
    induction srcs as [|s rest IH]; intros pos st Hwf H; cbn [map_sources]; [exact H|].
    apply IH; [intros y Hy; apply Hwf; right; exact Hy|].
    apply map_one_src_ok; [apply Hwf; left; reflexivity | exact H].
  Qed.

  (* every source of the statement ends up mapped exactly once *)
  Lemma map_sources_ok choice srcs : forall pos st,
    (forall y, In y srcs -> forallb has_owner (view y) = true) ->
    (forall y, inv st y) ->
    forall x, In x srcs -> src_ok (map_sources local choice view pos st srcs) x.
  Proof.
    induction srcs as [|s rest IH]; intros pos st Hwf Hinv x Hx; [destruct Hx|].
    cbn [map_sources]. destruct (N.eq_dec s x) as [<-|Hne].
    - apply map_sources_src_ok; [intros y Hy; apply Hwf; right; exact Hy|].
      apply map_one_same; [apply Hwf; left; reflexivity | apply Hinv].
    - destruct Hx as [E|Hx]; [contradiction|].
      apply IH; [intros y Hy; apply Hwf; right; exact Hy | | exact Hx].
      intros y. apply map_one_inv; [apply Hwf; left; reflexivity | apply Hinv].
  Qed.
End Sources.

(* ---------- from the invariant to the executable spec ---------- *)

Lemma mmapping_ok_src local view st src :
  wf_shards (view src) = true -> src_ok local view st src ->
  mmapping_ok local (view src) (assoc_get [] (lmap st) src) (groups_of (assoc_get [] (rmap st) src)) = true.
Proof.
  unfold wf_shards. rewrite andb_true_iff. intros [Hnd Hown] (c & S1 & S2 & _).
  cbn zeta in S1, S2. rewrite S1, S2.
  destruct (map_partition_lemma local c (view src) Hown) as (P & K & O & L & _).
  set (m0 := map_shards local c (view src)) in *.
  unfold mmapping_ok. rewrite !andb_true_iff. repeat split.
  - apply list_eqb_eq. apply sortN_perm_eq. apply Permutation_map.
    rewrite <- P. symmetry. apply (flat_split local m0 K).
  - apply nodupb_NoDup. apply keys_filter_NoDup. exact K.
  - apply negb_true_iff. apply memN_false. intros Hin. unfold keys in Hin.
    apply in_map_iff in Hin. destruct Hin as [e [He Hf]]. apply filter_In in Hf. destruct Hf as [_ Hf].
    unfold nonlocal in Hf. rewrite He, N.eqb_refl in Hf. discriminate.
  - apply forallb_forall. intros s Hs. apply owned_by_In. eapply own_inv_get; eassumption.
  - apply forallb_forall. intros e He. apply filter_In in He. destruct He as [He _].
    apply forallb_forall. intros s Hs. apply owned_by_In. destruct e as [n sh].
    eapply own_inv_entry; eassumption.
  - apply forallb_forall. intros s Hs. destruct (owned_by s local) eqn:E; [|reflexivity].
    cbn [implb]. apply memN_In. apply in_map. apply L; assumption.
Qed.

Definition good (view : N -> list shard) (st : mstate) (src : N) : Prop :=
  Forall (fun gd : gstate => group_wf (fst gd)) (assoc_get [] (rmap st) src) /\
  Permutation (assoc_get [] (lmap st) src ++
               flat_map (fun gd : gstate => g_shards (fst gd)) (assoc_get [] (rmap st) src)) (view src).

Lemma good_of_src_ok local view st src :
  forallb has_owner (view src) = true -> src_ok local view st src -> good view st src.
Proof.
  intros Hown (c & S1 & S2 & _). cbn zeta in S1, S2.
  destruct (map_partition_lemma local c (view src) Hown) as (P & K & O & _ & _).
  split.
  - apply Forall_forall. intros gd Hg s Hs.
    assert (Hin : In (g_node (fst gd), g_shards (fst gd)) (groups_of (assoc_get [] (rmap st) src))).
    { unfold groups_of. apply in_map_iff. exists gd. split; [reflexivity | exact Hg]. }
    rewrite S2 in Hin. apply filter_In in Hin. destruct Hin as [Hin _].
    eapply own_inv_entry; eassumption.
  - rewrite S1, <- flat_groups_of, S2. eapply Permutation_trans; [|exact P]. symmetry. apply (flat_split local _ K).
Qed.

Definition gkey (gd : gstate) : key := (g_node (fst gd), ids (g_shards (fst gd))).

Lemma run_groups_quiet fixed o beh gs : forall log,
  (forall n k i, beh n k i = Serve) ->
  snd (run_groups fixed o beh gs log) = log ++ map gkey gs.
Proof.
  induction gs as [|[g d] gs IH]; intros log Hq; cbn [run_groups map].
  - cbn. rewrite app_nil_r. reflexivity.
  - unfold run_remote, call. rewrite Hq. cbn [client_response].
    specialize (IH (log ++ [(g_node g, ids (g_shards g))]) Hq).
    destruct (run_groups fixed o beh gs (log ++ [(g_node g, ids (g_shards g))])) as [[rs gs'] l2].
    cbn [snd] in *. rewrite IH, <- app_assoc. reflexivity.
Qed.

Lemma skipn_app_exact {A} (a b : list A) : skipn (length a) (a ++ b) = b.
Proof. induction a as [|x a IH]; cbn; [reflexivity | exact IH]. Qed.

Lemma seg_ok_quiet view lsh gs :
  Permutation (lsh ++ flat_map (fun gd : gstate => g_shards (fst gd)) gs) view ->
  seg_ok lsh view (map gkey gs) = true.
Proof.
  intros P. unfold seg_ok. apply list_eqb_eq. apply sortN_perm_eq.
  rewrite <- P, map_app. rewrite Permutation_app_comm. apply Permutation_app_head.
  clear P. induction gs as [|gd gs IH]; cbn [map flat_map gkey snd]; [reflexivity|].
  rewrite map_app. apply Permutation_app; [|exact IH]. unfold ids. apply sortN_perm.
Qed.

Lemma Forall2_weaken {A B} (P Q : A -> B -> Prop) l l' :
  (forall a b, P a b -> Q a b) -> Forall2 P l l' -> Forall2 Q l l'.
Proof. intros H. induction 1; constructor; auto. Qed.

Lemma Forall2_all2 {A B} (f : A -> B -> bool) l l' :
  Forall2 (fun a b => f a b = true) l l' -> all2 f l l' = true.
Proof. induction 1 as [|a b l l' H _ IH]; cbn [all2]; [reflexivity|]. rewrite H, IH. reflexivity. Qed.

Lemma run_mops_ok beh data view ops : forall st log,
  no_clean_cut beh ->
  (forall o, In o ops -> good view st (fst o)) ->
  Forall2 (fun (o : N * op) (r : qres * list key) =>
             res_ok data (view (fst o)) (snd o) (fst r) = true /\
             ((forall n k i, beh n k i = Serve) ->
              seg_ok (assoc_get [] (lmap st) (fst o)) (view (fst o)) (snd r) = true))
          ops (run_mops true beh data st log ops).
Proof.
  induction ops as [|[src o] rest IH]; intros st log Hnc Hg; cbn [run_mops]; [constructor|].
  destruct (Hg (src, o) (or_introl eq_refl)) as [Hwf P]. cbn [fst] in Hwf, P.
  set (gs := assoc_get [] (rmap st) src) in *.
  destruct (run_groups true o beh gs log) as [[rs gs'] log1] eqn:E.
  destruct (run_groups_spec true beh o gs _ _ _ _ Hwf E) as [F M].
  constructor.
  - cbn [fst snd]. split.
    + eapply op_result_ok; try eassumption. reflexivity.
    + intros Hq. pose proof (run_groups_quiet true o beh gs log Hq) as Hl. rewrite E in Hl. cbn [snd] in Hl.
      rewrite Hl, skipn_app_exact. apply seg_ok_quiet. exact P.
  - set (st' := if assoc_has (rmap st) src then mkM (lmap st) (assoc_set (rmap st) src gs') else st).
    assert (Hl : lmap st' = lmap st) by (unfold st'; destruct (assoc_has (rmap st) src); reflexivity).
    rewrite <- Hl. apply IH; [exact Hnc|].
    intros x Hx. specialize (Hg x (or_intror Hx)). unfold good in *. rewrite Hl.
    unfold st'. destruct (assoc_has (rmap st) src); [|exact Hg]. cbn [rmap].
    destruct (N.eq_dec src (fst x)) as [Heq|Hne].
    + rewrite <- Heq in *. rewrite assoc_get_set_same. fold gs in Hg. destruct Hg as [G1 G2]. split.
      * eapply wf_transfer; eassumption.
      * rewrite (shards_transfer gs' gs M). exact G2.
    + rewrite assoc_get_set_other by exact Hne. exact Hg.
Qed.

Lemma assoc_get_groups rm src :
  assoc_get [] (map (fun e : N * list gstate => (fst e, groups_of (snd e))) rm) src =
  groups_of (assoc_get [] rm src).
Proof.
  unfold assoc_get. induction rm as [|[k v] t IH]; cbn [map find fst snd]; [reflexivity|].
  destruct (k =? src); [reflexivity | exact IH].
Qed.

Definition rm_groups (st : mstate) : list (N * amap) :=
  map (fun e : N * list gstate => (fst e, groups_of (snd e))) (rmap st).

(* link for statements with several sources.  _partial: no_clean_cut as before. *)
Lemma model_multi_satisfies_spec_partial local choice view data beh srcs ops quiet :
  (forall x, In x srcs -> wf_shards (view x) = true) ->
  (forall o, In o ops -> In (fst o) srcs) ->
  no_clean_cut beh ->
  (quiet = true -> forall n k i, beh n k i = Serve) ->
  let '(st, res) := model_mrun true local choice view data beh srcs ops in
  mspec_ok local view data srcs ops (lmap st) (rm_groups st) res quiet = true.
Proof.
  intros Hwf Hops Hnc Hq. unfold model_mrun.
  set (st := map_sources local choice view 0 (mkM [] []) srcs).
  assert (Hown : forall y, In y srcs -> forallb has_owner (view y) = true).
  { intros y Hy. specialize (Hwf y Hy). unfold wf_shards in Hwf. apply andb_true_iff in Hwf. tauto. }
  assert (Hok : forall x, In x srcs -> src_ok local view st x).
  { apply map_sources_ok; [exact Hown|]. intros y. left. repeat split. }
  pose proof (run_mops_ok beh data view ops st [] Hnc
                (fun o Ho => good_of_src_ok local view st (fst o) (Hown _ (Hops o Ho)) (Hok _ (Hops o Ho)))) as F.
  unfold mspec_ok. rewrite !andb_true_iff. repeat split.
  - apply forallb_forall. intros src Hs. unfold rm_groups. rewrite assoc_get_groups.
    apply mmapping_ok_src; [apply Hwf | apply Hok]; exact Hs.
  - apply Forall2_all2. eapply Forall2_weaken; [|exact F]. cbn beta. intros a b [H _]. exact H.
  - destruct quiet; [|reflexivity]. cbn [negb orb].
    apply Forall2_all2. eapply Forall2_weaken; [|exact F]. cbn beta. intros a b [_ H]. apply H. apply Hq. reflexivity.
Qed.

(* ---------- shard groups overlapping the query range ---------- *)
Open Scope Z_scope.

(* no group that can hold a point of the range is left out (deleted groups excepted) *)
Lemma overlap_complete_lemma tmin tmax gs g t :
  In g gs -> sg_deleted g = false -> tmin <= t <= tmax -> can_hold g t ->
  In g (groups_overlapping tmin tmax gs).
Proof.
  intros Hin Hd Ht [H1 H2]. unfold groups_overlapping. apply filter_In. split; [exact Hin|].
  rewrite Hd. cbn [negb andb]. unfold overlaps. apply andb_true_iff.
  split; [apply Z.leb_le | apply Z.ltb_lt]; lia.
Qed.

(* and nothing else is read: a selected group is live and can hold a point of the range *)
Lemma overlap_sound_lemma tmin tmax gs g :
  tmin <= tmax -> sg_start g < sg_end g -> In g (groups_overlapping tmin tmax gs) ->
  In g gs /\ sg_deleted g = false /\ exists t, tmin <= t <= tmax /\ can_hold g t.
Proof.
  intros Hr Hne Hin. unfold groups_overlapping in Hin. apply filter_In in Hin. destruct Hin as [Hin Hf].
  apply andb_true_iff in Hf. destruct Hf as [Hd Ho]. apply negb_true_iff in Hd.
  unfold overlaps in Ho. apply andb_true_iff in Ho. destruct Ho as [H1 H2].
  split; [exact Hin|]. split; [exact Hd|].
  apply Z.leb_le in H1. apply Z.ltb_lt in H2.
  exists (Z.max tmin (sg_start g)). unfold can_hold.
  pose proof (Z.le_max_l tmin (sg_start g)). pose proof (Z.le_max_r tmin (sg_start g)).
  destruct (Z.max_spec tmin (sg_start g)) as [[L E]|[L E]]; rewrite E; lia.
Qed.

Lemma view_of_groups_shards tmin tmax gs s :
  In s (view_of_groups tmin tmax gs) <->
  exists g, In g (groups_overlapping tmin tmax gs) /\ In s (sg_shards g).
Proof. unfold view_of_groups. apply in_flat_map. Qed.
Close Scope Z_scope.
