(* C05/Proofs.v — whole operations on a cluster mapping, the link
   [spec_ok input (model input) = true], and the refutations for the pinned tree. *)
From Coq Require Import Permutation.
From Coq Require Import ZifyBool ZifyNat ZifyN.
From Verif Require Import C05.Model C05.Spec C05.ProofsA C05.ProofsB.
Open Scope N_scope.

(* no node cuts a point stream exactly at a frame boundary (finding
   c05-stream-cut-at-frame-boundary: the client cannot tell that from completion) *)
Definition no_clean_cut (beh : behaviour) : Prop :=
  forall n k i j b, beh n k i = CutPts j b -> clean_cut b = false.

Lemma wf_transfer (gs1 gs : list gstate) :
  map fst gs1 = map fst gs ->
  Forall (fun gd : gstate => group_wf (fst gd)) gs -> Forall (fun gd : gstate => group_wf (fst gd)) gs1.
Proof.
  intros M H. rewrite Forall_forall in *. intros gd Hg.
  assert (Hin : In (fst gd) (map fst gs)) by (rewrite <- M; apply in_map; exact Hg).
  apply in_map_iff in Hin. destruct Hin as [gd' [E Hg']]. rewrite <- E. apply H. exact Hg'.
Qed.

Lemma shards_transfer (gs1 gs : list gstate) :
  map fst gs1 = map fst gs ->
  flat_map (fun gd : gstate => g_shards (fst gd)) gs1 = flat_map (fun gd : gstate => g_shards (fst gd)) gs.
Proof.
  revert gs. induction gs1 as [|a gs1 IH]; intros [|b gs] M; cbn [map] in M; try discriminate; [reflexivity|].
  injection M as Ma Mb. cbn [flat_map]. rewrite Ma, (IH gs Mb). reflexivity.
Qed.

Section Ops.
  Variable fixed : bool.
  Variable beh : behaviour.

  Definition rres_good (o : op) (g : group) (r : rres) : Prop :=
    match r with
    | ROk ps => Permutation (flat_map p_shards ps) (g_shards g) /\ Forall (part_ok fixed o beh) ps
    | RErr => True
    | RFuel => False
    end.

  Lemma run_groups_spec o gs : forall log rs gs' log',
    Forall (fun gd : gstate => group_wf (fst gd)) gs ->
    run_groups fixed o beh gs log = (rs, gs', log') ->
    Forall2 (fun (gd : gstate) r => rres_good o (fst gd) r) gs rs /\ map fst gs' = map fst gs.
  Proof.
    induction gs as [|[g d] gs IH]; intros log rs gs' log' Hwf H; cbn [run_groups] in H.
    - inversion H; subst. split; [constructor | reflexivity].
    - inversion Hwf as [|? ? Hg Hrest]; subst. cbn [fst] in Hg.
      destruct (run_remote (group_fuel (g_shards g)) fixed o beh g d log) as [[r d1] log1] eqn:E1.
      destruct (run_groups fixed o beh gs log1) as [[rs1 gs1] log2] eqn:E2.
      inversion H; subst; clear H.
      destruct (IH _ _ _ _ Hrest E2) as [F M]. split.
      + constructor; [|exact F]. cbn [fst]. unfold rres_good.
        pose proof (run_remote_terminates fixed o beh g d log) as Ht. rewrite E1 in Ht. cbn [fst] in Ht.
        destruct r as [ps| |]; [|exact I|congruence].
        eapply run_remote_spec; eassumption.
      + cbn [map fst]. rewrite M. reflexivity.
  Qed.

  Lemma collect_spec o gs rs ps :
    Forall2 (fun (gd : gstate) r => rres_good o (fst gd) r) gs rs -> collect rs = Some ps ->
    Permutation (flat_map p_shards ps) (flat_map (fun gd : gstate => g_shards (fst gd)) gs) /\
    Forall (part_ok fixed o beh) ps.
  Proof.
    intros F. revert ps. induction F as [|gd r gs rs Hg F IH]; intros ps H; cbn [collect] in H.
    - inversion H; subst. split; [reflexivity | constructor].
    - destruct r as [ps1| |]; try discriminate.
      destruct (collect rs) as [q|] eqn:Eq; [|discriminate]. inversion H; subst; clear H.
      destruct (IH q eq_refl) as [P A]. destruct Hg as [P1 A1]. split.
      + rewrite flat_map_app. cbn [flat_map]. apply Permutation_app; assumption.
      + apply Forall_app. split; assumption.
  Qed.

  (* ---------- the caller-visible result of one operation ---------- *)

  Lemma part_rows_full o data p :
    fixed = true -> no_clean_cut beh -> answered fixed o beh p ->
    snd (part_rows data p) = false ->
    fst (part_rows data p) = sortN (flat_map data (map sid (p_shards p))).
  Proof.
    intros -> Hnc [i Hi] Hs. unfold part_rows in *.
    destruct (beh (p_node p) (ids (p_shards p)) i) as [| | | |j b] eqn:Eb; cbn [client_response] in Hi.
    - injection Hi as E. rewrite <- E. reflexivity.
    - discriminate.
    - destruct (streaming o); discriminate.
    - discriminate.
    - destruct (streaming o); injection Hi as E; rewrite <- E in *; [|reflexivity].
      pose proof (Hnc _ _ _ _ _ Eb) as Hb.
      destruct (j <? _); [cbn [snd] in Hs; rewrite Hb in Hs; discriminate|].
      destruct (j =? _); [cbn [snd] in Hs; rewrite Hb in Hs; discriminate|]. reflexivity.
  Qed.

  Lemma flat_map_data_parts (data : N -> list N) ps :
    flat_map (fun p => flat_map data (map sid (p_shards p))) ps =
    flat_map data (map sid (flat_map p_shards ps)).
  Proof.
    induction ps as [|p ps IH]; cbn [flat_map]; [reflexivity|].
    rewrite map_app, flat_map_app, IH. reflexivity.
  Qed.

  Lemma op_result_ok o data shards local_sh gs rs :
    fixed = true -> no_clean_cut beh ->
    Permutation (local_sh ++ flat_map (fun gd : gstate => g_shards (fst gd)) gs) shards ->
    Forall2 (fun (gd : gstate) r => rres_good o (fst gd) r) gs rs ->
    res_ok data shards o (op_result o data local_sh rs) = true.
  Proof.
    intros Hfx Hnc P F. unfold op_result.
    destruct (collect rs) as [ps|] eqn:Ec; [|reflexivity].
    destruct (collect_spec o gs rs ps F Ec) as [Pp A].
    assert (Ps : Permutation (local_sh ++ flat_map p_shards ps) shards).
    { rewrite <- P. apply Permutation_app_head. exact Pp. }
    assert (Hstream :
      res_ok data shards OpCI
        (if existsb snd (map (part_rows data) ps) then QErr
         else QOk (sortN (flat_map data (map sid local_sh) ++ flat_map fst (map (part_rows data) ps)))) = true
      -> forall o', streaming o' = true -> o' = o ->
      res_ok data shards o'
        (if existsb snd (map (part_rows data) ps) then QErr
         else QOk (sortN (flat_map data (map sid local_sh) ++ flat_map fst (map (part_rows data) ps)))) = true).
    { intros H o' Hs _. destruct o'; try discriminate; exact H. }
    assert (Hci : res_ok data shards OpCI
        (if existsb snd (map (part_rows data) ps) then QErr
         else QOk (sortN (flat_map data (map sid local_sh) ++ flat_map fst (map (part_rows data) ps)))) = true).
    { destruct (existsb snd (map (part_rows data) ps)) eqn:Ee; [reflexivity|].
      cbn [res_ok reference]. apply list_eqb_eq. apply sortN_perm_eq.
      assert (Hall : forall p, In p ps -> fst (part_rows data p) = sortN (flat_map data (map sid (p_shards p)))).
      { intros p Hp. rewrite Forall_forall in A. destruct (A p Hp) as [_ Ha].
        eapply part_rows_full; try eassumption.
        destruct (snd (part_rows data p)) eqn:E; [|reflexivity].
        assert (existsb snd (map (part_rows data) ps) = true); [|congruence].
        apply existsb_exists. exists (part_rows data p). split; [apply in_map; exact Hp | exact E]. }
      assert (Pr : Permutation (flat_map fst (map (part_rows data) ps))
                               (flat_map data (map sid (flat_map p_shards ps)))).
      { rewrite <- flat_map_data_parts. clear - Hall.
        induction ps as [|p ps IH]; cbn [map flat_map]; [reflexivity|].
        apply Permutation_app.
        - rewrite (Hall p (or_introl eq_refl)). apply sortN_perm.
        - apply IH. intros q Hq. apply Hall. right. exact Hq. }
      rewrite Pr, <- flat_map_app, <- map_app.
      apply Permutation_flat_map. apply Permutation_map. exact Ps. }
    destruct o; try (apply (Hstream Hci); reflexivity).
    - cbn [res_ok reference]. apply list_eqb_eq. apply sortN_perm_eq. apply Permutation_map. exact Ps.
    - cbn [res_ok reference]. rewrite (Permutation_length Ps). cbn [list_eqb].
      rewrite N.eqb_refl. reflexivity.
  Qed.

  Lemma run_ops_ok data shards local_sh ops : forall gs log qs log',
    fixed = true -> no_clean_cut beh ->
    Forall (fun gd : gstate => group_wf (fst gd)) gs ->
    Permutation (local_sh ++ flat_map (fun gd : gstate => g_shards (fst gd)) gs) shards ->
    run_ops fixed beh data local_sh gs log ops = (qs, log') ->
    all2 (res_ok data shards) ops qs = true.
  Proof.
    induction ops as [|o ops IH]; intros gs log qs log' Hfx Hnc Hwf P H; cbn [run_ops] in H.
    - injection H as <- <-. reflexivity.
    - destruct (run_groups fixed o beh gs log) as [[rs gs1] log1] eqn:E1.
      destruct (run_ops fixed beh data local_sh gs1 log1 ops) as [qs1 log2] eqn:E2.
      injection H as <- <-.
      destruct (run_groups_spec o gs _ _ _ _ Hwf E1) as [F M].
      cbn [all2]. apply andb_true_iff. split.
      + eapply op_result_ok; eassumption.
      + eapply (IH gs1 log1); try eassumption.
        * eapply wf_transfer; eassumption.
        * assert (Hm : flat_map (fun gd : gstate => g_shards (fst gd)) gs1 =
                       flat_map (fun gd : gstate => g_shards (fst gd)) gs).
          { apply shards_transfer. exact M. }
          rewrite Hm. exact P.
  Qed.
End Ops.

(* ---------- mapping -> local shards + remote groups ---------- *)

Lemma amap_get_notin m k : ~ In k (keys m) -> amap_get m k = [] /\
  filter (fun e => negb (fst e =? k)) m = m.
Proof.
  unfold amap_get. induction m as [|[k' l] m IH]; intros H; cbn [find filter fst]; [split; reflexivity|].
  cbn [keys map fst In] in H.
  destruct (k' =? k) eqn:E; [apply N.eqb_eq in E; tauto|]. cbn [negb].
  destruct IH as [I1 I2]; [tauto|]. rewrite I1, I2. split; reflexivity.
Qed.

Lemma flat_split local m :
  NoDup (keys m) ->
  Permutation (flat m) (amap_get m local ++ flat (filter (fun e => negb (fst e =? local)) m)).
Proof.
  induction m as [|[k l] m IH]; intros H; [reflexivity|].
  cbn [keys map fst] in H. inversion H as [|? ? Hn Hd]; subst.
  unfold amap_get. cbn [find filter fst flat flat_map snd].
  destruct (k =? local) eqn:E; cbn [negb snd].
  - apply N.eqb_eq in E. subst. destruct (amap_get_notin m local Hn) as [_ F]. rewrite F. reflexivity.
  - cbn [flat flat_map snd]. fold (flat m) (amap_get m local).
    rewrite (IH Hd). fold (flat (filter (fun e => negb (fst e =? local)) m)).
    rewrite !app_assoc. apply Permutation_app_tail. apply Permutation_app_comm.
Qed.

Lemma remote_groups_shards local m :
  flat_map (fun gd : gstate => g_shards (fst gd)) (remote_groups local m) =
  flat (filter (fun e => negb (fst e =? local)) m).
Proof.
  unfold remote_groups, flat. induction (filter _ m) as [|e t IH]; cbn; [reflexivity|].
  rewrite IH. reflexivity.
Qed.

Lemma remote_groups_wf local m :
  own_inv m -> Forall (fun gd : gstate => group_wf (fst gd)) (remote_groups local m).
Proof.
  unfold remote_groups, own_inv. intros H. apply Forall_forall. intros gd Hg.
  apply in_map_iff in Hg. destruct Hg as [e [<- He]]. apply filter_In in He. destruct He as [He _].
  rewrite Forall_forall in H. specialize (H e He). rewrite Forall_forall in H.
  intros s Hs. cbn in *. apply H. exact Hs.
Qed.

(* ---------- the link: the model satisfies the executable spec ---------- *)

(* _partial: the hypothesis [no_clean_cut] excludes exactly the shape of the open finding
   (a stream closed at a frame boundary); without it the statement is false, see
   [cut_stream_silently_short] below. *)
Lemma model_satisfies_spec_partial local choice shards data beh ops :
  wf_shards shards = true -> no_clean_cut beh ->
  let '(m, qs, _) := model_run true local choice shards data beh ops in
  spec_ok local shards data ops m qs = true.
Proof.
  intros Hwf Hnc. unfold model_run.
  destruct (run_ops true beh data _ _ [] ops) as [qs log] eqn:E.
  unfold spec_ok. apply andb_true_iff. split; [apply mapping_ok_model; exact Hwf|].
  unfold wf_shards in Hwf. apply andb_true_iff in Hwf. destruct Hwf as [_ Hown].
  destruct (map_partition_lemma local choice shards Hown) as (P & K & O & _ & _).
  eapply run_ops_ok; try exact E; auto.
  - apply remote_groups_wf. exact O.
  - rewrite remote_groups_shards, <- flat_split by exact K. exact P.
Qed.

(* ---------- pinned-tree refutations (closed computations) ---------- *)

Definition w_shards : list shard := [mkShard 1 [2]; mkShard 2 [2; 3]].
Definition w_data (s : N) : list N := if s =? 1 then [10; 11] else if s =? 2 then [20] else [].

(* (a) unrepaired client: node 2 replies with an error to everything; shard 1 has no other
   owner, yet the query "succeeds" with no rows *)
Lemma unfixed_error_reply_swallowed :
  snd (fst (model_run false 1 (fun _ _ => 0) w_shards w_data (fun _ _ _ => ErrorReply) [OpCI]))
  = [QOk []].
Proof. vm_compute. reflexivity. Qed.

(* (b) stream closed at a frame boundary after one point: silently short result *)
Lemma cut_stream_silently_short :
  snd (fst (model_run true 1 (fun _ _ => 0) w_shards w_data (fun _ _ _ => CutPts 1 0) [OpCI]))
  = [QOk [10]]
  /\ reference OpCI w_data w_shards = [10; 11; 20].
Proof. vm_compute. split; reflexivity. Qed.
