(* C05/ProofsShow.v — proofs about the SHOW fan-out (ShowModel.v). *)
From Coq Require Import Sorted ZifyBool ZifyNat ZifyN.
From Verif Require Import C05.Model C05.ShowModel.
Open Scope N_scope.

(* ---------- sorted sets ---------- *)

Lemma sinsert_in x l z : In z (sinsert x l) <-> z = x \/ In z l.
Proof.
  induction l as [|y t IH]; cbn [sinsert].
  - cbn. intuition.
  - destruct (N.ltb_spec x y) as [Hlt|Hge].
    + cbn. intuition.
    + destruct (N.eqb_spec x y) as [->|Hne].
      * cbn. intuition.
      * cbn [In]. rewrite IH. intuition.
Qed.

Lemma sinsert_sorted x l : StronglySorted N.lt l -> StronglySorted N.lt (sinsert x l).
Proof.
  induction l as [|y t IH]; intros Hs; cbn [sinsert].
  - constructor; constructor.
  - inversion Hs as [|? ? Ht Hy]; subst.
    destruct (N.ltb_spec x y) as [Hlt|Hge].
    + constructor; [exact Hs|]. constructor; [exact Hlt|].
      rewrite Forall_forall in *. intros z Hz. specialize (Hy z Hz). lia.
    + destruct (N.eqb_spec x y) as [->|Hne]; [exact Hs|].
      constructor; [apply IH; exact Ht|].
      rewrite Forall_forall in *. intros z Hz. apply sinsert_in in Hz. destruct Hz as [->|Hz]; [lia|auto].
Qed.

Lemma sset_sorted l : StronglySorted N.lt (sset l).
Proof. induction l as [|x l IH]; cbn; [constructor|apply sinsert_sorted; exact IH]. Qed.

Lemma sset_in l z : In z (sset l) <-> In z l.
Proof.
  induction l as [|x l IH]; cbn [sset fold_right]; [reflexivity|].
  fold (sset l). rewrite sinsert_in, IH. cbn. intuition.
Qed.

(* a strictly sorted list is determined by its elements *)
Lemma sorted_ext : forall a b,
  StronglySorted N.lt a -> StronglySorted N.lt b -> (forall z, In z a <-> In z b) -> a = b.
Proof.
  induction a as [|x a IH]; intros b Ha Hb Hab.
  - destruct b as [|y b]; [reflexivity|]. exfalso. apply (Hab y). left; reflexivity.
  - destruct b as [|y b]; [exfalso; apply (Hab x); left; reflexivity|].
    inversion Ha as [|? ? Ha' Hx]; subst. inversion Hb as [|? ? Hb' Hy]; subst.
    rewrite Forall_forall in Hx, Hy.
    assert (Hxy : x = y).
    { destruct (proj1 (Hab x) (or_introl eq_refl)) as [->|Hin]; [reflexivity|].
      destruct (proj2 (Hab y) (or_introl eq_refl)) as [->|Hin']; [reflexivity|].
      specialize (Hy x Hin). specialize (Hx y Hin'). lia. }
    subst y. f_equal. apply IH; [assumption|assumption|].
    intros z. split; intros Hz.
    + destruct (proj1 (Hab z) (or_intror Hz)) as [<-|H]; [|exact H]. specialize (Hx x Hz). lia.
    + destruct (proj2 (Hab z) (or_intror Hz)) as [<-|H]; [|exact H]. specialize (Hy x Hz). lia.
Qed.

Lemma show_eqb_refl l : show_eqb l l = true.
Proof. induction l as [|x l IH]; [reflexivity|]. cbn. rewrite N.eqb_refl, IH. reflexivity. Qed.

(* ---------- the fan-out ---------- *)

Lemma exec_nodes_in local nodes n : In n (exec_nodes local nodes) <-> n = local \/ In n nodes.
Proof.
  unfold exec_nodes. cbn [In]. rewrite filter_In. split.
  - intros [H|[H _]]; [left; symmetry; exact H|right; exact H].
  - intros [->|H]; [left; reflexivity|].
    destruct (N.eqb_spec n local) as [->|Hne]; [left; reflexivity|right].
    split; [exact H|reflexivity].
Qed.

Lemma node_answer_in data shards n x :
  In x (node_answer data shards n) <->
  exists s, In s shards /\ owned_by s n = true /\ In x (data (sid s)).
Proof.
  unfold node_answer. rewrite in_flat_map. split.
  - intros [s [Hs Hx]]. destruct (owned_by s n) eqn:E; [|destruct Hx]. exists s. auto.
  - intros [s [Hs [Ho Hx]]]. exists s. rewrite Ho. auto.
Qed.

Lemma in_concat_map {A B} (f : A -> list B) l x : In x (concat (map f l)) <-> exists a, In a l /\ In x (f a).
Proof. rewrite <- flat_map_concat_map. apply in_flat_map. Qed.

(* the listing is the union of the answers of the nodes that answered: an item is listed iff
   a node of the cluster that served the request holds a shard with it *)
Lemma show_union_lemma local nodes beh data shards x :
  In x (fst (show_fanout local nodes beh data shards)) <->
  exists n s, (n = local \/ In n nodes) /\ beh n = NServe /\
              In s shards /\ owned_by s n = true /\ In x (data (sid s)).
Proof.
  unfold show_fanout, exec_query. cbn [fst]. rewrite sset_in, in_concat_map. split.
  - intros [n [Hn Hx]]. apply filter_In in Hn. destruct Hn as [Hn Ha].
    apply exec_nodes_in in Hn. apply node_answer_in in Hx. destruct Hx as [s [Hs [Ho Hx]]].
    exists n, s. unfold answers in Ha. destruct (beh n) eqn:E; try discriminate. auto.
  - intros [n [s [Hn [Hb [Hs [Ho Hx]]]]]]. exists n. split.
    + apply filter_In. split; [apply exec_nodes_in; exact Hn|]. unfold answers. rewrite Hb. reflexivity.
    + apply node_answer_in. exists s. auto.
Qed.

Lemma show_sorted local nodes beh data shards :
  StronglySorted N.lt (fst (show_fanout local nodes beh data shards)).
Proof. unfold show_fanout, exec_query. cbn [fst]. apply sset_sorted. Qed.

(* the error of ExecuteQuery never reaches the caller *)
Lemma show_never_errors local nodes beh data shards :
  snd (show_fanout local nodes beh data shards) = false.
Proof. reflexivity. Qed.

Lemma show_reference_in data shards x :
  In x (show_reference data shards) <-> exists s, In s shards /\ In x (data (sid s)).
Proof. unfold show_reference. rewrite sset_in, in_flat_map. reflexivity. Qed.

Lemma covered_spec local nodes beh shards :
  covered local nodes beh shards = true <->
  forall s, In s shards -> exists n, (n = local \/ In n nodes) /\ beh n = NServe /\ owned_by s n = true.
Proof.
  unfold covered. rewrite forallb_forall. split; intros H s Hs; specialize (H s Hs).
  - apply existsb_exists in H. destruct H as [n [Hn Hc]]. apply andb_true_iff in Hc. destruct Hc as [Ha Ho].
    exists n. apply exec_nodes_in in Hn. unfold answers in Ha. destruct (beh n); try discriminate. auto.
  - destruct H as [n [Hn [Hb Ho]]]. apply existsb_exists. exists n. split; [apply exec_nodes_in; exact Hn|].
    unfold answers. rewrite Hb, Ho. reflexivity.
Qed.

(* whenever every shard has an owner that answers, the listing is the single-node listing *)
Lemma show_complete_lemma local nodes beh data shards :
  covered local nodes beh shards = true ->
  fst (show_fanout local nodes beh data shards) = show_reference data shards.
Proof.
  intros Hc. rewrite covered_spec in Hc.
  apply sorted_ext; [apply show_sorted|apply sset_sorted|].
  intros x. rewrite show_union_lemma, show_reference_in. split.
  - intros [n [s [_ [_ [Hs [_ Hx]]]]]]. exists s. auto.
  - intros [s [Hs Hx]]. destruct (Hc s Hs) as [n [Hn [Hb Ho]]]. exists n, s. auto.
Qed.

(* in any case nothing is invented: the listing is a subset of the single-node listing *)
Lemma show_subset_lemma local nodes beh data shards x :
  In x (fst (show_fanout local nodes beh data shards)) -> In x (show_reference data shards).
Proof.
  rewrite show_union_lemma, show_reference_in. intros [n [s [_ [_ [Hs [_ Hx]]]]]]. exists s. auto.
Qed.

(* link to the executable spec, for covered layouts *)
Lemma show_satisfies_spec_partial local nodes beh data shards :
  covered local nodes beh shards = true ->
  show_ok (show_reference data shards) (show_fanout local nodes beh data shards) = true.
Proof.
  intros Hc. unfold show_ok. rewrite show_complete_lemma by assumption.
  rewrite show_eqb_refl. apply orb_true_r.
Qed.

(* the finding: three nodes, shard 1 only on node 2, shard 2 on nodes 2 and 3; node 2 is down
   (or replies with an error): the items of shard 1 are missing and no error is returned *)
Definition sw_shards : list shard := [mkShard 1 [2]; mkShard 2 [2; 3]].
Definition sw_data (s : N) : list N := if s =? 1 then [10; 11] else [11; 20].
Definition sw_beh (n : N) : nbeh := if n =? 2 then NDown else NServe.
Definition sw_beh_err (n : N) : nbeh := if n =? 2 then NError else NServe.

Lemma show_incomplete_witness :
  covered 1 [1; 2; 3] sw_beh sw_shards = false /\
  show_fanout 1 [1; 2; 3] sw_beh sw_data sw_shards = ([11; 20], false) /\
  show_reference sw_data sw_shards = [10; 11; 20] /\
  show_ok (show_reference sw_data sw_shards) (show_fanout 1 [1; 2; 3] sw_beh sw_data sw_shards) = false /\
  show_ok (show_reference sw_data sw_shards) (show_fanout 1 [1; 2; 3] sw_beh_err sw_data sw_shards) = false.
Proof. repeat split; vm_compute; reflexivity. Qed.
