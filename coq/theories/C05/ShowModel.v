(* C05/ShowModel.v — executable model of the SHOW fan-out
   (coordinator/meta_executor.go: MetaExecutor.ExecuteQuery;
    coordinator/statement_executor.go: ClusterTSDBStore.{MeasurementNames, TagKeys, TagValues}:
      results, _ := s.MetaExecutor.ExecuteQuery(fn, rfn)      <- the error is dropped
      merge the results of the nodes that answered into a sorted set; return it with a nil error).
   A listing is a set of items: measurement names, (measurement, tag key) pairs or
   (measurement, tag key, tag value) triples, abstracted to numbers.  Every node answers with the
   items of the shards it holds (tsdb.Store.TagKeys(shardIDs) skips shard ids it does not have).
   Definitions only; proofs live in ProofsShow.v. *)
From Verif Require Import C05.Model.
Open Scope N_scope.

(* what a data node does with the request *)
Inductive nbeh := NServe | NError (* error reply *) | NDown (* connection refused *).

(* the answer of node n: the items of the shards (of the request) that n holds *)
Definition node_answer (data : N -> list N) (shards : list shard) (n : N) : list N :=
  flat_map (fun s => if owned_by s n then data (sid s) else []) shards.

(* ExecuteQuery: fn on the coordinating node, rfn(nodeID) on every other node of
   MetaClient.DataNodes(); the results of the calls that returned no error, and whether
   g.Wait() reports an error *)
Definition exec_nodes (local : N) (nodes : list N) : list N :=
  local :: filter (fun n => negb (N.eqb n local)) nodes.

Definition answers (beh : N -> nbeh) (n : N) : bool :=
  match beh n with NServe => true | _ => false end.

Definition exec_query (local : N) (nodes : list N) (beh : N -> nbeh) (ans : N -> list N)
  : list (list N) * bool :=
  let ns := exec_nodes local nodes in
  (map ans (filter (answers beh) ns), negb (forallb (answers beh) ns)).

(* sorted set union (bytesutil.SortDedup / the map-of-sets + sort.Sort of TagKeys, TagValues) *)
Fixpoint sinsert (x : N) (l : list N) : list N :=
  match l with
  | [] => [x]
  | y :: t => if x <? y then x :: l else if x =? y then l else y :: sinsert x t
  end.
Definition sset (l : list N) : list N := fold_right sinsert [] l.

(* ClusterTSDBStore.X: (listing, error) - the error of ExecuteQuery is discarded *)
Definition show_fanout (local : N) (nodes : list N) (beh : N -> nbeh) (data : N -> list N)
           (shards : list shard) : list N * bool :=
  let '(rs, _) := exec_query local nodes beh (node_answer data shards) in
  (sset (concat rs), false).

(* ---------- spec ---------- *)

(* the listing of a single node holding all the shards *)
Definition show_reference (data : N -> list N) (shards : list shard) : list N :=
  sset (flat_map (fun s => data (sid s)) shards).

Fixpoint show_eqb (a b : list N) : bool :=
  match a, b with
  | [], [] => true
  | x :: a', y :: b' => N.eqb x y && show_eqb a' b'
  | _, _ => false
  end.

(* the complete listing, or an error *)
Definition show_ok (ref : list N) (r : list N * bool) : bool := snd r || show_eqb (fst r) ref.

(* every shard has an owner among the asked nodes that answers *)
Definition covered (local : N) (nodes : list N) (beh : N -> nbeh) (shards : list shard) : bool :=
  forallb (fun s => existsb (fun n => answers beh n && owned_by s n) (exec_nodes local nodes)) shards.
