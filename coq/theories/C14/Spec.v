(* C14/Spec.v — the abstract specification: a database is a finite set of
   (shard, series) pairs; every listing a store reports is a projection of that set,
   optionally filtered by a tag predicate.  Regular-expression matching is an oracle
   [rx pattern string] shared by specification, models and implementation (the harness
   evaluates Go's regexp on every (pattern, string) pair that occurs and passes the table).

   Lists are used as finite sets: listings are compared up to membership
   (the implementation returns them sorted and duplicate-free). *)
From Coq Require Export List NArith Bool Arith Lia.
Export ListNotations.

(* ---------- strings, series ---------- *)

Definition str := list N.
Definition tags := list (str * str).
Definition series := (str * tags)%type.      (* measurement name, tag list *)
Definition row := list str.                   (* one line of a listing *)

Fixpoint str_eqb (a b : str) : bool :=
  match a, b with
  | [], [] => true
  | x :: a', y :: b' => N.eqb x y && str_eqb a' b'
  | _, _ => false
  end.

Fixpoint tags_eqb (a b : tags) : bool :=
  match a, b with
  | [], [] => true
  | (k, v) :: a', (k', v') :: b' => str_eqb k k' && str_eqb v v' && tags_eqb a' b'
  | _, _ => false
  end.

Definition series_eqb (a b : series) : bool := str_eqb (fst a) (fst b) && tags_eqb (snd a) (snd b).

Fixpoint row_eqb (a b : row) : bool :=
  match a, b with
  | [], [] => true
  | x :: a', y :: b' => str_eqb x y && row_eqb a' b'
  | _, _ => false
  end.

Definition is_nil {A} (l : list A) : bool := match l with [] => true | _ => false end.

(* value of tag [k] in a series; the empty string when the series has no such tag *)
Fixpoint tagval (t : tags) (k : str) : str :=
  match t with
  | [] => []
  | (k', v) :: t' => if str_eqb k' k then v else tagval t' k
  end.

Definition has_key (s : series) (k : str) : bool := negb (is_nil (tagval (snd s) k)).

(* well-formed series: no empty tag value, no tag key twice (models.Tags invariant) *)
Fixpoint keys_distinct (t : tags) : bool :=
  match t with
  | [] => true
  | (k, _) :: t' => negb (existsb (fun kv => str_eqb (fst kv) k) t') && keys_distinct t'
  end.
Definition wf_series (s : series) : bool :=
  forallb (fun kv => negb (is_nil (snd kv))) (snd s) && keys_distinct (snd s).

(* ---------- finite sets as lists ---------- *)

Section ListSet.
  Context {A : Type} (eqb : A -> A -> bool).
  Definition memb (x : A) (l : list A) : bool := existsb (eqb x) l.
  Definition sadd (x : A) (l : list A) : list A := if memb x l then l else x :: l.
  Definition sremove (x : A) (l : list A) : list A := filter (fun y => negb (eqb x y)) l.
  Definition sunion (a b : list A) : list A := fold_right sadd b a.
  Definition sinter (a b : list A) : list A := filter (fun x => memb x b) a.
  Definition sdiff (a b : list A) : list A := filter (fun x => negb (memb x b)) a.
  Fixpoint dedup (l : list A) : list A :=
    match l with
    | [] => []
    | x :: l' => sadd x (dedup l')
    end.
  Definition subsetb (a b : list A) : bool := forallb (fun x => memb x b) a.
  Fixpoint nodupb (l : list A) : bool :=
    match l with
    | [] => true
    | x :: l' => negb (memb x l') && nodupb l'
    end.
  (* equality of a reported listing [obs] with an expected set [exp] *)
  Definition set_eqb (obs exp : list A) : bool := nodupb obs && subsetb obs exp && subsetb exp obs.
End ListSet.

(* ---------- predicates ---------- *)

Inductive pred :=
| PEq (k v : str)       (* "k" = 'v'   (v may be empty: series without the tag) *)
| PNeq (k v : str)      (* "k" != 'v' *)
| PRe (k p : str)       (* "k" =~ /p/ *)
| PNre (k p : str)      (* "k" !~ /p/ *)
| PAnd (a b : pred)
| POr (a b : pred).

Section WithRx.
  Variable rx : str -> str -> bool.     (* regexp oracle: pattern, subject *)

  (* a predicate holds of a series; a missing tag reads as the empty string *)
  Fixpoint eval_pred (p : pred) (s : series) : bool :=
    match p with
    | PEq k v => str_eqb (tagval (snd s) k) v
    | PNeq k v => negb (str_eqb (tagval (snd s) k) v)
    | PRe k pat => rx pat (tagval (snd s) k)
    | PNre k pat => negb (rx pat (tagval (snd s) k))
    | PAnd a b => eval_pred a s && eval_pred b s
    | POr a b => eval_pred a s || eval_pred b s
    end.

  Definition eval_opt (c : option pred) (s : series) : bool :=
    match c with None => true | Some p => eval_pred p s end.

  (* ---------- abstract state and histories ---------- *)

  (* the set of (shard, series) pairs that have data; shards are numbered 1..n *)
  Definition sstate := list (nat * series).

  Definition pair_eqb (a b : nat * series) : bool := Nat.eqb (fst a) (fst b) && series_eqb (snd a) (snd b).

  Inductive op :=
  | OWrite (sh : nat) (ss : list series)                              (* points for these series arrive in shard sh *)
  | ODelete (shs : list nat) (from : list str) (c : option pred)     (* DELETE / DROP SERIES: all points of the matching
                                                                         series of the listed shards (empty FROM = all measurements) *)
  | ODropM (m : str)                                                  (* DROP MEASUREMENT, all shards *)
  | ODropShard (sh : nat)                                             (* the shard is deleted (retention) and created again, empty *)
  | OCompactLog (sh : nat)                                            (* TSI: active log file -> level-1 index file *)
  | OCompactLevel (sh lvl : nat)                                      (* TSI: merge the files of a level into the next level *)
  | OSfCompact                                                        (* series-file index compaction *)
  | OSnapshot (sh : nat)                                              (* engine cache -> TSM file (no effect on the set) *)
  | OSfRoll                                                           (* series file: the active segment is closed, a new one begun *)
  | OReopen.                                                          (* close and reopen the store *)

  Definition valid_shard (n sh : nat) : bool := (1 <=? sh) && (sh <=? n).

  Definition in_from (from : list str) (m : str) : bool := is_nil from || memb str_eqb m from.

  Definition apply_op (n : nat) (st : sstate) (o : op) : sstate :=
    match o with
    | OWrite sh ss =>
        if valid_shard n sh then fold_left (fun st s => sadd pair_eqb (sh, s) st) ss st else st
    | ODelete shs from c =>
        filter (fun p => negb (memb Nat.eqb (fst p) shs && in_from from (fst (snd p)) && eval_opt c (snd p))) st
    | ODropM m => filter (fun p => negb (str_eqb (fst (snd p)) m)) st
    | ODropShard sh => filter (fun p => negb (Nat.eqb (fst p) sh)) st
    | _ => st
    end.

  Definition run_spec (n : nat) (ops : list op) : sstate := fold_left (apply_op n) ops [].

  (* ---------- projections ---------- *)

  Definition shard_set (st : sstate) (sh : nat) : list series :=
    dedup series_eqb (map snd (filter (fun p => Nat.eqb (fst p) sh) st)).
  Definition db_set (st : sstate) : list series := dedup series_eqb (map snd st).

  Definition measurements (U : list series) : list str := dedup str_eqb (map fst U).
  Definition series_of (U : list series) (m : str) (c : option pred) : list series :=
    filter (fun s => str_eqb (fst s) m && eval_opt c s) U.

  (* SHOW MEASUREMENTS WHERE: a comparison selects the measurements that have the tag key
     and among whose values for it one matches (=, =~) / none matches (!=, !~);
     AND / OR intersect / unite the selected names. *)
  Definition meas_has_key (U : list series) (m k : str) : bool :=
    existsb (fun s => str_eqb (fst s) m && has_key s k) U.
  Definition meas_val_match (U : list series) (m k : str) (f : str -> bool) : bool :=
    existsb (fun s => str_eqb (fst s) m && has_key s k && f (tagval (snd s) k)) U.
  Definition names_leaf (U : list series) (k : str) (f : str -> bool) (positive : bool) : list str :=
    filter (fun m => meas_has_key U m k && Bool.eqb (meas_val_match U m k f) positive) (measurements U).
  Fixpoint names_pred (U : list series) (p : pred) : list str :=
    match p with
    | PEq k v => names_leaf U k (fun x => str_eqb x v) true
    | PNeq k v => names_leaf U k (fun x => str_eqb x v) false
    | PRe k pat => names_leaf U k (rx pat) true
    | PNre k pat => names_leaf U k (rx pat) false
    | PAnd a b => sinter str_eqb (names_pred U a) (names_pred U b)
    | POr a b => sunion str_eqb (names_pred U a) (names_pred U b)
    end.

  Definition series_row (s : series) : row := fst s :: flat_map (fun kv => [fst kv; snd kv]) (snd s).

  Inductive query :=
  | QNames (c : option pred)                       (* SHOW MEASUREMENTS [WHERE c] *)
  | QTagKeys (m : option str) (c : option pred)    (* SHOW TAG KEYS [FROM m] [WHERE c] *)
  | QTagVals (m k : str) (c : option pred)         (* SHOW TAG VALUES FROM m WITH KEY = k [WHERE c] *)
  | QSeries (m : str) (c : option pred)            (* series keys of m [WHERE c], whole database *)
  | QShSeries (sh : nat) (m : str) (c : option pred) (* the same for one shard *)
  | QConv (sh bsz : nat) (small : bool) (m : str) (c : option pred)
                                                   (* the same, answered by a TSI index built offline from the shard's data
                                                      (influx_inspect buildtsi: batches of bsz series, log buffer of bsz entries,
                                                      small = the log file is compacted after every batch) and then opened *)
  | QCard                                          (* exact series cardinality: database, then each shard *)
  | QSfile.                                        (* keys of the live ids of the series file *)

  Inductive answer := ARows (rows : list row) | ANums (ns : list N) | AErr.

  Definition name_sel (m : option str) (s : series) : bool :=
    match m with None => true | Some m => str_eqb (fst s) m end.

  Definition spec_answer (n : nat) (st : sstate) (q : query) : answer :=
    let U := db_set st in
    match q with
    | QNames None => ARows (map (fun m => [m]) (measurements U))
    | QNames (Some p) => ARows (map (fun m => [m]) (names_pred U p))
    | QTagKeys m c =>
        ARows (dedup row_eqb (flat_map (fun s => map (fun kv => [fst s; fst kv]) (snd s))
                                       (filter (fun s => name_sel m s && eval_opt c s) U)))
    | QTagVals m k c =>
        ARows (dedup row_eqb (flat_map (fun s => if has_key s k then [[m; k; tagval (snd s) k]] else [])
                                       (series_of U m c)))
    | QSeries m c => ARows (map series_row (series_of U m c))
    | QShSeries sh m c => ARows (map series_row (series_of (shard_set st sh) m c))
    | QConv sh _ _ m c => ARows (map series_row (series_of (shard_set st sh) m c))
    | QCard => ANums (N.of_nat (length U) :: map (fun sh => N.of_nat (length (shard_set st sh))) (seq 1 n))
    | QSfile => ARows (map series_row U)
    end.

  (* equality of an observed answer with the specified one (sets of rows) *)
  Fixpoint nlist_eqb (a b : list N) : bool :=
    match a, b with
    | [], [] => true
    | x :: a', y :: b' => N.eqb x y && nlist_eqb a' b'
    | _, _ => false
    end.
  Definition answer_eqb (obs exp : answer) : bool :=
    match obs, exp with
    | ARows a, ARows b => set_eqb row_eqb a b
    | ANums a, ANums b => nlist_eqb a b
    | _, _ => false
    end.

  (* inputs the harness may produce: well-formed series only *)
  Definition wf_op (o : op) : bool :=
    match o with
    | OWrite _ ss => forallb wf_series ss
    | _ => true
    end.
  Definition wf_ops (ops : list op) : bool := forallb wf_op ops.
  (* a per-shard query names an existing shard *)
  Definition wf_query (n : nat) (q : query) : bool :=
    match q with
    | QShSeries sh _ _ => valid_shard n sh
    | QConv sh bsz _ _ _ => valid_shard n sh && (1 <=? bsz)
    | _ => true
    end.
End WithRx.

(* two answers are the same listing: same rows up to order and repetition / same numbers *)
Definition answer_equiv (a b : answer) : Prop :=
  match a, b with
  | ARows x, ARows y => forall r, In r x <-> In r y
  | ANums x, ANums y => x = y
  | _, _ => False
  end.
