(* C14/ProofsSfile.v — the series file: invariant, and what create / delete / compact / reopen
   do to the three questions the indexes ask (key of an id, is an id deleted, id of a key). *)
From Verif Require Import C14.Spec C14.Model C14.ProofsBase.

Lemma assoc_id_In {B} i (b : B) l : assoc_id i l = Some b -> In (i, b) l.
Proof.
  induction l as [|[j c] l IH]; cbn; [discriminate|].
  destruct (N.eqb i j) eqn:E; [apply N.eqb_eq in E; subst; intros H; inversion H; auto|auto].
Qed.

Lemma assoc_id_None {B} i (l : list (id * B)) : assoc_id i l = None <-> ~ In i (map fst l).
Proof.
  induction l as [|[j c] l IH]; cbn; [tauto|].
  destruct (N.eqb i j) eqn:E.
  - apply N.eqb_eq in E; subst. split; [discriminate|intros H; exfalso; auto].
  - apply N.eqb_neq in E. rewrite IH. split; [intros H [H'|H']; congruence|tauto].
Qed.

Lemma assoc_id_NoDup {B} i (b : B) l : NoDup (map fst l) -> In (i, b) l -> assoc_id i l = Some b.
Proof.
  induction l as [|[j c] l IH]; cbn; [intros _ []|].
  intros Hnd [H|H]; inversion Hnd; subst.
  - inversion H; subst. rewrite N.eqb_refl. reflexivity.
  - destruct (N.eqb i j) eqn:E; [|auto].
    apply N.eqb_eq in E; subst. exfalso. apply H2. apply in_map_iff. exists (j, b). auto.
Qed.

Lemma assoc_id_app {B} i (a b : list (id * B)) :
  assoc_id i (a ++ b) = match assoc_id i a with Some x => Some x | None => assoc_id i b end.
Proof.
  induction a as [|[j c] a IH]; cbn; [reflexivity|]. destruct (N.eqb i j); [reflexivity|exact IH].
Qed.

(* all (id, key) pairs the file can still resolve, newest first *)
Definition sf_all (sf : sfile) : list (id * series) := sf_ins sf ++ sf_disk sf.

Lemma sf_key_all sf i : sf_key sf i = assoc_id i (sf_all sf).
Proof. unfold sf_key, sf_all. rewrite assoc_id_app. destruct (assoc_id i (sf_ins sf)); reflexivity. Qed.

(* first id recorded for key s *)
Lemma find_key_app s a b :
  find_key s (a ++ b) = match find_key s a with Some i => Some i | None => find_key s b end.
Proof.
  unfold find_key. induction a as [|p a IH]; cbn; [reflexivity|].
  destruct (series_eqb (snd p) s); [reflexivity|exact IH].
Qed.

Lemma find_key_Some s l i : find_key s l = Some i -> In (i, s) l.
Proof.
  unfold find_key. destruct (find (fun p => series_eqb (snd p) s) l) as [p|] eqn:E; [|discriminate].
  intros H; inversion H; subst. apply find_some in E. destruct E as [Hin E]. apply series_eqb_eq in E.
  destruct p as [j t]; cbn in *; subst. exact Hin.
Qed.

Lemma find_key_None s l : find_key s l = None <-> forall i, ~ In (i, s) l.
Proof.
  unfold find_key. destruct (find (fun p => series_eqb (snd p) s) l) as [p|] eqn:E.
  - split; [discriminate|]. intros H. apply find_some in E. destruct E as [Hin E]. apply series_eqb_eq in E.
    destruct p as [j t]; cbn in *; subst. exfalso. eapply H; eauto.
  - split; [|reflexivity]. intros _ i Hin. eapply find_none in E; [|exact Hin]. cbn in E.
    rewrite series_eqb_refl in E. discriminate.
Qed.

Record sf_inv (sf : sfile) : Prop := mkSfInv {
  si_replay : sf_replay (sf_log sf) = (sf_ins sf, sf_tomb sf);
  si_nodup : NoDup (map fst (sf_all sf));
  si_bound : forall i s, In (i, s) (sf_all sf) -> (i < sf_next sf)%N;
  si_tbound : forall i, In i (sf_tomb sf) -> (i < sf_next sf)%N;
  (* per key, only the newest id recorded for it can be undeleted *)
  si_first : forall i s, In (i, s) (sf_all sf) -> sf_deleted sf i = false -> find_key s (sf_all sf) = Some i;
  (* the segment files determine the next id: what openSegments recovers is what is in memory *)
  si_segs : seg_recover (sf_segs sf) = sf_next sf;
  si_segb : forall h, In h (sf_segs sf) -> (h < sf_next sf)%N
}.

Lemma sf_inv_empty : sf_inv sf_empty.
Proof.
  constructor; cbn; try (intros; tauto); try reflexivity; [constructor|].
  intros h [<-|[]]. lia.
Qed.

Lemma seg_recover_pos segs : (1 <= seg_recover segs)%N.
Proof.
  induction segs as [|h segs IH]; cbn [seg_recover]; [lia|].
  destruct (N.leb_spec 1 h); lia.
Qed.

(* after an insert entry for an id above every id of the segment files, numbering continues after it *)
Lemma seg_recover_note i segs :
  (1 <= i)%N -> (forall h, In h segs -> (h < i)%N) ->
  seg_recover (seg_note i segs) = (i + 1)%N /\ (forall h, In h (seg_note i segs) -> (h < i + 1)%N).
Proof.
  intros Hi Hb. destruct segs as [|h segs]; cbn [seg_note seg_recover].
  - destruct (N.leb_spec 1 i); [|lia]. split; [reflexivity|]. intros h [<-|[]]. lia.
  - assert (Hh : (h < i)%N) by (apply Hb; left; reflexivity).
    replace (N.max h i) with i by lia. destruct (N.leb_spec 1 i); [|lia]. split; [reflexivity|].
    intros h' [<-|Hin]; [lia|]. assert (Hlt : (h' < i)%N) by (apply Hb; right; exact Hin). lia.
Qed.

Section Inv.
  Variable sf : sfile.
  Hypothesis I : sf_inv sf.

  Lemma sf_key_In i s : sf_key sf i = Some s <-> In (i, s) (sf_all sf).
  Proof.
    rewrite sf_key_all. split; [apply assoc_id_In|apply assoc_id_NoDup; apply (si_nodup sf I)].
  Qed.

  Lemma sf_key_bound i s : sf_key sf i = Some s -> (i < sf_next sf)%N.
  Proof. intros H. apply sf_key_In in H. eapply (si_bound sf I); eauto. Qed.

  Lemma sf_next_fresh : sf_key sf (sf_next sf) = None.
  Proof.
    destruct (sf_key sf (sf_next sf)) eqn:E; [|reflexivity]. apply sf_key_bound in E. lia.
  Qed.

  (* the id of a key: exactly the undeleted id recorded for it, if any *)
  Lemma sf_find_Some s i : sf_find sf s = Some i <-> (sf_key sf i = Some s /\ sf_deleted sf i = false).
  Proof.
    assert (Hall : forall j, find_key s (sf_all sf) = Some j -> sf_key sf j = Some s).
    { intros j Hj. apply sf_key_In. apply find_key_Some. exact Hj. }
    unfold sf_find. pose proof (find_key_app s (sf_ins sf) (sf_disk sf)) as Happ. fold (sf_all sf) in Happ.
    split.
    - destruct (find_key s (sf_ins sf)) as [j|] eqn:E1.
      + destruct (sf_deleted sf j) eqn:Ed.
        * destruct (find_key s (sf_disk sf)) as [j'|] eqn:E2; [|discriminate].
          destruct (sf_deleted sf j') eqn:Ed'; [discriminate|]. intros H; inversion H; subst j'.
          (* j' undeleted in disk, but the first id for s is j (deleted): contradiction *)
          exfalso. assert (Hin : In (i, s) (sf_all sf)) by (unfold sf_all; apply in_or_app; right; apply find_key_Some; exact E2).
          pose proof (si_first sf I i s Hin Ed') as Hf. rewrite Happ in Hf. inversion Hf; subst. congruence.
        * intros H; inversion H; subst. split; [apply Hall; rewrite Happ; reflexivity|exact Ed].
      + destruct (find_key s (sf_disk sf)) as [j'|] eqn:E2; [|discriminate].
        destruct (sf_deleted sf j') eqn:Ed'; [discriminate|]. intros H; inversion H; subst.
        split; [apply Hall; rewrite Happ; reflexivity|exact Ed'].
    - intros [Hk Hd]. apply sf_key_In in Hk. pose proof (si_first sf I i s Hk Hd) as Hf. rewrite Happ in Hf.
      destruct (find_key s (sf_ins sf)) as [j|] eqn:E1.
      + inversion Hf; subst. rewrite Hd. reflexivity.
      + rewrite Hf, Hd. reflexivity.
  Qed.

  Lemma sf_find_None s : sf_find sf s = None <-> forall i, sf_key sf i = Some s -> sf_deleted sf i = true.
  Proof.
    split.
    - intros H i Hk. destruct (sf_deleted sf i) eqn:E; [reflexivity|].
      assert (sf_find sf s = Some i) by (apply sf_find_Some; auto). congruence.
    - intros H. destruct (sf_find sf s) as [i|] eqn:E; [|reflexivity].
      apply sf_find_Some in E. destruct E as [Hk Hd]. rewrite (H i Hk) in Hd. discriminate.
  Qed.

  (* at most one undeleted id per key *)
  Lemma sf_live_unique i j s :
    sf_key sf i = Some s -> sf_deleted sf i = false -> sf_key sf j = Some s -> sf_deleted sf j = false -> i = j.
  Proof.
    intros Hi Hdi Hj Hdj.
    assert (sf_find sf s = Some i) by (apply sf_find_Some; auto).
    assert (sf_find sf s = Some j) by (apply sf_find_Some; auto). congruence.
  Qed.

  Lemma sf_deleted_unknown i : sf_key sf i = None -> sf_deleted sf i = true.
  Proof. intros H. unfold sf_deleted. rewrite H. cbn. apply orb_true_r. Qed.

  (* ----- create ----- *)

  Lemma sf_create_spec s :
    let (sf', i) := sf_create sf s in
    sf_inv sf' /\ sf_key sf' i = Some s /\ sf_deleted sf' i = false /\
    (sf_next sf <= sf_next sf')%N /\
    (forall j, j <> i -> sf_key sf' j = sf_key sf j /\ sf_deleted sf' j = sf_deleted sf j) /\
    ((sf' = sf /\ sf_find sf s = Some i) \/ (sf_find sf s = None /\ i = sf_next sf /\ sf_key sf i = None)).
  Proof.
    unfold sf_create. destruct (sf_find sf s) as [i|] eqn:E.
    - pose proof E as E0. apply sf_find_Some in E. destruct E as [Hk Hd].
      split; [exact I|]. split; [exact Hk|]. split; [exact Hd|]. split; [lia|]. split; [intros j _; split; reflexivity|].
      left; split; reflexivity.
    - set (i := sf_next sf). pose proof sf_next_fresh as Hfresh. fold i in Hfresh.
      set (sf' := mkSf _ _ _ _ _ _).
      assert (Hipos : (1 <= i)%N) by (unfold i; rewrite <- (si_segs sf I); apply seg_recover_pos).
      destruct (seg_recover_note i (sf_segs sf) Hipos (si_segb sf I)) as [Hsr Hsb].
      assert (Hkey : forall j, sf_key sf' j = if N.eqb j i then Some s else sf_key sf j).
      { intros j. unfold sf_key, sf'. cbn. destruct (N.eqb j i); reflexivity. }
      assert (Hdel : forall j, j <> i -> sf_deleted sf' j = sf_deleted sf j).
      { intros j Hj. unfold sf_deleted. rewrite Hkey. apply N.eqb_neq in Hj. rewrite Hj. reflexivity. }
      assert (Hnt : ~ In i (sf_tomb sf)) by (intros H; apply (si_tbound sf I) in H; unfold i in H; lia).
      assert (Hdi : sf_deleted sf' i = false).
      { unfold sf_deleted. rewrite Hkey, N.eqb_refl. cbn. rewrite orb_false_r. apply (memb_false N.eqb N.eqb_eq). exact Hnt. }
      split; [|split; [rewrite Hkey, N.eqb_refl; reflexivity|split; [exact Hdi|split; [cbn; lia|split; [|right; repeat split; auto]]]]].
      + constructor.
        * cbn. rewrite (si_replay sf I). reflexivity.
        * unfold sf_all; cbn. constructor; [|apply (si_nodup sf I)].
          intros Hin. apply in_map_iff in Hin. destruct Hin as [[j t] [Ej Hin]]. cbn in Ej; subst j.
          apply (si_bound sf I) in Hin. unfold i in Hin. lia.
        * unfold sf_all; cbn. intros j t [H|H]; [inversion H; subst; unfold i; lia|].
          apply (si_bound sf I) in H. lia.
        * cbn. intros j H. apply (si_tbound sf I) in H. lia.
        * unfold sf_all; cbn [sf_ins sf_disk sf']. intros j t [H|H] Hd.
          -- inversion H; subst. unfold find_key; cbn. rewrite series_eqb_refl. reflexivity.
          -- fold (sf_all sf) in H. assert (Hji : j <> i) by (intros ->; apply (si_bound sf I) in H; unfold i in H; lia).
             rewrite (Hdel j Hji) in Hd. pose proof (si_first sf I j t H Hd) as Hf.
             unfold find_key; cbn. destruct (series_eqb s t) eqn:Est.
             ++ apply series_eqb_eq in Est; subst t. exfalso.
                rewrite (proj1 (sf_find_None s) E j) in Hd; [discriminate|]. apply sf_key_In. exact H.
             ++ fold (sf_all sf). exact Hf.
        * cbn [sf_segs sf_next sf']. exact Hsr.
        * cbn [sf_segs sf_next sf']. exact Hsb.
      + intros j Hj. split; [rewrite Hkey; apply N.eqb_neq in Hj; rewrite Hj; reflexivity|apply Hdel; exact Hj].
  Qed.

  (* ----- delete ----- *)

  Lemma sf_delete_spec i :
    let sf' := sf_delete sf i in
    sf_inv sf' /\ sf_deleted sf' i = true /\ sf_next sf' = sf_next sf /\
    (forall j, sf_key sf' j = sf_key sf j) /\
    (forall j, j <> i -> sf_deleted sf' j = sf_deleted sf j).
  Proof.
    unfold sf_delete. destruct (sf_deleted sf i) eqn:Ed; cbv zeta; [split; [exact I|]; repeat split; auto|].
    set (sf' := mkSf _ _ _ _ _ _).
    assert (Hkey : forall j, sf_key sf' j = sf_key sf j) by reflexivity.
    assert (Hdel : forall j, sf_deleted sf' j = N.eqb j i || sf_deleted sf j).
    { intros j. unfold sf_deleted. rewrite Hkey. unfold sf'; cbn [sf_tomb memb existsb]. rewrite (N.eqb_sym j i). destruct (N.eqb i j); reflexivity. }
    assert (Hb : (i < sf_next sf)%N).
    { unfold sf_deleted in Ed. apply orb_false_iff in Ed. destruct Ed as [_ Ed]. apply negb_false_iff in Ed.
      destruct (sf_key sf i) eqn:Ek; [eapply sf_key_bound; eauto|discriminate]. }
    split; [|split; [rewrite Hdel, N.eqb_refl; reflexivity|split; [reflexivity|split; [exact Hkey|]]]].
    - constructor.
      + cbn. rewrite (si_replay sf I). reflexivity.
      + apply (si_nodup sf I).
      + apply (si_bound sf I).
      + cbn. intros j [<-|H]; [exact Hb|apply (si_tbound sf I); exact H].
      + intros j t Hin Hd. rewrite Hdel in Hd. apply orb_false_iff in Hd. destruct Hd as [_ Hd].
        apply (si_first sf I); assumption.
      + apply (si_segs sf I).
      + apply (si_segb sf I).
    - intros j Hj. rewrite Hdel. apply N.eqb_neq in Hj. rewrite Hj. reflexivity.
  Qed.

  (* ----- a new segment file: nothing observable changes, the next id is still recoverable ----- *)

  Lemma sf_roll_spec :
    sf_inv (sf_roll sf) /\ sf_next (sf_roll sf) = sf_next sf /\
    (forall i, sf_key (sf_roll sf) i = sf_key sf i) /\ (forall i, sf_deleted (sf_roll sf) i = sf_deleted sf i) /\
    (forall s, sf_find (sf_roll sf) s = sf_find sf s).
  Proof.
    split; [|repeat split; reflexivity].
    destruct I as [H1 H2 H3 H4 H5 H6 H7]. constructor; try assumption.
    cbn [sf_roll sf_segs sf_next]. intros h [<-|H]; [|apply H7; exact H].
    rewrite <- H6. pose proof (seg_recover_pos (sf_segs sf)). lia.
  Qed.

  (* ----- reopen: nothing observable changes, the next id is recovered from the segment files ----- *)

  Lemma sf_reopen_id : sf_reopen sf = sf.
  Proof.
    unfold sf_reopen, sf_index_recover. rewrite (si_replay sf I). cbn [sf_disk sf_log sf_ins sf_tomb].
    rewrite (si_segs sf I). destruct sf; reflexivity.
  Qed.
End Inv.

(* ----- compaction ----- *)

Lemma leading_tombs_replay log :
  fst (sf_replay (leading_tombs log)) = [] /\
  (forall i, In i (snd (sf_replay (leading_tombs log))) -> In i (snd (sf_replay log))).
Proof.
  induction log as [|e log IH]; [cbn; auto|]. destruct e as [i s|i].
  - cbn [leading_tombs sf_replay fst snd]. split; [reflexivity|intros j []].
  - cbn [leading_tombs sf_replay]. destruct IH as [IH1 IH2].
    destruct (sf_replay (leading_tombs log)) as [ins tomb], (sf_replay log) as [ins' tomb']; cbn [fst snd] in *.
    split; [exact IH1|]. intros j [<-|H]; [left; reflexivity|right; apply IH2; exact H].
Qed.

Lemma filter_fst_NoDup {B} (f : id * B -> bool) l : NoDup (map fst l) -> NoDup (map fst (filter f l)).
Proof.
  induction l as [|p l IH]; cbn; [auto|]. intros H; inversion H; subst.
  destruct (f p); cbn; [constructor; [|auto]|auto].
  intros Hin. apply H2. apply in_map_iff in Hin. destruct Hin as [q [Eq Hq]]. apply filter_In in Hq.
  apply in_map_iff. exists q. tauto.
Qed.

Lemma find_key_filter s (f : id * series -> bool) l i :
  find_key s l = Some i -> f (i, s) = true -> find_key s (filter f l) = Some i.
Proof.
  unfold find_key. induction l as [|[j t] l IH]; cbn; [discriminate|].
  destruct (series_eqb t s) eqn:E.
  - apply series_eqb_eq in E; subst t. intros H; inversion H; subst j. intros Hf. rewrite Hf. cbn.
    rewrite series_eqb_refl. reflexivity.
  - intros H Hf. destruct (f (j, t)); cbn; [rewrite E|]; auto.
Qed.

Lemma sf_compact_spec sf :
  sf_inv sf ->
  let sf' := sf_compact sf in
  sf_inv sf' /\ sf_next sf' = sf_next sf /\
  (forall i, sf_deleted sf' i = sf_deleted sf i) /\
  (forall i, sf_key sf' i = if sf_deleted sf i then None else sf_key sf i).
Proof.
  intros I. unfold sf_compact, sf_index_recover. cbn [sf_log sf_disk sf_next sf_segs].
  destruct (leading_tombs_replay (sf_log sf)) as [Hl1 Hl2].
  destruct (sf_replay (leading_tombs (sf_log sf))) as [ins tomb] eqn:Er. cbn in Hl1, Hl2. subst ins.
  rewrite (si_replay sf I) in Hl2. cbn in Hl2.
  set (disk := filter (fun p => negb (sf_deleted sf (fst p))) (sf_ins sf ++ sf_disk sf)).
  set (sf' := mkSf disk _ [] tomb _ _).
  assert (Hkey : forall i, sf_key sf' i = if sf_deleted sf i then None else sf_key sf i).
  { intros i. unfold sf_key at 1. cbn [sf_ins sf_disk sf' assoc_id].
    destruct (assoc_id i disk) as [s|] eqn:E.
    - apply assoc_id_In in E. apply filter_In in E. destruct E as [Hin Hd]. cbn in Hd. apply negb_true_iff in Hd.
      rewrite Hd. symmetry. apply (sf_key_In sf I). exact Hin.
    - destruct (sf_deleted sf i) eqn:Ed; [reflexivity|]. symmetry.
      destruct (sf_key sf i) as [s|] eqn:Ek; [|reflexivity]. exfalso.
      apply (sf_key_In sf I) in Ek. apply assoc_id_None in E. apply E. apply in_map_iff.
      exists (i, s). split; [reflexivity|]. apply filter_In. split; [exact Ek|]. cbn. rewrite Ed. reflexivity. }
  assert (Hdel : forall i, sf_deleted sf' i = sf_deleted sf i).
  { intros i. unfold sf_deleted at 1. rewrite Hkey. cbn [sf_tomb sf'].
    destruct (sf_deleted sf i) eqn:Ed; [apply orb_true_r|].
    unfold sf_deleted in Ed. apply orb_false_iff in Ed. destruct Ed as [Et Ek]. rewrite Ek, orb_false_r.
    apply (memb_false N.eqb N.eqb_eq). intros Hin. apply Hl2 in Hin.
    apply (memb_false N.eqb N.eqb_eq) in Et. contradiction. }
  split; [|split; [reflexivity|split; [exact Hdel|exact Hkey]]].
  constructor.
  - cbn [sf_log sf_ins sf_tomb sf']. exact Er.
  - unfold sf_all. cbn [sf_ins sf_disk sf' app]. apply filter_fst_NoDup. apply (si_nodup sf I).
  - unfold sf_all. cbn [sf_ins sf_disk sf' app sf_next]. intros i s H. apply filter_In in H. destruct H as [H _].
    eapply (si_bound sf I); eauto.
  - cbn [sf_tomb sf' sf_next]. intros i H. apply Hl2 in H. apply (si_tbound sf I). exact H.
  - unfold sf_all. cbn [sf_ins sf_disk sf' app]. intros i s H Hd. rewrite Hdel in Hd.
    apply filter_In in H. destruct H as [H _]. pose proof (si_first sf I i s H Hd) as Hf.
    apply find_key_filter; [exact Hf|]. cbn. rewrite Hd. reflexivity.
  - cbn [sf_segs sf_next sf']. apply (si_segs sf I).
  - cbn [sf_segs sf_next sf']. apply (si_segb sf I).
Qed.
