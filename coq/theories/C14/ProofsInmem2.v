(* C14/ProofsInmem2.v — dropping series from the in-memory index: shard-local id set, global
   series / measurement removal, dirty marking and Rebuild. *)
From Verif Require Import C14.Spec C14.Model C14.ProofsBase C14.ProofsQuery C14.ProofsSfile
     C14.ProofsLsmA C14.ProofsLsmB C14.ProofsLsmD C14.ProofsLsmH C14.ProofsTs C14.ProofsInmem.

(* ShardIndex.DropSeriesList *)
Lemma ish_drop_sids ids : forall shd,
  NoDup (sh_sids shd) ->
  (forall j, In j (sh_sids (ish_drop shd ids)) <-> In j (sh_sids shd) /\ ~ In j (map fst ids)) /\ NoDup (sh_sids (ish_drop shd ids)).
Proof.
  unfold ish_drop. induction ids as [|[i k] ids IH]; intros shd Hnd; cbn [fold_left map fst].
  - split; [intros j; cbn; tauto|exact Hnd].
  - destruct (memb N.eqb i (sh_sids shd)) eqn:E.
    + set (shd1 := mkIsh _ _). assert (Hnd1 : NoDup (sh_sids shd1)) by (apply NoDup_filter; exact Hnd).
      destruct (IH shd1 Hnd1) as [H1 H2]. split; [|exact H2]. intros j. rewrite H1. unfold shd1. cbn [sh_sids].
      rewrite (In_sremove N.eqb N.eqb_eq). cbn [In]. split; [intros [[Ha Hb] Hc]; split; [exact Ha|intros [<-|H]; tauto]|].
      intros [Ha Hb]. ssplit; auto.
    + apply (memb_false N.eqb N.eqb_eq) in E. destruct (IH shd Hnd) as [H1 H2]. split; [|exact H2].
      intros j. rewrite H1. cbn [In]. split; [intros [Ha Hb]; split; [exact Ha|intros [<-|H]; tauto]|tauto].
Qed.

Section Drop.
  Variable sf : sfile.
  Hypothesis I : sf_inv sf.

  (* ShardIndex.DropMeasurementIfSeriesNotExist never finds an empty measurement: the global
     index drops a measurement together with its last series *)
  Lemma ix_drop_meas_noop L ix shd m : ix_ok sf L ix -> ix_drop_meas_if_empty ix shd m = ix.
  Proof.
    intros X. unfold ix_drop_meas_if_empty. destruct (Nat.ltb 0 (mcount_get m (sh_mcount shd))); [reflexivity|].
    destruct (memb str_eqb m (ix_mm ix)) eqn:Em; cbn [negb]; [|reflexivity].
    apply (memb_In str_eqb str_eqb_eq) in Em. apply (xo_mm _ _ _ X) in Em. destruct Em as [i [s [Hi [Hk Hm]]]].
    assert (Hin : In i (ix_mids ix m)) by (apply In_ix_mids; exists s; apply (xo_ms _ _ _ X); auto).
    destruct (ix_mids ix m); [destruct Hin|reflexivity].
  Qed.

  (* Index.DropSeriesGlobal after SeriesFile.DeleteSeriesID *)
  Lemma ix_drop_global_ok L ix i k L' :
    ix_ok sf L ix -> In i L -> sf_key sf i = Some k -> (forall j, In j L' <-> In j L /\ j <> i) ->
    ix_ok (sf_delete sf i) L' (ix_drop_series_global ix k).
  Proof.
    intros X Hi Hk HL'. pose proof X as [X1 X2 X3 X4 X5 X6 X7].
    destruct (sf_delete_spec sf I i) as [I' [Hdi [Hn [Hkey Hoth]]]]. cbv zeta in *. set (sf' := sf_delete sf i) in *.
    assert (Hf : ix_find ix k = Some i) by (apply (ix_find_Some sf I L ix X); auto).
    unfold ix_drop_series_global. rewrite Hf. destruct k as [m t]. cbn [fst].
    set (ix1 := mkIx _ _ _ _ _ _).
    assert (Huniq : forall j, In j L -> sf_key sf j = Some (m, t) -> j = i) by (intros j Hj Hkj; apply (live_unique sf I L ix X j i (m, t)); auto).
    assert (Y1 : forall s j, In (s, j) (ix_series ix1) <-> In j L' /\ sf_key sf' j = Some s).
    { intros s j. unfold ix1. cbn [ix_series]. rewrite filter_In, X1, HL', Hkey. cbn [fst]. rewrite negb_true_iff.
      split.
      - intros [[Hj Hkj] Hne]. ssplit; auto. intros ->. rewrite Hk in Hkj. inversion Hkj; subst. rewrite series_eqb_refl in Hne. discriminate.
      - intros [[Hj Hne] Hkj]. ssplit; auto. destruct (series_eqb s (m, t)) eqn:E; [|reflexivity].
        apply series_eqb_eq in E. subst. exfalso. apply Hne. apply Huniq; auto. }
    assert (Y3 : forall m' j s, In (m', (j, s)) (ix_ms ix1) <-> In j L' /\ sf_key sf' j = Some s /\ fst s = m').
    { intros m' j s. unfold ix1. cbn [ix_ms]. rewrite filter_In, X3, HL', Hkey. unfold imk_eqb. cbn [fst snd]. rewrite negb_true_iff, andb_false_iff.
      split.
      - intros [[Hj [Hkj Hm]] Hne]. ssplit; auto. intros ->. rewrite Hk in Hkj. inversion Hkj; subst. cbn in Hne.
        rewrite str_eqb_refl, N.eqb_refl in Hne. destruct Hne; discriminate.
      - intros [[Hj Hne] [Hkj Hm]]. ssplit; auto. right. apply N.eqb_neq. exact Hne. }
    assert (Ylive : forall j, In j L' -> exists s, sf_key sf' j = Some s /\ sf_deleted sf' j = false).
    { intros j Hj. apply HL' in Hj. destruct Hj as [Hj Hne]. destruct (X7 j Hj) as [s [H1 H2]]. exists s. rewrite Hkey, (Hoth j Hne). auto. }
    assert (Ydel : forall j, In j (i :: ix_del ix) -> sf_deleted sf' j = true /\ (j < sf_next sf')%N).
    { intros j [<-|Hj]; [split; [exact Hdi|rewrite Hn; eapply sf_key_bound; eauto]|].
      destruct (X5 j Hj) as [H1 H2]. rewrite Hn. split; [|exact H2].
      destruct (N.eq_dec j i) as [->|Hne]; [exact Hdi|rewrite (Hoth j Hne); exact H1]. }
    assert (Ymids : forall j, In j (ix_mids ix1 m) <-> exists s, In j L' /\ sf_key sf' j = Some s /\ fst s = m).
    { intros j. rewrite In_ix_mids. split.
      - intros [s H]. apply Y3 in H. exists s. tauto.
      - intros [s H]. exists s. apply Y3. tauto. }
    assert (Emm : ix_mm ix1 = ix_mm ix) by reflexivity.
    assert (Etv : ix_tv ix1 = ix_tv ix) by reflexivity.
    assert (Edirty : ix_dirty ix1 = sadd str_eqb m (ix_dirty ix)) by reflexivity.
    assert (Edel : ix_del ix1 = i :: ix_del ix) by reflexivity.
    assert (Hlive_m : forall m', (exists j s, In j L' /\ sf_key sf' j = Some s /\ fst s = m') <->
                                  (exists j s, In j L /\ sf_key sf j = Some s /\ fst s = m') /\ (m' = m -> exists j, In j (ix_mids ix1 m))).
    { intros m'. split.
      - intros [j [s [Hj [Hkj Hm]]]]. split.
        + exists j, s. rewrite <- Hkey. apply HL' in Hj. tauto.
        + intros ->. exists j. apply Ymids. eauto.
      - intros [[j [s [Hj [Hkj Hm]]]] Hex]. destruct (N.eq_dec j i) as [->|Hne].
        + rewrite Hk in Hkj. inversion Hkj; subst s. cbn in Hm. subst m'. destruct (Hex eq_refl) as [j' Hj'].
          apply Ymids in Hj'. destruct Hj' as [s' H]. exists j', s'. exact H.
        + exists j, s. rewrite Hkey. ssplit; auto. apply HL'. auto. }
    destruct (is_nil (ix_mids ix1 m)) eqn:En.
    - (* last series of the measurement: the measurement goes too *)
      apply is_nil_true in En. unfold ix_drop_measurement.
      assert (Hmm : memb str_eqb m (ix_mm ix1) = true).
      { apply (memb_In str_eqb str_eqb_eq). unfold ix1; cbn [ix_mm]. apply X2. exists i, (m, t). auto. }
      rewrite Hmm, En. clearbody ix1.
      assert (Hnone : forall j s, In j L' -> sf_key sf' j = Some s -> fst s <> m).
      { intros j s Hj Hkj Hm. assert (Hin : In j (ix_mids ix1 m)) by (apply Ymids; eauto). rewrite En in Hin. destruct Hin. }
      constructor; cbn [ix_series ix_mm ix_ms ix_tv ix_dirty ix_del].
      + intros s j. rewrite filter_In. cbn [memb existsb negb]. rewrite Y1. tauto.
      + intros m'. rewrite Emm, (In_sremove str_eqb str_eqb_eq), X2, Hlive_m, En. split.
        * intros [H Hne]. split; [exact H|]. intros ->. congruence.
        * intros [H Hex]. split; [exact H|]. intros ->. destruct (Hex eq_refl) as [j []].
      + intros m' j s. rewrite filter_In. rewrite Y3. cbn [fst]. rewrite negb_true_iff, str_eqb_neq.
        split; [tauto|]. intros [Hj [Hkj Hm]]. ssplit; auto. subst m'. eapply Hnone; eauto.
      + intros m' k v j Hnd. rewrite Edirty, (In_sremove str_eqb str_eqb_eq), (In_sadd str_eqb str_eqb_eq) in Hnd.
        rewrite Etv, filter_In. cbn [fst]. rewrite negb_true_iff, str_eqb_neq.
        destruct (list_eq_dec N.eq_dec m' m) as [->|Hne].
        * split; [tauto|]. intros [Hj [s [Hkj [Hm _]]]]. exfalso. eapply Hnone; eauto.
        * assert (Hnd0 : ~ In m' (ix_dirty ix)) by tauto. rewrite (X4 m' k v j Hnd0), HL', Hkey. split.
          -- intros [[Hj [s [Hkj R]]] _]. ssplit; auto; [|exists s; tauto]. intros ->. rewrite Hk in Hkj. inversion Hkj; subst. cbn in R. destruct R as [R _]. congruence.
          -- intros [[Hj _] [s [Hkj R]]]. ssplit; auto. exists s. tauto.
      + rewrite Edel. exact Ydel.
      + intros m' Hm'. rewrite Edirty in Hm'. apply (In_sremove str_eqb str_eqb_eq) in Hm'. destruct Hm' as [Hm' Hne].
        rewrite Emm. apply (In_sremove str_eqb str_eqb_eq). split; [|exact Hne]. apply (In_sadd str_eqb str_eqb_eq) in Hm'. destruct Hm' as [->|Hm']; [congruence|].
        apply X6. exact Hm'.
      + exact Ylive.
    - (* other series of the measurement remain: it waits for Rebuild *)
      apply is_nil_false in En. clearbody ix1. constructor.
      + exact Y1.
      + intros m'. rewrite Emm, X2. split.
        * intros H. apply Hlive_m. split; [exact H|]. intros _. exact En.
        * intros H. apply Hlive_m in H. tauto.
      + exact Y3.
      + intros m' k v j Hnd. rewrite Edirty, (In_sadd str_eqb str_eqb_eq) in Hnd. rewrite Etv.
        assert (Hne : m' <> m) by tauto. assert (Hnd0 : ~ In m' (ix_dirty ix)) by tauto.
        rewrite (X4 m' k v j Hnd0), HL', Hkey. split.
        * intros [Hj [s [Hkj R]]]. ssplit; auto; [|exists s; tauto]. intros ->. rewrite Hk in Hkj. inversion Hkj; subst. cbn in R. destruct R as [R _]. congruence.
        * intros [[Hj _] R]. tauto.
      + rewrite Edel. exact Ydel.
      + intros m' Hm'. rewrite Edirty in Hm'. rewrite Emm. apply (In_sadd str_eqb str_eqb_eq) in Hm'.
        destruct Hm' as [->|Hm']; [apply X2; exists i, (m, t); auto|apply X6; exact Hm'].
      + exact Ylive.
  Qed.
End Drop.

(* Index.Rebuild *)
Lemma ix_rebuild_ok sf L ix : ix_ok sf L ix -> ix_ok sf L (ix_rebuild ix) /\ ix_dirty (ix_rebuild ix) = [].
Proof.
  intros [X1 X2 X3 X4 X5 X6 X7]. split; [|reflexivity]. unfold ix_rebuild.
  assert (Hnd : forall m i s, In (m, (i, s)) (ix_ms ix) -> memb N.eqb i (ix_del ix) = false).
  { intros m i s H. apply X3 in H. destruct H as [Hi _]. apply (memb_false N.eqb N.eqb_eq). intros Hd.
    destruct (X5 i Hd) as [Hd1 _]. destruct (X7 i Hi) as [s' [_ Hd2]]. congruence. }
  assert (Yms : forall m i s, In (m, (i, s)) (filter (fun p => negb (memb str_eqb (fst p) (ix_dirty ix)) || negb (memb N.eqb (fst (snd p)) (ix_del ix))) (ix_ms ix)) <-> In (m, (i, s)) (ix_ms ix)).
  { intros m i s. rewrite filter_In. split; [tauto|]. intros H. split; [exact H|]. cbn [fst snd]. rewrite (Hnd m i s H). apply orb_true_r. }
  constructor; cbn [ix_series ix_mm ix_ms ix_tv ix_dirty ix_del]; auto.
  - intros m i s. rewrite Yms. apply X3.
  - intros m k v i _. rewrite in_app_iff, filter_In, (In_dedup mkvi_eqb mkvi_eqb_eq), in_flat_map. cbn [fst].
    destruct (memb str_eqb m (ix_dirty ix)) eqn:Ed.
    + (* rebuilt from the series that are left *)
      split.
      * intros [[_ H]|[[m' [j s]] [Hin Hx]]]; [discriminate|]. cbn [fst snd] in Hx.
        destruct (negb (memb str_eqb m' (ix_dirty ix)) || memb N.eqb j (ix_del ix)); [destruct Hx|].
        apply in_map_iff in Hx. destruct Hx as [[k' v'] [E Hkv]]. inversion E; subst. apply X3 in Hin.
        split; [tauto|]. exists s. tauto.
      * intros [Hi [s [Hk [Hm Hkv]]]]. right. exists (m, (i, s)). split; [apply X3; auto|]. cbn [fst snd].
        rewrite Ed. cbn [negb orb]. assert (Hin : In (m, (i, s)) (ix_ms ix)) by (apply X3; auto). rewrite (Hnd m i s Hin).
        apply in_map_iff. exists (k, v). auto.
    + apply (memb_false str_eqb str_eqb_eq) in Ed. rewrite (X4 m k v i Ed). split.
      * intros [[H _]|[[m' [j s]] [Hin Hx]]]; [exact H|]. cbn [fst snd] in Hx.
        destruct (memb str_eqb m' (ix_dirty ix)) eqn:Ed'; cbn [negb orb] in Hx; [|destruct Hx].
        destruct (memb N.eqb j (ix_del ix)); [destruct Hx|]. apply in_map_iff in Hx. destruct Hx as [[k' v'] [E _]]. inversion E; subst.
        apply (memb_In str_eqb str_eqb_eq) in Ed'. contradiction.
      * intros H. left. split; [exact H|reflexivity].
  - intros m [].
Qed.
