(* C14/ProofsLsmA.v — structural lemmas about TSI files as entry lists: what executing a log
   entry does to each list, the series-id-set algebra of compaction (buildSeriesIDSets) and of
   open (buildSeriesSet), the tag value series fold, merged files. *)
From Verif Require Import C14.Spec C14.Model C14.ProofsBase.

Ltac ssplit := repeat (match goal with |- _ /\ _ => split end).

(* ---------- ensure / add folds over a tag list ---------- *)

Lemma In_fold_sadd_vs m i (t : tags) acc x :
  In x (fold_right (fun kv acc => sadd mkvi_eqb (m, fst kv, snd kv, i) acc) acc t) <->
  In x acc \/ exists k v, In (k, v) t /\ x = (m, k, v, i).
Proof.
  induction t as [|[k v] t IH]; cbn [fold_right fst snd].
  - split; [auto|intros [H|[k [v [[] _]]]]; exact H].
  - rewrite (In_sadd mkvi_eqb mkvi_eqb_eq), IH. split.
    + intros [->|[H|[k' [v' [H1 H2]]]]]; [right; exists k, v; cbn; auto|auto|right; exists k', v'; cbn; auto].
    + intros [H|[k' [v' [[H1|H1] H2]]]]; [auto| |right; right; exists k', v'; auto].
      inversion H1; subst. auto.
Qed.

Lemma In_fold_sremove_vs m i (t : tags) acc x :
  In x (fold_right (fun kv acc => sremove mkvi_eqb (m, fst kv, snd kv, i) acc) acc t) <->
  In x acc /\ ~ (exists k v, In (k, v) t /\ x = (m, k, v, i)).
Proof.
  induction t as [|[k v] t IH]; cbn [fold_right fst snd].
  - split; [intros H; split; [exact H|intros [k [v [[] _]]]]|tauto].
  - rewrite (In_sremove mkvi_eqb mkvi_eqb_eq), IH. split.
    + intros [[H1 H2] H3]. split; [exact H1|]. intros [k' [v' [[H4|H4] H5]]].
      * inversion H4; subst. congruence.
      * apply H2. exists k', v'. auto.
    + intros [H1 H2]. ssplit; auto.
      * intros [k' [v' [H3 H4]]]. apply H2. exists k', v'. cbn; auto.
      * intros ->. apply H2. exists k, v. cbn; auto.
Qed.

(* flag_ensure over a tag list: existing flags are kept, missing entries appear with false *)
Lemma flag_get_fold_ensure_tk m (t : tags) acc key :
  flag_get mk_eqb key (fold_right (fun kv acc => flag_ensure mk_eqb (m, fst kv) acc) acc t) =
  match flag_get mk_eqb key acc with
  | Some b => Some b
  | None => if existsb (fun kv => mk_eqb key (m, fst kv)) t then Some false else None
  end.
Proof.
  induction t as [|[k v] t IH]; cbn [fold_right fst snd existsb].
  - destruct (flag_get mk_eqb key acc); reflexivity.
  - rewrite (flag_get_ensure mk_eqb mk_eqb_eq), IH.
    destruct (flag_get mk_eqb key acc); [reflexivity|].
    destruct (existsb (fun kv => mk_eqb key (m, fst kv)) t); [rewrite orb_true_r; reflexivity|].
    rewrite orb_false_r. reflexivity.
Qed.

Lemma flag_get_fold_ensure_tv m (t : tags) acc key :
  flag_get mkv_eqb key (fold_right (fun kv acc => flag_ensure mkv_eqb (m, fst kv, snd kv) acc) acc t) =
  match flag_get mkv_eqb key acc with
  | Some b => Some b
  | None => if existsb (fun kv => mkv_eqb key (m, fst kv, snd kv)) t then Some false else None
  end.
Proof.
  induction t as [|[k v] t IH]; cbn [fold_right fst snd existsb].
  - destruct (flag_get mkv_eqb key acc); reflexivity.
  - rewrite (flag_get_ensure mkv_eqb mkv_eqb_eq), IH.
    destruct (flag_get mkv_eqb key acc); [reflexivity|].
    destruct (existsb (fun kv => mkv_eqb key (m, fst kv, snd kv)) t); [rewrite orb_true_r; reflexivity|].
    rewrite orb_false_r. reflexivity.
Qed.

Lemma existsb_tk_In m key (t : tags) :
  existsb (fun kv => mk_eqb key (m, fst kv)) t = true <-> exists v, In (snd key, v) t /\ fst key = m.
Proof.
  rewrite existsb_exists. split.
  - intros [[k v] [Hin E]]. apply mk_eqb_eq in E. subst key. cbn. eauto.
  - intros [v [Hin E]]. exists (snd key, v). split; [exact Hin|]. apply mk_eqb_eq. destruct key; cbn in *; subst; reflexivity.
Qed.

Lemma existsb_tv_In m key (t : tags) :
  existsb (fun kv => mkv_eqb key (m, fst kv, snd kv)) t = true <->
  In (snd (fst key), snd key) t /\ fst (fst key) = m.
Proof.
  rewrite existsb_exists. split.
  - intros [[k v] [Hin E]]. apply mkv_eqb_eq in E. subst key. cbn. auto.
  - intros [Hin E]. exists (snd (fst key), snd key). split; [exact Hin|]. apply mkv_eqb_eq.
    destruct key as [[a b] c]; cbn in *; subst; reflexivity.
Qed.

(* ---------- the id sets: buildSeriesSet (open) and buildSeriesIDSets (compaction) ---------- *)

(* applying a run of files (newest first) to a base set, oldest first *)
Fixpoint apply_run (run : list tfile) (base : list id) : list id :=
  match run with
  | [] => base
  | f :: older => iunion (idiff (apply_run older base) (tf_tombs f)) (tf_sids f)
  end.

Lemma fold_sids_app a b : fold_sids (a ++ b) = apply_run a (fold_sids b).
Proof. induction a as [|f a IH]; cbn; [reflexivity|rewrite IH; reflexivity]. Qed.

Lemma apply_run_ext run b1 b2 : (forall i, In i b1 <-> In i b2) -> forall i, In i (apply_run run b1) <-> In i (apply_run run b2).
Proof.
  intros H. induction run as [|f run IH]; cbn; [exact H|].
  intros i. rewrite !In_iunion, !In_idiff, IH. tauto.
Qed.

(* the merged sets of a run act on any base exactly like the run itself:
   no tombstone is lost while an older file may still hold the series *)
Lemma build_sets_apply run base i :
  In i (apply_run run base) <->
  (In i base /\ ~ In i (snd (build_sets run))) \/ In i (fst (build_sets run)).
Proof.
  revert i. induction run as [|f run IH]; intros i; cbn [apply_run build_sets].
  - cbn. tauto.
  - destruct (build_sets run) as [ss ts] eqn:E. cbn [fst snd] in *.
    rewrite In_iunion, In_idiff, IH, In_iunion, !In_idiff, In_iunion.
    destruct (in_dec N.eq_dec i (tf_sids f)) as [Hs|Hs]; split; intros H; intuition.
Qed.

Lemma build_sets_disjoint run i : In i (fst (build_sets run)) -> In i (snd (build_sets run)) -> False.
Proof.
  induction run as [|f run IH]; cbn [build_sets]; [cbn; tauto|].
  destruct (build_sets run) as [ss ts]. cbn [fst snd] in *.
  rewrite In_iunion, !In_idiff, In_iunion. tauto.
Qed.

Lemma build_sets_sub run :
  (forall i, In i (fst (build_sets run)) -> exists f, In f run /\ In i (tf_sids f)) /\
  (forall i, In i (snd (build_sets run)) -> exists f, In f run /\ In i (tf_tombs f)).
Proof.
  induction run as [|f run [IH1 IH2]]; cbn [build_sets]; [cbn; split; intros i []|].
  destruct (build_sets run) as [ss ts]. cbn [fst snd] in *. split; intros i.
  - rewrite In_iunion, In_idiff. intros [[H _]|H]; [destruct (IH1 i H) as [g [Hg Hi]]; exists g; cbn; auto|exists f; cbn; auto].
  - rewrite In_idiff, In_iunion. intros [[H|H] _]; [destruct (IH2 i H) as [g [Hg Hi]]; exists g; cbn; auto|exists f; cbn; auto].
Qed.

(* an id whose newest mention in the run is an insert is in the merged series set *)
Lemma build_sets_home newer f older i :
  In i (tf_sids f) -> (forall g, In g newer -> ~ In i (tf_tombs g)) ->
  In i (fst (build_sets (newer ++ f :: older))) /\ ~ In i (snd (build_sets (newer ++ f :: older))).
Proof.
  intros Hs. induction newer as [|g newer IH]; intros Hn; cbn [app build_sets].
  - destruct (build_sets older) as [ss ts]. cbn [fst snd]. rewrite In_iunion, !In_idiff, In_iunion. tauto.
  - destruct (build_sets (newer ++ f :: older)) as [ss ts] eqn:E. cbn [fst snd] in *.
    assert (Hn' : forall g0, In g0 newer -> ~ In i (tf_tombs g0)) by (intros g0 Hg0; apply Hn; cbn; auto).
    destruct (IH Hn') as [IH1 IH2]. rewrite In_iunion, !In_idiff, In_iunion.
    assert (~ In i (tf_tombs g)) by (apply Hn; cbn; auto). tauto.
Qed.

(* same for the id set computed at open *)
Lemma fold_sids_home newer f older i :
  In i (tf_sids f) -> (forall g, In g newer -> ~ In i (tf_tombs g)) -> In i (fold_sids (newer ++ f :: older)).
Proof.
  intros Hs. induction newer as [|g newer IH]; intros Hn; cbn [app fold_sids].
  - apply In_iunion. auto.
  - apply In_iunion. left. apply In_idiff. split; [apply IH; intros g0 Hg0; apply Hn; cbn; auto|apply Hn; cbn; auto].
Qed.

(* ---------- FileSet.TagValueSeriesIDIterator ---------- *)

Lemma vfold_sub files m k v i :
  In i (fst (vfold files m k v)) -> exists f, In f files /\ In i (f_vseries f m k v).
Proof.
  induction files as [|f files IH]; cbn [vfold]; [cbn; tauto|].
  destruct (vfold files m k v) as [ss ft]. cbn [fst] in *. rewrite In_iunion, In_idiff.
  intros [[H _]|H]; [destruct (IH H) as [g [Hg Hi]]; exists g; cbn; auto|exists f; cbn; auto].
Qed.

Lemma vfold_snd files m k v : snd (vfold files m k v) = match files with [] => [] | f :: _ => tf_tombs f end.
Proof. destruct files as [|f files]; cbn [vfold]; [reflexivity|]. destruct (vfold files m k v); reflexivity. Qed.

Lemma vfold_home newer f older m k v i :
  In i (f_vseries f m k v) -> ~ In i (tf_tombs f) -> (forall g, In g newer -> ~ In i (tf_tombs g)) ->
  In i (fst (vfold (newer ++ f :: older) m k v)).
Proof.
  intros Hv Hf. induction newer as [|g newer IH]; intros Hn; cbn [app vfold].
  - destruct (vfold older m k v) as [ss ft]. cbn [fst]. apply In_iunion. auto.
  - pose proof (vfold_snd (newer ++ f :: older) m k v) as Hsnd.
    destruct (vfold (newer ++ f :: older) m k v) as [ss ft] eqn:E. cbn [fst snd] in *.
    apply In_iunion. left. apply In_idiff. split; [apply IH; intros g0 Hg0; apply Hn; cbn; auto|].
    rewrite Hsnd. destruct newer as [|g' newer']; cbn [app]; [exact Hf|apply Hn; cbn; auto].
Qed.

(* ---------- projections of one file ---------- *)

Lemma In_f_mseries f m i : In i (f_mseries f m) <-> In (m, i) (tf_ms f).
Proof.
  unfold f_mseries. rewrite in_map_iff. split.
  - intros [[m' j] [E H]]. apply filter_In in H. destruct H as [H Em]. cbn in *. apply str_eqb_eq in Em. subst. exact H.
  - intros H. exists (m, i). split; [reflexivity|]. apply filter_In. split; [exact H|]. cbn. apply str_eqb_refl.
Qed.

Lemma In_f_vseries f m k v i : In i (f_vseries f m k v) <-> In (m, k, v, i) (tf_vs f).
Proof.
  unfold f_vseries. rewrite in_map_iff. split.
  - intros [[mkv j] [E H]]. apply filter_In in H. destruct H as [H Em]. cbn in *. apply mkv_eqb_eq in Em. subst. exact H.
  - intros H. exists (m, k, v, i). split; [reflexivity|]. apply filter_In. split; [exact H|]. cbn.
    apply mkv_eqb_eq. reflexivity.
Qed.

Lemma In_f_kseries f m k i : In i (f_kseries f m k) <-> exists v, In (m, k, v, i) (tf_vs f).
Proof.
  unfold f_kseries. rewrite in_map_iff. split.
  - intros [[[[m' k'] v] j] [E H]]. apply filter_In in H. destruct H as [H Em]. cbn in *. apply mk_eqb_eq in Em.
    inversion Em; subst. exists v. exact H.
  - intros [v H]. exists (m, k, v, i). split; [reflexivity|]. apply filter_In. split; [exact H|]. cbn.
    apply mk_eqb_eq. reflexivity.
Qed.

Lemma In_f_names f m : In m (f_names f) <-> flag_get str_eqb m (tf_mm f) <> None.
Proof.
  unfold f_names. pose proof (flag_get_none str_eqb str_eqb_eq m (tf_mm f)) as H.
  destruct (flag_get str_eqb m (tf_mm f)) eqn:E.
  - split; [intros _; discriminate|intros _].
    destruct (in_dec (list_eq_dec N.eq_dec) m (map fst (tf_mm f))) as [Hin|Hn]; [exact Hin|].
    apply H in Hn. discriminate.
  - split; [intros Hin; exfalso; apply (proj1 H eq_refl); exact Hin|congruence].
Qed.

Lemma In_f_keys f m k : In k (f_keys f m) <-> flag_get mk_eqb (m, k) (tf_tk f) <> None.
Proof.
  unfold f_keys. pose proof (flag_get_none mk_eqb mk_eqb_eq (m, k) (tf_tk f)) as H.
  rewrite in_map_iff. split.
  - intros [[[m' k'] b] [E Hin]]. apply filter_In in Hin. destruct Hin as [Hin Em]. cbn in *. apply str_eqb_eq in Em. subst.
    intros Hn. apply H in Hn. apply Hn. apply in_map_iff. exists (m, k, b). auto.
  - intros Hn. destruct (flag_get mk_eqb (m, k) (tf_tk f)) as [b|] eqn:E; [|congruence].
    apply (flag_get_some_in mk_eqb mk_eqb_eq) in E. exists (m, k, b). split; [reflexivity|].
    apply filter_In. split; [exact E|]. cbn. apply str_eqb_refl.
Qed.

Lemma In_f_vals f m k v : In v (f_vals f m k) <-> flag_get mkv_eqb (m, k, v) (tf_tv f) <> None.
Proof.
  unfold f_vals. pose proof (flag_get_none mkv_eqb mkv_eqb_eq (m, k, v) (tf_tv f)) as H.
  rewrite in_map_iff. split.
  - intros [[[[m' k'] v'] b] [E Hin]]. apply filter_In in Hin. destruct Hin as [Hin Em]. cbn in *. apply mk_eqb_eq in Em.
    inversion Em; subst. intros Hn. apply H in Hn. apply Hn. apply in_map_iff. exists (m, k, v, b). auto.
  - intros Hn. destruct (flag_get mkv_eqb (m, k, v) (tf_tv f)) as [b|] eqn:E; [|congruence].
    apply (flag_get_some_in mkv_eqb mkv_eqb_eq) in E. exists (m, k, v, b). split; [reflexivity|].
    apply filter_In. split; [exact E|]. cbn. apply mk_eqb_eq. reflexivity.
Qed.

(* ---------- merged flags ---------- *)

Lemma v_mflag_app a b m :
  v_mflag (a ++ b) m = match v_mflag a m with Some x => Some x | None => v_mflag b m end.
Proof.
  induction a as [|f a IH]; cbn; [reflexivity|]. destruct (flag_get str_eqb m (tf_mm f)); [reflexivity|exact IH].
Qed.

Lemma v_mflag_Some files m b : v_mflag files m = Some b -> In m (sunions (map f_names files)).
Proof.
  induction files as [|f files IH]; cbn [v_mflag map]; [discriminate|].
  intros H. apply In_sunions. destruct (flag_get str_eqb m (tf_mm f)) eqn:E.
  - exists (f_names f). split; [left; reflexivity|]. apply In_f_names. congruence.
  - apply IH in H. apply In_sunions in H. destruct H as [l [Hl Hm]]. exists l. cbn; auto.
Qed.
