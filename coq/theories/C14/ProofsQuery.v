(* C14/ProofsQuery.v — the query layer (tsdb/index.go IndexSet, tsdb/store.go) is correct for ANY
   index whose primitives refine the abstract set: series ids per measurement / tag key / tag value
   exact, tag keys and values at least the live ones (stale entries allowed), measurement names exact. *)
From Verif Require Import C14.Spec C14.Model C14.ProofsBase.

(* ---------- tags ---------- *)

Lemma tagval_In t k v : keys_distinct t = true -> In (k, v) t -> tagval t k = v.
Proof.
  induction t as [|[k0 v0] t IH]; cbn; [intros _ []|].
  rewrite andb_true_iff, negb_true_iff. intros [Hn Hd] [H|H].
  - inversion H; subst. rewrite str_eqb_refl. reflexivity.
  - destruct (str_eqb k0 k) eqn:E.
    + apply str_eqb_eq in E; subst. exfalso.
      rewrite existsb_false in Hn. specialize (Hn _ H). cbn in Hn. rewrite str_eqb_refl in Hn. discriminate.
    + apply IH; assumption.
Qed.

Lemma tagval_nonempty_In t k : tagval t k <> [] -> In (k, tagval t k) t.
Proof.
  induction t as [|[k0 v0] t IH]; cbn; [congruence|].
  destruct (str_eqb k0 k) eqn:E.
  - apply str_eqb_eq in E; subst. auto.
  - auto.
Qed.

Lemma wf_series_vals s k v : wf_series s = true -> In (k, v) (snd s) -> v <> [].
Proof.
  unfold wf_series. rewrite andb_true_iff, forallb_forall. intros [H _] Hin.
  specialize (H _ Hin). cbn in H. destruct v; [discriminate|congruence].
Qed.

Lemma wf_In_tagval s k v : wf_series s = true -> (In (k, v) (snd s) <-> tagval (snd s) k = v /\ v <> []).
Proof.
  intros Hwf. split.
  - intros H. split; [apply tagval_In; [|exact H]|eapply wf_series_vals; eauto].
    unfold wf_series in Hwf. apply andb_true_iff in Hwf. tauto.
  - intros [<- Hne]. apply tagval_nonempty_In. exact Hne.
Qed.

Lemma has_key_true s k : has_key s k = true <-> tagval (snd s) k <> [].
Proof. unfold has_key. rewrite negb_true_iff. destruct (tagval (snd s) k); cbn; split; congruence. Qed.

Lemma has_key_false s k : has_key s k = false <-> tagval (snd s) k = [].
Proof. unfold has_key. rewrite negb_false_iff. apply is_nil_true. Qed.

Lemma has_key_In s k : wf_series s = true -> (has_key s k = true <-> exists v, In (k, v) (snd s)).
Proof.
  intros Hwf. rewrite has_key_true. split.
  - intros H. exists (tagval (snd s) k). apply tagval_nonempty_In; exact H.
  - intros [v H]. apply (wf_In_tagval s k v Hwf) in H. destruct H as [-> H]. exact H.
Qed.

Lemma In_keys_of sf ids s : In s (keys_of sf ids) <-> exists i, In i ids /\ sf_key sf i = Some s.
Proof.
  unfold keys_of. rewrite in_flat_map. split.
  - intros [i [Hi H]]. exists i. split; [exact Hi|]. destruct (sf_key sf i); cbn in H; [destruct H as [->|[]]; reflexivity|destruct H].
  - intros [i [Hi H]]. exists i. split; [exact Hi|]. rewrite H. cbn; auto.
Qed.

Ltac ssplit := repeat (match goal with |- _ /\ _ => split end).

Section Refine.
  Variable rx : str -> str -> bool.
  Variable pr : prims.
  Variable sf : sfile.
  Variable L : list id.          (* the ids of the series that exist *)
  Variable U : list series.      (* the abstract set of series *)

  (* id i is live, names series s of measurement m *)
  Definition live (i : id) (s : series) : Prop := In i L /\ sf_key sf i = Some s.

  Record refines : Prop := mkRefines {
    r_wf : forall s, In s U -> wf_series s = true;
    r_live : forall i, In i L -> exists s, sf_key sf i = Some s /\ In s U /\ sf_deleted sf i = false;
    r_cover : forall s, In s U -> exists i, In i L /\ sf_key sf i = Some s;
    r_mseries : forall m i, In i (p_mseries pr m) <-> exists s, live i s /\ fst s = m;
    r_kseries : forall m k i, In i (p_kseries pr m k) <-> exists s, live i s /\ fst s = m /\ has_key s k = true;
    r_vseries : forall m k v i, In i (p_vseries pr m k v) <-> exists s, live i s /\ fst s = m /\ In (k, v) (snd s);
    r_vals : forall s k v, In s U -> In (k, v) (snd s) -> In v (p_vals pr (fst s) k);
    r_keys : forall s k v, In s U -> In (k, v) (snd s) -> In k (p_keys pr (fst s));
    r_haskey : forall s k v, In s U -> In (k, v) (snd s) -> p_has_key pr (fst s) k = true;
    r_meas : forall m, In m (p_meas pr) <-> exists s, In s U /\ fst s = m
  }.

  Hypothesis R : refines.

  Lemma live_U i s : live i s -> In s U /\ wf_series s = true /\ sf_deleted sf i = false.
  Proof.
    intros [Hi Hk]. destruct (r_live R i Hi) as [s' [Hk' [HU Hd]]].
    rewrite Hk in Hk'. inversion Hk'; subst. auto using (r_wf R).
  Qed.

  Lemma In_undeleted_live (ids : list id) (P : id -> series -> Prop) :
    (forall i, In i ids <-> exists s, live i s /\ P i s) ->
    forall i, In i (undeleted sf ids) <-> exists s, live i s /\ P i s.
  Proof.
    intros H i. unfold undeleted. rewrite filter_In, H, negb_true_iff. split; [tauto|].
    intros [s [Hl HP]]. split; [eauto|]. apply (live_U i s Hl).
  Qed.

  (* series of the tag values of key k selected by f *)
  Lemma In_vals_series m k f i :
    In i (vals_series pr m k f) <->
    exists s, live i s /\ fst s = m /\ has_key s k = true /\ f (tagval (snd s) k) = true.
  Proof.
    unfold vals_series. rewrite In_iunions. split.
    - intros [l [Hl Hi]]. apply in_map_iff in Hl. destruct Hl as [v [<- Hv]].
      apply filter_In in Hv. destruct Hv as [_ Hf].
      apply (r_vseries R) in Hi. destruct Hi as [s [Hlive [Hm Hin]]].
      exists s. destruct (live_U i s Hlive) as [_ [Hwf _]].
      ssplit; auto.
      + apply has_key_In; eauto.
      + apply (wf_In_tagval s k v Hwf) in Hin. destruct Hin as [-> _]. exact Hf.
    - intros [s [Hlive [Hm [Hk Hf]]]]. destruct (live_U i s Hlive) as [HU [Hwf _]].
      apply has_key_true in Hk. pose proof (tagval_nonempty_In _ _ Hk) as Hin.
      exists (p_vseries pr m k (tagval (snd s) k)). split.
      + apply in_map_iff. exists (tagval (snd s) k). split; [reflexivity|].
        apply filter_In. split; [|exact Hf]. subst m. eapply (r_vals R); eauto.
      + apply (r_vseries R). exists s. auto.
  Qed.

  Lemma series_by_expr_ok m e i :
    In i (series_by_expr rx pr m e) <-> exists s, live i s /\ fst s = m /\ eval_pred rx e s = true.
  Proof.
    revert i. induction e as [k v|k v|k pat|k pat|a IHa b IHb|a IHa b IHb]; intros i; cbn [series_by_expr eval_pred].
    - (* = *)
      destruct (is_nil v) eqn:Ev.
      + apply is_nil_true in Ev; subst v. rewrite In_idiff, (r_mseries R), (r_kseries R). split.
        * intros [[s [Hl Hm]] Hn]. exists s. ssplit; auto.
          destruct (has_key s k) eqn:Ek; [exfalso; apply Hn; exists s; auto|].
          apply has_key_false in Ek. rewrite Ek. reflexivity.
        * intros [s [Hl [Hm He]]]. split; [exists s; auto|].
          intros [s' [[_ Hk'] [_ Hhk]]]. destruct Hl as [_ Hk]. rewrite Hk in Hk'. inversion Hk'; subst s'.
          apply str_eqb_eq in He. apply has_key_true in Hhk. congruence.
      + apply is_nil_false in Ev. rewrite (r_vseries R). split.
        * intros [s [Hl [Hm Hin]]]. exists s. ssplit; auto.
          destruct (live_U i s Hl) as [_ [Hwf _]]. apply (wf_In_tagval s k v Hwf) in Hin.
          destruct Hin as [-> _]. apply str_eqb_refl.
        * intros [s [Hl [Hm He]]]. exists s. ssplit; auto. apply str_eqb_eq in He. subst v.
          apply tagval_nonempty_In. destruct Ev as [x Hx]. intros E; rewrite E in Hx; destruct Hx.
    - (* != *)
      destruct (is_nil v) eqn:Ev.
      + apply is_nil_true in Ev; subst v. rewrite (r_kseries R). split.
        * intros [s [Hl [Hm Hk]]]. exists s. ssplit; auto. apply has_key_true in Hk.
          apply negb_true_iff, str_eqb_neq. exact Hk.
        * intros [s [Hl [Hm He]]]. exists s. ssplit; auto. apply has_key_true.
          apply negb_true_iff, str_eqb_neq in He. exact He.
      + apply is_nil_false in Ev. rewrite In_idiff, (r_mseries R), (r_vseries R). split.
        * intros [[s [Hl Hm]] Hn]. exists s. ssplit; auto. apply negb_true_iff, str_eqb_neq.
          intros E. apply Hn. exists s. ssplit; auto. subst v. apply tagval_nonempty_In.
          destruct Ev as [x Hx]. intros E; rewrite E in Hx; destruct Hx.
        * intros [s [Hl [Hm He]]]. split; [exists s; auto|].
          intros [s' [[_ Hk'] [_ Hin]]]. pose proof Hl as [_ Hk]. rewrite Hk in Hk'. inversion Hk'; subst s'.
          destruct (live_U i s Hl) as [_ [Hwf _]]. apply (wf_In_tagval s k v Hwf) in Hin. destruct Hin as [E _].
          apply negb_true_iff, str_eqb_neq in He. congruence.
    - (* =~ *)
      destruct (rx pat []) eqn:Em.
      + rewrite In_idiff, (r_mseries R), In_vals_series. split.
        * intros [[s [Hl Hm]] Hn]. exists s. ssplit; auto.
          destruct (has_key s k) eqn:Ek.
          -- destruct (rx pat (tagval (snd s) k)) eqn:Er; [reflexivity|].
             exfalso. apply Hn. exists s. rewrite Er. auto.
          -- apply has_key_false in Ek. rewrite Ek. exact Em.
        * intros [s [Hl [Hm He]]]. split; [exists s; auto|].
          intros [s' [[_ Hk'] [_ [_ Hf]]]]. destruct Hl as [_ Hk]. rewrite Hk in Hk'. inversion Hk'; subst s'.
          rewrite He in Hf. discriminate.
      + rewrite In_vals_series. split.
        * intros [s [Hl [Hm [_ Hf]]]]. exists s. auto.
        * intros [s [Hl [Hm He]]]. exists s. ssplit; auto.
          apply has_key_true. intros E. rewrite E in He. congruence.
    - (* !~ *)
      destruct (rx pat []) eqn:Em.
      + rewrite In_vals_series. split.
        * intros [s [Hl [Hm [_ Hf]]]]. exists s. auto.
        * intros [s [Hl [Hm He]]]. exists s. ssplit; auto.
          apply has_key_true. intros E. rewrite E, Em in He. discriminate.
      + rewrite In_idiff, (r_mseries R), In_vals_series. split.
        * intros [[s [Hl Hm]] Hn]. exists s. ssplit; auto. apply negb_true_iff.
          destruct (has_key s k) eqn:Ek.
          -- destruct (rx pat (tagval (snd s) k)) eqn:Er; [|reflexivity].
             exfalso. apply Hn. exists s. auto.
          -- apply has_key_false in Ek. rewrite Ek. exact Em.
        * intros [s [Hl [Hm He]]]. split; [exists s; auto|].
          intros [s' [[_ Hk'] [_ [_ Hf]]]]. destruct Hl as [_ Hk]. rewrite Hk in Hk'. inversion Hk'; subst s'.
          rewrite Hf in He. discriminate.
    - rewrite In_iinter, IHa, IHb. split.
      + intros [[s [Hl [Hm Ha]]] [s' [[_ Hk'] [_ Hb]]]]. pose proof Hl as [_ Hk]. rewrite Hk in Hk'. inversion Hk'; subst s'.
        exists s. ssplit; auto. apply andb_true_iff; auto.
      + intros [s [Hl [Hm H]]]. apply andb_true_iff in H. destruct H as [Ha Hb]. split; exists s; auto.
    - rewrite In_iunion, IHa, IHb. split.
      + intros [[s [Hl [Hm Ha]]]|[s [Hl [Hm Hb]]]]; exists s; rewrite orb_true_iff; auto.
      + intros [s [Hl [Hm H]]]. apply orb_true_iff in H. destruct H; [left|right]; exists s; auto.
  Qed.

  Lemma series_ids_ok m c i :
    In i (series_ids rx pr sf m c) <-> exists s, live i s /\ fst s = m /\ eval_opt rx c s = true.
  Proof.
    destruct c as [e|]; cbn [series_ids eval_opt].
    - apply (In_undeleted_live _ (fun _ s => fst s = m /\ eval_pred rx e s = true)). intros j. apply series_by_expr_ok.
    - rewrite (In_undeleted_live _ (fun _ s => fst s = m)); [|intros j; apply (r_mseries R)].
      split; intros [s H]; exists s; tauto.
  Qed.

  Lemma series_keys_ok m c s :
    In s (series_keys rx pr sf m c) <-> In s (series_of rx U m c).
  Proof.
    unfold series_keys, series_of. rewrite In_keys_of, filter_In, andb_true_iff, str_eqb_eq. split.
    - intros [i [Hi Hk]]. apply series_ids_ok in Hi. destruct Hi as [s' [Hl [Hm He]]].
      pose proof Hl as [_ Hk']. rewrite Hk in Hk'. inversion Hk'; subst s'.
      destruct (live_U i s Hl) as [HU _]. auto.
    - intros [HU [Hm He]]. destruct (r_cover R s HU) as [i [Hi Hk]]. exists i. split; [|exact Hk].
      apply series_ids_ok. exists s. unfold live. auto.
  Qed.

  Theorem q_series_ok m c r :
    In r (q_series rx pr sf m c) <-> In r (map series_row (series_of rx U m c)).
  Proof.
    unfold q_series. rewrite !in_map_iff. split; intros [s [E H]]; exists s; (split; [exact E|]); apply series_keys_ok; exact H.
  Qed.

  (* ----- measurement names ----- *)

  Lemma key_has_series_ok m k : key_has_series pr sf m k = meas_has_key U m k.
  Proof.
    unfold key_has_series, meas_has_key.
    destruct (existsb (fun s => str_eqb (fst s) m && has_key s k) U) eqn:E.
    - apply existsb_exists in E. destruct E as [s [HU E]]. apply andb_true_iff in E. destruct E as [Em Ek].
      apply str_eqb_eq in Em. destruct (r_cover R s HU) as [i [Hi Hk]].
      apply negb_true_iff, is_nil_false. exists i.
      apply (In_undeleted_live _ (fun _ s => fst s = m /\ has_key s k = true)); [intros j; apply (r_kseries R)|].
      exists s. unfold live. auto.
    - apply negb_false_iff, is_nil_true. destruct (undeleted sf (p_kseries pr m k)) as [|i l] eqn:El; [reflexivity|].
      exfalso. assert (Hi : In i (undeleted sf (p_kseries pr m k))) by (rewrite El; cbn; auto).
      apply (In_undeleted_live _ (fun _ s => fst s = m /\ has_key s k = true)) in Hi; [|intros j; apply (r_kseries R)].
      destruct Hi as [s [Hl [Hm Hk]]]. destruct (live_U i s Hl) as [HU _].
      rewrite existsb_false in E. specialize (E s HU); cbv beta in E. rewrite Hk, (proj2 (str_eqb_eq _ _) Hm) in E. discriminate.
  Qed.

  Lemma val_has_series_ok m k v :
    val_has_series pr sf m k v = existsb (fun s : series => str_eqb (fst s) m && memb mk_eqb (k, v) (snd s)) U.
  Proof.
    unfold val_has_series.
    destruct (existsb (fun s : series => str_eqb (fst s) m && memb mk_eqb (k, v) (snd s)) U) eqn:E.
    - apply existsb_exists in E. destruct E as [s [HU E]]. apply andb_true_iff in E. destruct E as [Em Ek].
      apply str_eqb_eq in Em. apply (memb_In mk_eqb mk_eqb_eq) in Ek. destruct (r_cover R s HU) as [i [Hi Hk]].
      apply negb_true_iff, is_nil_false. exists i.
      apply (In_undeleted_live _ (fun _ s => fst s = m /\ In (k, v) (snd s))); [intros j; apply (r_vseries R)|].
      exists s. unfold live. auto.
    - apply negb_false_iff, is_nil_true. destruct (undeleted sf (p_vseries pr m k v)) as [|i l] eqn:El; [reflexivity|].
      exfalso. assert (Hi : In i (undeleted sf (p_vseries pr m k v))) by (rewrite El; cbn; auto).
      apply (In_undeleted_live _ (fun _ s => fst s = m /\ In (k, v) (snd s))) in Hi; [|intros j; apply (r_vseries R)].
      destruct Hi as [s [Hl [Hm Hk]]]. destruct (live_U i s Hl) as [HU _].
      rewrite existsb_false in E. specialize (E s HU); cbv beta in E.
      rewrite (proj2 (str_eqb_eq _ _) Hm), (proj2 (memb_In mk_eqb mk_eqb_eq _ _) Hk) in E. discriminate.
  Qed.

  Lemma In_measurements m : In m (measurements U) <-> exists s, In s U /\ fst s = m.
  Proof.
    unfold measurements. rewrite (In_dedup str_eqb str_eqb_eq), in_map_iff. split; intros [s H]; exists s; tauto.
  Qed.

  Lemma val_match_ok m k f :
    existsb (fun v => f v && val_has_series pr sf m k v) (p_vals pr m k) = meas_val_match U m k f.
  Proof.
    unfold meas_val_match.
    destruct (existsb (fun s => str_eqb (fst s) m && has_key s k && f (tagval (snd s) k)) U) eqn:E.
    - apply existsb_exists in E. destruct E as [s [HU E]]. rewrite !andb_true_iff in E. destruct E as [[Em Ek] Ef].
      apply str_eqb_eq in Em. apply has_key_true in Ek. pose proof (tagval_nonempty_In _ _ Ek) as Hin.
      apply existsb_exists. exists (tagval (snd s) k). split; [subst m; eapply (r_vals R); eauto|].
      rewrite Ef, val_has_series_ok. cbn. apply existsb_exists. exists s. split; [exact HU|].
      rewrite (proj2 (str_eqb_eq _ _) Em), (proj2 (memb_In mk_eqb mk_eqb_eq _ _) Hin). reflexivity.
    - apply existsb_false. intros v _. destruct (f v) eqn:Ef; [|reflexivity]. cbn. rewrite val_has_series_ok.
      apply existsb_false. intros s HU. rewrite existsb_false in E. specialize (E s HU); cbv beta in E.
      destruct (str_eqb (fst s) m) eqn:Em; [|reflexivity]. cbn in *.
      destruct (memb mk_eqb (k, v) (snd s)) eqn:Ei; [|reflexivity].
      apply (memb_In mk_eqb mk_eqb_eq) in Ei. apply (wf_In_tagval s k v (r_wf R s HU)) in Ei. destruct Ei as [Et Hne].
      rewrite Et, Ef, andb_true_r in E. apply has_key_false in E. congruence.
  Qed.

  Lemma names_by_tag_ok k f positive m :
    In m (names_by_tag pr sf k f positive) <-> In m (names_leaf U k f positive).
  Proof.
    unfold names_by_tag, names_leaf. rewrite !filter_In, (r_meas R), In_measurements, key_has_series_ok, val_match_ok.
    split; intros [Hm H]; (split; [exact Hm|]).
    - rewrite !andb_true_iff in H. rewrite andb_true_iff. tauto.
    - rewrite andb_true_iff in H. destruct H as [Hk Hb]. rewrite Hk, Hb, !andb_true_r.
      unfold meas_has_key in Hk. apply existsb_exists in Hk. destruct Hk as [s [HU E]].
      apply andb_true_iff in E. destruct E as [Em Ek]. apply str_eqb_eq in Em. subst m.
      apply (has_key_In s k (r_wf R s HU)) in Ek. destruct Ek as [v Hin]. eapply (r_haskey R); eauto.
  Qed.

  Lemma names_by_expr_ok e m : In m (names_by_expr rx pr sf e) <-> In m (names_pred rx U e).
  Proof.
    revert m. induction e as [k v|k v|k pat|k pat|a IHa b IHb|a IHa b IHb]; intros m; cbn [names_by_expr names_pred];
      try apply names_by_tag_ok.
    - rewrite !(In_sinter str_eqb str_eqb_eq), IHa, IHb. tauto.
    - rewrite !(In_sunion str_eqb str_eqb_eq), IHa, IHb. tauto.
  Qed.

  Theorem q_names_ok c m :
    In m (q_names rx pr sf c) <-> In m (match c with None => measurements U | Some p => names_pred rx U p end).
  Proof.
    destruct c as [e|]; cbn [q_names]; [apply names_by_expr_ok|].
    rewrite (r_meas R), In_measurements. tauto.
  Qed.

  (* ----- tag keys and values ----- *)

  Lemma In_sel_names mo name :
    In name (sel_names pr mo) <-> (exists s, In s U /\ fst s = name) /\ match mo with None => True | Some m => name = m end.
  Proof.
    destruct mo as [m|]; cbn [sel_names].
    - rewrite filter_In, str_eqb_eq, (r_meas R). tauto.
    - rewrite (r_meas R). tauto.
  Qed.

  Lemma In_vals_by_expr name k e v :
    In v (vals_by_expr rx pr sf name k e) <->
    exists s, In s U /\ fst s = name /\ eval_pred rx e s = true /\ In (k, v) (snd s).
  Proof.
    unfold vals_by_expr. rewrite in_flat_map. split.
    - intros [s [Hs Hv]]. pose proof (series_keys_ok name (Some e) s) as Hk. unfold series_keys, series_ids in Hk.
      apply Hk in Hs. unfold series_of in Hs. apply filter_In in Hs. destruct Hs as [HU Hc].
      apply andb_true_iff in Hc. destruct Hc as [Hm He]. apply str_eqb_eq in Hm. cbn in He.
      destruct (has_key s k) eqn:Ek; [|destruct Hv]. destruct Hv as [<-|[]].
      exists s. ssplit; auto. apply tagval_nonempty_In. apply has_key_true. exact Ek.
    - intros [s [HU [Hm [He Hin]]]]. exists s. split.
      + pose proof (series_keys_ok name (Some e) s) as Hk. unfold series_keys, series_ids in Hk. apply Hk.
        unfold series_of. apply filter_In. split; [exact HU|]. cbn. rewrite He, (proj2 (str_eqb_eq _ _) Hm). reflexivity.
      + pose proof (r_wf R s HU) as Hwf. pose proof Hin as Hin'. apply (wf_In_tagval s k v Hwf) in Hin'. destruct Hin' as [Et Hne].
        assert (Hk : has_key s k = true) by (apply has_key_true; congruence). rewrite Hk, Et. cbn; auto.
  Qed.

  Theorem q_tagkeys_ok mo c r :
    In r (q_tagkeys rx pr sf mo c) <->
    In r (flat_map (fun s => map (fun kv => [fst s; fst kv]) (snd s))
                   (filter (fun s => name_sel mo s && eval_opt rx c s) U)).
  Proof.
    unfold q_tagkeys. rewrite !in_flat_map. split.
    - intros [name [Hn Hr]]. apply In_sel_names in Hn. destruct Hn as [_ Hsel].
      destruct c as [e|].
      + apply in_map_iff in Hr. destruct Hr as [k [<- Hk]]. apply filter_In in Hk. destruct Hk as [_ Hk].
        apply negb_true_iff, is_nil_false in Hk. destruct Hk as [v Hv]. apply In_vals_by_expr in Hv.
        destruct Hv as [s [HU [Hm [He Hin]]]]. exists s. split.
        * apply filter_In. split; [exact HU|]. cbn. rewrite He, andb_true_r.
          destruct mo as [m|]; cbn; [|reflexivity]. apply str_eqb_eq. congruence.
        * apply in_map_iff. exists (k, v). cbn. subst name. auto.
      + apply in_map_iff in Hr. destruct Hr as [k [<- Hk]]. apply filter_In in Hk. destruct Hk as [_ Hk].
        rewrite key_has_series_ok in Hk. unfold meas_has_key in Hk. apply existsb_exists in Hk.
        destruct Hk as [s [HU E]]. apply andb_true_iff in E. destruct E as [Em Ek]. apply str_eqb_eq in Em.
        apply (has_key_In s k (r_wf R s HU)) in Ek. destruct Ek as [v Hin]. exists s. split.
        * apply filter_In. split; [exact HU|]. cbn. rewrite andb_true_r.
          destruct mo as [m|]; cbn; [|reflexivity]. apply str_eqb_eq. congruence.
        * apply in_map_iff. exists (k, v). cbn. subst name. auto.
    - intros [s [Hs Hr]]. apply filter_In in Hs. destruct Hs as [HU Hc]. apply andb_true_iff in Hc. destruct Hc as [Hsel He].
      apply in_map_iff in Hr. destruct Hr as [[k v] [<- Hin]]. cbn [fst].
      exists (fst s). split.
      + apply In_sel_names. split; [exists s; auto|]. destruct mo as [m|]; cbn in Hsel; [apply str_eqb_eq in Hsel; exact Hsel|exact I].
      + destruct c as [e|]; apply in_map_iff; exists k; (split; [reflexivity|]); apply filter_In; (split; [eapply (r_keys R); eauto|]).
        * apply negb_true_iff, is_nil_false. exists v. apply In_vals_by_expr. exists s. cbn in He. auto.
        * rewrite key_has_series_ok. unfold meas_has_key. apply existsb_exists. exists s. split; [exact HU|].
          rewrite str_eqb_refl. cbn. apply (has_key_In s k (r_wf R s HU)). eauto.
  Qed.

  Theorem q_tagvals_ok m k c r :
    In r (q_tagvals rx pr sf m k c) <->
    In r (flat_map (fun s => if has_key s k then [[m; k; tagval (snd s) k]] else []) (series_of rx U m c)).
  Proof.
    unfold q_tagvals. rewrite !in_flat_map. split.
    - intros [name [Hn Hr]]. apply (In_sel_names (Some m)) in Hn. destruct Hn as [_ ->].
      destruct (memb str_eqb k (p_keys pr m)) eqn:Ek; [|destruct Hr].
      destruct c as [e|].
      + apply in_map_iff in Hr. destruct Hr as [v [<- Hv]]. apply In_vals_by_expr in Hv.
        destruct Hv as [s [HU [Hm [He Hin]]]]. exists s. split.
        * unfold series_of. apply filter_In. split; [exact HU|]. cbn. rewrite He, (proj2 (str_eqb_eq _ _) Hm). reflexivity.
        * pose proof (r_wf R s HU) as Hwf. apply (wf_In_tagval s k v Hwf) in Hin. destruct Hin as [Et Hne].
          assert (Hk : has_key s k = true) by (apply has_key_true; congruence). rewrite Hk, Et. cbn; auto.
      + apply in_map_iff in Hr. destruct Hr as [v [<- Hv]]. apply filter_In in Hv. destruct Hv as [_ Hv].
        rewrite val_has_series_ok in Hv. apply existsb_exists in Hv. destruct Hv as [s [HU E]].
        apply andb_true_iff in E. destruct E as [Em Ei]. apply (memb_In mk_eqb mk_eqb_eq) in Ei.
        exists s. split.
        * unfold series_of. apply filter_In. split; [exact HU|]. cbn. rewrite Em. reflexivity.
        * pose proof (r_wf R s HU) as Hwf. apply (wf_In_tagval s k v Hwf) in Ei. destruct Ei as [Et Hne].
          assert (Hk : has_key s k = true) by (apply has_key_true; congruence). rewrite Hk, Et. cbn; auto.
    - intros [s [Hs Hr]]. unfold series_of in Hs. apply filter_In in Hs. destruct Hs as [HU Hc].
      apply andb_true_iff in Hc. destruct Hc as [Hm He]. apply str_eqb_eq in Hm.
      destruct (has_key s k) eqn:Ek; [|destruct Hr]. destruct Hr as [<-|[]].
      apply has_key_true in Ek. pose proof (tagval_nonempty_In _ _ Ek) as Hin.
      exists m. split; [apply (In_sel_names (Some m)); split; [exists s; auto|reflexivity]|].
      assert (Hkeys : memb str_eqb k (p_keys pr m) = true).
      { apply (memb_In str_eqb str_eqb_eq). subst m. eapply (r_keys R); eauto. }
      rewrite Hkeys. destruct c as [e|]; apply in_map_iff; exists (tagval (snd s) k); (split; [reflexivity|]).
      + apply In_vals_by_expr. exists s. cbn in He. auto.
      + apply filter_In. split; [subst m; eapply (r_vals R); eauto|].
        rewrite val_has_series_ok. apply existsb_exists. exists s. split; [exact HU|].
        rewrite (proj2 (str_eqb_eq _ _) Hm), (proj2 (memb_In mk_eqb mk_eqb_eq _ _) Hin). reflexivity.
  Qed.
End Refine.
