(* C14/Props.v — property theorems only: each is closed by [exact] of a lemma proved in the
   Proofs*.v files and followed by Print Assumptions.

   Reading guide.  [rx] is ANY regular-expression oracle (pattern -> subject -> bool): the theorems
   hold for all of them.  [n] is the number of shards, [ops] ANY history (list of steps: writes that
   create series, DELETE / DROP SERIES with predicate over any shards, DROP MEASUREMENT, deletion of a
   whole shard (retention; the in-memory index is NOT rebuilt after it, measurements stay dirty), TSI log and
   level compactions, series-file compactions and segment roll-overs, cache snapshots, close/reopen),
   [q] ANY query (measurement names, tag keys, tag values, series keys - each with an optional predicate
   built from =, !=, =~, !~, AND, OR - exact cardinalities, series-file listing, and the series listing of
   a shard answered by a TSI index built offline from the shard's data (buildtsi) with any batch size).  [run_spec] folds the history
   over the abstract set of (shard, series) pairs; [spec_answer] projects it.  [is_run]/[is_answer] is
   the store with the in-memory index, [ts_run]/[ts_answer] the store with the TSI (LSM) index.
   [wf_ops]: tag lists of written series have distinct keys and non-empty values (models.Tags);
   [wf_query]: a per-shard query names an existing shard.

   Partial by design: TSI / series-file byte formats, hash indexes, bloom filters and HLL sketches
   are abstracted to entry lists (cardinality ESTIMATES are outside; the exact bitmap path is in);
   a TSI index and the series file are modelled with one partition instead of eight. *)
From Verif Require Import C14.Spec C14.Model C14.Run C14.ProofsSfile C14.ProofsQuery C14.ProofsClean C14.ProofsLsmF C14.ProofsConv C14.ProofsSorted C14.Proofs.

(* every listing of the in-memory index, after any history, is the projection of the abstract set:
   nothing written is missing, nothing dropped lingers or returns *)
Theorem inmem_refines_set :
  forall (rx : str -> str -> bool) (n : nat) (ops : list op) (q : query),
    wf_ops ops = true -> wf_query n q = true ->
    answer_equiv (is_answer rx (is_run rx n ops) q) (spec_answer rx n (run_spec rx n ops) q).
Proof. exact inmem_refines. Qed.
Print Assumptions inmem_refines_set.

(* the same for the TSI index: active log, index files by level, tombstones, replay at open *)
Theorem lsm_refines_set :
  forall (rx : str -> str -> bool) (n : nat) (ops : list op) (q : query),
    wf_ops ops = true -> wf_query n q = true ->
    answer_equiv (ts_answer rx (ts_run rx n ops) q) (spec_answer rx n (run_spec rx n ops) q).
Proof. exact lsm_refines. Qed.
Print Assumptions lsm_refines_set.

(* a log->file compaction, a level compaction, a series-file compaction, a snapshot or a reopen
   appended to any history leaves every answer of both stores unchanged *)
Theorem compaction_preserves_view :
  forall (rx : str -> str -> bool) (n : nat) (ops : list op) (o : op) (q : query),
    wf_ops ops = true -> wf_query n q = true -> is_compaction o = true ->
    answer_equiv (ts_answer rx (ts_run rx n (ops ++ [o])) q) (ts_answer rx (ts_run rx n ops) q) /\
    answer_equiv (is_answer rx (is_run rx n (ops ++ [o])) q) (is_answer rx (is_run rx n ops) q).
Proof. exact compaction_view. Qed.
Print Assumptions compaction_preserves_view.

(* the structural core of it: replacing ANY contiguous run of index files by their merge
   (IndexFiles.CompactTo / buildSeriesIDSets) does not change the series id set a restart
   rebuilds - no tombstone is lost while an older file still holds the series *)
Theorem compaction_keeps_tombstones :
  forall (lvl : nat) (run pre post : list tfile) (i : id),
    In i (fold_sids (pre ++ merge_files lvl run :: post)) <-> In i (fold_sids (pre ++ run ++ post)).
Proof. exact fold_merge. Qed.
Print Assumptions compaction_keeps_tombstones.

(* series-file compaction keeps every id's deleted flag and the key of every undeleted id *)
Theorem sfile_compaction_preserves :
  forall sf : sfile, sf_inv sf ->
    sf_inv (sf_compact sf) /\ sf_next (sf_compact sf) = sf_next sf /\
    (forall i, sf_deleted (sf_compact sf) i = sf_deleted sf i) /\
    (forall i, sf_key (sf_compact sf) i = if sf_deleted sf i then None else sf_key sf i).
Proof. exact sf_compact_spec. Qed.
Print Assumptions sfile_compaction_preserves.

(* the series file hands out fresh ids after a restart: after any history, reopening the series file
   changes nothing - in particular the next id recovered from the segment files (newest segment that
   holds an insert entry; roll-overs may leave segments without one) is the one in memory - and that
   id lies above every id that has a key *)
Theorem sfile_next_id_recovered :
  forall (rx : str -> str -> bool) (n : nat) (ops : list op),
    wf_ops ops = true ->
    let sft := ts_sf (ts_run rx n ops) in
    let sfi := is_sf (is_run rx n ops) in
    (sf_reopen sft = sft /\ forall i s, sf_key sft i = Some s -> (i < seg_recover (sf_segs sft))%N) /\
    (sf_reopen sfi = sfi /\ forall i s, sf_key sfi i = Some s -> (i < seg_recover (sf_segs sfi))%N).
Proof. exact next_id_recovery. Qed.
Print Assumptions sfile_next_id_recovered.

(* offline conversion (influx_inspect buildtsi): a TSI index built with DisableFsync - log entries
   buffered, flushed when the buffer of ANY capacity bsz fills up and by Close - from ANY list of
   well-formed series keys in batches of ANY size, with or without log/level compactions after each
   batch, then closed and opened, lists exactly those keys under every predicate *)
Theorem offline_conversion_lists_keys :
  forall (rx : str -> str -> bool) (sf : sfile) (keys : list series) (bsz : nat) (small : bool)
         (S : list series) (m : str) (c : option pred),
    sf_inv sf -> (forall s, In s keys -> wf_series s = true) -> (forall s, In s S <-> In s keys) -> (1 <= bsz)%nat ->
    forall r, In r (q_series rx (tsi_prims (snd (cv_index sf keys bsz small))) (fst (cv_index sf keys bsz small)) m c)
              <-> In r (map series_row (series_of rx S m c)).
Proof. exact conv_lists_keys. Qed.
Print Assumptions offline_conversion_lists_keys.

(* the query layer does not see ids the series file has deleted: over ANY index whose tag key / tag
   value series lists may still hold such ids (the in-memory index between DropSeriesGlobal and the
   next Rebuild), it answers as over the index read through the series file's deleted flags *)
Theorem query_layer_ignores_deleted_ids :
  forall rx pr sf L U, refines (clean_prims sf pr) sf L U ->
  forall m c r, In r (q_series rx pr sf m c) <-> In r (map series_row (series_of rx U m c)).
Proof. exact q_series_ok'. Qed.
Print Assumptions query_layer_ignores_deleted_ids.

(* the lazily sorted id list of an in-memory measurement object (measurement.sortedSeriesIDs, trusted
   by SeriesIDs() when it is as long as the seriesByID map): after ANY sequence of AddSeries,
   DropSeries and SeriesIDs calls, SeriesIDs() returns exactly the ids of the map, once each *)
Theorem sorted_id_cache_transparent :
  forall ops : list mop,
    let c := mc_run ops in
    NoDup (snd (mc_list c)) /\ forall i, In i (snd (mc_list c)) <-> In i (mc_ids c).
Proof. exact mc_list_exact. Qed.
Print Assumptions sorted_id_cache_transparent.

(* corollary: both index types answer every question identically *)
Corollary inmem_eq_lsm :
  forall (rx : str -> str -> bool) (n : nat) (ops : list op) (q : query),
    wf_ops ops = true -> wf_query n q = true ->
    answer_equiv (is_answer rx (is_run rx n ops) q) (ts_answer rx (ts_run rx n ops) q).
Proof. exact inmem_eq_lsm_proof. Qed.
Print Assumptions inmem_eq_lsm.

(* the query layer (tsdb/index.go IndexSet) is correct over ANY index whose primitives refine the
   set: exact series ids, at least the live tag keys / values (stale ones allowed), exact names *)
Theorem query_layer_series :
  forall rx pr sf L U, refines pr sf L U ->
  forall m c r, In r (q_series rx pr sf m c) <-> In r (map series_row (series_of rx U m c)).
Proof. exact q_series_ok. Qed.
Print Assumptions query_layer_series.

(* link to the executable check: for EVERY input the models' answers satisfy the executable
   spec of Run.v (a case whose observations are the models' own answers gets code 0) *)
Theorem model_satisfies_executable_spec :
  forall n tab ops q cmp, wf_ops ops = true -> wf_query n q = true ->
    check_case (Case n tab ops q cmp (is_answer (rx_of tab) (is_run (rx_of tab) n ops) q)
                                     (ts_answer (rx_of tab) (ts_run (rx_of tab) n ops) q)) = 0%N.
Proof. exact model_satisfies_spec. Qed.
Print Assumptions model_satisfies_executable_spec.

(* ---------- non-vacuity ---------- *)

Definition ex_rx (p s : str) : bool := str_eqb p s.
Definition s_cpu_a : series := ([99;112;117], [([104], [97]); ([114], [120])])%N.      (* cpu,h=a,r=x *)
Definition s_cpu_b : series := ([99;112;117], [([104], [98]); ([114], [120])])%N.      (* cpu,h=b,r=x *)
Definition s_mem_a : series := ([109;101;109], [([104], [97])])%N.                     (* mem,h=a *)
Definition ex_ops : list op :=
  [OWrite 1 [s_cpu_a; s_cpu_b; s_mem_a]; OWrite 2 [s_cpu_a]; OCompactLog 1;
   ODelete [1] [[99;112;117]%N] (Some (PEq [104]%N [97]%N));          (* DELETE FROM cpu WHERE h='a' in shard 1 *)
   OCompactLog 1; OCompactLevel 1 1; OSfCompact; OSfRoll; OReopen; OWrite 1 [s_cpu_a]; ODropM [109;101;109]%N;
   ODropShard 2; OWrite 2 [s_mem_a]].

Example history_is_wellformed : wf_ops ex_ops = true /\ wf_query 2 (QShSeries 1 [99;112;117]%N None) = true.
Proof. vm_compute. split; reflexivity. Qed.

(* the hypotheses of the theorems are satisfiable and the answers are not trivial *)
Example lsm_answers_nontrivial :
  ts_answer ex_rx (ts_run ex_rx 2 ex_ops) (QTagVals [99;112;117]%N [104]%N None)
  = ARows [[[99;112;117]; [104]; [98]]; [[99;112;117]; [104]; [97]]]%N /\
  ts_answer ex_rx (ts_run ex_rx 2 ex_ops) QCard = ANums [3; 2; 1]%N /\
  spec_answer ex_rx 2 (run_spec ex_rx 2 ex_ops) (QNames None) = ARows [[[109;101;109]%N]; [[99;112;117]%N]].
Proof. vm_compute. repeat split; reflexivity. Qed.

(* the roll-over before the reopen left an active segment without an insert entry: the next id
   comes from the older segment; the converted index of shard 1 lists its two series *)
Example next_id_from_older_segment :
  sf_segs (ts_sf (ts_run ex_rx 2 (firstn 9 ex_ops))) = [0; 3]%N /\ sf_next (ts_sf (ts_run ex_rx 2 (firstn 9 ex_ops))) = 4%N /\
  sf_segs (ts_sf (ts_run ex_rx 2 ex_ops)) = [4; 3]%N /\
  ts_answer ex_rx (ts_run ex_rx 2 ex_ops) (QConv 1 1 true [99;112;117]%N None)
  = ARows [[[99;112;117]; [104]; [98]; [114]; [120]]; [[99;112;117]; [104]; [97]; [114]; [120]]]%N.
Proof. vm_compute. repeat split; reflexivity. Qed.

(* a deleted shard leaves the in-memory index dirty (no Rebuild): the tag entry of the dropped series
   cpu,h=a lingers, the answers do not show it *)
Definition ex_ops_dirty : list op := [OWrite 1 [s_cpu_a]; OWrite 2 [s_cpu_b]; ODropShard 1; OWrite 1 [s_mem_a]].
Example dirty_index_answers :
  ix_dirty (is_ix (is_run ex_rx 2 ex_ops_dirty)) = [[99;112;117]%N] /\
  p_vseries (ix_prims (is_ix (is_run ex_rx 2 ex_ops_dirty))) [99;112;117]%N [104]%N [97]%N = [1%N] /\
  is_answer ex_rx (is_run ex_rx 2 ex_ops_dirty) (QTagVals [99;112;117]%N [104]%N None) = ARows [[[99;112;117]; [104]; [98]]]%N /\
  is_answer ex_rx (is_run ex_rx 2 ex_ops_dirty) (QSeries [99;112;117]%N (Some (PNeq [104]%N [98]%N))) = ARows [].
Proof. vm_compute. repeat split; reflexivity. Qed.

(* the cached id list of a measurement: add 5, add 3 (not appended: out of order), drop 5, list *)
Example sorted_cache_example :
  mc_sorted (mc_run [MAdd 5; MAdd 3]%N) = [5%N] /\ mc_list (mc_run [MAdd 5; MAdd 3; MDrop 5]%N) = (mkMc [3%N] [3%N], [3%N]).
Proof. vm_compute. split; reflexivity. Qed.

Example case_of_the_model_passes :
  check_case (Case 2 [] ex_ops (QShSeries 1 [99;112;117]%N (Some (PNeq [104]%N [98]%N))) true
                   (is_answer (rx_of []) (is_run (rx_of []) 2 ex_ops) (QShSeries 1 [99;112;117]%N (Some (PNeq [104]%N [98]%N))))
                   (ts_answer (rx_of []) (ts_run (rx_of []) 2 ex_ops) (QShSeries 1 [99;112;117]%N (Some (PNeq [104]%N [98]%N))))) = 0%N.
Proof. vm_compute. reflexivity. Qed.
