(* C14/Props.v — property theorems only: each is closed by [exact] of a lemma proved in the
   Proofs*.v files and followed by Print Assumptions.

   Reading guide.  [rx] is ANY regular-expression oracle (pattern -> subject -> bool): the theorems
   hold for all of them.  [n] is the number of shards, [ops] ANY history (list of steps: writes that
   create series, DELETE / DROP SERIES with predicate over any shards, DROP MEASUREMENT, TSI log and
   level compactions, series-file compactions, cache snapshots, close/reopen), [q] ANY query
   (measurement names, tag keys, tag values, series keys - each with an optional predicate built from
   =, !=, =~, !~, AND, OR - exact cardinalities, series-file listing).  [run_spec] folds the history
   over the abstract set of (shard, series) pairs; [spec_answer] projects it.  [is_run]/[is_answer] is
   the store with the in-memory index, [ts_run]/[ts_answer] the store with the TSI (LSM) index.
   [wf_ops]: tag lists of written series have distinct keys and non-empty values (models.Tags);
   [wf_query]: a per-shard query names an existing shard.

   Partial by design: TSI / series-file byte formats, hash indexes, bloom filters and HLL sketches
   are abstracted to entry lists (cardinality ESTIMATES are outside; the exact bitmap path is in);
   a TSI index and the series file are modelled with one partition instead of eight. *)
From Verif Require Import C14.Spec C14.Model C14.Run C14.ProofsSfile C14.ProofsQuery C14.ProofsLsmF C14.Proofs.

(* every listing of the in-memory index, after any history, is the projection of the abstract set:
   nothing written is missing, nothing dropped lingers or returns *)
Theorem inmem_refines_set :
  forall (rx : str -> str -> bool) (n : nat) (ops : list op) (q : query),
    wf_ops ops = true -> wf_query n q = true ->
    answer_equiv (is_answer rx (is_run rx n ops) q) (spec_answer rx n (run_spec rx n ops) q).
Proof. exact inmem_refines. Qed.
Print Assumptions inmem_refines_set.

(* the same for the TSI index: active log, index files by level, tombstones, replay at open *)
Theorem lsm_refines_set :
  forall (rx : str -> str -> bool) (n : nat) (ops : list op) (q : query),
    wf_ops ops = true -> wf_query n q = true ->
    answer_equiv (ts_answer rx (ts_run rx n ops) q) (spec_answer rx n (run_spec rx n ops) q).
Proof. exact lsm_refines. Qed.
Print Assumptions lsm_refines_set.

(* a log->file compaction, a level compaction, a series-file compaction, a snapshot or a reopen
   appended to any history leaves every answer of both stores unchanged *)
Theorem compaction_preserves_view :
  forall (rx : str -> str -> bool) (n : nat) (ops : list op) (o : op) (q : query),
    wf_ops ops = true -> wf_query n q = true -> is_compaction o = true ->
    answer_equiv (ts_answer rx (ts_run rx n (ops ++ [o])) q) (ts_answer rx (ts_run rx n ops) q) /\
    answer_equiv (is_answer rx (is_run rx n (ops ++ [o])) q) (is_answer rx (is_run rx n ops) q).
Proof. exact compaction_view. Qed.
Print Assumptions compaction_preserves_view.

(* the structural core of it: replacing ANY contiguous run of index files by their merge
   (IndexFiles.CompactTo / buildSeriesIDSets) does not change the series id set a restart
   rebuilds - no tombstone is lost while an older file still holds the series *)
Theorem compaction_keeps_tombstones :
  forall (lvl : nat) (run pre post : list tfile) (i : id),
    In i (fold_sids (pre ++ merge_files lvl run :: post)) <-> In i (fold_sids (pre ++ run ++ post)).
Proof. exact fold_merge. Qed.
Print Assumptions compaction_keeps_tombstones.

(* series-file compaction keeps every id's deleted flag and the key of every undeleted id *)
Theorem sfile_compaction_preserves :
  forall sf : sfile, sf_inv sf ->
    sf_inv (sf_compact sf) /\ sf_next (sf_compact sf) = sf_next sf /\
    (forall i, sf_deleted (sf_compact sf) i = sf_deleted sf i) /\
    (forall i, sf_key (sf_compact sf) i = if sf_deleted sf i then None else sf_key sf i).
Proof. exact sf_compact_spec. Qed.
Print Assumptions sfile_compaction_preserves.

(* corollary: both index types answer every question identically *)
Corollary inmem_eq_lsm :
  forall (rx : str -> str -> bool) (n : nat) (ops : list op) (q : query),
    wf_ops ops = true -> wf_query n q = true ->
    answer_equiv (is_answer rx (is_run rx n ops) q) (ts_answer rx (ts_run rx n ops) q).
Proof. exact inmem_eq_lsm_proof. Qed.
Print Assumptions inmem_eq_lsm.

(* the query layer (tsdb/index.go IndexSet) is correct over ANY index whose primitives refine the
   set: exact series ids, at least the live tag keys / values (stale ones allowed), exact names *)
Theorem query_layer_series :
  forall rx pr sf L U, refines pr sf L U ->
  forall m c r, In r (q_series rx pr sf m c) <-> In r (map series_row (series_of rx U m c)).
Proof. exact q_series_ok. Qed.
Print Assumptions query_layer_series.

(* link to the executable check: for EVERY input the models' answers satisfy the executable
   spec of Run.v (a case whose observations are the models' own answers gets code 0) *)
Theorem model_satisfies_executable_spec :
  forall n tab ops q cmp, wf_ops ops = true -> wf_query n q = true ->
    check_case (Case n tab ops q cmp (is_answer (rx_of tab) (is_run (rx_of tab) n ops) q)
                                     (ts_answer (rx_of tab) (ts_run (rx_of tab) n ops) q)) = 0%N.
Proof. exact model_satisfies_spec. Qed.
Print Assumptions model_satisfies_executable_spec.

(* ---------- non-vacuity ---------- *)

Definition ex_rx (p s : str) : bool := str_eqb p s.
Definition s_cpu_a : series := ([99;112;117], [([104], [97]); ([114], [120])])%N.      (* cpu,h=a,r=x *)
Definition s_cpu_b : series := ([99;112;117], [([104], [98]); ([114], [120])])%N.      (* cpu,h=b,r=x *)
Definition s_mem_a : series := ([109;101;109], [([104], [97])])%N.                     (* mem,h=a *)
Definition ex_ops : list op :=
  [OWrite 1 [s_cpu_a; s_cpu_b; s_mem_a]; OWrite 2 [s_cpu_a]; OCompactLog 1;
   ODelete [1] [[99;112;117]%N] (Some (PEq [104]%N [97]%N));          (* DELETE FROM cpu WHERE h='a' in shard 1 *)
   OCompactLog 1; OCompactLevel 1 1; OSfCompact; OReopen; OWrite 1 [s_cpu_a]; ODropM [109;101;109]%N].

Example history_is_wellformed : wf_ops ex_ops = true /\ wf_query 2 (QShSeries 1 [99;112;117]%N None) = true.
Proof. vm_compute. split; reflexivity. Qed.

(* the hypotheses of the theorems are satisfiable and the answers are not trivial *)
Example lsm_answers_nontrivial :
  ts_answer ex_rx (ts_run ex_rx 2 ex_ops) (QTagVals [99;112;117]%N [104]%N None)
  = ARows [[[99;112;117]; [104]; [98]]; [[99;112;117]; [104]; [97]]]%N /\
  ts_answer ex_rx (ts_run ex_rx 2 ex_ops) QCard = ANums [2; 2; 1]%N /\
  spec_answer ex_rx 2 (run_spec ex_rx 2 ex_ops) (QNames None) = ARows [[[99;112;117]%N]].
Proof. vm_compute. repeat split; reflexivity. Qed.

Example case_of_the_model_passes :
  check_case (Case 2 [] ex_ops (QShSeries 1 [99;112;117]%N (Some (PNeq [104]%N [98]%N))) true
                   (is_answer (rx_of []) (is_run (rx_of []) 2 ex_ops) (QShSeries 1 [99;112;117]%N (Some (PNeq [104]%N [98]%N))))
                   (ts_answer (rx_of []) (ts_run (rx_of []) 2 ex_ops) (QShSeries 1 [99;112;117]%N (Some (PNeq [104]%N [98]%N))))) = 0%N.
Proof. vm_compute. reflexivity. Qed.
