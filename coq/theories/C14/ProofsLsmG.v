(* C14/ProofsLsmG.v — replaying the same log under a series file that has forgotten the keys of
   some deleted ids (series-file compaction): the two log file indexes differ only in entries
   of those ids, and the file-set invariant carries over. *)
From Verif Require Import C14.Spec C14.Model C14.ProofsBase C14.ProofsSfile
     C14.ProofsLsmA C14.ProofsLsmB C14.ProofsLsmC C14.ProofsLsmD.

Section Deg.
  Variable D : id -> Prop.      (* ids whose key has vanished *)

  (* l' is l without the elements of vanished ids *)
  Definition restr {A} (idof : A -> id) (l l' : list A) : Prop := forall x, In x l' <-> In x l /\ ~ D (idof x).

  Lemma restr_add_both {A} eqb (Heq : forall x y : A, eqb x y = true <-> x = y) idof x0 l l' :
    ~ D (idof x0) -> restr idof l l' -> restr idof (sadd eqb x0 l) (sadd eqb x0 l').
  Proof. intros Hd R x. unfold restr in R. rewrite !(In_sadd eqb Heq), R. split; [intros [->|H]; tauto|tauto]. Qed.

  Lemma restr_add_left {A} eqb (Heq : forall x y : A, eqb x y = true <-> x = y) idof x0 l l' :
    D (idof x0) -> restr idof l l' -> restr idof (sadd eqb x0 l) l'.
  Proof. intros Hd R x. unfold restr in R. rewrite (In_sadd eqb Heq), R. split; [tauto|]. intros [[->|H] Hn]; tauto. Qed.

  Lemma restr_rem_both {A} eqb (Heq : forall x y : A, eqb x y = true <-> x = y) idof x0 l l' :
    restr idof l l' -> restr idof (sremove eqb x0 l) (sremove eqb x0 l').
  Proof. intros R x. unfold restr in R. rewrite !(In_sremove eqb Heq), R. tauto. Qed.

  Lemma restr_rem_left {A} eqb (Heq : forall x y : A, eqb x y = true <-> x = y) idof x0 l l' :
    D (idof x0) -> restr idof l l' -> restr idof (sremove eqb x0 l) l'.
  Proof. intros Hd R x. unfold restr in R. rewrite (In_sremove eqb Heq), R. split; [|tauto]. intros [H Hn]. ssplit; auto. intros ->. contradiction. Qed.

  Lemma restr_filter {A} (p : A -> bool) idof l l' : restr idof l l' -> restr idof (filter p l) (filter p l').
  Proof. intros R x. unfold restr in R. rewrite !filter_In, R. tauto. Qed.

  Definition vsid (x : str * str * str * id) : id := snd x.
  Definition msid (x : str * id) : id := snd x.
  Definition idid (x : id) : id := x.

  Lemma restr_vs_add_both m i (t : tags) l l' :
    ~ D i -> restr vsid l l' ->
    restr vsid (fold_right (fun kv acc => sadd mkvi_eqb (m, fst kv, snd kv, i) acc) l t)
               (fold_right (fun kv acc => sadd mkvi_eqb (m, fst kv, snd kv, i) acc) l' t).
  Proof.
    intros Hd R. induction t as [|[k v] t IH]; cbn [fold_right]; [exact R|].
    apply (restr_add_both mkvi_eqb mkvi_eqb_eq); [exact Hd|exact IH].
  Qed.

  Lemma restr_vs_add_left m i (t : tags) l l' :
    D i -> restr vsid l l' -> restr vsid (fold_right (fun kv acc => sadd mkvi_eqb (m, fst kv, snd kv, i) acc) l t) l'.
  Proof.
    intros Hd R. induction t as [|[k v] t IH]; cbn [fold_right]; [exact R|].
    apply (restr_add_left mkvi_eqb mkvi_eqb_eq); [exact Hd|exact IH].
  Qed.

  Lemma restr_vs_rem_both m i (t : tags) l l' :
    restr vsid l l' ->
    restr vsid (fold_right (fun kv acc => sremove mkvi_eqb (m, fst kv, snd kv, i) acc) l t)
               (fold_right (fun kv acc => sremove mkvi_eqb (m, fst kv, snd kv, i) acc) l' t).
  Proof.
    intros R. induction t as [|[k v] t IH]; cbn [fold_right]; [exact R|].
    apply (restr_rem_both mkvi_eqb mkvi_eqb_eq). exact IH.
  Qed.

  Lemma restr_vs_rem_left m i (t : tags) l l' :
    D i -> restr vsid l l' -> restr vsid (fold_right (fun kv acc => sremove mkvi_eqb (m, fst kv, snd kv, i) acc) l t) l'.
  Proof.
    intros Hd R. induction t as [|[k v] t IH]; cbn [fold_right]; [exact R|].
    apply (restr_rem_left mkvi_eqb mkvi_eqb_eq); [exact Hd|exact IH].
  Qed.

  (* tombstone sets: nothing is lost, and nothing appears for ids that did not vanish *)
  Definition tmb (l l' : list id) : Prop := (forall j, In j l -> In j l') /\ (forall j, ~ D j -> In j l' -> In j l).

  (* measurement flags *)
  Definition mmr (l l' : list (str * bool)) : Prop :=
    (forall m, flag_get str_eqb m l' = Some false -> flag_get str_eqb m l = Some false) /\
    (forall m, flag_get str_eqb m l = Some true -> flag_get str_eqb m l' = Some true).

  Lemma mmr_set_both m b l l' : mmr l l' -> mmr (flag_set str_eqb m b l) (flag_set str_eqb m b l').
  Proof.
    intros [H1 H2]. split; intros m'; rewrite !(flag_get_set str_eqb str_eqb_eq); destruct (str_eqb m' m); auto.
  Qed.

  Lemma mmr_set_left m l l' : mmr l l' -> mmr (flag_set str_eqb m false l) l'.
  Proof.
    intros [H1 H2]. split; intros m'; rewrite (flag_get_set str_eqb str_eqb_eq); destruct (str_eqb m' m); auto; discriminate.
  Qed.

  Lemma mmr_ensure_both m l l' : mmr l l' -> mmr (flag_ensure str_eqb m l) (flag_ensure str_eqb m l').
  Proof.
    intros [H1 H2]. split; intros m'; rewrite !(flag_get_ensure str_eqb str_eqb_eq).
    - destruct (flag_get str_eqb m' l') as [b'|] eqn:E'.
      + intros H; inversion H; subst. rewrite (H1 m' E'). reflexivity.
      + destruct (str_eqb m' m); [|discriminate]. intros _.
        destruct (flag_get str_eqb m' l) as [[|]|] eqn:E; [rewrite (H2 m' E) in E'; discriminate|reflexivity|reflexivity].
    - destruct (flag_get str_eqb m' l) as [b|] eqn:E.
      + intros H; inversion H; subst. rewrite (H2 m' E). reflexivity.
      + destruct (str_eqb m' m); discriminate.
  Qed.

  (* key / value flags: a tombstone flag on the right is one on the left *)
  Definition flr {K} (eqb : K -> K -> bool) (l l' : list (K * bool)) : Prop :=
    forall k, flag_get eqb k l' = Some true -> flag_get eqb k l = Some true.

  Lemma flr_tk_both m (t : tags) l l' :
    flr mk_eqb l l' ->
    flr mk_eqb (fold_right (fun kv acc => flag_ensure mk_eqb (m, fst kv) acc) l t)
               (fold_right (fun kv acc => flag_ensure mk_eqb (m, fst kv) acc) l' t).
  Proof.
    intros R key. rewrite !flag_get_fold_ensure_tk. destruct (flag_get mk_eqb key l') as [b'|] eqn:E'.
    - intros H; inversion H; subst. rewrite (R key E'). reflexivity.
    - destruct (existsb _ t); discriminate.
  Qed.

  Lemma flr_tk_left m (t : tags) l l' :
    flr mk_eqb l l' -> flr mk_eqb (fold_right (fun kv acc => flag_ensure mk_eqb (m, fst kv) acc) l t) l'.
  Proof. intros R key H. rewrite flag_get_fold_ensure_tk, (R key H). reflexivity. Qed.

  Lemma flr_tv_both m (t : tags) l l' :
    flr mkv_eqb l l' ->
    flr mkv_eqb (fold_right (fun kv acc => flag_ensure mkv_eqb (m, fst kv, snd kv) acc) l t)
                (fold_right (fun kv acc => flag_ensure mkv_eqb (m, fst kv, snd kv) acc) l' t).
  Proof.
    intros R key. rewrite !flag_get_fold_ensure_tv. destruct (flag_get mkv_eqb key l') as [b'|] eqn:E'.
    - intros H; inversion H; subst. rewrite (R key E'). reflexivity.
    - destruct (existsb _ t); discriminate.
  Qed.

  Lemma flr_tv_left m (t : tags) l l' :
    flr mkv_eqb l l' -> flr mkv_eqb (fold_right (fun kv acc => flag_ensure mkv_eqb (m, fst kv, snd kv) acc) l t) l'.
  Proof. intros R key H. rewrite flag_get_fold_ensure_tv, (R key H). reflexivity. Qed.

  Lemma flr_filter {K} (eqb : K -> K -> bool) (Heq : forall x y, eqb x y = true <-> x = y) (p : K * bool -> bool) l l' :
    (forall k b1 b2, p (k, b1) = p (k, b2)) -> flr eqb l l' -> flr eqb (filter p l) (filter p l').
  Proof.
    intros Hp R key. rewrite !(flag_get_filter_key eqb Heq p key _ Hp). destruct (p (key, true)); [apply R|discriminate].
  Qed.

  Lemma flr_set_both {K} (eqb : K -> K -> bool) (Heq : forall x y, eqb x y = true <-> x = y) k b l l' :
    flr eqb l l' -> flr eqb (flag_set eqb k b l) (flag_set eqb k b l').
  Proof. intros R key. rewrite !(flag_get_set eqb Heq). destruct (eqb key k); [auto|apply R]. Qed.

  Lemma flr_ensure_both {K} (eqb : K -> K -> bool) (Heq : forall x y, eqb x y = true <-> x = y) k l l' :
    flr eqb l l' -> flr eqb (flag_ensure eqb k l) (flag_ensure eqb k l').
  Proof.
    intros R key. rewrite !(flag_get_ensure eqb Heq). destruct (flag_get eqb key l') as [b'|] eqn:E'.
    - intros H; inversion H; subst. rewrite (R key E'). reflexivity.
    - destruct (eqb key k); discriminate.
  Qed.

  Record deg (f f' : tfile) : Prop := mkDeg {
    dg_sids : restr idid (tf_sids f) (tf_sids f');
    dg_tombs : tmb (tf_tombs f) (tf_tombs f');
    dg_ms : restr msid (tf_ms f) (tf_ms f');
    dg_vs : restr vsid (tf_vs f) (tf_vs f');
    dg_mm : mmr (tf_mm f) (tf_mm f');
    dg_tk : flr mk_eqb (tf_tk f) (tf_tk f');
    dg_tv : flr mkv_eqb (tf_tv f) (tf_tv f')
  }.

  Lemma deg_empty lvl : deg (tf_empty lvl) (tf_empty lvl).
  Proof.
    constructor; cbn.
    - intros x; cbn; tauto.
    - split; intros; cbn in *; tauto.
    - intros x; cbn; tauto.
    - intros x; cbn; tauto.
    - split; intros m H; cbn in H; discriminate.
    - intros k H; cbn in H; discriminate.
    - intros k H; cbn in H; discriminate.
  Qed.

  Lemma tmb_add_both j l l' : tmb l l' -> tmb (sadd N.eqb j l) (sadd N.eqb j l').
  Proof.
    intros [H1 H2]. split; intros x; rewrite !(In_sadd N.eqb N.eqb_eq); [intros [->|H]; auto|intros Hd [->|H]; auto].
  Qed.

  Lemma tmb_rem_both j l l' : tmb l l' -> tmb (sremove N.eqb j l) (sremove N.eqb j l').
  Proof.
    intros [H1 H2]. split; intros x; rewrite !(In_sremove N.eqb N.eqb_eq); [intros [H Hn]; auto|intros Hd [H Hn]; auto].
  Qed.

  Lemma tmb_rem_left j l l' : D j -> tmb l l' -> tmb (sremove N.eqb j l) l'.
  Proof.
    intros Hj [H1 H2]. split; intros x; rewrite (In_sremove N.eqb N.eqb_eq); [intros [H Hn]; auto|].
    intros Hd H. split; [auto|]. intros ->. contradiction.
  Qed.

  Lemma deg_add_both f f' i s : ~ D i -> deg f f' -> deg (exec_add f i s) (exec_add f' i s).
  Proof.
    intros Hd [H1 H2 H3 H4 H5 H6 H7]. destruct s as [m t]. unfold exec_add. cbn [fst snd].
    constructor; cbn [tf_ms tf_vs tf_sids tf_tombs tf_tk tf_tv tf_mm].
    - apply (restr_add_both N.eqb N.eqb_eq); assumption.
    - apply tmb_rem_both; assumption.
    - apply (restr_add_both mi_eqb mi_eqb_eq); assumption.
    - apply restr_vs_add_both; assumption.
    - apply mmr_set_both; assumption.
    - apply flr_tk_both; assumption.
    - apply flr_tv_both; assumption.
  Qed.

  Lemma deg_add_left f f' i s : D i -> deg f f' -> deg (exec_add f i s) f'.
  Proof.
    intros Hd [H1 H2 H3 H4 H5 H6 H7]. destruct s as [m t]. unfold exec_add. cbn [fst snd].
    constructor; cbn [tf_ms tf_vs tf_sids tf_tombs tf_tk tf_tv tf_mm].
    - apply (restr_add_left N.eqb N.eqb_eq); assumption.
    - apply tmb_rem_left; assumption.
    - apply (restr_add_left mi_eqb mi_eqb_eq); assumption.
    - apply restr_vs_add_left; assumption.
    - apply mmr_set_left; assumption.
    - apply flr_tk_left; assumption.
    - apply flr_tv_left; assumption.
  Qed.

  Lemma deg_tomb_both f f' i s : deg f f' -> deg (exec_tomb f i s) (exec_tomb f' i s).
  Proof.
    intros [H1 H2 H3 H4 H5 H6 H7]. destruct s as [m t]. unfold exec_tomb. cbn [fst snd].
    constructor; cbn [tf_ms tf_vs tf_sids tf_tombs tf_tk tf_tv tf_mm].
    - apply (restr_rem_both N.eqb N.eqb_eq); assumption.
    - apply tmb_add_both; assumption.
    - apply (restr_rem_both mi_eqb mi_eqb_eq); assumption.
    - apply restr_vs_rem_both; assumption.
    - apply mmr_set_both; assumption.
    - apply flr_tk_both; assumption.
    - apply flr_tv_both; assumption.
  Qed.

  Lemma deg_nokey_both f f' i : deg f f' -> deg (exec_tomb_nokey f i) (exec_tomb_nokey f' i).
  Proof.
    intros [H1 H2 H3 H4 H5 H6 H7]. unfold exec_tomb_nokey.
    constructor; cbn [tf_ms tf_vs tf_sids tf_tombs tf_tk tf_tv tf_mm]; try assumption.
    - apply (restr_rem_both N.eqb N.eqb_eq); assumption.
    - apply tmb_add_both; assumption.
  Qed.

  Lemma deg_tomb_left f f' i s : D i -> deg f f' -> deg (exec_tomb f i s) (exec_tomb_nokey f' i).
  Proof.
    intros Hd [H1 H2 H3 H4 H5 H6 H7]. destruct s as [m t]. unfold exec_tomb, exec_tomb_nokey. cbn [fst snd].
    constructor; cbn [tf_ms tf_vs tf_sids tf_tombs tf_tk tf_tv tf_mm].
    - apply (restr_rem_both N.eqb N.eqb_eq); assumption.
    - apply tmb_add_both; assumption.
    - apply (restr_rem_left mi_eqb mi_eqb_eq); assumption.
    - apply restr_vs_rem_left; assumption.
    - apply mmr_set_left; assumption.
    - apply flr_tk_left; assumption.
    - apply flr_tv_left; assumption.
  Qed.

  Lemma deg_tombm f f' m : deg f f' -> deg (exec_tombm f m) (exec_tombm f' m).
  Proof.
    intros [H1 H2 H3 H4 H5 H6 H7]. unfold exec_tombm.
    constructor; cbn [tf_ms tf_vs tf_sids tf_tombs tf_tk tf_tv tf_mm]; try assumption.
    - apply restr_filter; assumption.
    - apply restr_filter; assumption.
    - apply mmr_set_both; assumption.
    - apply (flr_filter mk_eqb mk_eqb_eq); [reflexivity|assumption].
    - apply (flr_filter mkv_eqb mkv_eqb_eq); [reflexivity|assumption].
  Qed.

  Lemma deg_tombk f f' m k : deg f f' -> deg (exec_tombk f m k) (exec_tombk f' m k).
  Proof.
    intros [H1 H2 H3 H4 H5 H6 H7]. unfold exec_tombk.
    constructor; cbn [tf_ms tf_vs tf_sids tf_tombs tf_tk tf_tv tf_mm]; try assumption.
    - apply mmr_ensure_both; assumption.
    - apply (flr_set_both mk_eqb mk_eqb_eq); assumption.
  Qed.

  Lemma deg_tombv f f' m k v : deg f f' -> deg (exec_tombv f m k v) (exec_tombv f' m k v).
  Proof.
    intros [H1 H2 H3 H4 H5 H6 H7]. unfold exec_tombv.
    constructor; cbn [tf_ms tf_vs tf_sids tf_tombs tf_tk tf_tv tf_mm]; try assumption.
    - apply mmr_ensure_both; assumption.
    - apply (flr_ensure_both mk_eqb mk_eqb_eq); assumption.
    - apply (flr_set_both mkv_eqb mkv_eqb_eq); assumption.
  Qed.

End Deg.

(* the two replays *)
Section Replays.
  Variables sf sf' : sfile.
  Hypothesis Hkey : forall i s, sf_key sf' i = Some s -> sf_key sf i = Some s.    (* keys only vanish *)

  Definition vanished (i : id) : Prop := sf_key sf i <> None /\ sf_key sf' i = None.

  Lemma deg_replay ents : deg vanished (log_replay sf ents) (log_replay sf' ents).
  Proof.
    induction ents as [|e ents IH]; cbn [log_replay]; [apply deg_empty|].
    destruct e as [i s|i|m|m k|m k v]; cbn [exec_ent].
    - destruct (sf_key sf' i) as [s'|] eqn:E'.
      + rewrite (Hkey i s' E'). apply deg_add_both; [|exact IH]. intros [_ H]. congruence.
      + destruct (sf_key sf i) as [s0|] eqn:E; [|exact IH]. apply deg_add_left; [|exact IH]. split; congruence.
    - destruct (sf_key sf' i) as [s'|] eqn:E'.
      + rewrite (Hkey i s' E'). apply deg_tomb_both. exact IH.
      + destruct (sf_key sf i) as [s0|] eqn:E; [|apply deg_nokey_both; exact IH].
        apply deg_tomb_left; [|exact IH]. split; congruence.
    - apply deg_tombm. exact IH.
    - apply deg_tombk. exact IH.
    - apply deg_tombv. exact IH.
  Qed.
End Replays.

(* ---------- the file-set invariant carries over to the replay under the compacted series file ---------- *)

Lemma view_deg sf sf' S sids P ents older :
  sf_inv sf -> sf_ext sf sf' ->
  (forall i s, sf_key sf' i = Some s -> sf_key sf i = Some s) ->
  (forall i, In i sids -> sf_key sf' i = sf_key sf i) ->
  ids_ok sf S sids ->
  view_ok sf S sids P ents (log_replay sf ents) older ->
  view_ok sf' S sids P ents (log_replay sf' ents) older.
Proof.
  intros I E Hkey Hsids O V.
  set (f := log_replay sf ents) in *. set (f' := log_replay sf' ents).
  pose proof (deg_replay sf sf' Hkey ents) as [D1 D2 D3 D4 D5 D6 D7]. fold f f' in D1, D2, D3, D4, D5, D6, D7.
  pose proof (built_replay sf' ents) as B'. fold f' in B'.
  pose proof (vo_files _ _ _ _ _ _ _ V) as VF. pose proof (VF f (or_introl eq_refl)) as F0.
  assert (Hlive : forall j, In j sids -> ~ vanished sf sf' j).
  { intros j Hj [H1 H2]. rewrite (Hsids j Hj) in H2. contradiction. }
  assert (Hdec : forall j, vanished sf sf' j \/ ~ vanished sf sf' j).
  { intros j. unfold vanished. destruct (sf_key sf j), (sf_key sf' j); [right|left|right|right]; try (intros [H1 H2]; congruence).
    split; congruence. }
  unfold restr in D1, D3, D4. destruct D2 as [T1 T2]. destruct D5 as [M1 M2].
  constructor.
  - intros g [<-|Hg]; [|eapply file_ok_ext; [exact E|apply VF; cbn; auto]].
    constructor.
    + intros m j s Hin Hk. apply D3 in Hin. destruct Hin as [Hin _]. eapply (fo_ms sf f F0); eauto.
    + intros m k v j s Hin Hk. apply (D4 (m, k, v, j)) in Hin. destruct Hin as [Hin _]. eapply (fo_vs sf f F0); eauto.
    + apply (bo_disj f' B').
    + apply (bo_nodup f' B').
    + intros mk H. apply D6 in H. apply (fo_tk sf f F0 mk). exact H.
    + intros mkv H. apply D7 in H. apply (fo_tv sf f F0 mkv). exact H.
    + intros j Hj. apply N.lt_le_trans with (sf_next sf); [|apply (se_next sf sf' E)].
      destruct Hj as [H|[H|[[m H]|[mkv H]]]].
      * apply D1 in H. apply (fo_bound sf f F0). left. tauto.
      * destruct (Hdec j) as [[Hv _]|Hn].
        -- destruct (sf_key sf j) eqn:Ek; [eapply sf_key_bound; eauto|congruence].
        -- apply (fo_bound sf f F0). right; left. auto.
      * apply D3 in H. apply (fo_bound sf f F0). right; right; left. exists m. tauto.
      * apply (D4 (mkv, j)) in H. apply (fo_bound sf f F0). right; right; right. exists mkv. tauto.
    + apply (bo_vs_tv f' B').
    + intros m j Hin. rewrite (bo_f8 f' B' m j Hin). discriminate.
  - exact B'.
  - intros j. rewrite fold_sids_cons, <- (vo_fold _ _ _ _ _ _ _ V j), fold_sids_cons.
    destruct (Hdec j) as [Hv|Hn].
    + assert (Hns : ~ In j sids) by (intros Hj; apply (Hlive j Hj); exact Hv).
      assert (Hnf : ~ In j (fold_sids (f :: older))) by (intros H; apply Hns; apply (vo_fold _ _ _ _ _ _ _ V j); exact H).
      rewrite fold_sids_cons in Hnf. rewrite D1. cbn [idid].
      split; [|tauto]. intros [[H1 H2]|[H1 H2]]; [|contradiction].
      exfalso. destruct (in_dec N.eq_dec j (tf_tombs f)) as [Ht|Ht]; [apply H2; apply T1; exact Ht|tauto].
    + rewrite D1. cbn [idid]. split.
      * intros [[H1 H2]|[H1 _]]; [left; split; [exact H1|]; intros Ht; apply H2; apply T1; exact Ht|right; exact H1].
      * intros [[H1 H2]|H1]; [left; split; [exact H1|]; intros Ht; apply H2; apply T2; assumption|right; tauto].
  - intros j s Hj Hk. rewrite (Hsids j Hj) in Hk. pose proof (Hlive j Hj) as Hn.
    destruct (home_cons_cases _ _ _ _ (vo_home _ _ _ _ _ _ _ V j s Hj Hk)) as [[H1 [H2 H3]]|[H1 H2]].
    + apply home_head; [apply D1|apply D3|intros k v Hkv; apply (D4 (fst s, k, v, j))]; cbn; auto.
    + apply home_tail; [|exact H2]. intros Ht. apply H1. apply T2; assumption.
  - intros s Hs. destruct (io_cover _ _ _ O s Hs) as [j [Hj Hk]]. rewrite v_mflag_cons.
    destruct (vo_anchor _ _ _ _ _ _ _ V j s Hj Hk) as [Hl|[Hr1 Hr2]].
    + assert (Hin : In (fst s, j) (tf_ms f')) by (apply D3; split; [exact Hl|apply Hlive; exact Hj]).
      rewrite (bo_f8 f' B' _ _ Hin). reflexivity.
    + destruct (flag_get str_eqb (fst s) (tf_mm f')) as [[|]|] eqn:Ef; [|reflexivity|exact Hr2].
      exfalso. apply Hr1. apply (true_from_replay sf' ents). exact Ef.
  - intros m. rewrite v_mflag_cons. intros H. apply (vo_flag_s _ _ _ _ _ _ _ V m). rewrite v_mflag_cons.
    destruct (flag_get str_eqb m (tf_mm f')) as [[|]|] eqn:Ef'; [discriminate|rewrite (M1 m Ef'); reflexivity|].
    destruct (flag_get str_eqb m (tf_mm f)) as [[|]|] eqn:Ef; [rewrite (M2 m Ef) in Ef'; discriminate|reflexivity|exact H].
  - apply true_from_replay.
  - intros j s Hj Hk. rewrite (Hsids j Hj) in Hk.
    destruct (vo_anchor _ _ _ _ _ _ _ V j s Hj Hk) as [Hl|Hr]; [left|right; exact Hr].
    apply D3. split; [exact Hl|apply Hlive; exact Hj].
Qed.
