(* C14/ProofsLsmE.v — from the file-set invariant to the primitives of the query layer, and the
   log file compaction. *)
From Verif Require Import C14.Spec C14.Model C14.ProofsBase C14.ProofsQuery C14.ProofsSfile
     C14.ProofsLsmA C14.ProofsLsmB C14.ProofsLsmC C14.ProofsLsmD.

(* ---------- merged key / value flags when no tombstone flag is around ---------- *)

Lemma key_files_all files m k :
  (forall f, In f files -> flag_get mk_eqb (m, k) (tf_tk f) <> Some true) ->
  forall f, In f (key_files files m k) <-> In f files /\ flag_get mk_eqb (m, k) (tf_tk f) <> None.
Proof.
  induction files as [|g files IH]; intros H f; cbn [key_files]; [cbn; tauto|].
  assert (H' : forall f0, In f0 files -> flag_get mk_eqb (m, k) (tf_tk f0) <> Some true) by (intros; apply H; cbn; auto).
  specialize (IH H' f). pose proof (H g (or_introl eq_refl)) as Hg.
  destruct (flag_get mk_eqb (m, k) (tf_tk g)) as [[|]|] eqn:E; [congruence| |].
  - cbn [In]. rewrite IH. split; [intros [<-|[H1 H2]]; [split; [auto|congruence]|tauto]|intros [[<-|H1] H2]; tauto].
  - rewrite IH. cbn [In]. split; [tauto|]. intros [[<-|H1] H2]; [congruence|tauto].
Qed.

Lemma v_kflag_false files m k :
  (forall f, In f files -> flag_get mk_eqb (m, k) (tf_tk f) <> Some true) ->
  (exists f, In f files /\ flag_get mk_eqb (m, k) (tf_tk f) <> None) -> v_kflag files m k = Some false.
Proof.
  induction files as [|g files IH]; intros H [f [Hf Hn]]; [destruct Hf|]. cbn [v_kflag].
  pose proof (H g (or_introl eq_refl)) as Hg.
  destruct (flag_get mk_eqb (m, k) (tf_tk g)) as [[|]|] eqn:E; [congruence|reflexivity|].
  apply IH; [intros; apply H; cbn; auto|]. destruct Hf as [<-|Hf]; [congruence|eauto].
Qed.

Lemma v_vflag_false files m k v :
  (forall f, In f files -> flag_get mkv_eqb (m, k, v) (tf_tv f) <> Some true) ->
  (exists f, In f files /\ flag_get mkv_eqb (m, k, v) (tf_tv f) <> None) -> v_vflag files m k v = Some false.
Proof.
  induction files as [|g files IH]; intros H [f [Hf Hn]]; [destruct Hf|]. cbn [v_vflag].
  pose proof (H g (or_introl eq_refl)) as Hg.
  destruct (flag_get mkv_eqb (m, k, v) (tf_tv g)) as [[|]|] eqn:E; [congruence|reflexivity|].
  apply IH; [intros; apply H; cbn; auto|]. destruct Hf as [<-|Hf]; [congruence|eauto].
Qed.

Section Prims.
  Variable sf : sfile.
  Hypothesis I : sf_inv sf.
  Variables (S : list series) (ents : list lent) (t : tsi).
  Hypothesis V : view_ok sf S (t_sids t) [] ents (t_log t) (t_older t).
  Hypothesis O : ids_ok sf S (t_sids t).

  Let F := t_files t.

  Lemma F_ok f : In f F -> file_ok sf f.
  Proof. apply (vo_files _ _ _ _ _ _ _ V). Qed.

  Lemma home_file i s : In i (t_sids t) -> sf_key sf i = Some s ->
    exists newer f older, F = newer ++ f :: older /\ In i (tf_sids f) /\ (forall g, In g newer -> ~ In i (tf_tombs g)) /\
      In (fst s, i) (tf_ms f) /\ (forall k v, In (k, v) (snd s) -> In (fst s, k, v, i) (tf_vs f)).
  Proof. intros Hi Hk. exact (vo_home _ _ _ _ _ _ _ V i s Hi Hk). Qed.

  Lemma In_existing ids i : In i (existing (t_sids t) ids) <-> In i ids /\ In i (t_sids t).
  Proof. unfold existing. rewrite filter_In, (memb_In N.eqb N.eqb_eq). tauto. Qed.

  Theorem tsi_refines : refines (tsi_prims t) sf (t_sids t) S.
  Proof.
    constructor.
    - apply (io_wf _ _ _ O).
    - intros i Hi. destruct (io_live _ _ _ O i Hi) as [s [H1 [H2 H3]]]. exists s. auto.
    - apply (io_cover _ _ _ O).
    - (* measurement series *)
      intros m i. cbn [tsi_prims p_mseries]. fold F. rewrite In_existing, In_iunions. split.
      + intros [[l [Hl Hi]] Hs]. apply in_map_iff in Hl. destruct Hl as [f [<- Hf]]. apply In_f_mseries in Hi.
        destruct (io_live _ _ _ O i Hs) as [s [Hk _]]. exists s. split; [split; assumption|].
        eapply (fo_ms sf f (F_ok f Hf)); eauto.
      + intros [s [[Hs Hk] Hm]]. split; [|exact Hs].
        destruct (home_file i s Hs Hk) as [newer [f [older [E [H1 [H2 [H3 H4]]]]]]].
        exists (f_mseries f m). split; [apply in_map_iff; exists f; split; [reflexivity|rewrite E; apply in_or_app; right; cbn; auto]|].
        apply In_f_mseries. subst m. exact H3.
    - (* tag key series *)
      intros m k i. cbn [tsi_prims p_kseries]. fold F. rewrite In_existing, In_iunions. split.
      + intros [[l [Hl Hi]] Hs]. apply in_map_iff in Hl. destruct Hl as [f [<- Hf]]. apply In_f_kseries in Hi. destruct Hi as [v Hi].
        destruct (io_live _ _ _ O i Hs) as [s [Hk [_ HS]]]. exists s. split; [split; assumption|].
        destruct (fo_vs sf f (F_ok f Hf) _ _ _ _ _ Hi Hk) as [Hm Hin]. split; [exact Hm|].
        apply (has_key_In s k (io_wf _ _ _ O s HS)). eauto.
      + intros [s [[Hs Hk] [Hm Hhk]]]. split; [|exact Hs].
        destruct (io_live _ _ _ O i Hs) as [s' [Hk' [_ HS]]]. rewrite Hk in Hk'. inversion Hk'; subst s'.
        apply (has_key_In s k (io_wf _ _ _ O s HS)) in Hhk. destruct Hhk as [v Hin].
        destruct (home_file i s Hs Hk) as [newer [f [older [E [H1 [H2 [H3 H4]]]]]]].
        exists (f_kseries f m k). split; [apply in_map_iff; exists f; split; [reflexivity|rewrite E; apply in_or_app; right; cbn; auto]|].
        apply In_f_kseries. exists v. subst m. apply H4. exact Hin.
    - (* tag value series *)
      intros m k v i. cbn [tsi_prims p_vseries]. fold F. rewrite In_existing. split.
      + intros [Hi Hs]. apply vfold_sub in Hi. destruct Hi as [f [Hf Hi]]. apply In_f_vseries in Hi.
        destruct (io_live _ _ _ O i Hs) as [s [Hk _]]. exists s. split; [split; assumption|].
        eapply (fo_vs sf f (F_ok f Hf)); eauto.
      + intros [s [[Hs Hk] [Hm Hin]]]. split; [|exact Hs].
        destruct (home_file i s Hs Hk) as [newer [f [older [E [H1 [H2 [H3 H4]]]]]]].
        rewrite E. apply vfold_home; [apply In_f_vseries; subst m; apply H4; exact Hin| |exact H2].
        intros Ht. eapply (fo_disj sf f); eauto. apply F_ok. rewrite E. apply in_or_app; right; cbn; auto.
    - (* tag values listed *)
      intros s k v HS Hin. cbn [tsi_prims p_vals]. fold F.
      destruct (io_cover _ _ _ O s HS) as [i [Hs Hk]].
      destruct (home_file i s Hs Hk) as [newer [f [older [E [H1 [H2 [H3 H4]]]]]]].
      assert (Hf : In f F) by (rewrite E; apply in_or_app; right; cbn; auto).
      destruct (fo_vs_tv sf f (F_ok f Hf) _ _ _ _ (H4 k v Hin)) as [Htv Htk].
      assert (Hkf : In f (key_files F (fst s) k)).
      { apply key_files_all; [intros g Hg; apply (fo_tk sf g (F_ok g Hg))|auto]. }
      unfold v_vals. apply filter_In. split.
      + unfold v_vals_all. apply In_sunions. exists (f_vals f (fst s) k). split; [apply in_map_iff; eauto|apply In_f_vals; exact Htv].
      + rewrite v_vflag_false; [reflexivity| |exists f; auto].
        intros g Hg. apply (fo_tv sf g). apply F_ok. apply (key_files_all F (fst s) k) in Hg; [tauto|].
        intros g' Hg'. apply (fo_tk sf g' (F_ok g' Hg')).
    - (* tag keys listed *)
      intros s k v HS Hin. cbn [tsi_prims p_keys]. fold F.
      destruct (io_cover _ _ _ O s HS) as [i [Hs Hk]].
      destruct (home_file i s Hs Hk) as [newer [f [older [E [H1 [H2 [H3 H4]]]]]]].
      assert (Hf : In f F) by (rewrite E; apply in_or_app; right; cbn; auto).
      destruct (fo_vs_tv sf f (F_ok f Hf) _ _ _ _ (H4 k v Hin)) as [Htv Htk].
      unfold v_keys_all. apply In_sunions. exists (f_keys f (fst s)). split; [apply in_map_iff; eauto|apply In_f_keys; exact Htk].
    - (* HasTagKey *)
      intros s k v HS Hin. cbn [tsi_prims p_has_key]. fold F.
      destruct (io_cover _ _ _ O s HS) as [i [Hs Hk]].
      destruct (home_file i s Hs Hk) as [newer [f [older [E [H1 [H2 [H3 H4]]]]]]].
      assert (Hf : In f F) by (rewrite E; apply in_or_app; right; cbn; auto).
      destruct (fo_vs_tv sf f (F_ok f Hf) _ _ _ _ (H4 k v Hin)) as [Htv Htk].
      rewrite v_kflag_false; [reflexivity|intros g Hg; apply (fo_tk sf g (F_ok g Hg))|exists f; auto].
    - (* measurement names *)
      intros m. cbn [tsi_prims p_meas]. unfold v_meas. rewrite filter_In. unfold t_files. split.
      + intros [_ Hf]. destruct (v_mflag (t_log t :: t_older t) m) as [[|]|] eqn:E; try discriminate.
        destruct (vo_flag_s _ _ _ _ _ _ _ V m E) as [H|[]]. exact H.
      + intros [s [HS Hm]]. pose proof (vo_flag_c _ _ _ _ _ _ _ V s HS) as Hc. rewrite Hm in Hc.
        split; [eapply v_mflag_Some; eauto|rewrite Hc; reflexivity].
  Qed.

  (* Partition.MeasurementHasSeries *)
  Lemma tsi_meas_has_series_ok m : tsi_meas_has_series t m = true <-> exists s, In s S /\ fst s = m.
  Proof.
    unfold tsi_meas_has_series. fold F. rewrite existsb_exists. split.
    - intros [f [Hf He]]. apply existsb_exists in He. destruct He as [i [Hi Hs]].
      apply (memb_In N.eqb N.eqb_eq) in Hs. apply In_f_mseries in Hi.
      destruct (io_live _ _ _ O i Hs) as [s [Hk [_ HS]]]. exists s. split; [exact HS|].
      eapply (fo_ms sf f (F_ok f Hf)); eauto.
    - intros [s [HS Hm]]. destruct (io_cover _ _ _ O s HS) as [i [Hs Hk]].
      destruct (home_file i s Hs Hk) as [newer [f [older [E [H1 [H2 [H3 H4]]]]]]].
      exists f. split; [rewrite E; apply in_or_app; right; cbn; auto|].
      apply existsb_exists. exists i. split; [apply In_f_mseries; subst m; exact H3|apply (memb_In N.eqb N.eqb_eq); exact Hs].
  Qed.
End Prims.

(* ---------- LogFile.CompactTo ---------- *)

Lemma filter_all_true {A} (p : A -> bool) l : (forall x, In x l -> p x = true) -> filter p l = l.
Proof.
  induction l as [|x l IH]; intros H; cbn; [reflexivity|]. rewrite (H x (or_introl eq_refl)), IH; [reflexivity|].
  intros y Hy. apply H. cbn; auto.
Qed.

Lemma log_to_index_eq sf f :
  file_ok sf f -> log_to_index f = mkTf 1 (tf_mm f) (tf_ms f) (tf_tk f) (tf_tv f) (tf_vs f) (tf_sids f) (tf_tombs f).
Proof.
  intros Fo. unfold log_to_index. f_equal; apply filter_all_true; intros x _;
    match goal with |- context [flag_get mk_eqb ?mk _] => pose proof (fo_tk sf f Fo mk) as H; destruct (flag_get mk_eqb mk (tf_tk f)) as [[|]|]; [congruence|reflexivity|reflexivity] end.
Qed.

Definition relevel (lvl : nat) (f : tfile) : tfile :=
  mkTf lvl (tf_mm f) (tf_ms f) (tf_tk f) (tf_tv f) (tf_vs f) (tf_sids f) (tf_tombs f).

Lemma file_ok_relevel sf lvl f : file_ok sf f -> file_ok sf (relevel lvl f).
Proof. intros [H1 H2 H3 H4 H5 H6 H7 H8 H9]. constructor; assumption. Qed.

Lemma home_relevel lvl f0 older i s : home (f0 :: older) i s -> home (relevel lvl f0 :: older) i s.
Proof.
  intros H. destruct (home_cons_cases _ _ _ _ H) as [[H1 [H2 H3]]|[H1 H2]]; [apply home_head|apply home_tail]; assumption.
Qed.

Lemma view_compact_log sf S sids ents f0 older :
  view_ok sf S sids [] ents f0 older -> ids_ok sf S sids ->
  view_ok sf S sids [] [] (tf_empty 0) (log_to_index f0 :: older).
Proof.
  intros V O. pose proof (vo_files _ _ _ _ _ _ _ V) as VF.
  rewrite (log_to_index_eq sf f0 (VF f0 (or_introl eq_refl))). fold (relevel 1 f0).
  assert (Hflag : forall m, v_mflag (tf_empty 0 :: relevel 1 f0 :: older) m = v_mflag (f0 :: older) m) by reflexivity.
  constructor.
  - intros f [<-|[<-|Hf]]; [apply file_ok_empty|apply file_ok_relevel; apply VF; cbn; auto|apply VF; cbn; auto].
  - apply built_ok_empty.
  - intros i. rewrite <- (vo_fold _ _ _ _ _ _ _ V i). rewrite fold_sids_cons. cbn [tf_empty tf_sids tf_tombs In].
    rewrite !fold_sids_cons. cbn [relevel tf_sids tf_tombs]. tauto.
  - intros i s Hi Hk. apply home_tail; [cbn; tauto|]. apply home_relevel. apply (vo_home _ _ _ _ _ _ _ V); assumption.
  - intros s Hs. rewrite Hflag. apply (vo_flag_c _ _ _ _ _ _ _ V). exact Hs.
  - intros m. rewrite Hflag. apply (vo_flag_s _ _ _ _ _ _ _ V).
  - intros m H. cbn in H. discriminate.
  - intros i s Hi Hk. right. split; [intros []|].
    destruct (io_live _ _ _ O i Hi) as [s' [Hk' [_ HS]]]. rewrite Hk in Hk'. inversion Hk'; subst s'.
    change (v_mflag (relevel 1 f0 :: older) (fst s)) with (v_mflag (f0 :: older) (fst s)).
    apply (vo_flag_c _ _ _ _ _ _ _ V). exact HS.
Qed.
