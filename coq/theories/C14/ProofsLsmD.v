(* C14/ProofsLsmD.v — the invariant tying the file set of one TSI shard (a log file index f0 on top
   of the older index files) to the set S of series that exist in the shard and to their ids,
   and its preservation by the execution of log entries. *)
From Verif Require Import C14.Spec C14.Model C14.ProofsBase C14.ProofsSfile C14.ProofsLsmA C14.ProofsLsmB C14.ProofsLsmC.

(* the ids of the shard and the series of the shard correspond through the series file *)
Record ids_ok (sf : sfile) (S : list series) (sids : list id) : Prop := mkIdsOk {
  io_nodup : NoDup sids;
  io_live : forall i, In i sids -> exists s, sf_key sf i = Some s /\ sf_deleted sf i = false /\ In s S;
  io_cover : forall s, In s S -> exists i, In i sids /\ sf_key sf i = Some s;
  io_wf : forall s, In s S -> wf_series s = true
}.

(* where the entries of a live id are: the newest file that has it in its series id set;
   no newer file tombstones it *)
Definition home (F : list tfile) (i : id) (s : series) : Prop :=
  exists newer f older,
    F = newer ++ f :: older /\ In i (tf_sids f) /\ (forall g, In g newer -> ~ In i (tf_tombs g)) /\
    In (fst s, i) (tf_ms f) /\ (forall k v, In (k, v) (snd s) -> In (fst s, k, v, i) (tf_vs f)).

Record view_ok (sf : sfile) (S : list series) (sids : list id) (P : list str) (ents : list lent)
       (f0 : tfile) (older : list tfile) : Prop := mkViewOk {
  vo_files : forall f, In f (f0 :: older) -> file_ok sf f;
  vo_built : built_ok f0;
  vo_fold : forall i, In i (fold_sids (f0 :: older)) <-> In i sids;
  vo_home : forall i s, In i sids -> sf_key sf i = Some s -> home (f0 :: older) i s;
  vo_flag_c : forall s, In s S -> v_mflag (f0 :: older) (fst s) = Some false;
  (* P: measurements whose last series was just dropped and that are about to be checked *)
  vo_flag_s : forall m, v_mflag (f0 :: older) m = Some false -> (exists s, In s S /\ fst s = m) \/ In m P;
  vo_true : true_from ents f0;
  (* a live id either has its measurement entry in the log file index, or the log holds no tombstone of
     its measurement and the older files already show the measurement *)
  vo_anchor : forall i s, In i sids -> sf_key sf i = Some s ->
              In (fst s, i) (tf_ms f0) \/ (~ In (LTombM (fst s)) ents /\ v_mflag older (fst s) = Some false)
}.

Lemma home_cons_cases f0 older i s :
  home (f0 :: older) i s ->
  (In i (tf_sids f0) /\ In (fst s, i) (tf_ms f0) /\ (forall k v, In (k, v) (snd s) -> In (fst s, k, v, i) (tf_vs f0))) \/
  (~ In i (tf_tombs f0) /\ home older i s).
Proof.
  intros [newer [f [older' [E [H1 [H2 [H3 H4]]]]]]]. destruct newer as [|g newer]; cbn in E; inversion E; subst.
  - left. auto.
  - right. split; [apply H2; cbn; auto|]. exists newer, f, older'. ssplit; auto. intros g' Hg. apply H2. cbn; auto.
Qed.

Lemma home_head f0 older i s :
  In i (tf_sids f0) -> In (fst s, i) (tf_ms f0) -> (forall k v, In (k, v) (snd s) -> In (fst s, k, v, i) (tf_vs f0)) ->
  home (f0 :: older) i s.
Proof. intros H1 H2 H3. exists [], f0, older. ssplit; auto; try (intros g' []). Qed.

Lemma home_tail f0 older i s : ~ In i (tf_tombs f0) -> home older i s -> home (f0 :: older) i s.
Proof.
  intros Hn [newer [f [older' [E [H1 [H2 [H3 H4]]]]]]]. exists (f0 :: newer), f, older'. subst. ssplit; auto.
  intros g' [<-|Hg]; auto.
Qed.

Lemma v_mflag_cons f0 older m :
  v_mflag (f0 :: older) m = match flag_get str_eqb m (tf_mm f0) with Some b => Some b | None => v_mflag older m end.
Proof. reflexivity. Qed.

Lemma fold_sids_cons f0 older i :
  In i (fold_sids (f0 :: older)) <-> (In i (fold_sids older) /\ ~ In i (tf_tombs f0)) \/ In i (tf_sids f0).
Proof. cbn [fold_sids]. rewrite In_iunion, In_idiff. tauto. Qed.

Section Steps.
  Variable sf : sfile.
  Hypothesis I : sf_inv sf.
  Variables (S : list series) (sids : list id) (P : list str) (ents : list lent) (f0 : tfile) (older : list tfile).
  Hypothesis V : view_ok sf S sids P ents f0 older.
  Hypothesis O : ids_ok sf S sids.

  Lemma live_key_unique i j s : In i sids -> In j sids -> sf_key sf i = Some s -> sf_key sf j = Some s -> i = j.
  Proof.
    intros Hi Hj Ki Kj. destruct (io_live sf S sids O i Hi) as [s1 [K1 [D1 _]]], (io_live sf S sids O j Hj) as [s2 [K2 [D2 _]]].
    apply (sf_live_unique sf I i j s); auto.
  Qed.

  (* ----- a new series id joins the shard: LAdd i s ----- *)
  Lemma view_add b i s S' :
    sf_key sf i = Some s -> ~ In i sids -> (forall x, In x S' <-> x = s \/ In x S) ->
    view_ok sf S' (i :: sids) P (LAdd i s :: ents) (exec_ent b sf f0 (LAdd i s)) older.
  Proof.
    intros Hk Hni HS'.
    assert (Ex : exec_ent b sf f0 (LAdd i s) = exec_add f0 i s) by (cbn; destruct b; [rewrite Hk|]; reflexivity).
    rewrite Ex. clear Ex. pose proof (vo_files _ _ _ _ _ _ _ V) as VF.
    assert (F0 : file_ok sf (exec_add f0 i s)) by (apply exec_add_ok; auto; apply VF; cbn; auto).
    destruct s as [m t]. constructor.
    - intros f [<-|Hf]; [exact F0|apply VF; cbn; auto].
    - apply built_add. apply (vo_built _ _ _ _ _ _ _ V).
    - intros j. rewrite fold_sids_cons. unfold exec_add; cbn [tf_sids tf_tombs fst].
      rewrite (In_sremove N.eqb N.eqb_eq), (In_sadd N.eqb N.eqb_eq). cbn [In].
      rewrite <- (vo_fold _ _ _ _ _ _ _ V j), fold_sids_cons.
      destruct (N.eq_dec j i) as [->|Hne]; [tauto|]. intuition congruence.
    - intros j sj [<-|Hj] Kj.
      + rewrite Hk in Kj. inversion Kj; subst sj. apply home_head; unfold exec_add; cbn [tf_sids tf_ms tf_vs fst snd].
        * apply (In_sadd N.eqb N.eqb_eq). auto.
        * apply (In_sadd mi_eqb mi_eqb_eq). auto.
        * intros k v Hkv. apply In_fold_sadd_vs. right. eauto.
      + assert (Hji : j <> i) by (intros ->; contradiction).
        destruct (home_cons_cases _ _ _ _ (vo_home _ _ _ _ _ _ _ V j sj Hj Kj)) as [[H1 [H2 H3]]|[H1 H2]].
        * apply home_head; unfold exec_add; cbn [tf_sids tf_ms tf_vs fst snd].
          -- apply (In_sadd N.eqb N.eqb_eq). auto.
          -- apply (In_sadd mi_eqb mi_eqb_eq). auto.
          -- intros k v Hkv. apply In_fold_sadd_vs. left. auto.
        * apply home_tail; [|exact H2]. unfold exec_add; cbn [tf_tombs]. rewrite (In_sremove N.eqb N.eqb_eq). tauto.
    - intros x Hx. rewrite v_mflag_cons. unfold exec_add; cbn [tf_mm fst]. rewrite (flag_get_set str_eqb str_eqb_eq).
      destruct (str_eqb (fst x) m) eqn:Em; [reflexivity|]. apply HS' in Hx. destruct Hx as [->|Hx]; [cbn in Em; rewrite str_eqb_refl in Em; discriminate|].
      rewrite <- v_mflag_cons. apply (vo_flag_c _ _ _ _ _ _ _ V). exact Hx.
    - intros m'. rewrite v_mflag_cons. unfold exec_add; cbn [tf_mm fst]. rewrite (flag_get_set str_eqb str_eqb_eq).
      destruct (str_eqb m' m) eqn:Em.
      + apply str_eqb_eq in Em. subst m'. intros _. left. exists (m, t). split; [apply HS'; auto|reflexivity].
      + rewrite <- v_mflag_cons. intros H. destruct (vo_flag_s _ _ _ _ _ _ _ V m' H) as [[x [Hx Ex]]|HP]; [left; exists x; split; [apply HS'; auto|exact Ex]|auto].
    - change (exec_add f0 i (m, t)) with (exec_ent false sf f0 (LAdd i (m, t))). apply true_from_exec. apply (vo_true _ _ _ _ _ _ _ V).
    - intros j sj [<-|Hj] Kj.
      + rewrite Hk in Kj. inversion Kj; subst sj. left. unfold exec_add; cbn [tf_ms fst]. apply (In_sadd mi_eqb mi_eqb_eq). auto.
      + destruct (vo_anchor _ _ _ _ _ _ _ V j sj Hj Kj) as [Hl|[Hr1 Hr2]].
        * left. unfold exec_add; cbn [tf_ms fst]. apply (In_sadd mi_eqb mi_eqb_eq). auto.
        * right. split; [|exact Hr2]. intros [E|Hin]; [discriminate|auto].
  Qed.

  (* ----- a live id leaves the shard: LTombS i with a readable key ----- *)
  Lemma view_tomb b i s S' sids' :
    In i sids -> sf_key sf i = Some s ->
    (forall x, In x S' <-> In x S /\ x <> s) -> (forall j, In j sids' <-> In j sids /\ j <> i) ->
    view_ok sf S' sids' (fst s :: P) (LTombS i :: ents) (exec_ent b sf f0 (LTombS i)) older.
  Proof.
    intros Hi Hk HS' Hsids'.
    assert (Ex : exec_ent b sf f0 (LTombS i) = exec_tomb f0 i s) by (cbn; rewrite Hk; reflexivity).
    pose proof (vo_files _ _ _ _ _ _ _ V) as VF.
    assert (F0 : file_ok sf (exec_tomb f0 i s)) by (apply exec_tomb_ok; auto; apply VF; cbn; auto).
    assert (T0 : true_from (LTombS i :: ents) (exec_tomb f0 i s)) by (rewrite <- Ex; apply true_from_exec; apply (vo_true _ _ _ _ _ _ _ V)).
    rewrite Ex. clear Ex. destruct s as [m t]. cbn [fst]. constructor.
    - intros f [<-|Hf]; [exact F0|apply VF; cbn; auto].
    - apply built_tomb. apply (vo_built _ _ _ _ _ _ _ V).
    - intros j. rewrite fold_sids_cons. unfold exec_tomb; cbn [tf_sids tf_tombs fst].
      rewrite (In_sremove N.eqb N.eqb_eq), (In_sadd N.eqb N.eqb_eq), Hsids'.
      rewrite <- (vo_fold _ _ _ _ _ _ _ V j), fold_sids_cons.
      destruct (N.eq_dec j i) as [->|Hne]; [tauto|]. intuition congruence.
    - intros j sj Hj Kj. apply Hsids' in Hj. destruct Hj as [Hj Hji].
      destruct (home_cons_cases _ _ _ _ (vo_home _ _ _ _ _ _ _ V j sj Hj Kj)) as [[H1 [H2 H3]]|[H1 H2]].
      + apply home_head; unfold exec_tomb; cbn [tf_sids tf_ms tf_vs fst snd].
        * apply (In_sremove N.eqb N.eqb_eq). auto.
        * apply (In_sremove mi_eqb mi_eqb_eq). split; [exact H2|congruence].
        * intros k v Hkv. apply In_fold_sremove_vs. split; [auto|]. intros [k' [v' [_ E]]]. congruence.
      + apply home_tail; [|exact H2]. unfold exec_tomb; cbn [tf_tombs]. rewrite (In_sadd N.eqb N.eqb_eq). intuition congruence.
    - intros x Hx. apply HS' in Hx. destruct Hx as [Hx _]. rewrite v_mflag_cons. unfold exec_tomb; cbn [tf_mm fst].
      rewrite (flag_get_set str_eqb str_eqb_eq). destruct (str_eqb (fst x) m) eqn:Em; [reflexivity|].
      rewrite <- v_mflag_cons. apply (vo_flag_c _ _ _ _ _ _ _ V). exact Hx.
    - intros m'. rewrite v_mflag_cons. unfold exec_tomb; cbn [tf_mm fst]. rewrite (flag_get_set str_eqb str_eqb_eq).
      destruct (str_eqb m' m) eqn:Em.
      + apply str_eqb_eq in Em. subst m'. intros _. right. cbn; auto.
      + rewrite <- v_mflag_cons. intros H. destruct (vo_flag_s _ _ _ _ _ _ _ V m' H) as [[x [Hx Ex]]|HP]; [|right; cbn; auto].
        left. exists x. split; [|exact Ex]. apply HS'. split; [exact Hx|]. intros ->. cbn in Ex. subst m'.
        rewrite str_eqb_refl in Em. discriminate.
    - exact T0.
    - intros j sj Hj Kj. apply Hsids' in Hj. destruct Hj as [Hj Hji].
      destruct (vo_anchor _ _ _ _ _ _ _ V j sj Hj Kj) as [Hl|[Hr1 Hr2]].
      + left. unfold exec_tomb; cbn [tf_ms fst]. apply (In_sremove mi_eqb mi_eqb_eq). split; [exact Hl|congruence].
      + right. split; [|exact Hr2]. intros [E|Hin]; [discriminate|auto].
  Qed.

  (* ----- a pending measurement that still has series needs no tombstone ----- *)
  Lemma view_pend m P' :
    (exists s, In s S /\ fst s = m) -> (forall x, In x P -> x = m \/ In x P') -> view_ok sf S sids P' ents f0 older.
  Proof.
    intros Hex HP. constructor; try apply V.
    intros m' H. destruct (vo_flag_s _ _ _ _ _ _ _ V m' H) as [Hl|Hr]; [auto|].
    destruct (HP m' Hr) as [->|Hr']; auto.
  Qed.

  (* ----- DropMeasurement m when no series of m is left ----- *)
  Lemma view_dropm m ids ents' P' :
    (forall s, In s S -> fst s <> m) ->
    (forall i, In i ids -> ~ In i sids /\ (i < sf_next sf)%N) ->
    (forall x, In (LTombM x) ents' <-> x = m \/ In (LTombM x) ents) ->
    (forall x, In x P -> x = m \/ In x P') ->
    view_ok sf S sids P' ents' (fold_left exec_tomb_nokey ids (exec_tombm f0 m)) older.
  Proof.
    intros Hno Hids Hents HP.
    pose proof (vo_files _ _ _ _ _ _ _ V) as VF.
    set (g := fold_left exec_tomb_nokey ids (exec_tombm f0 m)).
    destruct (fold_nokey_components ids (exec_tombm f0 m)) as [_ [Gmm [Gms [Gtk [Gtv [Gvs [Gs Gt]]]]]]]. fold g in Gmm, Gms, Gtk, Gtv, Gvs, Gs, Gt.
    cbn [exec_tombm tf_mm tf_ms tf_tk tf_tv tf_vs tf_sids tf_tombs] in Gmm, Gms, Gvs, Gs, Gt.
    assert (Hname : forall j sj, In j sids -> sf_key sf j = Some sj -> fst sj <> m).
    { intros j sj Hj Kj. destruct (io_live sf S sids O j Hj) as [s' [K' [_ HS]]]. rewrite Kj in K'. inversion K'; subst s'. apply Hno. exact HS. }
    assert (Gflag : forall m', flag_get str_eqb m' (tf_mm g) = if str_eqb m' m then Some true else flag_get str_eqb m' (tf_mm f0)).
    { intros m'. rewrite Gmm. apply (flag_get_set str_eqb str_eqb_eq). }
    constructor.
    - intros f [<-|Hf]; [|apply VF; cbn; auto]. apply fold_nokey_ok; [apply exec_tombm_ok; apply VF; cbn; auto|apply Hids].
    - unfold g. clear Gmm Gms Gtk Gtv Gvs Gs Gt Gflag. generalize (built_tombm f0 m (vo_built _ _ _ _ _ _ _ V)).
      generalize (exec_tombm f0 m). induction ids as [|j ids IH]; intros f B; cbn [fold_left]; [exact B|].
      apply IH; [intros i Hi; apply Hids; cbn; auto|apply built_nokey; exact B].
    - intros j. rewrite fold_sids_cons, Gs, Gt. rewrite <- (vo_fold _ _ _ _ _ _ _ V j), fold_sids_cons.
      split; [tauto|]. intros H. assert (Hj : In j sids) by (apply (vo_fold _ _ _ _ _ _ _ V j); apply fold_sids_cons; exact H).
      assert (~ In j ids) by (intros Hin; apply (Hids j Hin); exact Hj). tauto.
    - intros j sj Hj Kj. pose proof (Hname j sj Hj Kj) as Hne.
      assert (Hnid : ~ In j ids) by (intros Hin; apply (Hids j Hin); exact Hj).
      destruct (home_cons_cases _ _ _ _ (vo_home _ _ _ _ _ _ _ V j sj Hj Kj)) as [[H1 [H2 H3]]|[H1 H2]].
      + apply home_head.
        * apply Gs. auto.
        * rewrite Gms. apply filter_In. split; [exact H2|]. cbn. apply negb_true_iff, str_eqb_neq. exact Hne.
        * intros k v Hkv. rewrite Gvs. apply filter_In. split; [auto|]. cbn. apply negb_true_iff, str_eqb_neq. exact Hne.
      + apply home_tail; [|exact H2]. rewrite Gt. tauto.
    - intros x Hx. rewrite v_mflag_cons, Gflag. pose proof (Hno x Hx) as Hne. apply str_eqb_neq in Hne. rewrite Hne.
      rewrite <- v_mflag_cons. apply (vo_flag_c _ _ _ _ _ _ _ V). exact Hx.
    - intros m'. rewrite v_mflag_cons, Gflag. destruct (str_eqb m' m) eqn:Em; [discriminate|].
      rewrite <- v_mflag_cons. intros H. destruct (vo_flag_s _ _ _ _ _ _ _ V m' H) as [Hl|Hr]; [auto|].
      destruct (HP m' Hr) as [->|Hr']; [rewrite str_eqb_refl in Em; discriminate|auto].
    - intros m'. rewrite Gflag. destruct (str_eqb m' m) eqn:Em.
      + apply str_eqb_eq in Em. subst. intros _. apply Hents. auto.
      + intros H. apply Hents. right. apply (vo_true _ _ _ _ _ _ _ V). exact H.
    - intros j sj Hj Kj. pose proof (Hname j sj Hj Kj) as Hne.
      destruct (vo_anchor _ _ _ _ _ _ _ V j sj Hj Kj) as [Hl|[Hr1 Hr2]].
      + left. rewrite Gms. apply filter_In. split; [exact Hl|]. cbn. apply negb_true_iff, str_eqb_neq. exact Hne.
      + right. split; [|exact Hr2]. intros Hin. apply Hents in Hin. destruct Hin as [E|Hin]; [apply Hne; exact E|auto].
  Qed.
End Steps.

(* ----- the series file changes but keeps the keys of the ids of this shard ----- *)
Lemma view_sf sf sf' S sids P ents f0 older :
  sf_ext sf sf' -> (forall i, In i sids -> sf_key sf' i = sf_key sf i) ->
  view_ok sf S sids P ents f0 older -> view_ok sf' S sids P ents f0 older.
Proof.
  intros E K V. constructor; try apply V.
  - intros f Hf. eapply file_ok_ext; [exact E|]. apply (vo_files _ _ _ _ _ _ _ V). exact Hf.
  - intros i s Hi Hk. rewrite (K i Hi) in Hk. apply (vo_home _ _ _ _ _ _ _ V); assumption.
  - intros i s Hi Hk. rewrite (K i Hi) in Hk. apply (vo_anchor _ _ _ _ _ _ _ V); assumption.
Qed.

Lemma view_set_ext sf S S' sids sids' P ents f0 older :
  (forall x, In x S' <-> In x S) -> (forall i, In i sids' <-> In i sids) ->
  view_ok sf S sids P ents f0 older -> view_ok sf S' sids' P ents f0 older.
Proof.
  intros HS Hs V. constructor; try apply V.
  - intros i. rewrite Hs. apply (vo_fold _ _ _ _ _ _ _ V).
  - intros i s Hi. apply Hs in Hi. apply (vo_home _ _ _ _ _ _ _ V); assumption.
  - intros s Hin. apply HS in Hin. apply (vo_flag_c _ _ _ _ _ _ _ V); assumption.
  - intros m H. destruct (vo_flag_s _ _ _ _ _ _ _ V m H) as [[s [Hin E]]|Hr]; [left; exists s; split; [apply HS; exact Hin|exact E]|auto].
  - intros i s Hi. apply Hs in Hi. apply (vo_anchor _ _ _ _ _ _ _ V); assumption.
Qed.
