(* C14/ProofsLsmF.v — level compaction: the merged index file and what replacing a contiguous
   run of index files by it does to the file-set invariant (nothing). *)
From Verif Require Import C14.Spec C14.Model C14.ProofsBase C14.ProofsSfile
     C14.ProofsLsmA C14.ProofsLsmB C14.ProofsLsmC C14.ProofsLsmD C14.ProofsLsmE.

Lemma flag_get_map_fn {K} (eqb : K -> K -> bool) (Heq : forall x y, eqb x y = true <-> x = y) (h : K -> bool) l k :
  flag_get eqb k (map (fun x => (x, h x)) l) = if memb eqb k l then Some (h k) else None.
Proof.
  induction l as [|x l IH]; cbn; [reflexivity|].
  destruct (eqb k x) eqn:E; cbn; [apply Heq in E; subst; reflexivity|exact IH].
Qed.

Lemma v_mflag_None files m : v_mflag files m = None <-> ~ In m (sunions (map f_names files)).
Proof.
  induction files as [|f files IH]; cbn [v_mflag map]; [cbn; tauto|].
  rewrite In_sunions. destruct (flag_get str_eqb m (tf_mm f)) eqn:E.
  - split; [discriminate|]. intros H. exfalso. apply H. exists (f_names f). split; [cbn; auto|]. apply In_f_names. congruence.
  - rewrite IH, In_sunions. split; intros H [l [Hl Hm]]; apply H.
    + destruct Hl as [<-|Hl]; [apply In_f_names in Hm; congruence|eauto].
    + exists l. cbn; auto.
Qed.

Lemma v_kflag_Some files m k b : v_kflag files m k = Some b -> exists f, In f files /\ flag_get mk_eqb (m, k) (tf_tk f) = Some b.
Proof.
  induction files as [|f files IH]; cbn [v_kflag]; [discriminate|].
  destruct (flag_get mk_eqb (m, k) (tf_tk f)) eqn:E; [intros H; inversion H; subst; exists f; cbn; auto|].
  intros H. destruct (IH H) as [g [Hg Hb]]. exists g. cbn; auto.
Qed.

Lemma v_kflag_None files m k : v_kflag files m k = None <-> forall f, In f files -> flag_get mk_eqb (m, k) (tf_tk f) = None.
Proof.
  induction files as [|f files IH]; cbn [v_kflag]; [split; [intros _ f []|reflexivity]|].
  destruct (flag_get mk_eqb (m, k) (tf_tk f)) eqn:E.
  - split; [discriminate|]. intros H. specialize (H f (or_introl eq_refl)). congruence.
  - rewrite IH. split; [intros H g [<-|Hg]; auto|intros H g Hg; apply H; cbn; auto].
Qed.

Lemma v_vflag_Some files m k v b : v_vflag files m k v = Some b -> exists f, In f files /\ flag_get mkv_eqb (m, k, v) (tf_tv f) = Some b.
Proof.
  induction files as [|f files IH]; cbn [v_vflag]; [discriminate|].
  destruct (flag_get mkv_eqb (m, k, v) (tf_tv f)) eqn:E; [intros H; inversion H; subst; exists f; cbn; auto|].
  intros H. destruct (IH H) as [g [Hg Hb]]. exists g. cbn; auto.
Qed.

Lemma key_files_sub files m k f : In f (key_files files m k) -> In f files.
Proof.
  induction files as [|g files IH]; cbn [key_files]; [tauto|].
  destruct (flag_get mk_eqb (m, k) (tf_tk g)) as [[|]|]; cbn [In]; intuition.
Qed.

Section Merge.
  Variable sf : sfile.
  Variable lvl : nat.
  Variable run : list tfile.
  Hypothesis R : forall f, In f run -> file_ok sf f.

  Let g := merge_files lvl run.
  Let names := sunions (map f_names run).
  Let mks := dedup mk_eqb (flat_map (fun f => map fst (tf_tk f)) run).
  Let mkvs := flat_map (fun mk => map (fun v => (fst mk, snd mk, v)) (v_vals_all run (fst mk) (snd mk))) mks.

  Lemma g_sets : (tf_sids g, tf_tombs g) = build_sets run.
  Proof. unfold g, merge_files. destruct (build_sets run) as [ss ts]. reflexivity. Qed.

  Lemma g_mm m : flag_get str_eqb m (tf_mm g) = v_mflag run m.
  Proof.
    unfold g, merge_files. destruct (build_sets run) as [ss ts]. cbn [tf_mm]. fold names.
    rewrite (flag_get_map_fn str_eqb str_eqb_eq). destruct (memb str_eqb m names) eqn:E.
    - apply (memb_In str_eqb str_eqb_eq) in E. destruct (v_mflag run m) eqn:Ev; [reflexivity|].
      apply v_mflag_None in Ev. contradiction.
    - apply (memb_false str_eqb str_eqb_eq) in E. symmetry. apply v_mflag_None. exact E.
  Qed.

  Lemma In_mks m k : In (m, k) mks <-> exists f, In f run /\ flag_get mk_eqb (m, k) (tf_tk f) <> None.
  Proof.
    unfold mks. rewrite (In_dedup mk_eqb mk_eqb_eq), in_flat_map. split.
    - intros [f [Hf Hin]]. exists f. split; [exact Hf|]. intros Hn. apply (flag_get_none mk_eqb mk_eqb_eq) in Hn. contradiction.
    - intros [f [Hf Hn]]. exists f. split; [exact Hf|].
      destruct (flag_get mk_eqb (m, k) (tf_tk f)) as [b|] eqn:E; [|congruence].
      apply (flag_get_some_in mk_eqb mk_eqb_eq) in E. apply in_map_iff. exists (m, k, b). auto.
  Qed.

  Lemma g_tk m k : flag_get mk_eqb (m, k) (tf_tk g) = v_kflag run m k.
  Proof.
    unfold g, merge_files. destruct (build_sets run) as [ss ts]. cbn [tf_tk]. fold mks.
    rewrite (flag_get_map_fn mk_eqb mk_eqb_eq (fun mk => match v_kflag run (fst mk) (snd mk) with Some b => b | None => false end)).
    cbn [fst snd]. destruct (memb mk_eqb (m, k) mks) eqn:E.
    - apply (memb_In mk_eqb mk_eqb_eq) in E. apply In_mks in E. destruct E as [f [Hf Hn]].
      destruct (v_kflag run m k) eqn:Ev; [reflexivity|]. exfalso. apply Hn. exact (proj1 (v_kflag_None run m k) Ev f Hf).
    - apply (memb_false mk_eqb mk_eqb_eq) in E. symmetry. apply v_kflag_None. intros f Hf.
      destruct (flag_get mk_eqb (m, k) (tf_tk f)) eqn:Ef; [|reflexivity]. exfalso. apply E. apply In_mks. exists f. split; [exact Hf|congruence].
  Qed.

  Lemma kf_all m k f : In f (key_files run m k) <-> In f run /\ flag_get mk_eqb (m, k) (tf_tk f) <> None.
  Proof. apply key_files_all. intros f' Hf'. apply (fo_tk sf f' (R f' Hf')). Qed.

  Lemma In_vals_all m k v : In v (v_vals_all run m k) <-> exists f, In f run /\ flag_get mk_eqb (m, k) (tf_tk f) <> None /\ flag_get mkv_eqb (m, k, v) (tf_tv f) <> None.
  Proof.
    unfold v_vals_all. rewrite In_sunions. split.
    - intros [l [Hl Hv]]. apply in_map_iff in Hl. destruct Hl as [f [<- Hf]]. apply kf_all in Hf. apply In_f_vals in Hv.
      exists f. tauto.
    - intros [f [Hf [Hk Hv]]]. exists (f_vals f m k). split; [apply in_map_iff; exists f; split; [reflexivity|apply kf_all; auto]|apply In_f_vals; exact Hv].
  Qed.

  Lemma In_mkvs m k v : In (m, k, v) mkvs <-> In v (v_vals_all run m k) /\ In (m, k) mks.
  Proof.
    unfold mkvs. rewrite in_flat_map. split.
    - intros [[m' k'] [Hmk Hin]]. cbn [fst snd] in Hin. apply in_map_iff in Hin. destruct Hin as [v' [E Hv]]. inversion E; subst. auto.
    - intros [Hv Hmk]. exists (m, k). split; [exact Hmk|]. cbn [fst snd]. apply in_map_iff. exists v. auto.
  Qed.

  Lemma g_ms m i : In (m, i) (tf_ms g) <-> exists f, In f run /\ In (m, i) (tf_ms f).
  Proof.
    unfold g, merge_files. destruct (build_sets run) as [ss ts]. cbn [tf_ms]. fold names. rewrite in_flat_map. split.
    - intros [m' [Hm Hin]]. apply in_map_iff in Hin. destruct Hin as [j [E Hj]]. inversion E; subst.
      apply In_iunions in Hj. destruct Hj as [l [Hl Hj]]. apply in_map_iff in Hl. destruct Hl as [f [<- Hf]].
      exists f. split; [exact Hf|apply In_f_mseries; exact Hj].
    - intros [f [Hf Hin]]. exists m. split.
      + unfold names. apply In_sunions. exists (f_names f). split; [apply in_map_iff; eauto|].
        apply In_f_names. eapply (fo_ms_mm sf f (R f Hf)); eauto.
      + apply in_map_iff. exists i. split; [reflexivity|]. apply In_iunions. exists (f_mseries f m).
        split; [apply in_map_iff; eauto|apply In_f_mseries; exact Hin].
  Qed.

  Lemma g_vs m k v i : In (m, k, v, i) (tf_vs g) <-> exists f, In f run /\ In (m, k, v, i) (tf_vs f).
  Proof.
    unfold g, merge_files. destruct (build_sets run) as [ss ts]. cbn [tf_vs]. fold mks. fold mkvs. rewrite in_flat_map. split.
    - intros [[[m' k'] v'] [Hm Hin]]. cbn [fst snd] in Hin. apply in_map_iff in Hin. destruct Hin as [j [E Hj]]. inversion E; subst.
      apply In_iunions in Hj. destruct Hj as [l [Hl Hj]]. apply in_map_iff in Hl. destruct Hl as [f [<- Hf]].
      exists f. split; [exact Hf|apply In_f_vseries; exact Hj].
    - intros [f [Hf Hin]]. destruct (fo_vs_tv sf f (R f Hf) _ _ _ _ Hin) as [Htv Htk]. exists (m, k, v). split.
      + apply In_mkvs. split; [apply In_vals_all; exists f; auto|apply In_mks; exists f; auto].
      + cbn [fst snd]. apply in_map_iff. exists i. split; [reflexivity|]. apply In_iunions. exists (f_vseries f m k v).
        split; [apply in_map_iff; eauto|apply In_f_vseries; exact Hin].
  Qed.

  Lemma g_tv m k v :
    flag_get mkv_eqb (m, k, v) (tf_tv g) =
    if memb mkv_eqb (m, k, v) mkvs then Some (match v_vflag (key_files run m k) m k v with Some b => b | None => false end) else None.
  Proof.
    unfold g, merge_files. destruct (build_sets run) as [ss ts]. cbn [tf_tv]. fold mks. fold mkvs.
    rewrite (flag_get_map_fn mkv_eqb mkv_eqb_eq
               (fun mkv => match v_vflag (key_files run (fst (fst mkv)) (snd (fst mkv))) (fst (fst mkv)) (snd (fst mkv)) (snd mkv) with Some b => b | None => false end)).
    reflexivity.
  Qed.

  Lemma merge_ok : file_ok sf g.
  Proof.
    pose proof g_sets as Hs.
    constructor.
    - intros m i s Hin Hk. apply g_ms in Hin. destruct Hin as [f [Hf Hin]]. eapply (fo_ms sf f (R f Hf)); eauto.
    - intros m k v i s Hin Hk. apply g_vs in Hin. destruct Hin as [f [Hf Hin]]. eapply (fo_vs sf f (R f Hf)); eauto.
    - intros i H1 H2. apply (build_sets_disjoint run i); rewrite <- Hs; assumption.
    - assert (E : tf_sids g = fst (build_sets run)) by (rewrite <- Hs; reflexivity). rewrite E.
      destruct run as [|f r]; cbn [build_sets]; [constructor|]. destruct (build_sets r) as [ss ts]. cbn [fst].
      apply (NoDup_sunion N.eqb N.eqb_eq). apply (fo_nodup sf f). apply R. cbn; auto.
    - intros [m k]. rewrite g_tk. intros H. apply v_kflag_Some in H. destruct H as [f [Hf Hb]]. apply (fo_tk sf f (R f Hf) (m, k)). exact Hb.
    - intros [[m k] v]. rewrite g_tv. destruct (memb mkv_eqb (m, k, v) mkvs); [|congruence].
      destruct (v_vflag (key_files run m k) m k v) as [[|]|] eqn:E; try congruence.
      apply v_vflag_Some in E. destruct E as [f [Hf Hb]]. apply key_files_sub in Hf. exfalso. apply (fo_tv sf f (R f Hf) (m, k, v)). exact Hb.
    - intros i [H|[H|[[m H]|[[[m k] v] H]]]].
      + assert (H' : In i (fst (build_sets run))) by (rewrite <- Hs; exact H).
        destruct (proj1 (build_sets_sub run) i H') as [f [Hf Hi]]. apply (fo_bound sf f (R f Hf)). left. exact Hi.
      + assert (H' : In i (snd (build_sets run))) by (rewrite <- Hs; exact H).
        destruct (proj2 (build_sets_sub run) i H') as [f [Hf Hi]]. apply (fo_bound sf f (R f Hf)). right; left. exact Hi.
      + apply g_ms in H. destruct H as [f [Hf Hi]]. apply (fo_bound sf f (R f Hf)). right; right; left. eauto.
      + apply g_vs in H. destruct H as [f [Hf Hi]]. apply (fo_bound sf f (R f Hf)). right; right; right. eauto.
    - intros m k v i Hin. apply g_vs in Hin. destruct Hin as [f [Hf Hin]]. destruct (fo_vs_tv sf f (R f Hf) _ _ _ _ Hin) as [Htv Htk]. split.
      + rewrite g_tv. assert (E : memb mkv_eqb (m, k, v) mkvs = true).
        { apply (memb_In mkv_eqb mkv_eqb_eq). apply In_mkvs. split; [apply In_vals_all; exists f; auto|apply In_mks; exists f; auto]. }
        rewrite E. congruence.
      + rewrite g_tk. intros Hn. apply Htk. exact (proj1 (v_kflag_None run m k) Hn f Hf).
    - intros m i Hin. apply g_ms in Hin. destruct Hin as [f [Hf Hin]]. rewrite g_mm. intros Hn.
      apply v_mflag_None in Hn. apply Hn. apply In_sunions. exists (f_names f). split; [apply in_map_iff; eauto|].
      apply In_f_names. eapply (fo_ms_mm sf f (R f Hf)); eauto.
  Qed.

  (* the home of a live id survives the merge *)
  Lemma home_run post i s :
    home (run ++ post) i s ->
    (In i (tf_sids g) /\ In (fst s, i) (tf_ms g) /\ (forall k v, In (k, v) (snd s) -> In (fst s, k, v, i) (tf_vs g))) \/
    (~ In i (tf_tombs g) /\ home post i s).
  Proof.
    pose proof g_sets as Hs.
    assert (Es : tf_sids g = fst (build_sets run)) by (rewrite <- Hs; reflexivity).
    assert (Et : tf_tombs g = snd (build_sets run)) by (rewrite <- Hs; reflexivity).
    rewrite Es, Et. clear Hs Es Et.
    assert (Hgen : forall r, (forall f, In f r -> In f run) -> home (r ++ post) i s ->
             (In i (fst (build_sets r)) /\ exists f, In f r /\ In (fst s, i) (tf_ms f) /\ (forall k v, In (k, v) (snd s) -> In (fst s, k, v, i) (tf_vs f))) \/
             (~ In i (snd (build_sets r)) /\ home post i s)).
    { induction r as [|f r IH]; intros Hsub H; cbn [app build_sets] in *; [right; cbn; tauto|].
      destruct (build_sets r) as [ss ts] eqn:Eb. cbn [fst snd] in *.
      destruct (home_cons_cases _ _ _ _ H) as [[H1 [H2 H3]]|[H1 H2]].
      - left. split; [apply In_iunion; auto|exists f; cbn; auto].
      - destruct (IH (fun f' Hf' => Hsub f' (or_intror Hf')) H2) as [[Ha [f' [Hf' Hb]]]|[Ha Hb]].
        + left. split; [apply In_iunion; left; apply In_idiff; auto|exists f'; cbn; auto].
        + right. split; [|exact Hb]. rewrite In_idiff, In_iunion. tauto. }
    intros H. destruct (Hgen run (fun f Hf => Hf) H) as [[Ha [f [Hf [Hb Hc]]]]|Hr]; [left|right; exact Hr].
    split; [exact Ha|]. split; [apply g_ms; eauto|]. intros k v Hkv. apply g_vs. eauto.
  Qed.

  Lemma home_merge pre post i s : home (pre ++ run ++ post) i s -> home (pre ++ g :: post) i s.
  Proof.
    induction pre as [|p pre IH]; cbn [app]; intros H.
    - destruct (home_run post i s H) as [[H1 [H2 H3]]|[H1 H2]]; [apply home_head|apply home_tail]; assumption.
    - destruct (home_cons_cases _ _ _ _ H) as [[H1 [H2 H3]]|[H1 H2]]; [apply home_head; assumption|apply home_tail; auto].
  Qed.

  Lemma mflag_merge pre post m : v_mflag (pre ++ g :: post) m = v_mflag (pre ++ run ++ post) m.
  Proof.
    rewrite !v_mflag_app. cbn [v_mflag]. rewrite g_mm. destruct (v_mflag pre m); [reflexivity|].
    destruct (v_mflag run m); reflexivity.
  Qed.

  Lemma fold_merge pre post i : In i (fold_sids (pre ++ g :: post)) <-> In i (fold_sids (pre ++ run ++ post)).
  Proof.
    rewrite !fold_sids_app. apply apply_run_ext. intros j. cbn [fold_sids].
    rewrite (build_sets_apply run (fold_sids post) j), <- g_sets. cbn [fst snd].
    rewrite In_iunion, In_idiff. tauto.
  Qed.
End Merge.

Lemma split_level_app lvl files :
  let '(pre, run, post) := split_level lvl files in files = pre ++ run ++ post /\ (run = [] -> pre = []).
Proof.
  induction files as [|f files IH]; cbn [split_level]; [auto|].
  destruct (split_level lvl files) as [[pre run] post]. destruct IH as [E Hp].
  destruct (Nat.eqb (tf_level f) lvl).
  - destruct pre as [|p pre]; cbn [app]; subst files; (split; [reflexivity|]).
    + intros H; discriminate.
    + intros H. specialize (Hp H). discriminate.
  - destruct run as [|r run]; cbn [app].
    + rewrite (Hp eq_refl) in E. cbn in E. subst files. auto.
    + subst files. split; [reflexivity|intros H; discriminate].
Qed.

Lemma view_compact_level sf S sids P ents f0 pre run post lvl :
  view_ok sf S sids P ents f0 (pre ++ run ++ post) ->
  view_ok sf S sids P ents f0 (pre ++ merge_files lvl run :: post).
Proof.
  intros V. pose proof (vo_files _ _ _ _ _ _ _ V) as VF.
  assert (R : forall f, In f run -> file_ok sf f).
  { intros f Hf. apply VF. right. apply in_or_app. right. apply in_or_app. auto. }
  constructor.
  - intros f [<-|Hf]; [apply VF; cbn; auto|]. apply in_app_or in Hf. destruct Hf as [Hf|[<-|Hf]].
    + apply VF. right. apply in_or_app. auto.
    + apply merge_ok. exact R.
    + apply VF. right. apply in_or_app. right. apply in_or_app. auto.
  - apply (vo_built _ _ _ _ _ _ _ V).
  - intros i. rewrite <- (vo_fold _ _ _ _ _ _ _ V i). apply (fold_merge lvl run (f0 :: pre) post i).
  - intros i s Hi Hk. apply (home_merge sf lvl run R (f0 :: pre) post i s). apply (vo_home _ _ _ _ _ _ _ V); assumption.
  - intros s Hs. pose proof (mflag_merge lvl run (f0 :: pre) post (fst s)) as E. cbn [app] in E. rewrite E. apply (vo_flag_c _ _ _ _ _ _ _ V). exact Hs.
  - intros m. pose proof (mflag_merge lvl run (f0 :: pre) post m) as E. cbn [app] in E. rewrite E. apply (vo_flag_s _ _ _ _ _ _ _ V).
  - apply (vo_true _ _ _ _ _ _ _ V).
  - intros i s Hi Hk. rewrite (mflag_merge lvl run pre post). apply (vo_anchor _ _ _ _ _ _ _ V i s); assumption.
Qed.
