(* C14/ProofsInmem3.v — the store with the in-memory index: invariant, steps, answers. *)
From Coq Require Import Permutation.
From Verif Require Import C14.Spec C14.Model C14.ProofsBase C14.ProofsQuery C14.ProofsSfile
     C14.ProofsLsmA C14.ProofsLsmB C14.ProofsLsmD C14.ProofsLsmE C14.ProofsLsmH C14.ProofsTs C14.ProofsTsAns C14.ProofsClean C14.ProofsInmem C14.ProofsInmem2 C14.ProofsInmemW.

Definition is_L (st : istate) : list id := iunions (map sh_sids (is_sh st)).

Record is_ok (n : nat) (A : sstate) (st : istate) : Prop := mkIsOk {
  ik_sf : sf_inv (is_sf st);
  ik_len : length (is_sh st) = n;
  ik_data : forall p, In p (is_data st) <-> In p A;
  ik_A : forall sh s, In (sh, s) A -> valid_shard n sh = true /\ wf_series s = true;
  ik_shard : forall sh, valid_shard n sh = true -> ids_ok (is_sf st) (shard_set A sh) (sh_sids (is_get st sh));
  ik_sfl : forall i s, sf_key (is_sf st) i = Some s -> sf_deleted (is_sf st) i = false ->
           exists sh, valid_shard n sh = true /\ In i (sh_sids (is_get st sh));
  ik_ix : ix_ok (is_sf st) (is_L st) (is_ix st);
  (* measurements may be dirty (Store.DeleteShard does not rebuild); their tag entries are then only weakly exact *)
  ik_tv : tv_weak (is_sf st) (is_L st) (is_ix st)
}.

Lemma In_ish l n t : length l = n -> (In t l <-> exists sh, valid_shard n sh = true /\ t = nth (sh - 1) l ish_empty).
Proof.
  intros Hl. split.
  - intros H. apply (In_nth _ _ ish_empty) in H. destruct H as [k [Hk E]]. exists (S k). split.
    + apply valid_shard_iff. lia.
    + cbn. rewrite Nat.sub_0_r. symmetry. exact E.
  - intros [sh [Hv ->]]. apply valid_shard_iff in Hv. apply nth_In. lia.
Qed.

Lemma In_is_L_gen l n i : length l = n ->
  (In i (iunions (map sh_sids l)) <-> exists sh, valid_shard n sh = true /\ In i (sh_sids (nth (sh - 1) l ish_empty))).
Proof.
  intros Hl. rewrite In_iunions. split.
  - intros [x [Hx Hi]]. apply in_map_iff in Hx. destruct Hx as [t [<- Ht]]. apply (In_ish l n t Hl) in Ht.
    destruct Ht as [sh [Hv ->]]. eauto.
  - intros [sh [Hv Hi]]. exists (sh_sids (nth (sh - 1) l ish_empty)). split; [|exact Hi].
    apply in_map_iff. exists (nth (sh - 1) l ish_empty). split; [reflexivity|]. apply (In_ish l n _ Hl). eauto.
Qed.

Lemma is_init_ok n : is_ok n [] (is_init n).
Proof.
  constructor; cbn.
  - apply sf_inv_empty.
  - apply repeat_length.
  - tauto.
  - intros sh s [].
  - intros sh Hv. unfold is_get, is_init; cbn. rewrite nth_repeat. cbn. constructor; cbn; try (intros; tauto). constructor.
  - intros i s H. cbn in H. discriminate.
  - unfold is_L, is_init; cbn. apply (ix_ok_L sf_empty []); [|apply ix_ok_empty].
    intros i. rewrite (In_is_L_gen (repeat ish_empty n) n i (repeat_length _ _)). split; [|intros []].
    intros [sh [_ H]]. rewrite nth_repeat in H. destruct H.
  - constructor; [|intros m k v i []].
    intros m k v i s Hi. exfalso. unfold is_L, is_init in Hi. cbn [is_sh] in Hi.
    apply (In_is_L_gen (repeat ish_empty n) n i (repeat_length _ _)) in Hi. destruct Hi as [sh [_ H]]. rewrite nth_repeat in H. destruct H.
Qed.

Lemma dedup_NoDup_id {A} (eqb : A -> A -> bool) (Heq : forall x y, eqb x y = true <-> x = y) l : NoDup l -> dedup eqb l = l.
Proof.
  induction 1 as [|x l Hx Hl IH]; cbn; [reflexivity|]. rewrite IH. unfold sadd.
  rewrite (proj2 (memb_false eqb Heq x l) Hx). reflexivity.
Qed.

(* deleting the ids no shard holds any more from the series file and from the global index *)
Lemma dead_fold dead : forall sf L ix,
  sf_inv sf -> ix_ok sf L ix -> NoDup (map fst dead) ->
  (forall i k, In (i, k) dead -> In i L /\ sf_key sf i = Some k) ->
  let '(sf2, ix2) := fold_left (fun a p => match sf_key (fst a) (fst p) with
                                            | Some k => (sf_delete (fst a) (fst p), ix_drop_series_global (snd a) k)
                                            | None => (sf_delete (fst a) (fst p), snd a)
                                            end) dead (sf, ix) in
  sf_inv sf2 /\ sf_next sf2 = sf_next sf /\ (forall j, sf_key sf2 j = sf_key sf j) /\
  (forall j, ~ In j (map fst dead) -> sf_deleted sf2 j = sf_deleted sf j) /\
  (forall j, In j (map fst dead) -> sf_deleted sf2 j = true) /\
  ix_ok sf2 (filter (fun j => negb (memb N.eqb j (map fst dead))) L) ix2 /\
  (tv_weak sf L ix -> tv_weak sf2 (filter (fun j => negb (memb N.eqb j (map fst dead))) L) ix2).
Proof.
  induction dead as [|[i k] dead IH]; intros sf L ix I X Hnd Hd; cbn [fold_left map fst].
  - assert (HLf : forall j, In j (filter (fun j => negb (memb N.eqb j [])) L) <-> In j L) by (intros j; rewrite filter_In; cbn; tauto).
    ssplit; auto; try (intros j Hj; destruct Hj; fail); [apply (ix_ok_L sf L); [exact HLf|exact X]|intros W; apply (tv_weak_L sf L); [exact HLf|exact W]].
  - inversion Hnd as [|i' l' Hni Hnd']; subst. destruct (Hd i k (or_introl eq_refl)) as [Hi Hk]. cbn [fst snd]. rewrite Hk.
    destruct (sf_delete_spec sf I i) as [I1 [Hdi [Hn1 [Hk1 Ho1]]]]. cbv zeta in *.
    set (L1 := filter (fun j => negb (N.eqb j i)) L).
    assert (HL1 : forall j, In j L1 <-> In j L /\ j <> i).
    { intros j. unfold L1. rewrite filter_In, negb_true_iff, N.eqb_neq. tauto. }
    pose proof (ix_drop_global_ok sf I L ix i k L1 X Hi Hk HL1) as X1.
    assert (Hd1 : forall i' k', In (i', k') dead -> In i' L1 /\ sf_key (sf_delete sf i) i' = Some k').
    { intros i' k' Hin. destruct (Hd i' k' (or_intror Hin)) as [H1 H2]. rewrite Hk1. split; [|exact H2].
      apply HL1. split; [exact H1|]. intros ->. apply Hni. apply in_map_iff. exists (i, k'). auto. }
    specialize (IH (sf_delete sf i) L1 (ix_drop_series_global ix k) I1 X1 Hnd' Hd1).
    destruct (fold_left _ dead (sf_delete sf i, ix_drop_series_global ix k)) as [sf2 ix2].
    destruct IH as [I2 [Hn2 [Hk2 [Ho2 [Hd2 [X2 W2]]]]]].
    assert (HLf : forall j, In j (filter (fun j => negb (memb N.eqb j (i :: map fst dead))) L) <-> In j (filter (fun j => negb (memb N.eqb j (map fst dead))) L1)).
    { intros j. rewrite !filter_In, HL1. cbn [memb existsb]. rewrite negb_orb, andb_true_iff, !negb_true_iff, N.eqb_neq. tauto. }
    ssplit; auto.
    + congruence.
    + intros j. rewrite Hk2. apply Hk1.
    + intros j Hj. rewrite Ho2; [apply Ho1|]; intros H; apply Hj; cbn; auto.
    + intros j [<-|Hj]; [|apply Hd2; exact Hj].
      destruct (in_dec N.eq_dec i (map fst dead)) as [H|H]; [apply Hd2; exact H|rewrite Ho2; assumption].
    + apply (ix_ok_L sf2 (filter (fun j => negb (memb N.eqb j (map fst dead))) L1)); [exact HLf|exact X2].
    + intros W. apply (tv_weak_L sf2 (filter (fun j => negb (memb N.eqb j (map fst dead))) L1)); [exact HLf|]. apply W2.
      apply (tv_weak_drop_global sf I L ix i k L1); auto.
Qed.

(* ids with a key, paired with it *)
Lemma dead_pairs sf (ids : list id) :
  (forall i, In i ids -> exists k, sf_key sf i = Some k) ->
  exists dead : list (id * series), map fst dead = ids /\ forall i k, In (i, k) dead -> In i ids /\ sf_key sf i = Some k.
Proof.
  induction ids as [|i ids IH]; intros H.
  - exists []. split; [reflexivity|intros i k []].
  - destruct (H i (or_introl eq_refl)) as [k Hk]. destruct IH as [dead [Hm Hd]]; [intros j Hj; apply H; right; exact Hj|].
    exists ((i, k) :: dead). split; [cbn; rewrite Hm; reflexivity|].
    intros j kj [E|Hin]; [inversion E; subst; split; [left; reflexivity|exact Hk]|]. destruct (Hd j kj Hin) as [H1 H2]. split; [right; exact H1|exact H2].
Qed.

Section Steps.
  Variable rx : str -> str -> bool.
  Variable n : nat.

  Lemma is_get_upd st sh sh' shd :
    length (is_sh st) = n -> valid_shard n sh = true -> valid_shard n sh' = true ->
    nth (sh' - 1) (upd_nth (sh - 1) shd (is_sh st)) ish_empty = if Nat.eqb sh' sh then shd else is_get st sh'.
  Proof.
    intros Hl Hv Hv'. apply valid_shard_iff in Hv. apply valid_shard_iff in Hv'. unfold is_get.
    destruct (Nat.eqb sh' sh) eqn:E.
    - apply Nat.eqb_eq in E. subst. apply nth_upd_nth_eq. lia.
    - apply Nat.eqb_neq in E. apply nth_upd_nth_ne. lia.
  Qed.

  Lemma In_is_L st i : length (is_sh st) = n -> (In i (is_L st) <-> exists sh, valid_shard n sh = true /\ In i (sh_sids (is_get st sh))).
  Proof. intros Hl. apply (In_is_L_gen (is_sh st) n i Hl). Qed.

  Lemma is_ok_ext A A' st : (forall p, In p A' <-> In p A) -> is_ok n A st -> is_ok n A' st.
  Proof.
    intros H [Isf Hl Hd HA Hsh Hsfl Hix Hcl]. constructor; auto.
    - intros p. rewrite Hd. symmetry. apply H.
    - intros sh s Hin. apply HA. apply H. exact Hin.
    - intros sh Hv. apply (ids_ok_ext _ (shard_set A sh) _ (sh_sids (is_get st sh)) (sh_sids (is_get st sh))); [|tauto|apply (io_nodup _ _ _ (Hsh sh Hv))|apply Hsh; exact Hv].
      intros x. rewrite !In_shard_set. apply H.
  Qed.

  (* ---------- writes ---------- *)
  Lemma is_write_ok A st sh ss :
    is_ok n A st -> forallb wf_series ss = true -> is_ok n (apply_op rx n A (OWrite sh ss)) (is_write n st sh ss).
  Proof.
    intros [Isf Hl Hd HA Hsh Hsfl Hix Hcl] Hwf. unfold is_write, is_create_list. cbn [apply_op].
    destruct (valid_shard n sh) eqn:Hv; [|constructor; assumption].
    assert (Hwf' : Forall (fun s => wf_series s = true) ss) by (apply Forall_forall; apply forallb_forall; exact Hwf).
    assert (Hsub : forall i, In i (sh_sids (is_get st sh)) -> In i (is_L st)) by (intros i Hi; apply (In_is_L st i Hl); eauto).
    pose proof (is_create_list_ok ss (is_sf st) (is_L st) (is_ix st) (shard_set A sh) (is_get st sh) Isf Hix (Hsh sh Hv) Hsub Hwf') as H.
    destruct (fold_left (fun a s => ix_create (fst (fst a)) (snd (fst a)) (snd a) s) ss (is_sf st, is_ix st, is_get st sh)) as [[sf' ix'] shd'].
    destruct H as [L' [S' [I' [E' [Hold [Hnew [X' [[Xd' W'] [O' [HS' [HL' Hmono]]]]]]]]]]].
    set (A' := fold_left (fun st0 s => sadd pair_eqb (sh, s) st0) ss A).
    assert (HA' : forall p, In p A' <-> In p A \/ exists s, In s ss /\ p = (sh, s)) by (intros p; apply In_fold_sadd_pair).
    assert (Hlen : length (upd_nth (sh - 1) shd' (is_sh st)) = n) by (rewrite upd_nth_length; exact Hl).
    assert (Hget : forall sh', valid_shard n sh' = true -> nth (sh' - 1) (upd_nth (sh - 1) shd' (is_sh st)) ish_empty = if Nat.eqb sh' sh then shd' else is_get st sh')
      by (intros sh' Hv'; apply is_get_upd; assumption).
    assert (Hb : forall sh' i, valid_shard n sh' = true -> In i (sh_sids (is_get st sh')) -> (i < sf_next (is_sf st))%N).
    { intros sh' i Hv' Hi. destruct (io_live _ _ _ (Hsh sh' Hv') i Hi) as [s [Hk _]]. eapply sf_key_bound; eauto. }
    constructor; cbn [is_sf is_data is_ix is_sh]; auto.
    - intros p. rewrite In_fold_sadd_pair, HA', Hd. tauto.
    - intros sh' s Hin. apply HA' in Hin. destruct Hin as [Hin|[s' [Hs' E]]]; [apply HA; exact Hin|].
      inversion E; subst. split; [exact Hv|]. rewrite forallb_forall in Hwf. apply Hwf. exact Hs'.
    - intros sh' Hv'. unfold is_get. cbn [is_sh]. rewrite (Hget sh' Hv'). destruct (Nat.eqb sh' sh) eqn:Es.
      + apply Nat.eqb_eq in Es. subst sh'.
        apply (ids_ok_ext sf' S' _ (sh_sids shd') (sh_sids shd')); [|tauto|apply (io_nodup _ _ _ O')|exact O'].
        intros x. rewrite In_shard_set, HA', HS', In_shard_set. split.
        * intros [H|[s [H1 H2]]]; [auto|inversion H2; subst; auto].
        * intros [H|H]; [right; exists x; auto|auto].
      + apply Nat.eqb_neq in Es.
        apply (ids_ok_ext sf' (shard_set A sh') _ (sh_sids (is_get st sh')) (sh_sids (is_get st sh'))); [|tauto|apply (io_nodup _ _ _ (Hsh sh' Hv'))|].
        * intros x. rewrite !In_shard_set, HA'. split; [intros [H|[s [_ H]]]; [exact H|inversion H; congruence]|auto].
        * apply (ids_ok_sf (is_sf st)); [|apply Hsh; exact Hv']. intros i Hi. apply Hold. eapply Hb; eauto.
    - intros i s Hk Hdel. destruct (N.ltb_spec i (sf_next (is_sf st))) as [Hlt|Hge].
      + destruct (Hold i Hlt) as [H1 H2]. rewrite H1 in Hk. rewrite H2 in Hdel.
        destruct (Hsfl i s Hk Hdel) as [sh' [Hv' Hin]]. exists sh'. split; [exact Hv'|].
        unfold is_get. cbn [is_sh]. rewrite (Hget sh' Hv'). destruct (Nat.eqb sh' sh) eqn:Es; [|exact Hin].
        apply Nat.eqb_eq in Es. subst. apply Hmono. exact Hin.
      + exists sh. split; [exact Hv|]. unfold is_get. cbn [is_sh]. rewrite (Hget sh Hv), Nat.eqb_refl. eapply Hnew; eauto.
    - apply (ix_ok_L sf' L'); [|exact X']. intros i. unfold is_L. cbn [is_sh].
      rewrite (In_is_L_gen _ n i Hlen), HL', (In_is_L st i Hl). split.
      + intros [sh' [Hv' Hi]]. rewrite (Hget sh' Hv') in Hi. destruct (Nat.eqb sh' sh); [right; exact Hi|left; eauto].
      + intros [[sh' [Hv' Hi]]|Hi].
        * exists sh'. split; [exact Hv'|]. rewrite (Hget sh' Hv'). destruct (Nat.eqb sh' sh) eqn:Es; [|exact Hi].
          apply Nat.eqb_eq in Es. subst. apply Hmono. exact Hi.
        * exists sh. split; [exact Hv|]. rewrite (Hget sh Hv), Nat.eqb_refl. exact Hi.
    - apply (tv_weak_L sf' L'); [|apply W'; exact Hcl]. intros i. unfold is_L. cbn [is_sh].
      rewrite (In_is_L_gen _ n i Hlen), HL', (In_is_L st i Hl). split.
      + intros [sh' [Hv' Hi]]. rewrite (Hget sh' Hv') in Hi. destruct (Nat.eqb sh' sh); [right; exact Hi|left; eauto].
      + intros [[sh' [Hv' Hi]]|Hi].
        * exists sh'. split; [exact Hv'|]. rewrite (Hget sh' Hv'). destruct (Nat.eqb sh' sh) eqn:Es; [|exact Hi].
          apply Nat.eqb_eq in Es. subst. apply Hmono. exact Hi.
        * exists sh. split; [exact Hv|]. rewrite (Hget sh Hv), Nat.eqb_refl. exact Hi.
  Qed.

  (* the index refines the set once the tag key / tag value series lists are read through the
     series file's deleted flags - which is how the query layer reads them (ProofsClean) *)
  Lemma is_refines A st : is_ok n A st -> refines (clean_prims (is_sf st) (ix_prims (is_ix st))) (is_sf st) (is_L st) (db_set A).
  Proof.
    intros [Isf Hl Hd HA Hsh Hsfl [X1 X2 X3 X4 X5 X6 X7] [W1 W2]].
    assert (HLU : forall i, In i (is_L st) -> exists s, sf_key (is_sf st) i = Some s /\ In s (db_set A) /\ sf_deleted (is_sf st) i = false).
    { intros i Hi. apply (In_is_L st i Hl) in Hi. destruct Hi as [sh [Hv Hi]].
      destruct (io_live _ _ _ (Hsh sh Hv) i Hi) as [s [H1 [H2 H3]]]. exists s. ssplit; auto. apply In_db_set. exists sh. apply In_shard_set. exact H3. }
    assert (Hwf : forall s, In s (db_set A) -> wf_series s = true).
    { intros s Hs. apply In_db_set in Hs. destruct Hs as [sh Hs]. apply (HA sh s Hs). }
    assert (Hcov : forall s, In s (db_set A) -> exists i, In i (is_L st) /\ sf_key (is_sf st) i = Some s).
    { intros s Hs. apply In_db_set in Hs. destruct Hs as [sh Hs]. destruct (HA sh s Hs) as [Hv _].
      destruct (io_cover _ _ _ (Hsh sh Hv) s (proj2 (In_shard_set A sh s) Hs)) as [i [Hi Hk]]. exists i. split; [apply (In_is_L st i Hl); eauto|exact Hk]. }
    (* an entry whose id is not deleted is exact *)
    assert (Hex : forall m k v i, In (m, k, v, i) (ix_tv (is_ix st)) -> sf_deleted (is_sf st) i = false ->
                  In i (is_L st) /\ exists s, sf_key (is_sf st) i = Some s /\ fst s = m /\ In (k, v) (snd s)).
    { intros m k v i Hin Hdl. destruct (W2 m k v i Hin) as [H|[H _]]; [exact H|congruence]. }
    constructor; auto.
    - intros m i. cbn [clean_prims ix_prims p_mseries]. rewrite In_ix_mids. split.
      + intros [s H]. apply X3 in H. exists s. unfold live. tauto.
      + intros [s [[Hi Hk] Hm]]. exists s. apply X3. auto.
    - intros m k i. cbn [clean_prims ix_prims p_kseries]. rewrite In_undeleted, (In_dedup N.eqb N.eqb_eq), in_map_iff. split.
      + intros [[[[[m' k'] v] j] [E Hin]] Hdl]. cbn in E. subst j. apply filter_In in Hin. destruct Hin as [Hin Emk]. cbn in Emk.
        apply mk_eqb_eq in Emk. inversion Emk; subst. destruct (Hex m k v i Hin Hdl) as [Hi [s [Hk [Hm Hkv]]]].
        exists s. unfold live. ssplit; auto. destruct (HLU i Hi) as [s' [K' [HU _]]]. rewrite Hk in K'. inversion K'; subst s'.
        apply (has_key_In s k (Hwf s HU)). eauto.
      + intros [s [[Hi Hk] [Hm Hhk]]]. destruct (HLU i Hi) as [s' [K' [HU Hdl]]]. rewrite Hk in K'. inversion K'; subst s'.
        apply (has_key_In s k (Hwf s HU)) in Hhk. destruct Hhk as [v Hkv]. subst m. split; [|exact Hdl].
        exists (fst s, k, v, i). split; [reflexivity|]. apply filter_In. split; [apply (W1 (fst s) k v i s); auto|].
        cbn. apply mk_eqb_eq. reflexivity.
    - intros m k v i. cbn [clean_prims ix_prims p_vseries]. rewrite In_undeleted, in_map_iff. split.
      + intros [[[[[m' k'] v'] j] [E Hin]] Hdl]. cbn in E. subst j. apply filter_In in Hin. destruct Hin as [Hin Emk]. cbn in Emk.
        apply mkv_eqb_eq in Emk. inversion Emk; subst. destruct (Hex m k v i Hin Hdl) as [Hi [s [Hk [Hm Hkv]]]].
        exists s. unfold live. auto.
      + intros [s [[Hi Hk] [Hm Hkv]]]. destruct (HLU i Hi) as [s' [K' [_ Hdl]]]. split; [|exact Hdl].
        exists (m, k, v, i). split; [reflexivity|]. apply filter_In.
        split; [apply (W1 m k v i s); auto|cbn; apply mkv_eqb_eq; reflexivity].
    - intros s k v Hs Hkv. cbn [clean_prims ix_prims p_vals]. destruct (Hcov s Hs) as [i [Hi Hk]].
      apply (In_dedup str_eqb str_eqb_eq). apply in_map_iff. exists (fst s, k, v, i). split; [reflexivity|]. apply filter_In.
      split; [apply (W1 (fst s) k v i s); auto|cbn; apply mk_eqb_eq; reflexivity].
    - intros s k v Hs Hkv. cbn [clean_prims ix_prims p_keys]. destruct (Hcov s Hs) as [i [Hi Hk]].
      apply (In_dedup str_eqb str_eqb_eq). apply in_map_iff. exists (fst s, k, v, i). split; [reflexivity|]. apply filter_In.
      split; [apply (W1 (fst s) k v i s); auto|cbn; apply str_eqb_refl].
    - intros s k v Hs Hkv. cbn [clean_prims ix_prims p_has_key]. destruct (Hcov s Hs) as [i [Hi Hk]].
      apply existsb_exists. exists (fst s, k, v, i). split; [apply (W1 (fst s) k v i s); auto|cbn; apply mk_eqb_eq; reflexivity].
    - intros m. cbn [clean_prims ix_prims p_meas]. rewrite filter_In, X2. unfold ix_meas_listed. split.
      + intros [[i [s [Hi [Hk Hm]]]] _]. destruct (HLU i Hi) as [s' [K' [HU _]]]. rewrite Hk in K'. inversion K'; subst s'. eauto.
      + intros [s [Hs Hm]]. destruct (Hcov s Hs) as [i [Hi Hk]]. split; [eauto|].
        apply existsb_exists. exists (m, (i, s)). split; [apply X3; auto|]. cbn. rewrite str_eqb_refl. cbn.
        apply negb_true_iff, (memb_false N.eqb N.eqb_eq). intros Hdl. destruct (X5 i Hdl) as [D1 _].
        destruct (HLU i Hi) as [_ [_ [_ D2]]]. congruence.
  Qed.

  (* Engine.deleteSeriesRange with the in-memory index, followed by Index.Rebuild *)
  Lemma is_delete_keys_ok A st sh keys0 :
    is_ok n A st -> valid_shard n sh = true -> (forall k, In k keys0 -> In k (db_set A)) ->
    let st' := is_delete_keys st sh keys0 in
    is_ok n (filter (fun p => negb (Nat.eqb (fst p) sh && memb series_eqb (snd p) keys0)) A)
          (mkIs (is_sf st') (is_data st') (ix_rebuild (is_ix st')) (is_sh st')).
  Proof.
    intros OK Hv Hkeys. pose proof (is_refines A st OK) as R. destruct OK as [Isf Hl Hd HA Hsh Hsfl Hix Hcl]. unfold is_delete_keys. cbv zeta.
    set (keys := dedup series_eqb keys0).
    assert (Hkm : forall x, memb series_eqb x keys = memb series_eqb x keys0).
    { intros x. destruct (memb series_eqb x keys0) eqn:E.
      - apply (memb_In series_eqb series_eqb_eq). apply (In_dedup series_eqb series_eqb_eq). apply (memb_In series_eqb series_eqb_eq). exact E.
      - apply (memb_false series_eqb series_eqb_eq). intros H. unfold keys in H. apply (proj1 (In_dedup series_eqb series_eqb_eq x keys0)) in H.
        apply (proj2 (memb_In series_eqb series_eqb_eq x keys0)) in H. congruence. }
    set (A' := filter (fun p => negb (Nat.eqb (fst p) sh && memb series_eqb (snd p) keys0)) A).
    set (data := filter (fun p => negb (Nat.eqb (fst p) sh && memb series_eqb (snd p) keys)) (is_data st)).
    assert (Hdata : forall p, In p data <-> In p A').
    { intros p. unfold data, A'. rewrite !filter_In, Hd. cbv beta. rewrite Hkm. tauto. }
    assert (HA' : forall sh' s, In (sh', s) A' <-> In (sh', s) A /\ ~ (sh' = sh /\ In s keys0)).
    { intros sh' s. unfold A'. rewrite filter_In. cbn [fst snd]. rewrite negb_true_iff, andb_false_iff, Nat.eqb_neq.
      rewrite (memb_false series_eqb series_eqb_eq). destruct (Nat.eq_dec sh' sh); tauto. }
    assert (Hgone : filter (fun k => negb (memb pair_eqb (sh, k) data)) keys = keys).
    { apply filter_all_true. intros k Hk. apply negb_true_iff, (memb_false pair_eqb pair_eqb_eq). intros Hin.
      apply Hdata, HA' in Hin. apply (proj2 Hin). split; [reflexivity|]. apply (In_dedup series_eqb series_eqb_eq). exact Hk. }
    rewrite Hgone. set (sf := is_sf st) in *. set (L := is_L st) in *. set (shd := is_get st sh) in *.
    assert (Hid : forall k, In k keys -> exists i, sf_find sf k = Some i /\ In i L /\ sf_key sf i = Some k).
    { intros k Hk. apply (proj1 (In_dedup series_eqb series_eqb_eq _ _)) in Hk. apply Hkeys in Hk.
      destruct (r_cover _ _ _ _ R k Hk) as [i [Hi Hki]]. destruct (r_live _ _ _ _ R i Hi) as [s' [Hk' [_ Hdl]]].
      exists i. ssplit; auto. apply (sf_find_Some sf Isf). auto. }
    set (ids := flat_map (fun k => match sf_find sf k with Some i => [(i, k)] | None => [] end) keys).
    assert (Hids : forall i k, In (i, k) ids <-> In k keys /\ sf_find sf k = Some i).
    { intros i k. unfold ids. rewrite in_flat_map. split.
      - intros [k' [Hk' Hi]]. destruct (sf_find sf k') eqn:E; cbn in Hi; [destruct Hi as [Hi|[]]; inversion Hi; subst; auto|destruct Hi].
      - intros [Hk Hf]. exists k. split; [exact Hk|]. rewrite Hf. cbn; auto. }
    assert (Hidk : forall i k, In (i, k) ids -> In i L /\ sf_key sf i = Some k).
    { intros i k Hin. apply Hids in Hin. destruct Hin as [Hk Hf]. destruct (Hid k Hk) as [j [Hf' [Hj Hkj]]]. rewrite Hf in Hf'. inversion Hf'; subst. auto. }
    assert (Hndf : NoDup (map fst ids)).
    { unfold ids. assert (Hndk : NoDup keys) by apply (NoDup_dedup series_eqb series_eqb_eq).
      clear Hgone Hids Hidk. revert Hid Hndk. generalize keys. induction keys1 as [|k ks IHk]; intros Hid Hndk; cbn [flat_map map]; [constructor|].
      inversion Hndk; subst. destruct (Hid k (or_introl eq_refl)) as [i [Hf [_ Hki]]]. rewrite Hf. cbn [app map fst].
      constructor; [|apply IHk; [intros k' Hk'; apply Hid; cbn; auto|assumption]].
      intros Hin. apply in_map_iff in Hin. destruct Hin as [[i' k'] [E Hin]]. cbn in E. subst i'.
      apply in_flat_map in Hin. destruct Hin as [k'' [Hk'' Hi]].
      destruct (Hid k'' (or_intror Hk'')) as [i'' [Hf'' [_ Hki'']]]. rewrite Hf'' in Hi. destruct Hi as [Hi|[]]. inversion Hi; subst. congruence. }
    assert (Hnoop : forall names ix0, ix_ok sf L ix0 -> fold_left (fun ix m => ix_drop_meas_if_empty ix (ish_drop shd ids) m) names ix0 = ix0).
    { induction names as [|m names IHn]; intros ix0 X0; cbn [fold_left]; [reflexivity|].
      rewrite (ix_drop_meas_noop sf L ix0 _ m X0). apply IHn. exact X0. }
    rewrite (Hnoop _ _ Hix).
    destruct (ish_drop_sids ids shd (io_nodup _ _ _ (Hsh sh Hv))) as [Hs1 Hnd1]. set (shd1 := ish_drop shd ids) in *.
    set (shards := upd_nth (sh - 1) shd1 (is_sh st)).
    assert (Hlen : length shards = n) by (unfold shards; rewrite upd_nth_length; exact Hl).
    assert (Hget : forall sh', valid_shard n sh' = true -> nth (sh' - 1) shards ish_empty = if Nat.eqb sh' sh then shd1 else is_get st sh')
      by (intros sh' Hv'; apply is_get_upd; assumption).
    set (dead := filter (fun p => negb (existsb (fun s0 => memb N.eqb (fst p) (sh_sids s0)) shards)) (dedup (pr2_eqb N.eqb series_eqb) ids)).
    assert (Hnd_ids : NoDup ids).
    { clear - Hndf. induction ids as [|p l IH]; [constructor|]. cbn in Hndf. inversion Hndf; subst. constructor; [|auto].
      intros Hin. apply H1. apply in_map. exact Hin. }
    assert (Hdd : dedup (pr2_eqb N.eqb series_eqb) ids = ids).
    { apply dedup_NoDup_id; [apply pr2_eqb_eq; [apply N.eqb_eq|apply series_eqb_eq]|exact Hnd_ids]. }
    assert (Hdead_in : forall i k, In (i, k) dead <-> In (i, k) ids /\ forall sh', valid_shard n sh' = true -> ~ In i (sh_sids (nth (sh' - 1) shards ish_empty))).
    { intros i k. unfold dead. rewrite Hdd, filter_In, negb_true_iff, existsb_false. cbn [fst]. split; intros [H1 H2]; (split; [exact H1|]).
      - intros sh' Hv' Hin. specialize (H2 (nth (sh' - 1) shards ish_empty)).
        rewrite (proj2 (memb_In N.eqb N.eqb_eq _ _) Hin) in H2. discriminate H2. apply (In_ish shards n _ Hlen). eauto.
      - intros s0 Hs0. apply (In_ish shards n _ Hlen) in Hs0. destruct Hs0 as [sh' [Hv' ->]].
        apply (memb_false N.eqb N.eqb_eq). apply H2. exact Hv'. }
    assert (Hnd_dead : NoDup (map fst dead)).
    { unfold dead. rewrite Hdd. apply filter_fst_NoDup. exact Hndf. }
    pose proof (dead_fold dead sf L (is_ix st) Isf Hix Hnd_dead (fun i k Hin => Hidk i k (proj1 (proj1 (Hdead_in i k) Hin)))) as Hfold.
    match type of Hfold with context [fold_left ?F dead (sf, is_ix st)] => destruct (fold_left F dead (sf, is_ix st)) as [sf2 ix2] end.
    destruct Hfold as [I2 [Hn2 [Hk2 [Ho2 [Hd2 [X2 _]]]]]].
    destruct (ix_rebuild_ok _ _ _ X2) as [X3 Xcl].
    assert (Hdead_fst : forall i, In i (map fst dead) -> forall sh', valid_shard n sh' = true -> ~ In i (sh_sids (nth (sh' - 1) shards ish_empty))).
    { intros i Hi. apply in_map_iff in Hi. destruct Hi as [[i' k] [E Hin]]. cbn in E. subst i'. apply (Hdead_in i k). exact Hin. }
    assert (HS1 : forall x, In x (shard_set A' sh) <-> In x (shard_set A sh) /\ ~ In x keys0).
    { intros x. rewrite !In_shard_set, HA'. tauto. }
    assert (Hshd1 : forall j, In j (sh_sids shd1) <-> In j (sh_sids shd) /\ forall k, In k keys -> sf_key sf j <> Some k).
    { intros j. rewrite Hs1. split; intros [Hj H]; (split; [exact Hj|]).
      - intros k Hk Hkj. apply H. apply in_map_iff. exists (j, k). split; [reflexivity|]. apply Hids. split; [exact Hk|].
        apply (sf_find_Some sf Isf). destruct (io_live _ _ _ (Hsh sh Hv) j Hj) as [s' [K' [D' _]]]. split; congruence.
      - intros Hin. apply in_map_iff in Hin. destruct Hin as [[j' k] [E Hin]]. cbn in E. subst j'.
        destruct (Hidk j k Hin) as [_ Hkj]. apply (H k); [apply Hids in Hin; tauto|exact Hkj]. }
    constructor; cbn [is_sf is_data is_ix is_sh].
    - exact I2.
    - exact Hlen.
    - exact Hdata.
    - intros sh' s Hin. apply HA' in Hin. apply HA. tauto.
    - intros sh' Hv'. unfold is_get. cbn [is_sh]. fold shards. rewrite (Hget sh' Hv').
      assert (Hsame : forall i, In i (sh_sids (nth (sh' - 1) shards ish_empty)) -> sf_key sf2 i = sf_key sf i /\ sf_deleted sf2 i = sf_deleted sf i).
      { intros i Hi. split; [apply Hk2|]. apply Ho2. intros Hin. apply (Hdead_fst i Hin sh' Hv'). exact Hi. }
      rewrite (Hget sh' Hv') in Hsame. destruct (Nat.eqb sh' sh) eqn:Es.
      + apply Nat.eqb_eq in Es. subst sh'. pose proof (Hsh sh Hv) as O. fold shd in O. constructor.
        * exact Hnd1.
        * intros j Hj. destruct (Hsame j Hj) as [E1 E2]. apply Hshd1 in Hj. destruct Hj as [Hj Hnk].
          destruct (io_live _ _ _ O j Hj) as [s [H1 [H2 H3]]]. exists s. rewrite E1, E2. ssplit; auto.
          apply HS1. split; [exact H3|]. intros Hk0. apply (Hnk s); [apply (In_dedup series_eqb series_eqb_eq); exact Hk0|exact H1].
        * intros x Hx. apply HS1 in Hx. destruct Hx as [Hx Hnk]. destruct (io_cover _ _ _ O x Hx) as [j [Hj Hkj]].
          assert (Hj1 : In j (sh_sids shd1)).
          { apply Hshd1. split; [exact Hj|]. intros k Hk Hkj'. rewrite Hkj in Hkj'. inversion Hkj'; subst.
            apply Hnk. apply (proj1 (In_dedup series_eqb series_eqb_eq _ _)). exact Hk. }
          exists j. split; [exact Hj1|]. rewrite (proj1 (Hsame j Hj1)). exact Hkj.
        * intros x Hx. apply HS1 in Hx. apply (io_wf _ _ _ O). tauto.
      + apply Nat.eqb_neq in Es.
        apply (ids_ok_ext sf2 (shard_set A sh') _ (sh_sids (is_get st sh')) (sh_sids (is_get st sh'))); [|tauto|apply (io_nodup _ _ _ (Hsh sh' Hv'))|].
        * intros x. rewrite !In_shard_set, HA'. split; [tauto|]. intros H. split; [exact H|]. intros [H1 _]. congruence.
        * apply (ids_ok_sf sf); [exact Hsame|apply Hsh; exact Hv'].
    - intros i s Hk Hdel. fold shards. rewrite Hk2 in Hk.
      assert (Hndd : ~ In i (map fst dead)) by (intros Hin; rewrite (Hd2 i Hin) in Hdel; discriminate).
      rewrite (Ho2 i Hndd) in Hdel. destruct (Hsfl i s Hk Hdel) as [sh' [Hv' Hin]].
      destruct (Nat.eqb sh' sh) eqn:Es.
      + apply Nat.eqb_eq in Es. subst sh'. fold shd in Hin.
        destruct (in_dec N.eq_dec i (map fst ids)) as [Hi|Hi].
        * apply in_map_iff in Hi. destruct Hi as [[i' k] [E Hi]]. cbn in E. subst i'.
          (* left shard sh: if no shard held it any more it would be dead *)
          destruct (existsb (fun s0 => memb N.eqb i (sh_sids s0)) shards) eqn:Ex.
          -- apply existsb_exists in Ex. destruct Ex as [s0 [Hs0 Hm]]. apply (memb_In N.eqb N.eqb_eq) in Hm.
             apply (In_ish shards n _ Hlen) in Hs0. destruct Hs0 as [sh'' [Hv'' ->]]. exists sh''. split; [exact Hv''|].
             unfold is_get. cbn [is_sh]. fold shards. exact Hm.
          -- exfalso. apply Hndd. apply in_map_iff. exists (i, k). split; [reflexivity|]. unfold dead. rewrite Hdd. apply filter_In.
             split; [exact Hi|]. cbn [fst]. rewrite Ex. reflexivity.
        * exists sh. split; [exact Hv|]. unfold is_get. cbn [is_sh]. fold shards. rewrite (Hget sh Hv), Nat.eqb_refl.
          apply Hs1. auto.
      + exists sh'. split; [exact Hv'|]. unfold is_get. cbn [is_sh]. fold shards. rewrite (Hget sh' Hv'), Es. exact Hin.
    - apply (ix_ok_L sf2 (filter (fun j => negb (memb N.eqb j (map fst dead))) L)); [|exact X3].
      intros i. unfold is_L. cbn [is_sh]. fold shards. rewrite (In_is_L_gen shards n i Hlen), filter_In, negb_true_iff, (memb_false N.eqb N.eqb_eq).
      unfold L. rewrite (In_is_L st i Hl). split.
      + intros [sh' [Hv' Hi]]. split.
        * rewrite (Hget sh' Hv') in Hi. destruct (Nat.eqb sh' sh) eqn:Es; [|eauto].
          apply Nat.eqb_eq in Es. subst. apply Hs1 in Hi. exists sh. split; [exact Hv|tauto].
        * intros Hin. apply (Hdead_fst i Hin sh' Hv'). exact Hi.
      + intros [[sh' [Hv' Hi]] Hnd']. destruct (Nat.eqb sh' sh) eqn:Es.
        * apply Nat.eqb_eq in Es. subst sh'. fold shd in Hi.
          destruct (in_dec N.eq_dec i (map fst ids)) as [Hii|Hii].
          -- apply in_map_iff in Hii. destruct Hii as [[i' k] [E Hii]]. cbn in E. subst i'.
             destruct (existsb (fun s0 => memb N.eqb i (sh_sids s0)) shards) eqn:Ex.
             ++ apply existsb_exists in Ex. destruct Ex as [s0 [Hs0 Hm]]. apply (memb_In N.eqb N.eqb_eq) in Hm.
                apply (In_ish shards n _ Hlen) in Hs0. destruct Hs0 as [sh'' [Hv'' ->]]. eauto.
             ++ exfalso. apply Hnd'. apply in_map_iff. exists (i, k). split; [reflexivity|]. unfold dead. rewrite Hdd. apply filter_In.
                split; [exact Hii|]. cbn [fst]. rewrite Ex. reflexivity.
          -- exists sh. split; [exact Hv|]. rewrite (Hget sh Hv), Nat.eqb_refl. apply Hs1. auto.
        * exists sh'. split; [exact Hv'|]. rewrite (Hget sh' Hv'), Es. exact Hi.
    - apply tv_weak_of_clean; [|exact Xcl]. apply (ix_ok_L sf2 (filter (fun j => negb (memb N.eqb j (map fst dead))) L)); [|exact X3].
      intros i. unfold is_L. cbn [is_sh]. fold shards. rewrite (In_is_L_gen shards n i Hlen), filter_In, negb_true_iff, (memb_false N.eqb N.eqb_eq).
      unfold L. rewrite (In_is_L st i Hl). split.
      + intros [sh' [Hv' Hi]]. split.
        * rewrite (Hget sh' Hv') in Hi. destruct (Nat.eqb sh' sh) eqn:Es; [|eauto].
          apply Nat.eqb_eq in Es. subst. apply Hs1 in Hi. exists sh. split; [exact Hv|tauto].
        * intros Hin. apply (Hdead_fst i Hin sh' Hv'). exact Hi.
      + intros [[sh' [Hv' Hi]] Hnd']. destruct (Nat.eqb sh' sh) eqn:Es.
        * apply Nat.eqb_eq in Es. subst sh'. fold shd in Hi.
          destruct (in_dec N.eq_dec i (map fst ids)) as [Hii|Hii].
          -- apply in_map_iff in Hii. destruct Hii as [[i' k] [E Hii]]. cbn in E. subst i'.
             destruct (existsb (fun s0 => memb N.eqb i (sh_sids s0)) shards) eqn:Ex.
             ++ apply existsb_exists in Ex. destruct Ex as [s0 [Hs0 Hm]]. apply (memb_In N.eqb N.eqb_eq) in Hm.
                apply (In_ish shards n _ Hlen) in Hs0. destruct Hs0 as [sh'' [Hv'' ->]]. eauto.
             ++ exfalso. apply Hnd'. apply in_map_iff. exists (i, k). split; [reflexivity|]. unfold dead. rewrite Hdd. apply filter_In.
                split; [exact Hii|]. cbn [fst]. rewrite Ex. reflexivity.
          -- exists sh. split; [exact Hv|]. rewrite (Hget sh Hv), Nat.eqb_refl. apply Hs1. auto.
        * exists sh'. split; [exact Hv'|]. rewrite (Hget sh' Hv'), Es. exact Hi.
  Qed.

  (* Store.DeleteSeries on one shard over a list of measurement names (Rebuild after each) *)
  Lemma is_delete_names_ok c sh names : forall A st,
    is_ok n A st -> valid_shard n sh = true ->
    let st' := fold_left (fun st m =>
                 let st' := is_delete_keys st sh (series_keys rx (ix_prims (is_ix st)) (is_sf st) m c) in
                 mkIs (is_sf st') (is_data st') (ix_rebuild (is_ix st')) (is_sh st')) names st in
    exists A', is_ok n A' st' /\
      forall p, In p A' <-> In p A /\ ~ (fst p = sh /\ In (fst (snd p)) names /\ eval_opt rx c (snd p) = true).
  Proof.
    induction names as [|m names IH]; intros A st OK Hv; cbn [fold_left].
    - exists A. split; [exact OK|]. intros p. cbn. tauto.
    - set (keys := series_keys rx (ix_prims (is_ix st)) (is_sf st) m c).
      assert (Hkeys : forall k, In k keys <-> In k (db_set A) /\ fst k = m /\ eval_opt rx c k = true).
      { intros k. unfold keys. rewrite (series_keys_ok' rx _ _ _ _ (is_refines A st OK)).
        unfold series_of. rewrite filter_In, andb_true_iff, str_eqb_eq. tauto. }
      pose proof (is_delete_keys_ok A st sh keys OK Hv (fun k Hk => proj1 (proj1 (Hkeys k) Hk))) as OK1. cbv zeta in OK1.
      destruct (IH _ _ OK1 Hv) as [A' [OK' HA']]. exists A'. split; [exact OK'|].
      intros [sh' s]. rewrite HA', filter_In. cbn [fst snd In]. rewrite negb_true_iff, andb_false_iff, Nat.eqb_neq.
      rewrite (memb_false series_eqb series_eqb_eq s keys). rewrite (Hkeys s).
      destruct (Nat.eq_dec sh' sh) as [->|Hne]; [|tauto].
      split.
      + intros [[HA0 Hn1] Hn2]. split; [exact HA0|]. intros [_ [[Hm|Hin] He]]; [|tauto].
        destruct Hn1 as [Hn1|Hn1]; [congruence|]. apply Hn1. ssplit; auto. apply In_db_set. eauto.
      + intros [HA0 Hn]. ssplit; auto; [right; intros [_ [Hm He]]; apply Hn; auto|intros [_ [Hin He]]; apply Hn; auto].
  Qed.

  Lemma is_delete_shard_ok from c A st sh :
    is_ok n A st -> valid_shard n sh = true ->
    exists A', is_ok n A' (is_delete_shard rx from c st sh) /\
      forall p, In p A' <-> In p A /\ ~ (fst p = sh /\ in_from from (fst (snd p)) = true /\ eval_opt rx c (snd p) = true).
  Proof.
    intros OK Hv. unfold is_delete_shard.
    set (names := if is_nil from then ix_mm (is_ix st) else from).
    destruct (is_delete_names_ok c sh names A st OK Hv) as [A' [OK' HA']]. cbv zeta in *.
    exists A'. split; [exact OK'|]. intros [sh' s]. rewrite HA'. cbn [fst snd].
    assert (Hn : In (sh', s) A -> (In (fst s) names <-> in_from from (fst s) = true)).
    { intros Hin. unfold names, in_from. destruct (is_nil from) eqn:En; cbn.
      - split; [reflexivity|intros _]. destruct (r_cover _ _ _ _ (is_refines A st OK) s (proj2 (In_db_set A s) (ex_intro _ sh' Hin))) as [i [Hi Hk]].
        apply (xo_mm _ _ _ (ik_ix _ _ _ OK)). eauto.
      - symmetry. apply (memb_In str_eqb str_eqb_eq). }
    split; intros [H1 H2]; (split; [exact H1|]); intros [E [H3 H4]]; apply H2; ssplit; auto; apply (Hn H1); exact H3.
  Qed.

  Lemma is_delete_shards_ok from c shs : forall A st,
    is_ok n A st -> (forall sh, In sh shs -> valid_shard n sh = true) ->
    exists A', is_ok n A' (fold_left (is_delete_shard rx from c) shs st) /\
      forall p, In p A' <-> In p A /\ ~ (In (fst p) shs /\ in_from from (fst (snd p)) = true /\ eval_opt rx c (snd p) = true).
  Proof.
    induction shs as [|sh shs IH]; intros A st OK Hv; cbn [fold_left].
    - exists A. split; [exact OK|]. intros p. cbn. tauto.
    - destruct (is_delete_shard_ok from c A st sh OK (Hv sh (or_introl eq_refl))) as [A1 [OK1 HA1]].
      destruct (IH A1 _ OK1 (fun sh' H => Hv sh' (or_intror H))) as [A' [OK' HA']].
      exists A'. split; [exact OK'|]. intros p. rewrite HA', HA1. cbn [In]. split.
      + intros [[H1 H2] H3]. split; [exact H1|]. intros [[Hs|Hs] [Hf He]]; [apply H2; ssplit; auto|apply H3; auto].
      + intros [H1 H2]. ssplit; auto; intros [Hs [Hf He]]; apply H2; ssplit; auto.
  Qed.

  (* open: the index is rebuilt from the data keys of every shard *)
  Lemma is_reopen_fold A st shs : forall sf ix acc L,
    is_ok n A st ->
    sf_inv sf -> sf_ext (is_sf st) sf ->
    (forall j, (j < sf_next (is_sf st))%N -> sf_key sf j = sf_key (is_sf st) j /\ sf_deleted sf j = sf_deleted (is_sf st) j) ->
    ix_ok sf L ix -> ix_dirty ix = [] ->
    (forall i, In i L <-> exists x, (x < length acc)%nat /\ In i (sh_sids (nth x acc ish_empty))) ->
    (forall x, (x < length acc)%nat -> ids_ok sf (shard_set A (Datatypes.S x)) (sh_sids (nth x acc ish_empty))) ->
    (forall j sj, sf_key sf j = Some sj -> (sf_next (is_sf st) <= j)%N -> In j L) ->
    shs = seq (Datatypes.S (length acc)) (length shs) -> (length acc + length shs = n)%nat ->
    let '(sf', ix', acc') := fold_left (fun a sh =>
                   let '(sf, ix, acc) := a in
                   let keys := map snd (filter (fun p => Nat.eqb (fst p) sh) (is_data st)) in
                   let '(sf1, ix1, shd) := is_create_list sf ix ish_empty keys in
                   (sf1, ix1, acc ++ [shd])) shs (sf, ix, acc) in
    exists L',
      sf_inv sf' /\ sf_ext (is_sf st) sf' /\
      (forall j, (j < sf_next (is_sf st))%N -> sf_key sf' j = sf_key (is_sf st) j /\ sf_deleted sf' j = sf_deleted (is_sf st) j) /\
      ix_ok sf' L' ix' /\ ix_dirty ix' = [] /\ length acc' = n /\
      (forall i, In i L' <-> exists x, (x < n)%nat /\ In i (sh_sids (nth x acc' ish_empty))) /\
      (forall x, (x < n)%nat -> ids_ok sf' (shard_set A (Datatypes.S x)) (sh_sids (nth x acc' ish_empty))) /\
      (forall j sj, sf_key sf' j = Some sj -> (sf_next (is_sf st) <= j)%N -> In j L').
  Proof.
    induction shs as [|sh shs IH]; intros sf ix acc L OK I E Hold X Xd HL Hacc Hnew Hseq Hlen; cbn [fold_left].
    - cbn in Hlen. rewrite Nat.add_0_r in Hlen. exists L. rewrite <- Hlen. ssplit; auto.
    - cbn [length seq] in Hseq. injection Hseq as Hsh Hseq'. cbn [length] in Hlen.
      set (keys := map snd (filter (fun p => Nat.eqb (fst p) sh) (is_data st))).
      assert (Hkin : forall x, In x keys <-> In (sh, x) A).
      { intros x. unfold keys. rewrite in_map_iff. split.
        - intros [[sh' s'] [Ex Hin]]. cbn in Ex. subst s'. apply filter_In in Hin. destruct Hin as [Hin Es]. cbn in Es. apply Nat.eqb_eq in Es. subst.
          apply (ik_data _ _ _ OK). exact Hin.
        - intros Hin. exists (sh, x). split; [reflexivity|]. apply filter_In. split; [apply (ik_data _ _ _ OK); exact Hin|cbn; apply Nat.eqb_refl]. }
      assert (Hwf : Forall (fun s => wf_series s = true) keys).
      { apply Forall_forall. intros x Hx. apply Hkin in Hx. apply (ik_A _ _ _ OK sh x Hx). }
      assert (O0 : ids_ok sf [] (sh_sids ish_empty)) by (constructor; cbn; try (intros; tauto); constructor).
      pose proof (is_create_list_ok keys sf L ix [] ish_empty I X O0 (fun i (H : In i []) => match H with end) Hwf) as H1.
      unfold is_create_list.
      destruct (fold_left (fun a s => ix_create (fst (fst a)) (snd (fst a)) (snd a) s) keys (sf, ix, ish_empty)) as [[sf1 ix1] shd].
      destruct H1 as [L1 [S1 [I1 [E1 [Hold1 [Hnew1 [X1 [[Xd1' _] [O1 [HS1 [HL1 _]]]]]]]]]]].
      assert (Xd1 : ix_dirty ix1 = []) by congruence.
      assert (Hb0 : (sf_next (is_sf st) <= sf_next sf)%N) by apply (se_next _ _ E).
      assert (Hold' : forall j, (j < sf_next (is_sf st))%N -> sf_key sf1 j = sf_key (is_sf st) j /\ sf_deleted sf1 j = sf_deleted (is_sf st) j).
      { intros j Hj. assert (j < sf_next sf)%N by lia. destruct (Hold1 j H) as [H2 H3], (Hold j Hj) as [H4 H5]. split; congruence. }
      assert (Hlacc : length (acc ++ [shd]) = Datatypes.S (length acc)) by (rewrite app_length; cbn; lia).
      assert (Hnth_old : forall x, (x < length acc)%nat -> nth x (acc ++ [shd]) ish_empty = nth x acc ish_empty) by (intros x Hx; apply app_nth1; exact Hx).
      assert (Hnth_new : nth (length acc) (acc ++ [shd]) ish_empty = shd) by (rewrite app_nth2, Nat.sub_diag; [reflexivity|lia]).
      specialize (IH sf1 ix1 (acc ++ [shd]) L1 OK I1 (sf_ext_trans _ _ _ I E E1) Hold' X1 Xd1).
      rewrite Hlacc in IH. cbv beta iota. apply IH; try assumption; try lia.
      + intros i. rewrite HL1, HL. split.
        * intros [[x [Hx Hi]]|Hi]; [exists x; split; [lia|rewrite (Hnth_old x Hx); exact Hi]|exists (length acc); split; [lia|rewrite Hnth_new; exact Hi]].
        * intros [x [Hx Hi]]. destruct (Nat.eq_dec x (length acc)) as [->|Hne]; [right; rewrite Hnth_new in Hi; exact Hi|].
          assert (x < length acc)%nat by lia. left. exists x. split; [exact H|rewrite (Hnth_old x H) in Hi; exact Hi].
      + intros x Hx. destruct (Nat.eq_dec x (length acc)) as [->|Hne].
        * rewrite Hnth_new. apply (ids_ok_ext sf1 S1 _ (sh_sids shd) (sh_sids shd)); [|tauto|apply (io_nodup _ _ _ O1)|exact O1].
          intros y. rewrite In_shard_set, HS1, Hkin, Hsh. cbn. tauto.
        * assert (Hx' : (x < length acc)%nat) by lia. rewrite (Hnth_old x Hx').
          apply (ids_ok_sf sf); [|apply Hacc; exact Hx']. intros i Hi. apply Hold1.
          destruct (io_live _ _ _ (Hacc x Hx') i Hi) as [s' [Hk' _]]. eapply sf_key_bound; eauto.
      + intros j sj Hk Hge. apply HL1. destruct (N.ltb_spec j (sf_next sf)) as [Hlt|Hge1].
        * left. apply (Hnew j sj); [rewrite <- (proj1 (Hold1 j Hlt)); exact Hk|exact Hge].
        * right. eapply Hnew1; eauto.
  Qed.

  Lemma is_reopen_ok A st : is_ok n A st -> is_ok n A (is_reopen n st).
  Proof.
    intros OK. pose proof OK as [Isf Hl Hd HA Hsh Hsfl Hix Hcl]. unfold is_reopen. rewrite (sf_reopen_id (is_sf st) Isf).
    assert (P1 : forall i, In i (@nil id) <-> exists x, (x < length (@nil ishard))%nat /\ In i (sh_sids (nth x [] ish_empty))).
    { intros i. split; [intros []|intros [x [Hx _]]; cbn in Hx; lia]. }
    assert (P2 : forall x, (x < length (@nil ishard))%nat -> ids_ok (is_sf st) (shard_set A (Datatypes.S x)) (sh_sids (nth x [] ish_empty))).
    { intros x Hx. cbn in Hx. lia. }
    assert (P3 : forall j sj, sf_key (is_sf st) j = Some sj -> (sf_next (is_sf st) <= j)%N -> In j (@nil id)).
    { intros j sj Hk Hge. apply (sf_key_bound _ Isf) in Hk. lia. }
    assert (P4 : seq 1 n = seq (Datatypes.S (length (@nil ishard))) (length (seq 1 n))) by (rewrite seq_length; reflexivity).
    assert (P5 : (length (@nil ishard) + length (seq 1 n) = n)%nat) by (rewrite seq_length; reflexivity).
    pose proof (is_reopen_fold A st (seq 1 n) (is_sf st) ix_empty [] [] OK Isf (sf_ext_refl _) (fun j _ => conj eq_refl eq_refl)
                 (ix_ok_empty _) eq_refl P1 P2 P3 P4 P5) as H.
    match type of H with context [fold_left ?F (seq 1 n) ?z] => destruct (fold_left F (seq 1 n) z) as [[sf' ix'] acc'] end.
    destruct H as [L' [I' [E' [Hold [X' [Xd' [Hlen [HL' [Hacc Hnew]]]]]]]]].
    assert (Hget : forall sh, valid_shard n sh = true -> is_get (mkIs sf' (is_data st) ix' acc') sh = nth (sh - 1) acc' ish_empty) by reflexivity.
    assert (Hacc' : forall sh, valid_shard n sh = true -> ids_ok sf' (shard_set A sh) (sh_sids (nth (sh - 1) acc' ish_empty))).
    { intros sh Hv. apply valid_shard_iff in Hv. replace sh with (Datatypes.S (sh - 1)) at 1 by lia. apply Hacc. lia. }
    constructor; cbn [is_sf is_data is_ix is_sh]; auto.
    - intros i s Hk Hdl. destruct (N.ltb_spec i (sf_next (is_sf st))) as [Hlt|Hge].
      + destruct (Hold i Hlt) as [E1 E2]. rewrite E1 in Hk. rewrite E2 in Hdl. destruct (Hsfl i s Hk Hdl) as [sh [Hv Hin]].
        destruct (io_live _ _ _ (Hsh sh Hv) i Hin) as [s' [K' [_ HS]]]. rewrite Hk in K'. inversion K'; subst s'.
        destruct (io_cover _ _ _ (Hacc' sh Hv) s HS) as [i' [Hi' Hk']]. destruct (io_live _ _ _ (Hacc' sh Hv) i' Hi') as [s'' [K'' [D'' _]]].
        exists sh. split; [exact Hv|]. rewrite (Hget sh Hv).
        assert (i' = i); [|subst; exact Hi']. apply (sf_live_unique sf' I' i' i s); auto; [rewrite E1; exact Hk|rewrite E2; exact Hdl].
      + apply (Hnew i s Hk) in Hge. apply HL' in Hge. destruct Hge as [x [Hx Hi]]. exists (Datatypes.S x). split; [apply valid_shard_iff; lia|].
        unfold is_get. cbn [is_sh]. cbn. rewrite Nat.sub_0_r. exact Hi.
    - apply (ix_ok_L sf' L'); [|exact X']. intros i. unfold is_L. cbn [is_sh]. rewrite (In_is_L_gen acc' n i Hlen), HL'. split.
      + intros [sh [Hv Hi]]. apply valid_shard_iff in Hv. exists (sh - 1). split; [lia|exact Hi].
      + intros [x [Hx Hi]]. exists (Datatypes.S x). split; [apply valid_shard_iff; lia|]. cbn. rewrite Nat.sub_0_r. exact Hi.
    - apply tv_weak_of_clean; [|exact Xd']. apply (ix_ok_L sf' L'); [|exact X']. intros i. unfold is_L. cbn [is_sh]. rewrite (In_is_L_gen acc' n i Hlen), HL'. split.
      + intros [sh [Hv Hi]]. apply valid_shard_iff in Hv. exists (sh - 1). split; [lia|exact Hi].
      + intros [x [Hx Hi]]. exists (Datatypes.S x). split; [apply valid_shard_iff; lia|]. cbn. rewrite Nat.sub_0_r. exact Hi.
  Qed.

  (* Store.DeleteShard with the in-memory index (no Rebuild), then the shard is created again *)
  Lemma is_drop_shard_ok A st sh :
    is_ok n A st -> is_ok n (apply_op rx n A (ODropShard sh)) (is_drop_shard n st sh).
  Proof.
    intros OK. pose proof OK as [Isf Hl Hd HA Hsh Hsfl Hix Htv]. unfold is_drop_shard. cbn [apply_op].
    set (A' := filter (fun p => negb (Nat.eqb (fst p) sh)) A).
    assert (HA' : forall sh' s, In (sh', s) A' <-> In (sh', s) A /\ sh' <> sh).
    { intros sh' s. unfold A'. rewrite filter_In. cbn [fst]. rewrite negb_true_iff, Nat.eqb_neq. tauto. }
    destruct (valid_shard n sh) eqn:Hv.
    2: { apply (is_ok_ext A); [|exact OK]. intros [sh' s]. rewrite HA'. split; [tauto|]. intros H. split; [exact H|].
         intros ->. destruct (HA sh s H) as [Hv' _]. congruence. }
    set (sf := is_sf st) in *. set (L := is_L st) in *. set (shd := is_get st sh).
    set (shards := upd_nth (sh - 1) ish_empty (is_sh st)).
    assert (Hlen : length shards = n) by (unfold shards; rewrite upd_nth_length; exact Hl).
    assert (Hget : forall sh', valid_shard n sh' = true -> nth (sh' - 1) shards ish_empty = if Nat.eqb sh' sh then ish_empty else is_get st sh')
      by (intros sh' Hv'; apply is_get_upd; assumption).
    set (deadi := filter (fun i => negb (existsb (fun s0 => memb N.eqb i (sh_sids s0)) shards)) (sh_sids shd)).
    assert (Hdead : forall i sh', In i deadi -> valid_shard n sh' = true -> ~ In i (sh_sids (nth (sh' - 1) shards ish_empty))).
    { intros i sh' Hi Hv' Hin. unfold deadi in Hi. apply filter_In in Hi. destruct Hi as [_ Hi]. apply negb_true_iff in Hi.
      rewrite existsb_false in Hi. specialize (Hi (nth (sh' - 1) shards ish_empty)).
      rewrite (proj2 (memb_In N.eqb N.eqb_eq _ _) Hin) in Hi. discriminate Hi.
      apply nth_In. rewrite Hlen. apply valid_shard_iff in Hv'. lia. }
    (* an id of the shard that is not dead is held by another shard *)
    assert (Hheld : forall i, In i (sh_sids shd) -> ~ In i deadi -> exists sh', valid_shard n sh' = true /\ In i (sh_sids (nth (sh' - 1) shards ish_empty))).
    { intros i Hi Hnd. destruct (existsb (fun s0 => memb N.eqb i (sh_sids s0)) shards) eqn:Ex.
      - apply existsb_exists in Ex. destruct Ex as [s0 [Hs0 Hm]]. apply (memb_In N.eqb N.eqb_eq) in Hm.
        apply (In_ish shards n _ Hlen) in Hs0. destruct Hs0 as [sh' [Hv' ->]]. eauto.
      - exfalso. apply Hnd. unfold deadi. apply filter_In. split; [exact Hi|rewrite Ex; reflexivity]. }
    assert (Hsub : forall i, In i deadi -> In i (sh_sids shd)) by (intros i Hi; unfold deadi in Hi; apply filter_In in Hi; tauto).
    destruct (dead_pairs sf deadi) as [dead [Hmap Hdk]].
    { intros i Hi. destruct (io_live _ _ _ (Hsh sh Hv) i (Hsub i Hi)) as [k [Hk _]]. eauto. }
    assert (Hnd_dead : NoDup (map fst dead)).
    { rewrite Hmap. unfold deadi. apply (NoDup_filter _ _ (io_nodup _ _ _ (Hsh sh Hv))). }
    pose proof (dead_fold dead sf L (is_ix st) Isf Hix Hnd_dead) as Hfold.
    rewrite two_pass_eq, Hmap in Hfold. cbv beta iota in Hfold.
    destruct Hfold as [I2 [Hn2 [Hk2 [Ho2 [Hd2 [X2 W2]]]]]].
    { intros i k Hin. destruct (Hdk i k Hin) as [Hi Hk]. split; [|exact Hk]. apply (In_is_L st i Hl). exists sh. split; [exact Hv|apply Hsub; exact Hi]. }
    set (sf2 := fold_left sf_delete deadi sf) in *.
    set (ix2 := fold_left (fun ix i => match sf_key sf i with Some k => ix_drop_series_global ix k | None => ix end) deadi (is_ix st)) in *.
    (* the ids some shard still holds *)
    assert (HL2 : forall i, In i (iunions (map sh_sids shards)) <-> In i (filter (fun j => negb (memb N.eqb j deadi)) L)).
    { intros i. rewrite (In_is_L_gen shards n i Hlen), filter_In, negb_true_iff, (memb_false N.eqb N.eqb_eq).
      unfold L. rewrite (In_is_L st i Hl). split.
      - intros [sh' [Hv' Hi]]. split; [|intros Hin; apply (Hdead i sh' Hin Hv'); exact Hi].
        rewrite (Hget sh' Hv') in Hi. destruct (Nat.eqb sh' sh); [destruct Hi|eauto].
      - intros [[sh' [Hv' Hi]] Hnd']. destruct (Nat.eqb sh' sh) eqn:Es.
        + apply Nat.eqb_eq in Es. subst sh'. apply Hheld; assumption.
        + exists sh'. split; [exact Hv'|]. rewrite (Hget sh' Hv'), Es. exact Hi. }
    constructor; cbn [is_sf is_data is_ix is_sh].
    - exact I2.
    - exact Hlen.
    - intros [sh' s]. rewrite filter_In, Hd, HA'. cbn [fst]. rewrite negb_true_iff, Nat.eqb_neq. tauto.
    - intros sh' s Hin. apply HA' in Hin. apply HA. tauto.
    - intros sh' Hv'. unfold is_get. cbn [is_sh]. fold shards. rewrite (Hget sh' Hv'). destruct (Nat.eqb sh' sh) eqn:Es.
      + apply Nat.eqb_eq in Es. subst sh'. constructor; cbn [sh_sids ish_empty]; [constructor|intros i []| |].
        * intros s Hs. apply In_shard_set, HA' in Hs. tauto.
        * intros s Hs. apply In_shard_set, HA' in Hs. tauto.
      + apply Nat.eqb_neq in Es.
        apply (ids_ok_ext sf2 (shard_set A sh') _ (sh_sids (is_get st sh')) (sh_sids (is_get st sh'))); [|tauto|apply (io_nodup _ _ _ (Hsh sh' Hv'))|].
        * intros x. rewrite !In_shard_set, HA'. tauto.
        * apply (ids_ok_sf sf); [|apply Hsh; exact Hv']. intros i Hi. split; [apply Hk2|]. apply Ho2. intros Hin.
          apply (Hdead i sh' Hin Hv'). rewrite (Hget sh' Hv'). apply Nat.eqb_neq in Es. rewrite Es. exact Hi.
    - intros i s Hk Hdel. fold shards. rewrite Hk2 in Hk.
      assert (Hndd : ~ In i deadi) by (intros Hin; rewrite (Hd2 i Hin) in Hdel; discriminate).
      rewrite (Ho2 i Hndd) in Hdel. destruct (Hsfl i s Hk Hdel) as [sh' [Hv' Hin]].
      destruct (Nat.eqb sh' sh) eqn:Es.
      + apply Nat.eqb_eq in Es. subst sh'. destruct (Hheld i Hin Hndd) as [sh'' [Hv'' Hi'']]. exists sh''. split; [exact Hv''|exact Hi''].
      + exists sh'. split; [exact Hv'|]. unfold is_get. cbn [is_sh]. fold shards. rewrite (Hget sh' Hv'), Es. exact Hin.
    - apply (ix_ok_L sf2 (filter (fun j => negb (memb N.eqb j deadi)) L)); [|exact X2]. intros i. unfold is_L. cbn [is_sh]. fold shards. apply HL2.
    - apply (tv_weak_L sf2 (filter (fun j => negb (memb N.eqb j deadi)) L)); [|apply W2; exact Htv]. intros i. unfold is_L. cbn [is_sh]. fold shards. apply HL2.
  Qed.

  Theorem is_step_ok A st o :
    wf_op o = true -> is_ok n A st -> is_ok n (apply_op rx n A o) (is_step rx n st o).
  Proof.
    intros Hwf OK. destruct o as [sh ss|shs from c|m|sh|sh|sh lvl| |sh| | ]; cbn [is_step apply_op]; try exact OK.
    - apply is_write_ok; assumption.
    - destruct (is_delete_shards_ok from c (filter (fun sh => memb Nat.eqb sh shs) (seq 1 n)) A st OK) as [A' [OK' HA']].
      { intros sh Hin. apply filter_In in Hin. apply In_seq_valid. tauto. }
      apply (is_ok_ext A'); [|exact OK']. intros [sh s]. rewrite filter_In. cbn [fst snd].
      rewrite negb_true_iff. rewrite HA'. cbn [fst snd]. rewrite filter_In, In_seq_valid.
      split.
      + intros [Hin Hb]. split; [exact Hin|]. intros [[_ Hm] [Hf He]]. rewrite Hm, Hf, He in Hb. discriminate.
      + intros [Hin Hn]. split; [exact Hin|].
        destruct (memb Nat.eqb sh shs) eqn:Em; [|reflexivity]. destruct (in_from from (fst s)) eqn:Ef; [|reflexivity].
        destruct (eval_opt rx c s) eqn:Ee; [|reflexivity]. exfalso. apply Hn. ssplit; auto.
        apply (ik_A _ _ _ OK sh s Hin).
    - destruct (is_delete_shards_ok [m] None (seq 1 n) A st OK) as [A' [OK' HA']].
      { intros sh Hin. apply In_seq_valid. exact Hin. }
      apply (is_ok_ext A'); [|exact OK']. intros [sh s]. rewrite filter_In. cbn [fst snd].
      rewrite negb_true_iff. rewrite HA'. cbn [fst snd eval_opt]. rewrite In_seq_valid. unfold in_from. cbn [is_nil orb memb existsb]. rewrite orb_false_r.
      split.
      + intros [Hin Hb]. split; [exact Hin|]. intros [_ [Hf _]]. congruence.
      + intros [Hin Hn]. split; [exact Hin|]. destruct (str_eqb (fst s) m) eqn:E; [|reflexivity]. exfalso. apply Hn.
        ssplit; auto. apply (ik_A _ _ _ OK sh s Hin).
    - (* shard deletion *)
      apply is_drop_shard_ok. exact OK.
    - (* series-file compaction *)
      destruct OK as [Isf Hl Hd HA Hsh Hsfl Hix Hcl].
      destruct (sf_compact_spec (is_sf st) Isf) as [I' [Hn [Hdel Hkey]]]. cbv zeta in *.
      assert (Hsame : forall i, In i (is_L st) -> sf_key (sf_compact (is_sf st)) i = sf_key (is_sf st) i /\ sf_deleted (sf_compact (is_sf st)) i = sf_deleted (is_sf st) i).
      { intros i Hi. destruct (xo_live _ _ _ Hix i Hi) as [s [_ Hd']]. split; [rewrite Hkey, Hd'; reflexivity|apply Hdel]. }
      constructor; cbn [is_sf is_data is_ix is_sh]; auto.
      + intros sh Hv. apply (ids_ok_sf (is_sf st)); [|apply Hsh; exact Hv]. intros i Hi. apply Hsame. apply (In_is_L st i Hl). eauto.
      + intros i s Hk Hdl. rewrite Hdel in Hdl. rewrite Hkey, Hdl in Hk. apply (Hsfl i s Hk Hdl).
      + apply (ix_ok_sf (is_sf st)); [exact Hsame| |exact Hix]. intros i Hi. destruct (xo_del _ _ _ Hix i Hi) as [H1 H2].
        rewrite Hdel, Hn. auto.
      + apply (tv_weak_sf (is_sf st)); [intros i Hi; apply Hsame; exact Hi| |exact Hcl].
        intros i H1 H2. rewrite Hdel, Hn. auto.
    - (* a new series-file segment *)
      destruct OK as [Isf Hl Hd HA Hsh Hsfl Hix Hcl].
      destruct (sf_roll_spec (is_sf st) Isf) as [I' [Hn [Hkey [Hdel _]]]].
      constructor; cbn [is_sf is_data is_ix is_sh]; auto.
      + intros sh Hv. apply (ids_ok_sf (is_sf st)); [|apply Hsh; exact Hv]. intros i Hi. split; [apply Hkey|apply Hdel].
      + apply (ix_ok_sf (is_sf st)); [intros i Hi; split; [apply Hkey|apply Hdel]| |exact Hix].
        intros i Hi. destruct (xo_del _ _ _ Hix i Hi) as [H1 H2]. rewrite Hdel, Hn. auto.
      + apply (tv_weak_sf (is_sf st)); [intros i Hi; apply Hkey| |exact Hcl].
        intros i H1 H2. rewrite Hdel, Hn. auto.
    - apply is_reopen_ok. exact OK.
  Qed.

  Theorem is_run_ok ops : wf_ops ops = true -> is_ok n (run_spec rx n ops) (is_run rx n ops).
  Proof.
    unfold run_spec, is_run. intros Hwf.
    assert (H : forall A st, is_ok n A st -> is_ok n (fold_left (apply_op rx n) ops A) (fold_left (is_step rx n) ops st)).
    { induction ops as [|o ops IH]; intros A st OK; cbn [fold_left]; [exact OK|].
      cbn [wf_ops forallb] in Hwf. apply andb_true_iff in Hwf. destruct Hwf as [Ho Hops].
      apply IH; [exact Hops|]. apply is_step_ok; assumption. }
    apply H. apply is_init_ok.
  Qed.
End Steps.
