(* C14/ProofsSorted.v — the lazily sorted series id list of an in-memory measurement object
   (measurement.sortedSeriesIDs): SeriesIDs() trusts the cached list when it is as long as the
   seriesByID map.  After every sequence of AddSeries / DropSeries / SeriesIDs calls the list it
   returns holds exactly the ids of the map, once each: the cache is not observable, which is why
   the index model (ix_prims) reads the map. *)
From Verif Require Import C14.Spec C14.Model C14.ProofsBase.

Lemma In_ins_sorted i j l : In j (ins_sorted i l) <-> j = i \/ In j l.
Proof.
  induction l as [|x l IH]; cbn [ins_sorted]; [cbn; intuition|].
  destruct (i <=? x)%N; cbn [In]; [intuition|]. rewrite IH. intuition.
Qed.

Lemma In_sort_ids j l : In j (sort_ids l) <-> In j l.
Proof.
  induction l as [|x l IH]; cbn [sort_ids fold_right]; [tauto|]. fold (sort_ids l). rewrite In_ins_sorted, IH. cbn. intuition.
Qed.

Lemma NoDup_ins_sorted i l : ~ In i l -> NoDup l -> NoDup (ins_sorted i l).
Proof.
  induction l as [|x l IH]; intros Hn Hnd; cbn [ins_sorted]; [constructor; [intros []|constructor]|].
  destruct (i <=? x)%N; [constructor; assumption|]. inversion Hnd; subst. constructor.
  - rewrite In_ins_sorted. intros [->|H]; [apply Hn; left; reflexivity|contradiction].
  - apply IH; [intros H; apply Hn; right; exact H|assumption].
Qed.

Lemma NoDup_sort_ids l : NoDup l -> NoDup (sort_ids l).
Proof.
  induction 1 as [|x l Hx Hl IH]; cbn [sort_ids fold_right]; [constructor|]. fold (sort_ids l).
  apply NoDup_ins_sorted; [rewrite In_sort_ids; exact Hx|exact IH].
Qed.

Lemma length_ins_sorted i l : length (ins_sorted i l) = S (length l).
Proof. induction l as [|x l IH]; cbn [ins_sorted]; [reflexivity|]. destruct (i <=? x)%N; cbn [length]; [reflexivity|rewrite IH; reflexivity]. Qed.

Lemma length_sort_ids l : length (sort_ids l) = length l.
Proof. induction l as [|x l IH]; cbn [sort_ids fold_right length]; [reflexivity|]. fold (sort_ids l). rewrite length_ins_sorted, IH. reflexivity. Qed.

Lemma NoDup_snoc {A} (l : list A) x : NoDup l -> ~ In x l -> NoDup (l ++ [x]).
Proof.
  induction 1 as [|y l Hy Hl IH]; intros Hx; cbn [app]; [constructor; [intros []|constructor]|].
  constructor; [|apply IH; intros H; apply Hx; right; exact H].
  rewrite in_app_iff. intros [H|[<-|[]]]; [contradiction|apply Hx; left; reflexivity].
Qed.

(* the cached list never holds an id the map does not hold *)
Record mc_inv (c : mcache) : Prop := mkMcInv {
  mi_ids : NoDup (mc_ids c);
  mi_sorted : NoDup (mc_sorted c);
  mi_sub : forall i, In i (mc_sorted c) -> In i (mc_ids c)
}.

Lemma mc_step_inv c o : mc_inv c -> mc_inv (mc_step c o).
Proof.
  intros [H1 H2 H3]. destruct o as [i|i|]; cbn [mc_step].
  - unfold mc_add. destruct (memb N.eqb i (mc_ids c)) eqn:E; [constructor; assumption|].
    apply (memb_false N.eqb N.eqb_eq) in E. cbv zeta.
    destruct ((length (i :: mc_ids c) =? 1)%nat || ((length (mc_sorted c) =? length (i :: mc_ids c) - 1)%nat && (last (mc_sorted c) 0 <? i)%N));
      constructor; cbn [mc_ids mc_sorted].
    + constructor; assumption.
    + apply NoDup_snoc; [exact H2|]. intros Hi. apply E. apply H3. exact Hi.
    + intros j Hj. apply in_app_iff in Hj. destruct Hj as [Hj|[<-|[]]]; [right; apply H3; exact Hj|left; reflexivity].
    + constructor; assumption.
    + exact H2.
    + intros j Hj. right. apply H3. exact Hj.
  - unfold mc_drop. destruct (memb N.eqb i (mc_ids c)); [|constructor; assumption].
    constructor; cbn [mc_ids mc_sorted]; [apply (NoDup_filter _ _ H1)|constructor|intros j []].
  - unfold mc_list. destruct (length (mc_sorted c) =? length (mc_ids c))%nat; cbn [fst]; [constructor; assumption|].
    constructor; cbn [mc_ids mc_sorted]; [exact H1|apply NoDup_sort_ids; exact H1|intros j Hj; apply In_sort_ids; exact Hj].
Qed.

Lemma mc_run_inv ops : mc_inv (mc_run ops).
Proof.
  unfold mc_run. assert (H : forall c, mc_inv c -> mc_inv (fold_left mc_step ops c)).
  { induction ops as [|o ops IH]; intros c Hc; cbn [fold_left]; [exact Hc|]. apply IH. apply mc_step_inv. exact Hc. }
  apply H. constructor; cbn; [constructor|constructor|intros i []].
Qed.

(* whatever was added, dropped and listed before, SeriesIDs() returns exactly the ids of the map, once each *)
Theorem mc_list_exact ops :
  let c := mc_run ops in
  NoDup (snd (mc_list c)) /\ forall i, In i (snd (mc_list c)) <-> In i (mc_ids c).
Proof.
  cbv zeta. destruct (mc_run_inv ops) as [H1 H2 H3]. unfold mc_list.
  destruct (length (mc_sorted (mc_run ops)) =? length (mc_ids (mc_run ops)))%nat eqn:E; cbn [snd].
  - apply Nat.eqb_eq in E. split; [exact H2|]. intros i. split; [apply H3|].
    apply (NoDup_length_incl H2); [lia|]. intros j Hj. apply H3. exact Hj.
  - split; [apply NoDup_sort_ids; exact H1|intros i; apply In_sort_ids].
Qed.
