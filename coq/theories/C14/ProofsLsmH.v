(* C14/ProofsLsmH.v — the invariant of one TSI shard and its preservation by every operation of the
   shard: adding series, dropping series, dropping an emptied measurement, log and level
   compaction, reopen, and changes of the shared series file caused elsewhere. *)
From Verif Require Import C14.Spec C14.Model C14.ProofsBase C14.ProofsQuery C14.ProofsSfile
     C14.ProofsLsmA C14.ProofsLsmB C14.ProofsLsmC C14.ProofsLsmD C14.ProofsLsmE C14.ProofsLsmF C14.ProofsLsmG.

Record shard_ok (sf : sfile) (S : list series) (P : list str) (t : tsi) : Prop := mkShardOk {
  so_ids : ids_ok sf S (t_sids t);
  so_run : view_ok sf S (t_sids t) P (t_ents t) (t_log t) (t_older t);                        (* the running index *)
  so_rep : view_ok sf S (t_sids t) P (t_ents t) (log_replay sf (t_ents t)) (t_older t);       (* what a restart would rebuild *)
  so_ents : forall e i, In e (t_ents t) -> In i (ent_ids e) -> (i < sf_next sf)%N
}.

Lemma shard_ok_empty sf : sf_inv sf -> shard_ok sf [] [] tsi_empty.
Proof.
  intros I.
  assert (V : view_ok sf [] [] [] [] (tf_empty 0) []).
  { constructor; try (intros; cbn in *; tauto).
    - intros f [<-|[]]. apply file_ok_empty.
    - apply built_ok_empty.
    - intros m H. cbn in H. discriminate.
    - intros m H. cbn in H. discriminate. }
  constructor; cbn; try exact V; try (intros; tauto).
  constructor; cbn; try (intros; tauto). constructor.
Qed.

Lemma ids_ok_ext sf S S' sids sids' :
  (forall x, In x S' <-> In x S) -> (forall i, In i sids' <-> In i sids) -> NoDup sids' ->
  ids_ok sf S sids -> ids_ok sf S' sids'.
Proof.
  intros HS Hs Hnd [O1 O2 O3 O4]. constructor; [exact Hnd| | |].
  - intros i Hi. apply Hs in Hi. destruct (O2 i Hi) as [s [H1 [H2 H3]]]. exists s. ssplit; auto. apply HS. exact H3.
  - intros s Hin. apply HS in Hin. destruct (O3 s Hin) as [i [H1 H2]]. exists i. split; [apply Hs; exact H1|exact H2].
  - intros s Hin. apply O4. apply HS. exact Hin.
Qed.

Lemma ids_ok_sf sf sf' S sids :
  (forall i, In i sids -> sf_key sf' i = sf_key sf i /\ sf_deleted sf' i = sf_deleted sf i) ->
  ids_ok sf S sids -> ids_ok sf' S sids.
Proof.
  intros H [O1 O2 O3 O4]. constructor; [exact O1| | |exact O4].
  - intros i Hi. destruct (O2 i Hi) as [s [H1 [H2 H3]]]. destruct (H i Hi) as [E1 E2]. exists s. rewrite E1, E2. auto.
  - intros s Hin. destruct (O3 s Hin) as [i [H1 H2]]. exists i. split; [exact H1|]. rewrite (proj1 (H i H1)). exact H2.
Qed.

(* ----- the series file changed elsewhere ----- *)

(* ... without touching the keys of ids handed out before (create, delete) *)
Lemma shard_sf_same sf sf' S P t :
  sf_ext sf sf' ->
  (forall i, (i < sf_next sf)%N -> sf_key sf' i = sf_key sf i) ->
  (forall i, In i (t_sids t) -> sf_deleted sf' i = sf_deleted sf i) ->
  sf_inv sf -> shard_ok sf S P t -> shard_ok sf' S P t.
Proof.
  intros E Hk Hd I [O Vr Vp He].
  assert (Hs : forall i, In i (t_sids t) -> sf_key sf' i = sf_key sf i).
  { intros i Hi. apply Hk. destruct (io_live _ _ _ O i Hi) as [s [H1 _]]. eapply sf_key_bound; eauto. }
  constructor.
  - apply (ids_ok_sf sf); [|exact O]. intros i Hi. split; [apply Hs|apply Hd]; exact Hi.
  - apply (view_sf sf); assumption.
  - rewrite (log_replay_ext sf sf'); [apply (view_sf sf); assumption|]. intros e i He' Hi. apply Hk. eapply He; eauto.
  - intros e i He' Hi. apply N.lt_le_trans with (sf_next sf); [eapply He; eauto|apply (se_next _ _ E)].
Qed.

(* ... by a series-file compaction *)
Lemma shard_sf_compact sf S P t :
  sf_inv sf -> shard_ok sf S P t -> shard_ok (sf_compact sf) S P t.
Proof.
  intros I [O Vr Vp He]. destruct (sf_compact_spec sf I) as [I' [Hn [Hd Hk]]]. cbv zeta in *.
  assert (Hkey : forall i s, sf_key (sf_compact sf) i = Some s -> sf_key sf i = Some s).
  { intros i s H. rewrite Hk in H. destruct (sf_deleted sf i); [discriminate|exact H]. }
  assert (E : sf_ext sf (sf_compact sf)) by (constructor; [rewrite Hn; lia|intros i s H; left; apply Hkey; exact H]).
  assert (Hs : forall i, In i (t_sids t) -> sf_key (sf_compact sf) i = sf_key sf i).
  { intros i Hi. rewrite Hk. destruct (io_live _ _ _ O i Hi) as [s [_ [H2 _]]]. rewrite H2. reflexivity. }
  constructor.
  - apply (ids_ok_sf sf); [|exact O]. intros i Hi. split; [apply Hs; exact Hi|apply Hd].
  - apply (view_sf sf); assumption.
  - apply (view_deg sf); assumption.
  - intros e i He' Hi. rewrite Hn. eapply He; eauto.
Qed.

(* ----- appending entries ----- *)

Lemma t_append_fold sf es t :
  let t' := fold_left (t_append sf) es t in
  t_ents t' = rev es ++ t_ents t /\ t_log t' = fold_left (exec_ent false sf) es (t_log t) /\
  t_older t' = t_older t /\ t_sids t' = t_sids t.
Proof.
  revert t. induction es as [|e es IH]; intros t; cbn [fold_left rev app]; [auto|].
  destruct (IH (t_append sf t e)) as [H1 [H2 [H3 H4]]]. cbv zeta. rewrite H1, H2, H3, H4. cbn [t_append t_ents t_log t_older t_sids].
  rewrite <- app_assoc. auto.
Qed.

Lemma replay_app sf es ents : log_replay sf (rev es ++ ents) = fold_left (exec_ent true sf) es (log_replay sf ents).
Proof.
  revert ents. induction es as [|e es IH]; intros ents; cbn [rev fold_left app]; [reflexivity|].
  rewrite <- app_assoc. cbn [app]. rewrite (IH (e :: ents)). reflexivity.
Qed.

Definition no_add (e : lent) : Prop := match e with LAdd _ _ => False | _ => True end.

Lemma exec_ent_no_add sf es f : Forall no_add es -> fold_left (exec_ent true sf) es f = fold_left (exec_ent false sf) es f.
Proof.
  revert f. induction es as [|e es IH]; intros f H; [reflexivity|]. inversion H; subst. cbn [fold_left].
  rewrite IH; [|assumption]. destruct e; cbn in *; try reflexivity. contradiction.
Qed.

Section Ops.
  Variable sf : sfile.
  Hypothesis I : sf_inv sf.

  (* ----- one series arrives (LogFile.AddSeriesList) ----- *)
  Lemma tsi_add_ok S t s :
    shard_ok sf S [] t -> wf_series s = true ->
    let '(sf', t') := tsi_add sf t s in
    sf_inv sf' /\ sf_ext sf sf' /\ shard_ok sf' (s :: S) [] t' /\ t_older t' = t_older t /\
    (forall i, (i < sf_next sf)%N -> sf_key sf' i = sf_key sf i /\ sf_deleted sf' i = sf_deleted sf i) /\
    (exists i, In i (t_sids t') /\ sf_key sf' i = Some s /\ (forall j, In j (t_sids t') <-> j = i \/ In j (t_sids t)) /\
               (forall j sj, sf_key sf' j = Some sj -> (sf_next sf <= j)%N -> j = i)).
  Proof.
    intros [O Vr Vp He] Hwf. unfold tsi_add.
    pose proof (sf_create_spec sf I s) as Hc. destruct (sf_create sf s) as [sf' i].
    destruct Hc as [I' [Hk [Hd [Hn [Hoth Hcase]]]]].
    assert (Hfresh_or : forall j, (j < sf_next sf)%N -> j <> i \/ sf' = sf).
    { intros j Hj. destruct Hcase as [[E _]|[_ [E _]]]; [auto|left; subst i; lia]. }
    assert (Hold : forall j, (j < sf_next sf)%N -> sf_key sf' j = sf_key sf j /\ sf_deleted sf' j = sf_deleted sf j).
    { intros j Hj. destruct (Hfresh_or j Hj) as [Hne | ->]; [apply Hoth; exact Hne|auto]. }
    assert (Hnew : forall j sj, sf_key sf' j = Some sj -> (sf_next sf <= j)%N -> j = i).
    { intros j sj Hj Hge. destruct (N.eq_dec j i) as [->|Hne]; [reflexivity|]. exfalso.
      rewrite (proj1 (Hoth j Hne)) in Hj. apply (sf_key_bound sf I) in Hj. lia. }
    assert (E : sf_ext sf sf').
    { constructor; [exact Hn|]. intros j sj Hj. destruct (N.ltb_spec j (sf_next sf)) as [Hlt|Hge]; [left|right; exact Hge].
      rewrite <- (proj1 (Hold j Hlt)). exact Hj. }
    assert (Hsd : forall j, In j (t_sids t) -> sf_deleted sf' j = sf_deleted sf j).
    { intros j Hj. apply Hold. destruct (io_live _ _ _ O j Hj) as [sj [H1 _]]. eapply sf_key_bound; eauto. }
    pose proof (shard_sf_same sf sf' S [] t E (fun j Hj => proj1 (Hold j Hj)) Hsd I (mkShardOk _ _ _ _ O Vr Vp He)) as [O' Vr' Vp' He'].
    destruct (memb N.eqb i (t_sids t)) eqn:Em.
    - (* already in the shard *)
      apply (memb_In N.eqb N.eqb_eq) in Em.
      assert (HS : In s S).
      { destruct (io_live _ _ _ O' i Em) as [s' [K' [_ HS]]]. rewrite Hk in K'. inversion K'; subst. exact HS. }
      assert (HSe : forall x, In x (s :: S) <-> In x S) by (intros x; cbn; split; [intros [<-|H]; auto|auto]).
      ssplit; auto.
      + constructor; try assumption.
        * apply (ids_ok_ext sf' S (s :: S) (t_sids t) (t_sids t)); [exact HSe|tauto|apply (io_nodup _ _ _ O')|exact O'].
        * apply (view_set_ext sf' S (s :: S) (t_sids t) (t_sids t)); [exact HSe|tauto|exact Vr'].
        * apply (view_set_ext sf' S (s :: S) (t_sids t) (t_sids t)); [exact HSe|tauto|exact Vp'].
      + exists i. ssplit; auto. intros j. split; [auto|intros [->|H]; auto].
    - (* joins the shard *)
      apply (memb_false N.eqb N.eqb_eq) in Em.
      cbn [t_append t_ents t_log t_older t_sids].
      assert (HSe : forall x, In x (s :: S) <-> x = s \/ In x S) by (intros x; cbn; split; [intros [<-|H]; auto|intros [->|H]; auto]).
      ssplit; auto.
      + constructor; cbn [t_ents t_log t_older t_sids].
        * constructor.
          -- constructor; [exact Em|apply (io_nodup _ _ _ O')].
          -- intros j [<-|Hj]; [exists s; ssplit; cbn; auto|].
             destruct (io_live _ _ _ O' j Hj) as [sj [H1 [H2 H3]]]. exists sj. ssplit; cbn; auto.
          -- intros x [<-|Hx]; [exists i; cbn; auto|]. destruct (io_cover _ _ _ O' x Hx) as [j [H1 H2]]. exists j. cbn; auto.
          -- intros x [<-|Hx]; [exact Hwf|apply (io_wf _ _ _ O'); exact Hx].
        * apply (view_add sf' I' S (t_sids t) [] (t_ents t) (t_log t) (t_older t) Vr' false i s (s :: S)); auto.
        * change (log_replay sf' (LAdd i s :: t_ents t)) with (exec_ent true sf' (log_replay sf' (t_ents t)) (LAdd i s)).
          apply (view_add sf' I' S (t_sids t) [] (t_ents t) (log_replay sf' (t_ents t)) (t_older t) Vp' true i s (s :: S)); auto.
        * intros e j [<-|Hin] Hj; [cbn in Hj; destruct Hj as [<-|[]]; eapply sf_key_bound; eauto|eapply He'; eauto].
      + exists i. ssplit; cbn; auto. intros j. split; [intros [->|H]; auto|intros [->|H]; auto].
  Qed.

  (* ----- series leave the shard (Partition.DropSeriesList) ----- *)
  Lemma tsi_drop_series_ok ids : forall S P t,
    shard_ok sf S P t -> NoDup ids -> (forall i, In i ids -> In i (t_sids t)) ->
    let t' := tsi_drop_series sf t ids in
    exists S' P',
      shard_ok sf S' P' t' /\ t_older t' = t_older t /\
      (forall j, In j (t_sids t') <-> In j (t_sids t) /\ ~ In j ids) /\
      (forall x, In x S' <-> In x S /\ ~ (exists i, In i ids /\ sf_key sf i = Some x)) /\
      (forall m, In m P' <-> In m P \/ exists i s, In i ids /\ sf_key sf i = Some s /\ fst s = m).
  Proof.
    induction ids as [|i ids IH]; intros S P t [O Vr Vp He] Hnd Hin; cbv zeta; [cbn [tsi_drop_series fold_left]|].
    - exists S, P. split; [constructor; assumption|]. split; [reflexivity|]. split; [intros j; cbn; tauto|]. split.
      + intros x. split; [intros H; split; [exact H|intros [i [[] _]]]|intros [H _]; exact H].
      + intros m. split; [auto|intros [H|[i [s [[] _]]]]; exact H].
    - inversion Hnd as [|i' ids' Hni Hnd']; subst.
      assert (Hi : In i (t_sids t)) by (apply Hin; cbn; auto).
      destruct (io_live _ _ _ O i Hi) as [s [Hk [Hd HS]]].
      set (S1 := filter (fun x => negb (series_eqb x s)) S).
      assert (HS1 : forall x, In x S1 <-> In x S /\ x <> s).
      { intros x. unfold S1. rewrite filter_In, negb_true_iff. rewrite <- (series_eqb_eq x s).
        destruct (series_eqb x s); split; intros [H1 H2]; split; auto; congruence. }
      set (t1 := mkTsi (LTombS i :: t_ents t) (exec_ent false sf (t_log t) (LTombS i)) (t_older t) (sremove N.eqb i (t_sids t))).
      assert (Hs1 : forall j, In j (t_sids t1) <-> In j (t_sids t) /\ j <> i) by (intros j; apply (In_sremove N.eqb N.eqb_eq)).
      assert (O1 : ids_ok sf S1 (t_sids t1)).
      { constructor.
        - apply NoDup_filter. apply (io_nodup _ _ _ O).
        - intros j Hj. apply Hs1 in Hj. destruct Hj as [Hj Hne]. destruct (io_live _ _ _ O j Hj) as [sj [H1 [H2 H3]]].
          exists sj. ssplit; auto. apply HS1. split; [exact H3|]. intros ->. apply Hne.
          apply (sf_live_unique sf I j i s); auto.
        - intros x Hx. apply HS1 in Hx. destruct Hx as [Hx Hne]. destruct (io_cover _ _ _ O x Hx) as [j [H1 H2]].
          exists j. split; [|exact H2]. apply Hs1. split; [exact H1|]. intros ->. congruence.
        - intros x Hx. apply HS1 in Hx. apply (io_wf _ _ _ O). tauto. }
      assert (OK1 : shard_ok sf S1 (fst s :: P) t1).
      { constructor; [exact O1| | |].
        - apply (view_tomb sf I S (t_sids t) P (t_ents t) (t_log t) (t_older t) Vr false i s S1 (t_sids t1)); auto.
        - change (log_replay sf (t_ents t1)) with (exec_ent true sf (log_replay sf (t_ents t)) (LTombS i)).
          apply (view_tomb sf I S (t_sids t) P (t_ents t) (log_replay sf (t_ents t)) (t_older t) Vp true i s S1 (t_sids t1)); auto.
        - intros e j [<-|Hin'] Hj; [cbn in Hj; destruct Hj as [<-|[]]; eapply sf_key_bound; eauto|eapply He; eauto]. }
      assert (Hin1 : forall j, In j ids -> In j (t_sids t1)).
      { intros j Hj. apply Hs1. split; [apply Hin; cbn; auto|]. intros ->. contradiction. }
      destruct (IH S1 (fst s :: P) t1 OK1 Hnd' Hin1) as [S' [P' [OK' [Hold [Hsids [HS' HP']]]]]].
      assert (Et : tsi_drop_series sf t (i :: ids) = tsi_drop_series sf t1 ids) by reflexivity.
      rewrite Et. cbv zeta in OK', Hold, Hsids.
      exists S', P'. ssplit; auto.
      + intros j. rewrite Hsids, Hs1. cbn [In]. split; [intros [[H1 H2] H3]; split; [exact H1|intros [->|H]; tauto]|].
        intros [H1 H2]. ssplit; auto.
      + intros x. rewrite HS', HS1. split.
        * intros [[H1 H2] H3]. split; [exact H1|]. intros [j [[<-|Hj] Hkj]]; [congruence|apply H3; eauto].
        * intros [H1 H2]. ssplit; auto; [intros ->; apply H2; exists i; cbn; auto|intros [j [Hj Hkj]]; apply H2; exists j; cbn; auto].
      + intros m. rewrite HP'. cbn [In]. split.
        * intros [[<-|H]|[j [sj [Hj [Hkj Hm]]]]]; [right; exists i, s; cbn; auto|auto|right; exists j, sj; cbn; auto].
        * intros [H|[j [sj [[<-|Hj] [Hkj Hm]]]]]; [auto| |right; exists j, sj; auto].
          rewrite Hk in Hkj. inversion Hkj; subst. auto.
  Qed.
End Ops.

(* ----- Partition.MeasurementHasSeries / DropMeasurementIfSeriesNotExist ----- *)

Lemma tsi_meas_has_series_iff sf S P t m :
  shard_ok sf S P t -> (tsi_meas_has_series t m = true <-> exists s, In s S /\ fst s = m).
Proof.
  intros [O Vr _ _]. unfold tsi_meas_has_series. rewrite existsb_exists. split.
  - intros [f [Hf He]]. apply existsb_exists in He. destruct He as [i [Hi Hs]].
    apply (memb_In N.eqb N.eqb_eq) in Hs. apply In_f_mseries in Hi.
    destruct (io_live _ _ _ O i Hs) as [s [Hk [_ HS]]]. exists s. split; [exact HS|].
    eapply (fo_ms sf f (vo_files _ _ _ _ _ _ _ Vr f Hf)); eauto.
  - intros [s [HS Hm]]. destruct (io_cover _ _ _ O s HS) as [i [Hs Hk]].
    destruct (vo_home _ _ _ _ _ _ _ Vr i s Hs Hk) as [newer [f [older [E [H1 [H2 [H3 H4]]]]]]].
    exists f. split; [unfold t_files; rewrite E; apply in_or_app; right; cbn; auto|].
    apply existsb_exists. exists i. split; [apply In_f_mseries; subst m; exact H3|apply (memb_In N.eqb N.eqb_eq); exact Hs].
Qed.

Lemma fold_left_snoc {A B} (f : A -> B -> A) l x z : fold_left f (l ++ [x]) z = f (fold_left f l z) x.
Proof. rewrite fold_left_app. reflexivity. Qed.

Lemma tomb_ids_In es i : In i (tomb_ids es) <-> In (LTombS i) es.
Proof.
  unfold tomb_ids. rewrite in_flat_map. split.
  - intros [e [He Hi]]. destruct e; cbn in Hi; try tauto. destruct Hi as [<-|[]]. exact He.
  - intros H. exists (LTombS i). cbn; auto.
Qed.

Section DropMeas.
  Variable sf : sfile.
  Hypothesis I : sf_inv sf.

  (* the effect of the DropMeasurement batch on any log file index that satisfies the invariant *)
  Lemma view_batch S sids P ents f0 older m es P' :
    view_ok sf S sids P ents f0 older -> ids_ok sf S sids ->
    (forall s, In s S -> fst s <> m) ->
    Forall (about_m sf m) es -> Forall no_add es -> (forall x, ~ In (LTombM x) es) ->
    (forall i, In i (tomb_ids es) -> ~ In i sids /\ (i < sf_next sf)%N) ->
    (forall x, In x P -> x = m \/ In x P') ->
    forall b, view_ok sf S sids P' (rev (es ++ [LTombM m]) ++ ents) (fold_left (exec_ent b sf) (es ++ [LTombM m]) f0) older.
  Proof.
    intros V O Hno Hab Hna Hnm Hids HP b.
    rewrite fold_left_snoc. cbn [exec_ent]. rewrite (dropm_batch b sf m es f0 Hab).
    apply (view_dropm sf S sids P ents f0 older V O m (tomb_ids es) _ P'); auto.
    intros x. rewrite in_app_iff, <- in_rev, in_app_iff. cbn [In]. split.
    - intros [[H|[H|[]]]|H]; [exfalso; eapply Hnm; eauto|inversion H; auto|auto].
    - intros [->|H]; auto.
  Qed.

  Lemma tsi_drop_meas_ok S P t m :
    shard_ok sf S P t ->
    let t' := tsi_drop_meas_if_empty sf t m in
    shard_ok sf S (filter (fun x => negb (str_eqb x m)) P) t' /\ t_sids t' = t_sids t /\ t_older t' = t_older t.
  Proof.
    intros OK. pose proof OK as [O Vr Vp He]. unfold tsi_drop_meas_if_empty.
    assert (HP : forall x, In x P -> x = m \/ In x (filter (fun x => negb (str_eqb x m)) P)).
    { intros x Hx. destruct (str_eqb x m) eqn:E; [left; apply str_eqb_eq; exact E|right; apply filter_In; rewrite E; auto]. }
    destruct (tsi_meas_has_series t m) eqn:Eh; cbv zeta.
    - apply (tsi_meas_has_series_iff sf S P t m OK) in Eh.
      split; [|auto]. constructor; [exact O| | |exact He]; eapply view_pend; eauto.
    - assert (Hno : forall s, In s S -> fst s <> m).
      { intros s Hs Hm. assert (tsi_meas_has_series t m = true) by (apply (tsi_meas_has_series_iff sf S P t m OK); eauto). congruence. }
      unfold tsi_drop_measurement.
      set (files := t_files t).
      set (kents := flat_map _ (v_keys_all files m)).
      set (ids := iunions (map (fun f => f_mseries f m) files)).
      set (es := kents ++ map LTombS ids).
      replace (kents ++ map LTombS ids ++ [LTombM m]) with (es ++ [LTombM m]) by (unfold es; rewrite <- app_assoc; reflexivity).
      destruct (t_append_fold sf (es ++ [LTombM m]) t) as [E1 [E2 [E3 E4]]]. cbv zeta in E1, E2, E3, E4.
      assert (Hk_noS : forall i, ~ In (LTombS i) kents).
      { intros i Hin. unfold kents in Hin. apply in_flat_map in Hin. destruct Hin as [k [_ Hin]].
        apply in_app_or in Hin. destruct Hin as [Hin|Hin].
        - destruct (v_kflag files m k) as [[|]|]; cbn in Hin; intuition discriminate.
        - apply in_flat_map in Hin. destruct Hin as [v [_ Hin]].
          destruct (v_vflag (key_files files m k) m k v) as [[|]|]; cbn in Hin; intuition discriminate. }
      assert (Hk_about : Forall (about_m sf m) kents /\ Forall no_add kents /\ (forall x, ~ In (LTombM x) kents)).
      { ssplit.
        - apply Forall_forall. intros e Hin. unfold kents in Hin. apply in_flat_map in Hin. destruct Hin as [k [_ Hin]].
          apply in_app_or in Hin. destruct Hin as [Hin|Hin].
          + destruct (v_kflag files m k) as [[|]|]; cbn in Hin; try tauto; destruct Hin as [<-|[]]; reflexivity.
          + apply in_flat_map in Hin. destruct Hin as [v [_ Hin]].
            destruct (v_vflag (key_files files m k) m k v) as [[|]|]; cbn in Hin; try tauto; destruct Hin as [<-|[]]; reflexivity.
        - apply Forall_forall. intros e Hin. unfold kents in Hin. apply in_flat_map in Hin. destruct Hin as [k [_ Hin]].
          apply in_app_or in Hin. destruct Hin as [Hin|Hin].
          + destruct (v_kflag files m k) as [[|]|]; cbn in Hin; try tauto; destruct Hin as [<-|[]]; exact Logic.I.
          + apply in_flat_map in Hin. destruct Hin as [v [_ Hin]].
            destruct (v_vflag (key_files files m k) m k v) as [[|]|]; cbn in Hin; try tauto; destruct Hin as [<-|[]]; exact Logic.I.
        - intros x Hin. unfold kents in Hin. apply in_flat_map in Hin. destruct Hin as [k [_ Hin]].
          apply in_app_or in Hin. destruct Hin as [Hin|Hin].
          + destruct (v_kflag files m k) as [[|]|]; cbn in Hin; intuition discriminate.
          + apply in_flat_map in Hin. destruct Hin as [v [_ Hin]].
            destruct (v_vflag (key_files files m k) m k v) as [[|]|]; cbn in Hin; intuition discriminate. }
      destruct Hk_about as [Hk1 [Hk2 Hk3]].
      assert (Hids : forall i, In i ids -> exists f, In f files /\ In (m, i) (tf_ms f)).
      { intros i Hi. unfold ids in Hi. apply In_iunions in Hi. destruct Hi as [l [Hl Hi]]. apply in_map_iff in Hl.
        destruct Hl as [f [<- Hf]]. exists f. split; [exact Hf|apply In_f_mseries; exact Hi]. }
      assert (Hab : Forall (about_m sf m) es).
      { unfold es. apply Forall_app. split; [exact Hk1|]. apply Forall_forall. intros e Hin. apply in_map_iff in Hin.
        destruct Hin as [i [<- Hi]]. cbn. intros s Hk. destruct (Hids i Hi) as [f [Hf Hin]].
        eapply (fo_ms sf f (vo_files _ _ _ _ _ _ _ Vr f Hf)); eauto. }
      assert (Hna : Forall no_add es).
      { unfold es. apply Forall_app. split; [exact Hk2|]. apply Forall_forall. intros e Hin. apply in_map_iff in Hin.
        destruct Hin as [i [<- _]]. exact Logic.I. }
      assert (Hnm : forall x, ~ In (LTombM x) es).
      { intros x Hin. unfold es in Hin. apply in_app_or in Hin. destruct Hin as [Hin|Hin]; [eapply Hk3; eauto|].
        apply in_map_iff in Hin. destruct Hin as [i [E _]]. discriminate. }
      assert (Hti : forall i, In i (tomb_ids es) -> ~ In i (t_sids t) /\ (i < sf_next sf)%N).
      { intros i Hi. apply tomb_ids_In in Hi. unfold es in Hi. apply in_app_or in Hi. destruct Hi as [Hi|Hi]; [exfalso; eapply Hk_noS; eauto|].
        apply in_map_iff in Hi. destruct Hi as [j [E Hj]]. inversion E; subst j. destruct (Hids i Hj) as [f [Hf Hin]]. split.
        - intros Hs. assert (tsi_meas_has_series t m = true); [|congruence].
          unfold tsi_meas_has_series. apply existsb_exists. exists f. split; [exact Hf|]. apply existsb_exists. exists i.
          split; [apply In_f_mseries; exact Hin|apply (memb_In N.eqb N.eqb_eq); exact Hs].
        - apply (fo_bound sf f (vo_files _ _ _ _ _ _ _ Vr f Hf)). right; right; left. eauto. }
      split; [|auto]. constructor.
      + rewrite E4. exact O.
      + rewrite E1, E2, E3, E4. eapply view_batch; eauto.
      + rewrite E1, E3, E4. rewrite replay_app, exec_ent_no_add; [eapply view_batch; eauto|].
        apply Forall_app. split; [exact Hna|]. constructor; [exact Logic.I|constructor].
      + rewrite E1. intros e i Hin Hi. apply in_app_or in Hin. destruct Hin as [Hin|Hin]; [|eapply He; eauto].
        apply in_rev in Hin. apply in_app_or in Hin. destruct Hin as [Hin|[<-|[]]]; [|destruct Hi].
        destruct e; cbn in Hi; try tauto; destruct Hi as [<-|[]].
        * exfalso. exact (proj1 (Forall_forall no_add es) Hna _ Hin).
        * apply Hti. apply tomb_ids_In. exact Hin.
  Qed.
End DropMeas.

(* ----- compactions and reopen ----- *)

Lemma tsi_compact_log_ok sf S t : shard_ok sf S [] t -> shard_ok sf S [] (tsi_compact_log t).
Proof.
  intros [O Vr Vp He]. unfold tsi_compact_log. constructor; cbn [t_sids t_ents t_log t_older log_replay].
  - exact O.
  - eapply view_compact_log; eauto.
  - eapply view_compact_log; eauto.
  - intros e i [].
Qed.

Lemma tsi_compact_level_ok sf S P t lvl : shard_ok sf S P t -> shard_ok sf S P (tsi_compact_level t lvl).
Proof.
  intros [O Vr Vp He]. unfold tsi_compact_level.
  pose proof (split_level_app lvl (t_older t)) as Hs. destruct (split_level lvl (t_older t)) as [[pre run] post].
  destruct Hs as [E _]. destruct ((2 <=? length run) && (1 <=? lvl)); [|constructor; assumption].
  rewrite E in Vr, Vp. constructor; cbn [t_sids t_ents t_log t_older]; try assumption; apply view_compact_level; assumption.
Qed.

Lemma NoDup_fold_sids f older : NoDup (tf_sids f) -> NoDup (fold_sids (f :: older)).
Proof. intros H. cbn [fold_sids]. apply (NoDup_sunion N.eqb N.eqb_eq). exact H. Qed.

Lemma tsi_reopen_ok sf S P t : shard_ok sf S P t -> shard_ok sf S P (tsi_reopen sf t).
Proof.
  intros [O Vr Vp He]. unfold tsi_reopen. cbn zeta.
  set (log := log_replay sf (t_ents t)) in *. set (sids' := fold_sids (log :: t_older t)).
  assert (Hs : forall i, In i sids' <-> In i (t_sids t)) by (intros i; apply (vo_fold _ _ _ _ _ _ _ Vp)).
  assert (V' : view_ok sf S sids' P (t_ents t) log (t_older t)) by (apply (view_set_ext sf S S (t_sids t) sids'); [tauto|exact Hs|exact Vp]).
  constructor; cbn [t_sids t_ents t_log t_older]; try assumption.
  apply (ids_ok_ext sf S S (t_sids t) sids'); [tauto|exact Hs| |exact O].
  apply NoDup_fold_sids. apply (bo_nodup _ (vo_built _ _ _ _ _ _ _ Vp)).
Qed.
