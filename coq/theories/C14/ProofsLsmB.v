(* C14/ProofsLsmB.v — per-file soundness of TSI files relative to the series file, and what each
   log entry execution does to it. *)
From Verif Require Import C14.Spec C14.Model C14.ProofsBase C14.ProofsSfile C14.ProofsLsmA.

(* sf' is a later state of the series file sf: ids keep their key or lose it (compaction of a
   deleted id), new keys only appear under ids that were not handed out before *)
Record sf_ext (sf sf' : sfile) : Prop := mkSfExt {
  se_next : (sf_next sf <= sf_next sf')%N;
  se_key : forall i s, sf_key sf' i = Some s -> sf_key sf i = Some s \/ (sf_next sf <= i)%N
}.

Lemma sf_ext_refl sf : sf_ext sf sf.
Proof. constructor; [lia|auto]. Qed.

Lemma sf_ext_trans a b c : sf_inv b -> sf_ext a b -> sf_ext b c -> sf_ext a c.
Proof.
  intros Ib [n1 k1] [n2 k2]. constructor; [lia|].
  intros i s H. destruct (k2 i s H) as [H'|H']; [apply k1; exact H'|right; lia].
Qed.

Definition tf_ids (f : tfile) (i : id) : Prop :=
  In i (tf_sids f) \/ In i (tf_tombs f) \/ (exists m, In (m, i) (tf_ms f)) \/ (exists mkv, In (mkv, i) (tf_vs f)).

Record file_ok (sf : sfile) (f : tfile) : Prop := mkFileOk {
  fo_ms : forall m i s, In (m, i) (tf_ms f) -> sf_key sf i = Some s -> fst s = m;
  fo_vs : forall m k v i s, In (m, k, v, i) (tf_vs f) -> sf_key sf i = Some s -> fst s = m /\ In (k, v) (snd s);
  fo_disj : forall i, In i (tf_sids f) -> In i (tf_tombs f) -> False;
  fo_nodup : NoDup (tf_sids f);
  fo_tk : forall mk, flag_get mk_eqb mk (tf_tk f) <> Some true;      (* no tag key / value tombstone survives a step *)
  fo_tv : forall mkv, flag_get mkv_eqb mkv (tf_tv f) <> Some true;
  fo_bound : forall i, tf_ids f i -> (i < sf_next sf)%N;
  fo_vs_tv : forall m k v i, In (m, k, v, i) (tf_vs f) ->
             flag_get mkv_eqb (m, k, v) (tf_tv f) <> None /\ flag_get mk_eqb (m, k) (tf_tk f) <> None;
  fo_ms_mm : forall m i, In (m, i) (tf_ms f) -> flag_get str_eqb m (tf_mm f) <> None
}.

Lemma file_ok_empty sf lvl : file_ok sf (tf_empty lvl).
Proof.
  constructor; cbn; try (intros; tauto); try constructor; try (intros; discriminate).
  intros i [H|[H|[[m H]|[mkv H]]]]; destruct H.
Qed.

Lemma file_ok_ext sf sf' f : sf_ext sf sf' -> file_ok sf f -> file_ok sf' f.
Proof.
  intros [Hn Hk] F. constructor; try apply F.
  - intros m i s Hin Hs. destruct (Hk i s Hs) as [H|H]; [eapply (fo_ms sf f F); eauto|].
    assert (i < sf_next sf)%N by (apply (fo_bound sf f F); right; right; left; eauto). lia.
  - intros m k v i s Hin Hs. destruct (Hk i s Hs) as [H|H]; [eapply (fo_vs sf f F); eauto|].
    assert (i < sf_next sf)%N by (apply (fo_bound sf f F); right; right; right; eauto). lia.
  - intros i H. apply (fo_bound sf f F) in H. lia.
Qed.

(* ---------- flags in a filtered / extended list ---------- *)

Lemma In_flag_set {K} (eqb : K -> K -> bool) k b l x : In x (flag_set eqb k b l) -> x = (k, b) \/ In x l.
Proof. unfold flag_set. cbn. intros [<-|H]; [auto|]. apply filter_In in H. tauto. Qed.

Lemma In_flag_ensure {K} (eqb : K -> K -> bool) k l x : In x (flag_ensure eqb k l) -> x = (k, false) \/ In x l.
Proof. unfold flag_ensure. destruct (flag_get eqb k l); cbn; [auto|]. intros [<-|H]; auto. Qed.

Lemma In_fold_ensure_tk m (t : tags) acc x :
  In x (fold_right (fun kv acc => flag_ensure mk_eqb (m, fst kv) acc) acc t) -> snd x = false \/ In x acc.
Proof.
  induction t as [|[k v] t IH]; cbn [fold_right fst snd]; [auto|].
  intros H. apply In_flag_ensure in H. destruct H as [->|H]; [auto|apply IH; exact H].
Qed.

Lemma In_fold_ensure_tv m (t : tags) acc x :
  In x (fold_right (fun kv acc => flag_ensure mkv_eqb (m, fst kv, snd kv) acc) acc t) -> snd x = false \/ In x acc.
Proof.
  induction t as [|[k v] t IH]; cbn [fold_right fst snd]; [auto|].
  intros H. apply In_flag_ensure in H. destruct H as [->|H]; [auto|apply IH; exact H].
Qed.

Lemma flag_get_filter_key {K} (eqb : K -> K -> bool) (Heq : forall x y, eqb x y = true <-> x = y)
      (p : K * bool -> bool) k l :
  (forall k' b1 b2, p (k', b1) = p (k', b2)) ->
  flag_get eqb k (filter p l) = if p (k, true) then flag_get eqb k l else None.
Proof.
  intros Hp. induction l as [|[k0 b0] l IH]; cbn; [destruct (p (k, true)); reflexivity|].
  destruct (p (k0, b0)) eqn:E0; cbn.
  - destruct (eqb k k0) eqn:E.
    + apply Heq in E; subst k0. rewrite (Hp k true b0), E0. reflexivity.
    + exact IH.
  - destruct (eqb k k0) eqn:E; [|exact IH].
    apply Heq in E; subst k0. rewrite (Hp k true b0), E0 in IH. rewrite (Hp k true b0), E0. exact IH.
Qed.

(* ---------- execution of entries ---------- *)

Lemma fold_ensure_tk_keeps m (t : tags) acc key :
  flag_get mk_eqb key acc <> None ->
  flag_get mk_eqb key (fold_right (fun kv acc => flag_ensure mk_eqb (m, fst kv) acc) acc t) <> None.
Proof. intros H. rewrite flag_get_fold_ensure_tk. destruct (flag_get mk_eqb key acc); congruence. Qed.

Lemma fold_ensure_tv_keeps m (t : tags) acc key :
  flag_get mkv_eqb key acc <> None ->
  flag_get mkv_eqb key (fold_right (fun kv acc => flag_ensure mkv_eqb (m, fst kv, snd kv) acc) acc t) <> None.
Proof. intros H. rewrite flag_get_fold_ensure_tv. destruct (flag_get mkv_eqb key acc); congruence. Qed.

Lemma fold_ensure_tk_new m (t : tags) acc k v :
  In (k, v) t -> flag_get mk_eqb (m, k) (fold_right (fun kv acc => flag_ensure mk_eqb (m, fst kv) acc) acc t) <> None.
Proof.
  intros H. rewrite flag_get_fold_ensure_tk. destruct (flag_get mk_eqb (m, k) acc); [congruence|].
  assert (E : existsb (fun kv : str * str => mk_eqb (m, k) (m, fst kv)) t = true).
  { apply existsb_tk_In. exists v. cbn. auto. }
  rewrite E. congruence.
Qed.

Lemma fold_ensure_tv_new m (t : tags) acc k v :
  In (k, v) t -> flag_get mkv_eqb (m, k, v) (fold_right (fun kv acc => flag_ensure mkv_eqb (m, fst kv, snd kv) acc) acc t) <> None.
Proof.
  intros H. rewrite flag_get_fold_ensure_tv. destruct (flag_get mkv_eqb (m, k, v) acc); [congruence|].
  assert (E : existsb (fun kv : str * str => mkv_eqb (m, k, v) (m, fst kv, snd kv)) t = true).
  { apply existsb_tv_In. cbn. auto. }
  rewrite E. congruence.
Qed.

Lemma flag_get_set_ne {K} (eqb : K -> K -> bool) (Heq : forall x y, eqb x y = true <-> x = y) k b l k' :
  flag_get eqb k' l <> None -> flag_get eqb k' (flag_set eqb k b l) <> None.
Proof. intros H. rewrite (flag_get_set eqb Heq). destruct (eqb k' k); congruence. Qed.

Lemma flag_get_ensure_ne {K} (eqb : K -> K -> bool) (Heq : forall x y, eqb x y = true <-> x = y) k l k' :
  flag_get eqb k' l <> None -> flag_get eqb k' (flag_ensure eqb k l) <> None.
Proof. intros H. rewrite (flag_get_ensure eqb Heq). destruct (flag_get eqb k' l); congruence. Qed.

Section Exec.
  Variable sf : sfile.
  Hypothesis I : sf_inv sf.
  Variable f : tfile.
  Hypothesis F : file_ok sf f.

  Lemma exec_add_ok i s : sf_key sf i = Some s -> file_ok sf (exec_add f i s).
  Proof.
    intros Hk. pose proof (sf_key_bound sf I i s Hk) as Hb. destruct s as [m t]. unfold exec_add. cbn [fst snd].
    constructor; cbn [tf_ms tf_vs tf_sids tf_tombs tf_tk tf_tv tf_mm].
    - intros m' j s' Hin Hs. apply (In_sadd mi_eqb mi_eqb_eq) in Hin. destruct Hin as [E|Hin].
      + inversion E; subst. rewrite Hk in Hs. inversion Hs. reflexivity.
      + eapply (fo_ms sf f F); eauto.
    - intros m' k v j s' Hin Hs. apply In_fold_sadd_vs in Hin. destruct Hin as [Hin|[k' [v' [Ht E]]]].
      + eapply (fo_vs sf f F); eauto.
      + inversion E; subst. rewrite Hk in Hs. inversion Hs. cbn. auto.
    - intros j H1 H2. apply (In_sadd N.eqb N.eqb_eq) in H1. apply (In_sremove N.eqb N.eqb_eq) in H2.
      destruct H2 as [H2 Hne]. destruct H1 as [->|H1]; [congruence|]. eapply (fo_disj sf f F); eauto.
    - apply (NoDup_sadd N.eqb N.eqb_eq). apply (fo_nodup sf f F).
    - intros mk. rewrite flag_get_fold_ensure_tk. pose proof (fo_tk sf f F mk) as H.
      destruct (flag_get mk_eqb mk (tf_tk f)); [exact H|]. destruct (existsb _ t); congruence.
    - intros mkv. rewrite flag_get_fold_ensure_tv. pose proof (fo_tv sf f F mkv) as H.
      destruct (flag_get mkv_eqb mkv (tf_tv f)); [exact H|]. destruct (existsb _ t); congruence.
    - intros j [H|[H|[[m' H]|[mkv H]]]].
      + apply (In_sadd N.eqb N.eqb_eq) in H. destruct H as [->|H]; [exact Hb|apply (fo_bound sf f F); left; exact H].
      + apply (In_sremove N.eqb N.eqb_eq) in H. apply (fo_bound sf f F). right; left. tauto.
      + apply (In_sadd mi_eqb mi_eqb_eq) in H. destruct H as [E|H]; [inversion E; subst; exact Hb|].
        apply (fo_bound sf f F). right; right; left. eauto.
      + apply In_fold_sadd_vs in H. destruct H as [H|[k' [v' [_ E]]]]; [|inversion E; subst; exact Hb].
        apply (fo_bound sf f F). right; right; right. eauto.
    - intros m' k v j Hin. apply In_fold_sadd_vs in Hin. destruct Hin as [Hin|[k' [v' [Ht E]]]].
      + destruct (fo_vs_tv sf f F _ _ _ _ Hin) as [H1 H2]. split; [apply fold_ensure_tv_keeps|apply fold_ensure_tk_keeps]; assumption.
      + inversion E; subst. split; [eapply fold_ensure_tv_new|eapply fold_ensure_tk_new]; eauto.
    - intros m' j Hin. rewrite (flag_get_set str_eqb str_eqb_eq). destruct (str_eqb m' m) eqn:Em; [congruence|].
      apply (In_sadd mi_eqb mi_eqb_eq) in Hin. destruct Hin as [E|Hin].
      + inversion E; subst. rewrite str_eqb_refl in Em. discriminate.
      + eapply (fo_ms_mm sf f F); eauto.
  Qed.

  Lemma exec_tomb_ok i s : sf_key sf i = Some s -> file_ok sf (exec_tomb f i s).
  Proof.
    intros Hk. pose proof (sf_key_bound sf I i s Hk) as Hb. destruct s as [m t]. unfold exec_tomb. cbn [fst snd].
    constructor; cbn [tf_ms tf_vs tf_sids tf_tombs tf_tk tf_tv tf_mm].
    - intros m' j s' Hin Hs. apply (In_sremove mi_eqb mi_eqb_eq) in Hin. destruct Hin as [Hin _]. eapply (fo_ms sf f F); eauto.
    - intros m' k v j s' Hin Hs. apply In_fold_sremove_vs in Hin. destruct Hin as [Hin _]. eapply (fo_vs sf f F); eauto.
    - intros j H1 H2. apply (In_sremove N.eqb N.eqb_eq) in H1. apply (In_sadd N.eqb N.eqb_eq) in H2.
      destruct H1 as [H1 Hne]. destruct H2 as [->|H2]; [congruence|]. eapply (fo_disj sf f F); eauto.
    - apply (NoDup_filter). apply (fo_nodup sf f F).
    - intros mk. rewrite flag_get_fold_ensure_tk. pose proof (fo_tk sf f F mk) as H.
      destruct (flag_get mk_eqb mk (tf_tk f)); [exact H|]. destruct (existsb _ t); congruence.
    - intros mkv. rewrite flag_get_fold_ensure_tv. pose proof (fo_tv sf f F mkv) as H.
      destruct (flag_get mkv_eqb mkv (tf_tv f)); [exact H|]. destruct (existsb _ t); congruence.
    - intros j [H|[H|[[m' H]|[mkv H]]]].
      + apply (In_sremove N.eqb N.eqb_eq) in H. apply (fo_bound sf f F). left. tauto.
      + apply (In_sadd N.eqb N.eqb_eq) in H. destruct H as [->|H]; [exact Hb|apply (fo_bound sf f F); right; left; exact H].
      + apply (In_sremove mi_eqb mi_eqb_eq) in H. apply (fo_bound sf f F). right; right; left. exists m'. tauto.
      + apply In_fold_sremove_vs in H. apply (fo_bound sf f F). right; right; right. exists mkv. tauto.
    - intros m' k v j Hin. apply In_fold_sremove_vs in Hin. destruct Hin as [Hin _].
      destruct (fo_vs_tv sf f F _ _ _ _ Hin) as [H1 H2]. split; [apply fold_ensure_tv_keeps|apply fold_ensure_tk_keeps]; assumption.
    - intros m' j Hin. rewrite (flag_get_set str_eqb str_eqb_eq). destruct (str_eqb m' m) eqn:Em; [congruence|].
      apply (In_sremove mi_eqb mi_eqb_eq) in Hin. destruct Hin as [Hin _]. eapply (fo_ms_mm sf f F); eauto.
  Qed.

  Lemma exec_tomb_nokey_ok i : (i < sf_next sf)%N -> file_ok sf (exec_tomb_nokey f i).
  Proof.
    intros Hb. unfold exec_tomb_nokey.
    constructor; cbn [tf_ms tf_vs tf_sids tf_tombs tf_tk tf_tv tf_mm]; try apply F.
    - intros j H1 H2. apply (In_sremove N.eqb N.eqb_eq) in H1. apply (In_sadd N.eqb N.eqb_eq) in H2.
      destruct H1 as [H1 Hne]. destruct H2 as [->|H2]; [congruence|]. eapply (fo_disj sf f F); eauto.
    - apply (NoDup_filter). apply (fo_nodup sf f F).
    - intros j [H|[H|[[m' H]|[mkv H]]]].
      + apply (In_sremove N.eqb N.eqb_eq) in H. apply (fo_bound sf f F). left. tauto.
      + apply (In_sadd N.eqb N.eqb_eq) in H. destruct H as [->|H]; [exact Hb|apply (fo_bound sf f F); right; left; exact H].
      + apply (fo_bound sf f F). right; right; left. eauto.
      + apply (fo_bound sf f F). right; right; right. eauto.
  Qed.

  Lemma exec_tombm_ok m : file_ok sf (exec_tombm f m).
  Proof.
    unfold exec_tombm.
    constructor; cbn [tf_ms tf_vs tf_sids tf_tombs tf_tk tf_tv tf_mm]; try apply F.
    - intros m' j s' Hin Hs. apply filter_In in Hin. destruct Hin as [Hin _]. eapply (fo_ms sf f F); eauto.
    - intros m' k v j s' Hin Hs. apply filter_In in Hin. destruct Hin as [Hin _]. eapply (fo_vs sf f F); eauto.
    - intros mk. rewrite (flag_get_filter_key mk_eqb mk_eqb_eq); [|reflexivity].
      destruct (negb _); [apply (fo_tk sf f F)|congruence].
    - intros mkv. rewrite (flag_get_filter_key mkv_eqb mkv_eqb_eq); [|reflexivity].
      destruct (negb _); [apply (fo_tv sf f F)|congruence].
    - intros j [H|[H|[[m' H]|[mkv H]]]].
      + apply (fo_bound sf f F). left. exact H.
      + apply (fo_bound sf f F). right; left. exact H.
      + apply filter_In in H. apply (fo_bound sf f F). right; right; left. exists m'. tauto.
      + apply filter_In in H. apply (fo_bound sf f F). right; right; right. exists mkv. tauto.
    - intros m' k v j Hin. apply filter_In in Hin. destruct Hin as [Hin Hne]. cbn in Hne.
      destruct (fo_vs_tv sf f F _ _ _ _ Hin) as [H1 H2].
      split; (rewrite flag_get_filter; [assumption|first [apply mkv_eqb_eq|apply mk_eqb_eq]|intros b; cbn; exact Hne]).
    - intros m' j Hin. apply filter_In in Hin. destruct Hin as [Hin Hne]. cbn in Hne.
      rewrite (flag_get_set str_eqb str_eqb_eq). destruct (str_eqb m' m); [congruence|]. eapply (fo_ms_mm sf f F); eauto.
  Qed.
End Exec.

(* ---------- DropMeasurement: the batch key/value tombstones, series tombstones, measurement tombstone ---------- *)

Lemma filter_filter_sub {A} (p q : A -> bool) l :
  (forall x, p x = true -> q x = true) -> filter p (filter q l) = filter p l.
Proof.
  intros H. induction l as [|x l IH]; cbn; [reflexivity|].
  destruct (q x) eqn:Eq; cbn; [destruct (p x); [rewrite IH|]; auto|].
  destruct (p x) eqn:Ep; [rewrite (H x Ep) in Eq; discriminate|exact IH].
Qed.

Lemma filter_flag_set {K} (eqb : K -> K -> bool) (Heq : forall x y, eqb x y = true <-> x = y)
      (p : K * bool -> bool) k b l :
  (forall b', p (k, b') = false) -> (forall k' b1 b2, p (k', b1) = p (k', b2)) ->
  filter p (flag_set eqb k b l) = filter p l.
Proof.
  intros Hk Hp. unfold flag_set. cbn. rewrite Hk. apply filter_filter_sub.
  intros [k' b'] Hx. cbn. apply negb_true_iff. destruct (eqb k k') eqn:E; [|reflexivity].
  apply Heq in E. subst k'. rewrite Hk in Hx. discriminate.
Qed.

Lemma filter_flag_ensure {K} (eqb : K -> K -> bool) (p : K * bool -> bool) k l :
  p (k, false) = false -> filter p (flag_ensure eqb k l) = filter p l.
Proof. intros Hk. unfold flag_ensure. destruct (flag_get eqb k l); cbn; [reflexivity|rewrite Hk; reflexivity]. Qed.

Definition off_tk (m : str) (p : str * str * bool) : bool := negb (str_eqb (fst (fst p)) m).
Definition off_tv (m : str) (p : str * str * str * bool) : bool := negb (str_eqb (fst (fst (fst p))) m).
Definition off_vs (m : str) (p : str * str * str * id) : bool := negb (str_eqb (fst (fst (fst p))) m).
Definition off_ms (m : str) (p : str * id) : bool := negb (str_eqb (fst p) m).
Definition off_mm (m : str) (p : str * bool) : bool := negb (str_eqb m (fst p)).

Lemma exec_tombm_unfold f m :
  exec_tombm f m = mkTf (tf_level f) ((m, true) :: filter (off_mm m) (tf_mm f)) (filter (off_ms m) (tf_ms f))
                        (filter (off_tk m) (tf_tk f)) (filter (off_tv m) (tf_tv f)) (filter (off_vs m) (tf_vs f))
                        (tf_sids f) (tf_tombs f).
Proof. reflexivity. Qed.

Lemma off_mm_set m b l : filter (off_mm m) (flag_set str_eqb m b l) = filter (off_mm m) l.
Proof.
  apply (filter_flag_set str_eqb str_eqb_eq).
  - intros b'. unfold off_mm. cbn. rewrite str_eqb_refl. reflexivity.
  - intros k' b1 b2. reflexivity.
Qed.

Lemma off_mm_ensure m l : filter (off_mm m) (flag_ensure str_eqb m l) = filter (off_mm m) l.
Proof. apply filter_flag_ensure. unfold off_mm. cbn. rewrite str_eqb_refl. reflexivity. Qed.

Lemma off_tk_fold_ensure m (t : tags) acc :
  filter (off_tk m) (fold_right (fun kv acc => flag_ensure mk_eqb (m, fst kv) acc) acc t) = filter (off_tk m) acc.
Proof.
  induction t as [|[k v] t IH]; cbn [fold_right fst snd]; [reflexivity|].
  rewrite filter_flag_ensure; [exact IH|]. unfold off_tk. cbn. rewrite str_eqb_refl. reflexivity.
Qed.

Lemma off_tv_fold_ensure m (t : tags) acc :
  filter (off_tv m) (fold_right (fun kv acc => flag_ensure mkv_eqb (m, fst kv, snd kv) acc) acc t) = filter (off_tv m) acc.
Proof.
  induction t as [|[k v] t IH]; cbn [fold_right fst snd]; [reflexivity|].
  rewrite filter_flag_ensure; [exact IH|]. unfold off_tv. cbn. rewrite str_eqb_refl. reflexivity.
Qed.

Lemma off_vs_fold_sremove m i (t : tags) acc :
  filter (off_vs m) (fold_right (fun kv acc => sremove mkvi_eqb (m, fst kv, snd kv, i) acc) acc t) = filter (off_vs m) acc.
Proof.
  induction t as [|[k v] t IH]; cbn [fold_right fst snd]; [reflexivity|].
  unfold sremove at 1. rewrite filter_filter_sub; [exact IH|].
  intros [[[m' k'] v'] j] H. unfold off_vs in H. cbn in H. apply negb_true_iff. apply negb_true_iff in H.
  destruct (mkvi_eqb (m, k, v, i) (m', k', v', j)) eqn:E; [|reflexivity].
  apply mkvi_eqb_eq in E. inversion E; subst. rewrite str_eqb_refl in H. discriminate.
Qed.

Lemma off_ms_sremove m i l : filter (off_ms m) (sremove mi_eqb (m, i) l) = filter (off_ms m) l.
Proof.
  unfold sremove. apply filter_filter_sub. intros [m' j] H. unfold off_ms in H. cbn in H.
  apply negb_true_iff. apply negb_true_iff in H.
  destruct (mi_eqb (m, i) (m', j)) eqn:E; [|reflexivity]. apply mi_eqb_eq in E. inversion E; subst.
  rewrite str_eqb_refl in H. discriminate.
Qed.

Lemma tombm_tombk f m k : exec_tombm (exec_tombk f m k) m = exec_tombm f m.
Proof.
  rewrite !exec_tombm_unfold. unfold exec_tombk. cbn [tf_level tf_mm tf_ms tf_tk tf_tv tf_vs tf_sids tf_tombs].
  rewrite off_mm_ensure. f_equal.
  apply (filter_flag_set mk_eqb mk_eqb_eq); [intros b'; unfold off_tk; cbn; rewrite str_eqb_refl; reflexivity|reflexivity].
Qed.

Lemma tombm_tombv f m k v : exec_tombm (exec_tombv f m k v) m = exec_tombm f m.
Proof.
  rewrite !exec_tombm_unfold. unfold exec_tombv. cbn [tf_level tf_mm tf_ms tf_tk tf_tv tf_vs tf_sids tf_tombs].
  rewrite off_mm_ensure. f_equal.
  - apply filter_flag_ensure. unfold off_tk. cbn. rewrite str_eqb_refl. reflexivity.
  - apply (filter_flag_set mkv_eqb mkv_eqb_eq); [intros b'; unfold off_tv; cbn; rewrite str_eqb_refl; reflexivity|reflexivity].
Qed.

Lemma tombm_tomb f m i s : fst s = m -> exec_tombm (exec_tomb f i s) m = exec_tomb_nokey (exec_tombm f m) i.
Proof.
  intros <-. destruct s as [m t]. cbn [fst]. rewrite !exec_tombm_unfold. unfold exec_tomb, exec_tomb_nokey.
  cbn [fst snd tf_level tf_mm tf_ms tf_tk tf_tv tf_vs tf_sids tf_tombs].
  rewrite off_mm_set, off_ms_sremove, off_tk_fold_ensure, off_tv_fold_ensure, off_vs_fold_sremove. reflexivity.
Qed.

Lemma tombm_nokey f m i : exec_tombm (exec_tomb_nokey f i) m = exec_tomb_nokey (exec_tombm f m) i.
Proof. reflexivity. Qed.

(* entries that only concern measurement m (given how their series ids resolve) *)
Definition about_m (sf : sfile) (m : str) (e : lent) : Prop :=
  match e with
  | LTombK m' _ => m' = m
  | LTombV m' _ _ => m' = m
  | LTombS i => forall s, sf_key sf i = Some s -> fst s = m
  | _ => False
  end.

Definition tomb_ids (es : list lent) : list id :=
  flat_map (fun e => match e with LTombS i => [i] | _ => [] end) es.

Lemma dropm_batch b sf m es f :
  Forall (about_m sf m) es ->
  exec_tombm (fold_left (exec_ent b sf) es f) m = fold_left exec_tomb_nokey (tomb_ids es) (exec_tombm f m).
Proof.
  revert f. induction es as [|e es IH]; intros f Hall; [reflexivity|].
  inversion Hall as [|e' es' He Hes]; subst. cbn [fold_left]. rewrite (IH _ Hes).
  destruct e as [i s|i|m'|m' k|m' k v]; cbn in He; try contradiction; cbn [tomb_ids flat_map app fold_left exec_ent].
  - destruct (sf_key sf i) as [s|] eqn:Ek; [rewrite (tombm_tomb f m i s (He s eq_refl))|rewrite tombm_nokey]; reflexivity.
  - subst m'. rewrite tombm_tombk. reflexivity.
  - subst m'. rewrite tombm_tombv. reflexivity.
Qed.

Lemma fold_nokey_components ids f :
  let g := fold_left exec_tomb_nokey ids f in
  tf_level g = tf_level f /\ tf_mm g = tf_mm f /\ tf_ms g = tf_ms f /\ tf_tk g = tf_tk f /\ tf_tv g = tf_tv f /\ tf_vs g = tf_vs f /\
  (forall i, In i (tf_sids g) <-> In i (tf_sids f) /\ ~ In i ids) /\
  (forall i, In i (tf_tombs g) <-> In i (tf_tombs f) \/ In i ids).
Proof.
  revert f. induction ids as [|j ids IH]; intros f; cbn [fold_left].
  - cbn. ssplit; auto; intros i; tauto.
  - destruct (IH (exec_tomb_nokey f j)) as [H1 [H2 [H3 [H4 [H5 [H6 [H7 H8]]]]]]]. cbn zeta.
    ssplit; try assumption.
    + intros i. rewrite H7. cbn [exec_tomb_nokey tf_sids]. rewrite (In_sremove N.eqb N.eqb_eq). cbn. intuition congruence.
    + intros i. rewrite H8. cbn [exec_tomb_nokey tf_tombs]. rewrite (In_sadd N.eqb N.eqb_eq). cbn. intuition congruence.
Qed.

Lemma fold_nokey_ok sf ids f :
  file_ok sf f -> (forall i, In i ids -> (i < sf_next sf)%N) -> file_ok sf (fold_left exec_tomb_nokey ids f).
Proof.
  revert f. induction ids as [|j ids IH]; intros f F Hb; [exact F|]. cbn [fold_left].
  apply IH; [apply exec_tomb_nokey_ok; [exact F|apply Hb; cbn; auto]|intros i Hi; apply Hb; cbn; auto].
Qed.
