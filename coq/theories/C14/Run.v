(* C14/Run.v — correspondence cases.  One case = a history prefix (writes, deletes, measurement and
   shard drops, TSI / series-file compactions, segment roll-overs, reopen), one query (listings,
   cardinalities, or the listing of a shard converted offline to TSI), and what the
   two real stores (inmem index, tsi1 index) answered.  [check_case] runs both models and
   the abstract set on the same prefix and compares (three-way diff):
     agree   : implementation answers = model answers
     spec_ok : implementation answers = projection of the abstract series set (Spec.v)
   result code: 0 agree & spec_ok, 1 differ & spec_ok, 2 differ & not spec_ok,
                3 agree & not spec_ok (model mirrors a defect). *)
From Verif Require Export C14.Spec C14.Model.

Definition code (agree spec_ok : bool) : N :=
  match agree, spec_ok with
  | true, true => 0 | false, true => 1 | false, false => 2 | true, false => 3
  end%N.

(* the regexp oracle as a table recorded from Go's regexp on every (pattern, subject) pair *)
Fixpoint rx_of (tab : list (str * str * bool)) (p s : str) : bool :=
  match tab with
  | [] => false
  | (p', s', b) :: tab' => if str_eqb p p' && str_eqb s s' then b else rx_of tab' p s
  end.

Inductive case :=
| Case (n : nat)                          (* shards 1..n *)
       (rxtab : list (str * str * bool))
       (ops : list op) (q : query)
       (cmp_inmem : bool)                 (* false: the observable does not exist for the inmem index (per-shard listing) *)
       (a_inmem a_tsi : answer).

Definition check_case (c : case) : N :=
  match c with
  | Case n tab ops q cmp ai at_ =>
      let rx := rx_of tab in
      let expect := spec_answer rx n (run_spec rx n ops) q in
      let mi := is_answer rx (is_run rx n ops) q in
      let mt := ts_answer rx (ts_run rx n ops) q in
      let agree := wf_ops ops && wf_query n q && (negb cmp || answer_eqb ai mi) && answer_eqb at_ mt in
      let spec_ok := (negb cmp || answer_eqb ai expect) && answer_eqb at_ expect in
      code agree spec_ok
  end.
