(* C14/ProofsClean.v — the query layer does not see series ids the series file has deleted.
   An index may list such ids under tag keys and values (the in-memory index between a
   DropSeriesGlobal and the next Rebuild does); every answer of tsdb/index.go IndexSet is the same
   as over the index whose tag key / tag value series lists are filtered by the series file
   first, as long as the measurement series lists hold live ids only. *)
From Verif Require Import C14.Spec C14.Model C14.ProofsBase C14.ProofsQuery C14.ProofsSfile.

Definition clean_prims (sf : sfile) (pr : prims) : prims :=
  mkPrims (p_meas pr) (p_has_key pr) (p_keys pr) (p_vals pr) (p_mseries pr)
          (fun m k => undeleted sf (p_kseries pr m k))
          (fun m k v => undeleted sf (p_vseries pr m k v)).

Lemma In_undeleted sf ids i : In i (undeleted sf ids) <-> In i ids /\ sf_deleted sf i = false.
Proof. unfold undeleted. rewrite filter_In, negb_true_iff. tauto. Qed.

Lemma undeleted_idem sf ids : undeleted sf (undeleted sf ids) = undeleted sf ids.
Proof.
  unfold undeleted. induction ids as [|i ids IH]; cbn; [reflexivity|].
  destruct (sf_deleted sf i) eqn:E; cbn; [exact IH|]. rewrite E. cbn. rewrite IH. reflexivity.
Qed.

Lemma is_nil_equiv {A} (a b : list A) : (forall x, In x a <-> In x b) -> is_nil a = is_nil b.
Proof.
  intros H. destruct a as [|x a], b as [|y b]; cbn; try reflexivity.
  - destruct (proj2 (H y) (or_introl eq_refl)).
  - destruct (proj1 (H x) (or_introl eq_refl)).
Qed.

Lemma existsb_ext_all {A} (f g : A -> bool) l : (forall x, f x = g x) -> existsb f l = existsb g l.
Proof. intros H. induction l as [|x l IH]; cbn; [reflexivity|]. rewrite H, IH. reflexivity. Qed.

Section Clean.
  Variable rx : str -> str -> bool.
  Variable pr : prims.
  Variable sf : sfile.
  Hypothesis Hms : forall m i, In i (p_mseries pr m) -> sf_deleted sf i = false.

  Let cp := clean_prims sf pr.

  Lemma vals_series_clean m k f i :
    sf_deleted sf i = false -> (In i (vals_series pr m k f) <-> In i (vals_series cp m k f)).
  Proof.
    intros Hd. unfold vals_series. rewrite !In_iunions. cbn [cp clean_prims p_vals p_vseries].
    split; intros [l [Hl Hi]]; apply in_map_iff in Hl; destruct Hl as [v [<- Hv]].
    - exists (undeleted sf (p_vseries pr m k v)). split; [apply in_map_iff; exists v; auto|apply In_undeleted; auto].
    - apply In_undeleted in Hi. exists (p_vseries pr m k v). split; [apply in_map_iff; exists v; auto|tauto].
  Qed.

  Lemma diff_clean (ms a b : list id) i :
    (forall j, In j ms -> sf_deleted sf j = false) ->
    (forall j, sf_deleted sf j = false -> (In j a <-> In j b)) ->
    (In i (idiff ms a) <-> In i (idiff ms b)).
  Proof.
    intros Hl H. rewrite !In_idiff. split; intros [H1 H2]; (split; [exact H1|]); intros H3; apply H2; apply (H i (Hl i H1)); exact H3.
  Qed.

  Lemma sbe_clean m e : forall i,
    sf_deleted sf i = false -> (In i (series_by_expr rx pr m e) <-> In i (series_by_expr rx cp m e)).
  Proof.
    induction e as [k v|k v|k pat|k pat|a IHa b IHb|a IHa b IHb]; intros i Hd; cbn [series_by_expr];
      cbn [cp clean_prims p_mseries p_kseries p_vseries].
    - destruct (is_nil v).
      + apply diff_clean; [apply Hms|]. intros j Hj. rewrite In_undeleted. tauto.
      + rewrite In_undeleted. tauto.
    - destruct (is_nil v).
      + rewrite In_undeleted. tauto.
      + apply diff_clean; [apply Hms|]. intros j Hj. rewrite In_undeleted. tauto.
    - destruct (rx pat []).
      + apply diff_clean; [apply Hms|]. intros j Hj. apply vals_series_clean. exact Hj.
      + apply vals_series_clean. exact Hd.
    - destruct (rx pat []).
      + apply vals_series_clean. exact Hd.
      + apply diff_clean; [apply Hms|]. intros j Hj. apply vals_series_clean. exact Hj.
    - rewrite !In_iinter, (IHa i Hd), (IHb i Hd). tauto.
    - rewrite !In_iunion, (IHa i Hd), (IHb i Hd). tauto.
  Qed.

  Lemma series_ids_clean m c i : In i (series_ids rx pr sf m c) <-> In i (series_ids rx cp sf m c).
  Proof.
    destruct c as [e|]; cbn [series_ids]; [|reflexivity].
    rewrite !In_undeleted. split; intros [H1 H2]; (split; [|exact H2]); apply (sbe_clean m e i H2); exact H1.
  Qed.

  Lemma series_keys_clean m c s : In s (series_keys rx pr sf m c) <-> In s (series_keys rx cp sf m c).
  Proof.
    unfold series_keys. rewrite !In_keys_of. split; intros [i [Hi Hk]]; exists i; (split; [|exact Hk]); apply series_ids_clean; exact Hi.
  Qed.

  Lemma q_series_clean m c r : In r (q_series rx pr sf m c) <-> In r (q_series rx cp sf m c).
  Proof.
    unfold q_series. rewrite !in_map_iff. split; intros [s [E H]]; exists s; (split; [exact E|]); apply series_keys_clean; exact H.
  Qed.

  Lemma key_has_series_clean m k : key_has_series pr sf m k = key_has_series cp sf m k.
  Proof. unfold key_has_series. cbn [cp clean_prims p_kseries]. rewrite undeleted_idem. reflexivity. Qed.

  Lemma val_has_series_clean m k v : val_has_series pr sf m k v = val_has_series cp sf m k v.
  Proof. unfold val_has_series. cbn [cp clean_prims p_vseries]. rewrite undeleted_idem. reflexivity. Qed.

  Lemma names_by_tag_clean k f positive : names_by_tag pr sf k f positive = names_by_tag cp sf k f positive.
  Proof.
    unfold names_by_tag. cbn [cp clean_prims p_meas p_has_key p_vals]. apply filter_ext. intros m.
    rewrite key_has_series_clean. f_equal. f_equal. apply existsb_ext_all. intros v. rewrite val_has_series_clean. reflexivity.
  Qed.

  Lemma names_by_expr_clean e : names_by_expr rx pr sf e = names_by_expr rx cp sf e.
  Proof.
    induction e as [k v|k v|k pat|k pat|a IHa b IHb|a IHa b IHb]; cbn [names_by_expr];
      try apply names_by_tag_clean; rewrite IHa, IHb; reflexivity.
  Qed.

  Lemma q_names_clean c : q_names rx pr sf c = q_names rx cp sf c.
  Proof. destruct c as [e|]; cbn [q_names]; [apply names_by_expr_clean|reflexivity]. Qed.

  Lemma vals_by_expr_clean m k e v : In v (vals_by_expr rx pr sf m k e) <-> In v (vals_by_expr rx cp sf m k e).
  Proof.
    unfold vals_by_expr. rewrite !in_flat_map. split; intros [s [Hs Hv]]; exists s; (split; [|exact Hv]);
      apply In_keys_of in Hs; destruct Hs as [i [Hi Hk]]; apply In_keys_of; exists i; (split; [|exact Hk]);
      apply In_undeleted in Hi; destruct Hi as [Hi Hd]; apply In_undeleted; (split; [|exact Hd]); apply (sbe_clean m e i Hd); exact Hi.
  Qed.

  Lemma q_tagkeys_clean mo c r : In r (q_tagkeys rx pr sf mo c) <-> In r (q_tagkeys rx cp sf mo c).
  Proof.
    unfold q_tagkeys. rewrite !in_flat_map. change (sel_names cp mo) with (sel_names pr mo). change (p_keys cp) with (p_keys pr).
    split; intros [name [Hn Hr]]; exists name; (split; [exact Hn|]); destruct c as [e|].
    - erewrite filter_ext; [exact Hr|]. intros k. cbv beta. f_equal. apply is_nil_equiv. intros v. symmetry. apply vals_by_expr_clean.
    - erewrite filter_ext; [exact Hr|]. intros k. symmetry. apply key_has_series_clean.
    - erewrite filter_ext; [exact Hr|]. intros k. cbv beta. f_equal. apply is_nil_equiv. intros v. apply vals_by_expr_clean.
    - erewrite filter_ext; [exact Hr|]. intros k. apply key_has_series_clean.
  Qed.

  Lemma q_tagvals_clean m k c r : In r (q_tagvals rx pr sf m k c) <-> In r (q_tagvals rx cp sf m k c).
  Proof.
    unfold q_tagvals. rewrite !in_flat_map. change (sel_names cp (Some m)) with (sel_names pr (Some m)).
    change (p_keys cp) with (p_keys pr). change (p_vals cp) with (p_vals pr).
    split; intros [name [Hn Hr]]; exists name; (split; [exact Hn|]); destruct (memb str_eqb k (p_keys pr name)); try exact Hr; destruct c as [e|].
    - apply in_map_iff in Hr. destruct Hr as [v [E Hv]]. apply in_map_iff. exists v. split; [exact E|]. apply vals_by_expr_clean. exact Hv.
    - erewrite filter_ext; [exact Hr|]. intros v. symmetry. apply val_has_series_clean.
    - apply in_map_iff in Hr. destruct Hr as [v [E Hv]]. apply in_map_iff. exists v. split; [exact E|]. apply vals_by_expr_clean. exact Hv.
    - erewrite filter_ext; [exact Hr|]. intros v. apply val_has_series_clean.
  Qed.
End Clean.

(* the theorems of the query layer for an index that refines the set after cleaning *)
Section CleanRefines.
  Variable rx : str -> str -> bool.
  Variable pr : prims.
  Variable sf : sfile.
  Variables (L : list id) (U : list series).
  Hypothesis R : refines (clean_prims sf pr) sf L U.

  Lemma clean_mseries_live m i : In i (p_mseries pr m) -> sf_deleted sf i = false.
  Proof.
    intros H. apply (r_mseries _ _ _ _ R m i) in H. destruct H as [s [[Hi Hk] _]].
    destruct (r_live _ _ _ _ R i Hi) as [s' [_ [_ Hd]]]. exact Hd.
  Qed.

  Theorem series_ids_ok' m c i :
    In i (series_ids rx pr sf m c) <-> exists s, live sf L i s /\ fst s = m /\ eval_opt rx c s = true.
  Proof. rewrite (series_ids_clean rx pr sf clean_mseries_live). apply (series_ids_ok rx _ sf L U R). Qed.

  Theorem series_keys_ok' m c s : In s (series_keys rx pr sf m c) <-> In s (series_of rx U m c).
  Proof. rewrite (series_keys_clean rx pr sf clean_mseries_live). apply (series_keys_ok rx _ sf L U R). Qed.

  Theorem q_series_ok' m c r : In r (q_series rx pr sf m c) <-> In r (map series_row (series_of rx U m c)).
  Proof. rewrite (q_series_clean rx pr sf clean_mseries_live). apply (q_series_ok rx _ sf L U R). Qed.

  Theorem q_names_ok' c m :
    In m (q_names rx pr sf c) <-> In m (match c with None => measurements U | Some p => names_pred rx U p end).
  Proof. rewrite (q_names_clean rx pr sf). apply (q_names_ok rx _ sf L U R). Qed.

  Theorem q_tagkeys_ok' mo c r :
    In r (q_tagkeys rx pr sf mo c) <->
    In r (flat_map (fun s => map (fun kv => [fst s; fst kv]) (snd s)) (filter (fun s => name_sel mo s && eval_opt rx c s) U)).
  Proof. rewrite (q_tagkeys_clean rx pr sf clean_mseries_live). apply (q_tagkeys_ok rx _ sf L U R). Qed.

  Theorem q_tagvals_ok' m k c r :
    In r (q_tagvals rx pr sf m k c) <->
    In r (flat_map (fun s => if has_key s k then [[m; k; tagval (snd s) k]] else []) (series_of rx U m c)).
  Proof. rewrite (q_tagvals_clean rx pr sf clean_mseries_live). apply (q_tagvals_ok rx _ sf L U R). Qed.
End CleanRefines.
