(* C14/Model.v — executable models (definitions only) of
     - the series file (tsdb/series_file.go, series_partition.go, series_index.go): id <-> key map,
       tombstones, segment log and segment files, index compaction, recovery at open (index and next id);
     - the in-memory index (tsdb/index/inmem): global measurement/series maps, per-shard id sets,
       the add / drop / dirty-and-rebuild bookkeeping of meta.go;
     - the TSI index (tsdb/index/tsi1): per shard an active log of entries and immutable index files
       by level, log replay at open, log->level-1 and level->level+1 compactions, tombstones;
         and, separately, the lazily sorted series id list of a measurement object (meta.go);
   - the query layer shared by both (tsdb/index.go IndexSet, tsdb/store.go): measurement names,
       tag keys, tag values, series by expression;
     - the engine's delete path (tsdb/engine/tsm1/engine.go deleteSeriesRange) on top of both.
   File formats, hash maps, bloom filters and sketches are abstracted to entry lists; the
   hash partitioning of a TSI index and of the series file into 8 parts is abstracted to one part. *)
From Verif Require Export C14.Spec.

Definition id := N.

(* ---------- small helpers ---------- *)

Definition pr2_eqb {A B} (ea : A -> A -> bool) (eb : B -> B -> bool) (x y : A * B) : bool :=
  ea (fst x) (fst y) && eb (snd x) (snd y).
Definition mi_eqb : (str * id) -> (str * id) -> bool := pr2_eqb str_eqb N.eqb.
Definition mk_eqb : (str * str) -> (str * str) -> bool := pr2_eqb str_eqb str_eqb.
Definition mkv_eqb : (str * str * str) -> (str * str * str) -> bool := pr2_eqb mk_eqb str_eqb.
Definition mkvi_eqb : (str * str * str * id) -> (str * str * str * id) -> bool := pr2_eqb mkv_eqb N.eqb.

(* association lists with a flag: the first entry for a key is the current one *)
Section Flags.
  Context {K : Type} (eqb : K -> K -> bool).
  Fixpoint flag_get (k : K) (l : list (K * bool)) : option bool :=
    match l with
    | [] => None
    | (k', b) :: l' => if eqb k k' then Some b else flag_get k l'
    end.
  Definition flag_set (k : K) (b : bool) (l : list (K * bool)) : list (K * bool) :=
    (k, b) :: filter (fun e => negb (eqb k (fst e))) l.
  Definition flag_ensure (k : K) (l : list (K * bool)) : list (K * bool) :=
    match flag_get k l with Some _ => l | None => (k, false) :: l end.
End Flags.

Fixpoint upd_nth {A} (n : nat) (x : A) (l : list A) : list A :=
  match l, n with
  | [], _ => []
  | _ :: l', O => x :: l'
  | y :: l', S n' => y :: upd_nth n' x l'
  end.

Fixpoint assoc_id {B} (i : id) (l : list (id * B)) : option B :=
  match l with
  | [] => None
  | (j, b) :: l' => if N.eqb i j then Some b else assoc_id i l'
  end.

Definition is_some {A} (o : option A) : bool := match o with Some _ => true | None => false end.

(* ====================================================================== *)
(* Series file                                                             *)
(* ====================================================================== *)

Inductive sfent := SfIns (i : id) (s : series) | SfTomb (i : id).

Record sfile := mkSf {
  sf_disk : list (id * series);   (* on-disk hash index written by the last compaction (live ids only) *)
  sf_log  : list sfent;           (* segment entries after the on-disk index's max offset, newest first *)
  sf_ins  : list (id * series);   (* in-memory idOffsetMap / keyIDMap since the last compaction, newest first *)
  sf_tomb : list id;              (* in-memory tombstones *)
  sf_next : id;                   (* SeriesPartition.seq: next id to hand out *)
  sf_segs : list id               (* the segment files, newest (active) first: SeriesSegment.MaxSeriesID of each,
                                     i.e. the highest id of its insert entries, 0 when it has none *)
}.

Definition sf_empty : sfile := mkSf [] [] [] [] 1%N [0%N].

(* SeriesIndex.FindOffsetByID + key read: in-memory map first, then the on-disk map *)
Definition sf_key (sf : sfile) (i : id) : option series :=
  match assoc_id i (sf_ins sf) with
  | Some s => Some s
  | None => assoc_id i (sf_disk sf)
  end.

(* SeriesIndex.IsDeleted *)
Definition sf_deleted (sf : sfile) (i : id) : bool :=
  memb N.eqb i (sf_tomb sf) || negb (is_some (sf_key sf i)).

Definition find_key (s : series) (l : list (id * series)) : option id :=
  match find (fun p => series_eqb (snd p) s) l with
  | Some p => Some (fst p)
  | None => None
  end.

(* SeriesIndex.FindIDBySeriesKey: latest in-memory id for the key unless deleted, else the on-disk one *)
Definition sf_find (sf : sfile) (s : series) : option id :=
  let disk := match find_key s (sf_disk sf) with
              | Some i => if sf_deleted sf i then None else Some i
              | None => None
              end in
  match find_key s (sf_ins sf) with
  | Some i => if sf_deleted sf i then disk else Some i
  | None => disk
  end.

(* an insert entry for id i is appended to the active segment *)
Definition seg_note (i : id) (segs : list id) : list id :=
  match segs with
  | [] => [i]
  | h :: older => N.max h i :: older
  end.

(* SeriesPartition.openSegments: the segments are searched newest first for one that holds an
   insert entry (MaxSeriesID() >= the partition's initial seq); numbering continues after it *)
Fixpoint seg_recover (segs : list id) : id :=
  match segs with
  | [] => 1%N
  | h :: older => if (1 <=? h)%N then (h + 1)%N else seg_recover older
  end.

(* SeriesPartition.CreateSeriesListIfNotExists for one key *)
Definition sf_create (sf : sfile) (s : series) : sfile * id :=
  match sf_find sf s with
  | Some i => (sf, i)
  | None =>
      let i := sf_next sf in
      (mkSf (sf_disk sf) (SfIns i s :: sf_log sf) ((i, s) :: sf_ins sf) (sf_tomb sf) (i + 1)%N
            (seg_note i (sf_segs sf)), i)
  end.

(* SeriesPartition.DeleteSeriesID *)
Definition sf_delete (sf : sfile) (i : id) : sfile :=
  if sf_deleted sf i then sf
  else mkSf (sf_disk sf) (SfTomb i :: sf_log sf) (sf_ins sf) (i :: sf_tomb sf) (sf_next sf) (sf_segs sf).

(* SeriesPartition.createSegment: the active segment is closed for writing and an empty one appended.
   (writeLogEntry does this when the next entry does not fit; which entry that is depends on byte
   sizes, so a history may place it anywhere) *)
Definition sf_roll (sf : sfile) : sfile :=
  mkSf (sf_disk sf) (sf_log sf) (sf_ins sf) (sf_tomb sf) (sf_next sf) (0%N :: sf_segs sf).

(* SeriesIndex.Recover: replay the entries after the on-disk index *)
Fixpoint sf_replay (log : list sfent) : list (id * series) * list id :=
  match log with
  | [] => ([], [])
  | e :: older =>
      let (ins, tomb) := sf_replay older in
      match e with
      | SfIns i s => ((i, s) :: ins, tomb)
      | SfTomb i => (ins, i :: tomb)
      end
  end.

Definition sf_index_recover (sf : sfile) : sfile :=
  let (ins, tomb) := sf_replay (sf_log sf) in
  mkSf (sf_disk sf) (sf_log sf) ins tomb (sf_next sf) (sf_segs sf).

(* SeriesPartition.Open: openSegments (next id from the segment files), then the index is recovered *)
Definition sf_reopen (sf : sfile) : sfile :=
  let sf1 := sf_index_recover sf in
  mkSf (sf_disk sf1) (sf_log sf1) (sf_ins sf1) (sf_tomb sf1) (seg_recover (sf_segs sf)) (sf_segs sf).

(* SeriesPartitionCompactor.Compact: every inserted id that is not deleted goes to the new
   on-disk index; its max offset is the last insert entry, so only the tombstones written
   after the last insert are replayed afterwards.  The segments stay as they are. *)
Fixpoint leading_tombs (log : list sfent) : list sfent :=
  match log with
  | SfTomb i :: l => SfTomb i :: leading_tombs l
  | _ => []
  end.

Definition sf_compact (sf : sfile) : sfile :=
  let disk := filter (fun p => negb (sf_deleted sf (fst p))) (sf_ins sf ++ sf_disk sf) in
  sf_index_recover (mkSf disk (leading_tombs (sf_log sf)) [] [] (sf_next sf) (sf_segs sf)).

(* every id ever inserted that can still be found (SeriesIDIterator walks the segments) *)
Definition sf_ids (sf : sfile) : list id := dedup N.eqb (map fst (sf_ins sf ++ sf_disk sf)).

(* ====================================================================== *)
(* Query layer shared by both index types (tsdb/index.go IndexSet)          *)
(* ====================================================================== *)

(* what an index offers (tsdb.Index): every answer may be merged over several indexes *)
Record prims := mkPrims {
  p_meas : list str;                              (* MeasurementIterator *)
  p_has_key : str -> str -> bool;                 (* HasTagKey *)
  p_keys : str -> list str;                       (* TagKeyIterator / MeasurementTagKeysByExpr(nil) *)
  p_vals : str -> str -> list str;                (* TagValueIterator *)
  p_mseries : str -> list id;                     (* MeasurementSeriesIDIterator *)
  p_kseries : str -> str -> list id;              (* TagKeySeriesIDIterator *)
  p_vseries : str -> str -> str -> list id        (* TagValueSeriesIDIterator *)
}.

Definition iunion := sunion N.eqb.
Definition iinter := sinter N.eqb.
Definition idiff := sdiff N.eqb.
Definition iunions (ls : list (list id)) : list id := fold_right iunion [] ls.
Definition sunions (ls : list (list str)) : list str := fold_right (sunion str_eqb) [] ls.

(* IndexSet over several indexes of one database: merge iterators *)
Definition merge_prims (ps : list prims) : prims :=
  mkPrims (sunions (map p_meas ps))
          (fun m k => existsb (fun p => p_has_key p m k) ps)
          (fun m => sunions (map (fun p => p_keys p m) ps))
          (fun m k => sunions (map (fun p => p_vals p m k) ps))
          (fun m => iunions (map (fun p => p_mseries p m) ps))
          (fun m k => iunions (map (fun p => p_kseries p m k) ps))
          (fun m k v => iunions (map (fun p => p_vseries p m k v) ps)).

Section Queries.
  Variable rx : str -> str -> bool.
  Variable pr : prims.
  Variable sf : sfile.

  (* FilterUndeletedSeriesIDIterator *)
  Definition undeleted (ids : list id) : list id := filter (fun i => negb (sf_deleted sf i)) ids.

  (* union of the series of the tag values of key k selected by f *)
  Definition vals_series (m k : str) (f : str -> bool) : list id :=
    iunions (map (fun v => p_vseries pr m k v) (filter f (p_vals pr m k))).

  (* seriesByExprIterator / seriesByBinaryExpr{String,Regex}Iterator / matchTagValue*SeriesIDIterator *)
  Fixpoint series_by_expr (m : str) (e : pred) : list id :=
    match e with
    | PEq k v =>
        if is_nil v then idiff (p_mseries pr m) (p_kseries pr m k) else p_vseries pr m k v
    | PNeq k v =>
        if is_nil v then p_kseries pr m k else idiff (p_mseries pr m) (p_vseries pr m k v)
    | PRe k pat =>
        if rx pat [] then idiff (p_mseries pr m) (vals_series m k (fun v => negb (rx pat v)))
        else vals_series m k (rx pat)
    | PNre k pat =>
        if rx pat [] then vals_series m k (fun v => negb (rx pat v))
        else idiff (p_mseries pr m) (vals_series m k (rx pat))
    | PAnd a b => iinter (series_by_expr m a) (series_by_expr m b)
    | POr a b => iunion (series_by_expr m a) (series_by_expr m b)
    end.

  (* measurementSeriesByExprIterator *)
  Definition series_ids (m : str) (c : option pred) : list id :=
    match c with
    | None => undeleted (p_mseries pr m)
    | Some e => undeleted (series_by_expr m e)
    end.

  (* keys of a list of ids; ids whose key cannot be read are skipped *)
  Definition keys_of (ids : list id) : list series :=
    flat_map (fun i => match sf_key sf i with Some s => [s] | None => [] end) ids.

  (* MeasurementSeriesKeysByExpr *)
  Definition series_keys (m : str) (c : option pred) : list series := keys_of (series_ids m c).

  (* tagKeyHasSeries / TagKeyHasAuthorizedSeries without authorizer *)
  Definition key_has_series (m k : str) : bool := negb (is_nil (undeleted (p_kseries pr m k))).
  Definition val_has_series (m k v : str) : bool := negb (is_nil (undeleted (p_vseries pr m k v))).

  (* measurementNamesByTagFilter *)
  Definition names_by_tag (k : str) (f : str -> bool) (positive : bool) : list str :=
    filter (fun m =>
              p_has_key pr m k && key_has_series m k &&
              Bool.eqb (existsb (fun v => f v && val_has_series m k v) (p_vals pr m k)) positive)
           (p_meas pr).

  (* measurementNamesByExpr *)
  Fixpoint names_by_expr (e : pred) : list str :=
    match e with
    | PEq k v => names_by_tag k (fun x => str_eqb x v) true
    | PNeq k v => names_by_tag k (fun x => str_eqb x v) false
    | PRe k pat => names_by_tag k (rx pat) true
    | PNre k pat => names_by_tag k (rx pat) false
    | PAnd a b => sinter str_eqb (names_by_expr a) (names_by_expr b)
    | POr a b => sunion str_eqb (names_by_expr a) (names_by_expr b)
    end.

  (* MeasurementNamesByExpr *)
  Definition q_names (c : option pred) : list str :=
    match c with None => p_meas pr | Some e => names_by_expr e end.

  (* measurement names selected by the "_name = m" part of a meta query *)
  Definition sel_names (m : option str) : list str :=
    match m with
    | None => p_meas pr
    | Some m => filter (fun x => str_eqb x m) (p_meas pr)
    end.

  (* tagValuesByKeyAndExpr: values of key k over the series selected by e *)
  Definition vals_by_expr (m k : str) (e : pred) : list str :=
    flat_map (fun s => if has_key s k then [tagval (snd s) k] else []) (keys_of (undeleted (series_by_expr m e))).

  (* Store.TagKeys *)
  Definition q_tagkeys (m : option str) (c : option pred) : list row :=
    flat_map (fun name =>
      let keys := p_keys pr name in
      match c with
      | None => map (fun k => [name; k]) (filter (key_has_series name) keys)
      | Some e => map (fun k => [name; k]) (filter (fun k => negb (is_nil (vals_by_expr name k e))) keys)
      end) (sel_names m).

  (* Store.TagValues with "_name = m AND _tagKey = k" *)
  Definition q_tagvals (m k : str) (c : option pred) : list row :=
    flat_map (fun name =>
      if memb str_eqb k (p_keys pr name) then
        match c with
        | None => map (fun v => [name; k; v]) (filter (val_has_series name k) (p_vals pr name k))
        | Some e => map (fun v => [name; k; v]) (vals_by_expr name k e)
        end
      else []) (sel_names (Some m)).

  Definition q_series (m : str) (c : option pred) : list row := map series_row (series_keys m c).
End Queries.

(* ====================================================================== *)
(* TSI index of one shard                                                  *)
(* ====================================================================== *)

(* log entries (tsi1.LogEntry) *)
Inductive lent :=
| LAdd (i : id) (s : series)      (* series entry; name and tags are cached only while running *)
| LTombS (i : id)                 (* series tombstone *)
| LTombM (m : str)                (* measurement tombstone *)
| LTombK (m k : str)              (* tag key tombstone *)
| LTombV (m k v : str).           (* tag value tombstone *)

(* content of a log file's in-memory index or of an index file, as entry lists *)
Record tfile := mkTf {
  tf_level : nat;                             (* 0 = log file *)
  tf_mm : list (str * bool);                  (* measurement entries: name, deleted *)
  tf_ms : list (str * id);                    (* series of a measurement *)
  tf_tk : list (str * str * bool);            (* tag key entries: (measurement, key), deleted *)
  tf_tv : list (str * str * str * bool);      (* tag value entries: (measurement, key, value), deleted *)
  tf_vs : list (str * str * str * id);        (* series of a tag value *)
  tf_sids : list id;                          (* series id set *)
  tf_tombs : list id                          (* tombstone series id set *)
}.

Definition tf_empty (lvl : nat) : tfile := mkTf lvl [] [] [] [] [] [] [].

(* LogFile.execSeriesEntry, insert *)
Definition exec_add (f : tfile) (i : id) (s : series) : tfile :=
  let m := fst s in
  mkTf (tf_level f)
       (flag_set str_eqb m false (tf_mm f))
       (sadd mi_eqb (m, i) (tf_ms f))
       (fold_right (fun kv acc => flag_ensure mk_eqb (m, fst kv) acc) (tf_tk f) (snd s))
       (fold_right (fun kv acc => flag_ensure mkv_eqb (m, fst kv, snd kv) acc) (tf_tv f) (snd s))
       (fold_right (fun kv acc => sadd mkvi_eqb (m, fst kv, snd kv, i) acc) (tf_vs f) (snd s))
       (sadd N.eqb i (tf_sids f))
       (sremove N.eqb i (tf_tombs f)).

(* LogFile.execSeriesEntry, tombstone with a readable key *)
Definition exec_tomb (f : tfile) (i : id) (s : series) : tfile :=
  let m := fst s in
  mkTf (tf_level f)
       (flag_set str_eqb m false (tf_mm f))
       (sremove mi_eqb (m, i) (tf_ms f))
       (fold_right (fun kv acc => flag_ensure mk_eqb (m, fst kv) acc) (tf_tk f) (snd s))
       (fold_right (fun kv acc => flag_ensure mkv_eqb (m, fst kv, snd kv) acc) (tf_tv f) (snd s))
       (fold_right (fun kv acc => sremove mkvi_eqb (m, fst kv, snd kv, i) acc) (tf_vs f) (snd s))
       (sremove N.eqb i (tf_sids f))
       (sadd N.eqb i (tf_tombs f)).

(* ... tombstone whose key is gone from the series file: only the id sets change *)
Definition exec_tomb_nokey (f : tfile) (i : id) : tfile :=
  mkTf (tf_level f) (tf_mm f) (tf_ms f) (tf_tk f) (tf_tv f) (tf_vs f)
       (sremove N.eqb i (tf_sids f)) (sadd N.eqb i (tf_tombs f)).

(* LogFile.execDeleteMeasurementEntry: flag the measurement, forget its tag set and series *)
Definition exec_tombm (f : tfile) (m : str) : tfile :=
  mkTf (tf_level f)
       (flag_set str_eqb m true (tf_mm f))
       (filter (fun p => negb (str_eqb (fst p) m)) (tf_ms f))
       (filter (fun p => negb (str_eqb (fst (fst p)) m)) (tf_tk f))
       (filter (fun p => negb (str_eqb (fst (fst (fst p))) m)) (tf_tv f))
       (filter (fun p => negb (str_eqb (fst (fst (fst p))) m)) (tf_vs f))
       (tf_sids f) (tf_tombs f).

(* execDeleteTagKeyEntry / execDeleteTagValueEntry (they also create the measurement entry) *)
Definition exec_tombk (f : tfile) (m k : str) : tfile :=
  mkTf (tf_level f) (flag_ensure str_eqb m (tf_mm f)) (tf_ms f)
       (flag_set mk_eqb (m, k) true (tf_tk f)) (tf_tv f) (tf_vs f) (tf_sids f) (tf_tombs f).
Definition exec_tombv (f : tfile) (m k v : str) : tfile :=
  mkTf (tf_level f) (flag_ensure str_eqb m (tf_mm f)) (tf_ms f)
       (flag_ensure mk_eqb (m, k) (tf_tk f)) (flag_set mkv_eqb (m, k, v) true (tf_tv f))
       (tf_vs f) (tf_sids f) (tf_tombs f).

(* executing one entry: while running an insert uses the cached key; on replay
   (and for tombstones always) the key is read from the series file *)
Definition exec_ent (replay : bool) (sf : sfile) (f : tfile) (e : lent) : tfile :=
  match e with
  | LAdd i s =>
      if replay then match sf_key sf i with Some s' => exec_add f i s' | None => f end
      else exec_add f i s
  | LTombS i => match sf_key sf i with Some s => exec_tomb f i s | None => exec_tomb_nokey f i end
  | LTombM m => exec_tombm f m
  | LTombK m k => exec_tombk f m k
  | LTombV m k v => exec_tombv f m k v
  end.

(* LogFile.open: replay all entries (list is newest first) *)
Fixpoint log_replay (sf : sfile) (ents : list lent) : tfile :=
  match ents with
  | [] => tf_empty 0
  | e :: older => exec_ent true sf (log_replay sf older) e
  end.

Record tsi := mkTsi {
  t_ents : list lent;        (* entries of the active log file, newest first *)
  t_log : tfile;             (* its in-memory index *)
  t_older : list tfile;      (* index files, newest first *)
  t_sids : list id           (* Partition.seriesIDSet *)
}.

Definition tsi_empty : tsi := mkTsi [] (tf_empty 0) [] [].
Definition t_files (t : tsi) : list tfile := t_log t :: t_older t.

(* ----- merged read view of a file set (file_set.go, tsi1.go merge iterators) ----- *)

Definition f_names (f : tfile) : list str := map fst (tf_mm f).
Definition f_keys (f : tfile) (m : str) : list str :=
  map (fun e => snd (fst e)) (filter (fun e => str_eqb (fst (fst e)) m) (tf_tk f)).
Definition f_vals (f : tfile) (m k : str) : list str :=
  map (fun e => snd (fst e)) (filter (fun e => mk_eqb (fst (fst e)) (m, k)) (tf_tv f)).
Definition f_mseries (f : tfile) (m : str) : list id :=
  map snd (filter (fun p => str_eqb (fst p) m) (tf_ms f)).
Definition f_vseries (f : tfile) (m k v : str) : list id :=
  map snd (filter (fun p => mkv_eqb (fst p) (m, k, v)) (tf_vs f)).
Definition f_kseries (f : tfile) (m k : str) : list id :=
  map snd (filter (fun p => mk_eqb (fst (fst p)) (m, k)) (tf_vs f)).

(* deleted flag of the newest entry *)
Fixpoint v_mflag (files : list tfile) (m : str) : option bool :=
  match files with
  | [] => None
  | f :: older => match flag_get str_eqb m (tf_mm f) with Some b => Some b | None => v_mflag older m end
  end.
Fixpoint v_kflag (files : list tfile) (m k : str) : option bool :=
  match files with
  | [] => None
  | f :: older => match flag_get mk_eqb (m, k) (tf_tk f) with Some b => Some b | None => v_kflag older m k end
  end.
Fixpoint v_vflag (files : list tfile) (m k v : str) : option bool :=
  match files with
  | [] => None
  | f :: older => match flag_get mkv_eqb (m, k, v) (tf_tv f) with Some b => Some b | None => v_vflag older m k v end
  end.

(* measurement names that are not deleted *)
Definition v_meas (files : list tfile) : list str :=
  filter (fun m => match v_mflag files m with Some false => true | _ => false end)
         (sunions (map f_names files)).
(* all tag keys, with their flag *)
Definition v_keys_all (files : list tfile) (m : str) : list str := sunions (map (fun f => f_keys f m) files).
Definition v_keys (files : list tfile) (m : str) : list str :=
  filter (fun k => match v_kflag files m k with Some false => true | _ => false end) (v_keys_all files m).
(* tagKeyMergeElem.TagValueIterator: merge the value lists of the files that have the key,
   newest first, up to and including the first one where the key is deleted *)
Fixpoint key_files (files : list tfile) (m k : str) : list tfile :=
  match files with
  | [] => []
  | f :: older =>
      match flag_get mk_eqb (m, k) (tf_tk f) with
      | Some true => [f]
      | Some false => f :: key_files older m k
      | None => key_files older m k
      end
  end.
Definition v_vals_all (files : list tfile) (m k : str) : list str :=
  sunions (map (fun f => f_vals f m k) (key_files files m k)).
Definition v_vals (files : list tfile) (m k : str) : list str :=
  filter (fun v => match v_vflag (key_files files m k) m k v with Some false => true | _ => false end)
         (v_vals_all files m k).

(* FileSet.TagValueSeriesIDIterator: oldest to newest, the tombstones of a file are removed
   before the next newer file is merged in (those of the newest file never are) *)
Fixpoint vfold (files : list tfile) (m k v : str) : list id * list id :=
  match files with
  | [] => ([], [])
  | f :: older =>
      let (ss, ft) := vfold older m k v in
      (iunion (idiff ss ft) (f_vseries f m k v), tf_tombs f)
  end.

(* Partition.existingSeriesIDIterator *)
Definition existing (sids : list id) (ids : list id) : list id := filter (fun i => memb N.eqb i sids) ids.

Definition tsi_prims (t : tsi) : prims :=
  let files := t_files t in
  mkPrims (v_meas files)
          (fun m k => match v_kflag files m k with Some false => true | _ => false end)
          (fun m => v_keys_all files m)
          (fun m k => v_vals files m k)
          (fun m => existing (t_sids t) (iunions (map (fun f => f_mseries f m) files)))
          (fun m k => existing (t_sids t) (iunions (map (fun f => f_kseries f m k) files)))
          (fun m k v => existing (t_sids t) (fst (vfold files m k v))).

(* ----- writes ----- *)

Definition t_append (sf : sfile) (t : tsi) (e : lent) : tsi :=
  mkTsi (e :: t_ents t) (exec_ent false sf (t_log t) e) (t_older t) (t_sids t).

(* LogFile.AddSeriesList for one series *)
Definition tsi_add (sf : sfile) (t : tsi) (s : series) : sfile * tsi :=
  let (sf', i) := sf_create sf s in
  if memb N.eqb i (t_sids t) then (sf', t)
  else let t' := t_append sf' t (LAdd i s) in
       (sf', mkTsi (t_ents t') (t_log t') (t_older t') (i :: t_sids t)).

(* Partition.DropSeriesList *)
Definition tsi_drop_series (sf : sfile) (t : tsi) (ids : list id) : tsi :=
  fold_left (fun t i => let t' := t_append sf t (LTombS i) in
                        mkTsi (t_ents t') (t_log t') (t_older t') (sremove N.eqb i (t_sids t'))) ids t.

(* Partition.MeasurementHasSeries *)
Definition tsi_meas_has_series (t : tsi) (m : str) : bool :=
  existsb (fun f => existsb (fun i => memb N.eqb i (t_sids t)) (f_mseries f m)) (t_files t).

(* Partition.DropMeasurement: tombstones for the keys, values and series seen in the file set, then the measurement *)
Definition tsi_drop_measurement (sf : sfile) (t : tsi) (m : str) : tsi :=
  let files := t_files t in
  let kents := flat_map (fun k =>
                 (match v_kflag files m k with Some true => [] | _ => [LTombK m k] end) ++
                 flat_map (fun v => match v_vflag (key_files files m k) m k v with
                                    | Some true => [] | _ => [LTombV m k v] end)
                          (v_vals_all files m k))
               (v_keys_all files m) in
  let sents := map LTombS (iunions (map (fun f => f_mseries f m) files)) in
  fold_left (t_append sf) (kents ++ sents ++ [LTombM m]) t.

(* Index.DropMeasurementIfSeriesNotExist *)
Definition tsi_drop_meas_if_empty (sf : sfile) (t : tsi) (m : str) : tsi :=
  if tsi_meas_has_series t m then t else tsi_drop_measurement sf t m.

(* ----- compactions ----- *)

(* LogFile.CompactTo: the in-memory index as an index file; the values of a deleted key are not written *)
Definition log_to_index (f : tfile) : tfile :=
  let live_key (m k : str) := match flag_get mk_eqb (m, k) (tf_tk f) with Some true => false | _ => true end in
  mkTf 1 (tf_mm f) (tf_ms f) (tf_tk f)
       (filter (fun e => live_key (fst (fst (fst e))) (snd (fst (fst e)))) (tf_tv f))
       (filter (fun e => live_key (fst (fst (fst e))) (snd (fst (fst e)))) (tf_vs f))
       (tf_sids f) (tf_tombs f).

Definition tsi_compact_log (t : tsi) : tsi :=
  mkTsi [] (tf_empty 0) (log_to_index (t_log t) :: t_older t) (t_sids t).

(* IndexFiles.buildSeriesIDSets over a run of files (newest first) *)
Fixpoint build_sets (run : list tfile) : list id * list id :=
  match run with
  | [] => ([], [])
  | f :: older =>
      let (ss, ts) := build_sets older in
      (iunion (idiff ss (tf_tombs f)) (tf_sids f), idiff (iunion ts (tf_tombs f)) (tf_sids f))
  end.

(* IndexFiles.CompactTo: names, keys, values merged newest-wins for the flags, series lists united *)
Definition merge_files (lvl : nat) (run : list tfile) : tfile :=
  let names := sunions (map f_names run) in
  let mks := dedup mk_eqb (flat_map (fun f => map fst (tf_tk f)) run) in
  let flag (o : option bool) := match o with Some b => b | None => false end in
  let mkvs := flat_map (fun mk => map (fun v => (fst mk, snd mk, v)) (v_vals_all run (fst mk) (snd mk))) mks in
  let (ss, ts) := build_sets run in
  mkTf lvl
       (map (fun m => (m, flag (v_mflag run m))) names)
       (flat_map (fun m => map (fun i => (m, i)) (iunions (map (fun f => f_mseries f m) run))) names)
       (map (fun mk => (mk, flag (v_kflag run (fst mk) (snd mk)))) mks)
       (map (fun mkv => (mkv, flag (v_vflag (key_files run (fst (fst mkv)) (snd (fst mkv)))
                                            (fst (fst mkv)) (snd (fst mkv)) (snd mkv)))) mkvs)
       (flat_map (fun mkv => map (fun i => (mkv, i))
                                 (iunions (map (fun f => f_vseries f (fst (fst mkv)) (snd (fst mkv)) (snd mkv)) run))) mkvs)
       ss ts.

(* FileSet.LastContiguousIndexFilesByLevel + MustReplace: the index files of level lvl
   (contiguous, they are the oldest of their level) are replaced by their merge at level lvl+1 *)
Fixpoint split_level (lvl : nat) (files : list tfile) : list tfile * list tfile * list tfile :=
  match files with
  | [] => ([], [], [])
  | f :: rest =>
      let '(pre, run, post) := split_level lvl rest in
      if Nat.eqb (tf_level f) lvl then
        match pre with
        | [] => ([], f :: run, post)          (* f is adjacent to the run (or starts it) *)
        | _ => (f :: pre, run, post)          (* a gap: files of the level that are not contiguous with the last ones *)
        end
      else
        match run with
        | [] => ([], [], f :: post)           (* older than every file of the level *)
        | _ => (f :: pre, run, post)
        end
  end.

Definition tsi_compact_level (t : tsi) (lvl : nat) : tsi :=
  let '(pre, run, post) := split_level lvl (t_older t) in
  if (2 <=? length run) && (1 <=? lvl) then
    mkTsi (t_ents t) (t_log t) (pre ++ merge_files (S lvl) run :: post) (t_sids t)
  else t.

(* ----- open ----- *)

(* Partition.buildSeriesSet: oldest to newest, remove the tombstones then add the series *)
Fixpoint fold_sids (files : list tfile) : list id :=
  match files with
  | [] => []
  | f :: older => iunion (idiff (fold_sids older) (tf_tombs f)) (tf_sids f)
  end.

Definition tsi_reopen (sf : sfile) (t : tsi) : tsi :=
  let log := log_replay sf (t_ents t) in
  mkTsi (t_ents t) log (t_older t) (fold_sids (log :: t_older t)).

(* ----- offline conversion: cmd/influx_inspect/buildtsi IndexShard ----- *)

(* The index is built in a temporary directory by an Index opened with DisableFsync and
   WithLogFileBufferSize: LogFile.FlushAndSync does nothing then, appended log entries stay in the
   log file's bufio.Writer until it is full; LogFile.Close flushes it.  The in-memory index of the
   log file always has every entry.  [c_nbuf] = how many of the newest entries of [t_ents] have not
   reached the .tsl file yet.  (Byte sizes are abstracted to entry counts; the theorems hold for
   every buffer capacity and every batch size.) *)
Record cvt := mkCv { c_sf : sfile; c_t : tsi; c_nbuf : nat }.

(* LogFile.AddSeriesList for one series; the buffer is written out when it is full *)
Definition cv_add (bufn : nat) (c : cvt) (s : series) : cvt :=
  let (sf', t') := tsi_add (c_sf c) (c_t c) s in
  let nb := (c_nbuf c + (length (t_ents t') - length (t_ents (c_t c))))%nat in
  mkCv sf' t' (if (bufn <=? nb)%nat then 0%nat else nb).

(* Partition.compact, run to the end: every level is merged upwards once *)
Definition tsi_cascade (t : tsi) : tsi := fold_left tsi_compact_level [1; 2; 3; 4]%nat t.

(* one batch: Index.CreateSeriesListIfNotExists, then Partition.CheckLogFile: with a small
   MaxLogFileSize a log file that holds any entry is swapped and compacted from its in-memory index
   (the .tsl file and its buffer are discarded), and the level compactions follow *)
Definition cv_batch (small : bool) (bufn : nat) (c : cvt) (ss : list series) : cvt :=
  let c1 := fold_left (cv_add bufn) ss c in
  if small && negb (is_nil (t_ents (c_t c1)))
  then mkCv (c_sf c1) (tsi_cascade (tsi_compact_log (c_t c1))) 0
  else c1.

(* LogFile.Close: f.w.Flush() *)
Definition cv_close (c : cvt) : cvt := mkCv (c_sf c) (c_t c) 0.

(* opening the converted index: only what reached the files is there *)
Definition cv_open (c : cvt) : tsi :=
  let t := c_t c in
  tsi_reopen (c_sf c) (mkTsi (skipn (c_nbuf c) (t_ents t)) (t_log t) (t_older t) (t_sids t)).

Fixpoint chunks {A} (fuel bsz : nat) (l : list A) : list (list A) :=
  match fuel, l with
  | O, _ => []
  | _, [] => []
  | S fuel', _ => firstn bsz l :: chunks fuel' bsz (skipn bsz l)
  end.

(* IndexShard: the series keys of the shard's TSM files and WAL in batches, Compact, Wait, Close;
   then the directory is renamed and opened as the shard's index *)
Definition cv_index (sf : sfile) (keys : list series) (bsz : nat) (small : bool) : sfile * tsi :=
  let c := cv_close (fold_left (cv_batch small bsz) (chunks (length keys) bsz keys) (mkCv sf tsi_empty 0)) in
  (c_sf c, cv_open c).

(* ====================================================================== *)
(* TSI store: shards 1..n of one database, one series file                  *)
(* ====================================================================== *)

Record tstate := mkTs { ts_sf : sfile; ts_data : sstate; ts_sh : list tsi }.

Definition ts_init (n : nat) : tstate := mkTs sf_empty [] (repeat tsi_empty n).
Definition ts_get (st : tstate) (sh : nat) : tsi := nth (sh - 1) (ts_sh st) tsi_empty.
Definition ts_set (st : tstate) (sh : nat) (sf : sfile) (t : tsi) : tstate :=
  mkTs sf (ts_data st) (upd_nth (sh - 1) t (ts_sh st)).

Section TsiStore.
  Variable rx : str -> str -> bool.
  Variable n : nat.

  Definition ts_write (st : tstate) (sh : nat) (ss : list series) : tstate :=
    if valid_shard n sh then
      let '(sf, t) := fold_left (fun a s => tsi_add (fst a) (snd a) s) ss (ts_sf st, ts_get st sh) in
      mkTs sf (fold_left (fun d s => sadd pair_eqb (sh, s) d) ss (ts_data st)) (upd_nth (sh - 1) t (ts_sh st))
    else st.

  (* Engine.deleteSeriesRange on shard sh for the keys an index query returned; the time range
     covers all points of the shard: the keys lose their data, are dropped from the shard's index,
     emptied measurements are dropped, and ids no shard holds any more leave the series file *)
  Definition ts_delete_keys (st : tstate) (sh : nat) (keys0 : list series) : tstate :=
    let keys := dedup series_eqb keys0 in       (* the series id iterator yields every series once *)
    let data := filter (fun p => negb (Nat.eqb (fst p) sh && memb series_eqb (snd p) keys)) (ts_data st) in
    let gone := filter (fun k => negb (memb pair_eqb (sh, k) data)) keys in
    let ids := flat_map (fun k => match sf_find (ts_sf st) k with Some i => [i] | None => [] end) gone in
    let names := dedup str_eqb (flat_map (fun k => match sf_find (ts_sf st) k with Some _ => [fst k] | None => [] end) gone) in
    let t1 := tsi_drop_series (ts_sf st) (ts_get st sh) ids in
    let t2 := fold_left (tsi_drop_meas_if_empty (ts_sf st)) names t1 in
    let shards := upd_nth (sh - 1) t2 (ts_sh st) in
    let dead := filter (fun i => negb (existsb (fun t => memb N.eqb i (t_sids t)) shards)) (dedup N.eqb ids) in
    mkTs (fold_left sf_delete dead (ts_sf st)) data shards.

  (* Store.DeleteSeries on one shard: for every measurement name, the series the shard's own index returns *)
  Definition ts_delete_shard (from : list str) (c : option pred) (st : tstate) (sh : nat) : tstate :=
    let names := if is_nil from then p_meas (tsi_prims (ts_get st sh)) else from in
    fold_left (fun st m => ts_delete_keys st sh (series_keys rx (tsi_prims (ts_get st sh)) (ts_sf st) m c)) names st.

  (* Store.DeleteShard (then the shard is created again, with an empty index): the ids of the
     shard's series id set that no other shard of the database holds leave the series file *)
  Definition ts_drop_shard (st : tstate) (sh : nat) : tstate :=
    if valid_shard n sh then
      let others := upd_nth (sh - 1) tsi_empty (ts_sh st) in
      let dead := filter (fun i => negb (existsb (fun t => memb N.eqb i (t_sids t)) others)) (t_sids (ts_get st sh)) in
      mkTs (fold_left sf_delete dead (ts_sf st)) (filter (fun p => negb (Nat.eqb (fst p) sh)) (ts_data st)) others
    else st.

  Definition ts_step (st : tstate) (o : op) : tstate :=
    match o with
    | OWrite sh ss => ts_write st sh ss
    | ODelete shs from c =>
        fold_left (ts_delete_shard from c) (filter (fun sh => memb Nat.eqb sh shs) (seq 1 n)) st
    | ODropM m => fold_left (ts_delete_shard [m] None) (seq 1 n) st
    | ODropShard sh => ts_drop_shard st sh
    | OCompactLog sh =>
        if valid_shard n sh then ts_set st sh (ts_sf st) (tsi_compact_log (ts_get st sh)) else st
    | OCompactLevel sh lvl =>
        if valid_shard n sh then ts_set st sh (ts_sf st) (tsi_compact_level (ts_get st sh) lvl) else st
    | OSfCompact => mkTs (sf_compact (ts_sf st)) (ts_data st) (ts_sh st)
    | OSfRoll => mkTs (sf_roll (ts_sf st)) (ts_data st) (ts_sh st)
    | OSnapshot _ => st
    | OReopen =>
        let sf := sf_reopen (ts_sf st) in
        mkTs sf (ts_data st) (map (tsi_reopen sf) (ts_sh st))
    end.

  Definition ts_run (ops : list op) : tstate := fold_left ts_step ops (ts_init n).

  Definition ts_answer (st : tstate) (q : query) : answer :=
    let sf := ts_sf st in
    let db := merge_prims (map tsi_prims (ts_sh st)) in
    match q with
    | QNames c => ARows (dedup row_eqb (map (fun m => [m]) (q_names rx db sf c)))
    | QTagKeys m c => ARows (dedup row_eqb (q_tagkeys rx db sf m c))
    | QTagVals m k c => ARows (dedup row_eqb (q_tagvals rx db sf m k c))
    | QSeries m c => ARows (dedup row_eqb (q_series rx db sf m c))
    | QShSeries sh m c => ARows (dedup row_eqb (q_series rx (tsi_prims (ts_get st sh)) sf m c))
    | QConv sh bsz small m c =>
        let keys := map snd (filter (fun p => Nat.eqb (fst p) sh) (ts_data st)) in
        let (sf', t) := cv_index sf keys bsz small in
        ARows (dedup row_eqb (q_series rx (tsi_prims t) sf' m c))
    | QCard => ANums (N.of_nat (length (iunions (map t_sids (ts_sh st))))
                       :: map (fun t => N.of_nat (length (t_sids t))) (ts_sh st))
    | QSfile => ARows (dedup row_eqb (map series_row (keys_of sf (filter (fun i => negb (sf_deleted sf i)) (sf_ids sf)))))
    end.
End TsiStore.

(* ====================================================================== *)
(* In-memory index: one per database, shared by the shards                  *)
(* ====================================================================== *)

Record inmem := mkIx {
  ix_series : list (series * id);              (* Index.series: key -> series object *)
  ix_mm : list str;                            (* Index.measurements *)
  ix_ms : list (str * (id * series));          (* measurement.seriesByID *)
  ix_tv : list (str * str * str * id);         (* measurement.seriesByTagKeyValue: (m, key, value) -> ids *)
  ix_dirty : list str;                         (* measurements with stale tag entries *)
  ix_del : list id                             (* series objects marked deleted *)
}.

Definition ix_empty : inmem := mkIx [] [] [] [] [] [].

Record ishard := mkIsh {
  sh_sids : list id;                           (* ShardIndex.seriesIDSet *)
  sh_mcount : list (str * nat)                 (* ShardIndex.measurements: series per measurement in this shard *)
}.

Definition ish_empty : ishard := mkIsh [] [].

Fixpoint mcount_get (m : str) (l : list (str * nat)) : nat :=
  match l with
  | [] => 0
  | (m', c) :: l' => if str_eqb m m' then c else mcount_get m l'
  end.
Definition mcount_set (m : str) (c : nat) (l : list (str * nat)) : list (str * nat) :=
  let l' := filter (fun e => negb (str_eqb m (fst e))) l in
  match c with O => l' | _ => (m, c) :: l' end.

Definition ix_find (ix : inmem) (s : series) : option id :=
  match find (fun p => series_eqb (fst p) s) (ix_series ix) with
  | Some p => Some (snd p)
  | None => None
  end.

Definition ix_mids (ix : inmem) (m : str) : list id :=
  map (fun p => fst (snd p)) (filter (fun p => str_eqb (fst p) m) (ix_ms ix)).

Definition imk_eqb (a b : str * (id * series)) : bool := str_eqb (fst a) (fst b) && N.eqb (fst (snd a)) (fst (snd b)).

(* measurement.AddSeries *)
Definition ix_add_series (ix : inmem) (i : id) (s : series) : inmem :=
  let m := fst s in
  if memb N.eqb i (ix_mids ix m) then ix
  else mkIx (ix_series ix) (ix_mm ix) ((m, (i, s)) :: ix_ms ix)
            (fold_right (fun kv acc => sadd mkvi_eqb (m, fst kv, snd kv, i) acc) (ix_tv ix) (snd s))
            (ix_dirty ix) (ix_del ix).

(* shard-local bookkeeping when a series id joins the shard *)
Definition ish_join (sh : ishard) (i : id) (m : str) : ishard :=
  if memb N.eqb i (sh_sids sh) then sh
  else mkIsh (i :: sh_sids sh) (mcount_set m (S (mcount_get m (sh_mcount sh))) (sh_mcount sh)).

(* ShardIndex.CreateSeriesListIfNotExists (assignExistingSeries + Index.CreateSeriesListIfNotExists), one series *)
Definition ix_create (sf : sfile) (ix : inmem) (sh : ishard) (s : series) : sfile * inmem * ishard :=
  match ix_find ix s with
  | Some i => (sf, ix, ish_join sh i (fst s))
  | None =>
      let (sf', i) := sf_create sf s in
      let ix1 := mkIx ((s, i) :: ix_series ix) (sadd str_eqb (fst s) (ix_mm ix)) (ix_ms ix) (ix_tv ix)
                      (ix_dirty ix) (ix_del ix) in
      (sf', ix_add_series ix1 i s, ish_join sh i (fst s))
  end.

(* ShardIndex.DropSeriesList *)
Definition ish_drop (sh : ishard) (ids : list (id * series)) : ishard :=
  fold_left (fun sh p =>
               if memb N.eqb (fst p) (sh_sids sh) then
                 let m := fst (snd p) in
                 mkIsh (sremove N.eqb (fst p) (sh_sids sh)) (mcount_set m (Nat.pred (mcount_get m (sh_mcount sh))) (sh_mcount sh))
               else sh) ids sh.

(* Index.dropMeasurement *)
Definition ix_drop_measurement (ix : inmem) (m : str) : inmem :=
  if memb str_eqb m (ix_mm ix) then
    let ids := ix_mids ix m in
    mkIx (filter (fun p => negb (memb N.eqb (snd p) ids)) (ix_series ix))
         (sremove str_eqb m (ix_mm ix))
         (filter (fun p => negb (str_eqb (fst p) m)) (ix_ms ix))
         (filter (fun p => negb (str_eqb (fst (fst (fst p))) m)) (ix_tv ix))
         (sremove str_eqb m (ix_dirty ix)) (ix_del ix)
  else ix.

(* ShardIndex.DropMeasurementIfSeriesNotExist *)
Definition ix_drop_meas_if_empty (ix : inmem) (sh : ishard) (m : str) : inmem :=
  if Nat.ltb 0 (mcount_get m (sh_mcount sh)) then ix
  else if negb (memb str_eqb m (ix_mm ix)) then ix
  else if negb (is_nil (ix_mids ix m)) then ix
  else ix_drop_measurement ix m.

(* Index.DropSeriesGlobal *)
Definition ix_drop_series_global (ix : inmem) (s : series) : inmem :=
  match ix_find ix s with
  | None => ix
  | Some i =>
      let m := fst s in
      let ix1 := mkIx (filter (fun p => negb (series_eqb (fst p) s)) (ix_series ix)) (ix_mm ix)
                      (filter (fun p => negb (imk_eqb p (m, (i, s)))) (ix_ms ix))     (* measurement.DropSeries *)
                      (ix_tv ix) (sadd str_eqb m (ix_dirty ix)) (i :: ix_del ix) in
      if is_nil (ix_mids ix1 m) then ix_drop_measurement ix1 m else ix1
  end.

(* Index.Rebuild: dirty measurements get their tag entries rebuilt from the series that are left *)
Definition ix_rebuild (ix : inmem) : inmem :=
  let clean (m : str) := negb (memb str_eqb m (ix_dirty ix)) in
  let rebuilt := flat_map (fun p => if clean (fst p) || memb N.eqb (fst (snd p)) (ix_del ix) then []
                                    else map (fun kv => (fst p, fst kv, snd kv, fst (snd p))) (snd (snd (snd p))))
                          (ix_ms ix) in
  mkIx (ix_series ix) (ix_mm ix)
       (filter (fun p => clean (fst p) || negb (memb N.eqb (fst (snd p)) (ix_del ix))) (ix_ms ix))
       (filter (fun p => clean (fst (fst (fst p)))) (ix_tv ix) ++ dedup mkvi_eqb rebuilt)
       [] (ix_del ix).

(* measurement.Authorized without authorizer: at least one series object not marked deleted *)
Definition ix_meas_listed (ix : inmem) (m : str) : bool :=
  existsb (fun p => str_eqb (fst p) m && negb (memb N.eqb (fst (snd p)) (ix_del ix))) (ix_ms ix).

Definition ix_prims (ix : inmem) : prims :=
  mkPrims (filter (ix_meas_listed ix) (ix_mm ix))         (* MeasurementIterator = MeasurementNamesByExpr(nil, nil) *)
          (fun m k => existsb (fun p => mk_eqb (fst (fst p)) (m, k)) (ix_tv ix))
          (fun m => dedup str_eqb (map (fun p => snd (fst (fst p))) (filter (fun p => str_eqb (fst (fst (fst p))) m) (ix_tv ix))))
          (fun m k => dedup str_eqb (map (fun p => snd (fst p)) (filter (fun p => mk_eqb (fst (fst p)) (m, k)) (ix_tv ix))))
          (fun m => ix_mids ix m)
          (fun m k => dedup N.eqb (map snd (filter (fun p => mk_eqb (fst (fst p)) (m, k)) (ix_tv ix))))
          (fun m k v => map snd (filter (fun p => mkv_eqb (fst p) (m, k, v)) (ix_tv ix))).

Record istate := mkIs { is_sf : sfile; is_data : sstate; is_ix : inmem; is_sh : list ishard }.

Definition is_init (n : nat) : istate := mkIs sf_empty [] ix_empty (repeat ish_empty n).
Definition is_get (st : istate) (sh : nat) : ishard := nth (sh - 1) (is_sh st) ish_empty.

Section InmemStore.
  Variable rx : str -> str -> bool.
  Variable n : nat.

  Definition is_create_list (sf : sfile) (ix : inmem) (shd : ishard) (ss : list series) : sfile * inmem * ishard :=
    fold_left (fun a s => ix_create (fst (fst a)) (snd (fst a)) (snd a) s) ss (sf, ix, shd).

  Definition is_write (st : istate) (sh : nat) (ss : list series) : istate :=
    if valid_shard n sh then
      let '(sf, ix, shd) := is_create_list (is_sf st) (is_ix st) (is_get st sh) ss in
      mkIs sf (fold_left (fun d s => sadd pair_eqb (sh, s) d) ss (is_data st)) ix (upd_nth (sh - 1) shd (is_sh st))
    else st.

  (* Engine.deleteSeriesRange with the inmem index; keys come from the database-wide index, so
     they may belong to other shards only (then nothing happens here) *)
  Definition is_delete_keys (st : istate) (sh : nat) (keys0 : list series) : istate :=
    let keys := dedup series_eqb keys0 in
    let data := filter (fun p => negb (Nat.eqb (fst p) sh && memb series_eqb (snd p) keys)) (is_data st) in
    let gone := filter (fun k => negb (memb pair_eqb (sh, k) data)) keys in
    let ids := flat_map (fun k => match sf_find (is_sf st) k with Some i => [(i, k)] | None => [] end) gone in
    let names := dedup str_eqb (map (fun p => fst (snd p)) ids) in
    let shd := ish_drop (is_get st sh) ids in
    let ix1 := fold_left (fun ix m => ix_drop_meas_if_empty ix shd m) names (is_ix st) in
    let shards := upd_nth (sh - 1) shd (is_sh st) in
    let dead := filter (fun p => negb (existsb (fun s => memb N.eqb (fst p) (sh_sids s)) shards))
                       (dedup (pr2_eqb N.eqb series_eqb) ids) in
    (* for each dead id: key read from the series file, SeriesFile.DeleteSeriesID, Index.DropSeriesGlobal *)
    let '(sf2, ix2) := fold_left (fun a p =>
                         match sf_key (fst a) (fst p) with
                         | Some k => (sf_delete (fst a) (fst p), ix_drop_series_global (snd a) k)
                         | None => (sf_delete (fst a) (fst p), snd a)
                         end) dead (is_sf st, ix1) in
    mkIs sf2 data ix2 shards.

  (* Store.DeleteSeries on one shard, then Engine's index.Rebuild() *)
  Definition is_delete_shard (from : list str) (c : option pred) (st : istate) (sh : nat) : istate :=
    let names := if is_nil from then ix_mm (is_ix st) (* ForEachMeasurementName *) else from in
    fold_left (fun st m =>
                 let st' := is_delete_keys st sh (series_keys rx (ix_prims (is_ix st)) (is_sf st) m c) in
                 mkIs (is_sf st') (is_data st') (ix_rebuild (is_ix st')) (is_sh st')) names st.

  (* open: the index is rebuilt from the keys found in each shard's TSM files and cache (LoadMetadataIndex) *)
  Definition is_reopen (st : istate) : istate :=
    let sf := sf_reopen (is_sf st) in
    let '(sf', ix, shards) :=
      fold_left (fun a sh =>
                   let '(sf, ix, acc) := a in
                   let keys := map snd (filter (fun p => Nat.eqb (fst p) sh) (is_data st)) in
                   let '(sf1, ix1, shd) := is_create_list sf ix ish_empty keys in
                   (sf1, ix1, acc ++ [shd]))
                (seq 1 n) (sf, ix_empty, []) in
    mkIs sf' (is_data st) ix shards.

  (* Store.DeleteShard with the inmem index (then the shard is created again): for the ids no other
     shard holds, Index.DropSeriesGlobal on the key of each, then SeriesFile.DeleteSeriesID on each.
     No Index.Rebuild follows: the measurements that lost series stay dirty. *)
  Definition is_drop_shard (st : istate) (sh : nat) : istate :=
    if valid_shard n sh then
      let others := upd_nth (sh - 1) ish_empty (is_sh st) in
      let dead := filter (fun i => negb (existsb (fun s => memb N.eqb i (sh_sids s)) others)) (sh_sids (is_get st sh)) in
      let ix := fold_left (fun ix i => match sf_key (is_sf st) i with
                                       | Some k => ix_drop_series_global ix k
                                       | None => ix
                                       end) dead (is_ix st) in
      mkIs (fold_left sf_delete dead (is_sf st)) (filter (fun p => negb (Nat.eqb (fst p) sh)) (is_data st)) ix others
    else st.

  Definition is_step (st : istate) (o : op) : istate :=
    match o with
    | OWrite sh ss => is_write st sh ss
    | ODelete shs from c =>
        fold_left (is_delete_shard from c) (filter (fun sh => memb Nat.eqb sh shs) (seq 1 n)) st
    | ODropM m => fold_left (is_delete_shard [m] None) (seq 1 n) st
    | ODropShard sh => is_drop_shard st sh
    | OSfCompact => mkIs (sf_compact (is_sf st)) (is_data st) (is_ix st) (is_sh st)
    | OSfRoll => mkIs (sf_roll (is_sf st)) (is_data st) (is_ix st) (is_sh st)
    | OReopen => is_reopen st
    | _ => st
    end.

  Definition is_run (ops : list op) : istate := fold_left is_step ops (is_init n).

  Definition is_answer (st : istate) (q : query) : answer :=
    let sf := is_sf st in
    let db := ix_prims (is_ix st) in
    match q with
    | QNames c => ARows (dedup row_eqb (map (fun m => [m]) (q_names rx db sf c)))
    | QTagKeys m c => ARows (dedup row_eqb (q_tagkeys rx db sf m c))
    | QTagVals m k c => ARows (dedup row_eqb (q_tagvals rx db sf m k c))
    | QSeries m c => ARows (dedup row_eqb (q_series rx db sf m c))
    | QShSeries sh m c =>      (* no per-shard listing: the index is database-wide; listing restricted by the shard's id set *)
        ARows (dedup row_eqb (map series_row (keys_of sf (filter (fun i => memb N.eqb i (sh_sids (is_get st sh)))
                                                                   (series_ids rx db sf m c)))))
    | QConv sh bsz small m c =>
        let keys := map snd (filter (fun p => Nat.eqb (fst p) sh) (is_data st)) in
        let (sf', t) := cv_index sf keys bsz small in
        ARows (dedup row_eqb (q_series rx (tsi_prims t) sf' m c))
    | QCard => ANums (N.of_nat (length (iunions (map sh_sids (is_sh st))))
                       :: map (fun s => N.of_nat (length (sh_sids s))) (is_sh st))
    | QSfile => ARows (dedup row_eqb (map series_row (keys_of sf (filter (fun i => negb (sf_deleted sf i)) (sf_ids sf)))))
    end.
End InmemStore.

(* ====================================================================== *)
(* inmem measurement: the lazily sorted series id list (meta.go)            *)
(* ====================================================================== *)

(* measurement.seriesByID (its keys) and measurement.sortedSeriesIDs.  SeriesIDs() takes the cached
   list for valid when it is as long as the map; AddSeries appends to it when that keeps it sorted
   and complete, DropSeries empties it. *)
Record mcache := mkMc { mc_ids : list id; mc_sorted : list id }.

Inductive mop := MAdd (i : id) | MDrop (i : id) | MList.

Fixpoint ins_sorted (i : id) (l : list id) : list id :=
  match l with
  | [] => [i]
  | j :: l' => if (i <=? j)%N then i :: l else j :: ins_sorted i l'
  end.
Definition sort_ids (l : list id) : list id := fold_right ins_sorted [] l.

(* measurement.AddSeries *)
Definition mc_add (c : mcache) (i : id) : mcache :=
  if memb N.eqb i (mc_ids c) then c
  else
    let ids := i :: mc_ids c in
    let s := mc_sorted c in
    mkMc ids (if (length ids =? 1)%nat || ((length s =? length ids - 1)%nat && (last s 0 <? i)%N) then s ++ [i] else s).

(* measurement.DropSeries *)
Definition mc_drop (c : mcache) (i : id) : mcache :=
  if memb N.eqb i (mc_ids c) then mkMc (sremove N.eqb i (mc_ids c)) [] else c.

(* measurement.SeriesIDs *)
Definition mc_list (c : mcache) : mcache * list id :=
  if (length (mc_sorted c) =? length (mc_ids c))%nat then (c, mc_sorted c)
  else let s := sort_ids (mc_ids c) in (mkMc (mc_ids c) s, s).

Definition mc_step (c : mcache) (o : mop) : mcache :=
  match o with
  | MAdd i => mc_add c i
  | MDrop i => mc_drop c i
  | MList => fst (mc_list c)
  end.

Definition mc_run (ops : list mop) : mcache := fold_left mc_step ops (mkMc [] []).
