(* C14/ProofsLsmC.v — facts that hold of every log file index however it was built (running or
   replayed), and the relation between two replays of the same log under a series file before
   and after it forgot the keys of deleted ids. *)
From Verif Require Import C14.Spec C14.Model C14.ProofsBase C14.ProofsSfile C14.ProofsLsmA C14.ProofsLsmB.

Record built_ok (f : tfile) : Prop := mkBuiltOk {
  bo_f8 : forall m i, In (m, i) (tf_ms f) -> flag_get str_eqb m (tf_mm f) = Some false;
  bo_vs_tv : forall m k v i, In (m, k, v, i) (tf_vs f) ->
             flag_get mkv_eqb (m, k, v) (tf_tv f) <> None /\ flag_get mk_eqb (m, k) (tf_tk f) <> None;
  bo_disj : forall i, In i (tf_sids f) -> In i (tf_tombs f) -> False;
  bo_nodup : NoDup (tf_sids f)
}.

Lemma built_ok_empty lvl : built_ok (tf_empty lvl).
Proof. constructor; cbn; try (intros; tauto). constructor. Qed.

Lemma built_add f i s : built_ok f -> built_ok (exec_add f i s).
Proof.
  intros B. destruct s as [m t]. unfold exec_add. cbn [fst snd].
  constructor; cbn [tf_ms tf_vs tf_sids tf_tombs tf_tk tf_tv tf_mm].
  - intros m' j Hin. rewrite (flag_get_set str_eqb str_eqb_eq). destruct (str_eqb m' m) eqn:Em; [reflexivity|].
    apply (In_sadd mi_eqb mi_eqb_eq) in Hin. destruct Hin as [E|Hin]; [inversion E; subst; rewrite str_eqb_refl in Em; discriminate|].
    eapply (bo_f8 f B); eauto.
  - intros m' k v j Hin. apply In_fold_sadd_vs in Hin. destruct Hin as [Hin|[k' [v' [Ht E]]]].
    + destruct (bo_vs_tv f B _ _ _ _ Hin) as [H1 H2]. split; [apply fold_ensure_tv_keeps|apply fold_ensure_tk_keeps]; assumption.
    + inversion E; subst. split; [eapply fold_ensure_tv_new|eapply fold_ensure_tk_new]; eauto.
  - intros j H1 H2. apply (In_sadd N.eqb N.eqb_eq) in H1. apply (In_sremove N.eqb N.eqb_eq) in H2.
    destruct H2 as [H2 Hne]. destruct H1 as [->|H1]; [congruence|]. eapply (bo_disj f B); eauto.
  - apply (NoDup_sadd N.eqb N.eqb_eq). apply (bo_nodup f B).
Qed.

Lemma built_tomb f i s : built_ok f -> built_ok (exec_tomb f i s).
Proof.
  intros B. destruct s as [m t]. unfold exec_tomb. cbn [fst snd].
  constructor; cbn [tf_ms tf_vs tf_sids tf_tombs tf_tk tf_tv tf_mm].
  - intros m' j Hin. rewrite (flag_get_set str_eqb str_eqb_eq). destruct (str_eqb m' m) eqn:Em; [reflexivity|].
    apply (In_sremove mi_eqb mi_eqb_eq) in Hin. destruct Hin as [Hin _]. eapply (bo_f8 f B); eauto.
  - intros m' k v j Hin. apply In_fold_sremove_vs in Hin. destruct Hin as [Hin _].
    destruct (bo_vs_tv f B _ _ _ _ Hin) as [H1 H2]. split; [apply fold_ensure_tv_keeps|apply fold_ensure_tk_keeps]; assumption.
  - intros j H1 H2. apply (In_sremove N.eqb N.eqb_eq) in H1. apply (In_sadd N.eqb N.eqb_eq) in H2.
    destruct H1 as [H1 Hne]. destruct H2 as [->|H2]; [congruence|]. eapply (bo_disj f B); eauto.
  - apply NoDup_filter. apply (bo_nodup f B).
Qed.

Lemma built_nokey f i : built_ok f -> built_ok (exec_tomb_nokey f i).
Proof.
  intros B. unfold exec_tomb_nokey. constructor; cbn [tf_ms tf_vs tf_sids tf_tombs tf_tk tf_tv tf_mm]; try apply B.
  - intros j H1 H2. apply (In_sremove N.eqb N.eqb_eq) in H1. apply (In_sadd N.eqb N.eqb_eq) in H2.
    destruct H1 as [H1 Hne]. destruct H2 as [->|H2]; [congruence|]. eapply (bo_disj f B); eauto.
  - apply NoDup_filter. apply (bo_nodup f B).
Qed.

Lemma built_tombm f m : built_ok f -> built_ok (exec_tombm f m).
Proof.
  intros B. unfold exec_tombm. constructor; cbn [tf_ms tf_vs tf_sids tf_tombs tf_tk tf_tv tf_mm]; try apply B.
  - intros m' j Hin. apply filter_In in Hin. destruct Hin as [Hin Hne]. cbn in Hne.
    rewrite (flag_get_set str_eqb str_eqb_eq). destruct (str_eqb m' m); [discriminate|]. eapply (bo_f8 f B); eauto.
  - intros m' k v j Hin. apply filter_In in Hin. destruct Hin as [Hin Hne]. cbn in Hne.
    destruct (bo_vs_tv f B _ _ _ _ Hin) as [H1 H2].
    split; [rewrite (flag_get_filter_key mkv_eqb mkv_eqb_eq)|rewrite (flag_get_filter_key mk_eqb mk_eqb_eq)];
      try reflexivity; cbn; rewrite Hne; assumption.
Qed.

Lemma built_tombk f m k : built_ok f -> built_ok (exec_tombk f m k).
Proof.
  intros B. unfold exec_tombk. constructor; cbn [tf_ms tf_vs tf_sids tf_tombs tf_tk tf_tv tf_mm]; try apply B.
  - intros m' j Hin. rewrite (flag_get_ensure str_eqb str_eqb_eq). rewrite (bo_f8 f B _ _ Hin). reflexivity.
  - intros m' k' v j Hin. destruct (bo_vs_tv f B _ _ _ _ Hin) as [H1 H2].
    split; [exact H1|apply (flag_get_set_ne mk_eqb mk_eqb_eq); exact H2].
Qed.

Lemma built_tombv f m k v : built_ok f -> built_ok (exec_tombv f m k v).
Proof.
  intros B. unfold exec_tombv. constructor; cbn [tf_ms tf_vs tf_sids tf_tombs tf_tk tf_tv tf_mm]; try apply B.
  - intros m' j Hin. rewrite (flag_get_ensure str_eqb str_eqb_eq). rewrite (bo_f8 f B _ _ Hin). reflexivity.
  - intros m' k' v' j Hin. destruct (bo_vs_tv f B _ _ _ _ Hin) as [H1 H2].
    split; [apply (flag_get_set_ne mkv_eqb mkv_eqb_eq); exact H1|apply (flag_get_ensure_ne mk_eqb mk_eqb_eq); exact H2].
Qed.

Lemma built_exec b sf f e : built_ok f -> built_ok (exec_ent b sf f e).
Proof.
  intros B. destruct e as [i s|i|m|m k|m k v]; cbn [exec_ent].
  - destruct b; [destruct (sf_key sf i); [apply built_add|]; exact B|apply built_add; exact B].
  - destruct (sf_key sf i); [apply built_tomb|apply built_nokey]; exact B.
  - apply built_tombm; exact B.
  - apply built_tombk; exact B.
  - apply built_tombv; exact B.
Qed.

Lemma built_replay sf ents : built_ok (log_replay sf ents).
Proof. induction ents as [|e ents IH]; cbn [log_replay]; [apply built_ok_empty|apply built_exec; exact IH]. Qed.

(* a measurement flagged deleted in a log file index was flagged by a measurement tombstone of the log *)
Definition true_from (ents : list lent) (f : tfile) : Prop :=
  forall m, flag_get str_eqb m (tf_mm f) = Some true -> In (LTombM m) ents.

Lemma true_from_exec b sf f e ents : true_from ents f -> true_from (e :: ents) (exec_ent b sf f e).
Proof.
  intros T m. destruct e as [i s|i|m'|m' k|m' k v]; cbn [exec_ent].
  - assert (Hadd : forall s', flag_get str_eqb m (tf_mm (exec_add f i s')) = Some true -> In (LTombM m) (LAdd i s :: ents)).
    { intros s'. unfold exec_add. cbn [tf_mm]. rewrite (flag_get_set str_eqb str_eqb_eq).
      destruct (str_eqb m (fst s')); [discriminate|]. intros H. right. apply T. exact H. }
    destruct b; [destruct (sf_key sf i); [apply Hadd|intros H; right; apply T; exact H]|apply Hadd].
  - destruct (sf_key sf i) as [s|].
    + unfold exec_tomb. cbn [tf_mm]. rewrite (flag_get_set str_eqb str_eqb_eq).
      destruct (str_eqb m (fst s)); [discriminate|]. intros H. right. apply T. exact H.
    + intros H. right. apply T. exact H.
  - unfold exec_tombm. cbn [tf_mm]. rewrite (flag_get_set str_eqb str_eqb_eq).
    destruct (str_eqb m m') eqn:E; [apply str_eqb_eq in E; subst; intros _; left; reflexivity|intros H; right; apply T; exact H].
  - unfold exec_tombk. cbn [tf_mm]. rewrite (flag_get_ensure str_eqb str_eqb_eq).
    destruct (flag_get str_eqb m (tf_mm f)) eqn:E; [intros H; right; apply T; congruence|destruct (str_eqb m m'); discriminate].
  - unfold exec_tombv. cbn [tf_mm]. rewrite (flag_get_ensure str_eqb str_eqb_eq).
    destruct (flag_get str_eqb m (tf_mm f)) eqn:E; [intros H; right; apply T; congruence|destruct (str_eqb m m'); discriminate].
Qed.

Lemma true_from_replay sf ents : true_from ents (log_replay sf ents).
Proof.
  induction ents as [|e ents IH]; cbn [log_replay]; [intros m; cbn; discriminate|apply true_from_exec; exact IH].
Qed.

(* replay depends on the series file only through the keys of the ids in the log *)
Definition ent_ids (e : lent) : list id := match e with LAdd i _ => [i] | LTombS i => [i] | _ => [] end.

Lemma log_replay_ext sf sf' ents :
  (forall e i, In e ents -> In i (ent_ids e) -> sf_key sf' i = sf_key sf i) -> log_replay sf' ents = log_replay sf ents.
Proof.
  induction ents as [|e ents IH]; intros H; cbn [log_replay]; [reflexivity|].
  rewrite IH; [|intros e' i He Hi; apply (H e' i); cbn; auto].
  destruct e as [i s|i|m|m k|m k v]; cbn [exec_ent]; try reflexivity; rewrite (H _ i (or_introl eq_refl)); cbn; auto.
Qed.
