(* C14/ProofsBase.v — decidable equalities and finite-set-as-list lemmas used by all C14 proofs. *)
From Verif Require Import C14.Spec C14.Model.

(* ---------- equalities ---------- *)

Lemma str_eqb_eq a b : str_eqb a b = true <-> a = b.
Proof.
  revert b; induction a as [|x a IH]; intros [|y b]; cbn; try (split; [discriminate|congruence]); try tauto.
  rewrite andb_true_iff, N.eqb_eq, IH. split; [intros [-> ->]; reflexivity|intros H; inversion H; auto].
Qed.
Lemma str_eqb_refl a : str_eqb a a = true.
Proof. apply str_eqb_eq; reflexivity. Qed.
Lemma str_eqb_neq a b : str_eqb a b = false <-> a <> b.
Proof. rewrite <- str_eqb_eq. destruct (str_eqb a b); split; congruence. Qed.
Lemma str_eqb_sym a b : str_eqb a b = str_eqb b a.
Proof.
  destruct (str_eqb a b) eqn:E1, (str_eqb b a) eqn:E2; auto.
  - apply str_eqb_eq in E1; subst. rewrite str_eqb_refl in E2; discriminate.
  - apply str_eqb_eq in E2; subst. rewrite str_eqb_refl in E1; discriminate.
Qed.

Lemma tags_eqb_eq a b : tags_eqb a b = true <-> a = b.
Proof.
  revert b; induction a as [|[k v] a IH]; intros [|[k' v'] b]; cbn; try (split; [discriminate|congruence]); try tauto.
  rewrite !andb_true_iff, !str_eqb_eq, IH. split; [intros [[-> ->] ->]; reflexivity|intros H; inversion H; auto].
Qed.

Lemma series_eqb_eq a b : series_eqb a b = true <-> a = b.
Proof.
  destruct a as [m t], b as [m' t']; unfold series_eqb; cbn.
  rewrite andb_true_iff, str_eqb_eq, tags_eqb_eq. split; [intros [-> ->]; reflexivity|intros H; inversion H; auto].
Qed.
Lemma series_eqb_refl a : series_eqb a a = true.
Proof. apply series_eqb_eq; reflexivity. Qed.

Lemma row_eqb_eq a b : row_eqb a b = true <-> a = b.
Proof.
  revert b; induction a as [|x a IH]; intros [|y b]; cbn; try (split; [discriminate|congruence]); try tauto.
  rewrite andb_true_iff, str_eqb_eq, IH. split; [intros [-> ->]; reflexivity|intros H; inversion H; auto].
Qed.

Lemma pr2_eqb_eq {A B} (ea : A -> A -> bool) (eb : B -> B -> bool) :
  (forall x y, ea x y = true <-> x = y) -> (forall x y, eb x y = true <-> x = y) ->
  forall x y, pr2_eqb ea eb x y = true <-> x = y.
Proof.
  intros Ha Hb [a b] [a' b']; unfold pr2_eqb; cbn. rewrite andb_true_iff, Ha, Hb.
  split; [intros [-> ->]; reflexivity|intros H; inversion H; auto].
Qed.

Lemma mi_eqb_eq x y : mi_eqb x y = true <-> x = y.
Proof. apply pr2_eqb_eq; [apply str_eqb_eq|apply N.eqb_eq]. Qed.
Lemma mk_eqb_eq x y : mk_eqb x y = true <-> x = y.
Proof. apply pr2_eqb_eq; apply str_eqb_eq. Qed.
Lemma mkv_eqb_eq x y : mkv_eqb x y = true <-> x = y.
Proof. apply pr2_eqb_eq; [apply mk_eqb_eq|apply str_eqb_eq]. Qed.
Lemma mkvi_eqb_eq x y : mkvi_eqb x y = true <-> x = y.
Proof. apply pr2_eqb_eq; [apply mkv_eqb_eq|apply N.eqb_eq]. Qed.
Lemma pair_eqb_eq x y : pair_eqb x y = true <-> x = y.
Proof.
  destruct x as [a s], y as [b t]; unfold pair_eqb; cbn. rewrite andb_true_iff, Nat.eqb_eq, series_eqb_eq.
  split; [intros [-> ->]; reflexivity|intros H; inversion H; auto].
Qed.

(* ---------- sets as lists ---------- *)

Section SetLemmas.
  Context {A : Type} (eqb : A -> A -> bool).
  Hypothesis Heq : forall x y, eqb x y = true <-> x = y.

  Lemma eqb_refl x : eqb x x = true.
  Proof. apply Heq; reflexivity. Qed.

  Lemma eqb_false x y : eqb x y = false <-> x <> y.
  Proof. rewrite <- Heq. destruct (eqb x y); split; congruence. Qed.

  Lemma memb_In x l : memb eqb x l = true <-> In x l.
  Proof.
    unfold memb. rewrite existsb_exists. split.
    - intros [y [Hy E]]. apply Heq in E. subst. exact Hy.
    - intros H. exists x. split; [exact H|apply eqb_refl].
  Qed.

  Lemma memb_false x l : memb eqb x l = false <-> ~ In x l.
  Proof. rewrite <- memb_In. destruct (memb eqb x l); split; congruence. Qed.

  Lemma In_sadd x y l : In y (sadd eqb x l) <-> y = x \/ In y l.
  Proof.
    unfold sadd. destruct (memb eqb x l) eqn:E.
    - apply memb_In in E. split; [auto|]. intros [->|H]; auto.
    - cbn. split; intros [H|H]; auto.
  Qed.

  Lemma In_sremove x y l : In y (sremove eqb x l) <-> In y l /\ y <> x.
  Proof.
    unfold sremove. rewrite filter_In, negb_true_iff, eqb_false. split; intros [H1 H2]; split; auto.
  Qed.

  Lemma In_sunion y a b : In y (sunion eqb a b) <-> In y a \/ In y b.
  Proof.
    unfold sunion. induction a as [|x a IH]; cbn; [tauto|]. rewrite In_sadd, IH.
    split; [intros [->|[H|H]]; auto|intros [[<-|H]|H]; auto].
  Qed.

  Lemma In_sinter y a b : In y (sinter eqb a b) <-> In y a /\ In y b.
  Proof. unfold sinter. rewrite filter_In, memb_In. tauto. Qed.

  Lemma In_sdiff y a b : In y (sdiff eqb a b) <-> In y a /\ ~ In y b.
  Proof. unfold sdiff. rewrite filter_In, negb_true_iff, memb_false. tauto. Qed.

  Lemma In_dedup y l : In y (dedup eqb l) <-> In y l.
  Proof.
    induction l as [|x l IH]; cbn; [tauto|]. rewrite In_sadd, IH. split; intros [H|H]; auto.
  Qed.

  Lemma NoDup_sadd x l : NoDup l -> NoDup (sadd eqb x l).
  Proof.
    intros H. unfold sadd. destruct (memb eqb x l) eqn:E; [exact H|].
    constructor; [apply memb_false; exact E|exact H].
  Qed.

  Lemma NoDup_dedup l : NoDup (dedup eqb l).
  Proof. induction l as [|x l IH]; cbn; [constructor|apply NoDup_sadd; exact IH]. Qed.

  Lemma NoDup_filter (f : A -> bool) l : NoDup l -> NoDup (filter f l).
  Proof.
    induction 1 as [|x l Hx Hl IH]; cbn; [constructor|].
    destruct (f x); [constructor; [rewrite filter_In; tauto|exact IH]|exact IH].
  Qed.

  Lemma NoDup_sunion a b : NoDup b -> NoDup (sunion eqb a b).
  Proof. intros H. unfold sunion. induction a as [|x a IH]; cbn; [exact H|apply NoDup_sadd; exact IH]. Qed.

  Lemma subsetb_incl a b : subsetb eqb a b = true <-> incl a b.
  Proof.
    unfold subsetb, incl. rewrite forallb_forall. split; intros H x Hx; [apply memb_In|apply memb_In]; auto.
  Qed.

  Lemma nodupb_NoDup l : nodupb eqb l = true <-> NoDup l.
  Proof.
    induction l as [|x l IH]; cbn.
    - split; [constructor|reflexivity].
    - rewrite andb_true_iff, negb_true_iff, memb_false, IH. split.
      + intros [H1 H2]; constructor; assumption.
      + intros H; inversion H; subst; auto.
  Qed.

  Lemma set_eqb_true obs exp :
    set_eqb eqb obs exp = true <-> NoDup obs /\ (forall x, In x obs <-> In x exp).
  Proof.
    unfold set_eqb. rewrite !andb_true_iff, nodupb_NoDup, !subsetb_incl. unfold incl.
    split; [intros [[H1 H2] H3]; split; [exact H1|intros x; split; auto]|].
    intros [H1 H2]. split; [split; [exact H1|]|]; intros x Hx; apply H2; exact Hx.
  Qed.
End SetLemmas.

Lemma In_iunion i a b : In i (iunion a b) <-> In i a \/ In i b.
Proof. apply In_sunion. apply N.eqb_eq. Qed.
Lemma In_iinter i a b : In i (iinter a b) <-> In i a /\ In i b.
Proof. apply In_sinter. apply N.eqb_eq. Qed.
Lemma In_idiff i a b : In i (idiff a b) <-> In i a /\ ~ In i b.
Proof. apply In_sdiff. apply N.eqb_eq. Qed.

Lemma In_iunions i ls : In i (iunions ls) <-> exists l, In l ls /\ In i l.
Proof.
  unfold iunions. induction ls as [|l ls IH]; cbn.
  - split; [tauto|intros [l [[] _]]].
  - rewrite In_iunion, IH. split.
    + intros [H|[l' [H1 H2]]]; [exists l; auto|exists l'; auto].
    + intros [l' [[<-|H1] H2]]; [auto|right; exists l'; auto].
Qed.

Lemma In_sunions x ls : In x (sunions ls) <-> exists l, In l ls /\ In x l.
Proof.
  unfold sunions. induction ls as [|l ls IH]; cbn.
  - split; [tauto|intros [l [[] _]]].
  - rewrite (In_sunion str_eqb str_eqb_eq), IH. split.
    + intros [H|[l' [H1 H2]]]; [exists l; auto|exists l'; auto].
    + intros [l' [[<-|H1] H2]]; [auto|right; exists l'; auto].
Qed.

Lemma NoDup_iunions ls : NoDup (iunions ls).
Proof.
  unfold iunions. induction ls as [|l ls IH]; cbn; [constructor|].
  apply (NoDup_sunion N.eqb N.eqb_eq). exact IH.
Qed.

Lemma is_nil_true {A} (l : list A) : is_nil l = true <-> l = [].
Proof. destruct l; cbn; split; congruence. Qed.
Lemma is_nil_false {A} (l : list A) : is_nil l = false <-> exists x, In x l.
Proof.
  destruct l as [|x l]; cbn.
  - split; [discriminate|intros [x []]].
  - split; [intros _; exists x; auto|reflexivity].
Qed.

Lemma existsb_false {A} (f : A -> bool) l : existsb f l = false <-> forall x, In x l -> f x = false.
Proof.
  induction l as [|y l IH]; cbn; [split; [intros _ x []|reflexivity]|].
  rewrite orb_false_iff, IH. split.
  - intros [H1 H2] x [<-|H]; auto.
  - intros H; split; [apply H; auto|intros x Hx; apply H; auto].
Qed.

(* ---------- flag lists ---------- *)

Section FlagLemmas.
  Context {K : Type} (eqb : K -> K -> bool).
  Hypothesis Heq : forall x y, eqb x y = true <-> x = y.

  Lemma flag_get_set k k' b l :
    flag_get eqb k' (flag_set eqb k b l) = if eqb k' k then Some b else flag_get eqb k' l.
  Proof.
    unfold flag_set. cbn. destruct (eqb k' k) eqn:E; [reflexivity|].
    induction l as [|[k0 b0] l IH]; cbn; [reflexivity|].
    destruct (eqb k k0) eqn:E0; cbn.
    - apply Heq in E0; subst. rewrite E. exact IH.
    - destruct (eqb k' k0); [reflexivity|exact IH].
  Qed.

  Lemma flag_get_ensure k k' l :
    flag_get eqb k' (flag_ensure eqb k l) =
    match flag_get eqb k' l with Some b => Some b | None => if eqb k' k then Some false else None end.
  Proof.
    unfold flag_ensure. destruct (flag_get eqb k l) eqn:E.
    - destruct (flag_get eqb k' l) eqn:E'; [reflexivity|].
      destruct (eqb k' k) eqn:Ek; [|reflexivity]. apply Heq in Ek; subst. congruence.
    - cbn. destruct (eqb k' k) eqn:Ek.
      + apply Heq in Ek; subst. rewrite E. reflexivity.
      + destruct (flag_get eqb k' l); reflexivity.
  Qed.

  Lemma flag_get_some_in k b l : flag_get eqb k l = Some b -> In (k, b) l.
  Proof.
    induction l as [|[k0 b0] l IH]; cbn; [discriminate|].
    destruct (eqb k k0) eqn:E.
    - apply Heq in E; subst. intros H; inversion H; auto.
    - auto.
  Qed.

  Lemma flag_get_none k l : flag_get eqb k l = None <-> ~ In k (map fst l).
  Proof.
    induction l as [|[k0 b0] l IH]; cbn; [tauto|].
    destruct (eqb k k0) eqn:E.
    - apply Heq in E; subst. split; [discriminate|intros H; exfalso; auto].
    - rewrite IH. assert (k0 <> k) by (intros ->; rewrite (proj2 (Heq k k) eq_refl) in E; discriminate). tauto.
  Qed.

  Lemma flag_get_filter k (f : K * bool -> bool) l :
    (forall b, f (k, b) = true) -> flag_get eqb k (filter f l) = flag_get eqb k l.
  Proof.
    intros Hf. induction l as [|[k0 b0] l IH]; cbn; [reflexivity|].
    destruct (eqb k k0) eqn:E.
    - apply Heq in E; subst. rewrite Hf. cbn. rewrite (proj2 (Heq k0 k0) eq_refl). reflexivity.
    - destruct (f (k0, b0)); cbn; [rewrite E|]; exact IH.
  Qed.
End FlagLemmas.
