(* C14/ProofsTsAns.v — every answer of the TSI store model is the projection of the abstract set. *)
From Coq Require Import Permutation.
From Verif Require Import C14.Spec C14.Model C14.ProofsBase C14.ProofsQuery C14.ProofsSfile
     C14.ProofsLsmA C14.ProofsLsmB C14.ProofsLsmC C14.ProofsLsmD C14.ProofsLsmE C14.ProofsLsmH C14.ProofsConv C14.ProofsTs.

(* ---------- counting ---------- *)

Lemma NoDup_map_inj_on {A B} (f : A -> B) l :
  (forall x y, In x l -> In y l -> f x = f y -> x = y) -> NoDup l -> NoDup (map f l).
Proof.
  intros Hinj Hnd. induction Hnd as [|x l Hx Hl IH]; cbn; [constructor|].
  constructor; [|apply IH; intros a b Ha Hb; apply Hinj; cbn; auto].
  intros Hin. apply in_map_iff in Hin. destruct Hin as [y [E Hy]].
  assert (y = x) by (apply Hinj; cbn; auto). subst. contradiction.
Qed.

Lemma card_eq sf (L : list id) (U : list series) :
  NoDup L -> NoDup U ->
  (forall i, In i L -> exists s, sf_key sf i = Some s /\ In s U) ->
  (forall s, In s U -> exists i, In i L /\ sf_key sf i = Some s) ->
  (forall i j s, In i L -> In j L -> sf_key sf i = Some s -> sf_key sf j = Some s -> i = j) ->
  length L = length U.
Proof.
  intros HL HU Hl Hc Hinj.
  set (f := fun i => match sf_key sf i with Some s => s | None => ([], []) end).
  rewrite <- (map_length f L). apply Permutation_length. apply NoDup_Permutation; [|exact HU|].
  - apply NoDup_map_inj_on; [|exact HL]. intros i j Hi Hj E. unfold f in E.
    destruct (Hl i Hi) as [s [Ki _]], (Hl j Hj) as [s' [Kj _]]. rewrite Ki, Kj in E. subst. eapply Hinj; eauto.
  - intros s. rewrite in_map_iff. split.
    + intros [i [E Hi]]. destruct (Hl i Hi) as [s' [Ki HU']]. unfold f in E. rewrite Ki in E. subst. exact HU'.
    + intros Hs. destruct (Hc s Hs) as [i [Hi Ki]]. exists i. split; [unfold f; rewrite Ki; reflexivity|exact Hi].
Qed.

Lemma list_as_map {A} (l : list A) d : l = map (fun k => nth (k - 1) l d) (seq 1 (length l)).
Proof.
  induction l as [|x l IH]; cbn [length seq map]; [reflexivity|]. cbn [Nat.sub nth]. f_equal.
  rewrite <- seq_shift, map_map. rewrite IH at 1. apply map_ext_in. intros k Hk. apply in_seq in Hk.
  destruct k as [|k]; [lia|]. cbn. rewrite Nat.sub_0_r. reflexivity.
Qed.

Section Answers.
  Variable rx : str -> str -> bool.
  Variable n : nat.
  Variables (A : sstate) (st : tstate).
  Hypothesis OK : ts_ok n A st.

  Let sf := ts_sf st.
  Let L := iunions (map t_sids (ts_sh st)).
  Let U := db_set A.
  Let db := merge_prims (map tsi_prims (ts_sh st)).

  Lemma In_shards t : In t (ts_sh st) <-> exists sh, valid_shard n sh = true /\ t = ts_get st sh.
  Proof.
    pose proof (tk_len _ _ _ OK) as Hl. split.
    - intros H. destruct (In_ts_sh st t H) as [sh [Hv E]]. rewrite Hl in Hv. eauto.
    - intros [sh [Hv ->]]. apply ts_get_In. rewrite Hl. exact Hv.
  Qed.

  Lemma In_L i : In i L <-> exists sh, valid_shard n sh = true /\ In i (t_sids (ts_get st sh)).
  Proof.
    unfold L. rewrite In_iunions. split.
    - intros [l [Hl Hi]]. apply in_map_iff in Hl. destruct Hl as [t [<- Ht]]. apply In_shards in Ht.
      destruct Ht as [sh [Hv ->]]. eauto.
    - intros [sh [Hv Hi]]. exists (t_sids (ts_get st sh)). split; [apply in_map_iff; exists (ts_get st sh); split; [reflexivity|apply In_shards; eauto]|exact Hi].
  Qed.

  Lemma In_U s : In s U <-> exists sh, valid_shard n sh = true /\ In s (shard_set A sh).
  Proof.
    unfold U. rewrite In_db_set. split.
    - intros [sh H]. exists sh. split; [apply (tk_A _ _ _ OK sh s H)|apply In_shard_set; exact H].
    - intros [sh [_ H]]. exists sh. apply In_shard_set. exact H.
  Qed.

  Lemma sh_ref sh : valid_shard n sh = true ->
    refines (tsi_prims (ts_get st sh)) sf (t_sids (ts_get st sh)) (shard_set A sh).
  Proof. intros Hv. apply (shard_refines n A st sh OK Hv). Qed.

  Lemma in_merged {B} (g : prims -> list B) (P : B -> Prop) :
    (forall x, (exists l, In l (map g (map tsi_prims (ts_sh st))) /\ In x l) <->
               exists sh, valid_shard n sh = true /\ In x (g (tsi_prims (ts_get st sh)))).
  Proof.
    intros x. split.
    - intros [l [Hl Hx]]. rewrite map_map in Hl. apply in_map_iff in Hl. destruct Hl as [t [<- Ht]].
      apply In_shards in Ht. destruct Ht as [sh [Hv ->]]. eauto.
    - intros [sh [Hv Hx]]. exists (g (tsi_prims (ts_get st sh))). split; [|exact Hx].
      rewrite map_map. apply in_map_iff. exists (ts_get st sh). split; [reflexivity|apply In_shards; eauto].
  Qed.

  Theorem db_refines : refines db sf L U.
  Proof.
    assert (Hlive : forall i s, live sf L i s -> exists sh, valid_shard n sh = true /\ live sf (t_sids (ts_get st sh)) i s).
    { intros i s [Hi Hk]. apply In_L in Hi. destruct Hi as [sh [Hv Hi]]. exists sh. split; [exact Hv|split; assumption]. }
    assert (Hlive' : forall sh i s, valid_shard n sh = true -> live sf (t_sids (ts_get st sh)) i s -> live sf L i s).
    { intros sh i s Hv [Hi Hk]. split; [apply In_L; eauto|exact Hk]. }
    constructor.
    - intros s Hs. apply In_U in Hs. destruct Hs as [sh [Hv Hs]]. apply (r_wf _ _ _ _ (sh_ref sh Hv) s Hs).
    - intros i Hi. apply In_L in Hi. destruct Hi as [sh [Hv Hi]].
      destruct (r_live _ _ _ _ (sh_ref sh Hv) i Hi) as [s [H1 [H2 H3]]]. exists s. ssplit; auto. apply In_U. eauto.
    - intros s Hs. apply In_U in Hs. destruct Hs as [sh [Hv Hs]].
      destruct (r_cover _ _ _ _ (sh_ref sh Hv) s Hs) as [i [H1 H2]]. exists i. split; [apply In_L; eauto|exact H2].
    - intros m i. unfold db. cbn [merge_prims p_mseries]. rewrite In_iunions, (in_merged (fun p => p_mseries p m) (fun _ => True)). split.
      + intros [sh [Hv Hi]]. apply (r_mseries _ _ _ _ (sh_ref sh Hv)) in Hi. destruct Hi as [s [Hl Hm]]. exists s. eauto.
      + intros [s [Hl Hm]]. destruct (Hlive i s Hl) as [sh [Hv Hl']]. exists sh. split; [exact Hv|].
        apply (r_mseries _ _ _ _ (sh_ref sh Hv)). eauto.
    - intros m k i. unfold db. cbn [merge_prims p_kseries]. rewrite In_iunions, (in_merged (fun p => p_kseries p m k) (fun _ => True)). split.
      + intros [sh [Hv Hi]]. apply (r_kseries _ _ _ _ (sh_ref sh Hv)) in Hi. destruct Hi as [s [Hl Hm]]. exists s. eauto.
      + intros [s [Hl Hm]]. destruct (Hlive i s Hl) as [sh [Hv Hl']]. exists sh. split; [exact Hv|].
        apply (r_kseries _ _ _ _ (sh_ref sh Hv)). eauto.
    - intros m k v i. unfold db. cbn [merge_prims p_vseries]. rewrite In_iunions, (in_merged (fun p => p_vseries p m k v) (fun _ => True)). split.
      + intros [sh [Hv Hi]]. apply (r_vseries _ _ _ _ (sh_ref sh Hv)) in Hi. destruct Hi as [s [Hl Hm]]. exists s. eauto.
      + intros [s [Hl Hm]]. destruct (Hlive i s Hl) as [sh [Hv Hl']]. exists sh. split; [exact Hv|].
        apply (r_vseries _ _ _ _ (sh_ref sh Hv)). eauto.
    - intros s k v Hs Hin. apply In_U in Hs. destruct Hs as [sh [Hv Hs]]. unfold db. cbn [merge_prims p_vals].
      apply In_sunions. apply (in_merged (fun p => p_vals p (fst s) k) (fun _ => True)). exists sh. split; [exact Hv|].
      eapply (r_vals _ _ _ _ (sh_ref sh Hv)); eauto.
    - intros s k v Hs Hin. apply In_U in Hs. destruct Hs as [sh [Hv Hs]]. unfold db. cbn [merge_prims p_keys].
      apply In_sunions. apply (in_merged (fun p => p_keys p (fst s)) (fun _ => True)). exists sh. split; [exact Hv|].
      eapply (r_keys _ _ _ _ (sh_ref sh Hv)); eauto.
    - intros s k v Hs Hin. apply In_U in Hs. destruct Hs as [sh [Hv Hs]]. unfold db. cbn [merge_prims p_has_key].
      apply existsb_exists. exists (tsi_prims (ts_get st sh)). split; [apply in_map_iff; exists (ts_get st sh); split; [reflexivity|apply In_shards; eauto]|].
      eapply (r_haskey _ _ _ _ (sh_ref sh Hv)); eauto.
    - intros m. unfold db. cbn [merge_prims p_meas]. rewrite In_sunions, (in_merged p_meas (fun _ => True)). split.
      + intros [sh [Hv Hm]]. apply (r_meas _ _ _ _ (sh_ref sh Hv)) in Hm. destruct Hm as [s [Hs E]]. exists s. split; [apply In_U; eauto|exact E].
      + intros [s [Hs E]]. apply In_U in Hs. destruct Hs as [sh [Hv Hs]]. exists sh. split; [exact Hv|].
        apply (r_meas _ _ _ _ (sh_ref sh Hv)). eauto.
  Qed.

  Lemma In_dedup_rows r l : In r (dedup row_eqb l) <-> In r l.
  Proof. apply (In_dedup row_eqb row_eqb_eq). Qed.

  Lemma shard_card sh : valid_shard n sh = true -> length (t_sids (ts_get st sh)) = length (shard_set A sh).
  Proof.
    intros Hv. pose proof (tk_shard _ _ _ OK sh Hv) as [O _ _ _]. fold sf in O.
    apply (card_eq sf); [apply (io_nodup _ _ _ O)|apply NoDup_shard_set| | |].
    - intros i Hi. destruct (io_live _ _ _ O i Hi) as [s [H1 [_ H3]]]. eauto.
    - apply (io_cover _ _ _ O).
    - intros i j s Hi Hj Ki Kj. destruct (io_live _ _ _ O i Hi) as [s1 [K1 [D1 _]]], (io_live _ _ _ O j Hj) as [s2 [K2 [D2 _]]].
      apply (sf_live_unique sf (tk_sf _ _ _ OK) i j s); auto.
  Qed.

  Theorem ts_answer_ok q : wf_query n q = true -> answer_equiv (ts_answer rx st q) (spec_answer rx n A q).
  Proof.
    intros Hq. pose proof db_refines as R. pose proof (tk_sf _ _ _ OK) as Isf. fold sf in Isf.
    destruct q as [c|m c|m k c|m c|sh m c|sh bsz small m c| | ]; cbn [ts_answer spec_answer answer_equiv]; fold sf db U.
    - (* names *)
      destruct c as [p|]; cbn [answer_equiv]; intros r; rewrite In_dedup_rows, !in_map_iff;
        split; intros [m [E H]]; exists m; (split; [exact E|]).
      + apply (q_names_ok rx db sf L U R (Some p) m); exact H.
      + apply (q_names_ok rx db sf L U R (Some p) m); exact H.
      + apply (q_names_ok rx db sf L U R None m); exact H.
      + apply (q_names_ok rx db sf L U R None m); exact H.
    - intros r. rewrite !In_dedup_rows. apply (q_tagkeys_ok rx db sf L U R).
    - intros r. rewrite !In_dedup_rows. apply (q_tagvals_ok rx db sf L U R).
    - intros r. rewrite In_dedup_rows. apply (q_series_ok rx db sf L U R).
    - cbn [wf_query] in Hq. intros r. rewrite In_dedup_rows. apply (q_series_ok rx _ sf _ _ (sh_ref sh Hq)).
    - (* the shard converted offline *)
      cbn [wf_query] in Hq. apply andb_true_iff in Hq. destruct Hq as [Hv Hb]. apply Nat.leb_le in Hb.
      set (keys := map snd (filter (fun p => Nat.eqb (fst p) sh) (ts_data st))).
      assert (Hkeys : forall s, In s keys <-> In (sh, s) A).
      { intros s. unfold keys. rewrite in_map_iff. split.
        - intros [[sh' s'] [E H]]. cbn in E. subst s'. apply filter_In in H. destruct H as [H Es]. cbn in Es.
          apply Nat.eqb_eq in Es. subst sh'. apply (tk_data _ _ _ OK). exact H.
        - intros H. exists (sh, s). split; [reflexivity|]. apply filter_In. split; [apply (tk_data _ _ _ OK); exact H|].
          cbn. apply Nat.eqb_refl. }
      pose proof (conv_lists_keys rx sf keys bsz small (shard_set A sh) m c Isf) as HC.
      destruct (cv_index sf keys bsz small) as [sf' t]. cbn [fst snd answer_equiv] in *.
      intros r. rewrite In_dedup_rows. apply HC; [| |exact Hb].
      + intros s Hs. apply Hkeys in Hs. apply (tk_A _ _ _ OK sh s Hs).
      + intros s. rewrite In_shard_set, Hkeys. tauto.
    - (* cardinalities *)
      f_equal.
      + f_equal. fold L. apply (card_eq sf); [apply NoDup_iunions|apply NoDup_db_set| | |].
        * intros i Hi. destruct (r_live _ _ _ _ R i Hi) as [s [H1 [H2 _]]]. eauto.
        * apply (r_cover _ _ _ _ R).
        * intros i j s Hi Hj Ki Kj. destruct (r_live _ _ _ _ R i Hi) as [s1 [K1 [_ D1]]], (r_live _ _ _ _ R j Hj) as [s2 [K2 [_ D2]]].
          apply (sf_live_unique sf Isf i j s); auto.
      + rewrite (list_as_map (ts_sh st) tsi_empty) at 1. rewrite (tk_len _ _ _ OK), map_map.
        apply map_ext_in. intros sh Hsh. apply In_seq_valid in Hsh. f_equal. apply (shard_card sh Hsh).
    - (* series file listing *)
      intros r. rewrite In_dedup_rows, !in_map_iff. split; intros [s [E H]]; exists s; (split; [exact E|]).
      + apply In_keys_of in H. destruct H as [i [Hi Hk]]. apply filter_In in Hi. destruct Hi as [_ Hd]. apply negb_true_iff in Hd.
        destruct (tk_sfl _ _ _ OK i s Hk Hd) as [sh [Hv Hin]]. destruct (r_live _ _ _ _ (sh_ref sh Hv) i Hin) as [s' [K' [HS _]]].
        fold sf in Hk. rewrite Hk in K'. inversion K'; subst. apply In_U. eauto.
      + destruct (r_cover _ _ _ _ R s H) as [i [Hi Hk]]. destruct (r_live _ _ _ _ R i Hi) as [s' [K' [_ Hd]]].
        apply In_keys_of. exists i. split; [|exact Hk]. apply filter_In. split; [|rewrite Hd; reflexivity].
        unfold sf_ids. apply (In_dedup N.eqb N.eqb_eq). apply in_map_iff. exists (i, s). split; [reflexivity|].
        apply (sf_key_In sf Isf). exact Hk.
  Qed.
End Answers.

Theorem lsm_refines_set_proof rx n ops q :
  wf_ops ops = true -> wf_query n q = true ->
  answer_equiv (ts_answer rx (ts_run rx n ops) q) (spec_answer rx n (run_spec rx n ops) q).
Proof. intros Hw Hq. apply ts_answer_ok; [apply ts_run_ok; exact Hw|exact Hq]. Qed.
