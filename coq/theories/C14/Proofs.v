(* C14/Proofs.v — assembly: both index models refine the abstract series set for every history and
   every query; compactions do not change any answer; the two index types agree; and the
   executable link: the model's answers satisfy the executable spec of Run.v for every input. *)
From Verif Require Import C14.Spec C14.Model C14.Run C14.ProofsBase C14.ProofsQuery C14.ProofsSfile
     C14.ProofsLsmA C14.ProofsLsmF C14.ProofsTs C14.ProofsTsAns C14.ProofsInmem3 C14.ProofsInmemAns.

Lemma answer_equiv_sym a b : answer_equiv a b -> answer_equiv b a.
Proof. destruct a, b; cbn; try tauto; [intros H r; symmetry; apply H|intros ->; reflexivity]. Qed.

Lemma answer_equiv_trans a b c : answer_equiv a b -> answer_equiv b c -> answer_equiv a c.
Proof.
  destruct a, b, c; cbn; try tauto; [intros H1 H2 r; rewrite H1; apply H2|intros -> ->; reflexivity].
Qed.

(* ---------- the three theorems and the corollary ---------- *)

Definition inmem_refines := inmem_refines_set_proof.
Definition lsm_refines := lsm_refines_set_proof.

Lemma run_spec_snoc rx n ops o : run_spec rx n (ops ++ [o]) = apply_op rx n (run_spec rx n ops) o.
Proof. unfold run_spec. rewrite fold_left_app. reflexivity. Qed.

Definition is_compaction (o : op) : bool :=
  match o with OCompactLog _ | OCompactLevel _ _ | OSfCompact | OSnapshot _ | OSfRoll | OReopen => true | _ => false end.

Lemma compaction_view rx n ops o q :
  wf_ops ops = true -> wf_query n q = true -> is_compaction o = true ->
  answer_equiv (ts_answer rx (ts_run rx n (ops ++ [o])) q) (ts_answer rx (ts_run rx n ops) q) /\
  answer_equiv (is_answer rx (is_run rx n (ops ++ [o])) q) (is_answer rx (is_run rx n ops) q).
Proof.
  intros Hw Hq Hc.
  assert (Hw' : wf_ops (ops ++ [o]) = true).
  { unfold wf_ops. rewrite forallb_app. fold (wf_ops ops). rewrite Hw. destruct o; cbn in *; try discriminate; reflexivity. }
  assert (Hs : run_spec rx n (ops ++ [o]) = run_spec rx n ops) by (rewrite run_spec_snoc; destruct o; cbn in *; try discriminate; reflexivity).
  split.
  - eapply answer_equiv_trans; [apply (lsm_refines rx n (ops ++ [o]) q Hw' Hq)|]. rewrite Hs.
    apply answer_equiv_sym. apply (lsm_refines rx n ops q Hw Hq).
  - eapply answer_equiv_trans; [apply (inmem_refines rx n (ops ++ [o]) q Hw' Hq)|]. rewrite Hs.
    apply answer_equiv_sym. apply (inmem_refines rx n ops q Hw Hq).
Qed.

Lemma inmem_eq_lsm_proof rx n ops q :
  wf_ops ops = true -> wf_query n q = true ->
  answer_equiv (is_answer rx (is_run rx n ops) q) (ts_answer rx (ts_run rx n ops) q).
Proof.
  intros Hw Hq. eapply answer_equiv_trans; [apply (inmem_refines rx n ops q Hw Hq)|].
  apply answer_equiv_sym. apply (lsm_refines rx n ops q Hw Hq).
Qed.

(* ---------- the next series id survives a restart, whatever segment files there are ---------- *)

Lemma next_id_recovery rx n ops :
  wf_ops ops = true ->
  let sft := ts_sf (ts_run rx n ops) in
  let sfi := is_sf (is_run rx n ops) in
  (sf_reopen sft = sft /\ forall i s, sf_key sft i = Some s -> (i < seg_recover (sf_segs sft))%N) /\
  (sf_reopen sfi = sfi /\ forall i s, sf_key sfi i = Some s -> (i < seg_recover (sf_segs sfi))%N).
Proof.
  intros Hw. cbv zeta. pose proof (tk_sf _ _ _ (ts_run_ok rx n ops Hw)) as It. pose proof (ik_sf _ _ _ (is_run_ok rx n ops Hw)) as Ii.
  split; (split; [apply sf_reopen_id; assumption|]); intros i s Hk.
  - rewrite (si_segs _ It). eapply sf_key_bound; eauto.
  - rewrite (si_segs _ Ii). eapply sf_key_bound; eauto.
Qed.

(* ---------- the executable link ---------- *)

Lemma nlist_eqb_refl l : nlist_eqb l l = true.
Proof. induction l as [|x l IH]; cbn; [reflexivity|rewrite N.eqb_refl; exact IH]. Qed.

Definition answer_nodup (a : answer) : Prop := match a with ARows l => NoDup l | _ => True end.

Lemma answer_eqb_of_equiv a b : answer_nodup a -> answer_equiv a b -> answer_eqb a b = true.
Proof.
  destruct a as [l| |], b as [l'| |]; cbn; try tauto.
  - intros Hnd H. apply (set_eqb_true row_eqb row_eqb_eq). auto.
  - intros _ ->. apply nlist_eqb_refl.
Qed.

Lemma ts_answer_nodup rx st q : answer_nodup (ts_answer rx st q).
Proof.
  destruct q as [c|m c|m k c|m c|sh m c|sh bsz small m c| | ]; cbn [ts_answer answer_nodup]; try exact Logic.I;
    try (destruct (cv_index _ _ _ _)); apply (NoDup_dedup row_eqb row_eqb_eq).
Qed.

Lemma is_answer_nodup rx st q : answer_nodup (is_answer rx st q).
Proof.
  destruct q as [c|m c|m k c|m c|sh m c|sh bsz small m c| | ]; cbn [is_answer answer_nodup]; try exact Logic.I;
    try (destruct (cv_index _ _ _ _)); apply (NoDup_dedup row_eqb row_eqb_eq).
Qed.

Lemma answer_eqb_refl a : answer_nodup a -> a <> AErr -> answer_eqb a a = true.
Proof.
  destruct a as [l| |]; cbn; [|intros; apply nlist_eqb_refl|congruence].
  intros Hnd _. apply (set_eqb_true row_eqb row_eqb_eq). split; [exact Hnd|tauto].
Qed.

(* for every input, the model's answers satisfy the executable spec of Run.v:
   the check of a case whose observations are the model's own answers returns code 0 *)
Lemma model_satisfies_spec n tab ops q cmp :
  wf_ops ops = true -> wf_query n q = true ->
  let rx := rx_of tab in
  check_case (Case n tab ops q cmp (is_answer rx (is_run rx n ops) q) (ts_answer rx (ts_run rx n ops) q)) = 0%N.
Proof.
  intros Hw Hq rx. cbn [check_case]. fold rx. rewrite Hw, Hq.
  assert (E1 : answer_eqb (is_answer rx (is_run rx n ops) q) (spec_answer rx n (run_spec rx n ops) q) = true)
    by (apply answer_eqb_of_equiv; [apply is_answer_nodup|apply inmem_refines; assumption]).
  assert (E2 : answer_eqb (ts_answer rx (ts_run rx n ops) q) (spec_answer rx n (run_spec rx n ops) q) = true)
    by (apply answer_eqb_of_equiv; [apply ts_answer_nodup|apply lsm_refines; assumption]).
  assert (R1 : answer_eqb (is_answer rx (is_run rx n ops) q) (is_answer rx (is_run rx n ops) q) = true).
  { apply answer_eqb_refl; [apply is_answer_nodup|]. destruct q; cbn [is_answer]; try (destruct (cv_index _ _ _ _)); discriminate. }
  assert (R2 : answer_eqb (ts_answer rx (ts_run rx n ops) q) (ts_answer rx (ts_run rx n ops) q) = true).
  { apply answer_eqb_refl; [apply ts_answer_nodup|]. destruct q; cbn [ts_answer]; try (destruct (cv_index _ _ _ _)); discriminate. }
  rewrite E1, E2, R1, R2. cbn. rewrite !orb_true_r. reflexivity.
Qed.
