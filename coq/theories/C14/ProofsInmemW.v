(* C14/ProofsInmemW.v — the in-memory index while measurements are dirty: Store.DeleteShard calls
   Index.DropSeriesGlobal without a following Index.Rebuild, so tag entries of dropped series
   linger (their ids are deleted in the series file).  [tv_weak] is what holds of the tag entries
   then; it is kept by every step, and it is all the query layer needs (ProofsClean). *)
From Verif Require Import C14.Spec C14.Model C14.ProofsBase C14.ProofsQuery C14.ProofsSfile
     C14.ProofsLsmA C14.ProofsLsmB C14.ProofsLsmD C14.ProofsInmem C14.ProofsInmem2.

(* with no dirty measurement the tag entries are exact *)
Lemma tv_weak_of_clean sf L ix : ix_ok sf L ix -> ix_dirty ix = [] -> tv_weak sf L ix.
Proof.
  intros X Hcl. assert (Hnd : forall m, ~ In m (ix_dirty ix)) by (intros m; rewrite Hcl; tauto).
  constructor.
  - intros m k v i s Hi Hk Hm Hkv. apply (xo_tv _ _ _ X m k v i (Hnd m)). split; [exact Hi|exists s; auto].
  - intros m k v i Hin. left. apply (xo_tv _ _ _ X m k v i (Hnd m)). exact Hin.
Qed.

(* the series file changed without touching the live ids; deleted ids stay deleted *)
Lemma tv_weak_sf sf sf' L ix :
  (forall i, In i L -> sf_key sf' i = sf_key sf i) ->
  (forall i, sf_deleted sf i = true -> (i < sf_next sf)%N -> sf_deleted sf' i = true /\ (i < sf_next sf')%N) ->
  tv_weak sf L ix -> tv_weak sf' L ix.
Proof.
  intros HL Hd [W1 W2]. constructor.
  - intros m k v i s Hi Hk Hm Hkv. apply (W1 m k v i s); auto. rewrite <- (HL i Hi). exact Hk.
  - intros m k v i Hin. destruct (W2 m k v i Hin) as [[Hi [s [Hk R]]]|[H1 H2]].
    + left. split; [exact Hi|]. exists s. rewrite (HL i Hi). auto.
    + right. apply Hd; assumption.
Qed.

Lemma tv_weak_L sf L L' ix : (forall i, In i L' <-> In i L) -> tv_weak sf L ix -> tv_weak sf L' ix.
Proof.
  intros H [W1 W2]. constructor.
  - intros m k v i s Hi. apply W1. apply H. exact Hi.
  - intros m k v i Hin. destruct (W2 m k v i Hin) as [[Hi R]|R]; [left; split; [apply H; exact Hi|exact R]|right; exact R].
Qed.

Section DropW.
  Variable sf : sfile.
  Hypothesis I : sf_inv sf.

  (* Index.DropSeriesGlobal of a series whose id leaves the series file *)
  Lemma tv_weak_drop_global L ix i k L' :
    ix_ok sf L ix -> tv_weak sf L ix -> In i L -> sf_key sf i = Some k -> (forall j, In j L' <-> In j L /\ j <> i) ->
    tv_weak (sf_delete sf i) L' (ix_drop_series_global ix k).
  Proof.
    intros X [W1 W2] Hi Hk HL'. pose proof X as [X1 X2 X3 X4 X5 X6 X7].
    destruct (sf_delete_spec sf I i) as [I' [Hdi [Hn [Hkey Hoth]]]]. cbv zeta in *. set (sf' := sf_delete sf i) in *.
    assert (Hf : ix_find ix k = Some i) by (apply (ix_find_Some sf I L ix X); auto).
    assert (Hib : (i < sf_next sf)%N) by (eapply sf_key_bound; eauto).
    (* what survives in the tag entries *)
    assert (Hsound : forall tv', (forall e, In e tv' -> In e (ix_tv ix)) ->
              forall m k0 v j, In (m, k0, v, j) tv' ->
                (In j L' /\ exists s, sf_key sf' j = Some s /\ fst s = m /\ In (k0, v) (snd s)) \/
                (sf_deleted sf' j = true /\ (j < sf_next sf')%N)).
    { intros tv' Hsub m k0 v j Hin. apply Hsub in Hin. destruct (W2 m k0 v j Hin) as [[Hj [s [Hkj R]]]|[H1 H2]].
      - destruct (N.eq_dec j i) as [->|Hne].
        + right. split; [exact Hdi|rewrite Hn; exact Hib].
        + left. split; [apply HL'; auto|]. exists s. rewrite Hkey. auto.
      - right. rewrite Hn. split; [|exact H2]. destruct (N.eq_dec j i) as [->|Hne]; [exact Hdi|rewrite (Hoth j Hne); exact H1]. }
    assert (Hcomp : forall m k0 v j s, In j L' -> sf_key sf' j = Some s -> fst s = m -> In (k0, v) (snd s) -> In (m, k0, v, j) (ix_tv ix)).
    { intros m k0 v j s Hj Hkj Hm Hkv. apply HL' in Hj. destruct Hj as [Hj _]. rewrite Hkey in Hkj. apply (W1 m k0 v j s); auto. }
    unfold ix_drop_series_global. rewrite Hf. destruct k as [m t]. cbn [fst].
    set (ix1 := mkIx _ _ _ _ _ _).
    assert (Hms1 : forall j s, In j L' -> sf_key sf j = Some s -> fst s = m -> In j (ix_mids ix1 m)).
    { intros j s Hj Hkj Hm. apply HL' in Hj. destruct Hj as [Hj Hne]. apply In_ix_mids. exists s. unfold ix1. cbn [ix_ms].
      apply filter_In. split; [apply X3; auto|]. unfold imk_eqb. cbn [fst snd]. apply N.eqb_neq in Hne. rewrite Hne, andb_false_r. reflexivity. }
    destruct (is_nil (ix_mids ix1 m)) eqn:En.
    - (* the measurement lost its last series *)
      apply is_nil_true in En. unfold ix_drop_measurement. destruct (memb str_eqb m (ix_mm ix1)).
      + constructor; cbn [ix_tv ix1].
        * intros m' k0 v j s Hj Hkj Hm Hkv. apply filter_In. split; [eapply Hcomp; eauto|]. cbn [fst].
          apply negb_true_iff, str_eqb_neq. intros ->. rewrite Hkey in Hkj. pose proof (Hms1 j s Hj Hkj Hm) as Hin. rewrite En in Hin. destruct Hin.
        * intros m' k0 v j Hin. apply (Hsound (filter (fun p => negb (str_eqb (fst (fst (fst p))) m)) (ix_tv ix))); [|exact Hin].
          intros e He. apply filter_In in He. tauto.
      + constructor; cbn [ix_tv ix1]; [exact Hcomp|]. intros m' k0 v j Hin. apply (Hsound (ix_tv ix)); auto.
    - constructor; cbn [ix_tv ix1]; [exact Hcomp|]. intros m' k0 v j Hin. apply (Hsound (ix_tv ix)); auto.
  Qed.
End DropW.

(* Store.DeleteShard: DropSeriesGlobal for every id no shard holds any more, then the ids leave the
   series file; the same as doing both id by id (SeriesFile.DeleteSeriesID does not touch keys) *)
Lemma sf_delete_key sf i j : sf_key (sf_delete sf i) j = sf_key sf j.
Proof. unfold sf_delete. destruct (sf_deleted sf i); reflexivity. Qed.

Lemma fold_drop_ext sf sf' (l : list id) :
  (forall j, sf_key sf' j = sf_key sf j) -> forall ix,
  fold_left (fun ix i => match sf_key sf' i with Some k => ix_drop_series_global ix k | None => ix end) l ix
  = fold_left (fun ix i => match sf_key sf i with Some k => ix_drop_series_global ix k | None => ix end) l ix.
Proof.
  intros H. induction l as [|i l IH]; intros ix; cbn [fold_left]; [reflexivity|]. rewrite H. apply IH.
Qed.

Lemma two_pass_eq (dead : list (id * series)) : forall sf ix,
  fold_left (fun a p => match sf_key (fst a) (fst p) with
                        | Some k => (sf_delete (fst a) (fst p), ix_drop_series_global (snd a) k)
                        | None => (sf_delete (fst a) (fst p), snd a)
                        end) dead (sf, ix)
  = (fold_left sf_delete (map fst dead) sf,
     fold_left (fun ix i => match sf_key sf i with Some k => ix_drop_series_global ix k | None => ix end) (map fst dead) ix).
Proof.
  induction dead as [|[i k] dead IH]; intros sf ix; cbn [fold_left map fst snd]; [reflexivity|].
  destruct (sf_key sf i) as [k'|] eqn:E; rewrite IH; f_equal; apply fold_drop_ext; intros; apply sf_delete_key.
Qed.
