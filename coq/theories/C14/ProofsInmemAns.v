(* C14/ProofsInmemAns.v — every answer of the store model with the in-memory index is the
   projection of the abstract set. *)
From Verif Require Import C14.Spec C14.Model C14.ProofsBase C14.ProofsQuery C14.ProofsSfile
     C14.ProofsLsmD C14.ProofsLsmH C14.ProofsConv C14.ProofsTs C14.ProofsTsAns C14.ProofsClean C14.ProofsInmem C14.ProofsInmem2 C14.ProofsInmem3.

Section Answers.
  Variable rx : str -> str -> bool.
  Variable n : nat.
  Variables (A : sstate) (st : istate).
  Hypothesis OK : is_ok n A st.

  Let sf := is_sf st.
  Let L := is_L st.
  Let U := db_set A.
  Let db := ix_prims (is_ix st).

  Lemma is_shard_card sh : valid_shard n sh = true -> length (sh_sids (is_get st sh)) = length (shard_set A sh).
  Proof.
    intros Hv. pose proof (ik_shard _ _ _ OK sh Hv) as O. fold sf in O.
    apply (card_eq sf); [apply (io_nodup _ _ _ O)|apply NoDup_shard_set| | |].
    - intros i Hi. destruct (io_live _ _ _ O i Hi) as [s [H1 [_ H3]]]. eauto.
    - apply (io_cover _ _ _ O).
    - intros i j s Hi Hj Ki Kj. destruct (io_live _ _ _ O i Hi) as [s1 [K1 [D1 _]]], (io_live _ _ _ O j Hj) as [s2 [K2 [D2 _]]].
      apply (sf_live_unique sf (ik_sf _ _ _ OK) i j s); auto.
  Qed.

  Theorem is_answer_ok q : wf_query n q = true -> answer_equiv (is_answer rx st q) (spec_answer rx n A q).
  Proof.
    intros Hq. pose proof (is_refines rx n A st OK) as R. pose proof (ik_sf _ _ _ OK) as Isf. fold sf L U db in R, Isf.
    assert (Hrows : forall r l, In r (dedup row_eqb l) <-> In r l) by (intros r l; apply (In_dedup row_eqb row_eqb_eq)).
    destruct q as [c|m c|m k c|m c|sh m c|sh bsz small m c| | ]; cbn [is_answer spec_answer answer_equiv]; fold sf db U.
    - destruct c as [p|]; cbn [answer_equiv]; intros r; rewrite Hrows, !in_map_iff;
        split; intros [m [E H]]; exists m; (split; [exact E|]).
      + apply (q_names_ok' rx db sf L U R (Some p) m); exact H.
      + apply (q_names_ok' rx db sf L U R (Some p) m); exact H.
      + apply (q_names_ok' rx db sf L U R None m); exact H.
      + apply (q_names_ok' rx db sf L U R None m); exact H.
    - intros r. rewrite !Hrows. apply (q_tagkeys_ok' rx db sf L U R).
    - intros r. rewrite !Hrows. apply (q_tagvals_ok' rx db sf L U R).
    - intros r. rewrite Hrows. apply (q_series_ok' rx db sf L U R).
    - (* per shard: the database-wide answer restricted by the shard's id set *)
      cbn [wf_query] in Hq. pose proof (ik_shard _ _ _ OK sh Hq) as O. fold sf in O.
      intros r. rewrite Hrows, !in_map_iff. split; intros [s [E H]]; exists s; (split; [exact E|]).
      + apply In_keys_of in H. destruct H as [i [Hi Hk]]. apply filter_In in Hi. destruct Hi as [Hi Hs].
        apply (memb_In N.eqb N.eqb_eq) in Hs. apply (series_ids_ok' rx db sf L U R) in Hi. destruct Hi as [s' [[_ Hk'] [Hm He]]].
        rewrite Hk in Hk'. inversion Hk'; subst s'. destruct (io_live _ _ _ O i Hs) as [s'' [K'' [_ HS]]]. rewrite Hk in K''. inversion K''; subst s''.
        unfold series_of. apply filter_In. split; [exact HS|]. rewrite He, (proj2 (str_eqb_eq _ _) Hm). reflexivity.
      + unfold series_of in H. apply filter_In in H. destruct H as [HS Hc]. apply andb_true_iff in Hc. destruct Hc as [Hm He]. apply str_eqb_eq in Hm.
        destruct (io_cover _ _ _ O s HS) as [i [Hi Hk]]. apply In_keys_of. exists i. split; [|exact Hk].
        apply filter_In. split; [|apply (memb_In N.eqb N.eqb_eq); exact Hi].
        apply (series_ids_ok' rx db sf L U R). exists s. ssplit; auto. split; [|exact Hk].
        apply (In_is_L n st i (ik_len _ _ _ OK)). eauto.
    - (* the shard converted offline to a TSI index *)
      cbn [wf_query] in Hq. apply andb_true_iff in Hq. destruct Hq as [Hv Hb]. apply Nat.leb_le in Hb.
      set (keys := map snd (filter (fun p => Nat.eqb (fst p) sh) (is_data st))).
      assert (Hkeys : forall s, In s keys <-> In (sh, s) A).
      { intros s. unfold keys. rewrite in_map_iff. split.
        - intros [[sh' s'] [E H]]. cbn in E. subst s'. apply filter_In in H. destruct H as [H Es]. cbn in Es.
          apply Nat.eqb_eq in Es. subst sh'. apply (ik_data _ _ _ OK). exact H.
        - intros H. exists (sh, s). split; [reflexivity|]. apply filter_In. split; [apply (ik_data _ _ _ OK); exact H|].
          cbn. apply Nat.eqb_refl. }
      pose proof (conv_lists_keys rx sf keys bsz small (shard_set A sh) m c Isf) as HC.
      destruct (cv_index sf keys bsz small) as [sf' t]. cbn [fst snd answer_equiv] in *.
      intros r. rewrite Hrows. apply HC; [| |exact Hb].
      + intros s Hs. apply Hkeys in Hs. apply (ik_A _ _ _ OK sh s Hs).
      + intros s. rewrite In_shard_set, Hkeys. tauto.
    - f_equal.
      + f_equal. fold L. apply (card_eq sf); [apply NoDup_iunions|apply NoDup_db_set| | |].
        * intros i Hi. destruct (r_live _ _ _ _ R i Hi) as [s [H1 [H2 _]]]. eauto.
        * apply (r_cover _ _ _ _ R).
        * intros i j s Hi Hj Ki Kj. destruct (r_live _ _ _ _ R i Hi) as [s1 [K1 [_ D1]]], (r_live _ _ _ _ R j Hj) as [s2 [K2 [_ D2]]].
          apply (sf_live_unique sf Isf i j s); auto.
      + rewrite (list_as_map (is_sh st) ish_empty) at 1. rewrite (ik_len _ _ _ OK), map_map.
        apply map_ext_in. intros sh Hsh. apply In_seq_valid in Hsh. f_equal. apply (is_shard_card sh Hsh).
    - intros r. rewrite Hrows, !in_map_iff. split; intros [s [E H]]; exists s; (split; [exact E|]).
      + apply In_keys_of in H. destruct H as [i [Hi Hk]]. apply filter_In in Hi. destruct Hi as [_ Hd]. apply negb_true_iff in Hd.
        destruct (ik_sfl _ _ _ OK i s Hk Hd) as [sh [Hv Hin]]. destruct (io_live _ _ _ (ik_shard _ _ _ OK sh Hv) i Hin) as [s' [K' [_ HS]]].
        fold sf in Hk, K'. rewrite Hk in K'. inversion K'; subst. apply In_db_set. exists sh. apply In_shard_set. exact HS.
      + destruct (r_cover _ _ _ _ R s H) as [i [Hi Hk]]. destruct (r_live _ _ _ _ R i Hi) as [s' [K' [_ Hd]]].
        apply In_keys_of. exists i. split; [|exact Hk]. apply filter_In. split; [|rewrite Hd; reflexivity].
        unfold sf_ids. apply (In_dedup N.eqb N.eqb_eq). apply in_map_iff. exists (i, s). split; [reflexivity|].
        apply (sf_key_In sf Isf). exact Hk.
  Qed.
End Answers.

Theorem inmem_refines_set_proof rx n ops q :
  wf_ops ops = true -> wf_query n q = true ->
  answer_equiv (is_answer rx (is_run rx n ops) q) (spec_answer rx n (run_spec rx n ops) q).
Proof. intros Hw Hq. apply (is_answer_ok rx n); [apply is_run_ok; exact Hw|exact Hq]. Qed.
