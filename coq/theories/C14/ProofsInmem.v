(* C14/ProofsInmem.v — the in-memory index: invariant of the database-wide index and of the
   per-shard id sets, preserved by create / drop / rebuild / reload. *)
From Verif Require Import C14.Spec C14.Model C14.ProofsBase C14.ProofsQuery C14.ProofsSfile C14.ProofsLsmA C14.ProofsLsmB C14.ProofsLsmD C14.ProofsLsmH C14.ProofsTs.

(* the global index holds exactly the series of the ids in L (the ids held by some shard) *)
Record ix_ok (sf : sfile) (L : list id) (ix : inmem) : Prop := mkIxOk {
  xo_series : forall s i, In (s, i) (ix_series ix) <-> In i L /\ sf_key sf i = Some s;
  xo_mm : forall m, In m (ix_mm ix) <-> exists i s, In i L /\ sf_key sf i = Some s /\ fst s = m;
  xo_ms : forall m i s, In (m, (i, s)) (ix_ms ix) <-> In i L /\ sf_key sf i = Some s /\ fst s = m;
  (* tag entries are exact except for measurements waiting for Rebuild *)
  xo_tv : forall m k v i, ~ In m (ix_dirty ix) ->
          (In (m, k, v, i) (ix_tv ix) <-> In i L /\ exists s, sf_key sf i = Some s /\ fst s = m /\ In (k, v) (snd s));
  xo_del : forall i, In i (ix_del ix) -> sf_deleted sf i = true /\ (i < sf_next sf)%N;
  xo_dirty : forall m, In m (ix_dirty ix) -> In m (ix_mm ix);
  xo_live : forall i, In i L -> exists s, sf_key sf i = Some s /\ sf_deleted sf i = false
}.

(* what holds of the tag entries of EVERY measurement, also the dirty ones (between an
   Index.DropSeriesGlobal and the next Index.Rebuild): every tag of a live series has its entry;
   an entry that is not one of those carries an id the series file has deleted *)
Record tv_weak (sf : sfile) (L : list id) (ix : inmem) : Prop := mkTvWeak {
  tw_complete : forall m k v i s, In i L -> sf_key sf i = Some s -> fst s = m -> In (k, v) (snd s) -> In (m, k, v, i) (ix_tv ix);
  tw_sound : forall m k v i, In (m, k, v, i) (ix_tv ix) ->
             (In i L /\ exists s, sf_key sf i = Some s /\ fst s = m /\ In (k, v) (snd s)) \/
             (sf_deleted sf i = true /\ (i < sf_next sf)%N)
}.

Lemma ix_ok_empty sf : ix_ok sf [] ix_empty.
Proof.
  constructor; cbn; try (intros; tauto).
  - intros m. split; [tauto|intros [i [s [[] _]]]].
Qed.

Lemma In_ix_mids ix m i : In i (ix_mids ix m) <-> exists s, In (m, (i, s)) (ix_ms ix).
Proof.
  unfold ix_mids. rewrite in_map_iff. split.
  - intros [[m' [j s]] [E H]]. apply filter_In in H. destruct H as [H Em]. cbn in *. apply str_eqb_eq in Em. subst. eauto.
  - intros [s H]. exists (m, (i, s)). split; [reflexivity|]. apply filter_In. split; [exact H|]. cbn. apply str_eqb_refl.
Qed.

Section Ix.
  Variable sf : sfile.
  Hypothesis I : sf_inv sf.
  Variables (L : list id) (ix : inmem).
  Hypothesis X : ix_ok sf L ix.

  Lemma live_unique i j s : In i L -> In j L -> sf_key sf i = Some s -> sf_key sf j = Some s -> i = j.
  Proof.
    intros Hi Hj Ki Kj. destruct (xo_live _ _ _ X i Hi) as [s1 [K1 D1]], (xo_live _ _ _ X j Hj) as [s2 [K2 D2]].
    apply (sf_live_unique sf I i j s); auto.
  Qed.

  Lemma ix_find_Some s i : ix_find ix s = Some i <-> In i L /\ sf_key sf i = Some s.
  Proof.
    unfold ix_find. destruct (find (fun p => series_eqb (fst p) s) (ix_series ix)) as [[s' j]|] eqn:E.
    - apply find_some in E. destruct E as [Hin Es]. cbn in Es. apply series_eqb_eq in Es. subst s'.
      apply (xo_series _ _ _ X) in Hin. cbn [snd]. split.
      + intros H; inversion H; subst. exact Hin.
      + intros [Hi Hk]. f_equal. destruct Hin as [Hj Hkj]. apply (live_unique j i s); auto.
    - split; [discriminate|]. intros [Hi Hk]. exfalso.
      assert (Hin : In (s, i) (ix_series ix)) by (apply (xo_series _ _ _ X); auto).
      eapply find_none in E; [|exact Hin]. cbn in E. rewrite series_eqb_refl in E. discriminate.
  Qed.

  Lemma ix_find_None s : ix_find ix s = None <-> forall i, In i L -> sf_key sf i <> Some s.
  Proof.
    split.
    - intros H i Hi Hk. assert (ix_find ix s = Some i) by (apply ix_find_Some; auto). congruence.
    - intros H. destruct (ix_find ix s) as [i|] eqn:E; [|reflexivity]. apply ix_find_Some in E. destruct E as [Hi Hk].
      exfalso. eapply H; eauto.
  Qed.
End Ix.

(* the series file changed, keeping key and deleted flag of the ids in L and of the ids marked deleted *)
Lemma ix_ok_sf sf sf' L ix :
  (forall i, In i L -> sf_key sf' i = sf_key sf i /\ sf_deleted sf' i = sf_deleted sf i) ->
  (forall i, In i (ix_del ix) -> sf_deleted sf' i = true /\ (i < sf_next sf')%N) ->
  ix_ok sf L ix -> ix_ok sf' L ix.
Proof.
  intros HL Hd [X1 X2 X3 X4 X5 X6 X7]. constructor; auto.
  - intros s i. rewrite X1. split; intros [Hi Hk]; (split; [exact Hi|]); [rewrite (proj1 (HL i Hi))|rewrite <- (proj1 (HL i Hi))]; exact Hk.
  - intros m. rewrite X2. split; intros [i [s [Hi [Hk Hm]]]]; exists i, s; ssplit; auto; [rewrite (proj1 (HL i Hi))|rewrite <- (proj1 (HL i Hi))]; exact Hk.
  - intros m i s. rewrite X3. split; intros [Hi [Hk Hm]]; ssplit; auto; [rewrite (proj1 (HL i Hi))|rewrite <- (proj1 (HL i Hi))]; exact Hk.
  - intros m k v i Hn. rewrite (X4 m k v i Hn). split; intros [Hi [s [Hk H]]]; (split; [exact Hi|]); exists s; (split; [|exact H]);
      [rewrite (proj1 (HL i Hi))|rewrite <- (proj1 (HL i Hi))]; exact Hk.
  - intros i Hi. destruct (X7 i Hi) as [s [Hk Hdl]]. destruct (HL i Hi) as [E1 E2]. exists s. rewrite E1, E2. auto.
Qed.

Lemma ix_ok_L sf L L' ix : (forall i, In i L' <-> In i L) -> ix_ok sf L ix -> ix_ok sf L' ix.
Proof.
  intros H [X1 X2 X3 X4 X5 X6 X7]. constructor; auto.
  - intros s i. rewrite X1, H. tauto.
  - intros m. rewrite X2. split; intros [i [s [Hi R]]]; exists i, s; (split; [apply H; exact Hi|exact R]).
  - intros m i s. rewrite X3, H. tauto.
  - intros m k v i Hn. rewrite (X4 m k v i Hn), H. tauto.
  - intros i Hi. apply X7. apply H. exact Hi.
Qed.

(* ---------- creating one series (ShardIndex.CreateSeriesListIfNotExists) ---------- *)

Lemma In_fold_sadd_tv m i (t : tags) acc x :
  In x (fold_right (fun kv acc => sadd mkvi_eqb (m, fst kv, snd kv, i) acc) acc t) <->
  In x acc \/ exists k v, In (k, v) t /\ x = (m, k, v, i).
Proof. apply ProofsLsmA.In_fold_sadd_vs. Qed.

Section Create.
  Variable sf : sfile.
  Hypothesis I : sf_inv sf.
  Variables (L : list id) (ix : inmem).
  Hypothesis X : ix_ok sf L ix.

  Variables (S : list series) (shd : ishard).
  Hypothesis O : ids_ok sf S (sh_sids shd).

  Lemma ix_create_ok s :
    let '(sf', ix', shd') := ix_create sf ix shd s in
    exists i L',
      sf_inv sf' /\ sf_ext sf sf' /\
      (forall j, (j < sf_next sf)%N -> sf_key sf' j = sf_key sf j /\ sf_deleted sf' j = sf_deleted sf j) /\
      (forall j sj, sf_key sf' j = Some sj -> (sf_next sf <= j)%N -> j = i) /\
      sf_key sf' i = Some s /\ sf_deleted sf' i = false /\
      (forall j, In j L' <-> j = i \/ In j L) /\ ix_ok sf' L' ix' /\
      (ix_dirty ix' = ix_dirty ix /\ (tv_weak sf L ix -> tv_weak sf' L' ix')) /\
      (forall j, In j (sh_sids shd') <-> j = i \/ In j (sh_sids shd)) /\ NoDup (sh_sids shd').
  Proof.
    unfold ix_create.
    assert (Hjoin : forall i, (forall j, In j (sh_sids (ish_join shd i (fst s))) <-> j = i \/ In j (sh_sids shd)) /\ NoDup (sh_sids (ish_join shd i (fst s)))).
    { intros i. unfold ish_join. destruct (memb N.eqb i (sh_sids shd)) eqn:E.
      - apply (memb_In N.eqb N.eqb_eq) in E. split; [intros j; split; [auto|intros [->|H]; auto]|apply (io_nodup _ _ _ O)].
      - apply (memb_false N.eqb N.eqb_eq) in E. cbn [sh_sids]. split; [intros j; cbn; split; [intros [<-|H]; auto|intros [->|H]; auto]|].
        constructor; [exact E|apply (io_nodup _ _ _ O)]. }
    destruct (ix_find ix s) as [i|] eqn:Ef.
    - (* the series object exists: it only joins the shard *)
      apply (ix_find_Some sf I L ix X) in Ef. destruct Ef as [Hi Hk]. destruct (xo_live _ _ _ X i Hi) as [s' [Hk' Hdl]].
      exists i, L. ssplit; auto; try apply sf_ext_refl; try apply Hjoin.
      + intros j sj Hkj Hge. apply (sf_key_bound sf I) in Hkj. lia.
      + intros j. split; [auto|intros [->|H]; auto].
    - (* new series object *)
      pose proof (sf_create_spec sf I s) as Hc. destruct (sf_create sf s) as [sf' i].
      destruct Hc as [I' [Hk [Hdl [Hn [Hoth Hcase]]]]].
      assert (HniL : ~ In i L).
      { intros Hi. destruct Hcase as [[-> Hf]|[_ [_ Hnone]]].
        - apply (sf_find_Some sf I) in Hf. apply (proj1 (ix_find_None sf I L ix X s) Ef i Hi). tauto.
        - destruct (xo_live _ _ _ X i Hi) as [s' [Hk' _]]. congruence. }
      assert (Hold : forall j, (j < sf_next sf)%N -> sf_key sf' j = sf_key sf j /\ sf_deleted sf' j = sf_deleted sf j).
      { intros j Hj. destruct Hcase as [[-> _]|[_ [E _]]]; [auto|apply Hoth; subst i; lia]. }
      assert (HL : forall j, In j L -> sf_key sf' j = sf_key sf j /\ sf_deleted sf' j = sf_deleted sf j).
      { intros j Hj. apply Hoth. intros ->. contradiction. }
      assert (Hnew : forall j sj, sf_key sf' j = Some sj -> (sf_next sf <= j)%N -> j = i).
      { intros j sj Hj Hge. destruct (N.eq_dec j i) as [->|Hne]; [reflexivity|]. exfalso.
        rewrite (proj1 (Hoth j Hne)) in Hj. apply (sf_key_bound sf I) in Hj. lia. }
      assert (E : sf_ext sf sf').
      { constructor; [exact Hn|]. intros j sj Hj. destruct (N.ltb_spec j (sf_next sf)) as [Hlt|Hge]; [left|right; exact Hge].
        rewrite <- (proj1 (Hold j Hlt)). exact Hj. }
      destruct (ix_ok_sf sf sf' L ix HL) as [X1 X2 X3 X4 X5 X6 X7]; [|exact X|].
      { intros j Hj. destruct (xo_del _ _ _ X j Hj) as [H1 H2]. rewrite (proj2 (Hold j H2)). split; [exact H1|lia]. }
      destruct s as [m t]. cbn [fst snd].
      assert (Hmids : memb N.eqb i (ix_mids ix m) = false).
      { apply (memb_false N.eqb N.eqb_eq). intros Hin. apply In_ix_mids in Hin. destruct Hin as [s' Hin].
        apply X3 in Hin. tauto. }
      unfold ix_add_series, ix_mids. cbn [fst snd ix_ms]. fold (ix_mids ix m). rewrite Hmids.
      cbn [ix_series ix_mm ix_ms ix_tv ix_dirty ix_del].
      set (ix' := mkIx _ _ _ _ _ _).
      assert (HX' : ix_ok sf' (i :: L) ix').
      { constructor; unfold ix'; cbn [ix_series ix_mm ix_ms ix_tv ix_dirty ix_del].
      + intros s' j. cbn [In]. rewrite X1. split.
        * intros [H|[Hj Hkj]]; [inversion H; subst; auto|auto].
        * intros [[<-|Hj] Hkj]; [left; rewrite Hk in Hkj; inversion Hkj; reflexivity|auto].
      + intros m'. rewrite (In_sadd str_eqb str_eqb_eq), X2. split.
        * intros [->|[j [sj [Hj R]]]]; [exists i, (m, t); cbn; auto|exists j, sj; cbn; tauto].
        * intros [j [sj [[<-|Hj] [Hkj Hm]]]]; [rewrite Hk in Hkj; inversion Hkj; subst; cbn; auto|right; eauto].
      + intros m' j sj. cbn [In]. rewrite X3. split.
        * intros [H|[Hj R]]; [inversion H; subst; cbn; auto|tauto].
        * intros [[<-|Hj] [Hkj Hm]]; [left; rewrite Hk in Hkj; inversion Hkj; subst; reflexivity|auto].
      + intros m' k v j Hnd. rewrite In_fold_sadd_tv, (X4 m' k v j Hnd). cbn [In]. split.
        * intros [[Hj R]|[k' [v' [Hin Eq]]]]; [tauto|]. inversion Eq; subst. split; [auto|]. exists (m, t). cbn; auto.
        * intros [[<-|Hj] [sj [Hkj [Hm Hin]]]]; [|left; split; [exact Hj|exists sj; auto]].
          rewrite Hk in Hkj. inversion Hkj; subst. cbn in *. right. exists k, v. auto.
      + exact X5.
      + intros m' Hm'. apply (In_sadd str_eqb str_eqb_eq). right. apply X6. exact Hm'.
      + intros j [<-|Hj]; [exists (m, t); auto|apply X7; exact Hj]. }
      assert (HW' : tv_weak sf L ix -> tv_weak sf' (i :: L) ix').
      { intros [W1 W2]. constructor; unfold ix'; cbn [ix_tv].
        - intros m' k v j s' Hj Hkj Hm' Hkv. apply In_fold_sadd_tv. destruct Hj as [<-|Hj].
          + right. rewrite Hk in Hkj. inversion Hkj; subst s'. cbn [fst snd] in *. subst m'. exists k, v. auto.
          + left. apply (W1 m' k v j s'); auto. rewrite <- (proj1 (HL j Hj)). exact Hkj.
        - intros m' k v j Hin. apply In_fold_sadd_tv in Hin. destruct Hin as [Hin|[k' [v' [Hkv Eq]]]].
          + destruct (W2 m' k v j Hin) as [[Hj [s' [Hkj R]]]|[Hdj Hb]].
            * left. split; [right; exact Hj|]. exists s'. rewrite (proj1 (HL j Hj)). auto.
            * right. destruct (Hold j Hb) as [_ E2]. rewrite E2. split; [exact Hdj|lia].
          + inversion Eq; subst. left. split; [left; reflexivity|]. exists (m, t). rewrite Hk. cbn [fst snd]. auto. }
      exists i, (i :: L). ssplit; auto; try apply Hjoin.
      cbn; intros j; split; [intros [<-|H]; auto|intros [->|H]; auto].
  Qed.
End Create.

(* ---------- creating a list of series in one shard ---------- *)

Lemma is_create_list_ok ss : forall sf L ix S shd,
  sf_inv sf -> ix_ok sf L ix -> ids_ok sf S (sh_sids shd) -> (forall i, In i (sh_sids shd) -> In i L) ->
  Forall (fun s => wf_series s = true) ss ->
  let '(sf', ix', shd') := fold_left (fun a s => ix_create (fst (fst a)) (snd (fst a)) (snd a) s) ss (sf, ix, shd) in
  exists L' S',
    sf_inv sf' /\ sf_ext sf sf' /\
    (forall j, (j < sf_next sf)%N -> sf_key sf' j = sf_key sf j /\ sf_deleted sf' j = sf_deleted sf j) /\
    (forall j sj, sf_key sf' j = Some sj -> (sf_next sf <= j)%N -> In j (sh_sids shd')) /\
    ix_ok sf' L' ix' /\ (ix_dirty ix' = ix_dirty ix /\ (tv_weak sf L ix -> tv_weak sf' L' ix')) /\ ids_ok sf' S' (sh_sids shd') /\
    (forall x, In x S' <-> In x ss \/ In x S) /\
    (forall j, In j L' <-> In j L \/ In j (sh_sids shd')) /\
    (forall j, In j (sh_sids shd) -> In j (sh_sids shd')).
Proof.
  induction ss as [|s ss IH]; intros sf L ix S shd I X O Hsub Hwf; cbn [fold_left].
  - exists L, S. ssplit; auto; try apply sf_ext_refl.
    + intros j sj Hk Hge. apply (sf_key_bound sf I) in Hk. lia.
    + intros x. cbn. tauto.
    + intros j. split; [auto|intros [H|H]; auto].
  - inversion Hwf as [|s' ss' Hs Hss]; subst. cbn [fst snd].
    pose proof (ix_create_ok sf I L ix X S shd O s) as H1. destruct (ix_create sf ix shd s) as [[sf1 ix1] shd1].
    destruct H1 as [i [L1 [I1 [E1 [Hold1 [Hnew1 [Hk1 [Hd1 [HL1 [X1 [[Xd1 W1] [Hs1 Hnd1]]]]]]]]]]]].
    assert (O1 : ids_ok sf1 (s :: S) (sh_sids shd1)).
    { assert (Hb : forall j, In j (sh_sids shd) -> (j < sf_next sf)%N).
      { intros j Hj. destruct (io_live _ _ _ O j Hj) as [sj [Hkj _]]. eapply sf_key_bound; eauto. }
      constructor; [exact Hnd1| | |].
      - intros j Hj. apply Hs1 in Hj. destruct Hj as [->|Hj]; [exists s; cbn; auto|].
        destruct (io_live _ _ _ O j Hj) as [sj [H1 [H2 H3]]]. destruct (Hold1 j (Hb j Hj)) as [E2 E3].
        exists sj. rewrite E2, E3. cbn; auto.
      - intros x [<-|Hx]; [exists i; split; [apply Hs1; auto|exact Hk1]|].
        destruct (io_cover _ _ _ O x Hx) as [j [Hj Hkj]]. exists j. split; [apply Hs1; auto|].
        rewrite (proj1 (Hold1 j (Hb j Hj))). exact Hkj.
      - intros x [<-|Hx]; [exact Hs|apply (io_wf _ _ _ O); exact Hx]. }
    assert (Hsub1 : forall j, In j (sh_sids shd1) -> In j L1).
    { intros j Hj. apply HL1. apply Hs1 in Hj. destruct Hj as [->|Hj]; auto. }
    specialize (IH sf1 L1 ix1 (s :: S) shd1 I1 X1 O1 Hsub1 Hss).
    destruct (fold_left (fun a s0 => ix_create (fst (fst a)) (snd (fst a)) (snd a) s0) ss (sf1, ix1, shd1)) as [[sf' ix'] shd'].
    destruct IH as [L' [S' [I' [E' [Hold' [Hnew' [X' [[Xd' W'] [O' [HS' [HL' Hmono']]]]]]]]]]].
    exists L', S'. ssplit; auto.
    + eapply sf_ext_trans; eauto.
    + intros j Hj. assert (j < sf_next sf1)%N by (pose proof (se_next _ _ E1); lia).
      destruct (Hold' j H) as [H1 H2], (Hold1 j Hj) as [H3 H4]. split; congruence.
    + intros j sj Hkj Hge. destruct (N.ltb_spec j (sf_next sf1)) as [Hlt|Hge1]; [|eapply Hnew'; eauto].
      apply Hmono'. rewrite (proj1 (Hold' j Hlt)) in Hkj. rewrite (Hnew1 j sj Hkj Hge). apply Hs1. auto.
    + congruence.
    + intros x. rewrite HS'. cbn [In]. split; [intros [H|[<-|H]]; auto|intros [[<-|H]|H]; auto].
    + intros j. rewrite HL', HL1. split; [intros [[->|H]|H]; auto; right; apply Hmono'; apply Hs1; auto|intros [H|H]; auto].
    + intros j Hj. apply Hmono'. apply Hs1. auto.
Qed.
