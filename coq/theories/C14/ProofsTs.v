(* C14/ProofsTs.v — the TSI store (all shards of a database over one series file): invariant
   relating it to the abstract set of (shard, series) pairs, preserved by every step. *)
From Verif Require Import C14.Spec C14.Model C14.ProofsBase C14.ProofsQuery C14.ProofsSfile
     C14.ProofsLsmA C14.ProofsLsmB C14.ProofsLsmC C14.ProofsLsmD C14.ProofsLsmE C14.ProofsLsmF C14.ProofsLsmG C14.ProofsLsmH.

(* ---------- lists of shards ---------- *)

Lemma upd_nth_length {A} n (x : A) l : length (upd_nth n x l) = length l.
Proof. revert n; induction l as [|y l IH]; intros [|n]; cbn; auto. Qed.

Lemma nth_upd_nth_eq {A} n (x d : A) l : (n < length l)%nat -> nth n (upd_nth n x l) d = x.
Proof. revert n; induction l as [|y l IH]; intros [|n] H; cbn in *; try lia; auto. apply IH. lia. Qed.

Lemma nth_upd_nth_ne {A} n n' (x d : A) l : n <> n' -> nth n' (upd_nth n x l) d = nth n' l d.
Proof. revert n n'; induction l as [|y l IH]; intros [|n] [|n'] H; cbn; auto; try congruence. Qed.

Lemma valid_shard_iff n sh : valid_shard n sh = true <-> (1 <= sh <= n)%nat.
Proof. unfold valid_shard. rewrite andb_true_iff, !Nat.leb_le. tauto. Qed.

Lemma In_seq_valid n sh : In sh (seq 1 n) <-> valid_shard n sh = true.
Proof. rewrite in_seq, valid_shard_iff. lia. Qed.

(* ---------- the abstract set ---------- *)

Lemma In_shard_set A sh s : In s (shard_set A sh) <-> In (sh, s) A.
Proof.
  unfold shard_set. rewrite (In_dedup series_eqb series_eqb_eq), in_map_iff. split.
  - intros [[sh' s'] [E H]]. apply filter_In in H. destruct H as [H Es]. cbn in *. apply Nat.eqb_eq in Es. subst. exact H.
  - intros H. exists (sh, s). split; [reflexivity|]. apply filter_In. split; [exact H|]. cbn. apply Nat.eqb_refl.
Qed.

Lemma In_db_set A s : In s (db_set A) <-> exists sh, In (sh, s) A.
Proof.
  unfold db_set. rewrite (In_dedup series_eqb series_eqb_eq), in_map_iff. split.
  - intros [[sh s'] [E H]]. cbn in E. subst. eauto.
  - intros [sh H]. exists (sh, s). auto.
Qed.

Lemma NoDup_shard_set A sh : NoDup (shard_set A sh).
Proof. apply (NoDup_dedup series_eqb series_eqb_eq). Qed.

Lemma NoDup_db_set A : NoDup (db_set A).
Proof. apply (NoDup_dedup series_eqb series_eqb_eq). Qed.

Lemma shard_ok_ext sf S S' P t : (forall x, In x S' <-> In x S) -> shard_ok sf S P t -> shard_ok sf S' P t.
Proof.
  intros H [O Vr Vp He]. constructor; [|apply (view_set_ext sf S S' (t_sids t) (t_sids t)); [exact H|tauto|exact Vr]|apply (view_set_ext sf S S' (t_sids t) (t_sids t)); [exact H|tauto|exact Vp]|exact He].
  apply (ids_ok_ext sf S S' (t_sids t) (t_sids t)); [exact H|tauto|apply (io_nodup _ _ _ O)|exact O].
Qed.

(* ---------- the invariant ---------- *)

Record ts_ok (n : nat) (A : sstate) (st : tstate) : Prop := mkTsOk {
  tk_sf : sf_inv (ts_sf st);
  tk_len : length (ts_sh st) = n;
  tk_data : forall p, In p (ts_data st) <-> In p A;
  tk_A : forall sh s, In (sh, s) A -> valid_shard n sh = true /\ wf_series s = true;
  tk_shard : forall sh, valid_shard n sh = true -> shard_ok (ts_sf st) (shard_set A sh) [] (ts_get st sh);
  (* every id the series file still knows as undeleted is held by some shard *)
  tk_sfl : forall i s, sf_key (ts_sf st) i = Some s -> sf_deleted (ts_sf st) i = false ->
           exists sh, valid_shard n sh = true /\ In i (t_sids (ts_get st sh))
}.

Lemma ts_get_upd st sh sh' t n :
  length (ts_sh st) = n -> valid_shard n sh = true ->
  (nth (sh' - 1) (upd_nth (sh - 1) t (ts_sh st)) tsi_empty = if Nat.eqb sh' sh then t else nth (sh' - 1) (ts_sh st) tsi_empty) \/
  valid_shard n sh' = false.
Proof.
  intros Hl Hv. destruct (valid_shard n sh') eqn:Hv'; [left|right; reflexivity].
  apply valid_shard_iff in Hv. apply valid_shard_iff in Hv'.
  destruct (Nat.eqb sh' sh) eqn:E.
  - apply Nat.eqb_eq in E. subst. apply nth_upd_nth_eq. lia.
  - apply Nat.eqb_neq in E. apply nth_upd_nth_ne. lia.
Qed.

Lemma ts_init_ok n : ts_ok n [] (ts_init n).
Proof.
  constructor; cbn.
  - apply sf_inv_empty.
  - apply repeat_length.
  - tauto.
  - intros sh s [].
  - intros sh Hv. unfold ts_get, ts_init; cbn. apply valid_shard_iff in Hv.
    rewrite nth_repeat. apply (shard_ok_ext sf_empty []); [intros x; cbn; tauto|apply shard_ok_empty; apply sf_inv_empty].
  - intros i s H. cbn in H. discriminate.
Qed.

(* ---------- writes ---------- *)

Lemma ts_add_fold ss : forall sf t S,
  sf_inv sf -> shard_ok sf S [] t -> Forall (fun s => wf_series s = true) ss ->
  let '(sf', t') := fold_left (fun a s => tsi_add (fst a) (snd a) s) ss (sf, t) in
  sf_inv sf' /\ sf_ext sf sf' /\
  (exists S', shard_ok sf' S' [] t' /\ (forall x, In x S' <-> In x ss \/ In x S)) /\
  (forall i, (i < sf_next sf)%N -> sf_key sf' i = sf_key sf i /\ sf_deleted sf' i = sf_deleted sf i) /\
  (forall i, In i (t_sids t) -> In i (t_sids t')) /\
  (forall j sj, sf_key sf' j = Some sj -> (sf_next sf <= j)%N -> In j (t_sids t')).
Proof.
  induction ss as [|s ss IH]; intros sf t S I OK Hwf; cbn [fold_left].
  - ssplit; auto; [apply sf_ext_refl|exists S; split; [exact OK|intros x; cbn; tauto]|].
    intros j sj Hk Hge. apply (sf_key_bound sf I) in Hk. lia.
  - inversion Hwf as [|s' ss' Hs Hss]; subst.
    pose proof (tsi_add_ok sf I S t s OK Hs) as H1. cbn [fst snd]. destruct (tsi_add sf t s) as [sf1 t1].
    destruct H1 as [I1 [E1 [OK1 [_ [Hold1 [i [Hi [Hk [Hsids Hnew]]]]]]]]].
    specialize (IH sf1 t1 (s :: S) I1 OK1 Hss).
    destruct (fold_left (fun a s0 => tsi_add (fst a) (snd a) s0) ss (sf1, t1)) as [sf' t'].
    destruct IH as [I' [E' [[S' [OK' HS']] [Hold' [Hmono' Hnew']]]]].
    ssplit; auto.
    + eapply sf_ext_trans; eauto.
    + exists S'. split; [exact OK'|]. intros x. rewrite HS'. cbn [In]. split; [intros [H|[<-|H]]; auto|intros [[<-|H]|H]; auto].
    + intros j Hj. assert (j < sf_next sf1)%N by (pose proof (se_next _ _ E1); lia).
      destruct (Hold' j H) as [H1 H2], (Hold1 j Hj) as [H3 H4]. split; congruence.
    + intros j Hj. apply Hmono'. apply Hsids. auto.
    + intros j sj Hkj Hge. destruct (N.ltb_spec j (sf_next sf1)) as [Hlt|Hge1]; [|eapply Hnew'; eauto].
      apply Hmono'. rewrite (proj1 (Hold' j Hlt)) in Hkj. rewrite (Hnew j sj Hkj Hge). exact Hi.
Qed.

Lemma In_fold_sadd_pair sh ss d p :
  In p (fold_left (fun d s => sadd pair_eqb (sh, s) d) ss d) <-> In p d \/ exists s, In s ss /\ p = (sh, s).
Proof.
  revert d. induction ss as [|s ss IH]; intros d; cbn [fold_left].
  - split; [auto|intros [H|[s [[] _]]]; exact H].
  - rewrite IH, (In_sadd pair_eqb pair_eqb_eq). split.
    + intros [[->|H]|[s' [H1 H2]]]; [right; exists s; cbn; auto|auto|right; exists s'; cbn; auto].
    + intros [H|[s' [[<-|H1] H2]]]; [auto|auto|right; exists s'; auto].
Qed.

(* ---------- helpers for deletes ---------- *)

Lemma sf_delete_fold dead : forall sf, sf_inv sf ->
  let sf' := fold_left sf_delete dead sf in
  sf_inv sf' /\ sf_next sf' = sf_next sf /\ (forall j, sf_key sf' j = sf_key sf j) /\
  (forall j, ~ In j dead -> sf_deleted sf' j = sf_deleted sf j) /\
  (forall j, In j dead -> sf_deleted sf' j = true).
Proof.
  induction dead as [|i dead IH]; intros sf I; cbn [fold_left]; [ssplit; auto; intros j []|].
  destruct (sf_delete_spec sf I i) as [I1 [Hd1 [Hn1 [Hk1 Ho1]]]]. cbv zeta in *.
  destruct (IH (sf_delete sf i) I1) as [I' [Hn' [Hk' [Ho' Hd']]]]. cbv zeta in *.
  ssplit; auto.
  - congruence.
  - intros j. rewrite Hk'. apply Hk1.
  - intros j Hj. rewrite Ho'; [apply Ho1|]; intros H; apply Hj; cbn; auto.
  - intros j [<-|Hj]; [|apply Hd'; exact Hj].
    destruct (in_dec N.eq_dec i dead) as [H|H]; [apply Hd'; exact H|rewrite Ho'; assumption].
Qed.

Lemma filter_nil_all {A} (p : A -> bool) l : (forall x, In x l -> p x = false) -> filter p l = [].
Proof.
  induction l as [|x l IH]; intros H; cbn; [reflexivity|]. rewrite (H x (or_introl eq_refl)). apply IH. intros y Hy. apply H. cbn; auto.
Qed.

Lemma In_ts_sh st t : In t (ts_sh st) -> exists sh, valid_shard (length (ts_sh st)) sh = true /\ t = ts_get st sh.
Proof.
  intros H. apply (In_nth _ _ tsi_empty) in H. destruct H as [k [Hk E]]. exists (S k). split.
  - apply valid_shard_iff. lia.
  - unfold ts_get. cbn. rewrite Nat.sub_0_r. symmetry. exact E.
Qed.

Lemma ts_get_In st sh : valid_shard (length (ts_sh st)) sh = true -> In (ts_get st sh) (ts_sh st).
Proof. intros H. apply valid_shard_iff in H. unfold ts_get. apply nth_In. lia. Qed.

(* DropMeasurementIfSeriesNotExist over the names of the dropped series *)
Lemma tsi_drop_meas_fold sf S names : forall P t,
  shard_ok sf S P t ->
  let t' := fold_left (tsi_drop_meas_if_empty sf) names t in
  shard_ok sf S (filter (fun x => negb (memb str_eqb x names)) P) t' /\ t_sids t' = t_sids t /\ t_older t' = t_older t.
Proof.
  induction names as [|m names IH]; intros P t OK; cbn [fold_left].
  - split; [|auto]. rewrite filter_all_true; [exact OK|reflexivity].
  - destruct (tsi_drop_meas_ok sf S P t m OK) as [OK1 [Hs1 Ho1]]. cbv zeta in *.
    destruct (IH _ _ OK1) as [OK2 [Hs2 Ho2]]. cbv zeta in *. split; [|split; congruence].
    replace (filter (fun x => negb (memb str_eqb x (m :: names))) P)
      with (filter (fun x => negb (memb str_eqb x names)) (filter (fun x => negb (str_eqb x m)) P)); [exact OK2|].
    clear. induction P as [|x P IHP]; cbn; [reflexivity|].
    destruct (str_eqb x m) eqn:E; cbn; [exact IHP|]. rewrite IHP. reflexivity.
Qed.

Section Steps.
  Variable rx : str -> str -> bool.
  Variable n : nat.

  Lemma ts_write_ok A st sh ss :
    ts_ok n A st -> forallb wf_series ss = true -> ts_ok n (apply_op rx n A (OWrite sh ss)) (ts_write n st sh ss).
  Proof.
    intros [Isf Hl Hd HA Hsh Hsfl] Hwf. unfold ts_write. cbn [apply_op]. destruct (valid_shard n sh) eqn:Hv; [|constructor; assumption].
    assert (Hwf' : Forall (fun s => wf_series s = true) ss) by (apply Forall_forall; apply forallb_forall; exact Hwf).
    pose proof (ts_add_fold ss (ts_sf st) (ts_get st sh) (shard_set A sh) Isf (Hsh sh Hv) Hwf') as H.
    destruct (fold_left (fun a s => tsi_add (fst a) (snd a) s) ss (ts_sf st, ts_get st sh)) as [sf' t'].
    destruct H as [I' [E' [[S' [OK' HS']] [Hold [Hmono Hnew]]]]].
    set (A' := fold_left (fun st0 s => sadd pair_eqb (sh, s) st0) ss A).
    assert (HA' : forall p, In p A' <-> In p A \/ exists s, In s ss /\ p = (sh, s)) by (intros p; apply In_fold_sadd_pair).
    assert (Hget : forall sh', valid_shard n sh' = true ->
               nth (sh' - 1) (upd_nth (sh - 1) t' (ts_sh st)) tsi_empty = if Nat.eqb sh' sh then t' else ts_get st sh').
    { intros sh' Hv'. destruct (ts_get_upd st sh sh' t' n Hl Hv) as [H|H]; [exact H|congruence]. }
    constructor; cbn [ts_sf ts_data ts_sh].
    - exact I'.
    - rewrite upd_nth_length. exact Hl.
    - intros p. rewrite In_fold_sadd_pair, HA', Hd. tauto.
    - intros sh' s Hin. apply HA' in Hin. destruct Hin as [Hin|[s' [Hs' E]]]; [apply HA; exact Hin|].
      inversion E; subst. split; [exact Hv|]. rewrite forallb_forall in Hwf. apply Hwf. exact Hs'.
    - intros sh' Hv'. unfold ts_get. cbn [ts_sh]. rewrite (Hget sh' Hv'). destruct (Nat.eqb sh' sh) eqn:Es.
      + apply Nat.eqb_eq in Es. subst sh'. apply (shard_ok_ext sf' S'); [|exact OK'].
        intros x. rewrite In_shard_set, HA', HS', In_shard_set. split.
        * intros [H|[s [H1 H2]]]; [auto|inversion H2; subst; auto].
        * intros [H|H]; [right; exists x; auto|auto].
      + apply Nat.eqb_neq in Es. apply (shard_ok_ext sf' (shard_set A sh')).
        * intros x. rewrite !In_shard_set, HA'. split; [intros [H|[s [_ H]]]; [exact H|inversion H; congruence]|auto].
        * apply (shard_sf_same (ts_sf st) sf'); auto.
          -- intros i Hi. apply Hold. exact Hi.
          -- intros i Hi. apply Hold. destruct (io_live _ _ _ (so_ids _ _ _ _ (Hsh sh' Hv')) i Hi) as [s [Hk _]].
             eapply sf_key_bound; eauto.
    - intros i s Hk Hdel. destruct (N.ltb_spec i (sf_next (ts_sf st))) as [Hlt|Hge].
      + destruct (Hold i Hlt) as [H1 H2]. rewrite H1 in Hk. rewrite H2 in Hdel.
        destruct (Hsfl i s Hk Hdel) as [sh' [Hv' Hin]]. exists sh'. split; [exact Hv'|].
        unfold ts_get. cbn [ts_sh]. rewrite (Hget sh' Hv'). destruct (Nat.eqb sh' sh) eqn:Es; [|exact Hin].
        apply Nat.eqb_eq in Es. subst. apply Hmono. exact Hin.
      + exists sh. split; [exact Hv|]. unfold ts_get. cbn [ts_sh]. rewrite (Hget sh Hv), Nat.eqb_refl. eapply Hnew; eauto.
  Qed.

  (* Engine.deleteSeriesRange for keys that exist in shard sh *)
  Lemma ts_delete_keys_ok A st sh keys0 :
    ts_ok n A st -> valid_shard n sh = true -> (forall k, In k keys0 -> In (sh, k) A) ->
    ts_ok n (filter (fun p => negb (Nat.eqb (fst p) sh && memb series_eqb (snd p) keys0)) A) (ts_delete_keys st sh keys0).
  Proof.
    intros [Isf Hl Hd HA Hsh Hsfl] Hv Hkeys. unfold ts_delete_keys.
    set (keys := dedup series_eqb keys0).
    assert (Hkm : forall x, memb series_eqb x keys = memb series_eqb x keys0).
    { intros x. destruct (memb series_eqb x keys0) eqn:E.
      - apply (memb_In series_eqb series_eqb_eq). apply (In_dedup series_eqb series_eqb_eq). apply (memb_In series_eqb series_eqb_eq). exact E.
      - apply (memb_false series_eqb series_eqb_eq). intros H. unfold keys in H. apply (proj1 (In_dedup series_eqb series_eqb_eq x keys0)) in H.
        apply (proj2 (memb_In series_eqb series_eqb_eq x keys0)) in H. congruence. }
    set (A' := filter (fun p => negb (Nat.eqb (fst p) sh && memb series_eqb (snd p) keys0)) A).
    set (data := filter (fun p => negb (Nat.eqb (fst p) sh && memb series_eqb (snd p) keys)) (ts_data st)).
    assert (Hdata : forall p, In p data <-> In p A').
    { intros p. unfold data, A'. rewrite !filter_In, Hd. cbv beta. rewrite Hkm. tauto. }
    assert (HA' : forall sh' s, In (sh', s) A' <-> In (sh', s) A /\ ~ (sh' = sh /\ In s keys0)).
    { intros sh' s. unfold A'. rewrite filter_In. cbn [fst snd]. rewrite negb_true_iff, andb_false_iff, Nat.eqb_neq.
      rewrite (memb_false series_eqb series_eqb_eq). destruct (Nat.eq_dec sh' sh); tauto. }
    (* every key has lost its data *)
    assert (Hgone : filter (fun k => negb (memb pair_eqb (sh, k) data)) keys = keys).
    { apply filter_all_true. intros k Hk. apply negb_true_iff, (memb_false pair_eqb pair_eqb_eq). intros Hin.
      apply Hdata, HA' in Hin. apply (proj2 Hin). split; [reflexivity|]. apply (In_dedup series_eqb series_eqb_eq). exact Hk. }
    rewrite Hgone.
    pose proof (Hsh sh Hv) as OKsh. set (t := ts_get st sh) in *. set (sf := ts_sf st) in *.
    pose proof (so_ids _ _ _ _ OKsh) as Osh.
    (* the id of each key *)
    assert (Hid : forall k, In k keys -> exists i, sf_find sf k = Some i /\ In i (t_sids t) /\ sf_key sf i = Some k).
    { intros k Hk. apply (proj1 (In_dedup series_eqb series_eqb_eq _ _)) in Hk. apply Hkeys in Hk. apply In_shard_set in Hk.
      destruct (io_cover _ _ _ Osh k Hk) as [i [Hi Hki]]. destruct (io_live _ _ _ Osh i Hi) as [s' [Hk' [Hdl _]]].
      exists i. ssplit; auto. apply (sf_find_Some sf Isf). split; [exact Hki|exact Hdl]. }
    set (ids := flat_map (fun k => match sf_find sf k with Some i => [i] | None => [] end) keys).
    set (names := dedup str_eqb (flat_map (fun k => match sf_find sf k with Some _ => [fst k] | None => [] end) keys)).
    assert (Hids : forall i, In i ids <-> exists k, In k keys /\ sf_find sf k = Some i).
    { intros i. unfold ids. rewrite in_flat_map. split.
      - intros [k [Hk Hi]]. exists k. split; [exact Hk|]. destruct (sf_find sf k); cbn in Hi; [destruct Hi as [->|[]]; reflexivity|destruct Hi].
      - intros [k [Hk Hi]]. exists k. split; [exact Hk|]. rewrite Hi. cbn; auto. }
    assert (Hidk : forall i, In i ids <-> exists k, In k keys /\ sf_key sf i = Some k /\ In i (t_sids t)).
    { intros i. rewrite Hids. split.
      - intros [k [Hk Hf]]. destruct (Hid k Hk) as [j [Hf' [Hj Hkj]]]. rewrite Hf in Hf'. inversion Hf'; subst j. eauto.
      - intros [k [Hk [Hki Hi]]]. exists k. split; [exact Hk|]. destruct (Hid k Hk) as [j [Hf' [Hj Hkj]]].
        rewrite Hf'. f_equal. destruct (io_live _ _ _ Osh i Hi) as [s1 [K1 [D1 _]]], (io_live _ _ _ Osh j Hj) as [s2 [K2 [D2 _]]].
        apply (sf_live_unique sf Isf j i k); auto; congruence. }
    assert (Hnd : NoDup ids).
    { unfold ids. assert (Hndk : NoDup keys) by apply (NoDup_dedup series_eqb series_eqb_eq).
      clear Hgone. revert Hid Hndk. generalize keys. induction keys1 as [|k ks IHk]; intros Hid Hndk; cbn [flat_map]; [constructor|].
      inversion Hndk; subst. destruct (Hid k (or_introl eq_refl)) as [i [Hf [_ Hki]]]. rewrite Hf. cbn [app].
      constructor; [|apply IHk; [intros k' Hk'; apply Hid; cbn; auto|assumption]].
      intros Hin. apply in_flat_map in Hin. destruct Hin as [k' [Hk' Hi]].
      destruct (Hid k' (or_intror Hk')) as [i' [Hf' [_ Hki']]]. rewrite Hf' in Hi. destruct Hi as [<-|[]]. congruence. }
    assert (Hsub : forall i, In i ids -> In i (t_sids t)).
    { intros i Hi. apply Hidk in Hi. destruct Hi as [k [_ [_ H]]]. exact H. }
    destruct (tsi_drop_series_ok sf Isf ids (shard_set A sh) [] t OKsh Hnd Hsub) as [S1 [P1 [OK1 [Ho1 [Hs1 [HS1 HP1]]]]]].
    cbv zeta in *. set (t1 := tsi_drop_series sf t ids) in *.
    destruct (tsi_drop_meas_fold sf S1 names P1 t1 OK1) as [OK2 [Hs2 Ho2]]. cbv zeta in *.
    set (t2 := fold_left (tsi_drop_meas_if_empty sf) names t1) in *.
    assert (HP2 : filter (fun x => negb (memb str_eqb x names)) P1 = []).
    { apply filter_nil_all. intros m Hm. apply negb_false_iff, (memb_In str_eqb str_eqb_eq). apply HP1 in Hm.
      destruct Hm as [[]|[i [s [Hi [Hki Hm]]]]]. apply Hids in Hi. destruct Hi as [k [Hk Hf]].
      unfold names. apply (In_dedup str_eqb str_eqb_eq). apply in_flat_map. exists k. split; [exact Hk|]. rewrite Hf.
      apply (sf_find_Some sf Isf) in Hf. destruct Hf as [Hki' _]. rewrite Hki in Hki'. inversion Hki'; subst. cbn; auto. }
    rewrite HP2 in OK2.
    set (shards := upd_nth (sh - 1) t2 (ts_sh st)).
    assert (Hget : forall sh', valid_shard n sh' = true -> nth (sh' - 1) shards tsi_empty = if Nat.eqb sh' sh then t2 else ts_get st sh').
    { intros sh' Hv'. destruct (ts_get_upd st sh sh' t2 n Hl Hv) as [H|H]; [exact H|congruence]. }
    set (dead := filter (fun i => negb (existsb (fun t0 => memb N.eqb i (t_sids t0)) shards)) (dedup N.eqb ids)).
    assert (Hdead : forall i sh', In i dead -> valid_shard n sh' = true -> ~ In i (t_sids (nth (sh' - 1) shards tsi_empty))).
    { intros i sh' Hi Hv' Hin. unfold dead in Hi. apply filter_In in Hi. destruct Hi as [_ Hi]. apply negb_true_iff in Hi.
      rewrite existsb_false in Hi. specialize (Hi (nth (sh' - 1) shards tsi_empty)).
      rewrite (proj2 (memb_In N.eqb N.eqb_eq _ _) Hin) in Hi. discriminate Hi.
      apply nth_In. unfold shards. rewrite upd_nth_length, Hl. apply valid_shard_iff in Hv'. lia. }
    destruct (sf_delete_fold dead sf Isf) as [I' [Hn' [Hk' [Ho' Hd']]]]. cbv zeta in *.
    set (sf' := fold_left sf_delete dead sf) in *.
    assert (E' : sf_ext sf sf') by (constructor; [rewrite Hn'; lia|intros i s H; left; rewrite <- Hk'; exact H]).
    assert (HS1' : forall x, In x S1 <-> In (sh, x) A').
    { intros x. rewrite HS1, HA', In_shard_set. split.
      - intros [H1 H2]. split; [exact H1|]. intros [_ Hx]. apply H2.
        assert (Hxk : In x keys) by (apply (In_dedup series_eqb series_eqb_eq); exact Hx).
        destruct (Hid x Hxk) as [i [Hf [Hi Hki]]]. exists i. split; [apply Hids; eauto|exact Hki].
      - intros [H1 H2]. split; [exact H1|]. intros [i [Hi Hki]]. apply H2. split; [reflexivity|].
        apply Hidk in Hi. destruct Hi as [k [Hk [Hki' _]]]. rewrite Hki in Hki'. inversion Hki'; subst.
        apply (proj1 (In_dedup series_eqb series_eqb_eq _ _)) in Hk. exact Hk. }
    constructor; cbn [ts_sf ts_data ts_sh].
    - exact I'.
    - unfold shards. rewrite upd_nth_length. exact Hl.
    - exact Hdata.
    - intros sh' s Hin. apply HA' in Hin. apply HA. tauto.
    - intros sh' Hv'. unfold ts_get. cbn [ts_sh]. fold shards. pose proof (Hdead) as Hdd. rewrite (Hget sh' Hv'). destruct (Nat.eqb sh' sh) eqn:Es.
      + apply Nat.eqb_eq in Es. subst sh'. apply (shard_ok_ext sf' S1); [intros x; rewrite In_shard_set; symmetry; apply HS1'|].
        apply (shard_sf_same sf sf'); auto.
        intros i Hi. apply Ho'. intros Hin. apply (Hdd i sh Hin Hv). rewrite (Hget sh Hv), Nat.eqb_refl. exact Hi.
      + apply Nat.eqb_neq in Es. apply (shard_ok_ext sf' (shard_set A sh')).
        * intros x. rewrite !In_shard_set, HA'. split; [tauto|]. intros H. split; [exact H|]. intros [H1 _]. congruence.
        * apply (shard_sf_same sf sf'); auto.
          intros i Hi. apply Ho'. intros Hin. apply (Hdd i sh' Hin Hv'). rewrite (Hget sh' Hv'). apply Nat.eqb_neq in Es. rewrite Es. exact Hi.
    - intros i s Hk Hdel. fold shards. rewrite Hk' in Hk.
      assert (Hnd' : ~ In i dead) by (intros Hin; rewrite (Hd' i Hin) in Hdel; discriminate).
      rewrite (Ho' i Hnd') in Hdel. destruct (Hsfl i s Hk Hdel) as [sh' [Hv' Hin]].
      destruct (Nat.eqb sh' sh) eqn:Es.
      + apply Nat.eqb_eq in Es. subst sh'. fold t in Hin.
        destruct (in_dec N.eq_dec i ids) as [Hi|Hi].
        * (* left shard sh, so it must be held elsewhere, else it would be dead *)
          assert (Hex : existsb (fun t0 => memb N.eqb i (t_sids t0)) shards = true).
          { destruct (existsb (fun t0 => memb N.eqb i (t_sids t0)) shards) eqn:Ex; [reflexivity|]. exfalso. apply Hnd'.
            unfold dead. apply filter_In. split; [apply (In_dedup N.eqb N.eqb_eq); exact Hi|rewrite Ex; reflexivity]. }
          apply existsb_exists in Hex. destruct Hex as [t0 [Ht0 Hm]]. apply (memb_In N.eqb N.eqb_eq) in Hm.
          apply (In_nth _ _ tsi_empty) in Ht0. destruct Ht0 as [k [Hk0 E0]]. exists (Datatypes.S k). split.
          -- apply valid_shard_iff. unfold shards in Hk0. rewrite upd_nth_length, Hl in Hk0. lia.
          -- unfold ts_get. cbn [ts_sh]. fold shards. cbn. rewrite Nat.sub_0_r, E0. exact Hm.
        * exists sh. split; [exact Hv|]. unfold ts_get. cbn [ts_sh]. fold shards. rewrite (Hget sh Hv), Nat.eqb_refl.
          rewrite Hs2. apply Hs1. auto.
      + exists sh'. split; [exact Hv'|]. unfold ts_get. cbn [ts_sh]. fold shards. rewrite (Hget sh' Hv'), Es. exact Hin.
  Qed.

  Lemma ts_ok_ext A A' st : (forall p, In p A' <-> In p A) -> ts_ok n A st -> ts_ok n A' st.
  Proof.
    intros H [Isf Hl Hd HA Hsh Hsfl]. constructor; auto.
    - intros p. rewrite Hd. symmetry. apply H.
    - intros sh s Hin. apply HA. apply H. exact Hin.
    - intros sh Hv. apply (shard_ok_ext _ (shard_set A sh)); [|apply Hsh; exact Hv].
      intros x. rewrite !In_shard_set. apply H.
  Qed.

  Lemma shard_refines A st sh :
    ts_ok n A st -> valid_shard n sh = true ->
    refines (tsi_prims (ts_get st sh)) (ts_sf st) (t_sids (ts_get st sh)) (shard_set A sh).
  Proof.
    intros OK Hv. pose proof (tk_shard _ _ _ OK sh Hv) as [O Vr _ _].
    eapply tsi_refines; eauto; try apply (tk_sf _ _ _ OK).
  Qed.

  (* Store.DeleteSeries on one shard over a list of measurement names *)
  Lemma ts_delete_names_ok c sh names : forall A st,
    ts_ok n A st -> valid_shard n sh = true ->
    let st' := fold_left (fun st m => ts_delete_keys st sh (series_keys rx (tsi_prims (ts_get st sh)) (ts_sf st) m c)) names st in
    exists A', ts_ok n A' st' /\
      forall p, In p A' <-> In p A /\ ~ (fst p = sh /\ In (fst (snd p)) names /\ eval_opt rx c (snd p) = true).
  Proof.
    induction names as [|m names IH]; intros A st OK Hv; cbn [fold_left].
    - exists A. split; [exact OK|]. intros p. cbn. tauto.
    - set (keys := series_keys rx (tsi_prims (ts_get st sh)) (ts_sf st) m c).
      assert (Hkeys : forall k, In k keys <-> In (sh, k) A /\ fst k = m /\ eval_opt rx c k = true).
      { intros k. unfold keys. rewrite (series_keys_ok rx _ _ _ _ (shard_refines A st sh OK Hv)).
        unfold series_of. rewrite filter_In, In_shard_set, andb_true_iff, str_eqb_eq. tauto. }
      pose proof (ts_delete_keys_ok A st sh keys OK Hv (fun k Hk => proj1 (proj1 (Hkeys k) Hk))) as OK1.
      destruct (IH _ _ OK1 Hv) as [A' [OK' HA']]. exists A'. split; [exact OK'|].
      intros [sh' s]. rewrite HA', filter_In. cbn [fst snd In]. rewrite negb_true_iff, andb_false_iff, Nat.eqb_neq.
      rewrite (memb_false series_eqb series_eqb_eq s keys). rewrite (Hkeys s).
      destruct (Nat.eq_dec sh' sh) as [->|Hne]; [|tauto].
      split.
      + intros [[HA0 Hn1] Hn2]. split; [exact HA0|]. intros [_ [[Hm|Hin] He]]; [|tauto].
        destruct Hn1 as [Hn1|Hn1]; [congruence|]. apply Hn1. auto.
      + intros [HA0 Hn]. ssplit; auto; [right; intros [_ [Hm He]]; apply Hn; auto|intros [_ [Hin He]]; apply Hn; auto].
  Qed.

  Lemma ts_delete_shard_ok from c A st sh :
    ts_ok n A st -> valid_shard n sh = true ->
    exists A', ts_ok n A' (ts_delete_shard rx from c st sh) /\
      forall p, In p A' <-> In p A /\ ~ (fst p = sh /\ in_from from (fst (snd p)) = true /\ eval_opt rx c (snd p) = true).
  Proof.
    intros OK Hv. unfold ts_delete_shard.
    set (names := if is_nil from then p_meas (tsi_prims (ts_get st sh)) else from).
    destruct (ts_delete_names_ok c sh names A st OK Hv) as [A' [OK' HA']]. cbv zeta in *.
    exists A'. split; [exact OK'|]. intros [sh' s]. rewrite HA'. cbn [fst snd].
    assert (Hn : In (sh', s) A -> sh' = sh -> (In (fst s) names <-> in_from from (fst s) = true)).
    { intros Hin ->. unfold names, in_from. destruct (is_nil from) eqn:En; cbn.
      - split; [reflexivity|intros _]. apply (r_meas _ _ _ _ (shard_refines A st sh OK Hv)). exists s. split; [apply In_shard_set; exact Hin|reflexivity].
      - symmetry. apply (memb_In str_eqb str_eqb_eq). }
    split; intros [H1 H2]; (split; [exact H1|]); intros [E [H3 H4]]; apply H2; ssplit; auto; apply (Hn H1 E); exact H3.
  Qed.

  Lemma ts_delete_shards_ok from c shs : forall A st,
    ts_ok n A st -> (forall sh, In sh shs -> valid_shard n sh = true) ->
    exists A', ts_ok n A' (fold_left (ts_delete_shard rx from c) shs st) /\
      forall p, In p A' <-> In p A /\ ~ (In (fst p) shs /\ in_from from (fst (snd p)) = true /\ eval_opt rx c (snd p) = true).
  Proof.
    induction shs as [|sh shs IH]; intros A st OK Hv; cbn [fold_left].
    - exists A. split; [exact OK|]. intros p. cbn. tauto.
    - destruct (ts_delete_shard_ok from c A st sh OK (Hv sh (or_introl eq_refl))) as [A1 [OK1 HA1]].
      destruct (IH A1 _ OK1 (fun sh' H => Hv sh' (or_intror H))) as [A' [OK' HA']].
      exists A'. split; [exact OK'|]. intros p. rewrite HA', HA1. cbn [In].
      split.
      + intros [[H1 H2] H3]. split; [exact H1|]. intros [[Hs|Hs] [Hf He]]; [apply H2; ssplit; auto|apply H3; auto].
      + intros [H1 H2]. ssplit; auto; intros [Hs [Hf He]]; apply H2; ssplit; auto.
  Qed.

  Lemma ts_get_set st sh sf t sh' :
    length (ts_sh st) = n -> valid_shard n sh = true -> valid_shard n sh' = true ->
    ts_get (ts_set st sh sf t) sh' = if Nat.eqb sh' sh then t else ts_get st sh'.
  Proof.
    intros Hl Hv Hv'. unfold ts_get, ts_set. cbn [ts_sh].
    destruct (ts_get_upd st sh sh' t n Hl Hv) as [H|H]; [exact H|congruence].
  Qed.

  (* a step that only touches the index of one shard, keeping its series id set *)
  Lemma ts_set_ok A st sh t :
    ts_ok n A st -> valid_shard n sh = true ->
    shard_ok (ts_sf st) (shard_set A sh) [] t -> (forall i, In i (t_sids t) <-> In i (t_sids (ts_get st sh))) ->
    ts_ok n A (ts_set st sh (ts_sf st) t).
  Proof.
    intros [Isf Hl Hd HA Hsh Hsfl] Hv OKt Hs. constructor.
    - exact Isf.
    - unfold ts_set; cbn [ts_sh]. rewrite upd_nth_length. exact Hl.
    - exact Hd.
    - exact HA.
    - intros sh' Hv'. rewrite (ts_get_set st sh (ts_sf st) t sh' Hl Hv Hv'). change (ts_sf (ts_set st sh (ts_sf st) t)) with (ts_sf st).
      destruct (Nat.eqb sh' sh) eqn:Es; [apply Nat.eqb_eq in Es; subst; exact OKt|apply Hsh; exact Hv'].
    - change (ts_sf (ts_set st sh (ts_sf st) t)) with (ts_sf st).
      intros i s Hk Hdl. destruct (Hsfl i s Hk Hdl) as [sh' [Hv' Hin]]. exists sh'. split; [exact Hv'|].
      rewrite (ts_get_set st sh (ts_sf st) t sh' Hl Hv Hv').
      destruct (Nat.eqb sh' sh) eqn:Es; [apply Nat.eqb_eq in Es; subst; apply Hs; exact Hin|exact Hin].
  Qed.

  (* Store.DeleteShard, then the shard is created again *)
  Lemma ts_drop_shard_ok A st sh :
    ts_ok n A st -> ts_ok n (apply_op rx n A (ODropShard sh)) (ts_drop_shard n st sh).
  Proof.
    intros OK. pose proof OK as [Isf Hl Hd HA Hsh Hsfl]. unfold ts_drop_shard. cbn [apply_op].
    set (A' := filter (fun p => negb (Nat.eqb (fst p) sh)) A).
    assert (HA' : forall sh' s, In (sh', s) A' <-> In (sh', s) A /\ sh' <> sh).
    { intros sh' s. unfold A'. rewrite filter_In. cbn [fst]. rewrite negb_true_iff, Nat.eqb_neq. tauto. }
    destruct (valid_shard n sh) eqn:Hv.
    2: { apply (ts_ok_ext A); [|exact OK]. intros [sh' s]. rewrite HA'. split; [tauto|]. intros H. split; [exact H|].
         intros ->. destruct (HA sh s H) as [Hv' _]. congruence. }
    set (sf := ts_sf st) in *. set (t := ts_get st sh).
    set (shards := upd_nth (sh - 1) tsi_empty (ts_sh st)).
    assert (Hget : forall sh', valid_shard n sh' = true -> nth (sh' - 1) shards tsi_empty = if Nat.eqb sh' sh then tsi_empty else ts_get st sh').
    { intros sh' Hv'. destruct (ts_get_upd st sh sh' tsi_empty n Hl Hv) as [H|H]; [exact H|congruence]. }
    set (dead := filter (fun i => negb (existsb (fun t0 => memb N.eqb i (t_sids t0)) shards)) (t_sids t)).
    assert (Hdead : forall i sh', In i dead -> valid_shard n sh' = true -> ~ In i (t_sids (nth (sh' - 1) shards tsi_empty))).
    { intros i sh' Hi Hv' Hin. unfold dead in Hi. apply filter_In in Hi. destruct Hi as [_ Hi]. apply negb_true_iff in Hi.
      rewrite existsb_false in Hi. specialize (Hi (nth (sh' - 1) shards tsi_empty)).
      rewrite (proj2 (memb_In N.eqb N.eqb_eq _ _) Hin) in Hi. discriminate Hi.
      apply nth_In. unfold shards. rewrite upd_nth_length, Hl. apply valid_shard_iff in Hv'. lia. }
    destruct (sf_delete_fold dead sf Isf) as [I' [Hn' [Hk' [Ho' Hd']]]]. cbv zeta in *.
    set (sf' := fold_left sf_delete dead sf) in *.
    assert (E' : sf_ext sf sf') by (constructor; [rewrite Hn'; lia|intros i s H; left; rewrite <- Hk'; exact H]).
    constructor; cbn [ts_sf ts_data ts_sh].
    - exact I'.
    - unfold shards. rewrite upd_nth_length. exact Hl.
    - intros [sh' s]. rewrite filter_In, Hd, HA'. cbn [fst]. rewrite negb_true_iff, Nat.eqb_neq. tauto.
    - intros sh' s Hin. apply HA' in Hin. apply HA. tauto.
    - intros sh' Hv'. unfold ts_get. cbn [ts_sh]. fold shards. rewrite (Hget sh' Hv'). destruct (Nat.eqb sh' sh) eqn:Es.
      + apply Nat.eqb_eq in Es. subst sh'. apply (shard_ok_ext sf' []); [|apply shard_ok_empty; exact I'].
        intros x. rewrite In_shard_set, HA'. cbn. tauto.
      + apply Nat.eqb_neq in Es. apply (shard_ok_ext sf' (shard_set A sh')).
        * intros x. rewrite !In_shard_set, HA'. tauto.
        * apply (shard_sf_same sf sf'); auto.
          intros i Hi. apply Ho'. intros Hin. apply (Hdead i sh' Hin Hv'). rewrite (Hget sh' Hv'). apply Nat.eqb_neq in Es. rewrite Es. exact Hi.
    - intros i s Hk Hdel. fold shards. rewrite Hk' in Hk.
      assert (Hnd' : ~ In i dead) by (intros Hin; rewrite (Hd' i Hin) in Hdel; discriminate).
      rewrite (Ho' i Hnd') in Hdel. destruct (Hsfl i s Hk Hdel) as [sh' [Hv' Hin]].
      destruct (Nat.eqb sh' sh) eqn:Es.
      + apply Nat.eqb_eq in Es. subst sh'. fold t in Hin.
        assert (Hex : existsb (fun t0 => memb N.eqb i (t_sids t0)) shards = true).
        { destruct (existsb (fun t0 => memb N.eqb i (t_sids t0)) shards) eqn:Ex; [reflexivity|]. exfalso. apply Hnd'.
          unfold dead. apply filter_In. split; [exact Hin|rewrite Ex; reflexivity]. }
        apply existsb_exists in Hex. destruct Hex as [t0 [Ht0 Hm]]. apply (memb_In N.eqb N.eqb_eq) in Hm.
        apply (In_nth _ _ tsi_empty) in Ht0. destruct Ht0 as [k [Hk0 E0]]. exists (Datatypes.S k). split.
        * apply valid_shard_iff. unfold shards in Hk0. rewrite upd_nth_length, Hl in Hk0. lia.
        * unfold ts_get. cbn [ts_sh]. fold shards. cbn. rewrite Nat.sub_0_r, E0. exact Hm.
      + exists sh'. split; [exact Hv'|]. unfold ts_get. cbn [ts_sh]. fold shards. rewrite (Hget sh' Hv'), Es. exact Hin.
  Qed.

  Theorem ts_step_ok A st o :
    wf_op o = true -> ts_ok n A st -> ts_ok n (apply_op rx n A o) (ts_step rx n st o).
  Proof.
    intros Hwf OK. destruct o as [sh ss|shs from c|m|sh|sh|sh lvl| |sh| | ]; cbn [ts_step].
    - apply ts_write_ok; assumption.
    - (* DELETE *)
      destruct (ts_delete_shards_ok from c (filter (fun sh => memb Nat.eqb sh shs) (seq 1 n)) A st OK) as [A' [OK' HA']].
      { intros sh Hin. apply filter_In in Hin. apply In_seq_valid. tauto. }
      apply (ts_ok_ext A'); [|exact OK']. intros [sh s]. cbn [apply_op]. rewrite filter_In. cbn [fst snd].
      rewrite negb_true_iff. rewrite HA'. cbn [fst snd]. rewrite filter_In, In_seq_valid.
      split.
      + intros [Hin Hb]. split; [exact Hin|]. intros [[_ Hm] [Hf He]]. rewrite Hm, Hf, He in Hb. discriminate.
      + intros [Hin Hn]. split; [exact Hin|].
        destruct (memb Nat.eqb sh shs) eqn:Em; [|reflexivity]. destruct (in_from from (fst s)) eqn:Ef; [|reflexivity].
        destruct (eval_opt rx c s) eqn:Ee; [|reflexivity]. exfalso. apply Hn. ssplit; auto.
        apply (tk_A _ _ _ OK sh s Hin).
    - (* DROP MEASUREMENT *)
      destruct (ts_delete_shards_ok [m] None (seq 1 n) A st OK) as [A' [OK' HA']].
      { intros sh Hin. apply In_seq_valid. exact Hin. }
      apply (ts_ok_ext A'); [|exact OK']. intros [sh s]. cbn [apply_op]. rewrite filter_In. cbn [fst snd].
      rewrite negb_true_iff. rewrite HA'. cbn [fst snd eval_opt]. rewrite In_seq_valid. unfold in_from. cbn [is_nil orb memb existsb]. rewrite orb_false_r.
      split.
      + intros [Hin Hb]. split; [exact Hin|]. intros [_ [Hf _]]. congruence.
      + intros [Hin Hn]. split; [exact Hin|]. destruct (str_eqb (fst s) m) eqn:E; [|reflexivity]. exfalso. apply Hn.
        ssplit; auto. apply (tk_A _ _ _ OK sh s Hin).
    - (* shard deletion *)
      apply ts_drop_shard_ok. exact OK.
    - (* log compaction *)
      cbn [apply_op]. destruct (valid_shard n sh) eqn:Hv; [|exact OK].
      apply ts_set_ok; auto; [apply tsi_compact_log_ok; apply (tk_shard _ _ _ OK sh Hv)|reflexivity].
    - (* level compaction *)
      cbn [apply_op]. destruct (valid_shard n sh) eqn:Hv; [|exact OK].
      apply ts_set_ok; auto; [apply tsi_compact_level_ok; apply (tk_shard _ _ _ OK sh Hv)|].
      intros i. unfold tsi_compact_level. destruct (split_level lvl (t_older (ts_get st sh))) as [[pre run] post].
      destruct ((2 <=? length run) && (1 <=? lvl)); reflexivity.
    - (* series-file compaction *)
      cbn [apply_op]. destruct OK as [Isf Hl Hd HA Hsh Hsfl].
      destruct (sf_compact_spec (ts_sf st) Isf) as [I' [Hn [Hdel Hkey]]]. cbv zeta in *.
      constructor; cbn [ts_sf ts_data ts_sh]; auto.
      + intros sh Hv. apply shard_sf_compact; [exact Isf|apply Hsh; exact Hv].
      + intros i s Hk Hdl. rewrite Hdel in Hdl. rewrite Hkey, Hdl in Hk. apply (Hsfl i s Hk Hdl).
    - exact OK.
    - (* a new series-file segment *)
      cbn [apply_op]. destruct OK as [Isf Hl Hd HA Hsh Hsfl].
      destruct (sf_roll_spec (ts_sf st) Isf) as [I' [Hn [Hkey [Hdel _]]]].
      constructor; cbn [ts_sf ts_data ts_sh]; auto.
      intros sh Hv. apply (shard_sf_same (ts_sf st)); auto; [|apply Hsh; exact Hv].
      constructor; [rewrite Hn; lia|intros i s H; left; rewrite Hkey in H; exact H].
    - (* reopen *)
      cbn [apply_op]. destruct OK as [Isf Hl Hd HA Hsh Hsfl]. rewrite (sf_reopen_id (ts_sf st) Isf).
      assert (Hget : forall sh, valid_shard n sh = true ->
                nth (sh - 1) (map (tsi_reopen (ts_sf st)) (ts_sh st)) tsi_empty = tsi_reopen (ts_sf st) (ts_get st sh)).
      { intros sh Hv. apply valid_shard_iff in Hv. unfold ts_get.
        rewrite (nth_indep _ tsi_empty (tsi_reopen (ts_sf st) tsi_empty)); [apply map_nth|rewrite map_length; lia]. }
      constructor; cbn [ts_sf ts_data ts_sh]; auto.
      + rewrite map_length. exact Hl.
      + intros sh Hv. unfold ts_get. cbn [ts_sh]. rewrite (Hget sh Hv). apply tsi_reopen_ok. apply Hsh. exact Hv.
      + intros i s Hk Hdl. destruct (Hsfl i s Hk Hdl) as [sh [Hv Hin]]. exists sh. split; [exact Hv|].
        unfold ts_get. cbn [ts_sh]. rewrite (Hget sh Hv). unfold tsi_reopen. cbn [t_sids].
        apply (vo_fold _ _ _ _ _ _ _ (so_rep _ _ _ _ (Hsh sh Hv))). exact Hin.
  Qed.

  Theorem ts_run_ok ops : wf_ops ops = true -> ts_ok n (run_spec rx n ops) (ts_run rx n ops).
  Proof.
    unfold run_spec, ts_run. intros Hwf.
    assert (H : forall A st, ts_ok n A st -> ts_ok n (fold_left (apply_op rx n) ops A) (fold_left (ts_step rx n) ops st)).
    { induction ops as [|o ops IH]; intros A st OK; cbn [fold_left]; [exact OK|].
      cbn [wf_ops forallb] in Hwf. apply andb_true_iff in Hwf. destruct Hwf as [Ho Hops].
      apply IH; [exact Hops|]. apply ts_step_ok; assumption. }
    apply H. apply ts_init_ok.
  Qed.
End Steps.
