(* C14/ProofsConv.v — the offline conversion (influx_inspect buildtsi: IndexShard) of a shard to a
   TSI index: an index opened with DisableFsync keeps appended log entries in the log file's buffer;
   whatever the buffer capacity, the batch size and the log/level compactions in between, after
   Close the files hold every entry, and the index opened from them lists exactly the series that
   were fed to it. *)
From Verif Require Import C14.Spec C14.Model C14.ProofsBase C14.ProofsQuery C14.ProofsSfile
     C14.ProofsLsmA C14.ProofsLsmB C14.ProofsLsmC C14.ProofsLsmD C14.ProofsLsmE C14.ProofsLsmF C14.ProofsLsmG C14.ProofsLsmH.

(* ---------- batches ---------- *)

Lemma chunks_concat {A} bsz : (1 <= bsz)%nat -> forall fuel (l : list A), (length l <= fuel)%nat -> concat (chunks fuel bsz l) = l.
Proof.
  intros Hb. induction fuel as [|fuel IH]; intros l Hl.
  - destruct l; [reflexivity|cbn in Hl; lia].
  - destruct l as [|x l]; [reflexivity|]. cbn [chunks concat].
    rewrite IH; [apply firstn_skipn|]. rewrite skipn_length. cbn [length] in *. lia.
Qed.

(* ---------- the invariant of a conversion in progress ---------- *)

Record cv_ok (S : list series) (c : cvt) : Prop := mkCvOk {
  co_sf : sf_inv (c_sf c);
  co_shard : shard_ok (c_sf c) S [] (c_t c)
}.

Lemma cv_add_ok bufn S c s :
  cv_ok S c -> wf_series s = true -> cv_ok (s :: S) (cv_add bufn c s).
Proof.
  intros [I OK] Hwf. unfold cv_add.
  pose proof (tsi_add_ok (c_sf c) I S (c_t c) s OK Hwf) as H.
  destruct (tsi_add (c_sf c) (c_t c) s) as [sf' t']. destruct H as [I' [_ [OK' _]]].
  constructor; cbn [c_sf c_t]; assumption.
Qed.

Lemma cv_add_fold bufn ss : forall S c,
  cv_ok S c -> (forall s, In s ss -> wf_series s = true) ->
  exists S', cv_ok S' (fold_left (cv_add bufn) ss c) /\ (forall x, In x S' <-> In x ss \/ In x S).
Proof.
  induction ss as [|s ss IH]; intros S c OK Hwf; cbn [fold_left].
  - exists S. split; [exact OK|intros x; cbn; tauto].
  - destruct (IH (s :: S) (cv_add bufn c s)) as [S' [OK' HS']].
    + apply cv_add_ok; [exact OK|apply Hwf; left; reflexivity].
    + intros x Hx. apply Hwf. right. exact Hx.
    + exists S'. split; [exact OK'|]. intros x. rewrite HS'. cbn [In]. split; [intros [H|[<-|H]]; auto|intros [[<-|H]|H]; auto].
Qed.

Lemma tsi_cascade_ok sf S t : shard_ok sf S [] t -> shard_ok sf S [] (tsi_cascade t).
Proof.
  intros OK. unfold tsi_cascade. cbn [fold_left]. repeat apply tsi_compact_level_ok. exact OK.
Qed.

Lemma cv_batch_ok small bufn S c ss :
  cv_ok S c -> (forall s, In s ss -> wf_series s = true) ->
  exists S', cv_ok S' (cv_batch small bufn c ss) /\ (forall x, In x S' <-> In x ss \/ In x S).
Proof.
  intros OK Hwf. destruct (cv_add_fold bufn ss S c OK Hwf) as [S' [[I' OK'] HS']].
  exists S'. split; [|exact HS']. unfold cv_batch.
  destruct (small && negb (is_nil (t_ents (c_t (fold_left (cv_add bufn) ss c))))).
  - constructor; cbn [c_sf c_t]; [exact I'|]. apply tsi_cascade_ok. apply tsi_compact_log_ok. exact OK'.
  - constructor; assumption.
Qed.

Lemma cv_batches_ok small bufn bs : forall S c,
  cv_ok S c -> (forall s, In s (concat bs) -> wf_series s = true) ->
  exists S', cv_ok S' (fold_left (cv_batch small bufn) bs c) /\ (forall x, In x S' <-> In x (concat bs) \/ In x S).
Proof.
  induction bs as [|b bs IH]; intros S c OK Hwf; cbn [fold_left concat].
  - exists S. split; [exact OK|intros x; cbn; tauto].
  - cbn [concat] in Hwf. destruct (cv_batch_ok small bufn S c b OK) as [S1 [OK1 HS1]].
    { intros s Hs. apply Hwf. apply in_or_app. left. exact Hs. }
    destruct (IH S1 (cv_batch small bufn c b) OK1) as [S' [OK' HS']].
    { intros s Hs. apply Hwf. apply in_or_app. right. exact Hs. }
    exists S'. split; [exact OK'|]. intros x. rewrite HS', HS1, in_app_iff. tauto.
Qed.

(* Close flushes the buffer, so the opened index is the restart of the index that was running *)
Lemma cv_open_close c : cv_open (cv_close c) = tsi_reopen (c_sf c) (c_t c).
Proof. unfold cv_open, cv_close. cbn [c_sf c_t c_nbuf skipn]. destruct (c_t c); reflexivity. Qed.

(* ---------- the converted index lists the series it was given ---------- *)

Theorem conv_lists_keys rx sf keys bsz small S m c :
  sf_inv sf -> (forall s, In s keys -> wf_series s = true) -> (forall s, In s S <-> In s keys) -> (1 <= bsz)%nat ->
  forall r, In r (q_series rx (tsi_prims (snd (cv_index sf keys bsz small))) (fst (cv_index sf keys bsz small)) m c)
            <-> In r (map series_row (series_of rx S m c)).
Proof.
  intros I Hwf HS Hb r. unfold cv_index. cbn [fst snd].
  assert (Hcat : concat (chunks (length keys) bsz keys) = keys) by (apply chunks_concat; [exact Hb|lia]).
  destruct (cv_batches_ok small bsz (chunks (length keys) bsz keys) [] (mkCv sf tsi_empty 0)) as [S' [[I' OK'] HS']].
  { constructor; cbn [c_sf c_t]; [exact I|apply shard_ok_empty; exact I]. }
  { rewrite Hcat. exact Hwf. }
  rewrite Hcat in HS'. set (c0 := fold_left (cv_batch small bsz) (chunks (length keys) bsz keys) (mkCv sf tsi_empty 0)) in *.
  rewrite cv_open_close. change (c_sf (cv_close c0)) with (c_sf c0).
  pose proof (tsi_reopen_ok (c_sf c0) S' [] (c_t c0) OK') as [O Vr _ _].
  assert (R : refines (tsi_prims (tsi_reopen (c_sf c0) (c_t c0))) (c_sf c0) (t_sids (tsi_reopen (c_sf c0) (c_t c0))) S')
    by (eapply tsi_refines; eauto).
  rewrite (q_series_ok rx _ (c_sf c0) _ S' R m c r). rewrite !in_map_iff.
  assert (E : forall s, In s (series_of rx S' m c) <-> In s (series_of rx S m c)).
  { intros s. unfold series_of. rewrite !filter_In, HS', HS. cbn [In]. tauto. }
  split; intros [s [Es Hs]]; exists s; (split; [exact Es|]); apply E; exact Hs.
Qed.

(* stated on the conversion itself: what is still buffered when the index is closed does not matter *)
Theorem conv_close_flushes c : c_nbuf (cv_close c) = 0%nat /\ cv_open (cv_close c) = tsi_reopen (c_sf c) (c_t c).
Proof. split; [reflexivity|apply cv_open_close]. Qed.
