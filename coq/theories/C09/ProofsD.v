(* C09/ProofsD.v — layer B: every output file written from a block stream satisfies the
   executable form of output_sorted_disjoint_bounded; contiguity implies the jump
   hypothesis; the jump hypothesis cannot be dropped. *)
From Verif Require Import Shard.Store C09.Model C09.Run C09.ProofsA C09.ProofsB C09.ProofsC.
From VerifGen Require Import Consts.
From Coq Require Import ZifyBool ZifyNat ZifyN.
Open Scope Z_scope.

(* ---------- strictly increasing (key, time) points ---------- *)

Definition points (s : list (key * block)) : list (key * Z) :=
  flat_map (fun kb => map (fun x => (fst kb, fst x)) (snd kb)) s.

Fixpoint psorted (l : list (key * Z)) : Prop :=
  match l with
  | [] => True
  | x :: r => (forall y, In y r -> point_ltb x y = true) /\ psorted r
  end.

Lemma psorted_app a b :
  psorted a -> psorted b -> (forall x y, In x a -> In y b -> point_ltb x y = true) -> psorted (a ++ b).
Proof.
  induction a as [|x a IH]; intros Ha Hb Hab; cbn [app]; [assumption|].
  destruct Ha as [Hx Ha]. cbn [psorted]. split.
  - intros y Hy. apply in_app_iff in Hy. destruct Hy as [Hy|Hy]; [auto|]. apply Hab; [left; reflexivity|assumption].
  - apply IH; auto. intros x' y Hx' Hy. apply Hab; [right; assumption|assumption].
Qed.

Lemma psorted_app_inv a b : psorted (a ++ b) -> psorted a /\ psorted b.
Proof.
  induction a as [|x a IH]; cbn [app]; intros H; [split; [exact I|assumption]|].
  destruct H as [Hx H]. destruct (IH H) as [Ha Hb]. split; [|assumption].
  cbn [psorted]. split; [|assumption]. intros y Hy. apply Hx. apply in_app_iff. left; assumption.
Qed.

Lemma psorted_chain l : psorted l -> chain point_ltb l = true.
Proof.
  induction l as [|x r IH]; intros H; cbn [chain]; [reflexivity|].
  destruct H as [Hx Hr]. rewrite (IH Hr), andb_true_r.
  destruct r as [|y r']; [reflexivity|]. apply Hx. left; reflexivity.
Qed.

Lemma points_app a b : points (a ++ b) = points a ++ points b.
Proof. unfold points. apply flat_map_app. Qed.

Lemma points_key_blocks k (bs : list block) :
  points (map (fun b => (k, b)) bs) = map (fun x => (k, fst x)) (concat bs).
Proof.
  induction bs as [|b r IH]; cbn [map points flat_map concat fst snd]; [reflexivity|].
  fold (points (map (fun b0 => (k, b0)) r)). rewrite IH, map_app. reflexivity.
Qed.

Lemma psorted_key_values k vs : ssorted vs -> psorted (map (fun x => (k, fst x)) vs).
Proof.
  induction vs as [|x r IH]; intros Hs; cbn [map psorted]; [exact I|].
  split; [|apply IH; exact (ssorted_tail _ _ Hs)].
  intros y Hy. apply in_map_iff in Hy. destruct Hy as [z [<- Hz]].
  pose proof (ssorted_all_gt _ _ Hs z Hz) as L.
  unfold point_ltb. cbn [fst snd]. rewrite key_eqb_refl. cbn [andb].
  destruct (Z.ltb_spec (fst x) (fst z)); [apply orb_true_r|lia].
Qed.

Lemma in_points_stream_key size keys valf y :
  In y (points (stream_of size keys valf)) -> In (fst y) keys.
Proof.
  unfold stream_of. induction keys as [|h r IH]; cbn [flat_map]; [intros []|].
  rewrite points_app, in_app_iff, points_key_blocks. intros [H|H].
  - apply in_map_iff in H. destruct H as [z [<- _]]. left; reflexivity.
  - right. apply IH. assumption.
Qed.

Lemma stream_psorted size keys valf :
  (0 < size)%nat -> ksorted keys -> (forall k, ssorted (valf k)) -> psorted (points (stream_of size keys valf)).
Proof.
  intros Hs. induction keys as [|h r IH]; intros Hk Hv; [exact I|].
  destruct Hk as [Hh Hr]. unfold stream_of. cbn [flat_map]. fold (stream_of size r valf).
  rewrite points_app, points_key_blocks, chunks_concat by assumption.
  apply psorted_app; [apply psorted_key_values, Hv|apply IH; assumption|].
  intros x y Hx Hy. apply in_map_iff in Hx. destruct Hx as [z [<- _]].
  apply in_points_stream_key in Hy. unfold point_ltb. cbn [fst]. rewrite (Hh _ Hy). reflexivity.
Qed.

Lemma segs_psorted segs : psorted (points (concat segs)) -> forall seg, In seg segs -> psorted (points seg).
Proof.
  induction segs as [|s r IH]; intros H seg Hin; [destruct Hin|].
  cbn [concat] in H. rewrite points_app in H. apply psorted_app_inv in H. destruct H as [Hs Hr].
  destruct Hin as [<-|Hin]; [assumption|]. apply IH; assumption.
Qed.

(* ---------- grouping blocks by key ---------- *)

Lemma items_of_group_items seg : items_of (group_items seg) = seg.
Proof.
  induction seg as [|[k b] r IH]; [reflexivity|]. cbn [group_items].
  destruct (group_items r) as [|[k' bs] rest] eqn:E.
  - cbn in IH. subst r. reflexivity.
  - destruct (key_eqb k k') eqn:Ek.
    + apply key_eqb_eq in Ek. subst k'. rewrite <- IH. reflexivity.
    + rewrite <- IH. reflexivity.
Qed.

Lemma flat_points_items f : flat_points f = points (items_of f).
Proof.
  unfold flat_points, items_of. induction f as [|[k bs] r IH]; [reflexivity|].
  cbn [flat_map fst snd]. rewrite points_app, points_key_blocks, IH. reflexivity.
Qed.

Lemma group_items_distinct seg : chain (fun a b => negb (key_eqb a b)) (map fst (group_items seg)) = true.
Proof.
  induction seg as [|[k b] r IH]; [reflexivity|]. cbn [group_items].
  destruct (group_items r) as [|[k' bs] rest] eqn:E; [reflexivity|].
  destruct (key_eqb k k') eqn:Ek.
  - apply key_eqb_eq in Ek. subst k'. exact IH.
  - cbn [map fst chain] in *. rewrite Ek. cbn [negb andb]. exact IH.
Qed.

Lemma group_items_blocks seg : forall k bs,
  In (k, bs) (group_items seg) -> bs <> [] /\ forall b, In b bs -> In (k, b) seg.
Proof.
  induction seg as [|[k0 b0] r IH]; intros k bs H; [destruct H|]. cbn [group_items] in H.
  destruct (group_items r) as [|[k' bs'] rest] eqn:E.
  - destruct H as [H|[]]. inversion H; subst. split; [discriminate|]. intros b [<-|[]]. left; reflexivity.
  - destruct (key_eqb k0 k') eqn:Ek.
    + apply key_eqb_eq in Ek. subst k'. destruct H as [H|H].
      * inversion H; subst. split; [discriminate|]. intros b [<-|Hb]; [left; reflexivity|].
        right. apply (IH k bs'); [left; reflexivity|assumption].
      * destruct (IH k bs (or_intror H)) as [N I2]. split; [assumption|]. intros b Hb. right. auto.
    + destruct H as [H|H].
      * inversion H; subst. split; [discriminate|]. intros b [<-|[]]. left; reflexivity.
      * destruct (IH k bs H) as [N I2]. split; [assumption|]. intros b Hb. right. auto.
Qed.

(* ---------- roll-over keeps every run of one key within the writer's limit ---------- *)

Lemma split_runs maxe : (1 <= maxe)%N -> forall items cur ck cnt,
  (cnt < maxe)%N ->
  (forall tail, runs_okb maxe None 0%N (rev cur ++ tail) = runs_okb maxe ck cnt tail) ->
  forall seg, In seg (split_files maxe cur ck cnt items) -> runs_okb maxe None 0%N seg = true.
Proof.
  intros Hm. induction items as [|[k b] r IH]; intros cur ck cnt Hc Hinv seg Hin; cbn [split_files] in Hin;
    rewrite <- ?rev_alt in Hin.
  - destruct cur as [|c0 cur']; [destruct Hin|]. destruct Hin as [<-|[]].
    pose proof (Hinv []) as H0. rewrite app_nil_r in H0. etransitivity; [exact H0|reflexivity].
  - set (cnt' := match ck with
                 | Some k0 => if key_eqb k0 k then (cnt + 1)%N else 1%N
                 | None => 1%N
                 end) in *.
    assert (Hle : (cnt' <= maxe)%N).
    { unfold cnt'. destruct ck as [k0|]; [destruct (key_eqb k0 k)|]; lia. }
    assert (Hstep : forall tail, runs_okb maxe None 0%N (rev ((k, b) :: cur) ++ tail) =
                                 runs_okb maxe (Some k) cnt' tail).
    { intros tail. cbn [rev]. rewrite <- app_assoc. cbn [app]. rewrite Hinv. cbn [runs_okb]. fold cnt'.
      destruct (N.leb_spec cnt' maxe); [reflexivity|lia]. }
    destruct (N.leb_spec maxe cnt') as [Hge|Hlt].
    + destruct Hin as [<-|Hin].
      * pose proof (Hstep []) as H0. rewrite app_nil_r in H0. etransitivity; [exact H0|reflexivity].
      * apply (IH [] None 0%N); [lia|reflexivity|assumption].
    + apply (IH ((k, b) :: cur) (Some k) cnt'); [assumption|exact Hstep|assumption].
Qed.

(* ---------- output files of a stream ---------- *)

Lemma in_model_ofiles gen segs : forall seq o,
  In o (model_ofiles gen seq segs) ->
  exists seg, In seg segs /\
    snd o = map (fun kb => (fst kb, map (fun b => (entry_of b, b)) (snd kb))) (group_items seg).
Proof.
  induction segs as [|s r IH]; intros seq o H; cbn [model_ofiles] in H; [destruct H|].
  destruct H as [<-|H]; [exists s; split; [left; reflexivity|reflexivity]|].
  destruct (IH _ _ H) as [seg [Hs E]]. exists seg. split; [right; assumption|assumption].
Qed.

Lemma strip_model (G : list (key * list block)) :
  strip (map (fun kb => (fst kb, map (fun b => (entry_of b, b)) (snd kb))) G) = G.
Proof.
  unfold strip. induction G as [|[k bs] r IH]; cbn [map fst snd]; [reflexivity|].
  rewrite IH. f_equal. f_equal. rewrite map_map. cbn [snd]. apply map_id.
Qed.

Lemma entry_eqb_refl e : entry_eqb e e = true.
Proof. destruct e as [[a b] c]. unfold entry_eqb. cbn [fst snd]. rewrite !Z.eqb_refl, N.eqb_refl. reflexivity. Qed.

Lemma in_stream_block size keys valf k b :
  In (k, b) (stream_of size keys valf) -> In b (chunks size (valf k)).
Proof.
  unfold stream_of. intros H. apply in_flat_map in H. destruct H as [k' [_ H]].
  apply in_map_iff in H. destruct H as [b' [E Hb]]. inversion E; subst. assumption.
Qed.

Section StreamOK.
  Variables (maxe : N) (size : nat) (keys : list key) (valf : key -> list tv) (gen seq : N).
  Hypothesis Hm : (1 <= maxe)%N.
  Hypothesis Hsize : (0 < size)%nat.
  Hypothesis Hk : ksorted keys.
  Hypothesis Hv : forall k, ssorted (valf k).
  Let stream := stream_of size keys valf.
  Let segs := split_files maxe [] None 0%N stream.

  Theorem model_ofiles_ok o : In o (model_ofiles gen seq segs) -> ofile_okb_with maxe size o = true.
  Proof.
    intros Ho. apply in_model_ofiles in Ho. destruct Ho as [seg [Hseg E]].
    assert (Hcat : concat segs = stream) by (unfold segs; rewrite split_files_concat; reflexivity).
    assert (Hsub : forall x, In x seg -> In x stream).
    { intros x Hx. rewrite <- Hcat. apply in_concat. exists seg. split; assumption. }
    unfold ofile_okb_with. rewrite E, strip_model.
    apply andb_true_iff. split; [apply andb_true_iff; split|].
    - (* blocks *)
      unfold blocks_okb. apply andb_true_iff. split; [apply andb_true_iff; split|].
      + apply forallb_forall. intros [k bs] Hin. cbn [snd].
        destruct (group_items_blocks seg k bs Hin) as [Hne Hall].
        apply andb_true_iff. split.
        * destruct bs; [exfalso; apply Hne; reflexivity|reflexivity].
        * apply forallb_forall. intros b Hb.
          pose proof (in_stream_block size keys valf k b (Hsub _ (Hall b Hb))) as Hc.
          destruct (chunk_bounded _ _ _ _ Hsize Hc) as [Hn Hl].
          apply andb_true_iff. split.
          -- destruct b; [exfalso; apply Hn; reflexivity|reflexivity].
          -- apply Nat.leb_le. assumption.
      + apply group_items_distinct.
      + rewrite flat_points_items, items_of_group_items. apply psorted_chain.
        apply (segs_psorted segs); [|assumption]. rewrite Hcat. apply stream_psorted; assumption.
    - (* index entries per key *)
      unfold entries_okb. rewrite items_of_group_items.
      apply (split_runs maxe Hm stream [] None 0%N); [lia|reflexivity|exact Hseg].
    - (* index entries describe their blocks *)
      apply forallb_forall. intros kb Hin. apply in_map_iff in Hin. destruct Hin as [[k bs] [<- _]].
      cbn [snd]. apply forallb_forall. intros eb Heb. apply in_map_iff in Heb. destruct Heb as [b [<- _]].
      cbn [fst snd]. apply entry_eqb_refl.
  Qed.
End StreamOK.

Lemma max_index_entries_pos : (1 <= c09_max_index_entries)%N.
Proof. vm_compute. discriminate. Qed.

Theorem compact_outputs_ok maxe size group o : (1 <= maxe)%N ->
  In o (model_ofiles (fst (max_gen_seq group)) (snd (max_gen_seq group)) (compact_segments maxe size group)) ->
  ofile_okb_with maxe (eff_size size) o = true.
Proof.
  intros Hm Ho. unfold compact_segments, compact_stream in Ho.
  eapply model_ofiles_ok; eauto using eff_size_pos, group_keys_sorted.
  intros k. apply files_values_sorted.
Qed.

Theorem snapshot_outputs_ok maxe gen snap o : (1 <= maxe)%N ->
  In o (model_ofiles gen (c09_snapshot_first_sequence - 1)%N (snapshot_segments maxe snap)) ->
  ofile_okb_with maxe (eff_size 0) o = true.
Proof.
  intros Hm Ho. unfold snapshot_segments in Ho.
  eapply model_ofiles_ok; eauto using eff_size_pos, snap_keys_sorted.
  intros k. apply dedup_sorted.
Qed.

(* ---------- contiguity implies the jump hypothesis ---------- *)

Lemma max_gen_seq_attained group :
  group <> [] -> exists g, In g group /\ fname g = max_gen_seq group.
Proof.
  unfold max_gen_seq.
  assert (G : forall l acc (seen : list tsmfile),
            (seen = [] /\ acc = (0%N, 0%N)) \/ (exists g, In g seen /\ fname g = acc) ->
            let res := fold_left (fun (acc : name) f =>
               let acc1 := if (fst acc <? f_gen f)%N then (f_gen f, f_seq f) else acc in
               if (f_gen f =? fst acc1)%N && (snd acc1 <? f_seq f)%N then (fst acc1, f_seq f) else acc1) l acc in
            (seen ++ l = [] /\ res = (0%N, 0%N)) \/ (exists g, In g (seen ++ l) /\ fname g = res)).
  { induction l as [|f r IH]; intros acc seen Hinv; cbn [fold_left].
    - rewrite app_nil_r. exact Hinv.
    - replace (seen ++ f :: r) with ((seen ++ [f]) ++ r) by (rewrite <- app_assoc; reflexivity).
      apply IH. right.
      destruct acc as [ag asq]. cbn [fst snd].
      destruct (N.ltb_spec ag (f_gen f)) as [L|L]; cbn [fst snd].
      + rewrite N.eqb_refl. cbn [andb]. destruct (N.ltb_spec (f_seq f) (f_seq f)); [lia|].
        exists f. split; [apply in_app_iff; right; left; reflexivity|reflexivity].
      + destruct (N.eqb_spec (f_gen f) ag) as [E|E]; cbn [andb].
        * destruct (N.ltb_spec asq (f_seq f)) as [L2|L2].
          -- exists f. split; [apply in_app_iff; right; left; reflexivity|]. unfold fname. rewrite E. reflexivity.
          -- destruct Hinv as [[-> Ha]|[g [Hg Hn]]].
             ++ inversion Ha; subst. exists f. split; [left; reflexivity|].
                unfold fname. f_equal; lia.
             ++ exists g. split; [apply in_app_iff; left; assumption|assumption].
        * destruct Hinv as [[-> Ha]|[g [Hg Hn]]].
          -- inversion Ha; subst. lia.
          -- exists g. split; [apply in_app_iff; left; assumption|assumption]. }
  intros Hne. destruct (G group (0%N, 0%N) [] (or_introl (conj eq_refl eq_refl))) as [[E _]|H].
  - cbn [app] in E. congruence.
  - cbn [app] in H. exact H.
Qed.

Lemma contiguous_jump_free maxe size fs group :
  names_nodup fs -> (forall g, In g group -> In g fs) ->
  whole_last_generation fs group = true -> contiguous fs group ->
  jump_free fs group (compact_with maxe size group).
Proof.
  intros Hnd Hsub Hw Hc s g o k t Hs Hns Hg Ho Hgs Hso. exfalso.
  destruct (Hc s Hs Hns) as [Hlt|Hgt].
  - specialize (Hlt g Hg). apply name_ltb_asym in Hlt. congruence.
  - assert (Hne : group <> []) by (intros E; rewrite E in Hg; destruct Hg).
    destruct (max_gen_seq_attained group Hne) as [m [Hm Em]].
    specialize (Hgt m Hm). apply in_mk_outs in Ho. destruct Ho as [_ [i [_ [Hgen [Hseq _]]]]].
    unfold whole_last_generation in Hw. rewrite forallb_forall in Hw. specialize (Hw s Hs).
    assert (f_gen s = fst (max_gen_seq group)) as Eg.
    { rewrite <- Em in Hgen, Hseq |- *. unfold name_ltb, fname in *. cbn [fst snd] in *. lia. }
    rewrite Eg, N.eqb_refl in Hw. cbn [negb orb] in Hw.
    apply (in_names_group_iff fs group s Hnd Hsub Hs) in Hns. congruence.
Qed.

Theorem compact_reads_contiguous maxe size fs group :
  names_nodup fs -> (forall g, In g group -> In g fs) -> nsorted group ->
  whole_last_generation fs group = true -> contiguous fs group ->
  forall c k lo hi asc,
    store_read (replace_files fs group (compact_with maxe size group)) c k lo hi asc = store_read fs c k lo hi asc.
Proof.
  intros Hnd Hsub Hgs Hw Hc. apply compact_reads; auto. apply contiguous_jump_free; assumption.
Qed.

(* ---------- the hypothesis is needed ---------- *)

Definition wkey : key := [107%N].
Definition wfile (g : N) (t v : Z) : tsmfile :=
  {| f_gen := g; f_seq := 1; f_data := [(wkey, [(t, VInt v)])]; f_tombs := [] |}.
Definition wfs : list tsmfile := [wfile 1 1 1; wfile 2 1 2; wfile 3 5 3].
Definition wgroup : list tsmfile := [wfile 1 1 1; wfile 3 5 3].

(* generation 2 overwrites the point (k, 1) of generation 1; compacting {1, 3} writes
   000000003-000000002.tsm, which is newer than generation 2 and brings the old value back *)
Lemma noncontiguous_witness :
  names_nodup wfs /\ (forall g, In g wgroup -> In g wfs) /\ nsorted wgroup /\
  whole_last_generation wfs wgroup = true /\
  store_read wfs empty_cache wkey min_int64 max_int64 true = [(1, VInt 2); (5, VInt 3)] /\
  store_read (replace_files wfs wgroup (compact 0 wgroup)) empty_cache wkey min_int64 max_int64 true
    = [(1, VInt 1); (5, VInt 3)].
Proof.
  split; [|split; [|split; [|split; [|split]]]].
  - unfold names_nodup. cbn. repeat constructor; cbn; intuition discriminate.
  - intros g [<-|[<-|[]]]; cbn; auto.
  - cbn. split; [|split; [|exact I]]; intros g H; cbn in H; intuition (subst; reflexivity).
  - vm_compute. reflexivity.
  - vm_compute. reflexivity.
  - vm_compute. reflexivity.
Qed.
