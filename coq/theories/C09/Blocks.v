(* C09/Blocks.v — executable model of the BLOCK-LEVEL merge of one key:
   tsdb/engine/tsm1/compact.go  tsmBatchKeyIterator.Next (the part that handles one key),
   block.{read,markRead,partiallyRead,overlapsTimeRange}, sortBlocks / blocks.Less, and
   compact.gen.go  tsmBatchKeyIterator.merge<T> / combine<T> / chunk<T>  (the five typed copies
   are textually the same algorithm; values are the shared [value] type).
   Mirrors the code branch by branch: the dedup decision, the windowed decode path with
   partial read marks, the pass-through fast path, chunking to [size].
   Definitions only; proofs are in BlocksProofs.v.

   Input of the model = what the iterator gets from the BlockIterators: per input file
   (oldest -> newest, the order of Compactor.compact's tsmFiles) the index entries and decoded
   values of the key's blocks and TSMReader.TombstoneRange(key).
   Not mirrored: the error paths (decode/encode/BlockCount errors end the iteration, C09's
   fail cases observe that), the re-use of block structs between keys (the model always
   initialises readMin/readMax; seed C09-4 lives there and is caught by correspondence),
   and the fix-up "k.blocks[i].maxTime != v.MaxTime()" which is dead for blocks whose index
   entry is the first/last timestamp of the block (what TSMWriter produces). *)
From Verif Require Export Shard.Store C09.Model.
Open Scope Z_scope.

Definition max_i64 : Z := 9223372036854775807.
Definition min_i64 : Z := -9223372036854775808.

(* compact.go: type block (key, typ and the encoded bytes b are represented by the decoded values) *)
Record blk := {
  b_min : Z; b_max : Z;            (* index entry *)
  b_vals : list tv;                (* decoded block *)
  b_tombs : list (Z * Z);          (* the FILE's tombstone ranges for the key *)
  b_rmin : Z; b_rmax : Z           (* readMin, readMax *)
}.

(* a block as the iterator creates it in Next(): readMin = MaxInt64, readMax = MinInt64 *)
Definition first_time (vs : list tv) : Z := match vs with [] => 0 | x :: _ => fst x end.
Definition last_time (vs : list tv) : Z := fst (last vs (0, VBool false)).

Definition in_block (tombs : list (Z * Z)) (vs : list tv) : blk :=
  {| b_min := first_time vs; b_max := last_time vs; b_vals := vs; b_tombs := tombs;
     b_rmin := max_i64; b_rmax := min_i64 |}.

(* one output block: pass-through of an input block (encoded bytes re-used) or re-encoded chunk *)
Record oblk := { o_min : Z; o_max : Z; o_vals : list tv; o_pass : bool }.

Definition pass (b : blk) : oblk := {| o_min := b_min b; o_max := b_max b; o_vals := b_vals b; o_pass := true |}.
Definition enc (vs : list tv) : oblk := {| o_min := first_time vs; o_max := last_time vs; o_vals := vs; o_pass := false |}.

(* ---------- block methods ---------- *)

Definition overlaps (b : blk) (lo hi : Z) : bool := (b_min b <=? hi) && (b_max b >=? lo).
Definition is_read (b : blk) : bool := (b_rmin b <=? b_min b) && (b_rmax b >=? b_max b).
Definition mark_read (b : blk) (lo hi : Z) : blk :=
  {| b_min := b_min b; b_max := b_max b; b_vals := b_vals b; b_tombs := b_tombs b;
     b_rmin := if lo <? b_rmin b then lo else b_rmin b;
     b_rmax := if hi >? b_rmax b then hi else b_rmax b |}.
Definition partially_read (b : blk) : bool :=
  if (b_rmin b =? max_i64) && (b_rmax b =? min_i64) then false
  else negb (b_rmin b =? b_min b) || negb (b_rmax b =? b_max b).
Definition has_tombs (b : blk) : bool := match b_tombs b with [] => false | _ => true end.

(* blocks.Less for two blocks of the same key *)
Definition less (x y : blk) : bool := (b_min x <? b_min y) && (b_max x <? b_min y).

(* sortBlocks: insertion sort; [rs] is the already sorted prefix REVERSED (last element first),
   the new element moves left past every element it is Less than and stops at the first
   one it is not *)
Fixpoint bubble (x : blk) (rs : list blk) : list blk :=
  match rs with
  | [] => [x]
  | y :: rs' => if less x y then y :: bubble x rs' else x :: rs
  end.
Definition sort_blocks (l : list blk) : list blk := rev (fold_left (fun rs x => bubble x rs) l []).

(* ---------- tsdb/cursors  <T>Array.Merge / Exclude / Include on sorted arrays ---------- *)

(* Merge: two-way merge, the argument [b] wins on equal timestamps *)
Fixpoint merge2 (a b : list tv) {struct a} : list tv :=
  let fix inner (b : list tv) {struct b} : list tv :=
    match a with
    | [] => b
    | x :: a' => match b with
                 | [] => a
                 | y :: b' => if fst x <? fst y then x :: merge2 a' b
                              else if fst x =? fst y then y :: merge2 a' b'
                              else y :: inner b'
                 end
    end in inner b.

(* "for _, ts := range tombstones { v.Exclude(ts.Min, ts.Max) }" *)
Definition apply_tr (tombs : list (Z * Z)) (v : list tv) : list tv :=
  fold_left (fun acc tr => exclude_range (fst tr) (snd tr) acc) tombs v.

(* ---------- combine<T>(dedup = true) ---------- *)

Fixpoint drop_read (bs : list blk) : list blk :=
  match bs with
  | [] => []
  | b :: r => if is_read b then drop_read r else bs
  end.

(* "Adjust the min time to the start of any overlapping blocks": ONE pass over k.blocks *)
Definition window_step (acc : Z * Z) (b : blk) : Z * Z :=
  if overlaps b (fst acc) (snd acc) && negb (is_read b) then
    let mn := if b_min b <? fst acc then b_min b else fst acc in
    let mx := if (b_max b >? mn) && (b_max b <? snd acc) then b_max b else snd acc in
    (mn, mx)
  else acc.
Definition window (bs : list blk) (first : blk) : Z * Z :=
  fold_left window_step bs (b_min first, b_max first).

(* the values one block contributes to the window, and its new read marks
   (markRead happens BEFORE the tombstones are applied) *)
Definition read_block (mn mx : Z) (b : blk) : blk * list tv :=
  let v0 := include_range mn mx (exclude_range (b_rmin b) (b_rmax b) (b_vals b)) in
  (match v0 with [] => b | _ => mark_read b (first_time v0) (last_time v0) end,
   apply_tr (b_tombs b) v0).

(* "decode all, append in order and then dedup": second pass over k.blocks *)
Fixpoint read_window (mn mx : Z) (bs : list blk) (mv : list tv) : list blk * list tv :=
  match bs with
  | [] => ([], mv)
  | b :: r =>
      if negb (overlaps b mn mx) || is_read b then
        let rr := read_window mn mx r mv in (b :: fst rr, snd rr)
      else
        let bv := read_block mn mx b in
        let rr := read_window mn mx r (merge2 mv (snd bv)) in (fst bv :: fst rr, snd rr)
  end.

Definition nonemptyb {A} (l : list A) : bool := match l with [] => false | _ => true end.

(* "for k.merged<T>Values.Len() < k.size && len(k.blocks) > 0 { ... }"; None = out of fuel *)
Fixpoint dedup_loop (fuel size : nat) (bs : list blk) (mv : list tv) : option (list blk * list tv) :=
  if Nat.ltb (length mv) size && nonemptyb bs then
    match fuel with
    | O => None
    | S f =>
        match drop_read bs with
        | [] => Some ([], mv)
        | (first :: _) as bs1 =>
            let w := window bs1 first in
            let rr := read_window (fst w) (snd w) bs1 mv in
            dedup_loop f size (fst rr) (snd rr)
        end
    end
  else Some (bs, mv).

(* chunk<T>(dst): at most ONE re-encoded block per call *)
Definition chunk1 (size : nat) (dst : list oblk) (mv : list tv) : list oblk * list tv :=
  if Nat.ltb size (length mv) then (dst ++ [enc (firstn size mv)], skipn size mv)
  else match mv with
       | [] => (dst, [])
       | _ => (dst ++ [enc mv], [])
       end.

(* ---------- combine<T>(dedup = false): the fast path ---------- *)

(* "if this block is already full, just add it as is": stops at the first unread block with
   fewer than size points; read blocks are skipped *)
Fixpoint pass_full (size : nat) (bs : list blk) : list oblk * list blk :=
  match bs with
  | [] => ([], [])
  | b :: r =>
      if is_read b then pass_full size r
      else if Nat.ltb (length (b_vals b)) size then ([], bs)
      else let pr := pass_full size r in (pass b :: fst pr, snd pr)
  end.

(* "if k.fast": every remaining unread block is added as is *)
Definition pass_all (bs : list blk) : list oblk := map pass (filter (fun b => negb (is_read b)) bs).

(* "if we only have 1 blocks left, just append it as is" *)
Definition pass_last (bs : list blk) : list oblk * list blk :=
  match bs with
  | [b] => ((if is_read b then [] else [pass b]), [])
  | _ => ([], bs)
  end.

(* "The remaining blocks can be combined": decode while fewer than size values are pending *)
Fixpoint decode_rest (size : nat) (bs : list blk) (mv : list tv) : list blk * list tv :=
  match bs with
  | [] => ([], mv)
  | b :: r =>
      if Nat.ltb (length mv) size then
        if is_read b then decode_rest size r mv
        else decode_rest size r (merge2 mv (apply_tr (b_tombs b) (b_vals b)))
      else (bs, mv)
  end.

(* ---------- merge<T>() ---------- *)

(* the scan "see if any overlap with the prior block" (it stops at the first hit = a big OR) *)
Fixpoint scan_dedup (prev : blk) (bs : list blk) : bool :=
  match bs with
  | [] => false
  | b :: r => partially_read b || overlaps b (b_min prev) (b_max prev) || has_tombs b || scan_dedup b r
  end.

Definition need_dedup (bs : list blk) (mv : list tv) : bool :=
  nonemptyb mv ||
  match bs with
  | [] => false
  | b0 :: r => has_tombs b0 || partially_read b0 || scan_dedup b0 r
  end.

(* one call of merge<T>() with k.merged empty: returns (k.merged, k.blocks, merged values) *)
Definition merge_call (fuel : nat) (fast : bool) (size : nat) (bs0 : list blk) (mv : list tv)
  : option (list oblk * list blk * list tv) :=
  let bs := sort_blocks bs0 in
  if need_dedup bs mv then
    match dedup_loop fuel size bs mv with
    | None => None
    | Some (bs', mv') => let c := chunk1 size [] mv' in Some (fst c, bs', snd c)
    end
  else
    let p1 := pass_full size bs in
    let o2 := if fast then pass_all (snd p1) else [] in
    let r2 := if fast then [] else snd p1 in
    let p3 := pass_last r2 in
    let d := decode_rest size (snd p3) mv in
    let c := chunk1 size (fst p1 ++ o2 ++ fst p3) (snd d) in
    Some (fst c, fst d, snd c).

(* ---------- Next() for one key: merge until nothing is pending ---------- *)

(* Every Next() call pops one merged block; when k.merged is exhausted it calls merge() if
   values or blocks are pending.  A merge() that produces nothing ends the key (the iterator
   moves on to the next key); by then k.blocks is empty, otherwise the left-over blocks
   would be mixed into the next key: that outcome is None, like running out of fuel. *)
Fixpoint key_loop (fuel dfuel : nat) (fast : bool) (size : nat) (bs : list blk) (mv : list tv)
         (acc : list oblk) : option (list oblk) :=
  match fuel with
  | O => None
  | S f =>
      if nonemptyb mv || nonemptyb bs then
        match merge_call dfuel fast size bs mv with
        | None => None
        | Some (o, bs', mv') =>
            if nonemptyb o || nonemptyb mv' then key_loop f dfuel fast size bs' mv' (acc ++ o)
            else match bs' with [] => Some acc | _ => None end
        end
      else Some acc
  end.

(* the blocks of one key handed over by the BlockIterators, file by file, oldest first *)
Definition key_input := list (list (list tv) * list (Z * Z)).   (* per file: blocks, tombstone ranges *)

Definition input_blocks (inp : key_input) : list blk :=
  flat_map (fun f => map (in_block (snd f)) (fst f)) inp.

Definition total_points (bs : list blk) : nat := fold_left (fun n b => (n + length (b_vals b))%nat) bs 0%nat.
Definition fuel_for (bs : list blk) : nat := (2 * (length bs + total_points bs) + 4)%nat.

Definition merge_blocks (fast : bool) (size : nat) (bs : list blk) : option (list oblk) :=
  key_loop (fuel_for bs) (fuel_for bs) fast size bs [] [].

Definition merge_key (fast : bool) (size : nat) (inp : key_input) : option (list oblk) :=
  merge_blocks fast size (input_blocks inp).

(* ---------- the logical content the block merge must produce ---------- *)

(* per file: the values of the key (its blocks concatenated) minus the file's tombstone ranges;
   files overlaid oldest -> newest, the newer file wins (this is Model.merged_values when the
   files are given as tsmfiles, see BlocksProofs.logical_eq_merged_values) *)
Definition logical (inp : key_input) : list tv :=
  fold_left (fun acc f => merge_lw acc (apply_tr (snd f) (concat (fst f)))) inp [].

(* ---------- well-formed input (what TSMWriter/TSMReader guarantee) ---------- *)

Definition block_wfb (vs : list tv) : bool := nonemptyb vs && ssortedb vs.

(* blocks of one file: non-empty, strictly sorted, and each block ends before the next starts *)
Fixpoint file_wfb (blocks : list (list tv)) : bool :=
  match blocks with
  | [] => true
  | b :: r => block_wfb b && match r with [] => true | b2 :: _ => last_time b <? first_time b2 end && file_wfb r
  end.

Definition input_wfb (inp : key_input) : bool := forallb (fun f => file_wfb (fst f)) inp.

(* ---------- executable form of the output properties (b), (c) ---------- *)

Fixpoint oblocks_sortedb (os : list oblk) : bool :=
  match os with
  | [] => true
  | o :: r => match r with [] => true | o2 :: _ => o_max o <? o_min o2 end && oblocks_sortedb r
  end.

Definition oblock_okb (size : nat) (inp : key_input) (o : oblk) : bool :=
  nonemptyb (o_vals o) && ssortedb (o_vals o)
  && (o_min o =? first_time (o_vals o)) && (o_max o =? last_time (o_vals o))
  && (if o_pass o then
        (* byte-identical to an input block of a file without tombstones touching it, and no
           block of any other position overlaps it *)
        existsb (fun f => existsb (fun b => Nat.eqb (length b) (length (o_vals o))
                                            && (first_time b =? o_min o) && (last_time b =? o_max o)) (fst f)
                          && forallb (fun tr => (snd tr <? o_min o) || (o_max o <? fst tr)) (snd f)) inp
      else Nat.leb (length (o_vals o)) size).

Definition output_okb (size : nat) (inp : key_input) (os : list oblk) : bool :=
  forallb (oblock_okb size inp) os && oblocks_sortedb os.
