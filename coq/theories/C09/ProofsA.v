(* C09/ProofsA.v — layer A: file-name order, the FileStore overlay characterised by its
   "newest file that has the point" winner, and the central replacement theorem for every
   mixed directory state (some outputs installed, some inputs removed). *)
From Verif Require Import Shard.Store C09.Model.
From VerifGen Require Import Consts.
From Coq Require Import ZifyBool ZifyNat ZifyN.
Open Scope Z_scope.

(* ---------- names ---------- *)

Lemma name_eqb_eq a b : name_eqb a b = true <-> a = b.
Proof.
  destruct a as [a1 a2], b as [b1 b2]. unfold name_eqb; cbn [fst snd].
  rewrite andb_true_iff, !N.eqb_eq. split; [intros [-> ->]; reflexivity|intros H; inversion H; auto].
Qed.

Lemma name_eqb_refl a : name_eqb a a = true.
Proof. apply name_eqb_eq. reflexivity. Qed.

Lemma name_ltb_irrefl a : name_ltb a a = false.
Proof. destruct a as [a1 a2]. unfold name_ltb; cbn [fst snd]. lia. Qed.

Lemma name_ltb_trans a b c : name_ltb a b = true -> name_ltb b c = true -> name_ltb a c = true.
Proof. destruct a, b, c. unfold name_ltb; cbn [fst snd]. lia. Qed.

Lemma name_ltb_asym a b : name_ltb a b = true -> name_ltb b a = false.
Proof. destruct a, b. unfold name_ltb; cbn [fst snd]. lia. Qed.

Lemma name_total a b : name_ltb a b = false -> a <> b -> name_ltb b a = true.
Proof.
  destruct a as [a1 a2], b as [b1 b2]. unfold name_ltb; cbn [fst snd]. intros H Hne.
  assert (a1 <> b1 \/ a2 <> b2) as D.
  { destruct (N.eq_dec a1 b1) as [->|]; [right|left; assumption]. intros ->. apply Hne. reflexivity. }
  lia.
Qed.

Lemma name_ltb_neq a b : name_ltb a b = true -> a <> b.
Proof. intros H ->. rewrite name_ltb_irrefl in H. discriminate. Qed.

(* ---------- sorted file lists ---------- *)

Fixpoint nsorted (l : list tsmfile) : Prop :=
  match l with
  | [] => True
  | f :: r => (forall g, In g r -> name_ltb (fname f) (fname g) = true) /\ nsorted r
  end.

Definition names_nodup (l : list tsmfile) : Prop := NoDup (map fname l).

Lemma insert_file_in f l x : In x (insert_file f l) <-> x = f \/ In x l.
Proof.
  induction l as [|g r IH]; cbn [insert_file].
  - cbn. intuition.
  - destruct (name_ltb (fname f) (fname g)); cbn [In]; [intuition|]. rewrite IH. intuition.
Qed.

Lemma sort_files_in l x : In x (sort_files l) <-> In x l.
Proof.
  induction l as [|f r IH]; cbn [sort_files fold_right]; [tauto|].
  fold (sort_files r). rewrite insert_file_in, IH. cbn. intuition.
Qed.

Lemma insert_file_sorted f l :
  nsorted l -> (forall g, In g l -> fname g <> fname f) -> nsorted (insert_file f l).
Proof.
  induction l as [|g r IH]; intros Hs Hne; cbn [insert_file].
  - cbn. split; [intros ? []|exact I].
  - destruct Hs as [Hg Hr]. destruct (name_ltb (fname f) (fname g)) eqn:E.
    + cbn [nsorted]. split; [|split; assumption].
      intros x [<-|Hx]; [assumption|]. apply (name_ltb_trans _ (fname g)); auto.
    + cbn [nsorted]. split.
      * intros x Hx. apply -> insert_file_in in Hx. destruct Hx as [->|Hx]; [|auto].
        apply name_total; [assumption|]. intros Heq. apply (Hne g); [left; reflexivity|]. symmetry; assumption.
      * apply IH; [assumption|]. intros x Hx. apply Hne. right; assumption.
Qed.

Lemma sort_files_sorted l : names_nodup l -> nsorted (sort_files l).
Proof.
  unfold names_nodup. induction l as [|f r IH]; intros Hnd; cbn [sort_files fold_right]; [exact I|].
  fold (sort_files r). cbn [map] in Hnd. inversion Hnd as [|? ? Hnot Hnd']; subst.
  apply insert_file_sorted; [apply IH; assumption|].
  intros g Hg Heq. apply -> sort_files_in in Hg. apply Hnot. rewrite <- Heq. apply in_map. assumption.
Qed.

Lemma nsorted_names_nodup l : nsorted l -> names_nodup l.
Proof.
  unfold names_nodup. induction l as [|f r IH]; intros Hs; cbn [map]; [constructor|].
  destruct Hs as [Hf Hr]. constructor; [|apply IH; assumption].
  intros Hin. apply in_map_iff in Hin. destruct Hin as [g [Heq Hg]].
  specialize (Hf g Hg). rewrite Heq, name_ltb_irrefl in Hf. discriminate.
Qed.

Lemma names_nodup_inj l a b : names_nodup l -> In a l -> In b l -> fname a = fname b -> a = b.
Proof.
  unfold names_nodup. induction l as [|f r IH]; intros Hnd Ha Hb Heq; [destruct Ha|].
  cbn [map] in Hnd. inversion Hnd as [|? ? Hnot Hnd']; subst.
  destruct Ha as [<-|Ha], Hb as [<-|Hb]; auto.
  - exfalso. apply Hnot. rewrite Heq. apply in_map; assumption.
  - exfalso. apply Hnot. rewrite <- Heq. apply in_map; assumption.
Qed.

Lemma in_names_true n l : in_names n l = true <-> exists g, In g l /\ fname g = n.
Proof.
  unfold in_names. rewrite existsb_exists. split; intros [g [Hg H]]; exists g; split; auto.
  - apply name_eqb_eq in H. auto.
  - apply name_eqb_eq. auto.
Qed.

Lemma in_names_false n l : in_names n l = false <-> forall g, In g l -> fname g <> n.
Proof.
  split.
  - intros H g Hg Heq. assert (in_names n l = true) by (apply in_names_true; exists g; auto). congruence.
  - intros H. destruct (in_names n l) eqn:E; [|reflexivity].
    apply in_names_true in E. destruct E as [g [Hg Heq]]. exfalso. apply (H g); assumption.
Qed.

(* ---------- the overlay and its winner ---------- *)

Definition layer (k : key) (t : Z) (f : tsmfile) : option value := lookup_last t (file_values f k).
Definition overlay (k : key) (t : Z) (l : list tsmfile) : option value :=
  lookup_last t (flat_map (fun f => file_values f k) l).

Lemma overlay_cons k t f r :
  overlay k t (f :: r) = match overlay k t r with Some v => Some v | None => layer k t f end.
Proof. unfold overlay, layer. cbn [flat_map]. rewrite lookup_last_app. reflexivity. Qed.

Lemma overlay_none k t l : overlay k t l = None <-> forall f, In f l -> layer k t f = None.
Proof.
  induction l as [|f r IH].
  - cbn. split; [intros _ ? []|reflexivity].
  - rewrite overlay_cons. destruct (overlay k t r) eqn:E.
    + split; [discriminate|]. intros H.
      assert (Hr : forall g, In g r -> layer k t g = None) by (intros; apply H; right; assumption).
      apply IH in Hr. discriminate.
    + split.
      * intros Hf g [<-|Hg]; [assumption|]. apply IH; auto.
      * intros H. apply H. left; reflexivity.
Qed.

(* in a name-sorted list the value seen at (k,t) is the one of the newest file having the point *)
Lemma overlay_some k t l : nsorted l -> forall v,
  overlay k t l = Some v <->
  exists f, In f l /\ layer k t f = Some v /\
            forall g, In g l -> name_ltb (fname f) (fname g) = true -> layer k t g = None.
Proof.
  induction l as [|f r IH]; intros Hs v.
  - cbn. split; [discriminate|]. intros [? [[] _]].
  - destruct Hs as [Hf Hr]. rewrite overlay_cons. pose proof (IH Hr) as IHr. clear IH.
    destruct (overlay k t r) as [v'|] eqn:E.
    + split.
      * intros H; inversion H; subst v'. destruct (proj1 (IHr v) eq_refl) as [w [Hw [Hl Hmax]]].
        exists w. split; [right; assumption|]. split; [assumption|].
        intros g [<-|Hg] Hlt; [|auto].
        specialize (Hf w Hw). apply name_ltb_asym in Hf. congruence.
      * intros [w [[<-|Hw] [Hl Hmax]]].
        -- destruct (proj1 (IHr v') eq_refl) as [w' [Hw' [Hl' _]]].
           rewrite (Hmax w' (or_intror Hw') (Hf w' Hw')) in Hl'. discriminate.
        -- apply (IHr v). exists w. split; [assumption|]. split; [assumption|].
           intros g Hg. apply Hmax. right; assumption.
    + pose proof (proj1 (overlay_none k t r) E) as Hnone. split.
      * intros H. exists f. split; [left; reflexivity|]. split; [assumption|].
        intros g [<-|Hg] Hlt; [|auto]. rewrite name_ltb_irrefl in Hlt. discriminate.
      * intros [w [[<-|Hw] [Hl _]]]; [assumption|]. rewrite (Hnone w Hw) in Hl. discriminate.
Qed.

(* the read of a directory depends only on the overlay of its sorted files and the cache *)
Lemma store_read_all_lookup t fs c k :
  lookup_last t (store_read_all fs c k) =
  match lookup_last t (cache_values c k) with
  | Some v => Some v
  | None => overlay k t (sort_files fs)
  end.
Proof. unfold store_read_all. rewrite read_all_lookup, lookup_last_app. reflexivity. Qed.

Lemma store_read_ext fs1 fs2 c1 c2 k :
  (forall t, lookup_last t (store_read_all fs1 c1 k) = lookup_last t (store_read_all fs2 c2 k)) ->
  forall lo hi asc, store_read fs1 c1 k lo hi asc = store_read fs2 c2 k lo hi asc.
Proof.
  intros H lo hi asc. unfold store_read, read.
  assert (E : read_all (sort_files fs1) c1 k = read_all (sort_files fs2) c2 k).
  { apply sorted_lookup_ext; [apply read_all_sorted|apply read_all_sorted|exact H]. }
  rewrite E. reflexivity.
Qed.

(* ---------- the replacement theorem for every mixed directory state ---------- *)

Section Mixed.
  Variables (fs group outs : list tsmfile).
  Hypothesis Hnd : names_nodup fs.
  Hypothesis Hsub : forall g, In g group -> In g fs.
  Hypothesis Hgs : nsorted group.
  Hypothesis Hfresh : forall o s, In o outs -> In s fs -> fname o <> fname s.
  Hypothesis Hnewer : forall o g, In o outs -> In g group -> name_ltb (fname g) (fname o) = true.
  (* every output holds only merged content, and together they hold all of it *)
  Hypothesis Hsound : forall o k t v, In o outs -> layer k t o = Some v -> overlay k t group = Some v.
  Hypothesis Hcomplete : forall k t v, overlay k t group = Some v -> exists o, In o outs /\ layer k t o = Some v.
  (* files the group jumps over share no point with older members *)
  Hypothesis Hjump : forall s g o k t, In s fs -> ~ In s group -> In g group -> In o outs ->
      name_ltb (fname g) (fname s) = true -> name_ltb (fname s) (fname o) = true ->
      layer k t g = None \/ layer k t s = None.

  (* a directory state: outputs O installed, inputs R removed; removal starts only when
     every output is installed *)
  Variables (O R files : list tsmfile).
  Hypothesis HO : forall o, In o O -> In o outs.
  Hypothesis HR : forall g, In g R -> In g group.
  Hypothesis Hphase : R <> [] -> forall o, In o outs -> In o O.
  Hypothesis Hfiles_nd : names_nodup files.
  Hypothesis Hfiles : forall x, In x files <-> (In x O \/ (In x fs /\ ~ In x R)).

  Lemma mixed_overlay k t : overlay k t (sort_files files) = overlay k t (sort_files fs).
  Proof.
    pose proof (sort_files_sorted _ Hnd) as Sfs.
    pose proof (sort_files_sorted _ Hfiles_nd) as Sfl.
    destruct (overlay k t (sort_files fs)) as [v|] eqn:Eold.
    - (* some file wins before *)
      apply (overlay_some k t _ Sfs) in Eold. destruct Eold as [w [Hw [Hlw Hmax]]].
      apply -> sort_files_in in Hw.
      assert (Hmax' : forall g, In g fs -> name_ltb (fname w) (fname g) = true -> layer k t g = None).
      { intros g Hg. apply Hmax. apply sort_files_in. assumption. }
      clear Hmax.
      (* is the winner a member of the group? *)
      destruct (in_names (fname w) group) eqn:Ewg.
      + (* winner in the group: the merged content has v at (k,t) *)
        apply in_names_true in Ewg. destruct Ewg as [w' [Hw' Heq]].
        assert (w' = w) by (apply (names_nodup_inj fs); auto). subst w'.
        assert (Hmerged : overlay k t group = Some v).
        { apply (overlay_some k t _ Hgs). exists w. split; [assumption|]. split; [assumption|].
          intros g Hg. apply Hmax'. auto. }
        destruct (Hcomplete k t v Hmerged) as [ostar [Hostar Hlo]].
        (* the new state has some file with the point *)
        assert (Hex : exists x, In x files /\ layer k t x <> None).
        { destruct R as [|r0 R'] eqn:ER.
          - exists w. split; [apply Hfiles; right; split; [assumption|intros []]|congruence].
          - exists ostar. split; [|congruence]. apply Hfiles. left. apply Hphase; [discriminate|assumption]. }
        destruct (overlay k t (sort_files files)) as [v'|] eqn:Enew.
        * f_equal. apply (overlay_some k t _ Sfl) in Enew. destruct Enew as [x [Hx [Hlx Hxmax]]].
          apply -> sort_files_in in Hx.
          assert (Hxmax' : forall g, In g files -> name_ltb (fname x) (fname g) = true -> layer k t g = None).
          { intros g Hg. apply Hxmax. apply sort_files_in. assumption. }
          clear Hxmax.
          apply -> Hfiles in Hx. destruct Hx as [HxO|[Hxfs HxR]].
          -- (* an output: it holds merged content *)
             pose proof (Hsound x k t v' (HO _ HxO) Hlx) as E. congruence.
          -- (* an old file *)
             destruct (name_ltb (fname w) (fname x)) eqn:Ewx.
             { rewrite (Hmax' x Hxfs Ewx) in Hlx. discriminate. }
             destruct (name_eqb (fname x) (fname w)) eqn:Exw.
             { apply name_eqb_eq in Exw. assert (x = w) by (apply (names_nodup_inj fs); auto). subst x. congruence. }
             assert (Hxw : name_ltb (fname x) (fname w) = true).
             { apply name_total; [assumption|]. intros E. rewrite E, name_eqb_refl in Exw. discriminate. }
             (* x is older than w, so something newer with the point is still there *)
             exfalso. destruct R as [|r0 R'] eqn:ER.
             ++ assert (In w files) by (apply Hfiles; right; split; [assumption|intros []]).
                rewrite (Hxmax' w H Hxw) in Hlw. discriminate.
             ++ assert (In ostar files) as Hof by (apply Hfiles; left; apply Hphase; [discriminate|assumption]).
                assert (name_ltb (fname x) (fname ostar) = true) as Hlt.
                { apply (name_ltb_trans _ (fname w)); [assumption|]. apply Hnewer; assumption. }
                rewrite (Hxmax' ostar Hof Hlt) in Hlo. discriminate.
        * exfalso. destruct Hex as [x [Hx Hne]]. apply Hne.
          apply (proj1 (overlay_none k t _) Enew). apply sort_files_in. assumption.
      + (* winner outside the group: it is still there *)
        pose proof (proj1 (in_names_false _ _) Ewg) as Hwn.
        assert (HwnotG : ~ In w group) by (intros Hc; apply (Hwn w Hc); reflexivity).
        assert (Hwfiles : In w files).
        { apply Hfiles. right. split; [assumption|]. intros Hc. apply HwnotG. apply HR. assumption. }
        destruct (overlay k t (sort_files files)) as [v'|] eqn:Enew.
        * f_equal. apply (overlay_some k t _ Sfl) in Enew. destruct Enew as [x [Hx [Hlx Hxmax]]].
          apply -> sort_files_in in Hx.
          assert (Hxmax' : forall g, In g files -> name_ltb (fname x) (fname g) = true -> layer k t g = None).
          { intros g Hg. apply Hxmax. apply sort_files_in. assumption. }
          clear Hxmax.
          destruct (name_ltb (fname x) (fname w)) eqn:Exw.
          { rewrite (Hxmax' w Hwfiles Exw) in Hlw. discriminate. }
          apply -> Hfiles in Hx. destruct Hx as [HxO|[Hxfs HxR]].
          -- (* an output newer than w with the point: impossible by the jump hypothesis *)
             exfalso.
             assert (Hwx : name_ltb (fname w) (fname x) = true).
             { apply name_total; [assumption|]. intros E. apply (Hfresh x w (HO _ HxO) Hw). assumption. }
             pose proof (Hsound x k t v' (HO _ HxO) Hlx) as Hm.
             apply (overlay_some k t _ Hgs) in Hm. destruct Hm as [g [Hg [Hlg _]]].
             destruct (name_ltb (fname w) (fname g)) eqn:Ewg2.
             { rewrite (Hmax' g (Hsub _ Hg) Ewg2) in Hlg. discriminate. }
             assert (Hgw : name_ltb (fname g) (fname w) = true).
             { apply name_total; [assumption|]. intros E. apply (Hwn g Hg). symmetry. assumption. }
             destruct (Hjump w g x k t Hw HwnotG Hg (HO _ HxO) Hgw Hwx) as [E|E]; congruence.
          -- destruct (name_eqb (fname x) (fname w)) eqn:Exw2.
             { apply name_eqb_eq in Exw2. assert (x = w) by (apply (names_nodup_inj fs); auto). subst x. congruence. }
             assert (Hwx : name_ltb (fname w) (fname x) = true).
             { apply name_total; [assumption|]. intros E. rewrite E, name_eqb_refl in Exw2. discriminate. }
             rewrite (Hmax' x Hxfs Hwx) in Hlx. discriminate.
        * exfalso. pose proof (proj1 (overlay_none k t _) Enew w) as E.
          rewrite E in Hlw by (apply sort_files_in; assumption). discriminate.
    - (* nobody has the point before: nobody has it afterwards *)
      pose proof (proj1 (overlay_none k t _) Eold) as Hnone.
      apply overlay_none. intros x Hx. apply -> sort_files_in in Hx. apply -> Hfiles in Hx.
      destruct Hx as [HxO|[Hxfs _]].
      + destruct (layer k t x) as [v|] eqn:E; [|reflexivity].
        pose proof (Hsound x k t v (HO _ HxO) E) as Hm.
        apply (overlay_some k t _ Hgs) in Hm. destruct Hm as [g [Hg [Hlg _]]].
        rewrite (Hnone g) in Hlg by (apply sort_files_in; auto). discriminate.
      + apply Hnone. apply sort_files_in. assumption.
  Qed.

  Theorem mixed_state_reads c k lo hi asc :
    store_read files c k lo hi asc = store_read fs c k lo hi asc.
  Proof.
    apply store_read_ext. intros t. rewrite !store_read_all_lookup, mixed_overlay. reflexivity.
  Qed.
End Mixed.
