(* C09/Proofs.v — the link between the theorems and the executable spec of Run.v:
   for EVERY input, the model's own observation satisfies spec_ok. *)
From Verif Require Import Shard.Store C09.Model C09.Run C09.ProofsA C09.ProofsB C09.ProofsC C09.ProofsD.
From VerifGen Require Import Consts.
From Coq Require Import ZifyBool ZifyNat ZifyN.
Open Scope Z_scope.

(* ---------- reflexivity of the equality tests ---------- *)

Lemma list_eqb_refl {A} (eqb : A -> A -> bool) (l : list A) :
  (forall x, In x l -> eqb x x = true) -> list_eqb eqb l l = true.
Proof.
  induction l as [|x r IH]; intros H; cbn [list_eqb]; [reflexivity|].
  rewrite (H x (or_introl eq_refl)), IH; [reflexivity|]. intros y Hy. apply H. right; assumption.
Qed.

Lemma value_eqb_refl v : value_eqb v v = true.
Proof. apply value_eqb_eq. reflexivity. Qed.

Lemma tvs_eqb_refl l : tvs_eqb l l = true.
Proof.
  apply list_eqb_refl. intros [t v] _. unfold tv_eqb. cbn [fst snd].
  rewrite Z.eqb_refl, value_eqb_refl. reflexivity.
Qed.

Lemma reads_eqb_refl r : reads_eqb r r = true.
Proof.
  apply list_eqb_refl. intros [k [a d]] _. cbn [fst snd].
  rewrite key_eqb_refl, !tvs_eqb_refl. reflexivity.
Qed.

Lemma names_eqb_refl l : list_eqb name_eqb l l = true.
Proof. apply list_eqb_refl. intros x _. apply name_eqb_refl. Qed.

Lemma model_reads_ext fs1 fs2 c1 c2 ks lo hi :
  (forall k lo hi asc, store_read fs1 c1 k lo hi asc = store_read fs2 c2 k lo hi asc) ->
  model_reads fs1 c1 ks lo hi = model_reads fs2 c2 ks lo hi.
Proof. intros H. unfold model_reads. apply map_ext. intros k. rewrite !H. reflexivity. Qed.

(* ---------- from the decided hypothesis to the hypothesis of the theorems ---------- *)

Lemma nodup_names_spec l : nodup_names l = true -> NoDup l.
Proof.
  induction l as [|n r IH]; cbn [nodup_names]; intros H; [constructor|].
  apply andb_true_iff in H. destruct H as [H1 H2]. constructor; [|apply IH; assumption].
  intros Hin. assert (existsb (name_eqb n) r = true) as E.
  { apply existsb_exists. exists n. split; [assumption|apply name_eqb_refl]. }
  rewrite E in H1. discriminate.
Qed.

Lemma chain_nsorted l : chain name_ltb (map fname l) = true -> nsorted l.
Proof.
  induction l as [|f r IH]; intros H; [exact I|]. cbn [map chain] in H.
  apply andb_true_iff in H. destruct H as [H1 H2]. specialize (IH H2). cbn [nsorted]. split; [|assumption].
  destruct r as [|g r']; [intros ? []|]. cbn [map] in H1. destruct IH as [Hg Hr].
  intros x [<-|Hx]; [assumption|]. apply (name_ltb_trans _ (fname g)); auto.
Qed.

Lemma in_pick_group fs g x : In x (pick_group fs g) -> In x fs.
Proof.
  unfold pick_group. intros H. apply in_flat_map in H. destruct H as [n [_ H]].
  apply filter_In in H. tauto.
Qed.

Lemma kv_get_nonempty_in k (m : kvs) : kv_get k m <> [] -> exists vs, In (k, vs) m.
Proof.
  induction m as [|[k' vs] r IH]; cbn [kv_get]; [congruence|].
  destruct (key_eqb k' k) eqn:E.
  - apply key_eqb_eq in E. subst. intros _. exists vs. left; reflexivity.
  - intros H. destruct (IH H) as [vs' Hin]. exists vs'. right; assumption.
Qed.

Lemma shares_point_false g s : shares_point g s = false ->
  forall k t, layer k t g = None \/ layer k t s = None.
Proof.
  intros Hsh k t. destruct (layer k t g) as [v|] eqn:Eg; [|left; reflexivity]. right.
  unfold layer in *. pose proof (lookup_last_in _ _ _ Eg) as Hin.
  assert (Hne : kv_get k (f_data g) <> []).
  { intros E. unfold file_values in Hin. rewrite E, apply_tombs_nil in Hin. destruct Hin. }
  destruct (kv_get_nonempty_in _ _ Hne) as [vs Hkv].
  destruct (lookup_last t (file_values s k)) as [v'|] eqn:Es; [|reflexivity].
  exfalso. assert (shares_point g s = true) as E; [|congruence].
  unfold shares_point. apply existsb_exists. exists (k, vs). split; [assumption|].
  cbn [fst]. apply existsb_exists. exists (t, v). split; [assumption|]. cbn [fst]. rewrite Es. reflexivity.
Qed.

Lemma jump_okb_free fs group outs :
  names_nodup fs -> (forall g, In g group -> In g fs) ->
  jump_okb fs group (map fname outs) = true -> jump_free fs group outs.
Proof.
  intros Hnd Hsub Hj s g o k t Hs Hns Hg Ho Hgs Hso.
  unfold jump_okb in Hj. rewrite forallb_forall in Hj. specialize (Hj s Hs).
  apply (in_names_group_iff fs group s Hnd Hsub Hs) in Hns. rewrite Hns in Hj. cbn [orb] in Hj.
  rewrite forallb_forall in Hj. specialize (Hj g Hg). rewrite Hgs in Hj.
  assert (existsb (fun o0 => name_ltb (fname s) o0) (map fname outs) = true) as E.
  { apply existsb_exists. exists (fname o). split; [apply in_map; assumption|assumption]. }
  rewrite E in Hj. cbn [andb] in Hj. apply shares_point_false.
  destruct (shares_point g s); [discriminate|reflexivity].
Qed.

Lemma model_ofiles_names gen segs : forall seq,
  map fst (model_ofiles gen seq segs) = map fname (mk_outs gen seq segs).
Proof.
  induction segs as [|s r IH]; intros seq; cbn [model_ofiles mk_outs map]; [reflexivity|].
  rewrite IH. reflexivity.
Qed.

Record hyp (fs grp outs : list tsmfile) : Prop := {
  h_nd : names_nodup fs; h_gs : nsorted grp; h_whole : whole_last_generation fs grp = true;
  h_jump : jump_free fs grp outs
}.

Lemma hyp_okb_spec fs g outs :
  let grp := pick_group fs g in
  hyp_okb fs grp (map fname outs) = true -> hyp fs grp outs.
Proof.
  cbn zeta. unfold hyp_okb. intros H. repeat (apply andb_true_iff in H; destruct H as [H ?]).
  assert (Hnd : names_nodup fs) by (apply nodup_names_spec; assumption).
  constructor; auto.
  - apply chain_nsorted; assumption.
  - apply jump_okb_free; auto. intros x. apply in_pick_group.
Qed.

(* ---------- compaction ---------- *)

Lemma named_ok fs grp maxe size :
  whole_last_generation fs grp = true ->
  outs_named_okb fs grp (model_ofiles (fst (max_gen_seq grp)) (snd (max_gen_seq grp)) (compact_segments maxe size grp)) = true.
Proof.
  intros Hw. unfold outs_named_okb. apply andb_true_iff. split.
  - apply forallb_forall. intros o Ho.
    assert (In (fst o) (map fname (compact_with maxe size grp))) as Hn.
    { unfold compact_with. rewrite <- model_ofiles_names. apply in_map. assumption. }
    apply in_map_iff in Hn. destruct Hn as [o' [E Ho']]. rewrite <- E.
    apply andb_true_iff. split.
    + apply forallb_forall. intros g Hg. eapply compact_outs_newer; eassumption.
    + destruct (in_names (fname o') fs) eqn:Ei; [|reflexivity].
      apply in_names_true in Ei. destruct Ei as [s [Hs Hn]].
      exfalso. apply (compact_outs_fresh maxe size fs grp o' s Hw Ho' Hs). symmetry; assumption.
  - rewrite model_ofiles_names.
    assert (G : forall l, nsorted l -> chain name_ltb (map fname l) = true).
    { induction l as [|f r IH]; intros Hs; [reflexivity|]. destruct Hs as [Hf Hr]. cbn [map chain].
      rewrite (IH Hr), andb_true_r. destruct r as [|g r']; [reflexivity|]. cbn [map]. apply Hf. left; reflexivity. }
    apply G. apply mk_outs_sorted.
Qed.

Theorem link_compact : forall i, spec_compact i (model_compact i) = true.
Proof.
  intros i. unfold spec_compact, model_compact. cbn [co_err co_before co_outs co_after].
  set (grp := ci_members i).
  apply andb_true_iff; split; [apply andb_true_iff; split; [apply andb_true_iff; split|]|].
  - reflexivity.
  - destruct (hyp_okb (ci_fs i) grp _) eqn:Eh; [|reflexivity]. cbn [negb orb].
    rewrite model_ofiles_names in Eh.
    destruct (hyp_okb_spec (ci_fs i) (ci_group i) _ Eh) as [Hnd Hgs Hw Hj].
    erewrite (model_reads_ext (replace_files _ _ _) (ci_fs i)); [apply reads_eqb_refl|].
    intros k lo hi asc. unfold compact. apply compact_reads; auto. intros x. apply in_pick_group.
  - apply forallb_forall. intros o Ho. unfold ofile_okb.
    apply (compact_outputs_ok c09_max_index_entries (ci_size i) grp o max_index_entries_pos Ho).
  - destruct (whole_last_generation (ci_fs i) grp) eqn:Ew; [|reflexivity]. cbn [negb orb].
    apply named_ok. assumption.
Qed.

(* ---------- crash at any step ---------- *)

Lemma existsb_name_in x l : In x l -> existsb (name_eqb (fname x)) (map fname (sort_files l)) = true.
Proof.
  intros H. apply existsb_exists. exists (fname x). split; [|apply name_eqb_refl].
  apply in_map. apply sort_files_in. assumption.
Qed.

Theorem link_crash : forall i n, spec_crash i (model_crash i n) = true.
Proof.
  intros i n. unfold spec_crash, model_crash. cbn [xo_outs xo_trace xo_live xo_before xo_after].
  set (grp := ci_members i).
  destruct (hyp_okb (ci_fs i) grp _) eqn:Eh; [|reflexivity]. cbn [negb orb].
  destruct (hyp_okb_spec (ci_fs i) (ci_group i) (compact (ci_size i) grp) Eh) as [Hnd Hgs Hw Hj].
  assert (Hsub : forall x, In x grp -> In x (ci_fs i)) by (intros x; apply in_pick_group).
  change (reopen (run_steps (dir_compacted (ci_fs i) (compact (ci_size i) grp))
                            (firstn n (replace_steps grp (compact (ci_size i) grp)))))
    with (reopen (crash_dir c09_max_index_entries (ci_size i) (ci_fs i) grp n)).
  destruct (crash_inputs c09_max_index_entries (ci_size i) (ci_fs i) grp Hnd Hsub Hw n) as [Hin Hrest].
  apply andb_true_iff; split; [apply andb_true_iff; split|].
  - erewrite (model_reads_ext (reopen _) (ci_fs i)); [apply reads_eqb_refl|].
    intros k lo hi asc. apply crash_reads; auto.
  - apply forallb_forall. intros g Hg. destruct (Hin g Hg) as [H|H].
    + rewrite (existsb_name_in g _ H). reflexivity.
    + apply orb_true_iff. right. apply forallb_forall. intros nm Hnm.
      apply in_map_iff in Hnm. destruct Hnm as [o [<- Ho]]. apply existsb_name_in. apply H. exact Ho.
  - apply forallb_forall. intros f Hf. destruct (in_names (fname f) grp) eqn:E; [reflexivity|].
    cbn [orb]. apply existsb_name_in. apply Hrest; [assumption|].
    apply (in_names_group_iff (ci_fs i) grp f Hnd Hsub Hf). assumption.
Qed.

(* ---------- failed / aborted compaction ---------- *)

Theorem link_fail : forall i, spec_fail i (model_fail i) = true.
Proof.
  intros i. unfold spec_fail, model_fail, abort_compaction, dir_compacted, reopen.
  cbn [fo_err fo_returned fo_live fo_tmp fo_intact fo_before fo_after d_live d_tmp length].
  rewrite names_eqb_refl, reads_eqb_refl. reflexivity.
Qed.

(* ---------- snapshot ---------- *)

Lemma kv_get_map_self (f : key -> list tv) ks k :
  In k ks -> kv_get k (map (fun k0 => (k0, f k0)) ks) = f k.
Proof.
  induction ks as [|h r IH]; intros H; [destruct H|]. cbn [map kv_get].
  destruct (key_eqb h k) eqn:E.
  - apply key_eqb_eq in E. subst. reflexivity.
  - destruct H as [->|H]; [rewrite key_eqb_refl in E; discriminate|]. apply IH. assumption.
Qed.

Lemma lookup_merge_window t lo hi X c :
  ssorted X ->
  lookup_last t (merge_lw (include_range lo hi X) (include_range lo hi (dedup c))) =
  if (lo <=? t) && (t <=? hi) then lookup_last t (X ++ c) else None.
Proof.
  intros Hs. rewrite merge_lw_lookup by (apply filter_ssorted; assumption).
  rewrite lookup_last_app, !lookup_include_range, dedup_last_wins, lookup_last_app.
  destruct ((lo <=? t) && (t <=? hi)); reflexivity.
Qed.

Lemma window_merge_eq lo hi X1 X2 c1 c2 :
  ssorted X1 -> ssorted X2 ->
  (forall t, lookup_last t (X1 ++ c1) = lookup_last t (X2 ++ c2)) ->
  merge_lw (include_range lo hi X1) (include_range lo hi (dedup c1)) =
  merge_lw (include_range lo hi X2) (include_range lo hi (dedup c2)).
Proof.
  intros S1 S2 H. apply sorted_lookup_ext.
  - apply merge_lw_sorted, filter_ssorted; assumption.
  - apply merge_lw_sorted, filter_ssorted; assumption.
  - intros t. rewrite !lookup_merge_window by assumption. rewrite H. reflexivity.
Qed.

Lemma read_all_empty fs k : read_all fs empty_cache k = files_values fs k.
Proof. reflexivity. Qed.

Lemma files_cache_lookup t fs c k :
  lookup_last t (files_values (sort_files fs) k ++ cache_values c k) = lookup_last t (store_read_all fs c k).
Proof.
  unfold store_read_all. rewrite read_all_lookup, !lookup_last_app, files_values_lookup. reflexivity.
Qed.

(* the overlay the engine's cursors compute from the two observed parts is the same for two
   states whose full reads agree at every timestamp *)
Lemma overlay_reads_eq fs1 fs2 c1 c2 ks lo hi :
  (forall k t, lookup_last t (store_read_all fs1 c1 k) = lookup_last t (store_read_all fs2 c2 k)) ->
  overlay_reads (model_reads fs1 empty_cache ks lo hi) (cache_obs c1 ks) lo hi =
  overlay_reads (model_reads fs2 empty_cache ks lo hi) (cache_obs c2 ks) lo hi.
Proof.
  intros H. unfold overlay_reads, model_reads, cache_obs. rewrite !map_map. apply map_ext_in.
  intros k Hk. cbn [fst snd].
  rewrite !(kv_get_map_self (fun k0 => dedup (cache_values _ k0)) ks k Hk).
  unfold store_read, read. cbn [negb]. rewrite !rev_involutive, !read_all_empty.
  assert (E : forall t, lookup_last t (files_values (sort_files fs1) k ++ cache_values c1 k) =
                        lookup_last t (files_values (sort_files fs2) k ++ cache_values c2 k)).
  { intros t. rewrite !files_cache_lookup. apply H. }
  rewrite (window_merge_eq lo max_int64 _ _ _ _ (files_values_sorted _ k) (files_values_sorted _ k) E).
  rewrite (window_merge_eq min_int64 hi _ _ _ _ (files_values_sorted _ k) (files_values_sorted _ k) E).
  reflexivity.
Qed.

Theorem link_snapshot : forall i, spec_snapshot i (model_snapshot i) = true.
Proof.
  intros i. unfold spec_snapshot, model_snapshot.
  cbn [so_err so_outs so_files_before so_files_after so_cache_before so_cache_after].
  apply andb_true_iff; split; [apply andb_true_iff; split|].
  - reflexivity.
  - destruct (gen_freshb i && nodup_names (map fname (si_fs i))) eqn:Eg; [|reflexivity]. cbn [negb orb].
    apply andb_true_iff in Eg. destruct Eg as [Eg End].
    assert (Hnd : names_nodup (s_files (si_shard i))) by (apply nodup_names_spec; exact End).
    assert (Hgen : forall f, In f (s_files (si_shard i)) -> (f_gen f < si_gen i)%N).
    { intros f Hf. unfold gen_freshb in Eg. rewrite forallb_forall in Eg. specialize (Eg f Hf). lia. }
    assert (E1 : forall k t,
               lookup_last t (store_read_all (s_files (si_shard i)) (s_cache (install_snapshot (si_gen i) (si_shard i))) k) =
               lookup_last t (store_read_all (s_files (install_snapshot (si_gen i) (si_shard i)))
                                             (s_cache (install_snapshot (si_gen i) (si_shard i))) k)).
    { intros k t. symmetry. apply (snapshot_lookup (si_shard i) (si_gen i) k t Hnd Hgen). }
    assert (E2 : forall k t,
               lookup_last t (store_read_all (s_files (si_shard i)) (s_cache (install_snapshot (si_gen i) (si_shard i))) k) =
               lookup_last t (store_read_all (s_files (install_snapshot (si_gen i) (si_shard i)))
                                             (s_cache (clear_snapshot (install_snapshot (si_gen i) (si_shard i)))) k)).
    { intros k t. symmetry. apply (snapshot_lookup (si_shard i) (si_gen i) k t Hnd Hgen). }
    rewrite <- (overlay_reads_eq _ _ _ _ (si_keys i) (si_lo i) (si_hi i) E1).
    rewrite <- (overlay_reads_eq _ _ _ _ (si_keys i) (si_lo i) (si_hi i) E2).
    rewrite reads_eqb_refl. reflexivity.
  - apply forallb_forall. intros o Ho. unfold ofile_okb.
    apply (snapshot_outputs_ok c09_max_index_entries (si_gen i) (si_snap i) o max_index_entries_pos Ho).
Qed.

(* ---------- a whole-series delete while the compaction runs ---------- *)

Lemma file_values_delete_other k k' f :
  key_eqb k k' = false -> file_values (delete_key k f) k' = file_values f k'.
Proof.
  intros E. unfold file_values, delete_key, apply_tombs. cbn [f_tombs f_data].
  rewrite fold_left_app. cbn [fold_left fst snd]. rewrite E. reflexivity.
Qed.

Lemma sort_files_map_delete k l : sort_files (map (delete_key k) l) = map (delete_key k) (sort_files l).
Proof.
  assert (Hins : forall f l0, insert_file (delete_key k f) (map (delete_key k) l0) = map (delete_key k) (insert_file f l0)).
  { intros f l0. induction l0 as [|g r IH]; cbn [map insert_file]; [reflexivity|].
    change (fname (delete_key k f)) with (fname f). change (fname (delete_key k g)) with (fname g).
    destruct (name_ltb (fname f) (fname g)); cbn [map]; [reflexivity|]. rewrite IH. reflexivity. }
  induction l as [|f r IH]; cbn [map sort_files fold_right]; [reflexivity|].
  fold (sort_files (map (delete_key k) r)). fold (sort_files r). rewrite IH. apply Hins.
Qed.

Lemma files_values_map_delete k k' l :
  key_eqb k k' = false -> files_values (map (delete_key k) l) k' = files_values l k'.
Proof.
  intros E. unfold files_values. generalize (@nil tv).
  induction l as [|f r IH]; intros acc; cbn [map fold_left]; [reflexivity|].
  rewrite file_values_delete_other by assumption. apply IH.
Qed.

Lemma store_read_delete_other k k' fs c lo hi asc :
  key_eqb k k' = false ->
  store_read (map (delete_key k) fs) c k' lo hi asc = store_read fs c k' lo hi asc.
Proof.
  intros E. unfold store_read, read, read_all.
  rewrite sort_files_map_delete, files_values_map_delete by assumption. reflexivity.
Qed.

Lemma drop_key_model_reads k fs1 fs2 c ks lo hi :
  (forall k' lo hi asc, key_eqb k k' = false -> store_read fs1 c k' lo hi asc = store_read fs2 c k' lo hi asc) ->
  drop_key k (model_reads fs1 c ks lo hi) = drop_key k (model_reads fs2 c ks lo hi).
Proof.
  intros H. unfold drop_key, model_reads. induction ks as [|h r IH]; cbn [map filter fst]; [reflexivity|].
  destruct (key_eqb h k) eqn:E; cbn [negb]; [exact IH|].
  rewrite IH. rewrite !H by (rewrite key_eqb_sym; assumption). reflexivity.
Qed.

Lemma names_sort_delete k fs : map fname (sort_files (map (delete_key k) fs)) = map fname (sort_files fs).
Proof. rewrite sort_files_map_delete, map_map. reflexivity. Qed.

Theorem link_delete_fail : forall i k, spec_delete i k (model_delete_fail i k) = true.
Proof.
  intros i k. unfold spec_delete, model_delete_fail, abort_compaction, dir_compacted, reopen.
  cbn [do_err do_outs do_live do_tmp do_before do_after d_live d_tmp length N.eqb N.of_nat Nat.eqb].
  unfold deleted_fs. rewrite names_sort_delete, names_eqb_refl.
  rewrite (drop_key_model_reads k (ci_fs i) (map (delete_key k) (ci_fs i))).
  - rewrite reads_eqb_refl. reflexivity.
  - intros k' lo hi asc E. symmetry. apply store_read_delete_other. assumption.
Qed.

Theorem link_delete_ok : forall i k, spec_delete i k (model_delete_ok i k) = true.
Proof.
  intros i k. unfold spec_delete, model_delete_ok.
  cbn [do_err do_outs do_live do_tmp do_before do_after N.eqb].
  set (j := deleted_input i k). set (grp := ci_members j).
  destruct (hyp_okb (deleted_fs i k) grp _) eqn:Eh; [|reflexivity]. cbn [negb orb].
  unfold model_compact in *. cbn [co_outs co_after] in *. fold grp in Eh |- *.
  rewrite model_ofiles_names in Eh.
  destruct (hyp_okb_spec (ci_fs j) (ci_group j) _ Eh) as [Hnd Hgs Hw Hj].
  apply andb_true_iff; split; [apply andb_true_iff; split|reflexivity].
  - rewrite (drop_key_model_reads k (ci_fs i) (replace_files (ci_fs j) grp (compact (ci_size j) grp))).
    + apply reads_eqb_refl.
    + intros k' lo hi asc E. unfold compact.
      rewrite (compact_reads c09_max_index_entries (ci_size j) (ci_fs j) grp Hnd (fun x => in_pick_group _ _ x) Hgs Hw Hj).
      symmetry. apply store_read_delete_other. assumption.
  - apply forallb_forall. intros o Ho. unfold ofile_okb.
    apply (compact_outputs_ok c09_max_index_entries (ci_size j) grp o max_index_entries_pos Ho).
Qed.
