(* C09/BlocksRefine.v — the block-level merge refines the logical newest-wins merge.
   Invariant-based proof over the whole run of Blocks.key_loop (every merge<T>() call, every
   window of the decode path with its partial read marks, the fast path, every chunk).

   The only fact about a window that is not derived here from the structure of the sorted
   block list is the WINDOW CONDITION [window_crux]: the window's lower end is not above any
   value that is still unread.  It is stated as the hypothesis [key_crux] on the run (a
   decidable predicate that mirrors the loops), and discharged unconditionally in
   BlocksClass.v for the block lists whose sorted order is also ordered by minTime. *)
From Verif Require Import Shard.Store C09.Model C09.Blocks C09.BlocksProofs.
From Coq Require Import ZifyBool.
Open Scope Z_scope.

(* ---------- small list facts ---------- *)

Lemma filter_nil_all {A} (p : A -> bool) l : (forall x, In x l -> p x = false) -> filter p l = [].
Proof.
  induction l as [|x r IH]; intros H; cbn [filter]; [reflexivity|].
  rewrite (H x (or_introl eq_refl)). apply IH. intros; apply H; right; assumption.
Qed.

Lemma filter_all {A} (p : A -> bool) l : (forall x, In x l -> p x = true) -> filter p l = l.
Proof.
  induction l as [|x r IH]; intros H; cbn [filter]; [reflexivity|].
  rewrite (H x (or_introl eq_refl)). f_equal. apply IH. intros; apply H; right; assumption.
Qed.

Lemma filter_filter {A} (p q : A -> bool) l : filter q (filter p l) = filter (fun x => p x && q x) l.
Proof.
  induction l as [|x r IH]; cbn [filter]; [reflexivity|].
  destruct (p x); cbn [andb filter]; [destruct (q x); [f_equal|]|]; exact IH.
Qed.

Lemma nil_no_In {A} (l : list A) : (forall x, In x l -> False) -> l = [].
Proof. destruct l as [|x r]; [reflexivity|]. intros H. destruct (H x (or_introl eq_refl)). Qed.

Lemma ssorted_app (a b : list tv) :
  ssorted a -> ssorted b -> (forall x y, In x a -> In y b -> fst x < fst y) -> ssorted (a ++ b).
Proof.
  induction a as [|x a IH]; intros Ha Hb H; cbn [app]; [assumption|].
  apply ssorted_cons.
  - intros y Hy. apply in_app_or in Hy. destruct Hy as [Hy|Hy].
    + exact (ssorted_all_gt _ _ Ha y Hy).
    + apply H; [left; reflexivity|assumption].
  - apply IH; [exact (ssorted_tail _ _ Ha)|assumption|]. intros; apply H; [right|]; assumption.
Qed.

Lemma ssorted_app_l (a b : list tv) : ssorted (a ++ b) -> ssorted a.
Proof.
  induction a as [|x a IH]; intros H; [exact I|]. cbn [app] in H.
  apply ssorted_cons; [|apply IH; exact (ssorted_tail _ _ H)].
  intros y Hy. apply (ssorted_all_gt _ _ H). apply in_or_app. left; assumption.
Qed.

Lemma ssorted_app_r (a b : list tv) : ssorted (a ++ b) -> ssorted b.
Proof. induction a as [|x a IH]; intros H; [assumption|]. apply IH. exact (ssorted_tail _ _ H). Qed.

Lemma ssorted_app_lt (a b : list tv) x y : ssorted (a ++ b) -> In x a -> In y b -> fst x < fst y.
Proof.
  induction a as [|z a IH]; intros H Hx Hy; [destruct Hx|]. cbn [app] in H.
  destruct Hx as [<-|Hx].
  - apply (ssorted_all_gt _ _ H). apply in_or_app. right; assumption.
  - apply IH; [exact (ssorted_tail _ _ H)|assumption|assumption].
Qed.

Lemma first_time_le (l : list tv) y : ssorted l -> In y l -> first_time l <= fst y.
Proof.
  destruct l as [|x r]; intros Hs Hy; [destruct Hy|]. cbn [first_time].
  destruct Hy as [<-|Hy]; [lia|]. pose proof (ssorted_all_gt _ _ Hs y Hy). lia.
Qed.

Lemma last_time_ge : forall (l : list tv) y, ssorted l -> In y l -> fst y <= last_time l.
Proof.
  unfold last_time. induction l as [|x r IH]; intros y Hs Hy; [destruct Hy|].
  destruct r as [|z r'].
  - destruct Hy as [<-|[]]. cbn. lia.
  - change (last (x :: z :: r') (0, VBool false)) with (last (z :: r') (0, VBool false)).
    destruct Hy as [<-|Hy].
    + specialize (IH z (ssorted_tail _ _ Hs) (or_introl eq_refl)). cbn in Hs. lia.
    + apply IH; [exact (ssorted_tail _ _ Hs)|assumption].
Qed.

Lemma first_time_In (l : list tv) : l <> [] -> exists y, In y l /\ fst y = first_time l.
Proof. destruct l as [|x r]; [congruence|]. intros _. exists x. split; [left|]; reflexivity. Qed.

Lemma last_time_In : forall (l : list tv), l <> [] -> exists y, In y l /\ fst y = last_time l.
Proof.
  unfold last_time. induction l as [|x r IH]; [congruence|]. intros _.
  destruct r as [|z r'].
  - exists x. split; [left|]; reflexivity.
  - destruct IH as [y [Hy E]]; [discriminate|]. exists y. split; [right; assumption|exact E].
Qed.

Lemma firstn_skipn_lt (n : nat) (l : list tv) x y :
  ssorted l -> In x (firstn n l) -> In y (skipn n l) -> fst x < fst y.
Proof. intros Hs. rewrite <- (firstn_skipn n l) in Hs. apply ssorted_app_lt. assumption. Qed.

(* ---------- unread part of a block ---------- *)

Definition U (b : blk) : list tv := exclude_range (b_rmin b) (b_rmax b) (b_vals b).
Definition pend (b : blk) : list tv := apply_tr (b_tombs b) (U b).

Record bwf (b : blk) : Prop := {
  w_sorted : ssorted (b_vals b);
  w_range : forall y, In y (b_vals b) -> b_min b <= fst y <= b_max b;
  w_ok : b_min b <= b_max b;
  w_i64 : forall y, In y (b_vals b) -> min_i64 <= fst y;
  w_marks : untouched b \/ (forall y, In y (b_vals b) -> b_rmin b <= fst y)
}.

Lemma U_In b y : In y (U b) <-> In y (b_vals b) /\ in_range (b_rmin b) (b_rmax b) y = false.
Proof. unfold U, exclude_range. rewrite filter_In. destruct (in_range (b_rmin b) (b_rmax b) y); intuition discriminate. Qed.

Lemma U_sub b y : In y (U b) -> In y (b_vals b).
Proof. intros H. apply U_In in H. tauto. Qed.

Lemma U_sorted b : bwf b -> ssorted (U b).
Proof. intros W. apply filter_ssorted. exact (w_sorted b W). Qed.

Lemma U_untouched b : untouched b -> U b = b_vals b.
Proof.
  intros [E1 E2]. unfold U, exclude_range. apply filter_all. intros x _.
  unfold in_range. rewrite E1, E2. unfold max_i64, min_i64. lia.
Qed.

Lemma U_read b : bwf b -> is_read b = true -> U b = [].
Proof.
  intros W H. unfold U, exclude_range. apply filter_nil_all. intros x Hx.
  pose proof (w_range b W x Hx). unfold is_read in H. unfold in_range. lia.
Qed.

Lemma pend_sub b y : In y (pend b) -> In y (U b).
Proof. apply apply_tr_In. Qed.

Lemma pend_sorted b : bwf b -> ssorted (pend b).
Proof. intros W. apply apply_tr_sorted. apply U_sorted. assumption. Qed.

Lemma untouched_not_read b : b_min b <= b_max b -> untouched b -> is_read b = false.
Proof. intros Hr [E1 E2]. unfold is_read. rewrite E1, E2. unfold max_i64, min_i64. lia. Qed.

Lemma read_exactly_read b : read_exactly b -> is_read b = true.
Proof. intros [E1 E2]. unfold is_read. lia. Qed.

(* ---------- one block in one window ---------- *)

Definition skipb (mn mx : Z) (b : blk) : bool := negb (overlaps b mn mx) || is_read b.
Definition adv (mn mx : Z) (b : blk) : blk := if skipb mn mx b then b else fst (read_block mn mx b).
Definition low (mn mx : Z) (b : blk) : list tv := if skipb mn mx b then [] else snd (read_block mn mx b).

Lemma read_window_eq mn mx : forall bs mv,
  read_window mn mx bs mv = (map (adv mn mx) bs, fold_left (fun m b => merge2 m (low mn mx b)) bs mv).
Proof.
  induction bs as [|b r IH]; intros mv; cbn [read_window map fold_left]; [reflexivity|].
  change (negb (overlaps b mn mx) || is_read b) with (skipb mn mx b).
  destruct (skipb mn mx b) eqn:Sk; rewrite IH; cbn [fst snd]; unfold adv, low; rewrite Sk.
  - rewrite merge2_nil_r. reflexivity.
  - reflexivity.
Qed.

(* the window condition for one block: no unread value below the window *)
Definition cr (mn : Z) (b : blk) : Prop := forall y, In y (U b) -> mn <= fst y.

Definition hi_part (mx : Z) (l : list tv) : list tv := filter (fun y => mx <? fst y) l.
Definition lo_part (mx : Z) (l : list tv) : list tv := filter (fun y => fst y <=? mx) l.

Lemma apply_tr_nil tombs : apply_tr tombs [] = [].
Proof. rewrite apply_tr_filter. reflexivity. Qed.

Lemma adv_static mn mx b :
  b_min (adv mn mx b) = b_min b /\ b_max (adv mn mx b) = b_max b /\
  b_vals (adv mn mx b) = b_vals b /\ b_tombs (adv mn mx b) = b_tombs b.
Proof.
  unfold adv. destruct (skipb mn mx b); [auto|]. unfold read_block. cbn [fst].
  destruct (include_range mn mx (exclude_range (b_rmin b) (b_rmax b) (b_vals b))); cbn; auto.
Qed.

Lemma adv_spec mn mx b : bwf b -> cr mn b ->
  bwf (adv mn mx b) /\
  U (adv mn mx b) = hi_part mx (U b) /\
  low mn mx b = apply_tr (b_tombs b) (lo_part mx (U b)).
Proof.
  intros W C. unfold adv, low. destruct (skipb mn mx b) eqn:Sk.
  - split; [assumption|]. unfold skipb in Sk. apply orb_true_iff in Sk. destruct Sk as [Sk|Sk].
    + (* no overlap with the window *)
      unfold overlaps in Sk.
      assert (D : mx < b_min b \/ b_max b < mn) by lia. destruct D as [D|D].
      * split.
        -- unfold hi_part. symmetry. apply filter_all. intros y Hy. apply U_sub in Hy.
           pose proof (w_range b W y Hy). lia.
        -- unfold lo_part. rewrite filter_nil_all; [rewrite apply_tr_nil; reflexivity|].
           intros y Hy. apply U_sub in Hy. pose proof (w_range b W y Hy). lia.
      * assert (E : U b = []).
        { apply nil_no_In. intros y Hy. pose proof (C y Hy). apply U_sub in Hy.
          pose proof (w_range b W y Hy). lia. }
        rewrite E. cbn. rewrite apply_tr_nil. auto.
    + rewrite (U_read b W Sk). cbn. rewrite apply_tr_nil. auto.
  - unfold read_block. cbn [fst snd]. fold (U b).
    assert (Ev0 : include_range mn mx (U b) = lo_part mx (U b)).
    { unfold include_range, lo_part. apply filter_ext_in. intros y Hy. specialize (C y Hy).
      unfold in_range. lia. }
    rewrite Ev0. split; [|split; [|reflexivity]].
    + (* well-formedness of the new marks *)
      destruct (lo_part mx (U b)) as [|z v0'] eqn:Ev; [assumption|].
      set (v0 := z :: v0') in *.
      assert (Hs0 : ssorted v0) by (rewrite <- Ev; apply filter_ssorted, U_sorted; assumption).
      constructor; cbn [mark_read b_vals b_min b_max b_rmin b_rmax];
        [exact (w_sorted b W)|exact (w_range b W)|exact (w_ok b W)|exact (w_i64 b W)|].
      right. intros y Hy.
      destruct (w_marks b W) as [[E1 E2]|M].
      * (* untouched: every value is unread, so it is in v0 or above the window *)
        assert (Hf : first_time v0 <= fst y).
        { destruct (fst y <=? mx) eqn:Ey.
          - apply first_time_le; [assumption|]. rewrite <- Ev. apply filter_In. split; [|lia].
            apply U_In. split; [assumption|]. unfold in_range. rewrite E1, E2. unfold max_i64, min_i64. lia.
          - destruct (last_time_In v0) as [l [Hlin Hl]]; [discriminate|].
            pose proof (first_time_le v0 l Hs0 Hlin).
            rewrite <- Ev in Hlin. apply filter_In in Hlin. destruct Hlin as [_ Hlm]. lia. }
        destruct (first_time v0 <? b_rmin b) eqn:E; lia.
      * specialize (M y Hy). destruct (first_time v0 <? b_rmin b) eqn:E; lia.
    + (* the unread part after the window *)
      destruct (lo_part mx (U b)) as [|z v0'] eqn:Ev.
      * unfold hi_part. symmetry. apply filter_all. intros y Hy.
        destruct (mx <? fst y) eqn:E; [reflexivity|].
        assert (In y (lo_part mx (U b))) by (apply filter_In; split; [assumption|lia]).
        rewrite Ev in H. destruct H.
      * set (v0 := z :: v0') in *.
        assert (Hs0 : ssorted v0) by (rewrite <- Ev; apply filter_ssorted, U_sorted; assumption).
        unfold U at 1, hi_part, U, exclude_range. cbn [mark_read b_vals b_rmin b_rmax].
        rewrite filter_filter. apply filter_ext_in. intros y Hy.
        destruct (first_time_In v0) as [f [Hfin Hf]]; [discriminate|].
        destruct (last_time_In v0) as [l [Hlin Hl]]; [discriminate|].
        pose proof (first_time_le v0 l Hs0 Hlin) as Hfl.
        assert (Hin : forall w, In w v0 -> In w (b_vals b) /\ in_range (b_rmin b) (b_rmax b) w = false /\ fst w <= mx).
        { intros w Hw. rewrite <- Ev in Hw. apply filter_In in Hw. destruct Hw as [Hu Hm]. apply U_In in Hu. intuition lia. }
        destruct (Hin f Hfin) as [Hfv [Hfr Hfm]]. destruct (Hin l Hlin) as [Hlv [Hlr Hlm]].
        pose proof (w_i64 b W l Hlv) as Hl64. pose proof (w_i64 b W y Hy) as Hy64.
        assert (Hmem : in_range (b_rmin b) (b_rmax b) y = false -> fst y <= mx -> first_time v0 <= fst y <= last_time v0).
        { intros Hr Hm. assert (In y v0).
          { rewrite <- Ev. apply filter_In. split; [apply U_In; auto|lia]. }
          split; [apply first_time_le|apply last_time_ge]; assumption. }
        destruct (first_time v0 <? b_rmin b) eqn:Ef; destruct (last_time v0 >? b_rmax b) eqn:El;
        (destruct (w_marks b W) as [[E1 E2]|M];
         [ unfold in_range in *; rewrite ?E1, ?E2 in *; unfold max_i64, min_i64 in *;
           destruct (fst y <=? mx) eqn:Eym;
           [ assert (first_time v0 <= fst y <= last_time v0) by (apply Hmem; lia); lia | lia ]
         | pose proof (M f Hfv) as Mf; pose proof (M l Hlv) as Ml; specialize (M y Hy);
           unfold in_range in *;
           destruct ((b_rmin b <=? fst y) && (fst y <=? b_rmax b)) eqn:Er;
           [ lia | destruct (fst y <=? mx) eqn:Eym;
                   [ assert (first_time v0 <= fst y <= last_time v0) by (apply Hmem; [reflexivity|lia]); lia | lia ] ] ]).
Qed.

(* ---------- folding the window's contributions into the merged values ---------- *)

Lemma fold_merge2_sorted (f : blk -> list tv) : forall bs mv,
  ssorted mv -> (forall b, In b bs -> ssorted (f b)) ->
  ssorted (fold_left (fun m b => merge2 m (f b)) bs mv).
Proof.
  induction bs as [|b r IH]; intros mv Hm Hf; cbn [fold_left]; [assumption|].
  apply IH; [apply merge2_sorted; [assumption|apply Hf; left; reflexivity]|].
  intros; apply Hf; right; assumption.
Qed.

Lemma fold_merge2_In (f : blk -> list tv) z : forall bs mv,
  In z (fold_left (fun m b => merge2 m (f b)) bs mv) -> In z mv \/ exists b, In b bs /\ In z (f b).
Proof.
  induction bs as [|b r IH]; intros mv H; cbn [fold_left] in H; [left; assumption|].
  apply IH in H. destruct H as [H|[b' [Hb Hz]]].
  - apply merge2_In in H. destruct H as [H|H]; [left; assumption|].
    right. exists b. split; [left; reflexivity|assumption].
  - right. exists b'. split; [right; assumption|assumption].
Qed.

Lemma fold_merge2_lookup (f : blk -> list tv) t : forall bs mv,
  ssorted mv -> (forall b, In b bs -> ssorted (f b)) ->
  lookup_last t (fold_left (fun m b => merge2 m (f b)) bs mv) = lookup_last t (mv ++ flat_map f bs).
Proof.
  induction bs as [|b r IH]; intros mv Hm Hf; cbn [fold_left flat_map]; [rewrite app_nil_r; reflexivity|].
  assert (Hb : ssorted (f b)) by (apply Hf; left; reflexivity).
  rewrite IH; [|apply merge2_sorted; assumption|intros; apply Hf; right; assumption].
  rewrite app_assoc. apply lookup_app_congr; [|reflexivity].
  apply merge2_lookup; assumption.
Qed.

(* ---------- the invariant of the run ---------- *)

(* [out] = all values emitted so far (the output blocks concatenated), [bs] = k.blocks,
   [mv] = k.merged<T>Values; [L] = the newest-wins lookup of the key's input *)
Record inv (L : Z -> option value) (out : list tv) (bs : list blk) (mv : list tv) : Prop := {
  i_wf : Forall bwf bs;
  i_mv : ssorted mv;
  i_out : ssorted out;
  i_out_mv : forall x y, In x out -> In y mv -> fst x < fst y;
  i_out_un : forall x b y, In x out -> In b bs -> In y (U b) -> fst x < fst y;
  i_mv_un : forall x b y, In x mv -> In b bs -> In y (U b) -> fst x < fst y;
  i_look : forall t, lookup_last t (out ++ mv ++ flat_map pend bs) = L t
}.

(* clamp: the same values, but within the index entry for EVERY block (not only well-formed ones) *)
Definition pendc (b : blk) : list tv := filter (in_range (b_min b) (b_max b)) (pend b).

Lemma pendc_eq b : bwf b -> pendc b = pend b.
Proof.
  intros W. unfold pendc. apply filter_all. intros y Hy. apply pend_sub, U_sub in Hy.
  pose proof (w_range b W y Hy). unfold in_range. lia.
Qed.

Lemma flat_map_ext_in {A B} (f g : A -> list B) l : (forall x, In x l -> f x = g x) -> flat_map f l = flat_map g l.
Proof.
  induction l as [|x r IH]; intros H; cbn [flat_map]; [reflexivity|].
  rewrite (H x (or_introl eq_refl)), IH; [reflexivity|]. intros; apply H; right; assumption.
Qed.

Lemma sort_blocks_Forall (P : blk -> Prop) l : Forall P l -> Forall P (sort_blocks l).
Proof. rewrite !Forall_forall. intros H x Hx. apply H. apply sort_blocks_In. assumption. Qed.

(* sortBlocks keeps the invariant *)
Lemma inv_sort L out bs mv : inv L out bs mv -> inv L out (sort_blocks bs) mv.
Proof.
  intros [Hwf Hmv Hout Hom Hou Hmu Hl].
  constructor; try assumption.
  - apply sort_blocks_Forall. assumption.
  - intros x b y Hx Hb. apply Hou; [assumption|apply sort_blocks_In; assumption].
  - intros x b y Hx Hb. apply Hmu; [assumption|apply sort_blocks_In; assumption].
  - intros t. rewrite <- Hl. apply lookup_app_congr; [reflexivity|]. apply lookup_app_congr; [reflexivity|].
    rewrite <- (flat_map_ext_in pendc pend (sort_blocks bs)).
    + rewrite <- (flat_map_ext_in pendc pend bs).
      * apply sort_blocks_lookup. intros b y Hy. unfold pendc in Hy. apply filter_In in Hy.
        destruct Hy as [_ Hy]. unfold in_range in Hy. lia.
      * intros b Hb. apply pendc_eq. rewrite Forall_forall in Hwf. apply Hwf. assumption.
    + intros b Hb. apply pendc_eq. rewrite Forall_forall in Hwf. apply Hwf. apply sort_blocks_In. assumption.
Qed.

(* dropping the fully read blocks at the head *)
Lemma drop_read_sub b : forall bs, In b (drop_read bs) -> In b bs.
Proof.
  induction bs as [|c r IH]; cbn [drop_read]; [auto|].
  destruct (is_read c); intros H; [right; apply IH; assumption|assumption].
Qed.

Lemma drop_read_pend : forall bs, Forall bwf bs -> flat_map pend (drop_read bs) = flat_map pend bs.
Proof.
  induction bs as [|c r IH]; intros H; cbn [drop_read]; [reflexivity|].
  inversion H as [|? ? Hc Hr]; subst.
  destruct (is_read c) eqn:E; [|reflexivity].
  cbn [flat_map]. unfold pend at 2. rewrite (U_read c Hc E), apply_tr_nil. cbn [app]. apply IH. assumption.
Qed.

Lemma inv_drop_read L out bs mv : inv L out bs mv -> inv L out (drop_read bs) mv.
Proof.
  intros [Hwf Hmv Hout Hom Hou Hmu Hl].
  constructor; try assumption.
  - rewrite Forall_forall in *. intros b Hb. apply Hwf. apply drop_read_sub. assumption.
  - intros x b y Hx Hb. apply Hou; [assumption|apply drop_read_sub; assumption].
  - intros x b y Hx Hb. apply Hmu; [assumption|apply drop_read_sub; assumption].
  - intros t. rewrite drop_read_pend by assumption. apply Hl.
Qed.

(* ---------- one window ---------- *)

Lemma lookup_lo_part t mx (l : list tv) :
  lookup_last t (lo_part mx l) = if t <=? mx then lookup_last t l else None.
Proof.
  unfold lo_part. rewrite lookup_last_filter by (intros; reflexivity). cbn [fst].
  destruct (lookup_last t l); destruct (t <=? mx); reflexivity.
Qed.

Lemma lookup_hi_part t mx (l : list tv) :
  lookup_last t (hi_part mx l) = if mx <? t then lookup_last t l else None.
Proof.
  unfold hi_part. rewrite lookup_last_filter by (intros; reflexivity). cbn [fst].
  destruct (lookup_last t l); destruct (mx <? t); reflexivity.
Qed.

Lemma inv_window L out bs mv mn mx :
  inv L out bs mv -> (forall b, In b bs -> cr mn b) ->
  inv L out (fst (read_window mn mx bs mv)) (snd (read_window mn mx bs mv)).
Proof.
  intros [Hwf Hmv Hout Hom Hou Hmu Hl] C. rewrite read_window_eq. cbn [fst snd].
  rewrite Forall_forall in Hwf.
  assert (S : forall b, In b bs -> bwf (adv mn mx b) /\ U (adv mn mx b) = hi_part mx (U b) /\
                                   low mn mx b = apply_tr (b_tombs b) (lo_part mx (U b))).
  { intros b Hb. apply adv_spec; [apply Hwf|apply C]; assumption. }
  assert (Hlow_sorted : forall b, In b bs -> ssorted (low mn mx b)).
  { intros b Hb. destruct (S b Hb) as [_ [_ ->]]. apply apply_tr_sorted, filter_ssorted, U_sorted, Hwf. assumption. }
  assert (Hlow_in : forall b z, In b bs -> In z (low mn mx b) -> In z (U b) /\ fst z <= mx).
  { intros b z Hb Hz. destruct (S b Hb) as [_ [_ E]]. rewrite E in Hz. apply apply_tr_In in Hz.
    unfold lo_part in Hz. apply filter_In in Hz. split; [tauto|lia]. }
  assert (Hhi_in : forall b z, In b bs -> In z (U (adv mn mx b)) -> In z (U b) /\ mx < fst z).
  { intros b z Hb Hz. destruct (S b Hb) as [_ [E _]]. rewrite E in Hz.
    unfold hi_part in Hz. apply filter_In in Hz. split; [tauto|lia]. }
  constructor.
  - rewrite Forall_forall. intros b' Hb'. apply in_map_iff in Hb'. destruct Hb' as [b [<- Hb]]. apply S; assumption.
  - apply fold_merge2_sorted; assumption.
  - assumption.
  - intros x y Hx Hy. apply fold_merge2_In in Hy. destruct Hy as [Hy|[b [Hb Hy]]].
    + apply Hom; assumption.
    + apply (Hou x b y Hx Hb). apply (Hlow_in b y Hb Hy).
  - intros x b' y Hx Hb' Hy. apply in_map_iff in Hb'. destruct Hb' as [b [<- Hb]].
    apply (Hou x b y Hx Hb). apply (Hhi_in b y Hb Hy).
  - intros x b' y Hx Hb' Hy. apply in_map_iff in Hb'. destruct Hb' as [b [<- Hb]].
    destruct (Hhi_in b y Hb Hy) as [Hyu Hym].
    apply fold_merge2_In in Hx. destruct Hx as [Hx|[b2 [Hb2 Hx]]].
    + apply (Hmu x b y Hx Hb Hyu).
    + destruct (Hlow_in b2 x Hb2 Hx). lia.
  - intros t. rewrite <- Hl. apply lookup_app_congr; [reflexivity|].
    rewrite !lookup_last_app. rewrite fold_merge2_lookup by assumption. rewrite lookup_last_app.
    rewrite flat_map_concat_map, map_map, <- flat_map_concat_map.
    assert (P1 : lookup_last t (flat_map (fun b => pend (adv mn mx b)) bs) =
                 if mx <? t then lookup_last t (flat_map pend bs) else None).
    { destruct (mx <? t) eqn:E.
      - apply lookup_flat_map_ext. intros b Hb. unfold pend. destruct (S b Hb) as [_ [EU _]].
        destruct (adv_static mn mx b) as [_ [_ [_ ->]]]. rewrite EU.
        rewrite !apply_tr_lookup, lookup_hi_part, E. reflexivity.
      - apply lookup_none_notin. intros y Hy. apply in_flat_map in Hy. destruct Hy as [b [Hb Hy]].
        apply pend_sub in Hy. destruct (Hhi_in b y Hb Hy). lia. }
    assert (P2 : lookup_last t (flat_map (low mn mx) bs) =
                 if t <=? mx then lookup_last t (flat_map pend bs) else None).
    { destruct (t <=? mx) eqn:E.
      - apply lookup_flat_map_ext. intros b Hb. unfold pend. destruct (S b Hb) as [_ [_ ->]].
        rewrite !apply_tr_lookup, lookup_lo_part, E. reflexivity.
      - apply lookup_none_notin. intros y Hy. apply in_flat_map in Hy. destruct Hy as [b [Hb Hy]].
        destruct (Hlow_in b y Hb Hy). lia. }
    rewrite P1, P2. destruct (mx <? t) eqn:E1; destruct (t <=? mx) eqn:E2; try lia.
    + destruct (lookup_last t (flat_map pend bs)); reflexivity.
    + destruct (lookup_last t (flat_map pend bs)); reflexivity.
Qed.

(* ---------- chunk<T> ---------- *)

Lemma inv_emit_prefix L out bs mv n :
  inv L out bs mv -> inv L (out ++ firstn n mv) bs (skipn n mv).
Proof.
  intros [Hwf Hmv Hout Hom Hou Hmu Hl].
  pose proof (firstn_skipn n mv) as E.
  constructor.
  - assumption.
  - rewrite <- E in Hmv. apply ssorted_app_r in Hmv. assumption.
  - apply ssorted_app; [assumption|rewrite <- E in Hmv; apply ssorted_app_l in Hmv; assumption|].
    intros x y Hx Hy. apply Hom; [assumption|]. rewrite <- E. apply in_or_app. left; assumption.
  - intros x y Hx Hy. apply in_app_or in Hx. destruct Hx as [Hx|Hx].
    + apply Hom; [assumption|]. rewrite <- E. apply in_or_app. right; assumption.
    + apply (firstn_skipn_lt n mv); assumption.
  - intros x b y Hx Hb Hy. apply in_app_or in Hx. destruct Hx as [Hx|Hx].
    + apply (Hou x b y); assumption.
    + apply (Hmu x b y); [|assumption|assumption]. rewrite <- E. apply in_or_app. left; assumption.
  - intros x b y Hx Hb Hy. apply (Hmu x b y); [|assumption|assumption]. rewrite <- E. apply in_or_app. right; assumption.
  - intros t. rewrite <- Hl. rewrite <- app_assoc. rewrite (app_assoc (firstn n mv)), E. reflexivity.
Qed.

(* ---------- consuming the head block (fast path / "remaining blocks can be combined") ---------- *)

Definition ord (b : blk) (r : list blk) : Prop :=
  forall x b2 y, In x (pend b) -> In b2 r -> In y (U b2) -> fst x < fst y.

Lemma inv_tail_facts L out b r mv : inv L out (b :: r) mv ->
  Forall bwf r /\ bwf b /\
  (forall x b2 y, In x out -> In b2 r -> In y (U b2) -> fst x < fst y) /\
  (forall x b2 y, In x mv -> In b2 r -> In y (U b2) -> fst x < fst y).
Proof.
  intros [Hwf Hmv Hout Hom Hou Hmu Hl]. inversion Hwf; subst.
  split; [assumption|]. split; [assumption|]. split.
  - intros x b2 y Hx Hb. apply Hou; [assumption|right; assumption].
  - intros x b2 y Hx Hb. apply Hmu; [assumption|right; assumption].
Qed.

Lemma inv_emit_head L out b r : inv L out (b :: r) [] -> ord b r -> inv L (out ++ pend b) r [].
Proof.
  intros I O. destruct (inv_tail_facts _ _ _ _ _ I) as [Wr [Wb [Ou Mu]]].
  destruct I as [Hwf Hmv Hout Hom Hou Hmu Hl].
  constructor.
  - assumption.
  - exact I.
  - apply ssorted_app; [assumption|apply pend_sorted; assumption|].
    intros x y Hx Hy. apply (Hou x b y Hx (or_introl eq_refl)). apply pend_sub. assumption.
  - intros x y _ [].
  - intros x b2 y Hx Hb Hy. apply in_app_or in Hx. destruct Hx as [Hx|Hx].
    + apply (Ou x b2 y); assumption.
    + apply (O x b2 y); assumption.
  - intros x b2 y [].
  - intros t. rewrite <- Hl. cbn [app flat_map]. rewrite <- app_assoc. reflexivity.
Qed.

Lemma inv_consume_head L out b r mv : inv L out (b :: r) mv -> ord b r -> inv L out r (merge2 mv (pend b)).
Proof.
  intros I O. destruct (inv_tail_facts _ _ _ _ _ I) as [Wr [Wb [Ou Mu]]].
  destruct I as [Hwf Hmv Hout Hom Hou Hmu Hl].
  constructor.
  - assumption.
  - apply merge2_sorted; [assumption|apply pend_sorted; assumption].
  - assumption.
  - intros x y Hx Hy. apply merge2_In in Hy. destruct Hy as [Hy|Hy].
    + apply Hom; assumption.
    + apply (Hou x b y Hx (or_introl eq_refl)). apply pend_sub. assumption.
  - assumption.
  - intros x b2 y Hx Hb Hy. apply merge2_In in Hx. destruct Hx as [Hx|Hx].
    + apply (Mu x b2 y); assumption.
    + apply (O x b2 y); assumption.
  - intros t. rewrite <- Hl. apply lookup_app_congr; [reflexivity|]. cbn [flat_map].
    rewrite app_assoc. apply lookup_app_congr; [|reflexivity].
    apply merge2_lookup; [assumption|apply pend_sorted; assumption].
Qed.

Lemma strict_ord b r : bwf b -> Forall bwf r -> chainP strictly_before (b :: r) -> ord b r.
Proof.
  intros Wb Wr C x b2 y Hx Hb Hy. rewrite Forall_forall in Wr.
  assert (Hr : Forall range_ok r) by (rewrite Forall_forall; intros c Hc; exact (w_ok c (Wr c Hc))).
  pose proof (strictly_before_all b r Hr C b2 Hb).
  apply pend_sub, U_sub in Hx. apply U_sub in Hy.
  pose proof (w_range b Wb x Hx). pose proof (w_range b2 (Wr b2 Hb) y Hy). lia.
Qed.

Definition good (b : blk) : Prop := b_tombs b = [] /\ (untouched b \/ read_exactly b).

Lemma good_pend_untouched b : good b -> untouched b -> pend b = b_vals b.
Proof.
  intros [T _] Hu. unfold pend. rewrite T, (U_untouched b Hu). reflexivity.
Qed.

Lemma good_not_read_untouched b : bwf b -> good b -> is_read b = false -> untouched b.
Proof.
  intros W [_ [Hu|Hr]] E; [assumption|]. rewrite (read_exactly_read b Hr) in E. discriminate.
Qed.

Lemma pend_read b : bwf b -> is_read b = true -> pend b = [].
Proof. intros W E. unfold pend. rewrite (U_read b W E). apply apply_tr_nil. Qed.

Lemma chainP_tail {A} (R : A -> A -> Prop) a l : chainP R (a :: l) -> chainP R l.
Proof. cbn. tauto. Qed.

(* what every emitted block is, relative to the blocks [I] the key started with *)
Definition same_static (b b0 : blk) : Prop :=
  b_vals b = b_vals b0 /\ b_tombs b = b_tombs b0 /\ b_min b = b_min b0 /\ b_max b = b_max b0.
Definition src (I bs : list blk) : Prop := forall b, In b bs -> exists b0, In b0 I /\ same_static b b0.

Definition ob_ok (I : list blk) (size : nat) (o : oblk) : Prop :=
  if o_pass o then
    exists b0, In b0 I /\ o_vals o = b_vals b0 /\ b_tombs b0 = [] /\ o_min o = b_min b0 /\ o_max o = b_max b0
  else o_vals o <> [] /\ (length (o_vals o) <= size)%nat /\
       o_min o = first_time (o_vals o) /\ o_max o = last_time (o_vals o).

Definition vals_of (os : list oblk) : list tv := flat_map o_vals os.

Lemma vals_of_app a b : vals_of (a ++ b) = vals_of a ++ vals_of b.
Proof. apply flat_map_app. Qed.

Record pst (L : Z -> option value) (I : list blk) (size : nat) (outs : list oblk) (bs : list blk) (mv : list tv) : Prop := {
  p_inv : inv L (vals_of outs) bs mv;
  p_src : src I bs;
  p_outs : Forall (ob_ok I size) outs
}.

Lemma pass_ok I size b : src I [b] -> b_tombs b = [] -> ob_ok I size (pass b).
Proof.
  intros S T. destruct (S b (or_introl eq_refl)) as [b0 [H0 [E1 [E2 [E3 E4]]]]].
  unfold ob_ok, pass. cbn. exists b0. rewrite <- E2. auto.
Qed.

Lemma src_tail I b r : src I (b :: r) -> src I r.
Proof. intros S c Hc. apply S. right; assumption. Qed.

Lemma src_head I b r : src I (b :: r) -> src I [b].
Proof. intros S c [<-|[]]. apply S. left; reflexivity. Qed.

(* pass_full *)
Lemma pass_full_pst L I size : forall bs outs,
  pst L I size outs bs [] -> chainP strictly_before bs -> Forall good bs ->
  pst L I size (outs ++ fst (pass_full size bs)) (snd (pass_full size bs)) [] /\
  chainP strictly_before (snd (pass_full size bs)) /\ Forall good (snd (pass_full size bs)).
Proof.
  induction bs as [|b r IH]; intros outs P C G; cbn [pass_full fst snd].
  - rewrite app_nil_r. auto.
  - destruct P as [Pi Ps Po]. inversion G as [|? ? Gb Gr]; subst.
    destruct (inv_tail_facts _ _ _ _ _ Pi) as [Wr [Wb _]].
    pose proof (strict_ord b r Wb Wr C) as O.
    destruct (is_read b) eqn:E.
    + apply IH; [|exact (chainP_tail _ _ _ C)|assumption].
      constructor; [|exact (src_tail _ _ _ Ps)|assumption].
      pose proof (inv_emit_head _ _ _ _ Pi O) as H. rewrite (pend_read b Wb E), app_nil_r in H. exact H.
    + destruct (Nat.ltb (length (b_vals b)) size).
      * cbn [fst snd]. rewrite app_nil_r. split; [constructor; assumption|auto].
      * cbn [fst snd].
        assert (Hu : untouched b) by (apply good_not_read_untouched; assumption).
        specialize (IH (outs ++ [pass b])).
        replace (outs ++ pass b :: fst (pass_full size r)) with ((outs ++ [pass b]) ++ fst (pass_full size r))
          by (rewrite <- app_assoc; reflexivity).
        apply IH; [|exact (chainP_tail _ _ _ C)|assumption].
        constructor; [|exact (src_tail _ _ _ Ps)|].
        -- rewrite vals_of_app. unfold vals_of at 2. cbn [flat_map pass o_vals]. rewrite app_nil_r.
           rewrite <- (good_pend_untouched b Gb Hu). apply inv_emit_head; assumption.
        -- apply Forall_app. split; [assumption|]. constructor; [|constructor].
           apply pass_ok; [exact (src_head _ _ _ Ps)|exact (proj1 Gb)].
Qed.

(* pass_all: every remaining block *)
Lemma pass_all_pst L I size : forall bs outs,
  pst L I size outs bs [] -> chainP strictly_before bs -> Forall good bs ->
  pst L I size (outs ++ pass_all bs) [] [].
Proof.
  unfold pass_all. induction bs as [|b r IH]; intros outs P C G; cbn [filter map].
  - rewrite app_nil_r. assumption.
  - destruct P as [Pi Ps Po]. inversion G as [|? ? Gb Gr]; subst.
    destruct (inv_tail_facts _ _ _ _ _ Pi) as [Wr [Wb _]].
    pose proof (strict_ord b r Wb Wr C) as O.
    destruct (is_read b) eqn:E; cbn [negb].
    + apply IH; [|exact (chainP_tail _ _ _ C)|assumption].
      constructor; [|exact (src_tail _ _ _ Ps)|assumption].
      pose proof (inv_emit_head _ _ _ _ Pi O) as H. rewrite (pend_read b Wb E), app_nil_r in H. exact H.
    + cbn [map].
      assert (Hu : untouched b) by (apply good_not_read_untouched; assumption).
      replace (outs ++ pass b :: map pass (filter (fun b0 => negb (is_read b0)) r))
        with ((outs ++ [pass b]) ++ map pass (filter (fun b0 => negb (is_read b0)) r))
        by (rewrite <- app_assoc; reflexivity).
      apply IH; [|exact (chainP_tail _ _ _ C)|assumption].
      constructor; [|exact (src_tail _ _ _ Ps)|].
      * rewrite vals_of_app. unfold vals_of at 2. cbn [flat_map pass o_vals]. rewrite app_nil_r.
        rewrite <- (good_pend_untouched b Gb Hu). apply inv_emit_head; assumption.
      * apply Forall_app. split; [assumption|]. constructor; [|constructor].
        apply pass_ok; [exact (src_head _ _ _ Ps)|exact (proj1 Gb)].
Qed.

(* pass_last *)
Lemma pass_last_pst L I size bs outs :
  pst L I size outs bs [] -> chainP strictly_before bs -> Forall good bs ->
  pst L I size (outs ++ fst (pass_last bs)) (snd (pass_last bs)) [] /\
  chainP strictly_before (snd (pass_last bs)) /\ Forall good (snd (pass_last bs)).
Proof.
  intros P C G. destruct bs as [|b [|c r]]; cbn [pass_last fst snd]; try (rewrite app_nil_r; auto).
  destruct P as [Pi Ps Po]. inversion G as [|? ? Gb Gr]; subst.
  destruct (inv_tail_facts _ _ _ _ _ Pi) as [Wr [Wb _]].
  pose proof (strict_ord b [] Wb Wr C) as O.
  split; [|cbn; auto].
  destruct (is_read b) eqn:E.
  - rewrite app_nil_r. constructor; [|intros ? []|assumption].
    pose proof (inv_emit_head _ _ _ _ Pi O) as H. rewrite (pend_read b Wb E), app_nil_r in H. exact H.
  - assert (Hu : untouched b) by (apply good_not_read_untouched; assumption).
    constructor; [|intros ? []|].
    + rewrite vals_of_app. unfold vals_of at 2. cbn [flat_map pass o_vals]. rewrite app_nil_r.
      rewrite <- (good_pend_untouched b Gb Hu). apply inv_emit_head; assumption.
    + apply Forall_app. split; [assumption|]. constructor; [|constructor].
      apply pass_ok; [exact Ps|exact (proj1 Gb)].
Qed.

(* decode_rest *)
Lemma decode_rest_pst L I size : forall bs outs mv,
  pst L I size outs bs mv -> chainP strictly_before bs -> Forall good bs ->
  pst L I size outs (fst (decode_rest size bs mv)) (snd (decode_rest size bs mv)).
Proof.
  induction bs as [|b r IH]; intros outs mv P C G; cbn [decode_rest]; [assumption|].
  destruct (Nat.ltb (length mv) size); [|assumption].
  destruct P as [Pi Ps Po]. inversion G as [|? ? Gb Gr]; subst.
  destruct (inv_tail_facts _ _ _ _ _ Pi) as [Wr [Wb _]].
  pose proof (strict_ord b r Wb Wr C) as O.
  destruct (is_read b) eqn:E.
  - apply IH; [|exact (chainP_tail _ _ _ C)|assumption].
    constructor; [|exact (src_tail _ _ _ Ps)|assumption].
    pose proof (inv_consume_head _ _ _ _ _ Pi O) as H.
    rewrite (pend_read b Wb E), merge2_nil_r in H. exact H.
  - assert (Hu : untouched b) by (apply good_not_read_untouched; assumption).
    apply IH; [|exact (chainP_tail _ _ _ C)|assumption].
    constructor; [|exact (src_tail _ _ _ Ps)|assumption].
    pose proof (inv_consume_head _ _ _ _ _ Pi O) as H.
    unfold pend in H. rewrite (U_untouched b Hu) in H. exact H.
Qed.

(* ---------- chunk<T> on the full state ---------- *)

Lemma enc_ok I size vs : vs <> [] -> (length vs <= size)%nat -> ob_ok I size (enc vs).
Proof. intros. unfold ob_ok, enc. cbn. auto. Qed.

Lemma chunk1_pst L I size outs o1 bs mv : (1 <= size)%nat ->
  pst L I size (outs ++ o1) bs mv ->
  pst L I size (outs ++ fst (chunk1 size o1 mv)) bs (snd (chunk1 size o1 mv)).
Proof.
  intros Hs [Pi Ps Po]. unfold chunk1. destruct (Nat.ltb size (length mv)) eqn:E; cbn [fst snd].
  - apply Nat.ltb_lt in E. constructor; [|assumption|].
    + rewrite app_assoc, vals_of_app. unfold vals_of at 2. cbn [flat_map enc o_vals]. rewrite app_nil_r.
      apply inv_emit_prefix. assumption.
    + rewrite app_assoc. apply Forall_app. split; [assumption|]. constructor; [|constructor].
      apply enc_ok.
      * destruct mv; cbn in E; [lia|]. destruct size; [lia|]. cbn. discriminate.
      * rewrite firstn_length. lia.
  - apply Nat.ltb_ge in E. destruct mv as [|z mv'].
    + cbn [fst snd]. constructor; assumption.
    + cbn [fst snd]. constructor; [|assumption|].
      * rewrite app_assoc, vals_of_app. unfold vals_of at 2. cbn [flat_map enc o_vals]. rewrite app_nil_r.
        pose proof (inv_emit_prefix L _ bs (z :: mv') (length (z :: mv')) Pi) as H.
        rewrite firstn_all, skipn_all in H. exact H.
      * rewrite app_assoc. apply Forall_app. split; [assumption|]. constructor; [|constructor].
        apply enc_ok; [discriminate|assumption].
Qed.

(* ---------- the window condition along a run ---------- *)

Definition window_crux (bs1 : list blk) (first : blk) : Prop :=
  forall b, In b bs1 -> cr (fst (window bs1 first)) b.

Fixpoint dedup_crux (fuel size : nat) (bs : list blk) (mv : list tv) : Prop :=
  if Nat.ltb (length mv) size && nonemptyb bs then
    match fuel with
    | O => True
    | S f =>
        match drop_read bs with
        | [] => True
        | (first :: _) as bs1 =>
            window_crux bs1 first /\
            dedup_crux f size (fst (read_window (fst (window bs1 first)) (snd (window bs1 first)) bs1 mv))
                              (snd (read_window (fst (window bs1 first)) (snd (window bs1 first)) bs1 mv))
        end
    end
  else True.

Definition merge_crux (dfuel size : nat) (bs0 : list blk) (mv : list tv) : Prop :=
  if need_dedup (sort_blocks bs0) mv then dedup_crux dfuel size (sort_blocks bs0) mv else True.

Fixpoint key_crux (fuel dfuel : nat) (fast : bool) (size : nat) (bs : list blk) (mv : list tv) : Prop :=
  match fuel with
  | O => True
  | S f =>
      if nonemptyb mv || nonemptyb bs then
        merge_crux dfuel size bs mv /\
        match merge_call dfuel fast size bs mv with
        | None => True
        | Some (o, bs', mv') => if nonemptyb o || nonemptyb mv' then key_crux f dfuel fast size bs' mv' else True
        end
      else True
  end.

Lemma src_map_adv I mn mx bs : src I bs -> src I (map (adv mn mx) bs).
Proof.
  intros S b' Hb'. apply in_map_iff in Hb'. destruct Hb' as [b [<- Hb]].
  destruct (S b Hb) as [b0 [H0 [E1 [E2 [E3 E4]]]]]. exists b0. split; [assumption|].
  destruct (adv_static mn mx b) as [A1 [A2 [A3 A4]]]. unfold same_static. rewrite A1, A2, A3, A4. auto.
Qed.

Lemma dedup_loop_pst L I size outs : forall fuel bs mv bs' mv',
  pst L I size outs bs mv -> dedup_crux fuel size bs mv ->
  dedup_loop fuel size bs mv = Some (bs', mv') -> pst L I size outs bs' mv'.
Proof.
  induction fuel as [|f IH]; intros bs mv bs' mv' P C H.
  - cbn [dedup_loop] in H. destruct (Nat.ltb (length mv) size && nonemptyb bs); [discriminate|].
    inversion H; subst. assumption.
  - cbn [dedup_loop] in H. cbn [dedup_crux] in C.
    destruct (Nat.ltb (length mv) size && nonemptyb bs); [|inversion H; subst; assumption].
    destruct P as [Pi Ps Po].
    pose proof (inv_drop_read _ _ _ _ Pi) as Pd.
    assert (Sd : src I (drop_read bs)) by (intros b Hb; apply Ps; apply drop_read_sub; assumption).
    destruct (drop_read bs) as [|first r] eqn:Ed.
    + inversion H; subst. constructor; [assumption|intros ? []|assumption].
    + destruct C as [Cw Cr]. refine (IH _ _ _ _ _ Cr H).
      constructor; [|rewrite read_window_eq; cbn [fst]; apply src_map_adv; assumption|assumption].
      apply inv_window; [assumption|]. exact Cw.
Qed.

(* ---------- one merge<T>() call ---------- *)

Lemma sort_blocks_src I bs : src I bs -> src I (sort_blocks bs).
Proof. intros S b Hb. apply S. apply sort_blocks_In. assumption. Qed.

Lemma merge_call_pst L I fast size dfuel outs bs mv o bs' mv' : (1 <= size)%nat ->
  pst L I size outs bs mv -> merge_crux dfuel size bs mv ->
  merge_call dfuel fast size bs mv = Some (o, bs', mv') ->
  pst L I size (outs ++ o) bs' mv'.
Proof.
  intros Hs [Pi Ps Po] C H. unfold merge_call in H. unfold merge_crux in C.
  assert (P0 : pst L I size outs (sort_blocks bs) mv).
  { constructor; [apply inv_sort; assumption|apply sort_blocks_src; assumption|assumption]. }
  destruct (need_dedup (sort_blocks bs) mv) eqn:Nd.
  - destruct (dedup_loop dfuel size (sort_blocks bs) mv) as [[b1 m1]|] eqn:Ed; [|discriminate].
    inversion H; subst. pose proof (dedup_loop_pst _ _ _ _ _ _ _ _ _ P0 C Ed) as P1.
    apply (chunk1_pst L I size outs [] bs' m1 Hs). rewrite app_nil_r. assumption.
  - inversion H; subst. clear H.
    assert (Wf : Forall bwf (sort_blocks bs)) by (destruct P0 as [[W _ _ _ _ _ _] _ _]; exact W).
    assert (Hr : Forall range_ok (sort_blocks bs)).
    { rewrite Forall_forall in *. intros b Hb. exact (w_ok b (Wf b Hb)). }
    assert (Hr0 : Forall range_ok bs).
    { rewrite Forall_forall in *. intros b Hb. apply Hr. apply sort_blocks_In. assumption. }
    destruct (fast_path_condition_sound _ _ Hr (sort_blocks_adj bs Hr0) Nd) as [-> [Ch G]].
    change (Forall good (sort_blocks bs)) in G.
    destruct (pass_full_pst L I size _ outs P0 Ch G) as [P1 [C1 G1]].
    set (p1 := pass_full size (sort_blocks bs)) in *.
    assert (P2 : pst L I size ((outs ++ fst p1) ++ (if fast then pass_all (snd p1) else []))
                     (if fast then [] else snd p1) [] /\
                 chainP strictly_before (if fast then [] else snd p1) /\ Forall good (if fast then [] else snd p1)).
    { destruct fast.
      - split; [apply pass_all_pst; assumption|cbn; auto].
      - rewrite app_nil_r. auto. }
    destruct P2 as [P2 [C2 G2]].
    set (o2 := if fast then pass_all (snd p1) else []) in *.
    set (r2 := if fast then [] else snd p1) in *.
    destruct (pass_last_pst L I size r2 _ P2 C2 G2) as [P3 [C3 G3]].
    pose proof (decode_rest_pst L I size _ _ _ P3 C3 G3) as P4.
    rewrite <- !app_assoc in P4.
    apply (chunk1_pst L I size outs _ _ _ Hs). exact P4.
Qed.

(* ---------- the whole key ---------- *)

Lemma key_loop_pst L I fast size dfuel : (1 <= size)%nat -> forall fuel outs bs mv res,
  pst L I size outs bs mv -> key_crux fuel dfuel fast size bs mv ->
  key_loop fuel dfuel fast size bs mv outs = Some res ->
  pst L I size res [] [].
Proof.
  intros Hs. induction fuel as [|f IH]; intros outs bs mv res P C H; cbn [key_loop] in H; [discriminate|].
  cbn [key_crux] in C.
  destruct (nonemptyb mv || nonemptyb bs) eqn:E.
  - destruct C as [Cm Ck].
    destruct (merge_call dfuel fast size bs mv) as [[[o bs'] mv']|] eqn:Em; [|discriminate].
    pose proof (merge_call_pst L I fast size dfuel outs bs mv o bs' mv' Hs P Cm Em) as P'.
    destruct (nonemptyb o || nonemptyb mv') eqn:E2.
    + apply (IH _ _ _ _ P' Ck H).
    + destruct bs'; [|discriminate]. inversion H; subst.
      apply orb_false_iff in E2. destruct E2 as [Eo Emv].
      destruct o; [|discriminate]. destruct mv'; [|discriminate]. rewrite app_nil_r in P'. exact P'.
  - inversion H; subst. apply orb_false_iff in E. destruct E as [E1 E2].
    destruct mv; [|discriminate]. destruct bs; [|discriminate]. assumption.
Qed.

(* ---------- the initial state and the logical content ---------- *)

(* every timestamp is an int64 *)
Definition times_i64 (inp : key_input) : Prop :=
  forall f b y, In f inp -> In b (fst f) -> In y b -> min_i64 <= fst y.

Lemma file_wfb_blocks blocks : file_wfb blocks = true -> forall b, In b blocks -> b <> [] /\ ssorted b.
Proof.
  induction blocks as [|c r IH]; intros H b Hb; [destruct Hb|].
  cbn [file_wfb] in H. apply andb_true_iff in H. destruct H as [H Hr]. apply andb_true_iff in H. destruct H as [Hc _].
  destruct Hb as [<-|Hb]; [|apply IH; assumption].
  unfold block_wfb in Hc. apply andb_true_iff in Hc. destruct Hc as [Hn Hs].
  split; [destruct c; [discriminate|discriminate]|apply ssortedb_spec; assumption].
Qed.

Lemma in_block_wf tombs vs : vs <> [] -> ssorted vs -> (forall y, In y vs -> min_i64 <= fst y) -> bwf (in_block tombs vs).
Proof.
  intros Hn Hs H64. constructor; cbn [in_block b_vals b_min b_max b_rmin b_rmax].
  - assumption.
  - intros y Hy. split; [apply first_time_le|apply last_time_ge]; assumption.
  - destruct (first_time_In vs Hn) as [f [Hf <-]]. apply last_time_ge; assumption.
  - assumption.
  - left. split; reflexivity.
Qed.

Lemma input_blocks_In inp b : In b (input_blocks inp) <-> exists f vs, In f inp /\ In vs (fst f) /\ b = in_block (snd f) vs.
Proof.
  unfold input_blocks. rewrite in_flat_map. split.
  - intros [f [Hf Hb]]. apply in_map_iff in Hb. destruct Hb as [vs [<- Hvs]]. exists f, vs. auto.
  - intros [f [vs [Hf [Hvs ->]]]]. exists f. split; [assumption|]. apply in_map. assumption.
Qed.

Lemma input_blocks_wf inp : input_wfb inp = true -> times_i64 inp -> Forall bwf (input_blocks inp).
Proof.
  intros Hw H64. rewrite Forall_forall. intros b Hb. apply input_blocks_In in Hb.
  destruct Hb as [f [vs [Hf [Hvs ->]]]].
  unfold input_wfb in Hw. rewrite forallb_forall in Hw. specialize (Hw f Hf).
  destruct (file_wfb_blocks _ Hw vs Hvs) as [Hn Hs].
  apply in_block_wf; [assumption|assumption|]. intros y Hy. exact (H64 f vs y Hf Hvs Hy).
Qed.

Lemma pend_in_block tombs vs : pend (in_block tombs vs) = apply_tr tombs vs.
Proof.
  unfold pend. rewrite U_untouched; [reflexivity|]. split; reflexivity.
Qed.

Lemma apply_tr_concat tombs : forall bl, apply_tr tombs (concat bl) = flat_map (apply_tr tombs) bl.
Proof.
  induction bl as [|b r IH]; cbn [concat flat_map]; [apply apply_tr_nil|]. rewrite apply_tr_app, IH. reflexivity.
Qed.

Lemma pend_input_blocks inp :
  flat_map pend (input_blocks inp) = flat_map (fun f => apply_tr (snd f) (concat (fst f))) inp.
Proof.
  unfold input_blocks. induction inp as [|f r IH]; cbn [flat_map]; [reflexivity|].
  rewrite flat_map_app, IH. f_equal. rewrite apply_tr_concat.
  generalize (fst f). intros bl. induction bl as [|b bl IHb]; cbn [map flat_map]; [reflexivity|].
  rewrite pend_in_block, IHb. reflexivity.
Qed.

Lemma logical_sorted inp : ssorted (logical inp).
Proof.
  unfold logical. assert (H : ssorted (@nil tv)) by exact I. revert H. generalize (@nil tv).
  induction inp as [|f r IH]; intros acc Ha; cbn [fold_left]; [assumption|].
  apply IH. apply merge_lw_sorted. assumption.
Qed.

Lemma logical_lookup t inp :
  lookup_last t (logical inp) = lookup_last t (flat_map (fun f => apply_tr (snd f) (concat (fst f))) inp).
Proof.
  unfold logical.
  assert (G : forall acc, ssorted acc ->
            lookup_last t (fold_left (fun acc f => merge_lw acc (apply_tr (snd f) (concat (fst f)))) inp acc) =
            lookup_last t (acc ++ flat_map (fun f => apply_tr (snd f) (concat (fst f))) inp)).
  { induction inp as [|f r IH]; intros acc Ha; cbn [fold_left flat_map]; [rewrite app_nil_r; reflexivity|].
    rewrite IH by (apply merge_lw_sorted; assumption).
    rewrite app_assoc. apply lookup_app_congr; [|reflexivity]. apply merge_lw_lookup. assumption. }
  apply (G [] I).
Qed.

(* the link to layer A: when every input file is described by (blocks, tombstone ranges), the
   logical content is Model.merged_values of the group *)
Lemma logical_eq_merged_values (group : list tsmfile) (k : key) : forall (inp : key_input),
  Forall2 (fun f i => apply_tr (snd i) (concat (fst i)) = file_values f k) group inp ->
  logical inp = merged_values group k.
Proof.
  unfold logical, merged_values, files_values. generalize (@nil tv).
  induction group as [|f r IH]; intros acc inp H; inversion H; subst; cbn [fold_left]; [reflexivity|].
  rewrite H2. apply IH. assumption.
Qed.

(* ---------- output block structure ---------- *)

Lemma chain_of_sorted : forall os,
  Forall (fun o => o_vals o <> [] /\ o_min o = first_time (o_vals o) /\ o_max o = last_time (o_vals o)) os ->
  ssorted (vals_of os) -> chainP (fun a b => o_max a < o_min b) os.
Proof.
  induction os as [|o r IH]; intros F S; [exact I|].
  inversion F as [|? ? [Hn [Hmin Hmax]] Fr]; subst.
  unfold vals_of in S. cbn [flat_map] in S. fold (vals_of r) in S.
  cbn [chainP]. split; [|apply IH; [assumption|exact (ssorted_app_r _ _ S)]].
  destruct r as [|o2 r']; [exact I|].
  inversion Fr as [|? ? [Hn2 [Hmin2 _]] _]; subst.
  destruct (last_time_In (o_vals o) Hn) as [l [Hl El]].
  destruct (first_time_In (o_vals o2) Hn2) as [f [Hf Ef]].
  rewrite Hmax, Hmin2, <- El, <- Ef.
  apply (ssorted_app_lt _ _ l f S Hl). unfold vals_of. cbn [flat_map]. apply in_or_app. left. assumption.
Qed.

Lemma sorted_slice (A V B : list tv) : V <> [] -> ssorted (A ++ V ++ B) ->
  filter (in_range (first_time V) (last_time V)) (A ++ V ++ B) = V.
Proof.
  intros Hn S. rewrite !filter_app.
  destruct (first_time_In V Hn) as [f [Hf Ef]]. destruct (last_time_In V Hn) as [l [Hl El]].
  pose proof (ssorted_app_l _ _ (ssorted_app_r _ _ S)) as SV.
  rewrite (filter_nil_all _ A), (filter_all _ V), (filter_nil_all _ B); [apply app_nil_r| | |].
  - intros x Hx. assert (fst l < fst x).
    { apply (ssorted_app_lt V B l x); [exact (ssorted_app_r _ _ S)|assumption|assumption]. }
    unfold in_range. lia.
  - intros x Hx. pose proof (first_time_le V x SV Hx). pose proof (last_time_ge V x SV Hx). unfold in_range. lia.
  - intros x Hx. assert (fst x < fst f).
    { apply (ssorted_app_lt A (V ++ B) x f S Hx). apply in_or_app. left. assumption. }
    unfold in_range. lia.
Qed.

(* ---------- the theorem ---------- *)

Definition ob_shape (size : nat) (o : oblk) : Prop :=
  o_vals o <> [] /\ o_min o = first_time (o_vals o) /\ o_max o = last_time (o_vals o) /\
  (o_pass o = false -> (length (o_vals o) <= size)%nat).

Lemma ob_ok_shape inp size o : input_wfb inp = true -> ob_ok (input_blocks inp) size o -> ob_shape size o.
Proof.
  intros Hw H. unfold ob_ok in H. unfold ob_shape. destruct (o_pass o).
  - destruct H as [b0 [Hb [Ev [_ [Emin Emax]]]]]. apply input_blocks_In in Hb.
    destruct Hb as [f [vs [Hf [Hvs ->]]]]. cbn [in_block b_vals b_min b_max] in *.
    unfold input_wfb in Hw. rewrite forallb_forall in Hw.
    destruct (file_wfb_blocks _ (Hw f Hf) vs Hvs) as [Hn _].
    rewrite Ev. split; [assumption|]. split; [assumption|]. split; [assumption|]. intros Hd; discriminate Hd.
  - destruct H as [Hn [Hl [Emin Emax]]]. split; [assumption|]. split; [assumption|]. split; [assumption|]. intros _; assumption.
Qed.

Theorem block_merge_refines_logical_under_crux :
  forall (fast : bool) (size : nat) (inp : key_input) (os : list oblk),
    (1 <= size)%nat -> input_wfb inp = true -> times_i64 inp ->
    merge_key fast size inp = Some os ->
    key_crux (fuel_for (input_blocks inp)) (fuel_for (input_blocks inp)) fast size (input_blocks inp) [] ->
    (* (a) the concatenation of the output blocks is the logical newest-wins merge minus tombstones *)
    vals_of os = logical inp /\
    (* (b) non-empty blocks with exact index entries, <= size points unless passed through,
           time-sorted and pairwise non-overlapping *)
    Forall (ob_shape size) os /\ chainP (fun a b => o_max a < o_min b) os /\
    (* (c) a passed-through block is an input block of a file without tombstones for the key ... *)
    Forall (ob_ok (input_blocks inp) size) os /\
    (* ... and every output block is exactly the logical content of its time range: nothing
       else overlaps it, no tombstone touches it *)
    (forall o, In o os -> filter (in_range (o_min o) (o_max o)) (logical inp) = o_vals o).
Proof.
  intros fast size inp os Hs Hw H64 Hm Hc.
  set (Ib := input_blocks inp) in *.
  set (L := fun t => lookup_last t (flat_map pend Ib)).
  assert (P0 : pst L Ib size [] Ib []).
  { constructor.
    - constructor.
      + apply input_blocks_wf; assumption.
      + exact I.
      + exact I.
      + intros x y [].
      + intros x b y [].
      + intros x b y [].
      + intros t. reflexivity.
    - intros b Hb. exists b. split; [assumption|]. unfold same_static. auto.
    - constructor. }
  unfold merge_key, merge_blocks in Hm. fold Ib in Hm.
  pose proof (key_loop_pst L Ib fast size _ Hs _ _ _ _ _ P0 Hc Hm) as [[_ _ So _ _ _ Hl] _ Fo].
  assert (Ea : vals_of os = logical inp).
  { apply sorted_lookup_ext; [assumption|apply logical_sorted|].
    intros t. specialize (Hl t). cbn [flat_map] in Hl. rewrite !app_nil_r in Hl. rewrite Hl.
    unfold L, Ib. rewrite pend_input_blocks, logical_lookup. reflexivity. }
  assert (Fs : Forall (ob_shape size) os).
  { rewrite Forall_forall in *. intros o Ho. apply (ob_ok_shape inp); [assumption|apply Fo; assumption]. }
  split; [exact Ea|]. split; [exact Fs|]. split.
  - apply chain_of_sorted; [|assumption]. rewrite Forall_forall in *. intros o Ho.
    destruct (Fs o Ho) as [A [B [C _]]]. auto.
  - split; [exact Fo|]. intros o Ho. rewrite <- Ea.
    apply in_split in Ho. destruct Ho as [pre [post ->]].
    rewrite Forall_forall in Fs. destruct (Fs o) as [Hn [Emin [Emax _]]]; [apply in_or_app; right; left; reflexivity|].
    assert (E : vals_of (pre ++ o :: post) = vals_of pre ++ o_vals o ++ vals_of post)
      by (rewrite vals_of_app; reflexivity).
    rewrite E in *. rewrite Emin, Emax. apply sorted_slice; assumption.
Qed.
