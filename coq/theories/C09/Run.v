(* C09/Run.v — correspondence cases.  The harness records, for one generated file set,
   what the real tsm1.Compactor / FileStore / DefaultPlanner did; [check_case] compares it
   with the model (agree) and evaluates the executable spec on the IMPLEMENTATION's
   observation (spec_ok).  Result codes as in BUILDING.md.  Must not import Proofs. *)
From Verif Require Export Shard.Store C09.Model C09.Blocks C09.Planner.
From VerifGen Require Import Consts.
Open Scope Z_scope.

Definition code (agree spec_ok : bool) : N :=
  match agree, spec_ok with
  | true, true => 0 | false, true => 1 | false, false => 2 | true, false => 3
  end%N.

Definition min_int64 : Z := -9223372036854775808.
Definition max_int64 : Z := 9223372036854775807.
Definition empty_cache : cache := {| c_snap := []; c_hot := [] |}.

(* ---------- equality tests ---------- *)

Fixpoint list_eqb {A} (eqb : A -> A -> bool) (a b : list A) : bool :=
  match a, b with
  | [], [] => true
  | x :: a', y :: b' => eqb x y && list_eqb eqb a' b'
  | _, _ => false
  end.

Definition tv_eqb (a b : tv) : bool := (fst a =? fst b) && value_eqb (snd a) (snd b).
Definition tvs_eqb := list_eqb tv_eqb.

(* ---------- observations (key space) ---------- *)

(* per key: ascending read from [lo] and descending read from [hi] *)
Definition reads := list (key * (list tv * list tv)).
Definition reads_eqb (a b : reads) : bool :=
  list_eqb (fun x y => key_eqb (fst x) (fst y) && tvs_eqb (fst (snd x)) (fst (snd y))
                       && tvs_eqb (snd (snd x)) (snd (snd y))) a b.

(* one block of an output file: its index entry (minTime, maxTime, count) and decoded values *)
Definition oblock := ((Z * Z * N) * list tv)%type.
Definition ofile := (name * list (key * list oblock))%type.

Definition entry_of (b : list tv) : Z * Z * N :=
  (match b with [] => 0 | x :: _ => fst x end, fst (last b (0, VBool false)), N.of_nat (length b)).

Definition entry_eqb (a b : Z * Z * N) : bool :=
  (fst (fst a) =? fst (fst b)) && (snd (fst a) =? snd (fst b)) && (snd a =? snd b)%N.

(* ---------- executable spec of an output file (output_sorted_disjoint_bounded) ---------- *)

Definition point_ltb (a b : key * Z) : bool :=
  key_ltb (fst a) (fst b) || (key_eqb (fst a) (fst b) && (snd a <? snd b)).

Fixpoint chain {A} (lt : A -> A -> bool) (l : list A) : bool :=
  match l with
  | [] => true
  | x :: r => match r with [] => true | y :: _ => lt x y end && chain lt r
  end.

Definition flat_points (f : list (key * list (list tv))) : list (key * Z) :=
  flat_map (fun kb => map (fun x => (fst kb, fst x)) (concat (snd kb))) f.

(* every key has >= 1 block, every block has 1..size points, no key is listed twice in a
   row, and all (key, time) pairs of the file in index order are strictly increasing:
   blocks of a key are time-sorted and do not overlap *)
Definition blocks_okb (size : nat) (f : list (key * list (list tv))) : bool :=
  forallb (fun kb => negb (Nat.eqb (length (snd kb)) 0) &&
                     forallb (fun b => negb (Nat.eqb (length b) 0) && Nat.leb (length b) size) (snd kb)) f
  && chain (fun a b => negb (key_eqb a b)) (map fst f)
  && chain point_ltb (flat_points f).

(* no key of one file has more than maxe consecutive index entries (the writer's limit);
   the scan keeps (current key, number of its blocks so far) like tsmWriter/directIndex *)
Fixpoint runs_okb (maxe : N) (ck : option key) (cnt : N) (items : list (key * list tv)) : bool :=
  match items with
  | [] => true
  | (k, _) :: r =>
      let cnt' := match ck with
                  | Some k0 => if key_eqb k0 k then (cnt + 1)%N else 1%N
                  | None => 1%N
                  end in
      (cnt' <=? maxe)%N && runs_okb maxe (Some k) cnt' r
  end.

Definition items_of (f : list (key * list (list tv))) : list (key * list tv) :=
  flat_map (fun kb => map (fun b => (fst kb, b)) (snd kb)) f.

Definition entries_okb (maxe : N) (f : list (key * list (list tv))) : bool :=
  runs_okb maxe None 0%N (items_of f).

Definition strip (f : list (key * list oblock)) : list (key * list (list tv)) :=
  map (fun kb => (fst kb, map snd (snd kb))) f.

Definition ofile_okb_with (maxe : N) (size : nat) (o : ofile) : bool :=
  blocks_okb size (strip (snd o)) && entries_okb maxe (strip (snd o)) &&
  forallb (fun kb => forallb (fun b => entry_eqb (fst b) (entry_of (snd b))) (snd kb)) (snd o).

Definition ofile_okb := ofile_okb_with c09_max_index_entries.

(* logical content of an observed output file *)
Definition ofile_tsm (o : ofile) : tsmfile :=
  {| f_gen := fst (fst o); f_seq := snd (fst o);
     f_data := map (fun kb => (fst kb, concat (map snd (snd kb)))) (snd o); f_tombs := [] |}.

Definition content_eqb (a b : ofile) : bool :=
  name_eqb (fst a) (fst b) &&
  list_eqb (fun x y => key_eqb (fst x) (fst y) && tvs_eqb (concat (map snd (snd x))) (concat (map snd (snd y))))
           (snd a) (snd b).

(* ---------- model observations ---------- *)

Definition model_reads (fs : list tsmfile) (c : cache) (ks : list key) (lo hi : Z) : reads :=
  map (fun k => (k, (store_read fs c k lo max_int64 true, store_read fs c k min_int64 hi false))) ks.

(* group consecutive blocks of the same key: the index of one output file *)
Fixpoint group_items (seg : list (key * block)) : list (key * list block) :=
  match seg with
  | [] => []
  | (k, b) :: r => match group_items r with
                   | (k', bs) :: rest => if key_eqb k k' then (k, b :: bs) :: rest
                                         else (k, [b]) :: (k', bs) :: rest
                   | [] => [(k, [b])]
                   end
  end.

Fixpoint model_ofiles (gen seq : N) (segs : list (list (key * block))) : list ofile :=
  match segs with
  | [] => []
  | s :: r => ((gen, (seq + 1)%N),
               map (fun kb => (fst kb, map (fun b => (entry_of b, b)) (snd kb))) (group_items s))
              :: model_ofiles gen (seq + 1)%N r
  end.

Definition pick_group (fs : list tsmfile) (g : list name) : list tsmfile :=
  flat_map (fun n => filter (fun f => name_eqb (fname f) n) fs) g.

(* ---------- compaction ---------- *)

Record cinput := {
  ci_size : Z; ci_fast : bool; ci_lo : Z; ci_hi : Z;
  ci_keys : list key;              (* keys read before and after *)
  ci_fs : list tsmfile; ci_group : list name
}.

Record cobs := { co_err : N; co_before : reads; co_outs : list ofile; co_after : reads }.

Definition ci_members (i : cinput) : list tsmfile := pick_group (ci_fs i) (ci_group i).

Definition model_compact (i : cinput) : cobs :=
  let grp := ci_members i in
  let ms := max_gen_seq grp in
  let segs := compact_segments c09_max_index_entries (ci_size i) grp in
  {| co_err := 0%N;
     co_before := model_reads (ci_fs i) empty_cache (ci_keys i) (ci_lo i) (ci_hi i);
     co_outs := model_ofiles (fst ms) (snd ms) segs;
     co_after := model_reads (replace_files (ci_fs i) grp (compact (ci_size i) grp)) empty_cache
                             (ci_keys i) (ci_lo i) (ci_hi i) |}.

Fixpoint nodup_names (l : list name) : bool :=
  match l with
  | [] => true
  | n :: r => negb (existsb (name_eqb n) r) && nodup_names r
  end.

(* the hypothesis of compact_preserves_reads, decided on the input and the output names *)
Definition hyp_okb (fs grp : list tsmfile) (onames : list name) : bool :=
  nodup_names (map fname fs)
  && forallb (fun g => existsb (fun f => name_eqb (fname f) (fname g)) fs) grp
  && chain name_ltb (map fname grp)
  && whole_last_generation fs grp
  && jump_okb fs grp onames.

Definition agree_compact (i : cinput) (o : cobs) : bool :=
  let m := model_compact i in
  (co_err o =? 0)%N && reads_eqb (co_before m) (co_before o) && list_eqb content_eqb (co_outs m) (co_outs o)
  && reads_eqb (co_after m) (co_after o).

Definition outs_named_okb (fs grp : list tsmfile) (outs : list ofile) : bool :=
  forallb (fun o => forallb (fun g => name_ltb (fname g) (fst o)) grp &&
                    negb (in_names (fst o) fs)) outs
  && chain name_ltb (map fst outs).

Definition spec_compact (i : cinput) (o : cobs) : bool :=
  let grp := ci_members i in
  (co_err o =? 0)%N
  && (negb (hyp_okb (ci_fs i) grp (map fst (co_outs o))) || reads_eqb (co_before o) (co_after o))
  && forallb (ofile_okb (eff_size (ci_size i))) (co_outs o)
  && (negb (whole_last_generation (ci_fs i) grp) || outs_named_okb (ci_fs i) grp (co_outs o)).

(* planner + compactor together: the group was chosen by the code, so the property is
   required unconditionally *)
Definition spec_planned (i : cinput) (o : cobs) : bool :=
  let grp := ci_members i in
  (co_err o =? 0)%N
  && reads_eqb (co_before o) (co_after o)
  && forallb (ofile_okb (eff_size (ci_size i))) (co_outs o)
  && outs_named_okb (ci_fs i) grp (co_outs o).

(* ---------- roll-over at the writer's block-count limit (large cases) ---------- *)

(* Files with tens of thousands of blocks are too large for the quadratic merge of the
   shared layer-A model, so these cases are judged on the implementation's observation only
   (spec), and the model of Compactor.write/writeNewFiles ([split_files]) is compared with
   the implementation on the implementation's OWN block stream: cutting the concatenation
   of all output blocks with the model's roll-over rule must give exactly the observed
   files, named (G, S+1), (G, S+2), ... *)
Definition ofile_items (o : ofile) : list (key * block) := items_of (strip (snd o)).

Fixpoint expected_names (gen seq : N) (n : nat) : list name :=
  match n with
  | O => []
  | S m => (gen, (seq + 1)%N) :: expected_names gen (seq + 1)%N m
  end.

Fixpoint max_gen_seq_names (l : list name) (acc : name) : name :=
  match l with
  | [] => acc
  | n :: r =>
      let acc1 := if (fst acc <? fst n)%N then n else acc in
      max_gen_seq_names r (if (fst n =? fst acc1)%N && (snd acc1 <? snd n)%N then (fst acc1, snd n) else acc1)
  end.

Definition seg_eqb (a b : list (key * block)) : bool :=
  list_eqb (fun x y => key_eqb (fst x) (fst y) && tvs_eqb (snd x) (snd y)) a b.

Definition agree_roll (group : list name) (outs : list ofile) : bool :=
  let ms := max_gen_seq_names group (0%N, 0%N) in
  list_eqb name_eqb (map fst outs) (expected_names (fst ms) (snd ms) (length outs))
  && list_eqb seg_eqb (map ofile_items outs)
              (split_files c09_max_index_entries [] None 0%N (flat_map ofile_items outs)).

Definition spec_roll (size : Z) (fsn group : list name) (err : N) (before : reads) (outs : list ofile) (after : reads) : bool :=
  (err =? 0)%N && reads_eqb before after
  && forallb (ofile_okb (eff_size size)) outs
  && forallb (fun o => forallb (fun g => name_ltb g (fst o)) group
                       && negb (existsb (fun n => name_eqb n (fst o) && negb (existsb (name_eqb n) group)) fsn)) outs
  && chain name_ltb (map fst outs).

(* ---------- a whole-series delete that lands while the compaction is running ---------- *)

(* FileStore.Delete(key) (all files get a full-range tombstone for the key) issued right
   after the compaction has created its block iterators.  Whatever the compaction does —
   fail ("delete during iteration") leaving its inputs, or succeed — every key that was
   not deleted must read as before.  (What the deleted key reads is C10's subject.) *)
Definition delete_key (k : key) (f : tsmfile) : tsmfile :=
  {| f_gen := f_gen f; f_seq := f_seq f; f_data := f_data f;
     f_tombs := f_tombs f ++ [(k, (min_int64, max_int64))] |}.

Record dobs := {
  do_err : N; do_outs : list ofile; do_live : list name; do_tmp : N;
  do_before : reads; do_after : reads
}.

Definition drop_key (k : key) (r : reads) : reads := filter (fun x => negb (key_eqb (fst x) k)) r.

Definition deleted_fs (i : cinput) (k : key) : list tsmfile := map (delete_key k) (ci_fs i).
Definition deleted_input (i : cinput) (k : key) : cinput :=
  {| ci_size := ci_size i; ci_fast := ci_fast i; ci_lo := ci_lo i; ci_hi := ci_hi i; ci_keys := ci_keys i;
     ci_fs := deleted_fs i k; ci_group := ci_group i |}.

(* outcome 1: the compaction fails; the directory is the input directory after the delete *)
Definition model_delete_fail (i : cinput) (k : key) : dobs :=
  let d := abort_compaction (dir_compacted (deleted_fs i k) (compact (ci_size i) (ci_members (deleted_input i k)))) in
  {| do_err := 1%N; do_outs := []; do_live := map fname (sort_files (reopen d)); do_tmp := N.of_nat (length (d_tmp d));
     do_before := model_reads (ci_fs i) empty_cache (ci_keys i) (ci_lo i) (ci_hi i);
     do_after := model_reads (reopen d) empty_cache (ci_keys i) (ci_lo i) (ci_hi i) |}.

(* outcome 2: it succeeds, on the files as they are after the delete *)
Definition model_delete_ok (i : cinput) (k : key) : dobs :=
  let m := model_compact (deleted_input i k) in
  let grp := ci_members (deleted_input i k) in
  {| do_err := 0%N; do_outs := co_outs m;
     do_live := map fname (sort_files (replace_files (deleted_fs i k) grp (compact (ci_size i) grp)));
     do_tmp := 0%N;
     do_before := model_reads (ci_fs i) empty_cache (ci_keys i) (ci_lo i) (ci_hi i);
     do_after := co_after m |}.

Definition dobs_eqb (a b : dobs) : bool :=
  Bool.eqb (do_err a =? 0)%N (do_err b =? 0)%N && list_eqb content_eqb (do_outs a) (do_outs b)
  && list_eqb name_eqb (do_live a) (do_live b) && (do_tmp a =? do_tmp b)%N
  && reads_eqb (do_before a) (do_before b) && reads_eqb (do_after a) (do_after b).

(* which outcome is forced: a member that still has values of the key makes the block
   iterator notice the delete; if no member lists the key at all nothing is noticed *)
Definition must_fail (i : cinput) (k : key) : bool :=
  existsb (fun f => negb (Nat.eqb (length (file_values f k)) 0)) (ci_members i).
Definition must_succeed (i : cinput) (k : key) : bool :=
  negb (existsb (fun f => existsb (fun kv => key_eqb (fst kv) k) (f_data f)) (ci_members i)).

Definition agree_delete (i : cinput) (k : key) (o : dobs) : bool :=
  if (do_err o =? 0)%N then negb (must_fail i k) && dobs_eqb (model_delete_ok i k) o
  else negb (must_succeed i k) && dobs_eqb (model_delete_fail i k) o.

Definition spec_delete (i : cinput) (k : key) (o : dobs) : bool :=
  let grp := ci_members (deleted_input i k) in
  if (do_err o =? 0)%N then
    negb (hyp_okb (deleted_fs i k) grp (map fst (do_outs o)))
    || (reads_eqb (drop_key k (do_before o)) (drop_key k (do_after o))
        && forallb (ofile_okb (eff_size (ci_size i))) (do_outs o) && (do_tmp o =? 0)%N)
  else
    reads_eqb (drop_key k (do_before o)) (drop_key k (do_after o))
    && Nat.eqb (length (do_outs o)) 0 && (do_tmp o =? 0)%N
    && list_eqb name_eqb (map fname (sort_files (ci_fs i))) (do_live o).

(* ---------- crash in the middle of FileStore.replace ---------- *)

Record xobs := {
  xo_outs : list name;                 (* tmp outputs returned by the compactor *)
  xo_trace : list (bool * name);       (* directory operations performed: true = rename, false = remove *)
  xo_live : list name;                 (* *.tsm files found by FileStore.Open after the crash *)
  xo_before : reads; xo_after : reads
}.

Definition step_obs (s : step) : bool * name :=
  match s with SRename f => (true, fname f) | SRemove n => (false, n) end.

Definition model_crash (i : cinput) (n : nat) : xobs :=
  let grp := ci_members i in
  let outs := compact (ci_size i) grp in
  let steps := firstn n (replace_steps grp outs) in
  let live := reopen (run_steps (dir_compacted (ci_fs i) outs) steps) in
  {| xo_outs := map fname outs;
     xo_trace := map step_obs steps;
     xo_live := map fname (sort_files live);
     xo_before := model_reads (ci_fs i) empty_cache (ci_keys i) (ci_lo i) (ci_hi i);
     xo_after := model_reads live empty_cache (ci_keys i) (ci_lo i) (ci_hi i) |}.

Definition xobs_eqb (a b : xobs) : bool :=
  list_eqb name_eqb (xo_outs a) (xo_outs b)
  && list_eqb (fun x y => Bool.eqb (fst x) (fst y) && name_eqb (snd x) (snd y)) (xo_trace a) (xo_trace b)
  && list_eqb name_eqb (xo_live a) (xo_live b)
  && reads_eqb (xo_before a) (xo_before b) && reads_eqb (xo_after a) (xo_after b).

(* reads unchanged, and every input is either still there or superseded by ALL outputs *)
Definition spec_crash (i : cinput) (o : xobs) : bool :=
  let grp := ci_members i in
  negb (hyp_okb (ci_fs i) grp (xo_outs o))
  || (reads_eqb (xo_before o) (xo_after o)
      && forallb (fun g => existsb (name_eqb (fname g)) (xo_live o)
                           || forallb (fun n => existsb (name_eqb n) (xo_live o)) (xo_outs o)) grp
      && forallb (fun f => in_names (fname f) grp || existsb (name_eqb (fname f)) (xo_live o)) (ci_fs i)).

(* ---------- failed / aborted compaction ---------- *)

Record fobs := {
  fo_err : N;                          (* 0 = no error reported *)
  fo_returned : N;                     (* number of output files returned *)
  fo_live : list name;                 (* *.tsm in the directory afterwards *)
  fo_tmp : N;                          (* *.tsm.tmp left behind *)
  fo_intact : bool;                    (* every input file and tombstone file is byte-identical *)
  fo_before : reads; fo_after : reads  (* readable keys only *)
}.

Definition model_fail (i : cinput) : fobs :=
  let d := abort_compaction (dir_compacted (ci_fs i) (compact (ci_size i) (ci_members i))) in
  {| fo_err := 1%N; fo_returned := 0%N;
     fo_live := map fname (sort_files (reopen d)); fo_tmp := N.of_nat (length (d_tmp d)); fo_intact := true;
     fo_before := model_reads (ci_fs i) empty_cache (ci_keys i) (ci_lo i) (ci_hi i);
     fo_after := model_reads (reopen d) empty_cache (ci_keys i) (ci_lo i) (ci_hi i) |}.

Definition agree_fail (i : cinput) (o : fobs) : bool :=
  let m := model_fail i in
  negb (fo_err o =? 0)%N && (fo_returned o =? fo_returned m)%N && list_eqb name_eqb (fo_live m) (fo_live o)
  && (fo_tmp o =? fo_tmp m)%N && reads_eqb (fo_before m) (fo_before o) && reads_eqb (fo_after m) (fo_after o).

Definition spec_fail (i : cinput) (o : fobs) : bool :=
  negb (fo_err o =? 0)%N && (fo_returned o =? 0)%N
  && list_eqb name_eqb (map fname (sort_files (ci_fs i))) (fo_live o)
  && (fo_tmp o =? 0)%N && fo_intact o && reads_eqb (fo_before o) (fo_after o).

(* ---------- snapshot ---------- *)

Record sinput := {
  si_lo : Z; si_hi : Z; si_keys : list key;
  si_fs : list tsmfile; si_snap : kvs; si_hot : kvs;     (* cache after Cache.Snapshot(): values in arrival order *)
  si_gen : N                                              (* FileStore.NextGeneration() *)
}.

Record sobs := {
  so_err : N; so_outs : list ofile;
  so_files_before : reads; so_files_after : reads;        (* through FileStore.KeyCursor *)
  so_cache_before : list (key * list tv);                 (* Cache.Values(key) while the snapshot is in the cache *)
  so_cache_after : list (key * list tv)                   (* ... after ClearSnapshot(true) *)
}.

Definition si_shard (i : sinput) : shard :=
  {| s_files := si_fs i; s_cache := {| c_snap := si_snap i; c_hot := si_hot i |} |}.

Definition cache_obs (c : cache) (ks : list key) : list (key * list tv) :=
  map (fun k => (k, dedup (cache_values c k))) ks.

Definition model_snapshot (i : sinput) : sobs :=
  let s := si_shard i in
  let s1 := install_snapshot (si_gen i) s in
  let s2 := clear_snapshot s1 in
  {| so_err := 0%N;
     so_outs := model_ofiles (si_gen i) (c09_snapshot_first_sequence - 1)%N
                             (snapshot_segments c09_max_index_entries (si_snap i));
     so_files_before := model_reads (s_files s) empty_cache (si_keys i) (si_lo i) (si_hi i);
     so_files_after := model_reads (s_files s1) empty_cache (si_keys i) (si_lo i) (si_hi i);
     so_cache_before := cache_obs (s_cache s1) (si_keys i);
     so_cache_after := cache_obs (s_cache s2) (si_keys i) |}.

Definition cache_obs_eqb (a b : list (key * list tv)) : bool :=
  list_eqb (fun x y => key_eqb (fst x) (fst y) && tvs_eqb (snd x) (snd y)) a b.

Definition agree_snapshot (i : sinput) (o : sobs) : bool :=
  let m := model_snapshot i in
  (so_err o =? 0)%N && list_eqb content_eqb (so_outs m) (so_outs o)
  && reads_eqb (so_files_before m) (so_files_before o) && reads_eqb (so_files_after m) (so_files_after o)
  && cache_obs_eqb (so_cache_before m) (so_cache_before o) && cache_obs_eqb (so_cache_after m) (so_cache_after o).

(* what the engine's cursors return: cache values laid over the file values, restricted to
   the window and direction of each read *)
Definition overlay_reads (files : reads) (cachev : list (key * list tv)) (lo hi : Z) : reads :=
  map (fun r => let k := fst r in
                let cv := kv_get k cachev in
                (k, (merge_lw (fst (snd r)) (include_range lo max_int64 cv),
                     rev (merge_lw (rev (snd (snd r))) (include_range min_int64 hi cv))))) files.

(* NextGeneration() must be newer than every installed file for the theorem to apply *)
Definition gen_freshb (i : sinput) : bool := forallb (fun g => (f_gen g <? si_gen i)%N) (si_fs i).

Definition spec_snapshot (i : sinput) (o : sobs) : bool :=
  (so_err o =? 0)%N
  && (negb (gen_freshb i && nodup_names (map fname (si_fs i)))
      || (reads_eqb (overlay_reads (so_files_before o) (so_cache_before o) (si_lo i) (si_hi i))
                    (overlay_reads (so_files_after o) (so_cache_before o) (si_lo i) (si_hi i))
          && reads_eqb (overlay_reads (so_files_before o) (so_cache_before o) (si_lo i) (si_hi i))
                       (overlay_reads (so_files_after o) (so_cache_after o) (si_lo i) (si_hi i))))
  && forallb (ofile_okb (eff_size 0)) (so_outs o).

(* ---------- planner monitor ---------- *)

(* every group handed out by the real DefaultPlanner must satisfy the hypothesis of
   compact_preserves_reads against the file set it was planned on *)
Definition spec_plan (fs : list tsmfile) (groups : list (list name)) : bool :=
  forallb (fun g => let grp := pick_group fs g in
                    let ms := max_gen_seq grp in
                    Nat.eqb (length grp) (length g) &&
                    hyp_okb fs grp [(fst ms, (snd ms + 1)%N)]) groups.

(* ---------- block level: the real tsmBatchKeyIterator against Blocks.merge_key ---------- *)

(* an input file with its block layout: generation, sequence, per key id the blocks, the
   tombstones that were written (declared), and what the real TSMReader reports after opening
   the file: TombstoneRange(key) per key id and the key ids it dropped from its index *)
Definition bfile := (N * N * list (N * list (list tv)) * list (N * (Z * Z)) * list (N * list (Z * Z)) * list N)%type.

Definition bf_name (f : bfile) : name := match f with (g, s, _, _, _, _) => (g, s) end.

Fixpoint nassoc {A} (d : A) (i : N) (l : list (N * A)) : A :=
  match l with
  | [] => d
  | (j, x) :: r => if (i =? j)%N then x else nassoc d i r
  end.

(* the file as layer A sees it: blocks concatenated, declared tombstones *)
Definition bf_tsm (keys : list key) (f : bfile) : tsmfile :=
  match f with
  | (g, s, data, tombs, _, _) =>
      {| f_gen := g; f_seq := s;
         f_data := map (fun kv => (nth (N.to_nat (fst kv)) keys [], concat (snd kv))) data;
         f_tombs := map (fun kt => (nth (N.to_nat (fst kt)) keys [], snd kt)) tombs |}
  end.

(* what the BlockIterator of the file hands to the merge for key id [ki] *)
Definition bf_input (ki : N) (f : bfile) : list (list tv) * list (Z * Z) :=
  match f with
  | (_, _, data, _, et, del) =>
      (if existsb (N.eqb ki) del then [] else nassoc [] ki data, nassoc [] ki et)
  end.

Definition bf_raw (ki : N) (f : bfile) : list (list tv) :=
  match f with (_, _, data, _, _, _) => nassoc [] ki data end.

Definition pick_bgroup (fs : list bfile) (g : list name) : list bfile :=
  flat_map (fun n => filter (fun f => name_eqb (bf_name f) n) fs) g.

Fixpoint kid_of (keys : list key) (k : key) (i : N) : N :=
  match keys with
  | [] => i
  | k0 :: r => if key_eqb k0 k then i else kid_of r k (i + 1)%N
  end.

Definition blk_inputs (grp : list bfile) (ki : N) : key_input := map (bf_input ki) grp.

(* the block stream of the whole compaction: keys ascending, per key the model's blocks;
   the flag is false when the model ran out of fuel / got stuck for some key *)
Definition model_block_stream (keys : list key) (fast : bool) (size : nat) (grp : list bfile)
  : bool * list (key * block) :=
  fold_right (fun k acc =>
                match merge_key fast size (blk_inputs grp (kid_of keys k 0%N)) with
                | Some os => (fst acc, map (fun o => (k, o_vals o)) os ++ snd acc)
                | None => (false, snd acc)
                end)
             (true, []) (group_keys (map (bf_tsm keys) grp)).

Definition oblock_eqb (a b : oblock) : bool := entry_eqb (fst a) (fst b) && tvs_eqb (snd a) (snd b).
Definition ofile_eqb (a b : ofile) : bool :=
  name_eqb (fst a) (fst b) &&
  list_eqb (fun x y => key_eqb (fst x) (fst y) && list_eqb oblock_eqb (snd x) (snd y)) (snd a) (snd b).

Definition model_blocks (keys : list key) (size : Z) (fast : bool) (grp : list bfile) : bool * list ofile :=
  let st := model_block_stream keys fast (eff_size size) grp in
  let ms := max_gen_seq (map (bf_tsm keys) grp) in
  (fst st, model_ofiles (fst ms) (snd ms) (split_files c09_max_index_entries [] None 0%N (snd st))).

Definition agree_blocks (keys : list key) (size : Z) (fast : bool) (grp : list bfile) (err : N) (outs : list ofile) : bool :=
  let m := model_blocks keys size fast grp in
  (err =? 0)%N && fst m && list_eqb ofile_eqb (snd m) outs.

(* all observed blocks of key k over the output files, in file order *)
Definition obs_blocks (outs : list ofile) (k : key) : list oblock :=
  flat_map (fun o => flat_map (fun kb => if key_eqb (fst kb) k then snd kb else []) (snd o)) outs.

(* an output block larger than size must be one of the key's input blocks, unchanged *)
Definition is_input_block (grp : list bfile) (ki : N) (b : list tv) : bool :=
  existsb (fun f => existsb (tvs_eqb b) (fst (bf_input ki f))) grp.

(* the real reader's view of the tombstones removes exactly what the written tombstones remove *)
Definition reader_tombs_okb (keys : list key) (grp : list bfile) : bool :=
  forallb (fun f =>
    forallb (fun ki =>
      let inp := bf_input ki f in
      tvs_eqb (file_values (bf_tsm keys f) (nth (N.to_nat ki) keys []))
              (apply_tr (snd inp) (concat (fst inp))))
      (map fst (match f with (_, _, data, _, _, _) => data end))) grp.

Definition spec_blocks (keys : list key) (size : Z) (grp : list bfile) (err : N) (outs : list ofile) : bool :=
  let tsm := map (bf_tsm keys) grp in
  (err =? 0)%N
  && reader_tombs_okb keys grp
  (* value-wise: per key the concatenation of the output blocks is the logical merge *)
  && forallb (fun k => tvs_eqb (concat (map snd (obs_blocks outs k))) (merged_values tsm k)) keys
  (* index entries describe their blocks; blocks non-empty, time-sorted, non-overlapping *)
  && forallb (fun o =>
       forallb (fun kb => negb (Nat.eqb (length (snd kb)) 0) &&
                          forallb (fun b => entry_eqb (fst b) (entry_of (snd b)) && negb (Nat.eqb (length (snd b)) 0)) (snd kb)) (snd o)
       && chain (fun a b => negb (key_eqb a b)) (map fst (snd o))
       && chain point_ltb (flat_points (strip (snd o)))
       && entries_okb c09_max_index_entries (strip (snd o))) outs
  && forallb (fun k => chain point_ltb (map (fun x => (k, fst x)) (concat (map snd (obs_blocks outs k))))) keys
  (* <= size points unless passed through unchanged *)
  && forallb (fun o => forallb (fun kb =>
       forallb (fun b => Nat.leb (length (snd b)) (eff_size size)
                         || is_input_block grp (kid_of keys (fst kb) 0%N) (snd b)) (snd kb)) (snd o)) outs.

(* ---------- the real DefaultPlanner.PlanLevel against Planner.plan_level ---------- *)

Definition to_pstat (x : N * N * bool * bool) : pstat :=
  match x with (g, s, t, u) => {| p_gen := g; p_seq := s; p_tomb := t; p_inuse := u |} end.

Definition in_nameb (n : name) (l : list name) : bool := existsb (name_eqb n) l.

(* what compact_preserves_reads_contiguous needs of a planned group, decided on file names:
   the group is made of files that exist and are not being compacted, is listed in file
   order, holds whole generations, and no other file lies between two of its members *)
Definition group_okb (stats : list pstat) (g : list name) : bool :=
  negb (Nat.eqb (length g) 0)
  && forallb (fun n => existsb (fun p => name_eqb (pname p) n && negb (p_inuse p)) stats) g
  && chain name_ltb g
  && forallb (fun p => negb (existsb (fun n => (fst n =? p_gen p)%N) g) || in_nameb (pname p) g) stats
  && forallb (fun p => in_nameb (pname p) g
                       || forallb (fun n => name_ltb (pname p) n) g
                       || forallb (fun n => name_ltb n (pname p)) g) stats.

Definition spec_planlevel (stats : list pstat) (groups : list (list name)) : bool :=
  forallb (group_okb stats) groups && nodup_names (concat groups).

Definition agree_planlevel (stats : list pstat) (force : bool) (level : N) (groups : list (list name)) : bool :=
  list_eqb (list_eqb name_eqb) (plan_level force stats level) groups.

(* ---------- cases (kid = index into the key table) ---------- *)

Definition rfile := (N * N * list (N * list tv) * list (N * (Z * Z)))%type.
Definition rreads := list (list tv * list tv).
Definition rofile := (N * N * list (N * list oblock))%type.

Inductive case :=
| CCompact (keys : list key) (size : Z) (fast : bool) (lo hi : Z) (fs : list rfile) (group : list name)
           (err : N) (before : rreads) (outs : list rofile) (after : rreads)
| CCrash (keys : list key) (size : Z) (fast : bool) (lo hi : Z) (fs : list rfile) (group : list name) (n : N)
         (outs : list name) (trace : list (bool * name)) (live : list name) (before after : rreads)
| CFail (keys : list key) (size : Z) (fast : bool) (lo hi : Z) (fs : list rfile) (group : list name)
        (bad : list N) (err returned : N) (live : list name) (tmp : N) (intact : bool) (before after : rreads)
| CSnap (keys : list key) (lo hi : Z) (fs : list rfile) (snap hot : list (N * list tv)) (gen : N)
        (err : N) (outs : list rofile) (files_before files_after : rreads) (cache_before cache_after : list (list tv))
| CPlan (keys : list key) (fs : list rfile) (groups : list (list name))
(* large roll-over case: names of the directory and the group, observation only *)
| CRoll (keys : list key) (size : Z) (fsn group : list name) (err : N) (before : rreads) (outs : list rofile) (after : rreads)
(* FileStore.Delete(dkey) issued while the compaction of [group] is running *)
| CDelete (keys : list key) (size : Z) (fast : bool) (lo hi : Z) (fs : list rfile) (group : list name) (dkey : N)
          (err : N) (outs : list rofile) (live : list name) (tmp : N) (before after : rreads)
(* a group planned by the real DefaultPlanner and then compacted: no hypothesis on the group *)
| CPlanned (keys : list key) (size : Z) (fast : bool) (lo hi : Z) (fs : list rfile) (group : list name)
           (err : N) (before : rreads) (outs : list rofile) (after : rreads)
(* block level: input files with their block layout and the reader's tombstone view; the
   observed output blocks are compared block by block with Blocks.merge_key *)
| CBlk (keys : list key) (size : Z) (fast : bool) (fs : list bfile) (group : list name)
       (err : N) (outs : list rofile)
(* one call of the real DefaultPlanner.PlanLevel(level): FileStore.Stats() as (generation,
   sequence, has tombstone, in use by an unreleased plan) and the groups it returned *)
| CPlanLevel (stats : list (N * N * bool * bool)) (force : bool) (level : N) (groups : list (list name)).

Definition resolve (keys : list key) (kid : N) : key := nth (N.to_nat kid) keys [].

(* run-length form used by the harness for long regular stretches of points:
   n points (s, v), (s+d, v), ... *)
Fixpoint rl_nat (s d : Z) (n : nat) (v : value) : list tv :=
  match n with
  | O => []
  | S m => (s, v) :: rl_nat (s + d) d m v
  end.
Definition rl (s d : Z) (n : N) (v : value) : list tv := rl_nat s d (N.to_nat n) v.

(* n blocks of one point each, with their index entries *)
Definition unit_blocks (l : list tv) : list oblock := map (fun x => ((fst x, fst x, 1%N), [x])) l.

(* a long key is written as its prefix plus n bytes 'x' (a literal of 65535 elements is too
   much for the parser) *)
Definition pad_key (base : key) (n : N) : key := base ++ N.iter n (cons 120%N) [].

Definition to_file (keys : list key) (f : rfile) : tsmfile :=
  match f with
  | (g, s, data, tombs) =>
      {| f_gen := g; f_seq := s;
         f_data := map (fun kv => (resolve keys (fst kv), snd kv)) data;
         f_tombs := map (fun kt => (resolve keys (fst kt), snd kt)) tombs |}
  end.

Definition to_reads (ks : list key) (r : rreads) : reads := combine ks r.
Definition to_ofile (keys : list key) (o : rofile) : ofile :=
  match o with
  | (g, s, data) => ((g, s), map (fun kb => (resolve keys (fst kb), snd kb)) data)
  end.
Definition to_kvs (keys : list key) (m : list (N * list tv)) : kvs :=
  map (fun kv => (resolve keys (fst kv), snd kv)) m.

Fixpoint remove_kids (keys : list key) (bad : list N) (idx : N) : list key :=
  match keys with
  | [] => []
  | k :: r => if existsb (N.eqb idx) bad then remove_kids r bad (idx + 1)%N
              else k :: remove_kids r bad (idx + 1)%N
  end.

Definition check_case (c : case) : N :=
  match c with
  | CCompact keys size fast lo hi fs group err before outs after =>
      let i := {| ci_size := size; ci_fast := fast; ci_lo := lo; ci_hi := hi; ci_keys := keys;
                  ci_fs := map (to_file keys) fs; ci_group := group |} in
      let o := {| co_err := err; co_before := to_reads keys before;
                  co_outs := map (to_ofile keys) outs; co_after := to_reads keys after |} in
      code (Nat.eqb (length before) (length keys) && Nat.eqb (length after) (length keys) && agree_compact i o)
           (spec_compact i o)
  | CCrash keys size fast lo hi fs group n outs trace live before after =>
      let i := {| ci_size := size; ci_fast := fast; ci_lo := lo; ci_hi := hi; ci_keys := keys;
                  ci_fs := map (to_file keys) fs; ci_group := group |} in
      let o := {| xo_outs := outs; xo_trace := trace; xo_live := live;
                  xo_before := to_reads keys before; xo_after := to_reads keys after |} in
      code (Nat.eqb (length before) (length keys) && Nat.eqb (length after) (length keys)
            && xobs_eqb (model_crash i (N.to_nat n)) o)
           (spec_crash i o)
  | CFail keys size fast lo hi fs group bad err returned live tmp intact before after =>
      let good := remove_kids keys bad 0%N in
      let i := {| ci_size := size; ci_fast := fast; ci_lo := lo; ci_hi := hi; ci_keys := good;
                  ci_fs := map (to_file keys) fs; ci_group := group |} in
      let o := {| fo_err := err; fo_returned := returned; fo_live := live; fo_tmp := tmp; fo_intact := intact;
                  fo_before := to_reads good before; fo_after := to_reads good after |} in
      code (Nat.eqb (length before) (length good) && Nat.eqb (length after) (length good) && agree_fail i o)
           (spec_fail i o)
  | CSnap keys lo hi fs snap hot gen err outs fb fa cb ca =>
      let i := {| si_lo := lo; si_hi := hi; si_keys := keys; si_fs := map (to_file keys) fs;
                  si_snap := to_kvs keys snap; si_hot := to_kvs keys hot; si_gen := gen |} in
      let o := {| so_err := err; so_outs := map (to_ofile keys) outs;
                  so_files_before := to_reads keys fb; so_files_after := to_reads keys fa;
                  so_cache_before := combine keys cb; so_cache_after := combine keys ca |} in
      code (Nat.eqb (length fb) (length keys) && Nat.eqb (length fa) (length keys)
            && Nat.eqb (length cb) (length keys) && Nat.eqb (length ca) (length keys) && agree_snapshot i o)
           (spec_snapshot i o)
  | CPlan keys fs groups =>
      code true (spec_plan (map (to_file keys) fs) groups)
  | CRoll keys size fsn group err before outs after =>
      let os := map (to_ofile keys) outs in
      code (Nat.eqb (length before) (length keys) && Nat.eqb (length after) (length keys) && agree_roll group os)
           (spec_roll size fsn group err (to_reads keys before) os (to_reads keys after))
  | CDelete keys size fast lo hi fs group dkey err outs live tmp before after =>
      let i := {| ci_size := size; ci_fast := fast; ci_lo := lo; ci_hi := hi; ci_keys := keys;
                  ci_fs := map (to_file keys) fs; ci_group := group |} in
      let o := {| do_err := err; do_outs := map (to_ofile keys) outs; do_live := live; do_tmp := tmp;
                  do_before := to_reads keys before; do_after := to_reads keys after |} in
      code (Nat.eqb (length before) (length keys) && Nat.eqb (length after) (length keys)
            && agree_delete i (resolve keys dkey) o)
           (spec_delete i (resolve keys dkey) o)
  | CPlanned keys size fast lo hi fs group err before outs after =>
      let i := {| ci_size := size; ci_fast := fast; ci_lo := lo; ci_hi := hi; ci_keys := keys;
                  ci_fs := map (to_file keys) fs; ci_group := group |} in
      let o := {| co_err := err; co_before := to_reads keys before;
                  co_outs := map (to_ofile keys) outs; co_after := to_reads keys after |} in
      code (Nat.eqb (length before) (length keys) && Nat.eqb (length after) (length keys) && agree_compact i o)
           (spec_planned i o)
  | CBlk keys size fast fs group err outs =>
      let grp := pick_bgroup fs group in
      let os := map (to_ofile keys) outs in
      code (agree_blocks keys size fast grp err os) (spec_blocks keys size grp err os)
  | CPlanLevel stats force level groups =>
      let st := map to_pstat stats in
      code (agree_planlevel st force level groups) (spec_planlevel st groups)
  end.
