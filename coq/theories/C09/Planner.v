(* C09/Planner.v — executable model of tsm1.DefaultPlanner.PlanLevel (and the grouping of
   PlanOptimize) at the level of generations: findGenerations(true) + markInUse, the
   grouping loop, the level filter, chunk(minGenerations), the short-chunk filter, acquire.
   Input = FileStore.Stats() in Stats order with, per file, "has a tombstone" and "is in
   c.filesInUse".  Definitions only; proofs live in PlannerProofs.v. *)
From Verif Require Import Shard.Store C09.Model.
Open Scope Z_scope.

(* one FileStat as the planner sees it: ParseFileName(Path) = (p_gen, p_seq),
   HasTombstone = p_tomb, p_inuse = "Path is a key of c.filesInUse" *)
Record pstat := { p_gen : N; p_seq : N; p_tomb : bool; p_inuse : bool }.

Definition pname (p : pstat) : name := (p_gen p, p_seq p).

(* tsmGeneration: id and files; a generation is only ever created together with its first
   file (findGenerations), so files[0] always exists: g_first *)
Record pgen := { g_id : N; g_first : pstat; g_rest : list pstat }.

Definition g_files (g : pgen) : list pstat := g_first g :: g_rest g.

(* findGenerations: generations[gen] gets the file appended (files keep the Stats order
   inside a generation), then the generations are sorted by id; the map + sort is modelled
   by an insertion into an id-sorted association list *)
Fixpoint gen_insert (p : pstat) (gs : list pgen) : list pgen :=
  match gs with
  | [] => [{| g_id := p_gen p; g_first := p; g_rest := [] |}]
  | g :: r =>
      if (p_gen p <? g_id g)%N then {| g_id := p_gen p; g_first := p; g_rest := [] |} :: gs
      else if (p_gen p =? g_id g)%N
           then {| g_id := g_id g; g_first := g_first g; g_rest := g_rest g ++ [p] |} :: r
           else g :: gen_insert p r
  end.

Definition find_generations (stats : list pstat) : list pgen :=
  fold_left (fun gs p => gen_insert p gs) stats [].

(* markInUse(generations, true) *)
Definition g_inuse (g : pgen) : bool := existsb p_inuse (g_files g).

(* tsmGeneration.level(): sequence of files[0] if < 4, else 4 *)
Definition g_level (g : pgen) : N :=
  if (p_seq (g_first g) <? 4)%N then p_seq (g_first g) else 4%N.

(* tsmGeneration.hasTombstones / tsmGenerations.hasTombstones *)
Definition g_tomb (g : pgen) : bool := existsb p_tomb (g_files g).
Definition gens_tomb (gs : list pgen) : bool := existsb g_tomb gs.

(* tsmGenerations.level(): the maximum, starting from 0 *)
Definition gens_level (gs : list pgen) : N :=
  fold_left (fun lv g => if (lv <? g_level g)%N then g_level g else lv) gs 0%N.

(* the grouping loop of PlanLevel; [cur] = currentGen, the result = the groups appended from
   here on (including the final "if len(currentGen) > 0") *)
Fixpoint group_loop (gens : list pgen) (cur : list pgen) : list (list pgen) :=
  match gens with
  | [] => match cur with [] => [] | _ => [cur] end
  | g :: rest =>
      if g_inuse g then
        (* a generation that is being compacted ends the current group and is skipped *)
        match cur with
        | [] => group_loop rest []
        | _ => cur :: group_loop rest []
        end
      else if (match rest with
               | nxt :: _ => negb (g_inuse nxt) && (g_level g <? g_level nxt)%N
               | [] => false
               end)
      then group_loop rest (cur ++ [g])               (* orphan: joins the current group *)
      else if (match cur with [] => true | _ => (gens_level cur =? g_level g)%N end)
      then group_loop rest (cur ++ [g])
      else cur :: group_loop rest [g]
  end.

(* tsmGenerations.chunk(size); the Go loop runs while len(a) > 0, fuel = len(a) suffices
   for size >= 1 (PlannerProofs.chunk_gens_concat) *)
Fixpoint chunk_fuel (fuel size : nat) (a : list pgen) : list (list pgen) :=
  match fuel with
  | O => []
  | S f => match a with
           | [] => []
           | _ => if Nat.leb size (length a)
                  then firstn size a :: chunk_fuel f size (skipn size a)
                  else [a]
           end
  end.
Definition chunk_gens (size : nat) (a : list pgen) : list (list pgen) := chunk_fuel (length a) size a.

Definition min_generations (level : N) : nat := if (level =? 1)%N then 8%nat else 4%nat.

(* the chunks of generations that PlanLevel turns into compaction groups *)
Definition plan_chunks (stats : list pstat) (level : N) : list (list pgen) :=
  let gens := find_generations stats in
  if Nat.leb (length gens) 1 && negb (gens_tomb gens) then [] else
  let groups := group_loop gens [] in
  let level_groups := filter (fun c => (gens_level c =? level)%N) groups in
  let ming := min_generations level in
  flat_map (fun group =>
              filter (fun ch => negb (Nat.ltb (length ch) ming && negb (gens_tomb ch)))
                     (chunk_gens ming group))
           level_groups.

(* cGroup: the paths of all files of all generations of the chunk *)
Definition chunk_files (ch : list pgen) : list pstat := flat_map g_files ch.

(* PlanLevel: forceFull => nil; acquire fails if a planned path is already in filesInUse *)
Definition plan_level (force_full : bool) (stats : list pstat) (level : N) : list (list name) :=
  if force_full then [] else
  let cgroups := map chunk_files (plan_chunks stats level) in
  if existsb (existsb p_inuse) cgroups then [] else map (map pname) cgroups.

(* ---------- PlanOptimize (grouping only) ---------- *)

(* [skipbig id] = "cur.count() > 2 && cur.size() > maxTSMFileSize &&
   BlockCount(cur.files[0].Path, 1) == DefaultMaxPointsPerBlock" for the generation [id];
   the "&& !cur.hasTombstones()" part is computed here.  The skipped generation does NOT
   end the current group. *)
Fixpoint group_loop_opt (skipbig : N -> bool) (gens : list pgen) (cur : list pgen) : list (list pgen) :=
  match gens with
  | [] => match cur with [] => [] | _ => [cur] end
  | g :: rest =>
      if g_inuse g then
        match cur with
        | [] => group_loop_opt skipbig rest []
        | _ => cur :: group_loop_opt skipbig rest []
        end
      else if skipbig (g_id g) && negb (g_tomb g) then group_loop_opt skipbig rest cur
      else if (match rest with
               | nxt :: _ => negb (g_inuse nxt) && (g_level g <? g_level nxt)%N
               | [] => false
               end)
      then group_loop_opt skipbig rest (cur ++ [g])
      else if (match cur with [] => true | _ => (gens_level cur =? g_level g)%N end)
      then group_loop_opt skipbig rest (cur ++ [g])
      else cur :: group_loop_opt skipbig rest [g]
  end.

Definition plan_optimize (force_full : bool) (skipbig : N -> bool) (stats : list pstat) : list (list name) :=
  if force_full then [] else
  let gens := find_generations stats in
  if Nat.leb (length gens) 1 && negb (gens_tomb gens) then [] else
  let groups := group_loop_opt skipbig gens [] in
  let level_groups := filter (fun c => (gens_level c =? 4)%N) groups in
  let kept := filter (fun group => negb (Nat.ltb (length group) 4 && negb (gens_tomb group))) level_groups in
  let cgroups := map chunk_files kept in
  if existsb (existsb p_inuse) cgroups then [] else map (map pname) cgroups.
