(* C09/ProofsC.v — the layer-A theorems: snapshots, compaction of any admissible group,
   every crash point of the replacement, and the refutation for a group that jumps over a
   file sharing a point with it. *)
From Verif Require Import Shard.Store C09.Model C09.ProofsA C09.ProofsB.
From VerifGen Require Import Consts.
From Coq Require Import ZifyBool ZifyNat ZifyN.
Open Scope Z_scope.

(* ---------- small list facts ---------- *)

Lemma names_nodup_app a b :
  names_nodup a -> names_nodup b -> (forall x y, In x a -> In y b -> fname x <> fname y) -> names_nodup (a ++ b).
Proof.
  unfold names_nodup. induction a as [|x a IH]; intros Ha Hb Hd; cbn [app map]; [assumption|].
  cbn [map] in Ha. inversion Ha as [|? ? Hnot Ha']; subst. constructor.
  - rewrite map_app, in_app_iff. intros [H|H]; [contradiction|].
    apply in_map_iff in H. destruct H as [y [Heq Hy]]. apply (Hd x y); [left; reflexivity|assumption|].
    symmetry; assumption.
  - apply IH; [assumption|assumption|]. intros x' y Hx' Hy. apply Hd; [right; assumption|assumption].
Qed.

Lemma names_nodup_filter p l : names_nodup l -> names_nodup (filter p l).
Proof.
  unfold names_nodup. induction l as [|x l IH]; intros H; cbn [filter map]; [constructor|].
  cbn [map] in H. inversion H as [|? ? Hnot H']; subst.
  destruct (p x); [|apply IH; assumption]. cbn [map]. constructor; [|apply IH; assumption].
  intros Hin. apply Hnot. apply in_map_iff in Hin. destruct Hin as [y [Heq Hy]].
  apply filter_In in Hy. rewrite <- Heq. apply in_map. tauto.
Qed.

Lemma names_nodup_incl_sub a b : names_nodup (a ++ b) -> names_nodup a.
Proof.
  unfold names_nodup. rewrite map_app. induction (map fname a) as [|x m IH]; intros H; [constructor|].
  cbn [app] in H. inversion H as [|? ? Hnot H']; subst. constructor; [|apply IH; assumption].
  intros Hin. apply Hnot. apply in_app_iff. left; assumption.
Qed.

Lemma names_nodup_firstn n l : names_nodup l -> names_nodup (firstn n l).
Proof. intros H. rewrite <- (firstn_skipn n l) in H. eapply names_nodup_incl_sub; eassumption. Qed.

Lemma names_nodup_rev l : names_nodup l -> names_nodup (rev l).
Proof.
  unfold names_nodup. induction l as [|x l IH]; intros H; cbn [rev map]; [constructor|].
  cbn [map] in H. inversion H as [|? ? Hnot H']; subst.
  change (NoDup (map fname (rev l ++ [x]))).
  apply (names_nodup_app (rev l) [x]).
  - apply IH; assumption.
  - cbn. constructor; [intros []|constructor].
  - intros a b Ha [<-|[]] Heq. apply Hnot. rewrite <- Heq. apply in_map. apply in_rev. assumption.
Qed.

Lemma in_firstn {A} n (l : list A) x : In x (firstn n l) -> In x l.
Proof. intros H. rewrite <- (firstn_skipn n l). apply in_app_iff. left; assumption. Qed.

(* membership in the group, by name or by element, is the same thing inside a directory *)
Lemma in_names_group_iff fs group x :
  names_nodup fs -> (forall g, In g group -> In g fs) -> In x fs ->
  (in_names (fname x) group = false <-> ~ In x group).
Proof.
  intros Hnd Hsub Hx. split.
  - intros H Hin. apply (proj1 (in_names_false _ _) H x Hin). reflexivity.
  - intros Hn. apply in_names_false. intros g Hg Heq. apply Hn.
    assert (g = x) by (apply (names_nodup_inj fs); auto). subst. assumption.
Qed.

Lemma overlay_ext k t l1 l2 :
  nsorted l1 -> nsorted l2 -> (forall x, In x l1 <-> In x l2) -> overlay k t l1 = overlay k t l2.
Proof.
  intros S1 S2 Hm. destruct (overlay k t l1) as [v|] eqn:E.
  - symmetry. apply (overlay_some k t _ S2). apply (overlay_some k t _ S1) in E.
    destruct E as [w [Hw [Hl Hmax]]]. exists w. split; [apply Hm; assumption|]. split; [assumption|].
    intros g Hg. apply Hmax. apply Hm. assumption.
  - symmetry. apply overlay_none. intros f Hf. apply (proj1 (overlay_none k t l1) E). apply Hm. assumption.
Qed.

(* ---------- files that are newer than everything: snapshots ---------- *)

Lemma overlay_newer k t fs outs :
  names_nodup fs -> nsorted outs ->
  (forall o f, In o outs -> In f fs -> name_ltb (fname f) (fname o) = true) ->
  overlay k t (sort_files (outs ++ fs)) =
  match overlay k t outs with Some v => Some v | None => overlay k t (sort_files fs) end.
Proof.
  intros Hnd Hos Hnew.
  assert (Hnd2 : names_nodup (outs ++ fs)).
  { apply names_nodup_app; [apply nsorted_names_nodup; assumption|assumption|].
    intros x y Hx Hy Heq. specialize (Hnew x y Hx Hy). rewrite Heq, name_ltb_irrefl in Hnew. discriminate. }
  pose proof (sort_files_sorted _ Hnd) as S1. pose proof (sort_files_sorted _ Hnd2) as S2.
  destruct (overlay k t outs) as [v|] eqn:Eo.
  - apply (overlay_some k t _ S2). apply (overlay_some k t _ Hos) in Eo.
    destruct Eo as [w [Hw [Hl Hmax]]]. exists w. split; [apply sort_files_in, in_app_iff; left; assumption|].
    split; [assumption|]. intros g Hg Hlt. apply -> sort_files_in in Hg. apply in_app_iff in Hg.
    destruct Hg as [Hg|Hg]; [auto|]. specialize (Hnew w g Hw Hg). apply name_ltb_asym in Hnew. congruence.
  - pose proof (proj1 (overlay_none k t outs) Eo) as Hnone.
    destruct (overlay k t (sort_files fs)) as [v|] eqn:Ef.
    + apply (overlay_some k t _ S2). apply (overlay_some k t _ S1) in Ef.
      destruct Ef as [w [Hw [Hl Hmax]]]. apply -> sort_files_in in Hw.
      exists w. split; [apply sort_files_in, in_app_iff; right; assumption|]. split; [assumption|].
      intros g Hg Hlt. apply -> sort_files_in in Hg. apply in_app_iff in Hg.
      destruct Hg as [Hg|Hg]; [auto|]. apply Hmax; [apply sort_files_in; assumption|assumption].
    + apply overlay_none. intros f Hf. apply -> sort_files_in in Hf. apply in_app_iff in Hf.
      destruct Hf as [Hf|Hf]; [auto|]. apply (proj1 (overlay_none k t _) Ef). apply sort_files_in. assumption.
Qed.

Lemma snapshot_overlay maxe gen snap k t :
  overlay k t (snapshot_files_with maxe gen snap) = lookup_last t (kv_get k snap).
Proof.
  unfold snapshot_files_with, snapshot_segments.
  rewrite (stream_outs_overlay maxe gen _ _ (snap_values snap)).
  - unfold snap_values. apply dedup_last_wins.
  - intros k0. apply seg_values_snap_stream, eff_size_pos.
Qed.

Lemma snapshot_files_newer maxe gen snap fs o f :
  (forall f, In f fs -> (f_gen f < gen)%N) ->
  In o (snapshot_files_with maxe gen snap) -> In f fs -> name_ltb (fname f) (fname o) = true.
Proof.
  intros Hg Ho Hf. apply in_mk_outs in Ho. destruct Ho as [_ [i [_ [Hgen _]]]].
  specialize (Hg f Hf). unfold name_ltb, fname. cbn [fst snd]. rewrite Hgen. lia.
Qed.

(* the value seen at (k,t) is the same before the snapshot file is installed, after it is
   installed with the snapshot still in the cache, and after the snapshot is cleared *)
Lemma snapshot_lookup s gen k t :
  names_nodup (s_files s) -> (forall f, In f (s_files s) -> (f_gen f < gen)%N) ->
  let s1 := install_snapshot gen s in
  lookup_last t (store_read_all (s_files s1) (s_cache s1) k) =
    lookup_last t (store_read_all (s_files s) (s_cache s) k) /\
  lookup_last t (store_read_all (s_files (clear_snapshot s1)) (s_cache (clear_snapshot s1)) k) =
    lookup_last t (store_read_all (s_files s) (s_cache s) k).
Proof.
  intros Hnd Hgen. cbn zeta. rewrite !store_read_all_lookup.
  unfold install_snapshot, clear_snapshot, snapshot_files; cbn [s_files s_cache c_snap c_hot].
  set (outs := snapshot_files_with c09_max_index_entries gen (c_snap (s_cache s))).
  assert (Hos : nsorted outs) by apply mk_outs_sorted.
  assert (Hnew : forall o f, In o outs -> In f (s_files s) -> name_ltb (fname f) (fname o) = true).
  { intros o f Ho Hf. eapply snapshot_files_newer; eassumption. }
  rewrite (overlay_newer k t (s_files s) outs Hnd Hos Hnew).
  unfold outs. rewrite snapshot_overlay.
  unfold cache_values; cbn [c_snap c_hot kv_get app]. rewrite !lookup_last_app.
  destruct (lookup_last t (kv_get k (c_hot (s_cache s)))); [split; reflexivity|].
  destruct (lookup_last t (kv_get k (c_snap (s_cache s)))); split; reflexivity.
Qed.

Theorem snapshot_preserves_reads_thm s gen :
  names_nodup (s_files s) -> (forall f, In f (s_files s) -> (f_gen f < gen)%N) ->
  forall k lo hi asc,
    shard_read (install_snapshot gen s) k lo hi asc = shard_read s k lo hi asc /\
    shard_read (clear_snapshot (install_snapshot gen s)) k lo hi asc = shard_read s k lo hi asc.
Proof.
  intros Hnd Hgen k lo hi asc. unfold shard_read. split; apply store_read_ext; intros t.
  - apply (snapshot_lookup s gen k t Hnd Hgen).
  - apply (snapshot_lookup s gen k t Hnd Hgen).
Qed.

(* ---------- compaction ---------- *)

Definition jump_free (fs group outs : list tsmfile) : Prop :=
  forall s g o k t, In s fs -> ~ In s group -> In g group -> In o outs ->
    name_ltb (fname g) (fname s) = true -> name_ltb (fname s) (fname o) = true ->
    layer k t g = None \/ layer k t s = None.

Definition contiguous (fs group : list tsmfile) : Prop :=
  forall s, In s fs -> ~ In s group ->
    (forall g, In g group -> name_ltb (fname s) (fname g) = true) \/
    (forall g, In g group -> name_ltb (fname g) (fname s) = true).

Section Compaction.
  Variables (maxe : N) (size : Z) (fs group : list tsmfile).
  Hypothesis Hnd : names_nodup fs.
  Hypothesis Hsub : forall g, In g group -> In g fs.
  Hypothesis Hgs : nsorted group.
  Hypothesis Hwhole : whole_last_generation fs group = true.
  Let outs := compact_with maxe size group.
  Hypothesis Hjump : jump_free fs group outs.

  Lemma rest_spec x :
    In x (filter (fun f => negb (in_names (fname f) group)) fs) <-> In x fs /\ ~ In x group.
  Proof.
    rewrite filter_In. split; intros [Hx H]; (split; [assumption|]).
    - apply (in_names_group_iff fs group x Hnd Hsub Hx). destruct (in_names (fname x) group); [discriminate|reflexivity].
    - apply (in_names_group_iff fs group x Hnd Hsub Hx) in H. rewrite H. reflexivity.
  Qed.

  (* every directory state with outputs O installed and inputs R removed reads like fs *)
  Lemma mixed_reads O R files :
    (forall o, In o O -> In o outs) -> (forall g, In g R -> In g group) ->
    (R <> [] -> forall o, In o outs -> In o O) ->
    names_nodup files -> (forall x, In x files <-> (In x O \/ (In x fs /\ ~ In x R))) ->
    forall c k lo hi asc, store_read files c k lo hi asc = store_read fs c k lo hi asc.
  Proof.
    intros HO HR Hph Hfnd Hf c k lo hi asc.
    apply (mixed_state_reads fs group outs Hnd Hsub Hgs
             (fun o s Ho Hs => compact_outs_fresh maxe size fs group o s Hwhole Ho Hs)
             (fun o g Ho Hg => compact_outs_newer maxe size group o g Ho Hg)
             (fun o k t v Ho Hl => outs_sound maxe size group o k t v Ho Hl)
             (fun k t v H => outs_complete maxe size group k t v H)
             Hjump O R files HO HR Hph Hfnd Hf).
  Qed.

  Lemma replaced_nodup : names_nodup (replace_files fs group outs).
  Proof.
    unfold replace_files. apply names_nodup_app.
    - apply nsorted_names_nodup, compact_outs_sorted.
    - apply names_nodup_filter. assumption.
    - intros x y Hx Hy. apply rest_spec in Hy.
      apply (compact_outs_fresh maxe size fs group x y Hwhole Hx). tauto.
  Qed.

  Theorem compact_reads c k lo hi asc :
    store_read (replace_files fs group outs) c k lo hi asc = store_read fs c k lo hi asc.
  Proof.
    apply (mixed_reads outs group); auto.
    - apply replaced_nodup.
    - intros x. unfold replace_files. rewrite in_app_iff, rest_spec. tauto.
  Qed.

  (* ----- every prefix of the step sequence of FileStore.replace ----- *)

  Lemma run_renames l : forall d,
    d_live (run_steps d (map SRename l)) = rev l ++ d_live d.
  Proof.
    unfold run_steps. induction l as [|f r IH]; intros d; cbn [map fold_left rev app]; [reflexivity|].
    rewrite IH. cbn [apply_step d_live]. rewrite <- app_assoc. reflexivity.
  Qed.

  Lemma run_removes l : forall d x,
    In x (d_live (run_steps d (map (fun g => SRemove (fname g)) l))) <->
    In x (d_live d) /\ in_names (fname x) l = false.
  Proof.
    unfold run_steps. induction l as [|g r IH]; intros d x; cbn [map fold_left].
    - cbn. tauto.
    - rewrite IH. cbn [apply_step d_live]. rewrite filter_In. unfold in_names. cbn [existsb].
      fold (in_names (fname x) r). destruct (name_eqb (fname x) (fname g)); cbn [negb orb]; intuition congruence.
  Qed.

  Lemma run_removes_nodup l : forall d,
    names_nodup (d_live d) -> names_nodup (d_live (run_steps d (map (fun g => SRemove (fname g)) l))).
  Proof.
    unfold run_steps. induction l as [|g r IH]; intros d H; cbn [map fold_left]; [assumption|].
    apply IH. cbn [apply_step d_live]. apply names_nodup_filter. assumption.
  Qed.

  Definition crash_dir (n : nat) : dir :=
    run_steps (dir_compacted fs outs) (firstn n (replace_steps group outs)).

  Lemma crash_dir_shape n :
    let O := firstn n outs in
    let R := firstn (n - length outs) group in
    names_nodup (reopen (crash_dir n)) /\
    forall x, In x (reopen (crash_dir n)) <-> (In x O \/ (In x fs /\ ~ In x R)).
  Proof.
    cbn zeta. unfold crash_dir, reopen, replace_steps.
    change c09_replace_rename_before_remove with true. cbv iota.
    rewrite firstn_app, map_length, !firstn_map.
    unfold run_steps. rewrite fold_left_app. fold (run_steps (dir_compacted fs outs) (map SRename (firstn n outs))).
    set (d1 := run_steps (dir_compacted fs outs) (map SRename (firstn n outs))).
    assert (L1 : d_live d1 = rev (firstn n outs) ++ fs) by (unfold d1; rewrite run_renames; reflexivity).
    assert (N1 : names_nodup (d_live d1)).
    { rewrite L1. apply names_nodup_app.
      - apply names_nodup_rev, names_nodup_firstn, nsorted_names_nodup, compact_outs_sorted.
      - assumption.
      - intros x y Hx Hy. apply in_rev, in_firstn in Hx.
        apply (compact_outs_fresh maxe size fs group x y Hwhole Hx Hy). }
    fold (run_steps d1 (map (fun g => SRemove (fname g)) (firstn (n - length outs) group))).
    split; [apply run_removes_nodup; assumption|].
    intros x. rewrite run_removes, L1, in_app_iff, <- in_rev.
    set (R := firstn (n - length outs) group).
    assert (HRg : forall g, In g R -> In g group) by (intros g Hg; eapply in_firstn; eassumption).
    split.
    - intros [[Hx|Hx] Hn].
      + left; assumption.
      + right. split; [assumption|]. intros Hc.
        apply (proj1 (in_names_false _ _) Hn x Hc). reflexivity.
    - intros [Hx|[Hx Hn]].
      + split; [left; assumption|]. apply in_names_false. intros g Hg Heq.
        apply in_firstn in Hx.
        apply (compact_outs_fresh maxe size fs group x g Hwhole Hx (Hsub _ (HRg _ Hg))). symmetry; assumption.
      + split; [right; assumption|]. apply in_names_false. intros g Hg Heq. apply Hn.
        assert (g = x) by (apply (names_nodup_inj fs); auto). subst. assumption.
  Qed.

  Lemma crash_phase n o :
    firstn (n - length outs) group <> [] -> In o outs -> In o (firstn n outs).
  Proof.
    intros HR Ho. assert (length outs <= n)%nat.
    { destruct (Nat.le_gt_cases (length outs) n) as [L|L]; [assumption|].
      replace (n - length outs)%nat with 0%nat in HR by lia. cbn in HR. congruence. }
    rewrite firstn_all2 by assumption. assumption.
  Qed.

  Theorem crash_reads n c k lo hi asc :
    store_read (reopen (crash_dir n)) c k lo hi asc = store_read fs c k lo hi asc.
  Proof.
    destruct (crash_dir_shape n) as [Hn Hm].
    apply (mixed_reads (firstn n outs) (firstn (n - length outs) group)); auto.
    - intros o Ho. eapply in_firstn; eassumption.
    - intros g Hg. eapply in_firstn; eassumption.
    - intros HR o Ho. apply crash_phase; assumption.
  Qed.

  (* each input is still there, or it is gone and then every output is installed; files
     outside the group are never touched *)
  Theorem crash_inputs n :
    (forall g, In g group -> In g (reopen (crash_dir n)) \/ (forall o, In o outs -> In o (reopen (crash_dir n)))) /\
    (forall f, In f fs -> ~ In f group -> In f (reopen (crash_dir n))).
  Proof.
    destruct (crash_dir_shape n) as [_ Hm]. split.
    - intros g Hg.
      assert (HRfs : forall g', In g' (firstn (n - length outs) group) -> In g' fs).
      { intros g' Hg'. apply Hsub. eapply in_firstn; eassumption. }
      destruct (in_names (fname g) (firstn (n - length outs) group)) eqn:E.
      + right. intros o Ho. apply Hm. left. apply crash_phase; [|assumption].
        intros E2. rewrite E2 in E. discriminate.
      + left. apply Hm. right. split; [apply Hsub; assumption|].
        apply (in_names_group_iff fs _ g Hnd HRfs (Hsub _ Hg)). assumption.
    - intros f Hf Hn. apply Hm. right. split; [assumption|]. intros Hc. apply Hn. eapply in_firstn; eassumption.
  Qed.
End Compaction.
