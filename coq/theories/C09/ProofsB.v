(* C09/ProofsB.v — layer B: key order, chunking, roll-over, and what the outputs of the
   model compaction contain and how they are named. *)
From Verif Require Import Shard.Store C09.Model C09.ProofsA.
From VerifGen Require Import Consts.
From Coq Require Import ZifyBool ZifyNat ZifyN.
Open Scope Z_scope.

(* ---------- keys ---------- *)

Lemma key_eqb_eq a b : key_eqb a b = true <-> a = b.
Proof. apply nlist_eqb_eq. Qed.

Lemma key_eqb_refl a : key_eqb a a = true.
Proof. apply key_eqb_eq. reflexivity. Qed.

Lemma key_eqb_sym a b : key_eqb a b = key_eqb b a.
Proof.
  destruct (key_eqb a b) eqn:E1, (key_eqb b a) eqn:E2; try reflexivity.
  - apply key_eqb_eq in E1. subst. rewrite key_eqb_refl in E2. discriminate.
  - apply key_eqb_eq in E2. subst. rewrite key_eqb_refl in E1. discriminate.
Qed.

Lemma key_ltb_irrefl a : key_ltb a a = false.
Proof. induction a as [|x a IH]; cbn; [reflexivity|]. rewrite IH. lia. Qed.

Lemma key_ltb_trans a : forall b c, key_ltb a b = true -> key_ltb b c = true -> key_ltb a c = true.
Proof.
  induction a as [|x a IH]; intros [|y b] [|z c]; cbn; try discriminate; try reflexivity.
  intros H1 H2. apply orb_true_iff in H1. apply orb_true_iff in H2. apply orb_true_iff.
  destruct H1 as [H1|H1], H2 as [H2|H2].
  - left. lia.
  - apply andb_true_iff in H2. destruct H2 as [E _]. left. lia.
  - apply andb_true_iff in H1. destruct H1 as [E _]. left. lia.
  - apply andb_true_iff in H1. apply andb_true_iff in H2.
    destruct H1 as [E1 L1], H2 as [E2 L2]. right. apply andb_true_iff.
    split; [lia|eapply IH; eassumption].
Qed.

Lemma key_total a : forall b, key_ltb a b = false -> key_eqb b a = false -> key_ltb b a = true.
Proof.
  induction a as [|x a IH]; intros [|y b]; cbn; try discriminate; try reflexivity.
  intros H1 H2.
  destruct (N.ltb_spec x y); [discriminate|]. cbn in H1.
  destruct (N.ltb_spec y x); [reflexivity|]. cbn.
  assert (x = y) by lia. subst y. rewrite N.eqb_refl in *. cbn in *. apply IH; assumption.
Qed.

Lemma key_ltb_neq a b : key_ltb a b = true -> key_eqb a b = false.
Proof.
  intros H. destruct (key_eqb a b) eqn:E; [|reflexivity].
  apply key_eqb_eq in E. subst. rewrite key_ltb_irrefl in H. discriminate.
Qed.

Fixpoint ksorted (l : list key) : Prop :=
  match l with
  | [] => True
  | k :: r => (forall x, In x r -> key_ltb k x = true) /\ ksorted r
  end.

Lemma insert_key_in k l x : In x (insert_key k l) <-> x = k \/ In x l.
Proof.
  induction l as [|h r IH]; cbn [insert_key].
  - cbn. intuition.
  - destruct (key_ltb k h); [cbn [In]; intuition|].
    destruct (key_eqb h k) eqn:E.
    + apply key_eqb_eq in E. subst h. cbn [In]. intuition.
    + cbn [In]. rewrite IH. intuition.
Qed.

Lemma insert_key_sorted k l : ksorted l -> ksorted (insert_key k l).
Proof.
  induction l as [|h r IH]; intros Hs; cbn [insert_key].
  - cbn. split; [intros ? []|exact I].
  - destruct Hs as [Hh Hr]. destruct (key_ltb k h) eqn:E.
    + cbn [ksorted]. split; [|split; assumption].
      intros x [<-|Hx]; [assumption|]. apply (key_ltb_trans _ h); auto.
    + destruct (key_eqb h k) eqn:E2; [cbn [ksorted]; split; assumption|].
      cbn [ksorted]. split; [|apply IH; assumption].
      intros x Hx. apply -> insert_key_in in Hx. destruct Hx as [->|Hx]; [|auto].
      apply key_total; assumption.
Qed.

Lemma insert_kvs_in (m : kvs) : forall acc x,
  In x (fold_left (fun a kv => insert_key (fst kv) a) m acc) <-> In x acc \/ In x (map fst m).
Proof.
  induction m as [|kv r IH]; intros acc x; cbn [fold_left map]; [cbn; tauto|].
  rewrite IH, insert_key_in. cbn [In]. intuition.
Qed.

Lemma insert_kvs_sorted (m : kvs) : forall acc,
  ksorted acc -> ksorted (fold_left (fun a kv => insert_key (fst kv) a) m acc).
Proof.
  induction m as [|kv r IH]; intros acc Hs; cbn [fold_left]; [assumption|].
  apply IH. apply insert_key_sorted. assumption.
Qed.

Lemma group_keys_gen group : forall acc,
  ksorted acc ->
  let res := fold_left (fun acc f => fold_left (fun a kv => insert_key (fst kv) a) (f_data f) acc) group acc in
  ksorted res /\ forall x, In x res <-> In x acc \/ exists f, In f group /\ In x (map fst (f_data f)).
Proof.
  induction group as [|f r IH]; intros acc Hs; cbn [fold_left].
  - split; [assumption|]. intros x. split; [auto|]. intros [H|[f [[] _]]]. assumption.
  - destruct (IH _ (insert_kvs_sorted (f_data f) acc Hs)) as [S M]. split; [exact S|].
    intros x. rewrite M, insert_kvs_in. split.
    + intros [[H|H]|[g [Hg H]]]; [auto|right; exists f; split; [left; reflexivity|assumption]|
                                  right; exists g; split; [right; assumption|assumption]].
    + intros [H|[g [[<-|Hg] H]]]; [auto|auto|]. right. exists g. auto.
Qed.

Lemma group_keys_sorted group : ksorted (group_keys group).
Proof. apply (group_keys_gen group [] I). Qed.

Lemma group_keys_in group x :
  In x (group_keys group) <-> exists f, In f group /\ In x (map fst (f_data f)).
Proof.
  destruct (group_keys_gen group [] I) as [_ M]. unfold group_keys. rewrite M. cbn. intuition.
Qed.

(* ---------- kvs ---------- *)

Lemma kv_get_notin k (m : kvs) : ~ In k (map fst m) -> kv_get k m = [].
Proof.
  induction m as [|[k' vs] r IH]; intros H; cbn [kv_get]; [reflexivity|].
  destruct (key_eqb k' k) eqn:E.
  - apply key_eqb_eq in E. subst. exfalso. apply H. left. reflexivity.
  - apply IH. intros Hc. apply H. right. assumption.
Qed.

Lemma kv_get_kv_append k k' vs (m : kvs) :
  kv_get k (kv_append k' vs m) = if key_eqb k' k then kv_get k m ++ vs else kv_get k m.
Proof.
  induction m as [|[k'' old] r IH]; cbn [kv_append kv_get].
  - destruct (key_eqb k' k); reflexivity.
  - destruct (key_eqb k'' k') eqn:E1; cbn [kv_get].
    + apply key_eqb_eq in E1. subst k''. destruct (key_eqb k' k); reflexivity.
    + destruct (key_eqb k'' k) eqn:E2.
      * destruct (key_eqb k' k) eqn:E3; [|reflexivity].
        apply key_eqb_eq in E2. apply key_eqb_eq in E3. subst. rewrite key_eqb_refl in E1. discriminate.
      * exact IH.
Qed.

Lemma apply_tombs_nil k tombs : apply_tombs k tombs [] = [].
Proof.
  unfold apply_tombs. induction tombs as [|tb r IH]; cbn [fold_left]; [reflexivity|].
  destruct (key_eqb (fst tb) k); exact IH.
Qed.

Lemma merge_lw_nil_r older : merge_lw older [] = older.
Proof. reflexivity. Qed.

Lemma files_values_no_key group k :
  (forall f, In f group -> ~ In k (map fst (f_data f))) -> files_values group k = [].
Proof.
  unfold files_values. intros H.
  assert (G : forall acc, fold_left (fun a f => merge_lw a (file_values f k)) group acc = acc).
  { induction group as [|f r IH]; intros acc; cbn [fold_left]; [reflexivity|].
    unfold file_values at 2. rewrite (kv_get_notin k (f_data f)) by (apply H; left; reflexivity).
    rewrite apply_tombs_nil, merge_lw_nil_r. apply IH. intros g Hg. apply H. right. assumption. }
  apply G.
Qed.

(* ---------- chunking ---------- *)

Lemma chunk_concat fuel size vs :
  (0 < size)%nat -> (length vs <= fuel)%nat -> concat (chunk fuel size vs) = vs.
Proof.
  intros Hs. revert vs. induction fuel as [|f IH]; intros vs Hl; cbn [chunk].
  - destruct vs; [reflexivity|cbn in Hl; lia].
  - destruct vs as [|x r]; [reflexivity|].
    cbn [concat]. rewrite IH.
    + apply firstn_skipn.
    + rewrite skipn_length. cbn [length] in *. lia.
Qed.

Lemma chunks_concat size vs : (0 < size)%nat -> concat (chunks size vs) = vs.
Proof. intros H. apply chunk_concat; [assumption|apply le_n]. Qed.

Lemma chunk_bounded fuel size vs b :
  (0 < size)%nat -> In b (chunk fuel size vs) -> b <> [] /\ (length b <= size)%nat.
Proof.
  intros Hs. revert vs. induction fuel as [|f IH]; intros vs Hb; cbn [chunk] in Hb; [destruct Hb|].
  destruct vs as [|x r]; [destruct Hb|]. destruct Hb as [<-|Hb]; [|eapply IH; eassumption].
  split.
  - destruct size; [lia|]. cbn. discriminate.
  - apply firstn_le_length.
Qed.

Lemma eff_size_pos size : (0 < eff_size size)%nat.
Proof.
  unfold eff_size. destruct (Z.leb_spec size 0).
  - assert (c09_default_max_points_per_block > 0) by reflexivity. lia.
  - lia.
Qed.

(* ---------- the block stream ---------- *)

Definition seg_values (k : key) (seg : list (key * block)) : list tv :=
  flat_map (fun kb => if key_eqb (fst kb) k then snd kb else []) seg.

Lemma seg_values_app k a b : seg_values k (a ++ b) = seg_values k a ++ seg_values k b.
Proof. unfold seg_values. apply flat_map_app. Qed.

Lemma seg_values_key_blocks k k' (bs : list block) :
  seg_values k (map (fun b => (k', b)) bs) = if key_eqb k' k then concat bs else [].
Proof.
  induction bs as [|b r IH]; cbn [map seg_values flat_map concat fst snd].
  - destruct (key_eqb k' k); reflexivity.
  - fold (seg_values k (map (fun b0 => (k', b0)) r)). rewrite IH.
    destruct (key_eqb k' k); reflexivity.
Qed.

Lemma seg_values_stream size (valf : key -> list tv) k (keys : list key) :
  (0 < size)%nat -> ksorted keys ->
  seg_values k (stream_of size keys valf) = if existsb (key_eqb k) keys then valf k else [].
Proof.
  intros Hs. unfold stream_of. induction keys as [|h r IH]; intros Hk; cbn [flat_map existsb]; [reflexivity|].
  destruct Hk as [Hh Hr]. rewrite seg_values_app, seg_values_key_blocks, chunks_concat by assumption.
  rewrite (IH Hr). rewrite (key_eqb_sym k h).
  destruct (key_eqb h k) eqn:E; cbn [orb]; [|reflexivity].
  apply key_eqb_eq in E. subst h.
  assert (existsb (key_eqb k) r = false) as ->.
  { destruct (existsb (key_eqb k) r) eqn:Ex; [|reflexivity].
    apply existsb_exists in Ex. destruct Ex as [x [Hx Hxe]]. apply key_eqb_eq in Hxe. subst x.
    specialize (Hh k Hx). rewrite key_ltb_irrefl in Hh. discriminate. }
  apply app_nil_r.
Qed.

Lemma existsb_key_in k keys : existsb (key_eqb k) keys = true <-> In k keys.
Proof.
  rewrite existsb_exists. split.
  - intros [x [Hx E]]. apply key_eqb_eq in E. subst. assumption.
  - intros H. exists k. split; [assumption|apply key_eqb_refl].
Qed.

Lemma seg_values_compact_stream size group k :
  (0 < size)%nat -> seg_values k (compact_stream size group) = merged_values group k.
Proof.
  intros Hs. unfold compact_stream. rewrite seg_values_stream by (auto using group_keys_sorted).
  destruct (existsb (key_eqb k) (group_keys group)) eqn:E; [reflexivity|].
  symmetry. apply files_values_no_key. intros f Hf Hin.
  assert (In k (group_keys group)) as Hk by (apply group_keys_in; exists f; auto).
  apply existsb_key_in in Hk. congruence.
Qed.

Lemma snap_keys_sorted snap : ksorted (snap_keys snap).
Proof. apply insert_kvs_sorted. exact I. Qed.

Lemma seg_values_snap_stream size snap k :
  (0 < size)%nat -> seg_values k (stream_of size (snap_keys snap) (snap_values snap)) = snap_values snap k.
Proof.
  intros Hs. rewrite seg_values_stream by (auto using snap_keys_sorted).
  destruct (existsb (key_eqb k) (snap_keys snap)) eqn:E; [reflexivity|].
  unfold snap_values. rewrite kv_get_notin; [reflexivity|].
  intros Hin. assert (In k (snap_keys snap)) as Hk.
  { unfold snap_keys. apply insert_kvs_in. right. assumption. }
  apply existsb_key_in in Hk. congruence.
Qed.

(* ---------- roll-over: the output files are consecutive segments of the stream ---------- *)

Lemma split_files_concat maxe items : forall cur ck cnt,
  concat (split_files maxe cur ck cnt items) = rev cur ++ items.
Proof.
  induction items as [|[k b] r IH]; intros cur ck cnt; cbn [split_files]; rewrite <- ?rev_alt.
  - destruct cur; cbn [concat]; [reflexivity|]. rewrite !app_nil_r. reflexivity.
  - destruct (maxe <=? _)%N.
    + cbn [concat]. rewrite IH. cbn [rev app]. rewrite <- app_assoc. reflexivity.
    + rewrite IH. cbn [rev]. rewrite <- app_assoc. reflexivity.
Qed.

Lemma split_files_nonempty maxe items : forall cur ck cnt seg,
  In seg (split_files maxe cur ck cnt items) -> seg <> [].
Proof.
  induction items as [|[k b] r IH]; intros cur ck cnt seg H; cbn [split_files] in H; rewrite <- ?rev_alt in H.
  - destruct cur as [|c0 cur']; [destruct H|]. destruct H as [<-|[]].
    cbn [rev]. intros E. apply app_eq_nil in E. destruct E as [_ E]. discriminate.
  - destruct (maxe <=? _)%N.
    + destruct H as [<-|H]; [|eapply IH; eassumption].
      cbn [rev]. intros E. apply app_eq_nil in E. destruct E as [_ E]. discriminate.
    + eapply IH; eassumption.
Qed.

(* ---------- content of the output files ---------- *)

Lemma kv_get_seg_data k seg : kv_get k (seg_data seg) = seg_values k seg.
Proof.
  unfold seg_data.
  assert (G : forall m, kv_get k (fold_left (fun m kb => kv_append (fst kb) (snd kb) m) seg m) =
                        kv_get k m ++ seg_values k seg).
  { induction seg as [|kb r IH]; intros m; cbn [fold_left seg_values flat_map].
    - rewrite app_nil_r. reflexivity.
    - fold (seg_values k r). rewrite IH, kv_get_kv_append.
      destruct (key_eqb _ k); [rewrite <- app_assoc|]; reflexivity. }
  apply (G []).
Qed.

Lemma in_mk_outs gen segs : forall seq o,
  In o (mk_outs gen seq segs) ->
  exists seg i, In seg segs /\ f_gen o = gen /\ f_seq o = (seq + 1 + i)%N /\ (i < N.of_nat (length segs))%N /\
                f_data o = seg_data seg /\ f_tombs o = [].
Proof.
  induction segs as [|s r IH]; intros seq o H; cbn [mk_outs] in H; [destruct H|].
  destruct H as [<-|H].
  - exists s, 0%N. cbn. repeat split; try lia. left; reflexivity.
  - destruct (IH _ _ H) as [seg [i [Hs [Hg [Hq [Hi [Hd Ht]]]]]]].
    exists seg, (i + 1)%N. cbn [length]. repeat split; auto; try lia. right; assumption.
Qed.

Lemma mk_outs_in gen segs : forall seq seg,
  In seg segs -> exists o, In o (mk_outs gen seq segs) /\ f_data o = seg_data seg /\ f_tombs o = [].
Proof.
  induction segs as [|s r IH]; intros seq seg H; [destruct H|]. cbn [mk_outs].
  destruct H as [<-|H].
  - eexists. split; [left; reflexivity|]. split; reflexivity.
  - destruct (IH (seq + 1)%N seg H) as [o [Ho Hd]]. exists o. split; [right; assumption|assumption].
Qed.

Lemma file_values_no_tombs o k : f_tombs o = [] -> file_values o k = kv_get k (f_data o).
Proof. unfold file_values. intros ->. reflexivity. Qed.

Lemma lookup_last_in t v l : lookup_last t l = Some v -> In (t, v) l.
Proof.
  induction l as [|[t' v'] r IH]; cbn [lookup_last]; [discriminate|].
  destruct (lookup_last t r) eqn:E.
  - intros H; inversion H; subst. right. apply IH. reflexivity.
  - destruct (t' =? t) eqn:Et; [|discriminate]. intros H; inversion H; subst. left. f_equal. lia.
Qed.

Lemma in_lookup_last_some t v l : In (t, v) l -> lookup_last t l <> None.
Proof.
  induction l as [|[t' v'] r IH]; intros H; [destruct H|]. cbn [lookup_last].
  destruct (lookup_last t r) eqn:E; [discriminate|].
  destruct H as [H|H]; [inversion H; subst; rewrite Z.eqb_refl; discriminate|].
  exfalso. apply IH; auto.
Qed.

Lemma in_seg_values_concat k x segs :
  In x (seg_values k (concat segs)) <-> exists seg, In seg segs /\ In x (seg_values k seg).
Proof.
  induction segs as [|s r IH]; cbn [concat].
  - cbn. split; [intros []|intros [? [[] _]]].
  - rewrite seg_values_app, in_app_iff, IH. split.
    + intros [H|[seg [Hs H]]]; [exists s; split; [left; reflexivity|assumption]|exists seg; split; [right; assumption|assumption]].
    + intros [seg [[<-|Hs] H]]; [left; assumption|right; exists seg; auto].
Qed.

Lemma overlay_group_merged k t group : overlay k t group = lookup_last t (merged_values group k).
Proof. unfold overlay, merged_values. rewrite files_values_lookup. reflexivity. Qed.

Lemma mk_outs_flat_values k gen segs : forall seq,
  flat_map (fun f => file_values f k) (mk_outs gen seq segs) = seg_values k (concat segs).
Proof.
  induction segs as [|s r IH]; intros seq; cbn [mk_outs flat_map concat]; [reflexivity|].
  rewrite seg_values_app, IH. f_equal.
  rewrite file_values_no_tombs by reflexivity. cbn [f_data]. apply kv_get_seg_data.
Qed.

(* outputs written from any block stream whose per-key content is [valf] *)
Section Stream.
  Variables (maxe gen seq : N) (stream : list (key * block)) (valf : key -> list tv).
  Hypothesis Hval : forall k, seg_values k stream = valf k.
  Hypothesis Hsorted : forall k, ssorted (valf k).
  Let segs := split_files maxe [] None 0%N stream.
  Let outs := mk_outs gen seq segs.

  Lemma segs_concat : concat segs = stream.
  Proof. unfold segs. rewrite split_files_concat. reflexivity. Qed.

  Lemma stream_outs_overlay k t : overlay k t outs = lookup_last t (valf k).
  Proof. unfold overlay, outs. rewrite mk_outs_flat_values, segs_concat, Hval. reflexivity. Qed.

  Lemma stream_outs_sound o k t v : In o outs -> layer k t o = Some v -> lookup_last t (valf k) = Some v.
  Proof.
    intros Ho Hl. unfold outs in Ho. apply in_mk_outs in Ho.
    destruct Ho as [seg [i [Hseg [_ [_ [_ [Hd Ht]]]]]]].
    unfold layer in Hl. rewrite (file_values_no_tombs _ _ Ht), Hd, kv_get_seg_data in Hl.
    apply lookup_last_in in Hl.
    apply (in_sorted_lookup t v _ (Hsorted k)).
    rewrite <- Hval, <- segs_concat.
    apply in_seg_values_concat. exists seg. split; assumption.
  Qed.

  Lemma stream_outs_complete k t v :
    lookup_last t (valf k) = Some v -> exists o, In o outs /\ layer k t o = Some v.
  Proof.
    intros Hm. pose proof Hm as Hm0. apply lookup_last_in in Hm.
    rewrite <- Hval, <- segs_concat in Hm.
    apply in_seg_values_concat in Hm. destruct Hm as [seg [Hseg Hin]].
    destruct (mk_outs_in gen segs seq seg Hseg) as [o [Ho [Hd Ht]]].
    exists o. split; [exact Ho|].
    destruct (layer k t o) as [v'|] eqn:E.
    - pose proof (stream_outs_sound o k t v' Ho E) as E2. congruence.
    - exfalso. unfold layer in E. rewrite (file_values_no_tombs _ _ Ht), Hd, kv_get_seg_data in E.
      apply (in_lookup_last_some t v _ Hin). assumption.
  Qed.
End Stream.

Lemma outs_sound maxe size group o k t v :
  In o (compact_with maxe size group) -> layer k t o = Some v -> overlay k t group = Some v.
Proof.
  intros Ho Hl. rewrite overlay_group_merged.
  eapply (stream_outs_sound maxe _ _ (compact_stream (eff_size size) group) (merged_values group)); eauto.
  - intros k0. apply seg_values_compact_stream, eff_size_pos.
  - intros k0. apply files_values_sorted.
Qed.

Lemma outs_complete maxe size group k t v :
  overlay k t group = Some v -> exists o, In o (compact_with maxe size group) /\ layer k t o = Some v.
Proof.
  intros Hm. rewrite overlay_group_merged in Hm.
  eapply (stream_outs_complete maxe _ _ (compact_stream (eff_size size) group) (merged_values group)); eauto.
  - intros k0. apply seg_values_compact_stream, eff_size_pos.
  - intros k0. apply files_values_sorted.
Qed.

(* ---------- names of the outputs ---------- *)

Definition name_leb (a b : name) : bool := negb (name_ltb b a).

Lemma max_gen_seq_step (acc : name) f :
  let acc1 := if (fst acc <? f_gen f)%N then (f_gen f, f_seq f) else acc in
  let acc2 := if (f_gen f =? fst acc1)%N && (snd acc1 <? f_seq f)%N then (fst acc1, f_seq f) else acc1 in
  name_leb acc acc2 = true /\ name_leb (fname f) acc2 = true.
Proof.
  destruct acc as [g s]. unfold name_leb, name_ltb, fname. cbn [fst snd].
  destruct (N.ltb_spec g (f_gen f)); cbn [fst snd].
  - rewrite N.eqb_refl. cbn [andb]. destruct (N.ltb_spec (f_seq f) (f_seq f)); [lia|]. cbn [fst snd]. lia.
  - destruct (N.eqb_spec (f_gen f) g); cbn [andb].
    + destruct (N.ltb_spec s (f_seq f)); cbn [fst snd]; lia.
    + cbn [fst snd]. lia.
Qed.

Lemma name_leb_trans a b c : name_leb a b = true -> name_leb b c = true -> name_leb a c = true.
Proof. destruct a, b, c. unfold name_leb, name_ltb; cbn [fst snd]. lia. Qed.

Lemma name_leb_refl a : name_leb a a = true.
Proof. unfold name_leb. rewrite name_ltb_irrefl. reflexivity. Qed.

Lemma max_gen_seq_ge group : forall g, In g group -> name_leb (fname g) (max_gen_seq group) = true.
Proof.
  unfold max_gen_seq.
  assert (G : forall acc,
            let res := fold_left (fun (acc : name) f =>
               let acc1 := if (fst acc <? f_gen f)%N then (f_gen f, f_seq f) else acc in
               if (f_gen f =? fst acc1)%N && (snd acc1 <? f_seq f)%N then (fst acc1, f_seq f) else acc1) group acc in
            name_leb acc res = true /\ forall g, In g group -> name_leb (fname g) res = true).
  { induction group as [|f r IH]; intros acc; cbn [fold_left].
    - split; [apply name_leb_refl|intros ? []].
    - destruct (max_gen_seq_step acc f) as [S1 S2]. cbn zeta in S1, S2.
      destruct (IH (if (f_gen f =? fst (if (fst acc <? f_gen f)%N then (f_gen f, f_seq f) else acc))%N &&
                       (snd (if (fst acc <? f_gen f)%N then (f_gen f, f_seq f) else acc) <? f_seq f)%N
                    then (fst (if (fst acc <? f_gen f)%N then (f_gen f, f_seq f) else acc), f_seq f)
                    else if (fst acc <? f_gen f)%N then (f_gen f, f_seq f) else acc)) as [I1 I2].
      split.
      + eapply name_leb_trans; eassumption.
      + intros g [<-|Hg]; [eapply name_leb_trans; eassumption|apply I2; assumption]. }
  intros g Hg. apply (G (0%N, 0%N)). assumption.
Qed.

Lemma mk_outs_sorted gen segs : forall seq, nsorted (mk_outs gen seq segs).
Proof.
  induction segs as [|s r IH]; intros seq; cbn [mk_outs nsorted]; [exact I|].
  split; [|apply IH]. intros g Hg. apply in_mk_outs in Hg.
  destruct Hg as [_ [i [_ [Hg [Hq _]]]]].
  unfold name_ltb, fname. cbn [fst snd f_gen f_seq]. rewrite Hg, Hq. lia.
Qed.

Lemma compact_outs_sorted maxe size group : nsorted (compact_with maxe size group).
Proof. apply mk_outs_sorted. Qed.

Lemma compact_outs_newer maxe size group o g :
  In o (compact_with maxe size group) -> In g group -> name_ltb (fname g) (fname o) = true.
Proof.
  intros Ho Hg. apply in_mk_outs in Ho. destruct Ho as [_ [i [_ [Hgen [Hseq _]]]]].
  pose proof (max_gen_seq_ge group g Hg) as L. destruct (max_gen_seq group) as [G S].
  unfold name_leb, name_ltb, fname in *. cbn [fst snd] in *. rewrite Hgen, Hseq. lia.
Qed.

(* the outputs have fresh names when the group holds every file of its newest generation *)
Lemma compact_outs_fresh maxe size fs group o s :
  whole_last_generation fs group = true ->
  In o (compact_with maxe size group) -> In s fs -> fname o <> fname s.
Proof.
  intros Hw Ho Hs Heq. apply in_mk_outs in Ho.
  destruct Ho as [_ [i [_ [Hgen [Hseq _]]]]].
  unfold whole_last_generation in Hw. rewrite forallb_forall in Hw. specialize (Hw s Hs).
  assert (f_gen s = fst (max_gen_seq group)) as Eg.
  { unfold fname in Heq. inversion Heq. congruence. }
  rewrite Eg, N.eqb_refl in Hw. cbn [negb orb] in Hw.
  apply in_names_true in Hw. destruct Hw as [g [Hg Hn]].
  pose proof (max_gen_seq_ge group g Hg) as L. rewrite Hn in L.
  destruct (max_gen_seq group) as [G S]. unfold fname in Heq. inversion Heq as [[H1 H2]].
  unfold name_leb, name_ltb, fname in L. cbn [fst snd] in *. rewrite <- H1, <- H2, Hgen, Hseq in L. lia.
Qed.
