(* C09/PlannerProofs.v — every group handed out by the model of DefaultPlanner.PlanLevel
   (C09/Planner.v) satisfies the hypotheses of compact_preserves_reads_contiguous against the
   file set it was planned on: a group is a run of CONSECUTIVE generations of the
   generation list (an in-use generation ends a group, nothing else is skipped), chunk()
   cuts runs into consecutive sub-runs, and every generation contributes ALL its files. *)
From Verif Require Import Shard.Store C09.Model C09.Run C09.ProofsA C09.ProofsC C09.ProofsD C09.Planner.
From Coq Require Import ZifyBool ZifyNat ZifyN Lia.
Open Scope Z_scope.

(* ---------- consecutive, non-overlapping segments of a list, in order ---------- *)

Section Runs.
  Context {A : Type}.

  Inductive runs_of : list A -> list (list A) -> Prop :=
  | ro_nil l : runs_of l []
  | ro_cons a r rest rs : runs_of rest rs -> runs_of (a ++ r ++ rest) (r :: rs).

  Lemma runs_of_skip a l rs : runs_of l rs -> runs_of (a ++ l) rs.
  Proof.
    intros H. destruct H as [l|a' r rest rs H]; [constructor|].
    rewrite app_assoc. constructor. exact H.
  Qed.

  Lemma runs_of_head r rest rs : runs_of rest rs -> runs_of (r ++ rest) (r :: rs).
  Proof. intros H. apply (ro_cons [] r rest rs H). Qed.

  Lemma runs_of_filter_front p : forall X l rs, runs_of l (X ++ rs) -> runs_of l (filter p X ++ rs).
  Proof.
    induction X as [|r X IH]; intros l rs H; cbn [filter app] in *; [exact H|].
    inversion H as [|a r' rest rs' Hrest]; subst.
    destruct (p r); cbn [app].
    - constructor. apply IH. exact Hrest.
    - rewrite app_assoc. apply runs_of_skip. apply IH. exact Hrest.
  Qed.

  Lemma runs_of_filter p l rs : runs_of l rs -> runs_of l (filter p rs).
  Proof.
    intros H. rewrite <- (app_nil_r (filter p rs)). apply runs_of_filter_front.
    rewrite app_nil_r. exact H.
  Qed.

  Lemma runs_of_segment l rs r : runs_of l rs -> In r rs -> exists a b, l = a ++ r ++ b.
  Proof.
    induction 1 as [l|a r0 rest rs H IH]; intros Hin; [destruct Hin|].
    destruct Hin as [<-|Hin]; [exists a, rest; reflexivity|].
    destruct (IH Hin) as [a' [b ->]]. exists (a ++ r0 ++ a'), b.
    rewrite <- !app_assoc. reflexivity.
  Qed.

  Lemma runs_of_incl l rs : runs_of l rs -> forall x, In x (concat rs) -> In x l.
  Proof.
    induction 1 as [l|a r rest rs H IH]; intros x Hx; cbn [concat] in Hx; [destruct Hx|].
    rewrite !in_app_iff. apply in_app_iff in Hx. destruct Hx as [Hx|Hx]; auto.
  Qed.

  Lemma NoDup_app_inv (a b : list A) :
    NoDup (a ++ b) -> NoDup a /\ NoDup b /\ (forall x, In x a -> ~ In x b).
  Proof.
    induction a as [|x a IH]; cbn [app]; intros H.
    - split; [constructor|split; [exact H|intros x []]].
    - inversion H as [|? ? Hnot Hnd]; subst. destruct (IH Hnd) as [Ha [Hb Hd]].
      split; [|split; [exact Hb|]].
      + constructor; [|exact Ha]. intros Hin. apply Hnot. apply in_app_iff. left; exact Hin.
      + intros y [<-|Hy]; [|apply Hd; exact Hy]. intros Hin. apply Hnot. apply in_app_iff. right; exact Hin.
  Qed.

  Lemma NoDup_app_intro (a b : list A) :
    NoDup a -> NoDup b -> (forall x, In x a -> ~ In x b) -> NoDup (a ++ b).
  Proof.
    induction a as [|x a IH]; cbn [app]; intros Ha Hb Hd; [exact Hb|].
    inversion Ha as [|? ? Hnot Hnd]; subst. constructor.
    - intros Hin. apply in_app_iff in Hin. destruct Hin as [Hin|Hin]; [auto|].
      apply (Hd x); [left; reflexivity|exact Hin].
    - apply IH; [exact Hnd|exact Hb|]. intros y Hy. apply Hd. right; exact Hy.
  Qed.

  Lemma runs_of_nodup l rs : runs_of l rs -> NoDup l -> NoDup (concat rs).
  Proof.
    induction 1 as [l|a r rest rs H IH]; intros Hnd; cbn [concat]; [constructor|].
    apply NoDup_app_inv in Hnd. destruct Hnd as [_ [Hnd _]].
    apply NoDup_app_inv in Hnd. destruct Hnd as [Hr [Hrest Hd]].
    apply NoDup_app_intro; [exact Hr|apply IH; exact Hrest|].
    intros x Hx Hin. apply (Hd x Hx). apply (runs_of_incl rest rs H). exact Hin.
  Qed.

  Lemma runs_of_flat_map (F : list A -> list (list A)) :
    (forall a rest rs, runs_of rest rs -> runs_of (a ++ rest) (F a ++ rs)) ->
    forall l rs, runs_of l rs -> runs_of l (flat_map F rs).
  Proof.
    intros HF l rs H. induction H as [l|a r rest rs H IH]; cbn [flat_map]; [constructor|].
    apply runs_of_skip. apply HF. exact IH.
  Qed.
End Runs.

Lemma runs_of_hom {A B} (f : list A -> list B) :
  (forall a b, f (a ++ b) = f a ++ f b) ->
  forall l rs, runs_of l rs -> runs_of (f l) (map f rs).
Proof.
  intros Hf l rs H. induction H as [l|a r rest rs H IH]; cbn [map]; [constructor|].
  rewrite !Hf. constructor. exact IH.
Qed.

Lemma nodup_map_inj {A B} (f : A -> B) (l : list A) x y :
  NoDup (map f l) -> In x l -> In y l -> f x = f y -> x = y.
Proof.
  induction l as [|z l IH]; intros Hnd Hx Hy Heq; [destruct Hx|].
  cbn [map] in Hnd. inversion Hnd as [|? ? Hnot Hnd']; subst.
  destruct Hx as [<-|Hx], Hy as [<-|Hy]; auto.
  - exfalso. apply Hnot. rewrite Heq. apply in_map. exact Hy.
  - exfalso. apply Hnot. rewrite <- Heq. apply in_map. exact Hx.
Qed.

(* ---------- chunk() ---------- *)

Lemma chunk_fuel_runs size : forall fuel a rest rs,
  runs_of rest rs -> runs_of (a ++ rest) (chunk_fuel fuel size a ++ rs).
Proof.
  induction fuel as [|f IH]; intros a rest rs H; cbn [chunk_fuel app].
  - apply runs_of_skip. exact H.
  - destruct a as [|x a']; [exact H|]. set (a := x :: a').
    destruct (Nat.leb size (length a)).
    + cbn [app]. replace (a ++ rest) with (firstn size a ++ (skipn size a ++ rest))
        by (rewrite app_assoc, firstn_skipn; reflexivity).
      apply runs_of_head. apply IH. exact H.
    + cbn [app]. apply runs_of_head. exact H.
Qed.

Lemma chunk_fuel_nonempty size : (1 <= size)%nat -> forall fuel a c,
  In c (chunk_fuel fuel size a) -> c <> [].
Proof.
  intros Hs. induction fuel as [|f IH]; intros a c Hin; cbn [chunk_fuel] in Hin; [destruct Hin|].
  destruct a as [|x a']; [destruct Hin|].
  destruct (Nat.leb size (length (x :: a'))).
  - destruct Hin as [<-|Hin]; [|apply (IH _ _ Hin)].
    destruct size as [|n]; [lia|]. cbn [firstn]. discriminate.
  - destruct Hin as [<-|[]]. discriminate.
Qed.

(* the fuel of chunk_gens suffices: no generation is lost *)
Lemma chunk_fuel_concat size : (1 <= size)%nat -> forall fuel a,
  (length a <= fuel)%nat -> concat (chunk_fuel fuel size a) = a.
Proof.
  intros Hs. induction fuel as [|f IH]; intros a Hl; cbn [chunk_fuel].
  - destruct a; [reflexivity|cbn [length] in Hl; lia].
  - destruct a as [|x a']; [reflexivity|]. set (a := x :: a') in *.
    destruct (Nat.leb size (length a)) eqn:E.
    + cbn [concat]. rewrite IH; [apply firstn_skipn|].
      rewrite skipn_length. apply Nat.leb_le in E. lia.
    + cbn [concat]. apply app_nil_r.
Qed.

Lemma chunk_gens_concat size a : (1 <= size)%nat -> concat (chunk_gens size a) = a.
Proof. intros Hs. apply chunk_fuel_concat; [exact Hs|apply Nat.le_refl]. Qed.

Lemma min_generations_pos level : (1 <= min_generations level)%nat.
Proof. unfold min_generations. destruct (level =? 1)%N; lia. Qed.

(* ---------- the grouping loop ---------- *)

Lemma app_one_neq_nil {A} (l : list A) x : l ++ [x] <> [].
Proof. destruct l; discriminate. Qed.

Lemma group_loop_spec : forall gens,
  runs_of gens (group_loop gens []) /\
  (forall cur, cur <> [] ->
     exists x rest rs, gens = x ++ rest /\ group_loop gens cur = (cur ++ x) :: rs /\ runs_of rest rs).
Proof.
  induction gens as [|g rest [IH0 IH1]].
  - split; [constructor|]. intros cur Hne. exists [], [], [].
    cbn [group_loop app]. rewrite app_nil_r. destruct cur; [congruence|]. repeat split. constructor.
  - assert (Happ : forall cur, exists x rest' rs,
               rest = x ++ rest' /\ group_loop rest (cur ++ [g]) = ((cur ++ [g]) ++ x) :: rs /\ runs_of rest' rs).
    { intros cur. apply IH1. apply app_one_neq_nil. }
    split.
    + cbn [group_loop]. destruct (g_inuse g).
      { apply (runs_of_skip [g]). exact IH0. }
      destruct (match rest with nxt :: _ => negb (g_inuse nxt) && (g_level g <? g_level nxt)%N | [] => false end).
      * destruct (Happ []) as [x [rest' [rs [-> [E H]]]]]. cbn [app] in E |- *. rewrite E.
        apply (runs_of_head (g :: x)). exact H.
      * destruct (Happ []) as [x [rest' [rs [-> [E H]]]]]. cbn [app] in E |- *. rewrite E.
        apply (runs_of_head (g :: x)). exact H.
    + intros cur Hne. cbn [group_loop]. destruct (g_inuse g).
      { exists [], (g :: rest), (group_loop rest []). rewrite app_nil_r.
        destruct cur; [congruence|]. repeat split. apply (runs_of_skip [g]). exact IH0. }
      assert (Hjoin : exists x rest0 rs, g :: rest = x ++ rest0 /\
                        group_loop rest (cur ++ [g]) = (cur ++ x) :: rs /\ runs_of rest0 rs).
      { destruct (Happ cur) as [x [rest' [rs [-> [E H]]]]].
        exists (g :: x), rest', rs. rewrite E, <- app_assoc. repeat split. exact H. }
      destruct (match rest with nxt :: _ => negb (g_inuse nxt) && (g_level g <? g_level nxt)%N | [] => false end);
        [exact Hjoin|].
      destruct cur as [|c0 cur']; [congruence|].
      destruct (gens_level (c0 :: cur') =? g_level g)%N; [exact Hjoin|].
      exists [], (g :: rest), (group_loop rest [g]). rewrite app_nil_r. repeat split.
      destruct (IH1 [g]) as [x [rest' [rs [-> [E H]]]]]; [discriminate|].
      rewrite E. cbn [app]. apply (runs_of_head (g :: x)). exact H.
Qed.

Lemma group_loop_props : forall gens cur,
  (forall g, In g cur -> g_inuse g = false) ->
  forall r, In r (group_loop gens cur) ->
    r <> [] /\ (forall g, In g r -> g_inuse g = false).
Proof.
  induction gens as [|g rest IH]; intros cur Hcur r Hin; cbn [group_loop] in Hin.
  - destruct cur as [|c0 cur']; [destruct Hin|]. destruct Hin as [<-|[]]. split; [discriminate|exact Hcur].
  - assert (Hnil : forall x : pgen, In x [] -> g_inuse x = false) by (intros x []).
    destruct (g_inuse g) eqn:Eu.
    { destruct cur as [|c0 cur'].
      - apply (IH [] Hnil r Hin).
      - destruct Hin as [<-|Hin]; [split; [discriminate|exact Hcur]|apply (IH [] Hnil r Hin)]. }
    assert (Hcg : forall x, In x (cur ++ [g]) -> g_inuse x = false).
    { intros x Hx. apply in_app_iff in Hx. destruct Hx as [Hx|[<-|[]]]; auto. }
    destruct (match rest with nxt :: _ => negb (g_inuse nxt) && (g_level g <? g_level nxt)%N | [] => false end).
    { apply (IH _ Hcg r Hin). }
    destruct cur as [|c0 cur'].
    { apply (IH _ Hcg r Hin). }
    destruct (gens_level (c0 :: cur') =? g_level g)%N.
    { apply (IH _ Hcg r Hin). }
    destruct Hin as [<-|Hin].
    + split; [discriminate|exact Hcur].
    + apply (IH [g]); [|exact Hin]. intros x [<-|[]]. exact Eu.
Qed.

(* ---------- findGenerations on a Stats list sorted by path ---------- *)

Fixpoint ids_sorted (gs : list pgen) : Prop :=
  match gs with
  | [] => True
  | g :: r => (forall h, In h r -> (g_id g < g_id h)%N) /\ ids_sorted r
  end.

Definition files_ok (gs : list pgen) : Prop :=
  forall g, In g gs -> forall p, In p (g_files g) -> p_gen p = g_id g.

Fixpoint gsorted (l : list pstat) : Prop :=
  match l with
  | [] => True
  | p :: r => (forall q, In q r -> (p_gen p <= p_gen q)%N) /\ gsorted r
  end.

Lemma gen_insert_ids p : forall gs h, In h (gen_insert p gs) ->
  g_id h = p_gen p \/ exists h', In h' gs /\ g_id h' = g_id h.
Proof.
  induction gs as [|g r IH]; intros h Hin; cbn [gen_insert] in Hin.
  - destruct Hin as [<-|[]]. left; reflexivity.
  - destruct (p_gen p <? g_id g)%N.
    { destruct Hin as [<-|Hin]; [left; reflexivity|]. right. exists h. split; [exact Hin|reflexivity]. }
    destruct (p_gen p =? g_id g)%N.
    { destruct Hin as [<-|Hin].
      - right. exists g. split; [left; reflexivity|reflexivity].
      - right. exists h. split; [right; exact Hin|reflexivity]. }
    destruct Hin as [<-|Hin].
    + right. exists g. split; [left; reflexivity|reflexivity].
    + destruct (IH h Hin) as [E|[h' [Hh' E]]]; [left; exact E|].
      right. exists h'. split; [right; exact Hh'|exact E].
Qed.

Lemma gen_insert_spec p : forall gs,
  ids_sorted gs -> files_ok gs -> (forall g, In g gs -> (g_id g <= p_gen p)%N) ->
  flat_map g_files (gen_insert p gs) = flat_map g_files gs ++ [p] /\
  ids_sorted (gen_insert p gs) /\ files_ok (gen_insert p gs).
Proof.
  induction gs as [|g r IH]; intros Hs Hf Hle; cbn [gen_insert].
  - cbn [flat_map app g_files g_first g_rest ids_sorted]. split; [reflexivity|split].
    + split; [intros h []|exact I].
    + intros h [<-|[]] q [<-|[]]. reflexivity.
  - pose proof (Hle g (or_introl eq_refl)) as Hg.
    destruct (p_gen p <? g_id g)%N eqn:E1; [lia|].
    destruct Hs as [Hs1 Hs2].
    destruct (p_gen p =? g_id g)%N eqn:E2.
    + destruct r as [|h r'].
      2:{ exfalso. pose proof (Hs1 h (or_introl eq_refl)). pose proof (Hle h (or_intror (or_introl eq_refl))). lia. }
      cbn [flat_map app]. unfold g_files at 1. cbn [g_first g_rest]. rewrite !app_nil_r.
      split; [reflexivity|split].
      * cbn [ids_sorted]. split; [intros h []|exact I].
      * intros h [<-|[]] q Hq. cbn [g_id]. unfold g_files in Hq. cbn [g_first g_rest] in Hq.
        destruct Hq as [<-|Hq].
        { apply (Hf g (or_introl eq_refl)). left; reflexivity. }
        apply in_app_iff in Hq. destruct Hq as [Hq|[<-|[]]]; [|lia].
        apply (Hf g (or_introl eq_refl)). right; exact Hq.
    + assert (Hf' : files_ok r) by (intros h Hh; apply Hf; right; exact Hh).
      assert (Hle' : forall h, In h r -> (g_id h <= p_gen p)%N) by (intros h Hh; apply Hle; right; exact Hh).
      destruct (IH Hs2 Hf' Hle') as [I1 [I2 I3]].
      cbn [flat_map]. rewrite I1, app_assoc. split; [reflexivity|split].
      * cbn [ids_sorted]. split; [|exact I2]. intros h Hh.
        destruct (gen_insert_ids p r h Hh) as [E|[h' [Hh' E]]]; [lia|].
        rewrite <- E. apply Hs1. exact Hh'.
      * intros h [<-|Hh]; [apply Hf; left; reflexivity|apply I3; exact Hh].
Qed.

Lemma gen_insert_le p gs : (forall g, In g gs -> (g_id g <= p_gen p)%N) ->
  forall h, In h (gen_insert p gs) -> (g_id h <= p_gen p)%N.
Proof.
  intros Hle h Hh. destruct (gen_insert_ids p gs h Hh) as [E|[h' [Hh' E]]]; [lia|].
  rewrite <- E. apply Hle. exact Hh'.
Qed.

Lemma find_generations_fold : forall stats gs0,
  gsorted stats -> ids_sorted gs0 -> files_ok gs0 ->
  (forall g q, In g gs0 -> In q stats -> (g_id g <= p_gen q)%N) ->
  let gs := fold_left (fun gs p => gen_insert p gs) stats gs0 in
  flat_map g_files gs = flat_map g_files gs0 ++ stats /\ ids_sorted gs /\ files_ok gs.
Proof.
  induction stats as [|p r IH]; intros gs0 Hg Hs Hf Hle; cbn [fold_left].
  - rewrite app_nil_r. auto.
  - destruct Hg as [Hg1 Hg2].
    assert (Hlep : forall g, In g gs0 -> (g_id g <= p_gen p)%N)
      by (intros g Hin; apply (Hle g p Hin); left; reflexivity).
    destruct (gen_insert_spec p gs0 Hs Hf Hlep) as [I1 [I2 I3]].
    specialize (IH (gen_insert p gs0) Hg2 I2 I3). cbn zeta in IH.
    destruct IH as [J1 [J2 J3]].
    + intros g q Hin Hq. pose proof (gen_insert_le p gs0 Hlep g Hin). specialize (Hg1 q Hq). lia.
    + cbn zeta. rewrite J1, I1, <- app_assoc. cbn [app]. auto.
Qed.

Lemma find_generations_spec stats : gsorted stats ->
  flat_map g_files (find_generations stats) = stats /\
  ids_sorted (find_generations stats) /\ files_ok (find_generations stats).
Proof.
  intros Hg. unfold find_generations.
  destruct (find_generations_fold stats [] Hg I) as [H1 [H2 H3]].
  - intros g [].
  - intros g q [].
  - cbn zeta in H1. cbn [flat_map app] in H1. auto.
Qed.

Lemma ids_sorted_app a b : ids_sorted (a ++ b) ->
  ids_sorted a /\ ids_sorted b /\ (forall x y, In x a -> In y b -> (g_id x < g_id y)%N).
Proof.
  induction a as [|g a IH]; cbn [app ids_sorted]; intros H.
  - split; [exact I|split; [exact H|intros x y []]].
  - destruct H as [H1 H2]. destruct (IH H2) as [Ha [Hb Hab]].
    split; [|split; [exact Hb|]].
    + split; [|exact Ha]. intros h Hh. apply H1. apply in_app_iff. left; exact Hh.
    + intros x y [<-|Hx] Hy; [|apply Hab; assumption]. apply H1. apply in_app_iff. right; exact Hy.
Qed.

(* ---------- the chunks planned by PlanLevel ---------- *)

Lemma plan_chunks_runs stats level : runs_of (find_generations stats) (plan_chunks stats level).
Proof.
  unfold plan_chunks. cbn zeta.
  destruct (Nat.leb (length (find_generations stats)) 1 && negb (gens_tomb (find_generations stats)));
    [constructor|].
  apply runs_of_flat_map.
  - intros a rest rs H. apply runs_of_filter_front. apply chunk_fuel_runs. exact H.
  - apply runs_of_filter. apply (proj1 (group_loop_spec _)).
Qed.

Lemma plan_chunks_props stats level ch : In ch (plan_chunks stats level) ->
  ch <> [] /\ (forall g, In g ch -> g_inuse g = false).
Proof.
  unfold plan_chunks. cbn zeta.
  destruct (Nat.leb (length (find_generations stats)) 1 && negb (gens_tomb (find_generations stats)));
    [intros []|].
  intros Hin. apply in_flat_map in Hin. destruct Hin as [grp [Hgrp Hch]].
  apply filter_In in Hgrp. destruct Hgrp as [Hgrp _].
  apply filter_In in Hch. destruct Hch as [Hch _].
  destruct (group_loop_props (find_generations stats) [] (fun x (H : In x []) => match H with end) grp Hgrp)
    as [_ Hfree].
  split.
  - apply (chunk_fuel_nonempty _ (min_generations_pos level) _ _ _ Hch).
  - intros g Hg. apply Hfree.
    rewrite <- (chunk_gens_concat (min_generations level) grp (min_generations_pos level)).
    apply in_concat. exists ch. split; [exact Hch|exact Hg].
Qed.

Lemma plan_level_in force stats level g : In g (plan_level force stats level) ->
  exists ch, In ch (plan_chunks stats level) /\ g = map pname (chunk_files ch) /\
             (forall p, In p (chunk_files ch) -> p_inuse p = false).
Proof.
  unfold plan_level. destruct force; [intros []|]. cbn zeta.
  destruct (existsb (existsb p_inuse) (map chunk_files (plan_chunks stats level))) eqn:E; [intros []|].
  intros Hin. rewrite map_map in Hin. apply in_map_iff in Hin. destruct Hin as [ch [<- Hch]].
  exists ch. split; [exact Hch|split; [reflexivity|]].
  intros p Hp. destruct (p_inuse p) eqn:Ep; [|reflexivity].
  assert (existsb (existsb p_inuse) (map chunk_files (plan_chunks stats level)) = true); [|congruence].
  apply existsb_exists. exists (chunk_files ch). split; [apply in_map; exact Hch|].
  apply existsb_exists. exists p. auto.
Qed.

Lemma plan_level_runs force stats level : gsorted stats ->
  runs_of (map pname stats) (plan_level force stats level).
Proof.
  intros Hg. unfold plan_level. destruct force; [constructor|]. cbn zeta.
  destruct (existsb (existsb p_inuse) (map chunk_files (plan_chunks stats level))); [constructor|].
  apply (runs_of_hom (map pname)); [intros a b; apply map_app|].
  rewrite <- (proj1 (find_generations_spec stats Hg)) at 1.
  apply (runs_of_hom (flat_map g_files)); [intros a b; apply flat_map_app|].
  apply plan_chunks_runs.
Qed.

(* ---------- from names back to the files of the directory ---------- *)

Lemma name_ltb_gen_le a b : name_ltb a b = true -> (fst a <= fst b)%N.
Proof. destruct a, b. unfold name_ltb; cbn [fst snd]. lia. Qed.

Lemma nsorted_app a b : nsorted (a ++ b) ->
  nsorted a /\ nsorted b /\ (forall x y, In x a -> In y b -> name_ltb (fname x) (fname y) = true).
Proof.
  induction a as [|f a IH]; cbn [app nsorted]; intros H.
  - split; [exact I|split; [exact H|intros x y []]].
  - destruct H as [H1 H2]. destruct (IH H2) as [Ha [Hb Hab]].
    split; [|split; [exact Hb|]].
    + split; [|exact Ha]. intros h Hh. apply H1. apply in_app_iff. left; exact Hh.
    + intros x y [<-|Hx] Hy; [|apply Hab; assumption]. apply H1. apply in_app_iff. right; exact Hy.
Qed.

Lemma stats_gsorted : forall stats fs, map pname stats = map fname fs -> nsorted fs -> gsorted stats.
Proof.
  induction stats as [|p r IH]; intros fs Hmap Hs; [exact I|].
  destruct fs as [|f fs']; [discriminate|]. cbn [map] in Hmap.
  assert (Hp : pname p = fname f) by congruence.
  assert (Hr : map pname r = map fname fs') by congruence.
  destruct Hs as [Hs1 Hs2]. cbn [gsorted]. split; [|apply (IH fs' Hr Hs2)].
  intros q Hq. assert (Hin : In (pname q) (map fname fs')) by (rewrite <- Hr; apply in_map; exact Hq).
  apply in_map_iff in Hin. destruct Hin as [f' [Ef' Hf']].
  pose proof (name_ltb_gen_le _ _ (Hs1 f' Hf')) as L. rewrite Ef', <- Hp in L. exact L.
Qed.

Lemma filter_name_none x l : (forall f, In f l -> fname f <> fname x) ->
  filter (fun f => name_eqb (fname f) (fname x)) l = [].
Proof.
  induction l as [|h l IH]; intros H; cbn [filter]; [reflexivity|].
  destruct (name_eqb (fname h) (fname x)) eqn:E.
  - apply name_eqb_eq in E. exfalso. apply (H h); [left; reflexivity|exact E].
  - apply IH. intros f Hf. apply H. right; exact Hf.
Qed.

Lemma filter_name_unique : forall fs x, names_nodup fs -> In x fs ->
  filter (fun f => name_eqb (fname f) (fname x)) fs = [x].
Proof.
  unfold names_nodup. induction fs as [|h fs IH]; intros x Hnd Hx; [destruct Hx|].
  cbn [map] in Hnd. inversion Hnd as [|? ? Hnot Hnd']; subst. cbn [filter].
  destruct Hx as [<-|Hx].
  - rewrite name_eqb_refl. f_equal. apply filter_name_none.
    intros f Hf Heq. apply Hnot. rewrite <- Heq. apply in_map. exact Hf.
  - destruct (name_eqb (fname h) (fname x)) eqn:E; [|apply IH; assumption].
    apply name_eqb_eq in E. exfalso. apply Hnot. rewrite E. apply in_map. exact Hx.
Qed.

Lemma pick_group_segment fs : names_nodup fs -> forall grp,
  (forall x, In x grp -> In x fs) -> pick_group fs (map fname grp) = grp.
Proof.
  intros Hnd. unfold pick_group. induction grp as [|x grp IH]; intros Hsub; cbn [map flat_map]; [reflexivity|].
  rewrite (filter_name_unique fs x Hnd (Hsub x (or_introl eq_refl))).
  rewrite IH; [reflexivity|]. intros y Hy. apply Hsub. right; exact Hy.
Qed.

Lemma gen_of_name G x : files_ok G ->
  In (fname x) (map pname (flat_map g_files G)) -> exists h, In h G /\ g_id h = f_gen x.
Proof.
  intros Hok Hin. apply in_map_iff in Hin. destruct Hin as [p [Ep Hp]].
  apply in_flat_map in Hp. destruct Hp as [h [Hh Hph]]. exists h. split; [exact Hh|].
  rewrite <- (Hok h Hh p Hph). unfold pname, fname in Ep. inversion Ep. reflexivity.
Qed.

Lemma files_ok_app a b : files_ok (a ++ b) -> files_ok a /\ files_ok b.
Proof.
  unfold files_ok. intros H. split; intros g Hg; apply H; apply in_app_iff; [left|right]; exact Hg.
Qed.

(* ---------- the theorem ---------- *)

Theorem planned_groups_satisfy_hypothesis_thm :
  forall (fs : list tsmfile) (stats : list pstat) (force : bool) (level : N),
    names_nodup fs -> nsorted fs ->
    map pname stats = map fname fs ->
    (forall g, In g (plan_level force stats level) ->
       let grp := pick_group fs g in
       map fname grp = g /\ (forall x, In x grp -> In x fs) /\ nsorted grp /\
       whole_last_generation fs grp = true /\ contiguous fs grp /\
       (forall p, In p stats -> In (pname p) g -> p_inuse p = false)) /\
    NoDup (concat (plan_level force stats level)).
Proof.
  intros fs stats force level Hnd Hns Hmap.
  assert (Hgs : gsorted stats) by (apply (stats_gsorted stats fs Hmap Hns)).
  assert (Hndp : NoDup (map pname stats)) by (rewrite Hmap; exact Hnd).
  split; [|apply (runs_of_nodup _ _ (plan_level_runs force stats level Hgs) Hndp)].
  intros g Hg.
  destruct (plan_level_in force stats level g Hg) as [ch [Hch [Eg Hfree]]].
  destruct (plan_chunks_props stats level ch Hch) as [Hchne _].
  destruct (runs_of_segment _ _ ch (plan_chunks_runs stats level) Hch) as [GA [GB Egens]].
  destruct (find_generations_spec stats Hgs) as [Hflat [Hids Hfok]].
  rewrite Egens in Hflat, Hids, Hfok. rewrite !flat_map_app in Hflat.
  fold (chunk_files ch) in Hflat.
  assert (Hnames : map fname fs = map pname (flat_map g_files GA) ++ g ++ map pname (flat_map g_files GB)).
  { rewrite <- Hmap, <- Hflat, !map_app, Eg. reflexivity. }
  apply map_eq_app in Hnames. destruct Hnames as [A [R [Efs [EA ER]]]].
  apply map_eq_app in ER. destruct ER as [grp [B [ER [Egrp EB]]]]. subst R.
  assert (Hsub : forall x, In x grp -> In x fs).
  { intros x Hx. rewrite Efs, !in_app_iff. auto. }
  assert (Hpick : pick_group fs g = grp).
  { rewrite <- Egrp. apply pick_group_segment; assumption. }
  cbn zeta. rewrite Hpick.
  rewrite Efs in Hns. destruct (nsorted_app _ _ Hns) as [_ [HnsR HAR]].
  destruct (nsorted_app _ _ HnsR) as [Hnsgrp [_ HgB]].
  destruct (files_ok_app _ _ Hfok) as [HokA HokR]. destruct (files_ok_app _ _ HokR) as [Hokch HokB].
  destruct (ids_sorted_app _ _ Hids) as [_ [HidsR HidA]].
  destruct (ids_sorted_app _ _ HidsR) as [_ [_ HidB]].
  split; [exact Egrp|split; [exact Hsub|split; [exact Hnsgrp|split; [|split]]]].
  - (* whole_last_generation *)
    assert (Hgne : grp <> []).
    { intros ->. cbn [map] in Egrp. rewrite <- Egrp in Eg.
      destruct ch as [|c0 ch']; [congruence|]. unfold chunk_files, g_files in Eg. cbn [flat_map app map] in Eg.
      discriminate. }
    destruct (max_gen_seq_attained grp Hgne) as [m [Hm Em]].
    assert (Hmg : exists h, In h ch /\ g_id h = f_gen m).
    { apply gen_of_name; [exact Hokch|]. fold (chunk_files ch). rewrite <- Eg, <- Egrp. apply in_map. exact Hm. }
    destruct Hmg as [hm [Hhm Ehm]].
    unfold whole_last_generation. apply forallb_forall. intros s Hs.
    rewrite <- Em. unfold fname at 1. cbn [fst].
    rewrite Efs, !in_app_iff in Hs. destruct Hs as [Hs|[Hs|Hs]].
    + destruct (gen_of_name GA s HokA) as [h [Hh Eh]]; [rewrite <- EA; apply in_map; exact Hs|].
      assert (g_id h < g_id hm)%N by (apply HidA; [exact Hh|apply in_app_iff; left; exact Hhm]).
      destruct (f_gen s =? f_gen m)%N eqn:E; [lia|reflexivity].
    + assert (in_names (fname s) grp = true) as -> by (apply in_names_true; exists s; auto).
      apply orb_true_r.
    + destruct (gen_of_name GB s HokB) as [h [Hh Eh]]; [rewrite <- EB; apply in_map; exact Hs|].
      assert (g_id hm < g_id h)%N by (apply HidB; assumption).
      destruct (f_gen s =? f_gen m)%N eqn:E; [lia|reflexivity].
  - (* contiguous *)
    intros s Hs Hnot. rewrite Efs, !in_app_iff in Hs. destruct Hs as [Hs|[Hs|Hs]].
    + left. intros x Hx. apply HAR; [exact Hs|apply in_app_iff; left; exact Hx].
    + contradiction.
    + right. intros x Hx. apply HgB; assumption.
  - (* nothing planned is in use *)
    intros p Hp Hin. rewrite Eg in Hin. apply in_map_iff in Hin. destruct Hin as [q [Eq Hq]].
    assert (Hqs : In q stats).
    { rewrite <- Hflat, !in_app_iff. right; left. exact Hq. }
    rewrite <- (nodup_map_inj pname stats q p Hndp Hqs Hp Eq). apply Hfree. exact Hq.
Qed.

(* groups of one plan are pairwise disjoint (a restatement of the NoDup conjunct) *)
Lemma nodup_concat_disjoint {A} : forall (l : list (list A)) i j g1 g2,
  NoDup (concat l) -> i <> j -> nth_error l i = Some g1 -> nth_error l j = Some g2 ->
  forall x, In x g1 -> ~ In x g2.
Proof.
  induction l as [|h l IH]; intros i j g1 g2 Hnd Hij H1 H2 x Hx1 Hx2; [destruct i; discriminate|].
  cbn [concat] in Hnd. apply NoDup_app_inv in Hnd. destruct Hnd as [_ [Hl Hd]].
  destruct i as [|i], j as [|j]; cbn [nth_error] in H1, H2.
  - congruence.
  - inversion H1; subst. apply (Hd x Hx1). apply in_concat. exists g2. split; [eapply nth_error_In; eassumption|exact Hx2].
  - inversion H2; subst. apply (Hd x Hx2). apply in_concat. exists g1. split; [eapply nth_error_In; eassumption|exact Hx1].
  - apply (IH i j g1 g2 Hl (fun e => Hij (f_equal S e)) H1 H2 x Hx1 Hx2).
Qed.

Theorem planned_groups_pairwise_disjoint_thm :
  forall (fs : list tsmfile) (stats : list pstat) (force : bool) (level : N),
    names_nodup fs -> nsorted fs -> map pname stats = map fname fs ->
    forall i j g1 g2, i <> j ->
      nth_error (plan_level force stats level) i = Some g1 ->
      nth_error (plan_level force stats level) j = Some g2 ->
      forall n, In n g1 -> ~ In n g2.
Proof.
  intros fs stats force level Hnd Hns Hmap i j g1 g2.
  apply nodup_concat_disjoint.
  apply (proj2 (planned_groups_satisfy_hypothesis_thm fs stats force level Hnd Hns Hmap)).
Qed.

(* compacting any planned group changes no read *)
Theorem planned_groups_preserve_reads_thm :
  forall (maxe : N) (size : Z) (fs : list tsmfile) (stats : list pstat) (force : bool) (level : N),
    names_nodup fs -> nsorted fs -> map pname stats = map fname fs ->
    forall g, In g (plan_level force stats level) ->
    forall c k lo hi asc,
      store_read (replace_files fs (pick_group fs g) (compact_with maxe size (pick_group fs g))) c k lo hi asc =
      store_read fs c k lo hi asc.
Proof.
  intros maxe size fs stats force level Hnd Hns Hmap g Hg.
  destruct (proj1 (planned_groups_satisfy_hypothesis_thm fs stats force level Hnd Hns Hmap) g Hg)
    as [_ [Hsub [Hs [Hw [Hc _]]]]].
  apply compact_reads_contiguous; assumption.
Qed.

(* ---------- non-vacuity ---------- *)

Definition ex_stat (g s : N) (tomb inuse : bool) : pstat :=
  {| p_gen := g; p_seq := s; p_tomb := tomb; p_inuse := inuse |}.

(* eight level-1 generations and a ninth: the first eight are planned as one group *)
Example plan_level_plans_a_group :
  plan_level false (map (fun g => ex_stat g 1 false false) [1; 2; 3; 4; 5; 6; 7; 8; 9]%N) 1%N
  = [[(1, 1); (2, 1); (3, 1); (4, 1); (5, 1); (6, 1); (7, 1); (8, 1)]]%N.
Proof. vm_compute. reflexivity. Qed.

(* the 59a68bc situation: five level-1 generations (1 and 4 carry a tombstone, so that short
   groups are planned); with generation 3 held by a running compaction the run is split into
   two groups, none of which reaches over generation 3; without it there is one group *)
Definition ex_stats (inuse3 : bool) : list pstat :=
  [ex_stat 1 1 true false; ex_stat 2 1 false false; ex_stat 3 1 false inuse3;
   ex_stat 4 1 true false; ex_stat 5 1 false false]%N.

Example in_use_generation_splits_the_run :
  plan_level false (ex_stats true) 1%N = [[(1, 1); (2, 1)]; [(4, 1); (5, 1)]]%N /\
  plan_level false (ex_stats false) 1%N = [[(1, 1); (2, 1); (3, 1); (4, 1); (5, 1)]]%N.
Proof. split; vm_compute; reflexivity. Qed.

(* level 1 x2, level 2 x1 (tombstone, in use: planned by PlanLevel(2) and kept), level 1 x2 *)
Example in_use_higher_level_splits_the_run :
  plan_level false [ex_stat 1 1 true false; ex_stat 2 1 false false; ex_stat 3 2 true true;
                    ex_stat 4 1 true false; ex_stat 5 1 false false]%N 1%N
  = [[(1, 1); (2, 1)]; [(4, 1); (5, 1)]]%N.
Proof. vm_compute. reflexivity. Qed.

(* the hypotheses of planned_groups_satisfy_hypothesis_thm hold for a concrete directory
   whose generations overwrite each other's point, and the plan is not empty *)
Definition ex_fs : list tsmfile := [wfile 1 1 1; wfile 2 1 2; wfile 3 1 3; wfile 4 1 4; wfile 5 1 5].

Example planner_hypotheses_satisfiable :
  names_nodup ex_fs /\ nsorted ex_fs /\ map pname (ex_stats true) = map fname ex_fs /\
  map (pick_group ex_fs) (plan_level false (ex_stats true) 1%N)
    = [[wfile 1 1 1; wfile 2 1 2]; [wfile 4 1 4; wfile 5 1 5]].
Proof.
  split; [|split; [|split]].
  - unfold names_nodup. cbn. repeat constructor; cbn; intuition discriminate.
  - cbn. repeat split; intros g H; cbn in H; intuition (subst; reflexivity).
  - reflexivity.
  - vm_compute. reflexivity.
Qed.

(* ---------- link: the model's plan satisfies the executable spec of Run.v ---------- *)

Lemma nodup_names_complete l : NoDup l -> nodup_names l = true.
Proof.
  induction 1 as [|n r Hnot Hnd IH]; cbn [nodup_names]; [reflexivity|].
  rewrite IH, andb_true_r. destruct (existsb (name_eqb n) r) eqn:E; [|reflexivity].
  apply existsb_exists in E. destruct E as [m [Hm E]]. apply name_eqb_eq in E. subst m. contradiction.
Qed.

Lemma nsorted_chain l : nsorted l -> chain name_ltb (map fname l) = true.
Proof.
  induction l as [|f r IH]; intros Hs; [reflexivity|]. destruct Hs as [Hf Hr]. cbn [map chain].
  rewrite (IH Hr), andb_true_r. destruct r as [|g r']; [reflexivity|]. cbn [map]. apply Hf. left; reflexivity.
Qed.

(* the five hypotheses of compact_preserves_reads_contiguous imply the decided hypothesis
   of the planner monitor (with the name of the first output file as the only output) *)
Lemma contiguous_hyp_okb fs grp :
  names_nodup fs -> (forall x, In x grp -> In x fs) -> nsorted grp ->
  whole_last_generation fs grp = true -> contiguous fs grp ->
  hyp_okb fs grp [(fst (max_gen_seq grp), (snd (max_gen_seq grp) + 1)%N)] = true.
Proof.
  intros Hnd Hsub Hs Hw Hc. unfold hyp_okb.
  rewrite (nodup_names_complete _ Hnd), (nsorted_chain _ Hs), Hw. cbn [andb].
  apply andb_true_iff. split.
  - rewrite !andb_true_r. apply forallb_forall. intros g Hg. apply existsb_exists. exists g.
    split; [apply Hsub; exact Hg|apply name_eqb_refl].
  - unfold jump_okb. apply forallb_forall. intros s Hsin.
    destruct (in_names (fname s) grp) eqn:Ein; [reflexivity|]. cbn [orb].
    apply forallb_forall. intros g Hg.
    pose proof (proj1 (in_names_group_iff fs grp s Hnd Hsub Hsin) Ein) as Hnot.
    destruct (Hc s Hsin Hnot) as [Hlt|Hgt].
    + rewrite (name_ltb_asym _ _ (Hlt g Hg)). reflexivity.
    + assert (Hne : grp <> []) by (intros ->; destruct Hg).
      destruct (max_gen_seq_attained grp Hne) as [m [Hm Em]].
      unfold whole_last_generation in Hw. rewrite forallb_forall in Hw. specialize (Hw s Hsin).
      rewrite Ein, orb_false_r in Hw. rewrite <- Em in Hw |- *. unfold fname at 1 in Hw. cbn [fst] in Hw.
      pose proof (name_ltb_gen_le _ _ (Hgt m Hm)) as L. unfold fname in L. cbn [fst] in L.
      cbn [existsb]. rewrite orb_false_r.
      assert (name_ltb (fname s) (fst (fname m), (snd (fname m) + 1)%N) = false) as ->.
      { unfold name_ltb, fname. cbn [fst snd]. lia. }
      rewrite andb_false_r. reflexivity.
Qed.

Theorem plan_level_satisfies_spec_plan_thm :
  forall (fs : list tsmfile) (stats : list pstat) (force : bool) (level : N),
    names_nodup fs -> nsorted fs -> map pname stats = map fname fs ->
    spec_plan fs (plan_level force stats level) = true.
Proof.
  intros fs stats force level Hnd Hns Hmap. unfold spec_plan. apply forallb_forall. intros g Hg.
  destruct (proj1 (planned_groups_satisfy_hypothesis_thm fs stats force level Hnd Hns Hmap) g Hg)
    as [Hn [Hsub [Hs [Hw [Hc _]]]]].
  cbn zeta. apply andb_true_iff. split.
  - rewrite <- Hn at 2. rewrite map_length. apply Nat.eqb_refl.
  - apply contiguous_hyp_okb; assumption.
Qed.
