(* C09/BlocksProofs.v — proofs about the block-level merge model (Blocks.v).
   Part 1: the array operations (merge2 = Values.merge_lw on sorted arrays).
   Part 2: sortBlocks (insertion sort with the partial order blocks.Less): membership, the
           adjacency invariant, and order-stability at the level a reader can observe
           (newest-wins lookup of the block sequence is unchanged by the sort).
   Part 3: soundness of the fast-path CONDITION (merge<T> deciding dedup = false).
   The refinement proof (windows, read marks, chunking) is in BlocksRefine.v. *)
From Verif Require Import Shard.Store C09.Model C09.Blocks.
From Coq Require Import ZifyBool Permutation.
Open Scope Z_scope.

(* ================= Part 1: merge2 ================= *)

Lemma merge2_nil_l b : merge2 [] b = b.
Proof. destruct b; reflexivity. Qed.

Lemma merge2_nil_r a : merge2 a [] = a.
Proof. destruct a; reflexivity. Qed.

Lemma merge2_cons x a y b :
  merge2 (x :: a) (y :: b) =
  if fst x <? fst y then x :: merge2 a (y :: b)
  else if fst x =? fst y then y :: merge2 a b
  else y :: merge2 (x :: a) b.
Proof. reflexivity. Qed.

Lemma merge2_In z : forall a b, In z (merge2 a b) -> In z a \/ In z b.
Proof.
  induction a as [|x a IHa]; intros b H.
  - rewrite merge2_nil_l in H. auto.
  - induction b as [|y b IHb].
    + rewrite merge2_nil_r in H. auto.
    + rewrite merge2_cons in H.
      destruct (fst x <? fst y).
      * destruct H as [<-|H]; [left; left; reflexivity|]. apply IHa in H. destruct H; [left; right|right]; assumption.
      * destruct (fst x =? fst y).
        -- destruct H as [<-|H]; [right; left; reflexivity|]. apply IHa in H.
           destruct H; [left; right|right; right]; assumption.
        -- destruct H as [<-|H]; [right; left; reflexivity|]. apply IHb in H.
           destruct H; [left|right; right]; assumption.
Qed.

Lemma merge2_sorted : forall a b, ssorted a -> ssorted b -> ssorted (merge2 a b).
Proof.
  induction a as [|x a IHa]; intros b Ha Hb.
  - rewrite merge2_nil_l. assumption.
  - induction b as [|y b IHb].
    + rewrite merge2_nil_r. assumption.
    + rewrite merge2_cons.
      pose proof (ssorted_all_gt _ _ Ha) as Ga. pose proof (ssorted_all_gt _ _ Hb) as Gb.
      destruct (fst x <? fst y) eqn:E1.
      * apply ssorted_cons; [|apply IHa; [exact (ssorted_tail _ _ Ha)|assumption]].
        intros z Hz. apply merge2_In in Hz. destruct Hz as [Hz|[<-|Hz]]; [apply Ga; assumption|lia|].
        specialize (Gb z Hz). lia.
      * destruct (fst x =? fst y) eqn:E2.
        -- apply ssorted_cons; [|apply IHa; [exact (ssorted_tail _ _ Ha)|exact (ssorted_tail _ _ Hb)]].
           intros z Hz. apply merge2_In in Hz. destruct Hz as [Hz|Hz]; [specialize (Ga z Hz); lia|apply Gb; assumption].
        -- apply ssorted_cons; [|apply IHb; exact (ssorted_tail _ _ Hb)].
           intros z Hz. apply merge2_In in Hz. destruct Hz as [[<-|Hz]|Hz]; [lia|specialize (Ga z Hz); lia|apply Gb; assumption].
Qed.

Lemma lookup_none_all_gt t (l : list tv) x : ssorted (x :: l) -> t <= fst x -> lookup_last t l = None.
Proof.
  intros Hs Ht. apply lookup_last_none_lt. intros y Hy. pose proof (ssorted_all_gt _ _ Hs y Hy). lia.
Qed.

Lemma merge2_lookup t : forall a b, ssorted a -> ssorted b ->
  lookup_last t (merge2 a b) = lookup_last t (a ++ b).
Proof.
  induction a as [|x a IHa]; intros b Ha Hb.
  - rewrite merge2_nil_l. reflexivity.
  - induction b as [|y b IHb].
    + rewrite merge2_nil_r, app_nil_r. reflexivity.
    + rewrite merge2_cons. destruct x as [tx vx], y as [ty vy]. cbn [fst].
      pose proof (ssorted_tail _ _ Ha) as Ha'. pose proof (ssorted_tail _ _ Hb) as Hb'.
      destruct (tx <? ty) eqn:E1.
      * cbn [app lookup_last]. rewrite (IHa _ Ha' Hb). reflexivity.
      * destruct (tx =? ty) eqn:E2.
        -- assert (tx = ty) by lia. subst ty.
           cbn [app lookup_last]. rewrite (IHa _ Ha' Hb').
           rewrite !lookup_last_app. cbn [lookup_last].
           destruct (lookup_last t b) eqn:Eb; [reflexivity|].
           destruct (tx =? t) eqn:Et.
           ++ assert (t = tx) by lia. subst t.
              rewrite (lookup_none_all_gt tx a (tx, vx) Ha) by (cbn; lia). reflexivity.
           ++ destruct (lookup_last t a); reflexivity.
        -- cbn [lookup_last]. rewrite (IHb Hb').
           rewrite !lookup_last_app. cbn [lookup_last].
           destruct (lookup_last t b) eqn:Eb; [reflexivity|].
           destruct (ty =? t) eqn:Et;
             [|destruct (lookup_last t a); [reflexivity|destruct (tx =? t); reflexivity]].
           assert (t = ty) by lia. subst t.
           rewrite (lookup_none_all_gt ty a (tx, vx) Ha) by (cbn; lia).
           destruct (tx =? ty) eqn:E3; [lia|reflexivity].
Qed.

(* on sorted arrays the real two-way merge IS the logical last-write-wins overlay *)
Lemma merge2_eq_merge_lw a b : ssorted a -> ssorted b -> merge2 a b = merge_lw a b.
Proof.
  intros Ha Hb. apply sorted_lookup_ext.
  - apply merge2_sorted; assumption.
  - apply merge_lw_sorted; assumption.
  - intros t. rewrite merge2_lookup by assumption. rewrite merge_lw_lookup by assumption. reflexivity.
Qed.

(* tombstone ranges *)
Definition covered (tombs : list (Z * Z)) (t : Z) : bool :=
  existsb (fun tr => (fst tr <=? t) && (t <=? snd tr)) tombs.

Lemma apply_tr_filter tombs : forall v,
  apply_tr tombs v = filter (fun x => negb (covered tombs (fst x))) v.
Proof.
  unfold apply_tr. induction tombs as [|tr r IH]; intros v; cbn [fold_left covered existsb].
  - induction v as [|x v IHv]; cbn; [reflexivity|]. f_equal. exact IHv.
  - rewrite IH. unfold exclude_range. clear IH.
    induction v as [|x v IHv]; cbn [filter]; [reflexivity|].
    unfold in_range at 1. destruct ((fst tr <=? fst x) && (fst x <=? snd tr)) eqn:E; cbn [negb orb].
    + exact IHv.
    + cbn [filter]. fold (covered r (fst x)). destruct (negb (covered r (fst x))); [f_equal|]; exact IHv.
Qed.

Lemma apply_tr_sorted tombs v : ssorted v -> ssorted (apply_tr tombs v).
Proof. intros H. rewrite apply_tr_filter. apply filter_ssorted. assumption. Qed.

Lemma apply_tr_In tombs v x : In x (apply_tr tombs v) -> In x v.
Proof. rewrite apply_tr_filter. intros H. apply filter_In in H. tauto. Qed.

Lemma apply_tr_app tombs a b : apply_tr tombs (a ++ b) = apply_tr tombs a ++ apply_tr tombs b.
Proof. rewrite !apply_tr_filter. apply filter_app. Qed.

Lemma apply_tr_lookup tombs v t :
  lookup_last t (apply_tr tombs v) = if covered tombs t then None else lookup_last t v.
Proof.
  rewrite apply_tr_filter. rewrite lookup_last_filter by (intros; reflexivity). cbn [fst].
  destruct (lookup_last t v); destruct (covered tombs t); reflexivity.
Qed.

(* lookups of concatenations *)
Lemma lookup_app_congr t (a a' b b' : list tv) :
  lookup_last t a = lookup_last t a' -> lookup_last t b = lookup_last t b' ->
  lookup_last t (a ++ b) = lookup_last t (a' ++ b').
Proof. intros H1 H2. rewrite !lookup_last_app, H1, H2. reflexivity. Qed.

Lemma lookup_some_in t : forall (l : list tv) v, lookup_last t l = Some v -> In (t, v) l.
Proof.
  induction l as [|[t' v'] r IH]; intros v H; cbn [lookup_last] in H; [discriminate|].
  destruct (lookup_last t r) eqn:E.
  - inversion H; subst. right. apply IH. reflexivity.
  - destruct (t' =? t) eqn:Et; [|discriminate]. inversion H; subst. left. f_equal. lia.
Qed.

Lemma lookup_none_notin t (l : list tv) : (forall y, In y l -> fst y <> t) -> lookup_last t l = None.
Proof.
  intros H. destruct (lookup_last t l) eqn:E; [|reflexivity].
  apply lookup_some_in in E. specialize (H _ E). cbn in H. congruence.
Qed.

Lemma lookup_flat_map_ext {A} t (f g : A -> list tv) : forall l,
  (forall b, In b l -> lookup_last t (f b) = lookup_last t (g b)) ->
  lookup_last t (flat_map f l) = lookup_last t (flat_map g l).
Proof.
  induction l as [|b r IH]; intros H; cbn [flat_map]; [reflexivity|].
  apply lookup_app_congr; [apply H; left; reflexivity|apply IH; intros; apply H; right; assumption].
Qed.

(* ================= Part 2: sortBlocks ================= *)

Fixpoint chainP {A} (R : A -> A -> Prop) (l : list A) : Prop :=
  match l with
  | [] => True
  | a :: r => match r with [] => True | b :: _ => R a b end /\ chainP R r
  end.

Lemma chainP_snoc {A} (R : A -> A -> Prop) x : forall l,
  chainP R (l ++ [x]) <-> chainP R l /\ match rev l with [] => True | y :: _ => R y x end.
Proof.
  induction l as [|a r IH]; cbn [app chainP rev]; [tauto|].
  destruct r as [|b r'].
  - cbn. tauto.
  - cbn [app] in *. rewrite IH. cbn [rev].
    destruct (rev r' ++ [b]) eqn:E; [destruct (rev r'); discriminate|].
    cbn [app]. tauto.
Qed.

Lemma chainP_rev {A} (R : A -> A -> Prop) : forall l, chainP R (rev l) <-> chainP (fun a b => R b a) l.
Proof.
  induction l as [|a r IH]; cbn [rev chainP]; [tauto|].
  rewrite chainP_snoc, IH, rev_involutive. destruct r; tauto.
Qed.

Lemma bubble_In z x : forall rs, In z (bubble x rs) <-> z = x \/ In z rs.
Proof.
  induction rs as [|y rs IH]; cbn [bubble In]; [intuition|].
  destruct (less x y); cbn [In]; [rewrite IH|]; intuition.
Qed.

Lemma sort_blocks_In z l : In z (sort_blocks l) <-> In z l.
Proof.
  unfold sort_blocks. rewrite <- in_rev.
  assert (G : forall rs, In z (fold_left (fun rs x => bubble x rs) l rs) <-> In z l \/ In z rs).
  { induction l as [|x l IH]; intros rs; cbn [fold_left In]; [tauto|].
    rewrite IH, bubble_In. intuition. }
  rewrite G. cbn. tauto.
Qed.

(* the index entry of a block is an interval *)
Definition range_ok (b : blk) : Prop := b_min b <= b_max b.

(* adjacency invariant, on the reversed prefix: an element is never Less than its predecessor *)
Definition radj (rs : list blk) : Prop := chainP (fun later earlier => less later earlier = false) rs.

Lemma bubble_head x rs : exists r, bubble x rs = x :: r \/ (exists y r0, rs = y :: r0 /\ less x y = true /\ bubble x rs = y :: r).
Proof.
  destruct rs as [|y r0]; cbn [bubble].
  - exists []. left. reflexivity.
  - destruct (less x y) eqn:E.
    + exists (bubble x r0). right. exists y, r0. auto.
    + exists (y :: r0). left. reflexivity.
Qed.

Lemma less_asym x y : range_ok x -> less x y = true -> less y x = false.
Proof. unfold less, range_ok. intros. lia. Qed.

Lemma bubble_radj x : range_ok x -> forall rs, radj rs -> radj (bubble x rs).
Proof.
  intros Hx. unfold radj. induction rs as [|y rs IH]; intros H; cbn [bubble]; [cbn; auto|].
  destruct (less x y) eqn:E.
  - cbn [chainP] in H. destruct H as [H1 H2]. specialize (IH H2).
    cbn [chainP]. split; [|exact IH].
    destruct (bubble_head x rs) as [r [Hb|[y' [r0 [-> [E' Hb]]]]]]; rewrite Hb.
    + apply less_asym; assumption.
    + exact H1.
  - cbn [chainP]. split; [exact E|exact H].
Qed.

(* consecutive blocks of the sorted list: the later one is never Less than the earlier one *)
Definition adj (l : list blk) : Prop := chainP (fun earlier later => less later earlier = false) l.

Lemma sort_blocks_adj l : Forall range_ok l -> adj (sort_blocks l).
Proof.
  intros Hl. unfold adj, sort_blocks. apply chainP_rev.
  assert (G : forall rs, radj rs -> radj (fold_left (fun rs x => bubble x rs) l rs)).
  { induction Hl as [|x l Hx Hl IH]; intros rs Hr; cbn [fold_left]; [assumption|].
    apply IH. apply bubble_radj; assumption. }
  apply (G []). exact I.
Qed.

(* sorting an already sorted list changes nothing: every later merge<T>() call re-sorts the
   remaining suffix *)
Lemma bubble_noop x rs : match rs with [] => True | y :: _ => less x y = false end -> bubble x rs = x :: rs.
Proof. destruct rs as [|y r]; cbn [bubble]; [reflexivity|]. intros ->. reflexivity. Qed.

(* order stability as a reader sees it: any per-block value function whose timestamps lie
   within the block's index entry gives the same newest-wins lookups before and after *)
Section Stability.
  Variable pv : blk -> list tv.
  Hypothesis within : forall b y, In y (pv b) -> b_min b <= fst y <= b_max b.

  Lemma disjoint_swap t x y (A : list tv) : less x y = true ->
    lookup_last t (A ++ pv x ++ pv y) = lookup_last t (A ++ pv y ++ pv x).
  Proof.
    intros L. apply lookup_app_congr; [reflexivity|]. rewrite !lookup_last_app.
    destruct (lookup_last t (pv y)) eqn:Ey, (lookup_last t (pv x)) eqn:Ex; try reflexivity.
    apply lookup_some_in in Ey. apply lookup_some_in in Ex.
    apply within in Ey. apply within in Ex. unfold less in L. cbn [fst] in *. lia.
  Qed.

  Lemma bubble_lookup t x : forall rs,
    lookup_last t (flat_map pv (rev (bubble x rs))) = lookup_last t (flat_map pv (rev rs ++ [x])).
  Proof.
    induction rs as [|y rs IH]; cbn [bubble]; [reflexivity|].
    destruct (less x y) eqn:E; [|reflexivity].
    cbn [rev]. rewrite !flat_map_app. cbn [flat_map]. rewrite !app_nil_r.
    rewrite (lookup_app_congr t _ (flat_map pv (rev rs ++ [x])) (pv y) (pv y) IH eq_refl).
    rewrite flat_map_app. cbn [flat_map]. rewrite app_nil_r, <- !app_assoc.
    apply disjoint_swap. assumption.
  Qed.

  Lemma sort_blocks_lookup t l :
    lookup_last t (flat_map pv (sort_blocks l)) = lookup_last t (flat_map pv l).
  Proof.
    unfold sort_blocks.
    assert (G : forall rs, lookup_last t (flat_map pv (rev (fold_left (fun rs x => bubble x rs) l rs)))
                           = lookup_last t (flat_map pv (rev rs ++ l))).
    { induction l as [|x l IH]; intros rs; cbn [fold_left]; [rewrite app_nil_r; reflexivity|].
      rewrite IH. replace (rev rs ++ x :: l) with ((rev rs ++ [x]) ++ l) by (rewrite <- app_assoc; reflexivity).
      rewrite !(flat_map_app pv _ l).
      apply lookup_app_congr; [|reflexivity].
      apply bubble_lookup. }
    rewrite (G []). reflexivity.
  Qed.
End Stability.

(* ================= Part 3: the fast-path condition ================= *)

Definition strictly_before (a b : blk) : Prop := b_max a < b_min b.
Definition untouched (b : blk) : Prop := b_rmin b = max_i64 /\ b_rmax b = min_i64.
Definition read_exactly (b : blk) : Prop := b_rmin b = b_min b /\ b_rmax b = b_max b.

Lemma partially_read_false b : partially_read b = false -> untouched b \/ read_exactly b.
Proof.
  unfold partially_read, untouched, read_exactly.
  destruct ((b_rmin b =? max_i64) && (b_rmax b =? min_i64)) eqn:E; intros H; [left|right]; lia.
Qed.

Lemma scan_dedup_false prev : forall bs,
  scan_dedup prev bs = false -> adj (prev :: bs) -> range_ok prev -> Forall range_ok bs ->
  chainP strictly_before (prev :: bs) /\
  Forall (fun b => b_tombs b = [] /\ (untouched b \/ read_exactly b)) bs.
Proof.
  intros bs; revert prev. induction bs as [|b r IH]; intros prev H Ha Hp Hr; [cbn; auto|].
  cbn [scan_dedup] in H. apply orb_false_iff in H. destruct H as [H Hs].
  apply orb_false_iff in H. destruct H as [H Ht]. apply orb_false_iff in H. destruct H as [Hpr Ho].
  unfold adj in Ha. cbn [chainP] in Ha. destruct Ha as [Hl Ha].
  inversion Hr as [|? ? Hb Hr']; subst.
  destruct (IH b Hs Ha Hb Hr') as [C F].
  split.
  - cbn [chainP]. split; [|exact C].
    unfold strictly_before. unfold overlaps in Ho. unfold less in Hl. unfold range_ok in *. lia.
  - constructor; [|exact F]. split.
    + unfold has_tombs in Ht. destruct (b_tombs b); [reflexivity|discriminate].
    + apply partially_read_false. assumption.
Qed.

(* (c), the condition: whenever merge<T>() takes the fast path on the sorted block list,
   the blocks are pairwise disjoint and strictly ordered in time, none of them has a
   tombstone, none is partially read, and no decoded values are pending *)
Theorem fast_path_condition_sound (bs : list blk) (mv : list tv) :
  Forall range_ok bs -> adj bs -> need_dedup bs mv = false ->
  mv = [] /\ chainP strictly_before bs /\
  Forall (fun b => b_tombs b = [] /\ (untouched b \/ read_exactly b)) bs.
Proof.
  intros Hr Ha H. unfold need_dedup in H. apply orb_false_iff in H. destruct H as [Hm H].
  split; [destruct mv; [reflexivity|discriminate]|].
  destruct bs as [|b0 r]; [cbn; auto|].
  apply orb_false_iff in H. destruct H as [H Hs]. apply orb_false_iff in H. destruct H as [Ht Hp].
  inversion Hr as [|? ? Hb Hr']; subst.
  destruct (scan_dedup_false b0 r Hs Ha Hb Hr') as [C F].
  split; [exact C|]. constructor; [|exact F]. split.
  - unfold has_tombs in Ht. destruct (b_tombs b0); [reflexivity|discriminate].
  - apply partially_read_false. assumption.
Qed.

(* strictly ordered chains are transitive: every earlier block ends before every later one starts *)
Lemma strictly_before_all a : forall l, Forall range_ok l -> chainP strictly_before (a :: l) ->
  forall b, In b l -> b_max a < b_min b.
Proof.
  intros l; revert a. induction l as [|c r IH]; intros a Hr H b Hb; [destruct Hb|].
  cbn [chainP] in H. destruct H as [Hac Hc]. inversion Hr as [|? ? Hcr Hr']; subst.
  destruct Hb as [<-|Hb]; [exact Hac|].
  specialize (IH c Hr' Hc b Hb). unfold strictly_before, range_ok in *. lia.
Qed.
