(* C09/Props.v — property theorems only.  Each is closed by [exact] of a lemma proved in
   Proofs*.v and followed by Print Assumptions; non-vacuity examples at the end. *)
From Verif Require Import Shard.Store C09.Model C09.Run C09.ProofsA C09.ProofsB C09.ProofsC C09.ProofsD C09.Proofs.
From VerifGen Require Import Consts.
Open Scope Z_scope.

(* Writing the cache snapshot to level-1 file(s) named by NextGeneration() changes no read:
   for every shard state (any files with distinct names, any snapshot and hot cache contents,
   duplicates and unsorted arrival order included), every key, window and direction, both
   while the snapshot is still in the cache and after it has been cleared. *)
Theorem snapshot_preserves_reads :
  forall (s : shard) (gen : N),
    names_nodup (s_files s) -> (forall f, In f (s_files s) -> (f_gen f < gen)%N) ->
    forall k lo hi asc,
      shard_read (install_snapshot gen s) k lo hi asc = shard_read s k lo hi asc /\
      shard_read (clear_snapshot (install_snapshot gen s)) k lo hi asc = shard_read s k lo hi asc.
Proof. exact snapshot_preserves_reads_thm. Qed.
Print Assumptions snapshot_preserves_reads.

(* Compacting ANY group of files (any number of generations and sequences, overlapping
   blocks, keys in only some inputs, partially or fully tombstoned keys), with any block
   size, mode and per-file block limit, and installing the outputs in place of the inputs
   changes no read — provided the group is listed in file order, holds every file of its
   newest generation (so the output names are fresh) and jumps over no file that shares a
   (key, time) with an older member. *)
Theorem compact_preserves_reads :
  forall (maxe : N) (size : Z) (fs group : list tsmfile),
    names_nodup fs -> (forall g, In g group -> In g fs) -> nsorted group ->
    whole_last_generation fs group = true ->
    jump_free fs group (compact_with maxe size group) ->
    forall c k lo hi asc,
      store_read (replace_files fs group (compact_with maxe size group)) c k lo hi asc =
      store_read fs c k lo hi asc.
Proof. exact compact_reads. Qed.
Print Assumptions compact_preserves_reads.

(* ... in particular for every group that is contiguous in (generation, sequence) order *)
Theorem compact_preserves_reads_contiguous :
  forall (maxe : N) (size : Z) (fs group : list tsmfile),
    names_nodup fs -> (forall g, In g group -> In g fs) -> nsorted group ->
    whole_last_generation fs group = true -> contiguous fs group ->
    forall c k lo hi asc,
      store_read (replace_files fs group (compact_with maxe size group)) c k lo hi asc =
      store_read fs c k lo hi asc.
Proof. exact compact_reads_contiguous. Qed.
Print Assumptions compact_preserves_reads_contiguous.

(* Every output file of a compaction, and of a snapshot: every key has at least one block,
   every block has between 1 and size points, no key has more than maxe blocks in one file,
   no key is listed twice, and all (key, time) pairs of the file in index order are strictly
   increasing (blocks of a key time-sorted and non-overlapping); index entries describe
   their blocks. *)
Theorem output_sorted_disjoint_bounded :
  forall (maxe : N) (size : Z) (group : list tsmfile) (o : ofile), (1 <= maxe)%N ->
    In o (model_ofiles (fst (max_gen_seq group)) (snd (max_gen_seq group)) (compact_segments maxe size group)) ->
    ofile_okb_with maxe (eff_size size) o = true.
Proof. exact compact_outputs_ok. Qed.
Print Assumptions output_sorted_disjoint_bounded.

Theorem snapshot_output_sorted_disjoint_bounded :
  forall (maxe gen : N) (snap : kvs) (o : ofile), (1 <= maxe)%N ->
    In o (model_ofiles gen (c09_snapshot_first_sequence - 1)%N (snapshot_segments maxe snap)) ->
    ofile_okb_with maxe (eff_size 0) o = true.
Proof. exact snapshot_outputs_ok. Qed.
Print Assumptions snapshot_output_sorted_disjoint_bounded.

(* A crash after ANY number n of directory operations of FileStore.replace (renames of the
   outputs, then removals of the inputs — the order is re-read from the source), followed by
   a reopen: every read is unchanged, every input is either still present or gone with ALL
   outputs installed, and no file outside the group is touched. *)
Theorem abort_leaves_inputs :
  forall (maxe : N) (size : Z) (fs group : list tsmfile),
    names_nodup fs -> (forall g, In g group -> In g fs) -> nsorted group ->
    whole_last_generation fs group = true ->
    jump_free fs group (compact_with maxe size group) ->
    forall n : nat,
      (forall c k lo hi asc,
         store_read (reopen (crash_dir maxe size fs group n)) c k lo hi asc = store_read fs c k lo hi asc) /\
      (forall g, In g group ->
         In g (reopen (crash_dir maxe size fs group n)) \/
         (forall o, In o (compact_with maxe size group) -> In o (reopen (crash_dir maxe size fs group n)))) /\
      (forall f, In f fs -> ~ In f group -> In f (reopen (crash_dir maxe size fs group n))).
Proof.
  intros maxe size fs group Hnd Hsub Hgs Hw Hj n.
  split; [intros; apply crash_reads; assumption|exact (crash_inputs maxe size fs group Hnd Hsub Hw n)].
Qed.
Print Assumptions abort_leaves_inputs.

(* An aborted or failed compaction (tmp outputs removed) leaves exactly the input directory. *)
Theorem fail_leaves_inputs :
  forall (fs outs : list tsmfile), reopen (abort_compaction (dir_compacted fs outs)) = fs.
Proof. reflexivity. Qed.
Print Assumptions fail_leaves_inputs.

(* The jump hypothesis cannot be dropped: a group of whole generations, listed in order,
   that jumps over a generation overwriting one of its points brings the old value back. *)
Theorem noncontiguous_group_refuted :
  exists fs group k,
    names_nodup fs /\ (forall g, In g group -> In g fs) /\ nsorted group /\
    whole_last_generation fs group = true /\
    store_read (replace_files fs group (compact 0 group)) empty_cache k min_int64 max_int64 true <>
    store_read fs empty_cache k min_int64 max_int64 true.
Proof.
  exists wfs, wgroup, wkey.
  destruct noncontiguous_witness as [H1 [H2 [H3 [H4 [H5 H6]]]]].
  repeat (split; [assumption|]). rewrite H5, H6. discriminate.
Qed.
Print Assumptions noncontiguous_group_refuted.

(* The model's own observation satisfies the executable spec used on the implementation,
   for every input. *)
Theorem model_satisfies_spec :
  (forall i, spec_compact i (model_compact i) = true) /\
  (forall i n, spec_crash i (model_crash i n) = true) /\
  (forall i, spec_fail i (model_fail i) = true) /\
  (forall i, spec_snapshot i (model_snapshot i) = true) /\
  (* a whole-series delete landing while the compaction runs: both possible outcomes *)
  (forall i k, spec_delete i k (model_delete_fail i k) = true) /\
  (forall i k, spec_delete i k (model_delete_ok i k) = true).
Proof.
  exact (conj link_compact (conj link_crash (conj link_fail (conj link_snapshot (conj link_delete_fail link_delete_ok))))).
Qed.
Print Assumptions model_satisfies_spec.

(* ---------- non-vacuity ---------- *)

(* the hypotheses of compact_preserves_reads_contiguous hold for the first two generations
   of the witness directory, which overlap at (k, 1) *)
Example contiguous_hypotheses_satisfiable :
  let group := [wfile 1 1 1; wfile 2 1 2] in
  names_nodup wfs /\ (forall g, In g group -> In g wfs) /\ nsorted group /\
  whole_last_generation wfs group = true /\ contiguous wfs group /\
  store_read (replace_files wfs group (compact 0 group)) empty_cache wkey min_int64 max_int64 true
    = [(1, VInt 2); (5, VInt 3)].
Proof.
  cbn zeta. split; [|split; [|split; [|split; [|split]]]].
  - unfold names_nodup. cbn. repeat constructor; cbn; intuition discriminate.
  - intros g [<-|[<-|[]]]; cbn; auto.
  - cbn. split; [|split; [|exact I]]; intros g H; cbn in H; intuition (subst; reflexivity).
  - vm_compute. reflexivity.
  - intros s [<-|[<-|[<-|[]]]] Hn.
    + exfalso. apply Hn. left; reflexivity.
    + exfalso. apply Hn. right; left; reflexivity.
    + right. intros g [<-|[<-|[]]]; reflexivity.
  - vm_compute. reflexivity.
Qed.

(* a snapshot with duplicates over an existing file: the hypotheses hold and the value
   written last wins *)
Example snapshot_nonvacuous :
  let s := {| s_files := [wfile 1 1 1];
              s_cache := {| c_snap := [(wkey, [(1, VInt 10); (9, VInt 11); (1, VInt 12)])];
                            c_hot := [(wkey, [(9, VInt 14)])] |} |} in
  shard_read (clear_snapshot (install_snapshot 2 s)) wkey min_int64 max_int64 true
    = [(1, VInt 12); (9, VInt 14)].
Proof. vm_compute. reflexivity. Qed.
