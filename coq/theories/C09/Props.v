(* C09/Props.v — property theorems only.  Each is closed by [exact] of a lemma proved in
   Proofs*.v and followed by Print Assumptions; non-vacuity examples at the end. *)
From Verif Require Import Shard.Store C09.Model C09.Run C09.ProofsA C09.ProofsB C09.ProofsC C09.ProofsD C09.Proofs.
From Verif Require Import C09.Blocks C09.BlocksProofs C09.BlocksRefine C09.BlocksClass C09.Planner C09.PlannerProofs.
From VerifGen Require Import Consts.
Open Scope Z_scope.

(* Writing the cache snapshot to level-1 file(s) named by NextGeneration() changes no read:
   for every shard state (any files with distinct names, any snapshot and hot cache contents,
   duplicates and unsorted arrival order included), every key, window and direction, both
   while the snapshot is still in the cache and after it has been cleared. *)
Theorem snapshot_preserves_reads :
  forall (s : shard) (gen : N),
    names_nodup (s_files s) -> (forall f, In f (s_files s) -> (f_gen f < gen)%N) ->
    forall k lo hi asc,
      shard_read (install_snapshot gen s) k lo hi asc = shard_read s k lo hi asc /\
      shard_read (clear_snapshot (install_snapshot gen s)) k lo hi asc = shard_read s k lo hi asc.
Proof. exact snapshot_preserves_reads_thm. Qed.
Print Assumptions snapshot_preserves_reads.

(* Compacting ANY group of files (any number of generations and sequences, overlapping
   blocks, keys in only some inputs, partially or fully tombstoned keys), with any block
   size, mode and per-file block limit, and installing the outputs in place of the inputs
   changes no read — provided the group is listed in file order, holds every file of its
   newest generation (so the output names are fresh) and jumps over no file that shares a
   (key, time) with an older member. *)
Theorem compact_preserves_reads :
  forall (maxe : N) (size : Z) (fs group : list tsmfile),
    names_nodup fs -> (forall g, In g group -> In g fs) -> nsorted group ->
    whole_last_generation fs group = true ->
    jump_free fs group (compact_with maxe size group) ->
    forall c k lo hi asc,
      store_read (replace_files fs group (compact_with maxe size group)) c k lo hi asc =
      store_read fs c k lo hi asc.
Proof. exact compact_reads. Qed.
Print Assumptions compact_preserves_reads.

(* ... in particular for every group that is contiguous in (generation, sequence) order *)
Theorem compact_preserves_reads_contiguous :
  forall (maxe : N) (size : Z) (fs group : list tsmfile),
    names_nodup fs -> (forall g, In g group -> In g fs) -> nsorted group ->
    whole_last_generation fs group = true -> contiguous fs group ->
    forall c k lo hi asc,
      store_read (replace_files fs group (compact_with maxe size group)) c k lo hi asc =
      store_read fs c k lo hi asc.
Proof. exact compact_reads_contiguous. Qed.
Print Assumptions compact_preserves_reads_contiguous.

(* Every output file of a compaction, and of a snapshot: every key has at least one block,
   every block has between 1 and size points, no key has more than maxe blocks in one file,
   no key is listed twice, and all (key, time) pairs of the file in index order are strictly
   increasing (blocks of a key time-sorted and non-overlapping); index entries describe
   their blocks. *)
Theorem output_sorted_disjoint_bounded :
  forall (maxe : N) (size : Z) (group : list tsmfile) (o : ofile), (1 <= maxe)%N ->
    In o (model_ofiles (fst (max_gen_seq group)) (snd (max_gen_seq group)) (compact_segments maxe size group)) ->
    ofile_okb_with maxe (eff_size size) o = true.
Proof. exact compact_outputs_ok. Qed.
Print Assumptions output_sorted_disjoint_bounded.

Theorem snapshot_output_sorted_disjoint_bounded :
  forall (maxe gen : N) (snap : kvs) (o : ofile), (1 <= maxe)%N ->
    In o (model_ofiles gen (c09_snapshot_first_sequence - 1)%N (snapshot_segments maxe snap)) ->
    ofile_okb_with maxe (eff_size 0) o = true.
Proof. exact snapshot_outputs_ok. Qed.
Print Assumptions snapshot_output_sorted_disjoint_bounded.

(* A crash after ANY number n of directory operations of FileStore.replace (renames of the
   outputs, then removals of the inputs — the order is re-read from the source), followed by
   a reopen: every read is unchanged, every input is either still present or gone with ALL
   outputs installed, and no file outside the group is touched. *)
Theorem abort_leaves_inputs :
  forall (maxe : N) (size : Z) (fs group : list tsmfile),
    names_nodup fs -> (forall g, In g group -> In g fs) -> nsorted group ->
    whole_last_generation fs group = true ->
    jump_free fs group (compact_with maxe size group) ->
    forall n : nat,
      (forall c k lo hi asc,
         store_read (reopen (crash_dir maxe size fs group n)) c k lo hi asc = store_read fs c k lo hi asc) /\
      (forall g, In g group ->
         In g (reopen (crash_dir maxe size fs group n)) \/
         (forall o, In o (compact_with maxe size group) -> In o (reopen (crash_dir maxe size fs group n)))) /\
      (forall f, In f fs -> ~ In f group -> In f (reopen (crash_dir maxe size fs group n))).
Proof.
  intros maxe size fs group Hnd Hsub Hgs Hw Hj n.
  split; [intros; apply crash_reads; assumption|exact (crash_inputs maxe size fs group Hnd Hsub Hw n)].
Qed.
Print Assumptions abort_leaves_inputs.

(* An aborted or failed compaction (tmp outputs removed) leaves exactly the input directory. *)
Theorem fail_leaves_inputs :
  forall (fs outs : list tsmfile), reopen (abort_compaction (dir_compacted fs outs)) = fs.
Proof. reflexivity. Qed.
Print Assumptions fail_leaves_inputs.

(* The jump hypothesis cannot be dropped: a group of whole generations, listed in order,
   that jumps over a generation overwriting one of its points brings the old value back. *)
Theorem noncontiguous_group_refuted :
  exists fs group k,
    names_nodup fs /\ (forall g, In g group -> In g fs) /\ nsorted group /\
    whole_last_generation fs group = true /\
    store_read (replace_files fs group (compact 0 group)) empty_cache k min_int64 max_int64 true <>
    store_read fs empty_cache k min_int64 max_int64 true.
Proof.
  exists wfs, wgroup, wkey.
  destruct noncontiguous_witness as [H1 [H2 [H3 [H4 [H5 H6]]]]].
  repeat (split; [assumption|]). rewrite H5, H6. discriminate.
Qed.
Print Assumptions noncontiguous_group_refuted.

(* The model's own observation satisfies the executable spec used on the implementation,
   for every input. *)
Theorem model_satisfies_spec :
  (forall i, spec_compact i (model_compact i) = true) /\
  (forall i n, spec_crash i (model_crash i n) = true) /\
  (forall i, spec_fail i (model_fail i) = true) /\
  (forall i, spec_snapshot i (model_snapshot i) = true) /\
  (* a whole-series delete landing while the compaction runs: both possible outcomes *)
  (forall i k, spec_delete i k (model_delete_fail i k) = true) /\
  (forall i k, spec_delete i k (model_delete_ok i k) = true).
Proof.
  exact (conj link_compact (conj link_crash (conj link_fail (conj link_snapshot (conj link_delete_fail link_delete_ok))))).
Qed.
Print Assumptions model_satisfies_spec.

(* ================= block level: tsmBatchKeyIterator.merge / combine<T> / chunk<T> ================= *)

(* On sorted arrays the real two-way <T>Array.Merge is the logical last-write-wins overlay. *)
Theorem array_merge_is_lww :
  forall a b : list tv, ssorted a -> ssorted b -> merge2 a b = merge_lw a b.
Proof. exact merge2_eq_merge_lw. Qed.
Print Assumptions array_merge_is_lww.

(* sortBlocks (insertion sort with the partial order blocks.Less) never changes what a
   newest-wins reader of the block sequence sees: for EVERY block list (any length, > 20
   included) and every per-block value function whose timestamps lie within the block's index
   entry, the last occurrence of each timestamp is the same before and after sorting: blocks
   that overlap keep their file order.  (The property sort.Stable lost, fix f6dc664.) *)
Theorem sortBlocks_keeps_newest_wins :
  forall (pv : blk -> list tv),
    (forall b y, In y (pv b) -> b_min b <= fst y <= b_max b) ->
    forall t l, lookup_last t (flat_map pv (sort_blocks l)) = lookup_last t (flat_map pv l).
Proof. exact sort_blocks_lookup. Qed.
Print Assumptions sortBlocks_keeps_newest_wins.

(* (c), the CONDITION of the fast path: whenever merge<T>() decides dedup = false on a block
   list as sortBlocks leaves it, no decoded values are pending, the blocks are pairwise
   disjoint and strictly ordered in time, none has a tombstone and none is partially read —
   for every block list and every state of the read marks. *)
Theorem fast_path_condition_is_sound :
  forall (bs : list blk) (mv : list tv),
    Forall range_ok bs -> adj bs -> need_dedup bs mv = false ->
    mv = [] /\ chainP strictly_before bs /\
    Forall (fun b => b_tombs b = [] /\ (untouched b \/ read_exactly b)) bs.
Proof. exact fast_path_condition_sound. Qed.
Print Assumptions fast_path_condition_is_sound.

Theorem sortBlocks_establishes_adjacency :
  forall l, Forall range_ok l -> adj (sort_blocks l).
Proof. exact sort_blocks_adj. Qed.
Print Assumptions sortBlocks_establishes_adjacency.

(* (a)+(b)+(c) for EVERY well-formed input (any number of files, blocks sorted and
   non-overlapping within a file, arbitrary across files, any tombstone ranges), every
   size >= 1, both modes, along the whole run of the iterator for the key (every merge<T>()
   call, every window with its partial read marks, the fast path, every chunk) — under the
   WINDOW CONDITION [key_crux]: no window starts above a value that is still unread.
   PARTIAL: the window condition is a hypothesis on the run; it is discharged below for the
   min-ordered layouts; for the remaining layouts (a newer file's block starting before an
   overlapping older block it is sorted behind) the chain argument over the insertion-sorted
   list is missing, and the full statement [block_merge_refines_logical] =
   this theorem without the [key_crux] premise is NOT proved. *)
Theorem block_merge_refines_logical_partial :
  forall (fast : bool) (size : nat) (inp : key_input) (os : list oblk),
    (1 <= size)%nat -> input_wfb inp = true -> times_i64 inp ->
    merge_key fast size inp = Some os ->
    key_crux (fuel_for (input_blocks inp)) (fuel_for (input_blocks inp)) fast size (input_blocks inp) [] ->
    vals_of os = logical inp /\
    Forall (ob_shape size) os /\ chainP (fun a b => o_max a < o_min b) os /\
    Forall (ob_ok (input_blocks inp) size) os /\
    (forall o, In o os -> filter (in_range (o_min o) (o_max o)) (logical inp) = o_vals o).
Proof. exact block_merge_refines_logical_under_crux. Qed.
Print Assumptions block_merge_refines_logical_partial.

(* ... unconditionally for every input whose blocks, as sortBlocks orders them, are also
   ordered by minTime (blocks may still overlap, nest, repeat timestamps across files, and
   carry tombstones; the decode path with partial read marks is fully exercised):
   (a) the concatenation of the output blocks = the logical newest-wins merge minus tombstones;
   (b) output blocks non-empty, index entries exact, <= size points unless passed through,
       time-sorted and pairwise non-overlapping;
   (c) a passed-through block is an unchanged input block of a file without tombstones for the
       key, and every output block is exactly the logical content of its time range. *)
Theorem block_merge_refines_logical_min_ordered_inputs :
  forall (fast : bool) (size : nat) (inp : key_input) (os : list oblk),
    (1 <= size)%nat -> input_wfb inp = true -> times_i64 inp -> min_ordered inp = true ->
    merge_key fast size inp = Some os ->
    vals_of os = logical inp /\
    Forall (ob_shape size) os /\ chainP (fun a b => o_max a < o_min b) os /\
    Forall (ob_ok (input_blocks inp) size) os /\
    (forall o, In o os -> filter (in_range (o_min o) (o_max o)) (logical inp) = o_vals o).
Proof. exact block_merge_refines_logical_min_ordered. Qed.
Print Assumptions block_merge_refines_logical_min_ordered_inputs.

(* the link to layer A: [logical] of the per-file (blocks, tombstone ranges) description IS
   Model.merged_values of the group, so compact_preserves_reads extends to the block level *)
Theorem logical_is_merged_values :
  forall (group : list tsmfile) (k : key) (inp : key_input),
    Forall2 (fun f i => apply_tr (snd i) (concat (fst i)) = file_values f k) group inp ->
    logical inp = merged_values group k.
Proof. exact logical_eq_merged_values. Qed.
Print Assumptions logical_is_merged_values.

(* ================= planner: DefaultPlanner.PlanLevel ================= *)

(* Every group PlanLevel returns — for every file set, every set of files held by running
   compactions, every tombstone flag, level and force flag — satisfies the hypotheses of
   compact_preserves_reads_contiguous: it is listed in file order, consists of existing files
   none of which is in use, holds whole generations and is contiguous (an in-use generation
   ends a group, fix 59a68bc); groups of one plan are disjoint. *)
Theorem planned_groups_satisfy_hypothesis :
  forall (fs : list tsmfile) (stats : list pstat) (force : bool) (level : N),
    names_nodup fs -> nsorted fs ->
    map pname stats = map fname fs ->
    (forall g, In g (plan_level force stats level) ->
       let grp := pick_group fs g in
       map fname grp = g /\ (forall x, In x grp -> In x fs) /\ nsorted grp /\
       whole_last_generation fs grp = true /\ contiguous fs grp /\
       (forall p, In p stats -> In (pname p) g -> p_inuse p = false)) /\
    NoDup (concat (plan_level force stats level)).
Proof. exact planned_groups_satisfy_hypothesis_thm. Qed.
Print Assumptions planned_groups_satisfy_hypothesis.

(* ... hence compacting any planned group changes no read *)
Theorem planned_groups_preserve_reads :
  forall (maxe : N) (size : Z) (fs : list tsmfile) (stats : list pstat) (force : bool) (level : N),
    names_nodup fs -> nsorted fs -> map pname stats = map fname fs ->
    forall g, In g (plan_level force stats level) ->
    forall c k lo hi asc,
      store_read (replace_files fs (pick_group fs g) (compact_with maxe size (pick_group fs g))) c k lo hi asc =
      store_read fs c k lo hi asc.
Proof. exact planned_groups_preserve_reads_thm. Qed.
Print Assumptions planned_groups_preserve_reads.

(* the planner model satisfies the executable monitor used on the real planner, for all inputs *)
Theorem plan_level_satisfies_spec_plan :
  forall (fs : list tsmfile) (stats : list pstat) (force : bool) (level : N),
    names_nodup fs -> nsorted fs -> map pname stats = map fname fs ->
    spec_plan fs (plan_level force stats level) = true.
Proof. exact plan_level_satisfies_spec_plan_thm. Qed.
Print Assumptions plan_level_satisfies_spec_plan.

(* ---------- non-vacuity ---------- *)

(* the hypotheses of compact_preserves_reads_contiguous hold for the first two generations
   of the witness directory, which overlap at (k, 1) *)
Example contiguous_hypotheses_satisfiable :
  let group := [wfile 1 1 1; wfile 2 1 2] in
  names_nodup wfs /\ (forall g, In g group -> In g wfs) /\ nsorted group /\
  whole_last_generation wfs group = true /\ contiguous wfs group /\
  store_read (replace_files wfs group (compact 0 group)) empty_cache wkey min_int64 max_int64 true
    = [(1, VInt 2); (5, VInt 3)].
Proof.
  cbn zeta. split; [|split; [|split; [|split; [|split]]]].
  - unfold names_nodup. cbn. repeat constructor; cbn; intuition discriminate.
  - intros g [<-|[<-|[]]]; cbn; auto.
  - cbn. split; [|split; [|exact I]]; intros g H; cbn in H; intuition (subst; reflexivity).
  - vm_compute. reflexivity.
  - intros s [<-|[<-|[<-|[]]]] Hn.
    + exfalso. apply Hn. left; reflexivity.
    + exfalso. apply Hn. right; left; reflexivity.
    + right. intros g [<-|[<-|[]]]; reflexivity.
  - vm_compute. reflexivity.
Qed.

(* a snapshot with duplicates over an existing file: the hypotheses hold and the value
   written last wins *)
Example snapshot_nonvacuous :
  let s := {| s_files := [wfile 1 1 1];
              s_cache := {| c_snap := [(wkey, [(1, VInt 10); (9, VInt 11); (1, VInt 12)])];
                            c_hot := [(wkey, [(9, VInt 14)])] |} |} in
  shard_read (clear_snapshot (install_snapshot 2 s)) wkey min_int64 max_int64 true
    = [(1, VInt 12); (9, VInt 14)].
Proof. vm_compute. reflexivity. Qed.

(* block level: two files whose blocks overlap and repeat a timestamp, a tombstone on the older
   file, blocks of exactly size points: the hypotheses of the min-ordered theorem hold and the
   run goes through the decode path with partial reads, then passes the last block through *)
Definition ex_inp : key_input :=
  [ ([[(10, VInt 1); (20, VInt 1)]; [(30, VInt 1); (40, VInt 1)]], [(15, 25)]);
    ([[(32, VInt 2); (40, VInt 2)]; [(50, VInt 2); (60, VInt 2)]], []) ].

Example block_theorem_nonvacuous :
  input_wfb ex_inp = true /\ times_i64 ex_inp /\ min_ordered ex_inp = true /\
  exists os, merge_key false 2 ex_inp = Some os /\ length os = 3%nat /\
             vals_of os = logical ex_inp /\
             logical ex_inp = [(10, VInt 1); (30, VInt 1); (32, VInt 2); (40, VInt 2); (50, VInt 2); (60, VInt 2)].
Proof.
  split; [vm_compute; reflexivity|]. split; [apply times_i64b_spec; vm_compute; reflexivity|].
  split; [vm_compute; reflexivity|].
  eexists. split; [vm_compute; reflexivity|]. split; [reflexivity|]. split; vm_compute; reflexivity.
Qed.

(* a layout outside the min-ordered class (the newer file starts first and is sorted behind):
   the model still produces the logical merge; this is the part covered by correspondence *)
Example block_outside_class :
  let inp := [ ([[(10, VInt 1); (20, VInt 1)]], []); ([[(5, VInt 2); (15, VInt 2)]], []) ] in
  min_ordered inp = false /\
  option_map vals_of (merge_key false 2 inp) = Some (logical inp).
Proof. split; vm_compute; reflexivity. Qed.

(* the fast-path condition holds for disjoint full blocks and fails as soon as one overlaps *)
Example fast_path_nonvacuous :
  need_dedup (sort_blocks (input_blocks [([[(1, VInt 1); (2, VInt 1)]; [(5, VInt 1); (6, VInt 1)]], []); ([[(8, VInt 2)]], [])])) [] = false /\
  need_dedup (sort_blocks (input_blocks [([[(1, VInt 1); (2, VInt 1)]; [(5, VInt 1); (6, VInt 1)]], []); ([[(6, VInt 2)]], [])])) [] = true.
Proof. split; vm_compute; reflexivity. Qed.
