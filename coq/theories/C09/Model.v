(* C09/Model.v — executable model of cache snapshots and TSM compaction
   (tsdb/engine/tsm1: Compactor.WriteSnapshot / compact / writeNewFiles / write,
   tsmBatchKeyIterator at the logical level, FileStore.replace, FileStore.Open).
   Layer A = logical content per (key, time) on top of Shard/Store.v; layer B = blocks
   (chunking into <= size points, per-file roll-over at maxIndexEntries blocks of one key).
   Definitions only; proofs live in Proofs*.v. *)
From Verif Require Export Shard.Store.
From VerifGen Require Import Consts.
Open Scope Z_scope.

(* ---------- file names: %09d-%09d.tsm, ordered as strings = ordered by (generation, sequence) ---------- *)

Definition name := (N * N)%type.
Definition fname (f : tsmfile) : name := (f_gen f, f_seq f).
Definition name_ltb (a b : name) : bool :=
  (fst a <? fst b)%N || ((fst a =? fst b)%N && (snd a <? snd b)%N).
Definition name_eqb (a b : name) : bool := (fst a =? fst b)%N && (snd a =? snd b)%N.

(* FileStore.files is kept sorted by path (sort.Sort(tsmReaders)) *)
Fixpoint insert_file (f : tsmfile) (l : list tsmfile) : list tsmfile :=
  match l with
  | [] => [f]
  | g :: r => if name_ltb (fname f) (fname g) then f :: l else g :: insert_file f r
  end.
Definition sort_files (l : list tsmfile) : list tsmfile := fold_right insert_file [] l.

(* what a reader sees: the files of the directory overlaid oldest -> newest, cache on top *)
Definition store_read (fs : list tsmfile) (c : cache) (k : key) (lo hi : Z) (asc : bool) : list tv :=
  read (sort_files fs) c k lo hi asc.
Definition store_read_all (fs : list tsmfile) (c : cache) (k : key) : list tv :=
  read_all (sort_files fs) c k.

(* ---------- keys are ordered bytewise (bytes.Compare) ---------- *)

Fixpoint key_ltb (a b : key) : bool :=
  match a, b with
  | [], [] => false
  | [], _ :: _ => true
  | _ :: _, [] => false
  | x :: a', y :: b' => (x <? y)%N || ((x =? y)%N && key_ltb a' b')
  end.

Fixpoint insert_key (k : key) (l : list key) : list key :=
  match l with
  | [] => [k]
  | h :: r => if key_ltb k h then k :: l else if key_eqb h k then l else h :: insert_key k r
  end.

(* ---------- layer B: blocks ---------- *)

Definition block := list tv.

(* k.size <= 0 means DefaultMaxPointsPerBlock (Compactor.compact) *)
Definition eff_size (size : Z) : nat :=
  Z.to_nat (if size <=? 0 then c09_default_max_points_per_block else size).

(* chunkX: cut the merged values of a key into blocks of <= size points; fuel = #values suffices *)
Fixpoint chunk (fuel size : nat) (vs : list tv) : list block :=
  match fuel with
  | O => []
  | S f => match vs with
           | [] => []
           | _ => firstn size vs :: chunk f size (skipn size vs)
           end
  end.
Definition chunks (size : nat) (vs : list tv) : list block := chunk (length vs) size vs.

(* ---------- compaction: Compactor.compact ---------- *)

(* the loop over tsmFiles that picks the output generation/sequence *)
Definition max_gen_seq (group : list tsmfile) : name :=
  fold_left (fun (acc : name) f =>
               let acc1 := if (fst acc <? f_gen f)%N then (f_gen f, f_seq f) else acc in
               if (f_gen f =? fst acc1)%N && (snd acc1 <? f_seq f)%N then (fst acc1, f_seq f) else acc1)
            group (0%N, 0%N).

Definition group_keys (group : list tsmfile) : list key :=
  fold_left (fun acc f => fold_left (fun a kv => insert_key (fst kv) a) (f_data f) acc) group [].

(* logical content of key k after merging the inputs in the given order (later reader wins),
   each input's tombstones applied to its own values *)
Definition merged_values (group : list tsmfile) (k : key) : list tv := files_values group k.

(* the block stream produced by a key iterator: keys ascending, blocks of a key in time order;
   keys without values (all tombstoned) produce nothing *)
Definition stream_of (size : nat) (keys : list key) (valf : key -> list tv) : list (key * block) :=
  flat_map (fun k => map (fun b => (k, b)) (chunks size (valf k))) keys.

Definition compact_stream (size : nat) (group : list tsmfile) : list (key * block) :=
  stream_of size (group_keys group) (merged_values group).

(* Compactor.write / writeNewFiles: blocks go to the current file until WriteBlock reports
   ErrMaxBlocksExceeded (the key now has maxe index entries in this file); the block that
   triggered it is IN the file; a new file continues with the next block. *)
(* ([rev_append cur []] is [rev cur], computed in linear time) *)
Fixpoint split_files (maxe : N) (cur : list (key * block)) (ck : option key) (cnt : N)
         (items : list (key * block)) : list (list (key * block)) :=
  match items with
  | [] => match cur with [] => [] | _ => [rev_append cur []] end
  | (k, b) :: r =>
      let cnt' := match ck with
                  | Some k0 => if key_eqb k0 k then (cnt + 1)%N else 1%N
                  | None => 1%N
                  end in
      if (maxe <=? cnt')%N then rev_append ((k, b) :: cur) [] :: split_files maxe [] None 0%N r
      else split_files maxe ((k, b) :: cur) (Some k) cnt' r
  end.

Definition seg_data (seg : list (key * block)) : kvs :=
  fold_left (fun m kb => kv_append (fst kb) (snd kb) m) seg [].

Fixpoint mk_outs (gen seq : N) (segs : list (list (key * block))) : list tsmfile :=
  match segs with
  | [] => []
  | s :: r => {| f_gen := gen; f_seq := (seq + 1)%N; f_data := seg_data s; f_tombs := [] |}
              :: mk_outs gen (seq + 1)%N r
  end.

(* block-level view of the outputs (what the TSM index of each output describes) *)
Definition compact_segments (maxe : N) (size : Z) (group : list tsmfile) : list (list (key * block)) :=
  split_files maxe [] None 0%N (compact_stream (eff_size size) group).

Definition compact_with (maxe : N) (size : Z) (group : list tsmfile) : list tsmfile :=
  let ms := max_gen_seq group in
  mk_outs (fst ms) (snd ms) (compact_segments maxe size group).

(* fast and full compactions differ only in how blocks are cut (pass-through of full blocks);
   the logical content and the file names are the same, so [fast] does not appear here *)
Definition compact (size : Z) (group : list tsmfile) : list tsmfile :=
  compact_with c09_max_index_entries size group.

(* ---------- cache snapshot -> level-1 file(s): cacheKeyIterator + writeNewFiles(gen, 0, ...) ---------- *)

(* cache.values(key) is the de-duplicated entry: sorted, the last write of a timestamp wins;
   blocks are always cut at DefaultMaxPointsPerBlock *)
Definition snap_values (snap : kvs) (k : key) : list tv := dedup (kv_get k snap).
Definition snap_keys (snap : kvs) : list key := fold_left (fun a kv => insert_key (fst kv) a) snap [].

Definition snapshot_segments (maxe : N) (snap : kvs) : list (list (key * block)) :=
  split_files maxe [] None 0%N (stream_of (eff_size 0) (snap_keys snap) (snap_values snap)).

Definition snapshot_files_with (maxe : N) (gen : N) (snap : kvs) : list tsmfile :=
  mk_outs gen (c09_snapshot_first_sequence - 1)%N (snapshot_segments maxe snap).

Definition snapshot_files (gen : N) (snap : kvs) : list tsmfile :=
  snapshot_files_with c09_max_index_entries gen snap.

Record shard := { s_files : list tsmfile; s_cache : cache }.

(* Engine.writeSnapshotAndCommit: FileStore.Replace(nil, newFiles) ... *)
Definition install_snapshot (gen : N) (s : shard) : shard :=
  {| s_files := snapshot_files gen (c_snap (s_cache s)) ++ s_files s; s_cache := s_cache s |}.
(* ... and only then Cache.ClearSnapshot(true) *)
Definition clear_snapshot (s : shard) : shard :=
  {| s_files := s_files s; s_cache := {| c_snap := []; c_hot := c_hot (s_cache s) |} |}.
(* a failed snapshot (ClearSnapshot(false)) keeps the snapshot in the cache and installs nothing *)

Definition shard_read (s : shard) := store_read (s_files s) (s_cache s).

(* ---------- FileStore.replace as a sequence of directory steps ---------- *)

Definition in_names (n : name) (l : list tsmfile) : bool := existsb (fun g => name_eqb n (fname g)) l.

(* the live file set once Replace(group, outs) has completed *)
Definition replace_files (fs group outs : list tsmfile) : list tsmfile :=
  outs ++ filter (fun f => negb (in_names (fname f) group)) fs.

(* a directory: installed .tsm files and .tsm.tmp files *)
Record dir := { d_live : list tsmfile; d_tmp : list tsmfile }.

Inductive step :=
| SRename (f : tsmfile)      (* os.Rename(x.tsm.tmp, x.tsm) *)
| SRemove (n : name).        (* file.Remove(): the .tsm disappears, then its tombstone file *)

Definition apply_step (d : dir) (s : step) : dir :=
  match s with
  | SRename f => {| d_live := f :: d_live d;
                    d_tmp := filter (fun g => negb (name_eqb (fname g) (fname f))) (d_tmp d) |}
  | SRemove n => {| d_live := filter (fun g => negb (name_eqb (fname g) n)) (d_live d); d_tmp := d_tmp d |}
  end.

(* the order is read from the source by genconsts: all renames of new files come first,
   then the old files are removed, in FileStore order *)
Definition replace_steps (group outs : list tsmfile) : list step :=
  let renames := map SRename outs in
  let removes := map (fun g => SRemove (fname g)) group in
  if c09_replace_rename_before_remove then renames ++ removes else removes ++ renames.

Definition run_steps (d : dir) (ss : list step) : dir := fold_left apply_step ss d.

(* after the compactor has written its outputs: inputs live, outputs are tmp files *)
Definition dir_compacted (fs outs : list tsmfile) : dir := {| d_live := fs; d_tmp := outs |}.

(* crash + restart: FileStore.Open globs *.tsm only; *.tsm.tmp are deleted by Engine.cleanup *)
Definition reopen (d : dir) : list tsmfile := d_live d.

(* abort / error inside the compactor: writeNewFiles / removeTmpFiles delete every tmp output *)
Definition abort_compaction (d : dir) : dir := {| d_live := d_live d; d_tmp := [] |}.

(* ---------- hypothesis on the group chosen by the planner ---------- *)

Definition shares_point (a b : tsmfile) : bool :=
  existsb (fun kv => existsb (fun x => match lookup_last (fst x) (file_values b (fst kv)) with
                                       | Some _ => true | None => false end)
                             (file_values a (fst kv)))
          (f_data a).

(* no file outside the group lies between a group member and an output (names [onames])
   while sharing a (key, time) with that member *)
Definition jump_okb (fs group : list tsmfile) (onames : list name) : bool :=
  forallb (fun s => in_names (fname s) group ||
                    forallb (fun g => negb (name_ltb (fname g) (fname s)
                                            && existsb (fun o => name_ltb (fname s) o) onames
                                            && shares_point g s)) group) fs.

(* the group contains every file of its newest generation (planner groups are whole
   generations): this is what makes the output names fresh *)
Definition whole_last_generation (fs group : list tsmfile) : bool :=
  forallb (fun s => negb (f_gen s =? fst (max_gen_seq group))%N || in_names (fname s) group) fs.
