(* C09/BlocksClass.v — the window condition of BlocksRefine.v discharged for every block
   list whose sortBlocks order is also ordered by minTime (each block starts no earlier than
   the one before it; blocks may overlap, nest, repeat timestamps, carry tombstones).  For
   this class the block-level refinement theorem holds unconditionally.
   The remaining layouts (a block of a NEWER file that starts before an overlapping block of
   an older file it is sorted behind) need the chain argument over the insertion-sorted list;
   they are covered by correspondence only. *)
From Verif Require Import Shard.Store C09.Model C09.Blocks C09.BlocksProofs C09.BlocksRefine.
From Coq Require Import ZifyBool.
Open Scope Z_scope.

(* sorted as sortBlocks leaves it AND by minTime *)
Definition msorted (bs : list blk) : Prop :=
  chainP (fun a b => b_min a <= b_min b /\ less b a = false) bs.

Fixpoint msortedb (bs : list blk) : bool :=
  match bs with
  | [] => true
  | a :: r => match r with [] => true | b :: _ => (b_min a <=? b_min b) && negb (less b a) end && msortedb r
  end.

Lemma msortedb_spec bs : msortedb bs = true -> msorted bs.
Proof.
  unfold msorted. induction bs as [|a r IH]; cbn [msortedb chainP]; [auto|].
  intros H. apply andb_true_iff in H. destruct H as [H1 H2]. split; [|apply IH; assumption].
  destruct r as [|b r']; [exact I|]. apply andb_true_iff in H1. destruct H1 as [H1 H3].
  split; [lia|]. destruct (less b a); [discriminate|reflexivity].
Qed.

Lemma msorted_tail a r : msorted (a :: r) -> msorted r.
Proof. unfold msorted. cbn. tauto. Qed.

Lemma msorted_head_min a : forall r, msorted (a :: r) -> forall b, In b r -> b_min a <= b_min b.
Proof.
  intros r; revert a. induction r as [|c r IH]; intros a H b Hb; [destruct Hb|].
  unfold msorted in H. cbn [chainP] in H. destruct H as [[H1 _] H2].
  destruct Hb as [<-|Hb]; [assumption|]. specialize (IH c H2 b Hb). lia.
Qed.

Lemma msorted_drop_read : forall bs, msorted bs -> msorted (drop_read bs).
Proof.
  induction bs as [|b r IH]; intros H; cbn [drop_read]; [assumption|].
  destruct (is_read b); [apply IH; exact (msorted_tail _ _ H)|assumption].
Qed.

Lemma less_static a b a' b' :
  b_min a' = b_min a -> b_max a' = b_max a -> b_min b' = b_min b -> less a' b' = less a b.
Proof. unfold less. intros -> -> ->. reflexivity. Qed.

Lemma msorted_map (f : blk -> blk) :
  (forall b, b_min (f b) = b_min b /\ b_max (f b) = b_max b) ->
  forall bs, msorted bs -> msorted (map f bs).
Proof.
  intros Hf. unfold msorted. induction bs as [|a r IH]; intros H; cbn [map chainP]; [exact I|].
  cbn [chainP] in H. destruct H as [H1 H2]. split; [|apply IH; assumption].
  destruct r as [|b r']; [exact I|]. cbn [map].
  destruct (Hf a) as [A1 A2]. destruct (Hf b) as [B1 B2].
  rewrite A1, B1. rewrite (less_static b a (f b) (f a) B1 B2 A1). assumption.
Qed.

Lemma msorted_map_adv mn mx bs : msorted bs -> msorted (map (adv mn mx) bs).
Proof.
  apply msorted_map. intros b. destruct (adv_static mn mx b) as [A [B _]]. auto.
Qed.

(* sortBlocks does nothing on such a list *)
Lemma chainP_app_inv {A} (R : A -> A -> Prop) : forall l1 x l2, chainP R (l1 ++ x :: l2) ->
  chainP R (x :: l2) /\ match rev l1 with [] => True | y :: _ => R y x end.
Proof.
  induction l1 as [|a r IH]; intros x l2 H; cbn [app rev] in *; [auto|].
  cbn [chainP] in H. destruct H as [H1 H2]. destruct (IH x l2 H2) as [I1 I2]. split; [assumption|].
  destruct r as [|b r'].
  - cbn. cbn in H1. assumption.
  - cbn [rev] in *. destruct (rev r' ++ [b]) eqn:E; [destruct (rev r'); discriminate|]. cbn [app]. assumption.
Qed.

Lemma sort_blocks_id l : adj l -> sort_blocks l = l.
Proof.
  intros H. unfold sort_blocks.
  assert (G : forall l rs, adj (rev rs ++ l) -> fold_left (fun rs x => bubble x rs) l rs = rev l ++ rs).
  { clear. induction l as [|x l IH]; intros rs H; cbn [fold_left rev]; [reflexivity|].
    unfold adj in H. destruct (chainP_app_inv _ _ _ _ H) as [_ Hy]. rewrite rev_involutive in Hy.
    rewrite bubble_noop by (destruct rs; [exact I|exact Hy]).
    rewrite IH; [rewrite <- app_assoc; reflexivity|].
    cbn [rev]. rewrite <- app_assoc. exact H. }
  rewrite (G l []) by exact H. rewrite app_nil_r. apply rev_involutive.
Qed.

Lemma msorted_adj bs : msorted bs -> adj bs.
Proof.
  unfold msorted, adj. induction bs as [|a r IH]; cbn [chainP]; [auto|].
  intros [H1 H2]. split; [|apply IH; assumption]. destruct r; [exact I|tauto].
Qed.

(* the window's lower end never rises *)
Lemma window_fst_le : forall bs acc, fst (fold_left window_step bs acc) <= fst acc.
Proof.
  induction bs as [|b r IH]; intros acc; cbn [fold_left]; [lia|].
  specialize (IH (window_step acc b)). unfold window_step in *.
  destruct (overlaps b (fst acc) (snd acc) && negb (is_read b)); cbn [fst] in *; [|assumption].
  destruct (b_min b <? fst acc) eqn:E; lia.
Qed.

Lemma window_crux_msorted first r : Forall bwf (first :: r) -> msorted (first :: r) -> window_crux (first :: r) first.
Proof.
  intros W M b Hb y Hy. unfold window.
  pose proof (window_fst_le (first :: r) (b_min first, b_max first)) as Hle. cbn [fst] in Hle.
  rewrite Forall_forall in W. apply U_sub in Hy. pose proof (w_range b (W b Hb) y Hy).
  assert (b_min first <= b_min b).
  { destruct Hb as [<-|Hb]; [lia|]. apply (msorted_head_min first r M b Hb). }
  lia.
Qed.

Lemma dedup_crux_msorted size : forall fuel bs mv, Forall bwf bs -> msorted bs -> dedup_crux fuel size bs mv.
Proof.
  induction fuel as [|f IH]; intros bs mv W M; cbn [dedup_crux];
    destruct (Nat.ltb (length mv) size && nonemptyb bs); try exact I.
  assert (Wd : Forall bwf (drop_read bs)).
  { rewrite Forall_forall in *. intros b Hb. apply W. apply drop_read_sub. assumption. }
  pose proof (msorted_drop_read bs M) as Md.
  destruct (drop_read bs) as [|first r]; [exact I|].
  pose proof (window_crux_msorted first r Wd Md) as C. split; [exact C|].
  rewrite read_window_eq. cbn [fst snd]. apply IH.
  - rewrite Forall_forall in *. intros b' Hb'. apply in_map_iff in Hb'. destruct Hb' as [b [<- Hb]].
    apply adv_spec; [apply Wd; assumption|apply C; assumption].
  - apply msorted_map_adv. assumption.
Qed.

Lemma dedup_loop_msorted size : forall fuel bs mv bs' mv',
  msorted bs -> dedup_loop fuel size bs mv = Some (bs', mv') -> msorted bs'.
Proof.
  induction fuel as [|f IH]; intros bs mv bs' mv' M H; cbn [dedup_loop] in H;
    destruct (Nat.ltb (length mv) size && nonemptyb bs); try discriminate;
    try (inversion H; subst; assumption).
  pose proof (msorted_drop_read bs M) as Md.
  destruct (drop_read bs) as [|first r]; [inversion H; subst; exact I|].
  rewrite read_window_eq in H. cbn [fst snd] in H.
  apply (IH _ _ _ _ (msorted_map_adv _ _ _ Md) H).
Qed.

Lemma pass_full_msorted size : forall bs, msorted bs -> msorted (snd (pass_full size bs)).
Proof.
  induction bs as [|b r IH]; intros M; cbn [pass_full]; [exact I|].
  destruct (is_read b); [apply IH; exact (msorted_tail _ _ M)|].
  destruct (Nat.ltb (length (b_vals b)) size); cbn [snd]; [assumption|apply IH; exact (msorted_tail _ _ M)].
Qed.

Lemma pass_last_msorted bs : msorted bs -> msorted (snd (pass_last bs)).
Proof. intros M. destruct bs as [|b [|c r]]; cbn [pass_last snd]; try assumption. exact I. Qed.

Lemma decode_rest_msorted size : forall bs mv, msorted bs -> msorted (fst (decode_rest size bs mv)).
Proof.
  induction bs as [|b r IH]; intros mv M; cbn [decode_rest]; [exact I|].
  destruct (Nat.ltb (length mv) size); cbn [fst]; [|assumption].
  destruct (is_read b); apply IH; exact (msorted_tail _ _ M).
Qed.

Lemma merge_call_msorted dfuel fast size bs mv o bs' mv' :
  msorted bs -> merge_call dfuel fast size bs mv = Some (o, bs', mv') -> msorted bs'.
Proof.
  intros M H. unfold merge_call in H. rewrite (sort_blocks_id bs (msorted_adj bs M)) in H.
  destruct (need_dedup bs mv).
  - destruct (dedup_loop dfuel size bs mv) as [[b1 m1]|] eqn:E; [|discriminate].
    inversion H; subst. exact (dedup_loop_msorted _ _ _ _ _ _ M E).
  - inversion H; subst. apply decode_rest_msorted. apply pass_last_msorted.
    destruct fast; [exact I|apply pass_full_msorted; assumption].
Qed.

Lemma key_crux_msorted L Ib fast size dfuel : (1 <= size)%nat -> forall fuel outs bs mv,
  pst L Ib size outs bs mv -> msorted bs -> key_crux fuel dfuel fast size bs mv.
Proof.
  intros Hs. induction fuel as [|f IH]; intros outs bs mv P M; cbn [key_crux]; [exact I|].
  destruct (nonemptyb mv || nonemptyb bs); [|exact I].
  assert (Cm : merge_crux dfuel size bs mv).
  { unfold merge_crux. rewrite (sort_blocks_id bs (msorted_adj bs M)).
    destruct (need_dedup bs mv); [|exact I]. apply dedup_crux_msorted; [|assumption].
    destruct P as [[W _ _ _ _ _ _] _ _]. exact W. }
  split; [exact Cm|].
  destruct (merge_call dfuel fast size bs mv) as [[[o bs'] mv']|] eqn:Em; [|exact I].
  destruct (nonemptyb o || nonemptyb mv'); [|exact I].
  apply (IH (outs ++ o)).
  - apply (merge_call_pst L Ib fast size dfuel outs bs mv o bs' mv' Hs P Cm Em).
  - exact (merge_call_msorted _ _ _ _ _ _ _ _ M Em).
Qed.

(* the first merge<T>() call sees the blocks in file order and sorts them *)
Lemma key_crux_first L Ib fast size dfuel f : (1 <= size)%nat ->
  pst L Ib size [] Ib [] -> msorted (sort_blocks Ib) -> key_crux (S f) dfuel fast size Ib [].
Proof.
  intros Hs P0 Ms. cbn [key_crux].
  destruct (nonemptyb (@nil tv) || nonemptyb Ib); [|exact I].
  assert (W : Forall bwf Ib) by (destruct P0 as [[W _ _ _ _ _ _] _ _]; exact W).
  assert (Cm : merge_crux dfuel size Ib []).
  { unfold merge_crux. destruct (need_dedup (sort_blocks Ib) []); [|exact I].
    apply dedup_crux_msorted; [apply sort_blocks_Forall; exact W|exact Ms]. }
  split; [exact Cm|].
  destruct (merge_call dfuel fast size Ib []) as [[[o bs'] mv']|] eqn:Em; [|exact I].
  destruct (nonemptyb o || nonemptyb mv'); [|exact I].
  apply (key_crux_msorted L Ib fast size dfuel Hs f ([] ++ o)).
  - apply (merge_call_pst L Ib fast size dfuel [] Ib [] o bs' mv' Hs P0 Cm Em).
  - assert (Em' : merge_call dfuel fast size (sort_blocks Ib) [] = Some (o, bs', mv')).
    { unfold merge_call in *. rewrite (sort_blocks_id (sort_blocks Ib) (msorted_adj _ Ms)). exact Em. }
    exact (merge_call_msorted _ _ _ _ _ _ _ _ Ms Em').
Qed.

(* boolean forms of the hypotheses, so that they can be computed on concrete inputs *)
Definition times_i64b (inp : key_input) : bool :=
  forallb (fun f => forallb (fun b => forallb (fun y => min_i64 <=? fst y) b) (fst f)) inp.

Lemma times_i64b_spec inp : times_i64b inp = true -> times_i64 inp.
Proof.
  unfold times_i64b, times_i64. intros H f b y Hf Hb Hy.
  rewrite forallb_forall in H. specialize (H f Hf). rewrite forallb_forall in H. specialize (H b Hb).
  rewrite forallb_forall in H. specialize (H y Hy). lia.
Qed.

(* the class: after sortBlocks the key's blocks are ordered by minTime *)
Definition min_ordered (inp : key_input) : bool := msortedb (sort_blocks (input_blocks inp)).

Theorem block_merge_refines_logical_min_ordered :
  forall (fast : bool) (size : nat) (inp : key_input) (os : list oblk),
    (1 <= size)%nat -> input_wfb inp = true -> times_i64 inp -> min_ordered inp = true ->
    merge_key fast size inp = Some os ->
    vals_of os = logical inp /\
    Forall (ob_shape size) os /\ chainP (fun a b => o_max a < o_min b) os /\
    Forall (ob_ok (input_blocks inp) size) os /\
    (forall o, In o os -> filter (in_range (o_min o) (o_max o)) (logical inp) = o_vals o).
Proof.
  intros fast size inp os Hs Hw H64 Hmo Hm.
  apply (block_merge_refines_logical_under_crux fast); try assumption.
  set (Ib := input_blocks inp) in *.
  set (L := fun t => lookup_last t (flat_map pend Ib)).
  assert (W : Forall bwf Ib) by (apply input_blocks_wf; assumption).
  assert (P0 : pst L Ib size [] Ib []).
  { constructor.
    - constructor; [exact W|exact I|exact I|intros x y []|intros x b y []|intros x b y []|intros t; reflexivity].
    - intros b Hb. exists b. split; [assumption|]. unfold same_static. auto.
    - constructor. }
  assert (E : fuel_for Ib = S (fuel_for Ib - 1)) by (unfold fuel_for; lia).
  rewrite E at 1. apply (key_crux_first L); [assumption|assumption|].
  apply msortedb_spec. exact Hmo.
Qed.
