(* C17/StoreSpec.v — WriteToShard keeps the invariant; the link theorem for the store cases:
   for every healthy store and every operation the model's observation satisfies the
   executable specification [step_spec]; hence for every valid description and every
   operation sequence. *)
From Verif Require Import C17.Store C17.StoreProofs C17.StoreLink.
Open Scope N_scope.

(* ---------- WriteToShard ---------- *)

Definition upd (id : N) (k : skey) (pts : list pt) (s : sshard) : sshard :=
  if N.eqb (ss_id s) id then mkSS (ss_id s) (ss_db s) (ss_rp s) (ss_inmem s) (upsert k pts (ss_series s)) else s.

Lemma upd_id id k pts s : ss_id (upd id k pts s) = ss_id s.
Proof. unfold upd. destruct (N.eqb (ss_id s) id); reflexivity. Qed.
Lemma upd_db id k pts s : ss_db (upd id k pts s) = ss_db s.
Proof. unfold upd. destruct (N.eqb (ss_id s) id); reflexivity. Qed.
Lemma upd_inmem id k pts s : ss_inmem (upd id k pts s) = ss_inmem s.
Proof. unfold upd. destruct (N.eqb (ss_id s) id); reflexivity. Qed.
Lemma upd_keys id k pts s x : In x (keys (upd id k pts s)) -> In x (keys s) \/ (x = k /\ ss_id s = id).
Proof.
  unfold upd. destruct (N.eqb (ss_id s) id) eqn:He; [|auto]. apply N.eqb_eq in He.
  unfold keys. cbn [ss_series]. rewrite upsert_keys. tauto.
Qed.
Lemma upd_keys_mono id k pts s x : In x (keys s) -> In x (keys (upd id k pts s)).
Proof.
  unfold upd. destruct (N.eqb (ss_id s) id); [|auto]. unfold keys. cbn [ss_series]. rewrite upsert_keys. auto.
Qed.
Lemma upd_keys_new id k pts s : ss_id s = id -> In k (keys (upd id k pts s)).
Proof.
  intros He. unfold upd. apply N.eqb_eq in He. rewrite He. unfold keys. cbn [ss_series]. rewrite upsert_keys. auto.
Qed.

Lemma write_found st id k pts sh :
  find_shard st id = Some sh ->
  write_shard st id k pts =
  (DOk, mkSt (map (upd id k pts) (st_shards st)) (add_key (ss_db sh) k (st_sfile st))
             (if ss_inmem sh then add_key (ss_db sh) k (st_inmem st) else st_inmem st)).
Proof. intros H. unfold write_shard. rewrite H. reflexivity. Qed.
Lemma write_not_found st id k pts : find_shard st id = None -> write_shard st id k pts = (DNotFound, st).
Proof. intros H. unfold write_shard. rewrite H. reflexivity. Qed.

Lemma filter_map_upd id k pts db l :
  filter (fun s => N.eqb (ss_db s) db) (map (upd id k pts) l) =
  map (upd id k pts) (filter (fun s => N.eqb (ss_db s) db) l).
Proof.
  rewrite filter_map_comm. f_equal. apply filter_ext. intros s. rewrite upd_db. reflexivity.
Qed.

Lemma write_healthy st id k pts : healthy st -> healthy (snd (write_shard st id k pts)).
Proof.
  intros H. destruct (find_shard st id) as [sh|] eqn:Hf; [|rewrite (write_not_found st id k pts Hf); exact H].
  destruct (find_shard_some st id sh Hf) as [Hsh Hid]. rewrite (write_found st id k pts sh Hf). cbn [snd].
  assert (Huniq : forall s, In s (st_shards st) -> ss_id s = id -> s = sh).
  { intros s Hs He. apply (NoDup_map_inj ss_id (st_shards st) s sh (h_ids st H) Hs Hsh). congruence. }
  constructor; cbn [st_shards st_sfile st_inmem].
  - rewrite map_map. rewrite (map_ext _ ss_id (upd_id id k pts)). apply (h_ids st H).
  - intros s' x Hs' Hx. apply in_map_iff in Hs'. destruct Hs' as [s [He Hs]]. subst s'.
    rewrite upd_db, lookup_add. apply upd_keys in Hx.
    destruct (N.eqb (ss_db sh) (ss_db s)) eqn:Hd.
    + apply add_to_In. destruct Hx as [Hx|[Hx _]]; [right; apply (h_sfile st H s x Hs Hx) | left; exact Hx].
    + destruct Hx as [Hx|[_ Hx]]; [apply (h_sfile st H s x Hs Hx)|].
      rewrite (Huniq s Hs Hx), N.eqb_refl in Hd. discriminate.
  - intros s' x Hs' Hi Hx. apply in_map_iff in Hs'. destruct Hs' as [s [He Hs]]. subst s'.
    rewrite upd_inmem in Hi. rewrite upd_db. apply upd_keys in Hx.
    destruct Hx as [Hx|[Hx Hx2]].
    + pose proof (h_inmem st H s x Hs Hi Hx) as Hin.
      destruct (ss_inmem sh); [|exact Hin]. rewrite lookup_add.
      destruct (N.eqb (ss_db sh) (ss_db s)); [apply add_to_In; right; exact Hin | exact Hin].
    + rewrite (Huniq s Hs Hx2) in *. rewrite Hi, lookup_add, N.eqb_refl. apply add_to_In. left. exact Hx.
  - intros db x He Hx.
    set (st' := mkSt (map (upd id k pts) (st_shards st)) (add_key (ss_db sh) k (st_sfile st))
                     (if ss_inmem sh then add_key (ss_db sh) k (st_inmem st) else st_inmem st)) in *.
    assert (Hds : db_shards st' db = map (upd id k pts) (db_shards st db)) by apply filter_map_upd.
    assert (Hmono : forall y, In y (all_keys st db) -> In y (all_keys st' db)).
    { intros y Hy. apply all_keys_In in Hy. destruct Hy as [s [Hs [Hd Hk]]]. apply all_keys_In.
      exists (upd id k pts s). split; [apply in_map; exact Hs|]. rewrite upd_db. split; [exact Hd | apply upd_keys_mono; exact Hk]. }
    assert (He0 : existsb ss_inmem (db_shards st db) = true).
    { rewrite Hds in He. apply existsb_exists in He. destruct He as [s' [Hs' Hi]]. apply in_map_iff in Hs'.
      destruct Hs' as [s [E Hs]]. subst s'. rewrite upd_inmem in Hi. apply existsb_exists. exists s. auto. }
    destruct (ss_inmem sh) eqn:Hish.
    + rewrite lookup_add in Hx. destruct (N.eqb (ss_db sh) db) eqn:Hd.
      * apply add_to_In in Hx. destruct Hx as [Hx|Hx]; [|apply Hmono; apply (h_orphan st H db x He0 Hx)].
        subst x. apply N.eqb_eq in Hd. apply all_keys_In. exists (upd id k pts sh).
        split; [apply in_map; exact Hsh|]. rewrite upd_db. split; [exact Hd | apply upd_keys_new; exact Hid].
      * apply Hmono. apply (h_orphan st H db x He0 Hx).
    + apply Hmono. apply (h_orphan st H db x He0 Hx).
Qed.

Lemma apply_healthy st o : healthy st -> healthy (snd (apply_op st o)).
Proof.
  intros H. destruct o as [id| |id k pts]; cbn [apply_op snd].
  - apply delete_healthy. exact H.
  - apply reopen_healthy. exact H.
  - apply write_healthy. exact H.
Qed.

(* ---------- the observation of a healthy store ---------- *)

Lemma healthy_shard_obs st s :
  healthy st -> In s (st_shards st) -> shard_obs st s = mkShO (ss_id s) (ss_db s) (ss_rp s) (ss_series s).
Proof. intros H Hs. unfold shard_obs. rewrite (healthy_read st s H Hs). reflexivity. Qed.

Lemma find_obs_map st l id :
  find_obs (map (shard_obs st) l) id =
  match find (fun s => N.eqb (ss_id s) id) l with Some s => Some (shard_obs st s) | None => None end.
Proof.
  unfold find_obs. induction l as [|s l IH]; cbn [map find]; [reflexivity|].
  cbn [shard_obs o_id]. destruct (N.eqb (ss_id s) id); [reflexivity | exact IH].
Qed.

Lemma sobs_eqb_refl o : sobs_eqb o o = true.
Proof.
  unfold sobs_eqb. rewrite (seteq_refl shobs_eqb _ shobs_eqb_refl). cbn [andb].
  apply seteq_refl. intros d. apply dbobs_eqb_iff. apply dequiv_refl.
Qed.

(* ---------- the link, operation by operation ---------- *)

Section Link.
Variable dbs : list N.
Variable st : store.
Hypothesis H : healthy st.

Lemma link_delete id :
  step_spec (obs_of dbs st) (ODel id) (fst (apply_op st (ODel id))) (obs_of dbs (snd (apply_op st (ODel id)))) = true.
Proof.
  unfold step_spec. cbn [apply_op fst snd expected]. unfold expected_del. cbn [obs_of so_shards so_dbs].
  rewrite find_obs_map. fold (find_shard st id).
  destruct (find_shard st id) as [sh|] eqn:Hf.
  2:{ rewrite (delete_not_found st id Hf). cbn [fst snd err_code N.eqb].
      change (mkSO (map (shard_obs st) (st_shards st)) (map (db_obs st) dbs)) with (obs_of dbs st).
      rewrite sobs_eqb_refl. cbn [andb]. unfold del_safe. apply forallb_forall. intros o Ho.
      cbn [obs_of so_shards so_dbs] in *. apply in_map_iff in Ho. destruct Ho as [s [E Hs]]. subst o.
      cbn [shard_obs o_id]. pose proof (find_shard_none st id Hf s Hs) as Hne. apply N.eqb_neq in Hne. rewrite Hne.
      apply andb_true_iff. split.
      - apply existsb_exists. exists (shard_obs st s). split; [apply in_map; exact Hs|]. cbn [shard_obs o_id o_series].
        rewrite N.eqb_refl. apply (subset_refl series_eqb _ series_eqb_refl).
      - apply forallb_forall. intros d Hd. apply in_map_iff in Hd. destruct Hd as [db [E Hdb]]. subst d.
        cbn [db_obs d_db d_sfile o_db shard_obs]. destruct (N.eqb db (ss_db s)) eqn:Hd; [|reflexivity].
        apply N.eqb_eq in Hd. subst db. apply subset_key_iff. intros x Hx. unfold o_keys in Hx. cbn [o_series shard_obs] in Hx.
        rewrite (healthy_read st s H Hs) in Hx. apply (h_sfile st H s x Hs Hx). }
  destruct (find_shard_some st id sh Hf) as [Hsh Hid].
  pose proof (delete_healthy st id H) as H'.
  set (st' := snd (delete_shard st id)) in *.
  assert (Herr : fst (delete_shard st id) = DOk) by (rewrite (delete_found st id sh Hf); reflexivity).
  rewrite Herr. cbn [err_code fst snd N.eqb andb].
  (* the remaining shards read as before *)
  assert (Hrem : filter (fun o => negb (N.eqb (o_id o) id)) (map (shard_obs st) (st_shards st)) =
                 map (shard_obs st') (st_shards st')).
  { rewrite filter_map_comm. cbn [shard_obs o_id]. unfold st'. rewrite (delete_shards_eq st id sh Hf).
    apply map_ext_in. intros s Hs. apply filter_In in Hs. destruct Hs as [Hs Hne].
    apply negb_true_iff, N.eqb_neq in Hne. unfold shard_obs. rewrite (delete_read st id sh Hf s Hs Hne). reflexivity. }
  rewrite Hrem.
  apply andb_true_iff. split.
  - (* the observation is the expected one *)
    apply (link_core dbs st st'
             (fun d => if N.eqb (d_db d) (o_db (shard_obs st sh))
                       then diff (d_sfile d) (diff (o_keys (shard_obs st sh)) (held_in (map (shard_obs st') (st_shards st')) (d_db d)))
                       else d_sfile d) H').
    intros db Hdb. cbn [db_obs d_db d_sfile shard_obs o_db]. unfold st'. rewrite (delete_sfile st id sh Hf db).
    rewrite N.eqb_sym. destruct (N.eqb (ss_db sh) db) eqn:Hd; [|reflexivity].
    apply N.eqb_eq in Hd. subst db. f_equal. rewrite exclusive_eq. unfold o_keys. cbn [o_series shard_obs].
    rewrite (healthy_read st sh H Hsh). fold (keys sh). f_equal.
    fold st'. rewrite held_in_obs. fold (db_shards st' (ss_db sh)). fold (vis_keys st' (ss_db sh)).
    rewrite (healthy_vis st' (ss_db sh) H'). unfold all_keys, db_shards, st'. rewrite (delete_shards_eq st id sh Hf). reflexivity.
  - (* the safety half *)
    unfold del_safe. cbn [so_shards so_dbs]. apply forallb_forall. intros o Ho.
    apply in_map_iff in Ho. destruct Ho as [s [E Hs]]. subst o. cbn [shard_obs o_id o_db o_series].
    destruct (N.eqb (ss_id s) id) eqn:Hne; [reflexivity|]. apply N.eqb_neq in Hne.
    apply andb_true_iff. split.
    + apply existsb_exists. exists (shard_obs st' s). split.
      * apply in_map. apply (delete_remaining st id sh Hf). auto.
      * cbn [shard_obs o_id o_series]. rewrite N.eqb_refl. unfold st'. rewrite (delete_read st id sh Hf s Hs Hne).
        apply (subset_refl series_eqb _ series_eqb_refl).
    + apply forallb_forall. intros d Hd. apply in_map_iff in Hd. destruct Hd as [db [E Hdb]]. subst d.
      cbn [db_obs d_db d_sfile]. destruct (N.eqb db (ss_db s)) eqn:Hd; [|reflexivity].
      apply N.eqb_eq in Hd. subst db. apply subset_key_iff. intros x Hx. unfold o_keys in Hx. cbn [o_series shard_obs] in Hx.
      rewrite (healthy_read st s H Hs) in Hx. unfold st'.
      apply (delete_keeps_sfile st id sh Hf s x Hs Hne Hx). apply (h_sfile st H s x Hs Hx).
Qed.

Lemma link_reopen :
  step_spec (obs_of dbs st) OReopen (fst (apply_op st OReopen)) (obs_of dbs (snd (apply_op st OReopen))) = true.
Proof.
  unfold step_spec. cbn [apply_op fst snd expected N.eqb andb]. rewrite andb_true_r.
  pose proof (reopen_healthy st H) as H'.
  assert (Hsh : map (shard_obs (reopen st)) (st_shards (reopen st)) = map (shard_obs st) (st_shards st)).
  { cbn [reopen st_shards]. apply map_ext_in. intros s Hs.
    rewrite (healthy_shard_obs st s H Hs). apply (healthy_shard_obs (reopen st) s H' Hs). }
  unfold obs_of. rewrite Hsh. apply sobs_eqb_intro. intros db _.
  apply (dequiv_trans _ (exp_db (map (shard_obs st) (st_shards st)) (db_obs st db) (lookup db (st_sfile st)))).
  - rewrite <- Hsh. apply (healthy_db_obs (reopen st) db (db_obs st db) H'). reflexivity.
  - apply dequiv_sym. apply (healthy_db_obs st db (db_obs st db) H). reflexivity.
Qed.

Lemma link_write id k pts :
  step_spec (obs_of dbs st) (OWrite id k pts) (fst (apply_op st (OWrite id k pts)))
            (obs_of dbs (snd (apply_op st (OWrite id k pts)))) = true.
Proof.
  unfold step_spec. cbn [apply_op fst snd expected]. rewrite andb_true_r. unfold expected_write.
  cbn [obs_of so_shards so_dbs]. rewrite find_obs_map. fold (find_shard st id).
  destruct (find_shard st id) as [sh|] eqn:Hf.
  2:{ rewrite (write_not_found st id k pts Hf). cbn [fst snd err_code N.eqb andb].
      change (mkSO (map (shard_obs st) (st_shards st)) (map (db_obs st) dbs)) with (obs_of dbs st).
      apply sobs_eqb_refl. }
  destruct (find_shard_some st id sh Hf) as [Hsh Hid].
  pose proof (write_healthy st id k pts H) as H'.
  set (st' := snd (write_shard st id k pts)) in *.
  assert (Hshards : st_shards st' = map (upd id k pts) (st_shards st)).
  { unfold st'. rewrite (write_found st id k pts sh Hf). reflexivity. }
  assert (Herr : fst (write_shard st id k pts) = DOk) by (rewrite (write_found st id k pts sh Hf); reflexivity).
  rewrite Herr. cbn [err_code fst snd N.eqb andb].
  assert (Hobs : map (fun o => if N.eqb (o_id o) id then mkShO (o_id o) (o_db o) (o_rp o) (upsert k pts (o_series o)) else o)
                     (map (shard_obs st) (st_shards st)) = map (shard_obs st') (st_shards st')).
  { rewrite Hshards, !map_map. apply map_ext_in. intros s Hs.
    assert (Hs' : In (upd id k pts s) (st_shards st')) by (rewrite Hshards; apply in_map; exact Hs).
    rewrite (healthy_shard_obs st s H Hs), (healthy_shard_obs st' _ H' Hs'). cbn [o_id o_db o_rp o_series].
    unfold upd. destruct (N.eqb (ss_id s) id); reflexivity. }
  rewrite Hobs.
  apply (link_core dbs st st'
           (fun d => if N.eqb (d_db d) (o_db (shard_obs st sh)) then add_to k (d_sfile d) else d_sfile d) H').
  intros db Hdb. cbn [db_obs d_db d_sfile shard_obs o_db]. unfold st'. rewrite (write_found st id k pts sh Hf).
  cbn [snd st_sfile]. rewrite lookup_add, N.eqb_sym. reflexivity.
Qed.

Lemma link_step o :
  step_spec (obs_of dbs st) o (fst (apply_op st o)) (obs_of dbs (snd (apply_op st o))) = true.
Proof. destruct o as [id| |id k pts]; [apply link_delete | apply link_reopen | apply link_write]. Qed.

End Link.

(* every operation sequence on every healthy store *)
Lemma link_steps dbs ops : forall st, healthy st -> steps_spec (obs_of dbs st) (run_ops dbs st ops) = true.
Proof.
  induction ops as [|o ops IH]; intros st H; cbn [run_ops steps_spec]; [reflexivity|].
  rewrite (link_step dbs st H o). cbn [andb]. apply IH. apply apply_healthy. exact H.
Qed.

Lemma agree_steps dbs ops : forall st, steps_agree dbs st (run_ops dbs st ops) = true.
Proof.
  induction ops as [|o ops IH]; intros st; cbn [run_ops steps_agree]; [reflexivity|].
  rewrite N.eqb_refl, sobs_eqb_refl. cbn [andb]. apply IH.
Qed.

Theorem store_spec_ok_model dbs shs ops :
  valid_shards shs = true ->
  steps_spec (obs_of dbs (init_store shs)) (run_ops dbs (init_store shs) ops) = true.
Proof. intros Hv. apply link_steps. apply init_healthy. exact Hv. Qed.
