(* C17/StoreProofs.v — Store.DeleteShard: what it removes and what it leaves alone.
   Part 1: facts about EVERY store (no invariant assumed). *)
From Verif Require Import C17.Store.
Open Scope N_scope.

(* ---------- keys, membership, diff ---------- *)

Lemma key_eqb_eq a b : key_eqb a b = true <-> a = b.
Proof.
  destruct a as [a1 a2], b as [b1 b2]. unfold key_eqb. cbn [fst snd].
  rewrite andb_true_iff, !N.eqb_eq. split; [intros [H1 H2]; congruence | intros H; inversion H; auto].
Qed.
Lemma key_eqb_refl a : key_eqb a a = true.
Proof. apply key_eqb_eq. reflexivity. Qed.

Lemma kmem_In k l : kmem k l = true <-> In k l.
Proof.
  unfold kmem. rewrite existsb_exists. split.
  - intros [x [Hx He]]. apply key_eqb_eq in He. subst x. exact Hx.
  - intros H. exists k. split; [exact H | apply key_eqb_refl].
Qed.
Lemma kmem_false k l : kmem k l = false <-> ~ In k l.
Proof. rewrite <- kmem_In. destruct (kmem k l); split; intros H; try congruence; exfalso; apply H; reflexivity. Qed.
Lemma kmem_app k a b : kmem k (a ++ b) = kmem k a || kmem k b.
Proof. unfold kmem. apply existsb_app. Qed.
Lemma kmem_ext k a b : (forall x, In x a <-> In x b) -> kmem k a = kmem k b.
Proof.
  intros H. apply eq_true_iff_eq. rewrite !kmem_In. apply H.
Qed.

Lemma nmem_In x l : nmem x l = true <-> In x l.
Proof.
  unfold nmem. rewrite existsb_exists. split.
  - intros [y [Hy He]]. apply N.eqb_eq in He. subst y. exact Hy.
  - intros H. exists x. split; [exact H | apply N.eqb_refl].
Qed.

Lemma diff_In k a b : In k (diff a b) <-> In k a /\ ~ In k b.
Proof.
  unfold diff. rewrite filter_In, negb_true_iff, kmem_false. reflexivity.
Qed.
Lemma kmem_diff k a b : kmem k (diff a b) = kmem k a && negb (kmem k b).
Proof.
  apply eq_true_iff_eq. rewrite andb_true_iff, negb_true_iff, !kmem_In, kmem_false. apply diff_In.
Qed.

Lemma filter_filter {A} (p q : A -> bool) l : filter p (filter q l) = filter (fun x => q x && p x) l.
Proof.
  induction l as [|x l IH]; cbn [filter]; [reflexivity|].
  destruct (q x) eqn:Hq; cbn [filter andb]; [destruct (p x); rewrite IH; reflexivity | exact IH].
Qed.
Lemma diff_diff a b c : diff (diff a b) c = diff a (b ++ c).
Proof.
  unfold diff. rewrite filter_filter. apply filter_ext. intros k.
  rewrite kmem_app, negb_orb. reflexivity.
Qed.
Lemma diff_nil a : diff a [] = a.
Proof.
  induction a as [|x a IH]; [reflexivity|]. unfold diff in *. cbn [filter kmem existsb negb]. f_equal. exact IH.
Qed.

(* the iterated ss.Diff(...) over the remaining shards = the series of the deleted shard that
   none of them holds *)
Lemma exclusive_eq sh others : exclusive sh others = diff (keys sh) (flat_map keys others).
Proof.
  unfold exclusive. generalize (keys sh) as a.
  induction others as [|o r IH]; intros a; cbn [fold_left flat_map].
  - symmetry. apply diff_nil.
  - rewrite IH. apply diff_diff.
Qed.

(* ---------- the database maps ---------- *)

Lemma lookup_remove d db ks m :
  lookup d (remove_keys db ks m) = if N.eqb db d then diff (lookup d m) ks else lookup d m.
Proof.
  induction m as [|e m IH]; cbn [remove_keys map lookup].
  - destruct (N.eqb db d); reflexivity.
  - fold (remove_keys db ks m).
    destruct (N.eqb (fst e) db) eqn:He; cbn [fst snd].
    + apply N.eqb_eq in He. rewrite He.
      destruct (N.eqb db d) eqn:Hd; [reflexivity | exact IH].
    + destruct (N.eqb (fst e) d) eqn:Hd; [|exact IH].
      apply N.eqb_eq in Hd. rewrite Hd in He. rewrite N.eqb_sym in He. rewrite He. reflexivity.
Qed.

Lemma has_db_false db m : has_db db m = false -> lookup db m = [].
Proof.
  induction m as [|e m IH]; cbn [has_db existsb lookup]; [reflexivity|].
  intros H. apply orb_false_iff in H. destruct H as [H1 H2]. rewrite H1. apply IH. exact H2.
Qed.

Lemma lookup_app_miss d m x : has_db d m = false -> lookup d (m ++ x) = lookup d x.
Proof.
  induction m as [|e m IH]; cbn [has_db existsb lookup app]; [reflexivity|].
  intros H. apply orb_false_iff in H. destruct H as [H1 H2]. rewrite H1. apply IH. exact H2.
Qed.
Lemma lookup_app_hit d m x : has_db d m = true -> lookup d (m ++ x) = lookup d m.
Proof.
  induction m as [|e m IH]; cbn [has_db existsb lookup app]; [discriminate|].
  intros H. destruct (N.eqb (fst e) d) eqn:He; [reflexivity|]. apply IH. exact H.
Qed.

Lemma lookup_add_map d db k m :
  lookup d (map (fun e => if N.eqb (fst e) db then (fst e, add_to k (snd e)) else e) m) =
  if N.eqb db d then (if has_db db m then add_to k (lookup d m) else []) else lookup d m.
Proof.
  induction m as [|e m IH]; cbn [map lookup has_db existsb].
  - destruct (N.eqb db d); reflexivity.
  - fold (has_db db m). destruct (N.eqb (fst e) db) eqn:He; cbn [fst snd orb].
    + apply N.eqb_eq in He. rewrite He.
      destruct (N.eqb db d) eqn:Hd; [reflexivity | exact IH].
    + destruct (N.eqb (fst e) d) eqn:Hd.
      * apply N.eqb_eq in Hd. rewrite Hd in He. rewrite N.eqb_sym in He. rewrite He. reflexivity.
      * exact IH.
Qed.

Lemma lookup_add d db k m :
  lookup d (add_key db k m) = if N.eqb db d then add_to k (lookup d m) else lookup d m.
Proof.
  unfold add_key. destruct (has_db db m) eqn:Hh.
  - rewrite lookup_add_map, Hh. reflexivity.
  - destruct (N.eqb db d) eqn:Hd.
    + apply N.eqb_eq in Hd. subst d. rewrite (lookup_app_miss _ _ _ Hh), (has_db_false _ _ Hh).
      cbn [lookup fst snd]. rewrite N.eqb_refl. reflexivity.
    + destruct (has_db d m) eqn:Hd2.
      * apply lookup_app_hit. exact Hd2.
      * rewrite (lookup_app_miss _ _ _ Hd2), (has_db_false _ _ Hd2). cbn [lookup fst snd]. rewrite Hd. reflexivity.
Qed.

Lemma add_to_In x k l : In x (add_to k l) <-> x = k \/ In x l.
Proof.
  unfold add_to. destruct (kmem k l) eqn:Hk.
  - apply kmem_In in Hk. split; [auto | intros [H|H]; [subst; exact Hk | exact H]].
  - cbn [In]. split; intros [H|H]; auto.
Qed.

(* ---------- finding the shard ---------- *)

Lemma find_shard_some st id sh : find_shard st id = Some sh -> In sh (st_shards st) /\ ss_id sh = id.
Proof.
  unfold find_shard. intros H. apply find_some in H. destruct H as [H1 H2].
  apply N.eqb_eq in H2. auto.
Qed.
Lemma find_shard_none st id : find_shard st id = None -> forall s, In s (st_shards st) -> ss_id s <> id.
Proof.
  unfold find_shard. intros H s Hs He. apply (find_none _ _ H) in Hs. apply N.eqb_neq in Hs. auto.
Qed.

Lemma others_In st id db o :
  In o (others_of st id db) <-> In o (st_shards st) /\ ss_id o <> id /\ ss_db o = db.
Proof.
  unfold others_of. rewrite !filter_In, negb_true_iff, N.eqb_neq, N.eqb_eq. tauto.
Qed.

Lemma in_flat_keys k (l : list sshard) : In k (flat_map keys l) <-> exists o, In o l /\ In k (keys o).
Proof. apply in_flat_map. Qed.

(* ---------- DeleteShard on every store ---------- *)

Section Delete.
Variable st : store.
Variable id : N.
Variable sh : sshard.
Hypothesis Hfind : find_shard st id = Some sh.

Let st' := snd (delete_shard st id).

Lemma delete_found :
  delete_shard st id =
  (DOk, mkSt (filter (fun s => negb (N.eqb (ss_id s) id)) (st_shards st))
             (remove_keys (ss_db sh) (exclusive sh (others_of st id (ss_db sh))) (st_sfile st))
             (if ss_inmem sh || existsb ss_inmem (others_of st id (ss_db sh))
              then remove_keys (ss_db sh) (exclusive sh (others_of st id (ss_db sh))) (st_inmem st)
              else st_inmem st)).
Proof. unfold delete_shard. rewrite Hfind. reflexivity. Qed.

Lemma delete_shards_eq : st_shards st' = filter (fun s => negb (N.eqb (ss_id s) id)) (st_shards st).
Proof. unfold st'. rewrite delete_found. reflexivity. Qed.

Lemma delete_remaining o : In o (st_shards st') <-> In o (st_shards st) /\ ss_id o <> id.
Proof. rewrite delete_shards_eq, filter_In, negb_true_iff, N.eqb_neq. reflexivity. Qed.

(* the series the delete removes from the series file of the shard's database *)
Lemma exclusive_In k :
  In k (exclusive sh (others_of st id (ss_db sh))) <->
  In k (keys sh) /\ forall o, In o (st_shards st) -> ss_id o <> id -> ss_db o = ss_db sh -> ~ In k (keys o).
Proof.
  rewrite exclusive_eq, diff_In, in_flat_keys. split.
  - intros [H1 H2]. split; [exact H1|]. intros o Ho Hid Hdb Hk. apply H2. exists o. split; [|exact Hk].
    apply others_In. auto.
  - intros [H1 H2]. split; [exact H1|]. intros [o [Ho Hk]]. apply others_In in Ho.
    destruct Ho as [Ho [Hid Hdb]]. apply (H2 o Ho Hid Hdb Hk).
Qed.

Lemma delete_sfile db :
  lookup db (st_sfile st') =
  if N.eqb (ss_db sh) db then diff (lookup db (st_sfile st)) (exclusive sh (others_of st id (ss_db sh)))
  else lookup db (st_sfile st).
Proof. unfold st'. rewrite delete_found. cbn [snd st_sfile]. apply lookup_remove. Qed.

Lemma delete_inmem db :
  lookup db (st_inmem st') =
  if (ss_inmem sh || existsb ss_inmem (others_of st id (ss_db sh))) && N.eqb (ss_db sh) db
  then diff (lookup db (st_inmem st)) (exclusive sh (others_of st id (ss_db sh)))
  else lookup db (st_inmem st).
Proof.
  unfold st'. rewrite delete_found. cbn [snd st_inmem].
  destruct (ss_inmem sh || existsb ss_inmem (others_of st id (ss_db sh))); cbn [andb]; [apply lookup_remove | reflexivity].
Qed.

(* delete_shard_exact: the series file of database db afterwards holds exactly what it held
   before, minus the series of the deleted shard that no remaining shard of the same
   database holds (other databases: unchanged) *)
Lemma delete_exact db k :
  In k (lookup db (st_sfile st')) <->
  In k (lookup db (st_sfile st)) /\
  ~ (db = ss_db sh /\ In k (keys sh) /\
     forall o, In o (st_shards st) -> ss_id o <> id -> ss_db o = db -> ~ In k (keys o)).
Proof.
  rewrite delete_sfile. destruct (N.eqb (ss_db sh) db) eqn:Hd.
  - apply N.eqb_eq in Hd. subst db. rewrite diff_In, exclusive_In. tauto.
  - apply N.eqb_neq in Hd. split; [intros H; split; [exact H | intros [H1 _]; congruence] | tauto].
Qed.

(* no series a remaining shard of the database holds — whatever its retention policy — leaves
   the series file or the shared index *)
Lemma held_not_exclusive o k :
  In o (st_shards st) -> ss_id o <> id -> In k (keys o) -> ss_db o = ss_db sh ->
  ~ In k (exclusive sh (others_of st id (ss_db sh))).
Proof.
  intros Ho Hid Hk Hdb Hx. apply exclusive_In in Hx. destruct Hx as [_ Hx]. apply (Hx o Ho Hid Hdb Hk).
Qed.

Lemma delete_keeps_sfile o k :
  In o (st_shards st) -> ss_id o <> id -> In k (keys o) ->
  In k (lookup (ss_db o) (st_sfile st)) -> In k (lookup (ss_db o) (st_sfile st')).
Proof.
  intros Ho Hid Hk Hin. rewrite delete_sfile. destruct (N.eqb (ss_db sh) (ss_db o)) eqn:Hd; [|exact Hin].
  apply N.eqb_eq in Hd. apply diff_In. split; [exact Hin|]. apply (held_not_exclusive o k Ho Hid Hk). auto.
Qed.

Lemma delete_keeps_inmem o k :
  In o (st_shards st) -> ss_id o <> id -> In k (keys o) ->
  In k (lookup (ss_db o) (st_inmem st)) -> In k (lookup (ss_db o) (st_inmem st')).
Proof.
  intros Ho Hid Hk Hin. rewrite delete_inmem.
  destruct ((ss_inmem sh || existsb ss_inmem (others_of st id (ss_db sh))) && N.eqb (ss_db sh) (ss_db o)) eqn:Hd; [|exact Hin].
  apply andb_true_iff in Hd. destruct Hd as [_ Hd].
  apply N.eqb_eq in Hd. apply diff_In. split; [exact Hin|]. apply (held_not_exclusive o k Ho Hid Hk). auto.
Qed.

(* every read of every remaining shard is unchanged *)
Lemma delete_visible o k :
  In o (st_shards st) -> ss_id o <> id -> In k (keys o) -> visible st' o k = visible st o k.
Proof.
  intros Ho Hid Hk. unfold visible. rewrite delete_sfile, delete_inmem.
  assert (Hx : ss_db o = ss_db sh -> kmem k (exclusive sh (others_of st id (ss_db sh))) = false).
  { intros Hdb. apply kmem_false. apply (held_not_exclusive o k Ho Hid Hk Hdb). }
  destruct (N.eqb (ss_db sh) (ss_db o)) eqn:Hd.
  - apply N.eqb_eq in Hd. symmetry in Hd. rewrite andb_true_r, !kmem_diff, (Hx Hd). cbn [negb]. rewrite !andb_true_r.
    destruct (ss_inmem sh || existsb ss_inmem (others_of st id (ss_db sh))); rewrite ?kmem_diff, ?(Hx Hd); cbn [negb];
      rewrite ?andb_true_r; reflexivity.
  - rewrite andb_false_r. reflexivity.
Qed.

Lemma delete_read o : In o (st_shards st) -> ss_id o <> id -> read_shard st' o = read_shard st o.
Proof.
  intros Ho Hid. unfold read_shard. apply filter_ext_in. intros e He.
  apply delete_visible; [exact Ho | exact Hid | apply in_map; exact He].
Qed.

End Delete.

Lemma delete_not_found st id :
  find_shard st id = None -> delete_shard st id = (DNotFound, st).
Proof. intros H. unfold delete_shard. rewrite H. reflexivity. Qed.
