(* C17/ProofsHist.v — sequences of passes, several nodes, and the boundary: shards whose
   group is unknown to the metadata are never touched. *)
From Verif Require Import C17.Model C17.Spec C17.Proofs C17.ProofsComplete.
From VerifGen Require Import Consts.
From Coq Require Import ZifyBool.
Open Scope Z_scope.

(* ---------- a pass keeps the metadata well-formed, whatever fails ---------- *)

Lemma mark_step_wf tdel dbn rpn s g : wf (m_auth s) -> wf (m_auth (mark_step tdel dbn rpn s g)).
Proof.
  intros H. unfold mark_step. destruct (next (m_orc s)) as [f o'].
  destruct f; destruct (delete_shard_group (m_auth s) dbn rpn (g_id g) tdel) as [a|] eqn:Ed; cbn [m_auth];
    try exact H; apply (delete_wf _ _ _ _ _ _ Ed); exact H.
Qed.

Lemma meta_phase_wf now tdel snap s : wf (m_auth s) -> wf (m_auth (meta_phase now tdel snap s)).
Proof.
  intros H. unfold meta_phase. apply fold_left_ind; [exact H|].
  intros s1 d _ H1. unfold db_step. apply fold_left_ind; [exact H1|].
  intros s2 r _ H2. unfold rp_step. apply fold_left_ind; [exact H2|].
  intros s3 g _ H3. apply mark_step_wf. exact H3.
Qed.

Lemma pass_wf i : wf (i_auth i) -> wf (r_auth (pass i)).
Proof.
  intros H. destruct (pass_unfold i) as [ok [_ [_ [Ha|[_ Ha]]]]]; rewrite Ha.
  - apply prune_wf. unfold pass_s1. apply meta_phase_wf. exact H.
  - unfold pass_s1. apply meta_phase_wf. exact H.
Qed.

(* ---------- expiry is monotone in time ---------- *)

Lemma e_expired_mono now1 now2 e : now1 <= now2 -> e_expired now1 e = true -> e_expired now2 e = true.
Proof.
  unfold e_expired. intros Hle H. apply expired_at_spec in H. apply expired_at_spec. lia.
Qed.

Lemma nothing_left_mono now1 now2 m l :
  now1 <= now2 -> nothing_left now2 m l = true -> nothing_left now1 m l = true.
Proof.
  unfold nothing_left. intros Hle H. apply andb_true_iff in H. destruct H as [H1 H2]. rewrite H2, andb_true_r.
  apply forallb_forall. intros e He. rewrite forallb_forall in H1. specialize (H1 e He).
  destruct (e_expired now1 e) eqn:E; [|reflexivity].
  rewrite (e_expired_mono _ _ _ Hle E) in H1. discriminate.
Qed.

(* ---------- histories ---------- *)

Definition wf_hist (h : list step) : Prop := forall m, In (SEnvMeta m) h -> wf m.

Lemma do_step_wf c s : wf (c_meta c) -> (forall m, s = SEnvMeta m -> wf m) -> wf (c_meta (do_step c s)).
Proof.
  intros H Hs. destruct s as [n now tdel tprune orc|m|n l]; cbn [do_step c_meta].
  - apply pass_wf. exact H.
  - apply Hs. reflexivity.
  - exact H.
Qed.

Lemma run_wf h : forall c, wf (c_meta c) -> wf_hist h -> wf (c_meta (run c h)).
Proof.
  induction h as [|s h IH]; intros c H Hh; cbn [run fold_left]; [exact H|].
  apply IH.
  - apply do_step_wf; [exact H|]. intros m ->. apply Hh. left. reflexivity.
  - intros m Hm. apply Hh. right. exact Hm.
Qed.

(* every pass of every history is safe w.r.t. the state it ran on *)
Lemma history_safe c h n now tdel tprune orc :
  let c' := run c h in
  retention_safe_prop (c_meta c') now (get_node n (c_nodes c'))
                      (r_calls (pass (node_input c' n now tdel tprune orc))).
Proof. intros c'. apply (pass_retention_safe (node_input c' n now tdel tprune orc)). Qed.

(* after ANY history (passes with arbitrary failures, environment changes that keep the
   metadata well-formed) one failure-free pass of a node finishes that node's work as of
   every time up to now *)
Lemma eventually_complete c h n now now' tdel tprune orc :
  wf (c_meta c) -> wf_hist h -> forallb is_fok orc = true -> now' <= now ->
  let c' := run c h in
  let r := pass (node_input c' n now tdel tprune orc) in
  forallb call_ok (r_calls r) = true /\ nothing_left now' (r_auth r) (r_local r) = true.
Proof.
  intros Hw Hh Ho Hle c' r.
  destruct (pass_clean_complete (node_input c' n now tdel tprune orc) Ho eq_refl (run_wf h c Hw Hh)) as [A [B _]].
  split; [exact A|]. apply (nothing_left_mono _ now); [exact Hle | exact B].
Qed.

(* ---------- several nodes ---------- *)

Lemma get_set_same n l ns : In n (map fst ns) -> get_node n (set_node n l ns) = l.
Proof.
  induction ns as [|[k v] ns IH]; cbn; intros H; [contradiction|].
  destruct (N.eqb k n) eqn:E; cbn; rewrite E; [reflexivity|].
  destruct H as [H|H]; [subst k; rewrite N.eqb_refl in E; discriminate|]. apply IH. exact H.
Qed.

Lemma get_set_other n n' l ns : n <> n' -> get_node n (set_node n' l ns) = get_node n ns.
Proof.
  intros Hne. induction ns as [|[k v] ns IH]; cbn; [reflexivity|].
  destruct (N.eqb k n') eqn:E; cbn.
  - apply N.eqb_eq in E. subst k. destruct (N.eqb n' n) eqn:E2; [apply N.eqb_eq in E2; congruence|reflexivity].
  - destruct (N.eqb k n); [reflexivity|exact IH].
Qed.

Lemma set_node_keys n l ns : map fst (set_node n l ns) = map fst ns.
Proof.
  induction ns as [|[k v] ns IH]; cbn; [reflexivity|]. destruct (N.eqb k n); cbn; [reflexivity|].
  rewrite IH. reflexivity.
Qed.

Lemma filter_all_false {A} (p : A -> bool) l : (forall x, In x l -> p x = false) -> filter p l = [].
Proof.
  induction l as [|a l IH]; cbn; intros H; [reflexivity|]. rewrite (H a (or_introl eq_refl)).
  apply IH. intros x Hx. apply H. right. exact Hx.
Qed.

(* when nothing is expired the metadata loops leave the metadata alone *)
Lemma meta_phase_noexp now tdel snap s :
  (forall e, In e (entries snap) -> e_expired now e = false) ->
  m_auth (meta_phase now tdel snap s) = m_auth s.
Proof.
  intros H. unfold meta_phase.
  apply (fold_left_ind (db_step now tdel) (fun s' => m_auth s' = m_auth s)); [reflexivity|].
  intros s1 d Hd H1. unfold db_step.
  apply (fold_left_ind (rp_step now tdel (db_name d)) (fun s' => m_auth s' = m_auth s)); [exact H1|].
  intros s2 r Hr H2. unfold rp_step.
  assert (E : expired_groups r now = []).
  { unfold expired_groups. apply filter_all_false. intros g Hg.
    apply (H (mkE (db_name d) (rp_name r) (rp_dur r) g)). apply entry_in; assumption. }
  rewrite E. cbn [fold_left m_auth]. exact H2.
Qed.

Definition no_expired (now : Z) (m : meta) : Prop := forall e, In e (entries m) -> e_expired now e = false.
Definition node_clean (m : meta) (l : list N) : Prop :=
  forall id, In id l -> forall e, In e (entries m) -> e_deleted e = true -> holds e id = false.

Lemma nothing_left_props now m l : nothing_left now m l = true -> no_expired now m /\ node_clean m l.
Proof.
  unfold nothing_left. intros H. apply andb_true_iff in H. destruct H as [H1 H2]. split.
  - intros e He. rewrite forallb_forall in H1. apply negb_true_iff. apply H1. exact He.
  - intros id Hid e He Hd. rewrite forallb_forall in H2. specialize (H2 id Hid). apply negb_true_iff in H2.
    destruct (holds e id) eqn:Eh; [|reflexivity].
    assert (X : existsb (fun e0 => e_deleted e0 && holds e0 id) (entries m) = true).
    { apply existsb_exists. exists e. rewrite Hd, Eh. auto. }
    congruence.
Qed.

Definition sweep (now : Z) (td tp : N -> Z) (ns : list N) : list step :=
  map (fun n => SPass n now (td n) (tp n) []) ns.

Definition sweep_inv (now : Z) (done : list N) (c : cluster) : Prop :=
  wf (c_meta c) /\ no_expired now (c_meta c) /\
  forall n, In n done -> node_clean (c_meta c) (get_node n (c_nodes c)).

Lemma sweep_step now td tp n done c :
  wf (c_meta c) -> (done <> [] -> no_expired now (c_meta c)) ->
  (forall n', In n' done -> node_clean (c_meta c) (get_node n' (c_nodes c))) ->
  In n (map fst (c_nodes c)) ->
  sweep_inv now (n :: done) (do_step c (SPass n now (td n) (tp n) [])).
Proof.
  intros Hw Hne Hdone Hn. cbn [do_step].
  set (i := node_input c n now (td n) (tp n) []).
  destruct (pass_clean_complete i eq_refl eq_refl Hw) as [_ [B W]].
  apply nothing_left_props in B. destruct B as [B1 B2].
  unfold sweep_inv. cbn [c_meta c_nodes]. split; [exact W|]. split; [exact B1|].
  intros n' [Hn'|Hn'].
  - subst n'. rewrite get_set_same by exact Hn. exact B2.
  - destruct (N.eq_dec n' n) as [->|Hd]; [rewrite get_set_same by exact Hn; exact B2|].
    rewrite get_set_other by exact Hd.
    (* an earlier node: the metadata only lost groups, it did not gain deleted ones *)
    assert (Hdn : done <> []) by (intros ->; contradiction).
    specialize (Hne Hdn).
    assert (Hincl : forall e, In e (entries (r_auth (pass i))) -> In e (entries (c_meta c))).
    { intros e He. destruct (pass_unfold i) as [ok [_ [_ [Ha|[_ Ha]]]]]; rewrite Ha in He.
      - apply prune_entries_incl in He. unfold pass_s1 in He. rewrite (meta_phase_noexp _ _ _ _ Hne) in He. exact He.
      - unfold pass_s1 in He. rewrite (meta_phase_noexp _ _ _ _ Hne) in He. exact He. }
    intros id Hid e He Hde. apply (Hdone n' Hn' id Hid e (Hincl e He) Hde).
Qed.

Lemma sweep_all now td tp : forall ns done c,
  wf (c_meta c) -> (done <> [] -> no_expired now (c_meta c)) ->
  (forall n', In n' done -> node_clean (c_meta c) (get_node n' (c_nodes c))) ->
  (forall n, In n ns -> In n (map fst (c_nodes c))) ->
  let c' := run c (sweep now td tp ns) in
  wf (c_meta c') /\ (ns ++ done <> [] -> no_expired now (c_meta c')) /\
  forall n, In n (ns ++ done) -> node_clean (c_meta c') (get_node n (c_nodes c')).
Proof.
  induction ns as [|n ns IH]; intros done c Hw Hne Hdone Hns; cbn [sweep map run fold_left app].
  - auto.
  - destruct (sweep_step now td tp n done c Hw Hne Hdone (Hns n (or_introl eq_refl))) as [W [NE CL]].
    specialize (IH (n :: done) (do_step c (SPass n now (td n) (tp n) [])) W (fun _ => NE) CL).
    cbv zeta in IH. fold (sweep now td tp ns) in *. unfold run in IH.
    destruct IH as [I1 [I2 I3]].
    + intros n' Hn'. cbn [do_step c_nodes]. rewrite set_node_keys. apply Hns. right. exact Hn'.
    + split; [exact I1|]. split.
      * intros _. apply I2. destruct ns; cbn; discriminate.
      * intros n' Hn'. apply I3. apply in_or_app. destruct Hn' as [->|Hn'].
        -- right; left; reflexivity.
        -- apply in_app_or in Hn'. destruct Hn' as [Hn'|Hn']; [left; exact Hn' | right; right; exact Hn'].
Qed.

(* ---------- shards unknown to the metadata ---------- *)

Lemma shard_fold_keeps del x ids : forall s,
  In x (s_local s) -> mem x del = false -> In x (s_local (fold_left (shard_step del) ids s)).
Proof.
  induction ids as [|id ids IH]; intros s Hx Hm; cbn [fold_left]; [exact Hx|].
  apply IH; [|exact Hm]. unfold shard_step. destruct (mem id del) eqn:E; [|exact Hx].
  assert (Hne : N.eqb x id = false).
  { destruct (N.eqb x id) eqn:E2; [|reflexivity]. apply N.eqb_eq in E2. subst. congruence. }
  destruct (next (s_orc s)) as [f o']. destruct f; cbn [s_local]; try exact Hx;
    unfold remove_id; apply filter_In; rewrite Hne; auto.
Qed.

Lemma unknown_shard_untouched i id :
  (forall e, In e (entries (i_snap i)) -> holds e id = false) -> In id (i_local i) ->
  In id (r_local (pass i)) /\ forall ok, ~ In (CDelShard id ok) (r_calls (pass i)).
Proof.
  intros Hunk Hloc. split.
  - destruct (pass_unfold i) as [ok [_ [Hl _]]]. rewrite Hl. unfold pass_s2.
    apply shard_fold_keeps; [exact Hloc|].
    destruct (mem id (m_del (pass_s1 i))) eqn:E; [|reflexivity]. exfalso.
    destruct (pass_s1_minv i) as [_ [_ Hj]]. specialize (Hj id E).
    unfold shard_justified in Hj. apply existsb_exists in Hj. destruct Hj as [e [He Hh]].
    apply andb_true_iff in Hh. destruct Hh as [Hh _]. rewrite (Hunk e He) in Hh. discriminate.
  - intros ok Hin. apply in_split in Hin. destruct Hin as [pre [post Heq]].
    pose proof (pass_retention_safe i pre _ post Heq) as H. cbn in H.
    destruct H as [_ [e [He [Hid _]]]]. apply mem_In in Hid.
    unfold holds in Hunk. rewrite (Hunk e He) in Hid. discriminate.
Qed.

(* ---------- final forms used in Props.v ---------- *)

Lemma expired_groups_iff r t g :
  In g (expired_groups r t) <->
  In g (rp_groups r) /\ g_del g = None /\ rp_dur r <> 0 /\ g_end g + rp_dur r < t.
Proof.
  unfold expired_groups. rewrite filter_In, expired_at_spec. unfold deleted.
  destruct (g_del g); intuition congruence.
Qed.

Lemma all_nodes_clean_lemma c now td tp ns :
  wf (c_meta c) -> ns <> [] -> (forall n, In n ns -> In n (map fst (c_nodes c))) ->
  let c' := run c (sweep now td tp ns) in
  wf (c_meta c') /\
  (forall e, In e (entries (c_meta c')) -> e_expired now e = false) /\
  (forall n id e, In n ns -> In id (get_node n (c_nodes c')) -> In e (entries (c_meta c')) ->
                  e_deleted e = true -> holds e id = false).
Proof.
  intros Hw Hne Hns c'.
  destruct (sweep_all now td tp ns [] c Hw (fun H => False_ind _ (H eq_refl)) (fun n H => False_ind _ H) Hns)
    as [A [B C]]. fold c' in A, B, C. rewrite app_nil_r in B, C.
  split; [exact A|]. split; [exact (B Hne)|].
  intros n id e Hn Hid He Hd. exact (C n Hn id Hid e He Hd).
Qed.

Lemma pass_complete_lemma i :
  forallb is_fok (i_orc i) = true -> i_auth i = i_snap i -> wf (i_snap i) ->
  (forall c, In c (r_calls (pass i)) -> call_ok c = true) /\
  (forall e, In e (entries (r_auth (pass i))) -> e_expired (i_now i) e = false) /\
  (forall id e, In id (r_local (pass i)) -> In e (entries (r_auth (pass i))) ->
                e_deleted e = true -> holds e id = false) /\
  wf (r_auth (pass i)).
Proof.
  intros Ho Ha Hw. destruct (pass_clean_complete i Ho Ha Hw) as [A [B W]].
  apply nothing_left_props in B. destruct B as [B1 B2].
  split; [rewrite forallb_forall in A; exact A|]. split; [exact B1|]. split; [|exact W].
  intros id e Hid He Hd. exact (B2 id Hid e He Hd).
Qed.

Lemma dropped_iff_lemma (create : Z -> option group) now dur pts flags :
  (forall t g, create t = Some g -> contains g t = true) ->
  map_shards create now dur pts = Some flags ->
  length flags = length pts /\
  forall k t f, nth_error pts k = Some t -> nth_error flags k = Some f ->
                (f = true <-> t < (if 0 <? dur then now - dur else c17_min_nano_time)).
Proof.
  intros Hc Hm. apply (drops_ok_nth now dur). apply (map_shards_drops create Hc). exact Hm.
Qed.

(* boundary witness: node 2 was away while group 1 (deleted 15 days ago) was pruned by
   node 1's pass; node 2's shard 7 is then unknown to the metadata and stays *)
Definition linger_now : Z := 1790000000000000000.
Definition linger_cluster : cluster :=
  mkCl [mkDb 0 [mkPolicy 0 3600000000000 3600000000000
         [mkGroup 1 (linger_now - 40000000000000) (linger_now - 36000000000000)
                  (Some (linger_now - 1296000000000000)) None [mkShard 7 [2%N]]]]]
       [(1%N, []); (2%N, [7%N])].
Definition linger_hist : list step :=
  [SPass 1 linger_now linger_now linger_now []; SPass 2 linger_now linger_now linger_now [];
   SPass 2 (linger_now + 1000) linger_now linger_now []].

Lemma linger_witness :
  wf_b (c_meta linger_cluster) = true /\
  existsb (fun e => e_deleted e && holds e 7%N) (entries (c_meta linger_cluster)) = true /\
  entries (c_meta (run linger_cluster linger_hist)) = [] /\
  get_node 2 (c_nodes (run linger_cluster linger_hist)) = [7%N].
Proof. vm_compute. auto. Qed.
